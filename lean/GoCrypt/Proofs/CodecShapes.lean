import GoCrypt.Proofs.CodecSteps
import GoCrypt.Proofs.Shapes

/-!
# Round trips for the shipped layouts

One theorem per scheme struct, on the `TypeInfo` computed from the generated shape
(`Proofs/Shapes.lean`). md5, sha1 and nthash are instances of `L1.roundtrip_L1`; the others compose the
step lemmas of `Proofs/CodecSteps.lean`.
-/

namespace GoCrypt.Codec.Shapes
open Bytes GoCrypt.Parse GoCrypt.Codec

/-! ## md5, sha1, nthash: instances of L1 -/

def md5Vals (p salt sum : Bytes) : Vals := [([0], .str p), ([1], .bytes salt), ([2], .bytes sum)]

theorem roundtrip_md5 (p salt sum s : Bytes) (hp : p = [36, 49, 36])
    (hm : marshal md5TI (md5Vals p salt sum) = .ok s) :
    ∃ out, unmarshal md5TI s = .ok out ∧ finalVals md5TI out = md5Vals p salt sum := by
  have hs : L1.shapeOk md5TI = true := by decide
  have hv := L1.valuesOk_intro md5TI _ s hs hm
    (by intro f hf
        simp only [md5TI, List.mem_cons, List.not_mem_nil, or_false] at hf
        rcases hf with rfl | rfl <;> rfl)
    ⟨_, p, rfl, rfl, by subst hp; simp, by subst hp; decide⟩
    (by intro f hf
        simp only [md5TI, List.getLast?_cons_cons, List.getLast?_singleton, Option.some.injEq] at hf
        subst hf; decide)
  exact L1.roundtrip_L1 md5TI _ s hs hv hm

def sha1Vals (p : Bytes) (rounds : Nat) (salt sum : Bytes) : Vals :=
  [([0], .str p), ([1], .uint rounds), ([2], .bytes salt), ([3], .bytes sum)]

theorem roundtrip_sha1 (p salt sum s : Bytes) (rounds : Nat) (hp : p = [36, 115, 104, 97, 49, 36])
    (hr : rounds < 2 ^ 32) (hsum : sum.length = 28)
    (hm : marshal sha1TI (sha1Vals p rounds salt sum) = .ok s) :
    ∃ out, unmarshal sha1TI s = .ok out ∧ finalVals sha1TI out = sha1Vals p rounds salt sum := by
  have hs : L1.shapeOk sha1TI = true := by decide
  have hv := L1.valuesOk_intro sha1TI _ s hs hm
    (by intro f hf
        simp only [sha1TI, List.mem_cons, List.not_mem_nil, or_false] at hf
        rcases hf with rfl | rfl | rfl
        · show valOk sha1_Rounds (.uint rounds) = true
          simpa [valOk, sha1_Rounds] using hr
        · rfl
        · show valOk sha1_Sum (.bytes sum) = true
          simp [valOk, sha1_Sum, hsum])
    ⟨_, p, rfl, rfl, by subst hp; simp, by subst hp; decide⟩
    (by intro f hf
        simp only [sha1TI, List.getLast?_cons_cons, List.getLast?_singleton, Option.some.injEq] at hf
        subst hf; decide)
  exact L1.roundtrip_L1 sha1TI _ s hs hv hm

def nthashVals (p empty sum : Bytes) : Vals := [([0], .str p), ([1], .bytes empty), ([2], .bytes sum)]

theorem roundtrip_nthash (p empty sum s : Bytes) (hp : p = [36, 51, 36])
    (hempty : empty.length = 0) (hsum : sum.length = 32)
    (hm : marshal nthashTI (nthashVals p empty sum) = .ok s) :
    ∃ out, unmarshal nthashTI s = .ok out ∧ finalVals nthashTI out = nthashVals p empty sum := by
  have hs : L1.shapeOk nthashTI = true := by decide
  have hv := L1.valuesOk_intro nthashTI _ s hs hm
    (by intro f hf
        simp only [nthashTI, List.mem_cons, List.not_mem_nil, or_false] at hf
        rcases hf with rfl | rfl
        · show valOk nthash_Empty (.bytes empty) = true
          simp [valOk, nthash_Empty, hempty]
        · show valOk nthash_Sum (.bytes sum) = true
          simp [valOk, nthash_Sum, hsum])
    ⟨_, p, rfl, rfl, by subst hp; simp, by subst hp; decide⟩
    (by intro f hf
        simp only [nthashTI, List.getLast?_cons_cons, List.getLast?_singleton, Option.some.injEq] at hf
        subst hf; decide)
  exact L1.roundtrip_L1 nthashTI _ s hs hv hm

/-! ## sha256, sha512: an optional `rounds=` param in front of two positional fields -/

def sha256Vals (p : Bytes) (rounds : Nat) (salt sum : Bytes) : Vals :=
  [([0], .str p), ([1], .uint rounds), ([2], .bytes salt), ([3], .bytes sum)]

theorem roundtrip_sha256 (p salt sum s : Bytes) (rounds : Nat)
    (hp : p = [36, 53, 36]) (hr : rounds < 2 ^ 32) (hsum : sum.length = 43)
    (hm : marshal sha256TI (sha256Vals p rounds salt sum) = .ok s) :
    ∃ out, unmarshal sha256TI s = .ok out ∧ finalVals sha256TI out = sha256Vals p rounds salt sum := by
  obtain ⟨hs, hpm, hfm⟩ := marshal_render sha256TI _ s hm
  generalize hvals : sha256Vals p rounds salt sum = vals at *
  have hv0 : fieldVal vals sha256_HashPrefix = .str p := by subst hvals; rfl
  have hv1 : fieldVal vals sha256_Rounds = .uint rounds := by subst hvals; rfl
  have hv2 : fieldVal vals sha256_Salt = .bytes salt := by subst hvals; rfl
  have hv3 : fieldVal vals sha256_Sum = .bytes sum := by subst hvals; rfl
  -- prefix
  obtain ⟨hpstr, -, -, hpft, hpsv⟩ := L1.prefix_text vals sha256_HashPrefix (by decide) (by rw [hv0]; rfl)
    (hpm _ rfl)
  have hptx : textOf vals sha256_HashPrefix = p := by
    rw [hv0] at hpstr; exact (FVal.str.inj hpstr).symm
  -- plain tail
  have hS := L1.plainField_text vals sha256_Salt (by decide) (by rw [hv2]; rfl)
    (hfm _ (by simp [sha256TI]) (by simp [emitted, sha256_Salt]))
  have hD := L1.plainField_text vals sha256_Sum (by decide) (by rw [hv3]; simp [valOk, sha256_Sum, hsum])
    (hfm _ (by simp [sha256TI]) (by simp [emitted, sha256_Sum]))
  have hDlen : (textOf vals sha256_Sum).length = 43 :=
    (marshalValue_ok (hfm sha256_Sum (by simp [sha256TI]) (by simp [emitted, sha256_Sum]))).2.1 rfl
  -- the plain tail of the loop
  have htail : ∀ st : LoopSt, st.group = none →
      FragsMatch st.frags [textOf vals sha256_Salt, textOf vals sha256_Sum] →
      ∃ st', loopFields s.length [sha256_Salt, sha256_Sum] st = .ok st' ∧ st'.frags = [] ∧ st'.group = none ∧
        st'.out = st.out ++ [([2], .bytes salt), ([3], .bytes sum)] := by
    intro st hg hfm
    obtain ⟨st', h1, h2, h3, h4⟩ := loopFields_plain s.length (textOf vals) (fieldVal vals) [sha256_Salt, sha256_Sum] st
      (by
        intro f hf
        simp only [List.mem_cons, List.not_mem_nil, or_false] at hf
        rcases hf with rfl | rfl
        · exact ⟨hS.1, hS.2.2.2⟩
        · exact ⟨hD.1, hD.2.2.2⟩)
      hg hfm
    refine ⟨st', h1, h2, h3, ?_⟩
    rw [h4]; simp only [List.map, hv2, hv3]; rfl
  have hlastne : [textOf vals sha256_Sum].getLast? ≠ some [] := by
    intro h
    simp only [List.getLast?_singleton, Option.some.injEq] at h
    rw [h] at hDlen; simp at hDlen
  have hwf : ∀ body, WfPrefix (some p) body := fun body => wfPrefix_of_wellFormed p body (by subst hp; decide)
  have hwl : ∀ l, sha256_HashPrefix.unmarshalText = .whitelist l → l.contains (textOf vals sha256_HashPrefix) = true := by
    intro l hl
    simp only [sha256_HashPrefix, TextCodec.whitelist.injEq] at hl
    subst hl; rw [hptx, hp]; decide
  have hpp : ∀ frags, prefixPart sha256TI s.length ⟨some p, frags⟩ = .ok [([0], .str p)] := by
    intro frags
    have h1 := hpft p.length
    have h2 := hpsv p.length hwl
    rw [hptx] at h1 h2
    simp only [prefixPart, sha256TI, h1, h2, bind, Except.bind, pure, Except.pure]
    rfl
  have hemS : emitted vals sha256_Salt = true := rfl
  have hemD : emitted vals sha256_Sum = true := rfl
  have hfields : sha256TI.fields = [sha256_Rounds, sha256_Salt, sha256_Sum] := rfl
  have hpfx : sha256TI.hashPrefix = some sha256_HashPrefix := rfl
  have hnS : ∀ t, namedText sha256_Salt t = t := fun _ => rfl
  have hnD : ∀ t, namedText sha256_Sum t = t := fun _ => rfl
  rw [hfields, hpfx] at hs
  simp only [hptx] at hs
  by_cases hr0 : rounds = 0
  · -- `rounds=` omitted
    have hem : emitted vals sha256_Rounds = false := by
      unfold emitted; rw [hv1, hr0]; rfl
    have hbody : s = p ++ joinWith dollar [textOf vals sha256_Salt, textOf vals sha256_Sum] := by
      rw [hs, renderFields_cons_omit _ _ _ _ hem, renderFields_cons_emit _ _ _ _ hemS,
        renderFields_cons_emit _ _ _ _ hemD, renderFields_nil, hnS, hnD]
      simp [joinWith, sepOf, sha256_Salt, sha256_Sum]
    have hparse := parse_render (some p) [textOf vals sha256_Salt, textOf vals sha256_Sum] (hwf _)
      (by intro t ht; simp only [List.mem_cons, List.not_mem_nil, or_false] at ht
          rcases ht with rfl | rfl
          · exact hS.2.1
          · exact hD.2.1)
      (by simpa using hlastne)
    simp only [Option.getD_some] at hparse
    rw [← hbody] at hparse
    -- the loop
    have hstep1 := stepField_skip s.length sha256_Rounds
      { frags := valueFrags p.length [textOf vals sha256_Salt, textOf vals sha256_Sum],
        numValues := 2, numReq := 2, out := [([0], .str p)] } _ _ rfl rfl rfl (by show (2 : Int) - 2 ≤ 0; decide)
    obtain ⟨st', hl, hfr, hgr, hout⟩ := htail
      { frags := valueFrags p.length [textOf vals sha256_Salt, textOf vals sha256_Sum],
        numValues := 2 - 1, numReq := 2, out := [([0], .str p)] } rfl (fragsMatch_valueFrags _ _)
    refine ⟨st'.out, ?_, ?_⟩
    · rw [unmarshal_of_parse _ s _ hparse]
      refine unmarshalTree_of_loop sha256TI s.length _ _ st' (hpp _) ?_ hfr hgr
      show loopFields s.length [sha256_Rounds, sha256_Salt, sha256_Sum]
        { frags := valueFrags p.length [textOf vals sha256_Salt, textOf vals sha256_Sum],
          numValues := 2, numReq := 2, out := [([0], .str p)] } = _
      rw [loopFields_cons _ _ _ _ _ hstep1]
      exact hl
    · rw [hout, ← hvals, hr0]; rfl
  · -- `rounds=N` written
    have hem : emitted vals sha256_Rounds = true := by
      unfold emitted; rw [hv1]
      simp [isEmptyVal, hr0, sha256_Rounds]
    have hR := namedField_text vals sha256_Rounds rfl rfl rfl (by decide) (by decide)
      (by rw [hv1]; simpa [valOk, sha256_Rounds] using hr) (by decide) (hfm _ (by simp [sha256TI]) hem)
    obtain ⟨hRnd, hRkey, hRft⟩ := hR
    have hbody : s = p ++ joinWith dollar [namedText sha256_Rounds (textOf vals sha256_Rounds),
        textOf vals sha256_Salt, textOf vals sha256_Sum] := by
      rw [hs, renderFields_cons_emit _ _ _ _ hem, renderFields_cons_emit _ _ _ _ hemS,
        renderFields_cons_emit _ _ _ _ hemD, renderFields_nil, hnS, hnD]
      simp [joinWith, sepOf, sha256_Salt, sha256_Sum, sha256_Rounds]
    have hparse := parse_render (some p) [namedText sha256_Rounds (textOf vals sha256_Rounds),
        textOf vals sha256_Salt, textOf vals sha256_Sum] (hwf _)
      (by intro t ht; simp only [List.mem_cons, List.not_mem_nil, or_false] at ht
          rcases ht with rfl | rfl | rfl
          · exact hRnd
          · exact hS.2.1
          · exact hD.2.1)
      (by simpa using hlastne)
    simp only [Option.getD_some] at hparse
    rw [← hbody] at hparse
    -- the loop
    have hstep1 := stepField_value s.length sha256_Rounds
      { frags := valueFrags p.length [namedText sha256_Rounds (textOf vals sha256_Rounds),
          textOf vals sha256_Salt, textOf vals sha256_Sum],
        numValues := 3, numReq := 2, out := [([0], .str p)] } _ _ _ _ _ rfl rfl rfl
      (by show ¬ (_ ∧ (3 : Int) - 2 ≤ 0); decide) hRkey (hRft _).1 (hRft _).2
    obtain ⟨st', hl, hfr, hgr, hout⟩ := htail
      { frags := valueFrags (p.length + (namedText sha256_Rounds (textOf vals sha256_Rounds)).length + 1)
          [textOf vals sha256_Salt, textOf vals sha256_Sum],
        numValues := 3 - 1, numReq := 2, out := [([0], .str p)] ++ [([1], .uint rounds)] } rfl
      (fragsMatch_valueFrags _ _)
    refine ⟨st'.out, ?_, ?_⟩
    · rw [unmarshal_of_parse _ s _ hparse]
      refine unmarshalTree_of_loop sha256TI s.length _ _ st' (hpp _) ?_ hfr hgr
      show loopFields s.length [sha256_Rounds, sha256_Salt, sha256_Sum]
        { frags := valueFrags p.length [namedText sha256_Rounds (textOf vals sha256_Rounds),
            textOf vals sha256_Salt, textOf vals sha256_Sum],
          numValues := 3, numReq := 2, out := [([0], .str p)] } = _
      rw [loopFields_cons _ _ _ _ _ hstep1, hv1]
      exact hl
    · rw [hout, ← hvals]; rfl

def sha512Vals (p : Bytes) (rounds : Nat) (salt sum : Bytes) : Vals :=
  [([0], .str p), ([1], .uint rounds), ([2], .bytes salt), ([3], .bytes sum)]

theorem roundtrip_sha512 (p salt sum s : Bytes) (rounds : Nat)
    (hp : p = [36, 54, 36]) (hr : rounds < 2 ^ 32) (hsum : sum.length = 86)
    (hm : marshal sha512TI (sha512Vals p rounds salt sum) = .ok s) :
    ∃ out, unmarshal sha512TI s = .ok out ∧ finalVals sha512TI out = sha512Vals p rounds salt sum := by
  obtain ⟨hs, hpm, hfm⟩ := marshal_render sha512TI _ s hm
  generalize hvals : sha512Vals p rounds salt sum = vals at *
  have hv0 : fieldVal vals sha512_HashPrefix = .str p := by subst hvals; rfl
  have hv1 : fieldVal vals sha512_Rounds = .uint rounds := by subst hvals; rfl
  have hv2 : fieldVal vals sha512_Salt = .bytes salt := by subst hvals; rfl
  have hv3 : fieldVal vals sha512_Sum = .bytes sum := by subst hvals; rfl
  -- prefix
  obtain ⟨hpstr, -, -, hpft, hpsv⟩ := L1.prefix_text vals sha512_HashPrefix (by decide) (by rw [hv0]; rfl)
    (hpm _ rfl)
  have hptx : textOf vals sha512_HashPrefix = p := by
    rw [hv0] at hpstr; exact (FVal.str.inj hpstr).symm
  -- plain tail
  have hS := L1.plainField_text vals sha512_Salt (by decide) (by rw [hv2]; rfl)
    (hfm _ (by simp [sha512TI]) (by simp [emitted, sha512_Salt]))
  have hD := L1.plainField_text vals sha512_Sum (by decide) (by rw [hv3]; simp [valOk, sha512_Sum, hsum])
    (hfm _ (by simp [sha512TI]) (by simp [emitted, sha512_Sum]))
  have hDlen : (textOf vals sha512_Sum).length = 86 :=
    (marshalValue_ok (hfm sha512_Sum (by simp [sha512TI]) (by simp [emitted, sha512_Sum]))).2.1 rfl
  -- the plain tail of the loop
  have htail : ∀ st : LoopSt, st.group = none →
      FragsMatch st.frags [textOf vals sha512_Salt, textOf vals sha512_Sum] →
      ∃ st', loopFields s.length [sha512_Salt, sha512_Sum] st = .ok st' ∧ st'.frags = [] ∧ st'.group = none ∧
        st'.out = st.out ++ [([2], .bytes salt), ([3], .bytes sum)] := by
    intro st hg hfm
    obtain ⟨st', h1, h2, h3, h4⟩ := loopFields_plain s.length (textOf vals) (fieldVal vals) [sha512_Salt, sha512_Sum] st
      (by
        intro f hf
        simp only [List.mem_cons, List.not_mem_nil, or_false] at hf
        rcases hf with rfl | rfl
        · exact ⟨hS.1, hS.2.2.2⟩
        · exact ⟨hD.1, hD.2.2.2⟩)
      hg hfm
    refine ⟨st', h1, h2, h3, ?_⟩
    rw [h4]; simp only [List.map, hv2, hv3]; rfl
  have hlastne : [textOf vals sha512_Sum].getLast? ≠ some [] := by
    intro h
    simp only [List.getLast?_singleton, Option.some.injEq] at h
    rw [h] at hDlen; simp at hDlen
  have hwf : ∀ body, WfPrefix (some p) body := fun body => wfPrefix_of_wellFormed p body (by subst hp; decide)
  have hwl : ∀ l, sha512_HashPrefix.unmarshalText = .whitelist l → l.contains (textOf vals sha512_HashPrefix) = true := by
    intro l hl
    simp only [sha512_HashPrefix, TextCodec.whitelist.injEq] at hl
    subst hl; rw [hptx, hp]; decide
  have hpp : ∀ frags, prefixPart sha512TI s.length ⟨some p, frags⟩ = .ok [([0], .str p)] := by
    intro frags
    have h1 := hpft p.length
    have h2 := hpsv p.length hwl
    rw [hptx] at h1 h2
    simp only [prefixPart, sha512TI, h1, h2, bind, Except.bind, pure, Except.pure]
    rfl
  have hemS : emitted vals sha512_Salt = true := rfl
  have hemD : emitted vals sha512_Sum = true := rfl
  have hfields : sha512TI.fields = [sha512_Rounds, sha512_Salt, sha512_Sum] := rfl
  have hpfx : sha512TI.hashPrefix = some sha512_HashPrefix := rfl
  have hnS : ∀ t, namedText sha512_Salt t = t := fun _ => rfl
  have hnD : ∀ t, namedText sha512_Sum t = t := fun _ => rfl
  rw [hfields, hpfx] at hs
  simp only [hptx] at hs
  by_cases hr0 : rounds = 0
  · -- `rounds=` omitted
    have hem : emitted vals sha512_Rounds = false := by
      unfold emitted; rw [hv1, hr0]; rfl
    have hbody : s = p ++ joinWith dollar [textOf vals sha512_Salt, textOf vals sha512_Sum] := by
      rw [hs, renderFields_cons_omit _ _ _ _ hem, renderFields_cons_emit _ _ _ _ hemS,
        renderFields_cons_emit _ _ _ _ hemD, renderFields_nil, hnS, hnD]
      simp [joinWith, sepOf, sha512_Salt, sha512_Sum]
    have hparse := parse_render (some p) [textOf vals sha512_Salt, textOf vals sha512_Sum] (hwf _)
      (by intro t ht; simp only [List.mem_cons, List.not_mem_nil, or_false] at ht
          rcases ht with rfl | rfl
          · exact hS.2.1
          · exact hD.2.1)
      (by simpa using hlastne)
    simp only [Option.getD_some] at hparse
    rw [← hbody] at hparse
    -- the loop
    have hstep1 := stepField_skip s.length sha512_Rounds
      { frags := valueFrags p.length [textOf vals sha512_Salt, textOf vals sha512_Sum],
        numValues := 2, numReq := 2, out := [([0], .str p)] } _ _ rfl rfl rfl (by show (2 : Int) - 2 ≤ 0; decide)
    obtain ⟨st', hl, hfr, hgr, hout⟩ := htail
      { frags := valueFrags p.length [textOf vals sha512_Salt, textOf vals sha512_Sum],
        numValues := 2 - 1, numReq := 2, out := [([0], .str p)] } rfl (fragsMatch_valueFrags _ _)
    refine ⟨st'.out, ?_, ?_⟩
    · rw [unmarshal_of_parse _ s _ hparse]
      refine unmarshalTree_of_loop sha512TI s.length _ _ st' (hpp _) ?_ hfr hgr
      show loopFields s.length [sha512_Rounds, sha512_Salt, sha512_Sum]
        { frags := valueFrags p.length [textOf vals sha512_Salt, textOf vals sha512_Sum],
          numValues := 2, numReq := 2, out := [([0], .str p)] } = _
      rw [loopFields_cons _ _ _ _ _ hstep1]
      exact hl
    · rw [hout, ← hvals, hr0]; rfl
  · -- `rounds=N` written
    have hem : emitted vals sha512_Rounds = true := by
      unfold emitted; rw [hv1]
      simp [isEmptyVal, hr0, sha512_Rounds]
    have hR := namedField_text vals sha512_Rounds rfl rfl rfl (by decide) (by decide)
      (by rw [hv1]; simpa [valOk, sha512_Rounds] using hr) (by decide) (hfm _ (by simp [sha512TI]) hem)
    obtain ⟨hRnd, hRkey, hRft⟩ := hR
    have hbody : s = p ++ joinWith dollar [namedText sha512_Rounds (textOf vals sha512_Rounds),
        textOf vals sha512_Salt, textOf vals sha512_Sum] := by
      rw [hs, renderFields_cons_emit _ _ _ _ hem, renderFields_cons_emit _ _ _ _ hemS,
        renderFields_cons_emit _ _ _ _ hemD, renderFields_nil, hnS, hnD]
      simp [joinWith, sepOf, sha512_Salt, sha512_Sum, sha512_Rounds]
    have hparse := parse_render (some p) [namedText sha512_Rounds (textOf vals sha512_Rounds),
        textOf vals sha512_Salt, textOf vals sha512_Sum] (hwf _)
      (by intro t ht; simp only [List.mem_cons, List.not_mem_nil, or_false] at ht
          rcases ht with rfl | rfl | rfl
          · exact hRnd
          · exact hS.2.1
          · exact hD.2.1)
      (by simpa using hlastne)
    simp only [Option.getD_some] at hparse
    rw [← hbody] at hparse
    -- the loop
    have hstep1 := stepField_value s.length sha512_Rounds
      { frags := valueFrags p.length [namedText sha512_Rounds (textOf vals sha512_Rounds),
          textOf vals sha512_Salt, textOf vals sha512_Sum],
        numValues := 3, numReq := 2, out := [([0], .str p)] } _ _ _ _ _ rfl rfl rfl
      (by show ¬ (_ ∧ (3 : Int) - 2 ≤ 0); decide) hRkey (hRft _).1 (hRft _).2
    obtain ⟨st', hl, hfr, hgr, hout⟩ := htail
      { frags := valueFrags (p.length + (namedText sha512_Rounds (textOf vals sha512_Rounds)).length + 1)
          [textOf vals sha512_Salt, textOf vals sha512_Sum],
        numValues := 3 - 1, numReq := 2, out := [([0], .str p)] ++ [([1], .uint rounds)] } rfl
      (fragsMatch_valueFrags _ _)
    refine ⟨st'.out, ?_, ?_⟩
    · rw [unmarshal_of_parse _ s _ hparse]
      refine unmarshalTree_of_loop sha512TI s.length _ _ st' (hpp _) ?_ hfr hgr
      show loopFields s.length [sha512_Rounds, sha512_Salt, sha512_Sum]
        { frags := valueFrags p.length [namedText sha512_Rounds (textOf vals sha512_Rounds),
            textOf vals sha512_Salt, textOf vals sha512_Sum],
          numValues := 3, numReq := 2, out := [([0], .str p)] } = _
      rw [loopFields_cons _ _ _ _ _ hstep1, hv1]
      exact hl
    · rw [hout, ← hvals]; rfl

/-! ## des: an omitted optional prefix, an inline salt glued to the digest -/

def desVals (p salt sum : Bytes) : Vals := [([0], .str p), ([1], .bytes salt), ([2], .bytes sum)]

theorem roundtrip_des (p salt sum s : Bytes) (hp : p = []) (hsum : sum.length = 11)
    (hm : marshal desTI (desVals p salt sum) = .ok s) :
    ∃ out, unmarshal desTI s = .ok out ∧ finalVals desTI out = desVals p salt sum := by
  obtain ⟨hs, hpm, hfm⟩ := marshal_render desTI _ s hm
  generalize hvals : desVals p salt sum = vals at *
  have hv0 : fieldVal vals des_HashPrefix = .str p := by subst hvals; rfl
  have hv1 : fieldVal vals des_Salt = .bytes salt := by subst hvals; rfl
  have hv2 : fieldVal vals des_Sum = .bytes sum := by subst hvals; rfl
  have hfields : desTI.fields = [des_Salt, des_Sum] := rfl
  have hpfx : desTI.hashPrefix = some des_HashPrefix := rfl
  have hemS : emitted vals des_Salt = true := rfl
  have hemD : emitted vals des_Sum = true := rfl
  -- prefix: the empty text
  obtain ⟨hpstr, -, -, -, -⟩ := L1.prefix_text vals des_HashPrefix (by decide) (by rw [hv0]; rfl) (hpm _ rfl)
  have hptx : textOf vals des_HashPrefix = [] := by
    rw [hv0] at hpstr; rw [← (FVal.str.inj hpstr), hp]
  -- fields
  obtain ⟨hSclean, hSlen, hSft⟩ := inlineField_text vals des_Salt rfl rfl rfl (by decide)
    (hfm _ (by simp [desTI]) hemS)
  have hSsv : ∀ e, storeValue des_Salt "value" e (textOf vals des_Salt) = .ok (.bytes salt) := by
    intro e
    rw [← hv1]
    exact storeValue_marshalRaw des_Salt "value" e _ _ rfl rfl (by decide) (by rw [hv1]; rfl)
      (marshalValue_ok (hfm _ (by simp [desTI]) hemS)).1
  have hD := L1.plainField_text vals des_Sum (by decide) (by rw [hv2]; simp [valOk, des_Sum, hsum])
    (hfm _ (by simp [desTI]) hemD)
  have hDlen : (textOf vals des_Sum).length = 11 :=
    (marshalValue_ok (hfm des_Sum (by simp [desTI]) hemD)).2.1 rfl
  have hnS : ∀ t, namedText des_Salt t = t := fun _ => rfl
  have hnD : ∀ t, namedText des_Sum t = t := fun _ => rfl
  rw [hfields, hpfx] at hs
  simp only [hptx, List.nil_append] at hs
  have hbody : s = joinWith dollar [textOf vals des_Salt ++ textOf vals des_Sum] := by
    rw [hs, renderFields_cons_emit _ _ _ _ hemS, renderFields_cons_emit _ _ _ _ hemD, renderFields_nil,
      hnS, hnD]
    simp [joinWith, sepOf, des_Salt]
  have hSlen' : (textOf vals des_Salt).length = 2 := hSlen
  have hwf : WfPrefix none (joinWith dollar [textOf vals des_Salt ++ textOf vals des_Sum]) := by
    refine WfPrefix.none _ ?_
    intro c hc
    simp only [joinWith] at hc
    cases hts : textOf vals des_Salt with
    | nil => rw [hts] at hSlen'; simp at hSlen'
    | cons a as =>
      rw [hts] at hc
      simp only [List.cons_append, List.head?_cons, Option.some.injEq] at hc
      subst hc
      have := hSclean a (by rw [hts]; simp)
      exact ⟨this.1, this.2.2.2⟩
  have hparse := parse_render none [textOf vals des_Salt ++ textOf vals des_Sum] hwf
    (by intro t ht
        simp only [List.mem_singleton] at ht
        subst ht
        intro c hc
        simp only [List.mem_append] at hc
        rcases hc with hc | hc
        · exact ⟨(hSclean c hc).1, (hSclean c hc).2.1⟩
        · exact hD.2.1 c hc)
    (by intro h
        simp only [List.getLast?_singleton, Option.some.injEq, List.append_eq_nil_iff] at h
        rw [h.2] at hDlen; simp at hDlen)
  simp only [Option.getD_none, List.nil_append, List.length_nil] at hparse
  rw [← hbody] at hparse
  -- the loop
  have hstep1 := stepField_value s.length des_Salt
    { frags := valueFrags 0 [textOf vals des_Salt ++ textOf vals des_Sum],
      numValues := 1, numReq := 1, out := [] } _ _ _ _ _ rfl rfl rfl
    (fun h => absurd h.1 (by decide)) (Or.inl rfl) (hSft _ _ _) (hSsv _)
  obtain ⟨st', hl, hfr, hgr, hout⟩ := loopFields_plain s.length (textOf vals) (fieldVal vals) [des_Sum]
    { frags := [Frag.value ⟨textOf vals des_Sum, 0, 0 + (textOf vals des_Salt ++ textOf vals des_Sum).length⟩],
      numValues := 1 - 1, numReq := 1 - 1, out := [] ++ [([1], .bytes salt)] }
    (by intro f hf; simp only [List.mem_singleton] at hf; subst hf; exact ⟨hD.1, hD.2.2.2⟩)
    rfl ⟨rfl, trivial⟩
  refine ⟨st'.out, ?_, ?_⟩
  · rw [unmarshal_of_parse _ s _ hparse]
    refine unmarshalTree_of_loop desTI s.length _ [] st' rfl ?_ hfr hgr
    show loopFields s.length [des_Salt, des_Sum]
      { frags := valueFrags 0 [textOf vals des_Salt ++ textOf vals des_Sum],
        numValues := 1, numReq := 1, out := [] } = _
    rw [loopFields_cons _ _ _ _ _ hstep1]
    exact hl
  · rw [hout, ← hvals, hp]
    simp only [List.map]
    rfl

/-! ## desext: `_`, then the crypt(3) rounds, the salt and the digest glued into one fragment -/

def desextVals (p : Bytes) (rounds : Nat) (salt sum : Bytes) : Vals :=
  [([0], .str p), ([1], .uint rounds), ([2], .bytes salt), ([3], .bytes sum)]

theorem roundtrip_desext (p salt sum s : Bytes) (rounds : Nat) (hp : p = [95])
    (hr : rounds < 2 ^ 24) (hsum : sum.length = 11)
    (hm : marshal desextTI (desextVals p rounds salt sum) = .ok s) :
    ∃ out, unmarshal desextTI s = .ok out ∧ finalVals desextTI out = desextVals p rounds salt sum := by
  obtain ⟨hs, hpm, hfm⟩ := marshal_render desextTI _ s hm
  generalize hvals : desextVals p rounds salt sum = vals at *
  have hv0 : fieldVal vals desext_HashPrefix = .str p := by subst hvals; rfl
  have hv1 : fieldVal vals desext_Rounds = .uint rounds := by subst hvals; rfl
  have hv2 : fieldVal vals desext_Salt = .bytes salt := by subst hvals; rfl
  have hv3 : fieldVal vals desext_Sum = .bytes sum := by subst hvals; rfl
  have hfields : desextTI.fields = [desext_Rounds, desext_Salt, desext_Sum] := rfl
  have hpfx : desextTI.hashPrefix = some desext_HashPrefix := rfl
  have hemR : emitted vals desext_Rounds = true := rfl
  have hemS : emitted vals desext_Salt = true := rfl
  have hemD : emitted vals desext_Sum = true := rfl
  -- prefix
  obtain ⟨hpstr, -, -, hpft, hpsv⟩ := L1.prefix_text vals desext_HashPrefix (by decide) (by rw [hv0]; rfl)
    (hpm _ rfl)
  have hptx : textOf vals desext_HashPrefix = p := by
    rw [hv0] at hpstr; exact (FVal.str.inj hpstr).symm
  have hwl : ∀ l, desext_HashPrefix.unmarshalText = .whitelist l →
      l.contains (textOf vals desext_HashPrefix) = true := by
    intro l hl
    simp only [desext_HashPrefix, TextCodec.whitelist.injEq] at hl
    subst hl; rw [hptx, hp]; decide
  have hpp : ∀ frags, prefixPart desextTI s.length ⟨some p, frags⟩ = .ok [([0], .str p)] := by
    intro frags
    have h1 := hpft p.length
    have h2 := hpsv p.length hwl
    rw [hptx] at h1 h2
    simp only [prefixPart, desextTI, h1, h2, bind, Except.bind, pure, Except.pure]
    rfl
  -- fields
  have hmR := hfm _ (by simp [desextTI]) hemR
  obtain ⟨hRclean, hRlen, hRft⟩ := inlineField_text vals desext_Rounds rfl rfl rfl (by decide) hmR
  have hRtx : textOf vals desext_Rounds = desEncodeInt rounds := by
    have := (marshalValue_ok hmR).1
    rw [hv1] at this
    have h32 : rounds % 4294967296 = rounds := Nat.mod_eq_of_lt (by
      have : (2 : Nat) ^ 24 = 16777216 := by decide
      omega)
    simp only [marshalRaw, desext_Rounds, h32, Except.ok.injEq] at this
    exact this.symm
  have hRsv : ∀ e, storeValue desext_Rounds "value" e (textOf vals desext_Rounds) = .ok (.uint rounds) := by
    intro e
    rw [storeValue_desInt _ _ _ _ rfl, hRtx, desInt_roundtrip rounds hr]
  have hmS := hfm _ (by simp [desextTI]) hemS
  obtain ⟨hSclean, hSlen, hSft⟩ := inlineField_text vals desext_Salt rfl rfl rfl (by decide) hmS
  have hSsv : ∀ e, storeValue desext_Salt "value" e (textOf vals desext_Salt) = .ok (.bytes salt) := by
    intro e
    rw [← hv2]
    exact storeValue_marshalRaw desext_Salt "value" e _ _ rfl rfl (by decide) (by rw [hv2]; rfl)
      (marshalValue_ok hmS).1
  have hD := L1.plainField_text vals desext_Sum (by decide) (by rw [hv3]; simp [valOk, desext_Sum, hsum])
    (hfm _ (by simp [desextTI]) hemD)
  have hDlen : (textOf vals desext_Sum).length = 11 :=
    (marshalValue_ok (hfm desext_Sum (by simp [desextTI]) hemD)).2.1 rfl
  have hnR : ∀ t, namedText desext_Rounds t = t := fun _ => rfl
  have hnS : ∀ t, namedText desext_Salt t = t := fun _ => rfl
  have hnD : ∀ t, namedText desext_Sum t = t := fun _ => rfl
  rw [hfields, hpfx] at hs
  simp only [hptx] at hs
  have hbody : s = p ++ joinWith dollar
      [textOf vals desext_Rounds ++ (textOf vals desext_Salt ++ textOf vals desext_Sum)] := by
    rw [hs, renderFields_cons_emit _ _ _ _ hemR, renderFields_cons_emit _ _ _ _ hemS,
      renderFields_cons_emit _ _ _ _ hemD, renderFields_nil, hnR, hnS, hnD]
    simp [joinWith, sepOf, desext_Salt, desext_Rounds]
  have hparse := parse_render (some p)
      [textOf vals desext_Rounds ++ (textOf vals desext_Salt ++ textOf vals desext_Sum)]
    (by rw [hp]; exact WfPrefix.under _)
    (by intro t ht
        simp only [List.mem_singleton] at ht
        subst ht
        intro c hc
        simp only [List.mem_append] at hc
        rcases hc with hc | hc | hc
        · exact ⟨(hRclean c hc).1, (hRclean c hc).2.1⟩
        · exact ⟨(hSclean c hc).1, (hSclean c hc).2.1⟩
        · exact hD.2.1 c hc)
    (by intro h
        simp only [List.getLast?_singleton, Option.some.injEq, List.append_eq_nil_iff] at h
        rw [h.2.2] at hDlen; simp at hDlen)
  simp only [Option.getD_some] at hparse
  rw [← hbody] at hparse
  -- the loop
  have hstep1 := stepField_value s.length desext_Rounds
    { frags := valueFrags p.length
        [textOf vals desext_Rounds ++ (textOf vals desext_Salt ++ textOf vals desext_Sum)],
      numValues := 1, numReq := 1, out := [([0], .str p)] } _ _ _ _ _ rfl rfl rfl
    (fun h => absurd h.1 (by decide)) (Or.inl rfl) (hRft _ _ _) (hRsv _)
  have hstep2 := stepField_value s.length desext_Salt
    { frags := [Frag.value ⟨textOf vals desext_Salt ++ textOf vals desext_Sum, p.length,
        p.length + (textOf vals desext_Rounds ++ (textOf vals desext_Salt ++ textOf vals desext_Sum)).length⟩],
      numValues := 1 - 1, numReq := 1 - 1, out := [([0], .str p)] ++ [([1], .uint rounds)] } _ _ _ _ _ rfl rfl rfl
    (fun h => absurd h.1 (by decide)) (Or.inl rfl) (hSft _ _ _) (hSsv _)
  obtain ⟨st', hl, hfr, hgr, hout⟩ := loopFields_plain s.length (textOf vals) (fieldVal vals) [desext_Sum]
    { frags := [Frag.value ⟨textOf vals desext_Sum, p.length,
        p.length + (textOf vals desext_Rounds ++ (textOf vals desext_Salt ++ textOf vals desext_Sum)).length⟩],
      numValues := 1 - 1 - 1, numReq := 1 - 1 - 1,
      out := [([0], .str p)] ++ [([1], .uint rounds)] ++ [([2], .bytes salt)] }
    (by intro f hf; simp only [List.mem_singleton] at hf; subst hf; exact ⟨hD.1, hD.2.2.2⟩)
    rfl ⟨rfl, trivial⟩
  refine ⟨st'.out, ?_, ?_⟩
  · rw [unmarshal_of_parse _ s _ hparse]
    refine unmarshalTree_of_loop desextTI s.length _ _ st' (hpp _) ?_ hfr hgr
    show loopFields s.length [desext_Rounds, desext_Salt, desext_Sum]
      { frags := valueFrags p.length
          [textOf vals desext_Rounds ++ (textOf vals desext_Salt ++ textOf vals desext_Sum)],
        numValues := 1, numReq := 1, out := [([0], .str p)] } = _
    rw [loopFields_cons _ _ _ _ _ hstep1]
    show loopFields s.length [desext_Salt, desext_Sum]
      { frags := [Frag.value ⟨textOf vals desext_Salt ++ textOf vals desext_Sum, p.length,
          p.length + (textOf vals desext_Rounds ++ (textOf vals desext_Salt ++ textOf vals desext_Sum)).length⟩],
        numValues := 1 - 1, numReq := 1 - 1, out := [([0], .str p)] ++ [([1], .uint rounds)] } = _
    rw [loopFields_cons _ _ _ _ _ hstep2]
    exact hl
  · rw [hout, ← hvals]
    simp only [List.map]
    rfl

/-! ## bcrypt: a two-digit cost, then the inline salt glued to the digest -/

def bcryptVals (p : Bytes) (cost : Nat) (salt sum : Bytes) : Vals :=
  [([0], .str p), ([1], .uint cost), ([2], .bytes salt), ([3], .bytes sum)]

theorem roundtrip_bcrypt (p salt sum s : Bytes) (cost : Nat)
    (hp : p = [36, 50, 36] ∨ p = [36, 50, 97, 36] ∨ p = [36, 50, 98, 36])
    (hc : cost < 100) (hsum : sum.length = 31)
    (hm : marshal bcryptTI (bcryptVals p cost salt sum) = .ok s) :
    ∃ out, unmarshal bcryptTI s = .ok out ∧ finalVals bcryptTI out = bcryptVals p cost salt sum := by
  obtain ⟨hs, hpm, hfm⟩ := marshal_render bcryptTI _ s hm
  generalize hvals : bcryptVals p cost salt sum = vals at *
  have hv0 : fieldVal vals bcrypt_HashPrefix = .str p := by subst hvals; rfl
  have hv1 : fieldVal vals bcrypt_Cost = .uint cost := by subst hvals; rfl
  have hv2 : fieldVal vals bcrypt_Salt = .bytes salt := by subst hvals; rfl
  have hv3 : fieldVal vals bcrypt_Sum = .bytes sum := by subst hvals; rfl
  have hfields : bcryptTI.fields = [bcrypt_Cost, bcrypt_Salt, bcrypt_Sum] := rfl
  have hpfx : bcryptTI.hashPrefix = some bcrypt_HashPrefix := rfl
  have hemC : emitted vals bcrypt_Cost = true := rfl
  have hemS : emitted vals bcrypt_Salt = true := rfl
  have hemD : emitted vals bcrypt_Sum = true := rfl
  -- prefix
  obtain ⟨hpstr, -, -, hpft, hpsv⟩ := L1.prefix_text vals bcrypt_HashPrefix (by decide) (by rw [hv0]; rfl)
    (hpm _ rfl)
  have hptx : textOf vals bcrypt_HashPrefix = p := by
    rw [hv0] at hpstr; exact (FVal.str.inj hpstr).symm
  have hwl : ∀ l, bcrypt_HashPrefix.unmarshalText = .whitelist l →
      l.contains (textOf vals bcrypt_HashPrefix) = true := by
    intro l hl
    simp only [bcrypt_HashPrefix, TextCodec.whitelist.injEq] at hl
    subst hl; rw [hptx]
    rcases hp with rfl | rfl | rfl <;> decide
  have hpp : ∀ frags, prefixPart bcryptTI s.length ⟨some p, frags⟩ = .ok [([0], .str p)] := by
    intro frags
    have h1 := hpft p.length
    have h2 := hpsv p.length hwl
    rw [hptx] at h1 h2
    simp only [prefixPart, bcryptTI, h1, h2, bind, Except.bind, pure, Except.pure]
    rfl
  have hwf : ∀ body, WfPrefix (some p) body := fun body =>
    wfPrefix_of_wellFormed p body (by rcases hp with rfl | rfl | rfl <;> decide)
  -- fields
  have hmC := hfm _ (by simp [bcryptTI]) hemC
  obtain ⟨hCraw, hClen, hCfi⟩ := marshalValue_ok hmC
  have hCtx : textOf vals bcrypt_Cost = twoDigit cost := by
    rw [hv1] at hCraw
    simp only [marshalRaw, bcrypt_Cost, Except.ok.injEq] at hCraw
    exact hCraw.symm
  have hCclean := alphabet_clean bcrypt_Cost.opts.enc (by decide) _ hCfi
  have hCft : ∀ e, fieldText bcrypt_Cost "value" e (textOf vals bcrypt_Cost) = .ok (textOf vals bcrypt_Cost, []) :=
    fun e => fieldText_named bcrypt_Cost "value" e _ rfl hClen hCfi
  have hCsv : ∀ e, storeValue bcrypt_Cost "value" e (textOf vals bcrypt_Cost) = .ok (.uint cost) := by
    intro e
    exact storeValue_uint bcrypt_Cost "value" e _ 8 cost rfl rfl rfl (by rw [hCtx]; exact twoDigit_parse cost hc)
  have hmS := hfm _ (by simp [bcryptTI]) hemS
  obtain ⟨hSclean, hSlen, hSft⟩ := inlineField_text vals bcrypt_Salt rfl rfl rfl (by decide) hmS
  have hSsv : ∀ e, storeValue bcrypt_Salt "value" e (textOf vals bcrypt_Salt) = .ok (.bytes salt) := by
    intro e
    rw [← hv2]
    exact storeValue_marshalRaw bcrypt_Salt "value" e _ _ rfl rfl (by decide) (by rw [hv2]; rfl)
      (marshalValue_ok hmS).1
  have hD := L1.plainField_text vals bcrypt_Sum (by decide) (by rw [hv3]; simp [valOk, bcrypt_Sum, hsum])
    (hfm _ (by simp [bcryptTI]) hemD)
  have hDlen : (textOf vals bcrypt_Sum).length = 31 :=
    (marshalValue_ok (hfm bcrypt_Sum (by simp [bcryptTI]) hemD)).2.1 rfl
  have hnC : ∀ t, namedText bcrypt_Cost t = t := fun _ => rfl
  have hnS : ∀ t, namedText bcrypt_Salt t = t := fun _ => rfl
  have hnD : ∀ t, namedText bcrypt_Sum t = t := fun _ => rfl
  rw [hfields, hpfx] at hs
  simp only [hptx] at hs
  have hbody : s = p ++ joinWith dollar
      [textOf vals bcrypt_Cost, textOf vals bcrypt_Salt ++ textOf vals bcrypt_Sum] := by
    rw [hs, renderFields_cons_emit _ _ _ _ hemC, renderFields_cons_emit _ _ _ _ hemS,
      renderFields_cons_emit _ _ _ _ hemD, renderFields_nil, hnC, hnS, hnD]
    simp [joinWith, sepOf, bcrypt_Salt, bcrypt_Cost]
  have hparse := parse_render (some p)
      [textOf vals bcrypt_Cost, textOf vals bcrypt_Salt ++ textOf vals bcrypt_Sum] (hwf _)
    (by intro t ht
        simp only [List.mem_cons, List.not_mem_nil, or_false] at ht
        rcases ht with rfl | rfl
        · intro c hc; exact ⟨(hCclean c hc).1, (hCclean c hc).2.1⟩
        · intro c hc
          simp only [List.mem_append] at hc
          rcases hc with hc | hc
          · exact ⟨(hSclean c hc).1, (hSclean c hc).2.1⟩
          · exact hD.2.1 c hc)
    (by intro h
        simp only [List.getLast?_cons_cons, List.getLast?_singleton, Option.some.injEq,
          List.append_eq_nil_iff] at h
        rw [h.2] at hDlen; simp at hDlen)
  simp only [Option.getD_some] at hparse
  rw [← hbody] at hparse
  -- the loop
  have hstep1 := stepField_value s.length bcrypt_Cost
    { frags := valueFrags p.length
        [textOf vals bcrypt_Cost, textOf vals bcrypt_Salt ++ textOf vals bcrypt_Sum],
      numValues := 2, numReq := 2, out := [([0], .str p)] } _ _ _ _ _ rfl rfl rfl
    (fun h => absurd h.1 (by decide)) (Or.inl rfl) (hCft _) (hCsv _)
  have hstep2 := stepField_value s.length bcrypt_Salt
    { frags := valueFrags (p.length + (textOf vals bcrypt_Cost).length + 1)
        [textOf vals bcrypt_Salt ++ textOf vals bcrypt_Sum],
      numValues := 2 - 1, numReq := 2 - 1, out := [([0], .str p)] ++ [([1], .uint cost)] } _ _ _ _ _ rfl rfl rfl
    (fun h => absurd h.1 (by decide)) (Or.inl rfl) (hSft _ _ _) (hSsv _)
  obtain ⟨st', hl, hfr, hgr, hout⟩ := loopFields_plain s.length (textOf vals) (fieldVal vals) [bcrypt_Sum]
    { frags := [Frag.value ⟨textOf vals bcrypt_Sum, p.length + (textOf vals bcrypt_Cost).length + 1,
        p.length + (textOf vals bcrypt_Cost).length + 1 +
          (textOf vals bcrypt_Salt ++ textOf vals bcrypt_Sum).length⟩],
      numValues := 2 - 1 - 1, numReq := 2 - 1 - 1,
      out := [([0], .str p)] ++ [([1], .uint cost)] ++ [([2], .bytes salt)] }
    (by intro f hf; simp only [List.mem_singleton] at hf; subst hf; exact ⟨hD.1, hD.2.2.2⟩)
    rfl ⟨rfl, trivial⟩
  refine ⟨st'.out, ?_, ?_⟩
  · rw [unmarshal_of_parse _ s _ hparse]
    refine unmarshalTree_of_loop bcryptTI s.length _ _ st' (hpp _) ?_ hfr hgr
    show loopFields s.length [bcrypt_Cost, bcrypt_Salt, bcrypt_Sum]
      { frags := valueFrags p.length
          [textOf vals bcrypt_Cost, textOf vals bcrypt_Salt ++ textOf vals bcrypt_Sum],
        numValues := 2, numReq := 2, out := [([0], .str p)] } = _
    rw [loopFields_cons _ _ _ _ _ hstep1]
    show loopFields s.length [bcrypt_Salt, bcrypt_Sum]
      { frags := valueFrags (p.length + (textOf vals bcrypt_Cost).length + 1)
          [textOf vals bcrypt_Salt ++ textOf vals bcrypt_Sum],
        numValues := 2 - 1, numReq := 2 - 1, out := [([0], .str p)] ++ [([1], .uint cost)] } = _
    rw [loopFields_cons _ _ _ _ _ hstep2]
    exact hl
  · rw [hout, ← hvals]
    simp only [List.map]
    rfl

/-! ## argon2: an optional `v=` param, the `m=,t=,p=` group, two positional fields -/

def argon2Vals (p : Bytes) (version memory time threads : Nat) (salt sum : Bytes) : Vals :=
  [([0], .str p), ([1], .uint version), ([2], .uint memory), ([3], .uint time), ([4], .uint threads),
   ([5], .bytes salt), ([6], .bytes sum)]

theorem roundtrip_argon2 (p salt sum s : Bytes) (version memory time threads : Nat)
    (hp : p = [36, 97, 114, 103, 111, 110, 50, 100, 36] ∨ p = [36, 97, 114, 103, 111, 110, 50, 105, 36] ∨
      p = [36, 97, 114, 103, 111, 110, 50, 105, 100, 36])
    (hver : version < 2 ^ 8) (hmem : memory < 2 ^ 32) (htime : time < 2 ^ 32) (hthr : threads < 2 ^ 8)
    (hsum : sum ≠ [])
    (hm : marshal argon2TI (argon2Vals p version memory time threads salt sum) = .ok s) :
    ∃ out, unmarshal argon2TI s = .ok out ∧
      finalVals argon2TI out = argon2Vals p version memory time threads salt sum := by
  obtain ⟨hs, hpm, hfm⟩ := marshal_render argon2TI _ s hm
  generalize hvals : argon2Vals p version memory time threads salt sum = vals at *
  have hv0 : fieldVal vals argon2_HashPrefix = .str p := by subst hvals; rfl
  have hv1 : fieldVal vals argon2_Version = .uint version := by subst hvals; rfl
  have hv2 : fieldVal vals argon2_Memory = .uint memory := by subst hvals; rfl
  have hv3 : fieldVal vals argon2_Time = .uint time := by subst hvals; rfl
  have hv4 : fieldVal vals argon2_Threads = .uint threads := by subst hvals; rfl
  have hv5 : fieldVal vals argon2_Salt = .bytes salt := by subst hvals; rfl
  have hv6 : fieldVal vals argon2_Sum = .bytes sum := by subst hvals; rfl
  have hfields : argon2TI.fields =
      [argon2_Version, argon2_Memory, argon2_Time, argon2_Threads, argon2_Salt, argon2_Sum] := rfl
  have hpfx : argon2TI.hashPrefix = some argon2_HashPrefix := rfl
  have hemM : emitted vals argon2_Memory = true := rfl
  have hemT : emitted vals argon2_Time = true := rfl
  have hemP : emitted vals argon2_Threads = true := rfl
  have hemS : emitted vals argon2_Salt = true := rfl
  have hemD : emitted vals argon2_Sum = true := rfl
  -- prefix
  obtain ⟨hpstr, -, -, hpft, hpsv⟩ := L1.prefix_text vals argon2_HashPrefix (by decide) (by rw [hv0]; rfl)
    (hpm _ rfl)
  have hptx : textOf vals argon2_HashPrefix = p := by
    rw [hv0] at hpstr; exact (FVal.str.inj hpstr).symm
  have hwl : ∀ l, argon2_HashPrefix.unmarshalText = .whitelist l →
      l.contains (textOf vals argon2_HashPrefix) = true := by
    intro l hl
    simp only [argon2_HashPrefix, TextCodec.whitelist.injEq] at hl
    subst hl; rw [hptx]
    rcases hp with rfl | rfl | rfl <;> decide
  have hpp : ∀ frags, prefixPart argon2TI s.length ⟨some p, frags⟩ = .ok [([0], .str p)] := by
    intro frags
    have h1 := hpft p.length
    have h2 := hpsv p.length hwl
    rw [hptx] at h1 h2
    simp only [prefixPart, argon2TI, h1, h2, bind, Except.bind, pure, Except.pure]
    rfl
  have hwf : ∀ body, WfPrefix (some p) body := fun body =>
    wfPrefix_of_wellFormed p body (by rcases hp with rfl | rfl | rfl <;> decide)
  -- fields
  obtain ⟨hMnd, hMkey, hMft⟩ := namedField_text vals argon2_Memory rfl rfl rfl (by decide) (by decide)
    (by rw [hv2]; simpa [valOk, argon2_Memory] using hmem) (by decide) (hfm _ (by simp [argon2TI]) hemM)
  obtain ⟨hTnd, hTkey, hTft⟩ := namedField_text vals argon2_Time rfl rfl rfl (by decide) (by decide)
    (by rw [hv3]; simpa [valOk, argon2_Time] using htime) (by decide) (hfm _ (by simp [argon2TI]) hemT)
  obtain ⟨hPnd, hPkey, hPft⟩ := namedField_text vals argon2_Threads rfl rfl rfl (by decide) (by decide)
    (by rw [hv4]; simpa [valOk, argon2_Threads] using hthr) (by decide) (hfm _ (by simp [argon2TI]) hemP)
  obtain ⟨hSnd, -, hSft⟩ := namedField_text vals argon2_Salt rfl rfl rfl (by decide) (by decide)
    (by rw [hv5]; rfl) (by decide) (hfm _ (by simp [argon2TI]) hemS)
  have hmD := hfm _ (by simp [argon2TI]) hemD
  obtain ⟨hDnd, -, hDft⟩ := namedField_text vals argon2_Sum rfl rfl rfl (by decide) (by decide)
    (by rw [hv6]; rfl) (by decide) hmD
  have hDne : textOf vals argon2_Sum ≠ [] := by
    have h1 := (marshalValue_ok hmD).1
    rw [hv6] at h1
    have h2 : marshalRaw argon2_Sum (.bytes sum) = .ok sum := rfl
    rw [h2] at h1
    injection h1 with h1
    rw [← h1]; exact hsum
  rw [hfields, hpfx] at hs
  simp only [hptx] at hs
  have hnS : ∀ t, namedText argon2_Salt t = t := fun _ => rfl
  have hnD : ∀ t, namedText argon2_Sum t = t := fun _ => rfl
  simp only [hnS] at hSnd hSft
  simp only [hnD] at hDnd hDft
  -- `t=` and `p=` do not match the members before them
  have hTM : (argon2_Time.opts.param ++ [equals]).isPrefixOf
      (namedText argon2_Memory (textOf vals argon2_Memory)) = false := rfl
  have hPM : (argon2_Threads.opts.param ++ [equals]).isPrefixOf
      (namedText argon2_Memory (textOf vals argon2_Memory)) = false := rfl
  have hPT : (argon2_Threads.opts.param ++ [equals]).isPrefixOf
      (namedText argon2_Time (textOf vals argon2_Time)) = false := rfl
  have hMkey' := hMkey.resolve_left (by decide)
  have hTkey' := hTkey.resolve_left (by decide)
  have hPkey' := hPkey.resolve_left (by decide)
  by_cases hv : version = 0
  · -- `v=` omitted
    have hemV : emitted vals argon2_Version = false := by
      unfold emitted; rw [hv1, hv]; rfl
    have hbody : s = p ++ renderPieces [
        [namedText argon2_Memory (textOf vals argon2_Memory), namedText argon2_Time (textOf vals argon2_Time),
         namedText argon2_Threads (textOf vals argon2_Threads)],
        [textOf vals argon2_Salt], [textOf vals argon2_Sum]] := by
      rw [hs, renderFields_cons_omit _ _ _ _ hemV, renderFields_cons_emit _ _ _ _ hemM,
        renderFields_cons_emit _ _ _ _ hemT, renderFields_cons_emit _ _ _ _ hemP,
        renderFields_cons_emit _ _ _ _ hemS, renderFields_cons_emit _ _ _ _ hemD, renderFields_nil, hnS, hnD]
      simp [renderPieces, joinWith, sepOf, argon2_Memory, argon2_Time, argon2_Threads, argon2_Salt]
    have hparse := parse_render_pieces (some p)
      [[namedText argon2_Memory (textOf vals argon2_Memory), namedText argon2_Time (textOf vals argon2_Time),
         namedText argon2_Threads (textOf vals argon2_Threads)],
        [textOf vals argon2_Salt], [textOf vals argon2_Sum]] (hwf _)
      (by intro ms hms
          simp only [List.mem_cons, List.not_mem_nil, or_false] at hms
          rcases hms with rfl | rfl | rfl
          · refine ⟨by simp, ?_⟩
            intro m hm
            simp only [List.mem_cons, List.not_mem_nil, or_false] at hm
            rcases hm with rfl | rfl | rfl
            · exact hMnd
            · exact hTnd
            · exact hPnd
          · exact ⟨by simp, by intro m hm; simp only [List.mem_singleton] at hm; subst hm; exact hSnd⟩
          · exact ⟨by simp, by intro m hm; simp only [List.mem_singleton] at hm; subst hm; exact hDnd⟩)
      (by intro ms hms
          simp only [List.getLast?_cons_cons, List.getLast?_singleton, Option.some.injEq] at hms
          subst hms
          simpa using hDne)
    simp only [Option.getD_some] at hparse
    rw [← hbody] at hparse
    refine ⟨?out, ?h1, ?h2⟩
    case h1 =>
      rw [unmarshal_of_parse _ s _ hparse]
      refine unmarshalTree_of_loop argon2TI s.length _ _ ?st' (hpp _) ?loop ?hfr ?hgr
      case loop =>
        rw [hfields]
        refine loop_step (stepField_pass_group _ _ _ _ _ rfl rfl rfl rfl
          (by show ¬ ((3 : Int) - 2 ≤ 0); decide)) ?_
        refine loop_step (stepField_group_first _ _ _ _ _ _ _ _ _ rfl rfl rfl rfl rfl
          (by simp only [RefParse.mkValues, List.find?, hMkey']; rfl) (hMft _).1 (hMft _).2) ?_
        refine loop_step (stepField_group_next _ _ _ _ _ _ _ _ _ _ rfl rfl rfl rfl rfl
          (by simp only [RefParse.mkValues, List.find?, hTM, hTkey']; rfl) (hTft _).1 (hTft _).2) ?_
        refine loop_step (stepField_group_next _ _ _ _ _ _ _ _ _ _ rfl rfl rfl rfl rfl
          (by simp only [RefParse.mkValues, List.find?, hPM, hPT, hPkey']; rfl) (hPft _).1 (hPft _).2) ?_
        refine loop_close_group _ rfl rfl rfl ?_
        refine loop_step (stepField_value _ _ _ _ _ _ _ _ rfl rfl rfl
          (fun h => absurd h.1 (by decide)) (Or.inl rfl) (hSft _).1 (hSft _).2) ?_
        refine loop_step (stepField_value _ _ _ _ _ _ _ _ rfl rfl rfl
          (fun h => absurd h.1 (by decide)) (Or.inl rfl) (hDft _).1 (hDft _).2) ?_
        exact loopFields_nil _ _
      case hfr => rfl
      case hgr => rfl
    case h2 =>
      rw [← hvals, hv]
      rfl
  · -- `v=N` written
    have hemV : emitted vals argon2_Version = true := by
      unfold emitted; rw [hv1]
      simp [isEmptyVal, hv, argon2_Version]
    obtain ⟨hVnd, hVkey, hVft⟩ := namedField_text vals argon2_Version rfl rfl rfl (by decide) (by decide)
      (by rw [hv1]; simpa [valOk, argon2_Version] using hver) (by decide) (hfm _ (by simp [argon2TI]) hemV)
    have hbody : s = p ++ renderPieces [[namedText argon2_Version (textOf vals argon2_Version)],
        [namedText argon2_Memory (textOf vals argon2_Memory), namedText argon2_Time (textOf vals argon2_Time),
         namedText argon2_Threads (textOf vals argon2_Threads)],
        [textOf vals argon2_Salt], [textOf vals argon2_Sum]] := by
      rw [hs, renderFields_cons_emit _ _ _ _ hemV, renderFields_cons_emit _ _ _ _ hemM,
        renderFields_cons_emit _ _ _ _ hemT, renderFields_cons_emit _ _ _ _ hemP,
        renderFields_cons_emit _ _ _ _ hemS, renderFields_cons_emit _ _ _ _ hemD, renderFields_nil, hnS, hnD]
      simp [renderPieces, joinWith, sepOf, argon2_Version, argon2_Memory, argon2_Time, argon2_Threads,
        argon2_Salt]
    have hparse := parse_render_pieces (some p)
      [[namedText argon2_Version (textOf vals argon2_Version)],
        [namedText argon2_Memory (textOf vals argon2_Memory), namedText argon2_Time (textOf vals argon2_Time),
         namedText argon2_Threads (textOf vals argon2_Threads)],
        [textOf vals argon2_Salt], [textOf vals argon2_Sum]] (hwf _)
      (by intro ms hms
          simp only [List.mem_cons, List.not_mem_nil, or_false] at hms
          rcases hms with rfl | rfl | rfl | rfl
          · exact ⟨by simp, by intro m hm; simp only [List.mem_singleton] at hm; subst hm; exact hVnd⟩
          · refine ⟨by simp, ?_⟩
            intro m hm
            simp only [List.mem_cons, List.not_mem_nil, or_false] at hm
            rcases hm with rfl | rfl | rfl
            · exact hMnd
            · exact hTnd
            · exact hPnd
          · exact ⟨by simp, by intro m hm; simp only [List.mem_singleton] at hm; subst hm; exact hSnd⟩
          · exact ⟨by simp, by intro m hm; simp only [List.mem_singleton] at hm; subst hm; exact hDnd⟩)
      (by intro ms hms
          simp only [List.getLast?_cons_cons, List.getLast?_singleton, Option.some.injEq] at hms
          subst hms
          simpa using hDne)
    simp only [Option.getD_some] at hparse
    rw [← hbody] at hparse
    refine ⟨?out2, ?h1b, ?h2b⟩
    case h1b =>
      rw [unmarshal_of_parse _ s _ hparse]
      refine unmarshalTree_of_loop argon2TI s.length _ _ ?st2 (hpp _) ?loop2 ?hfr2 ?hgr2
      case loop2 =>
        rw [hfields]
        refine loop_step (stepField_value _ _ _ _ _ _ _ _ rfl rfl rfl
          (fun h => absurd h.2 (by show ¬ ((4 : Int) - 2 ≤ 0); decide)) hVkey (hVft _).1 (hVft _).2) ?_
        refine loop_step (stepField_group_first _ _ _ _ _ _ _ _ _ rfl rfl rfl rfl rfl
          (by simp only [RefParse.mkValues, List.find?, hMkey']; rfl) (hMft _).1 (hMft _).2) ?_
        refine loop_step (stepField_group_next _ _ _ _ _ _ _ _ _ _ rfl rfl rfl rfl rfl
          (by simp only [RefParse.mkValues, List.find?, hTM, hTkey']; rfl) (hTft _).1 (hTft _).2) ?_
        refine loop_step (stepField_group_next _ _ _ _ _ _ _ _ _ _ rfl rfl rfl rfl rfl
          (by simp only [RefParse.mkValues, List.find?, hPM, hPT, hPkey']; rfl) (hPft _).1 (hPft _).2) ?_
        refine loop_close_group _ rfl rfl rfl ?_
        refine loop_step (stepField_value _ _ _ _ _ _ _ _ rfl rfl rfl
          (fun h => absurd h.1 (by decide)) (Or.inl rfl) (hSft _).1 (hSft _).2) ?_
        refine loop_step (stepField_value _ _ _ _ _ _ _ _ rfl rfl rfl
          (fun h => absurd h.1 (by decide)) (Or.inl rfl) (hDft _).1 (hDft _).2) ?_
        exact loopFields_nil _ _
      case hfr2 => rfl
      case hgr2 => rfl
    case h2b =>
      rw [← hvals]
      rfl

/-! ## sunmd5: a required `rounds=` param, an optional salt, an optional empty separator, the digest -/

def sunmd5Vals (p : Bytes) (rounds : Nat) (salt : Bytes) (sep : FVal) (sum : Bytes) : Vals :=
  [([0, 0], .str p), ([0, 1], .uint rounds), ([0, 2], .bytes salt), ([0, 3], sep), ([1], .bytes sum)]

theorem roundtrip_sunmd5 (p salt sum s : Bytes) (rounds : Nat) (sep : FVal)
    (hp : p = [36, 109, 100, 53, 44] ∨ p = [36, 109, 100, 53, 36])
    (hr : rounds < 2 ^ 32) (hsum : sum.length = 22)
    (hsep : sep = .nilPtr ∨ sep = .str [])
    (hgreedy : salt ≠ [] ∨ sep = .nilPtr)
    (hm : marshal sunmd5TI (sunmd5Vals p rounds salt sep sum) = .ok s) :
    ∃ out, unmarshal sunmd5TI s = .ok out ∧ finalVals sunmd5TI out = sunmd5Vals p rounds salt sep sum := by
  obtain ⟨hs, hpm, hfm⟩ := marshal_render sunmd5TI _ s hm
  generalize hvals : sunmd5Vals p rounds salt sep sum = vals at *
  have hv0 : fieldVal vals sunmd5_HashPrefix = .str p := by subst hvals; rfl
  have hv1 : fieldVal vals sunmd5_Rounds = .uint rounds := by subst hvals; rfl
  have hv2 : fieldVal vals sunmd5_Salt = .bytes salt := by subst hvals; rfl
  have hv3 : fieldVal vals sunmd5_Separator = sep := by subst hvals; rfl
  have hv4 : fieldVal vals sunmd5_Sum = .bytes sum := by subst hvals; rfl
  have hfields : sunmd5TI.fields = [sunmd5_Rounds, sunmd5_Salt, sunmd5_Separator, sunmd5_Sum] := rfl
  have hpfx : sunmd5TI.hashPrefix = some sunmd5_HashPrefix := rfl
  have hemR : emitted vals sunmd5_Rounds = true := rfl
  have hemD : emitted vals sunmd5_Sum = true := rfl
  -- prefix
  obtain ⟨hpstr, -, -, hpft, hpsv⟩ := L1.prefix_text vals sunmd5_HashPrefix (by decide) (by rw [hv0]; rfl)
    (hpm _ rfl)
  have hptx : textOf vals sunmd5_HashPrefix = p := by
    rw [hv0] at hpstr; exact (FVal.str.inj hpstr).symm
  have hwl : ∀ l, sunmd5_HashPrefix.unmarshalText = .whitelist l →
      l.contains (textOf vals sunmd5_HashPrefix) = true := by
    intro l hl
    simp only [sunmd5_HashPrefix, TextCodec.whitelist.injEq] at hl
    subst hl; rw [hptx]
    rcases hp with rfl | rfl <;> decide
  have hpp : ∀ frags, prefixPart sunmd5TI s.length ⟨some p, frags⟩ = .ok [([0, 0], .str p)] := by
    intro frags
    have h1 := hpft p.length
    have h2 := hpsv p.length hwl
    rw [hptx] at h1 h2
    simp only [prefixPart, sunmd5TI, h1, h2, bind, Except.bind, pure, Except.pure]
    rfl
  have hwf : ∀ body, WfPrefix (some p) body := fun body =>
    wfPrefix_of_wellFormed p body (by rcases hp with rfl | rfl <;> decide)
  -- the fields that are always written
  obtain ⟨hRnd, hRkey, hRft⟩ := namedField_text vals sunmd5_Rounds rfl rfl rfl (by decide) (by decide)
    (by rw [hv1]; simpa [valOk, sunmd5_Rounds] using hr) (by decide) (hfm _ (by simp [sunmd5TI]) hemR)
  have hmD := hfm _ (by simp [sunmd5TI]) hemD
  obtain ⟨hDnd, -, hDft⟩ := namedField_text vals sunmd5_Sum rfl rfl rfl (by decide) (by decide)
    (by rw [hv4]; simp [valOk, sunmd5_Sum, hsum]) (by decide) hmD
  have hDlen : (textOf vals sunmd5_Sum).length = 22 := (marshalValue_ok hmD).2.1 rfl
  have hDne : textOf vals sunmd5_Sum ≠ [] := by
    intro h; rw [h] at hDlen; simp at hDlen
  have hnS : ∀ t, namedText sunmd5_Salt t = t := fun _ => rfl
  have hnP : ∀ t, namedText sunmd5_Separator t = t := fun _ => rfl
  have hnD : ∀ t, namedText sunmd5_Sum t = t := fun _ => rfl
  simp only [hnD] at hDnd hDft
  rw [hfields, hpfx] at hs
  simp only [hptx] at hs
  by_cases hsalt : salt = []
  · -- no salt, hence no separator
    have hsepn : sep = .nilPtr := hgreedy.resolve_left (fun h => h hsalt)
    have hemS : emitted vals sunmd5_Salt = false := by
      unfold emitted; rw [hv2, hsalt]; rfl
    have hemP : emitted vals sunmd5_Separator = false := by
      unfold emitted; rw [hv3, hsepn]; rfl
    have hbody : s = p ++ joinWith dollar
        [namedText sunmd5_Rounds (textOf vals sunmd5_Rounds), textOf vals sunmd5_Sum] := by
      rw [hs, renderFields_cons_emit _ _ _ _ hemR, renderFields_cons_omit _ _ _ _ hemS,
        renderFields_cons_omit _ _ _ _ hemP, renderFields_cons_emit _ _ _ _ hemD, renderFields_nil, hnD]
      simp [joinWith, sepOf, sunmd5_Rounds]
    have hparse := parse_render (some p)
      [namedText sunmd5_Rounds (textOf vals sunmd5_Rounds), textOf vals sunmd5_Sum] (hwf _)
      (by intro t ht
          simp only [List.mem_cons, List.not_mem_nil, or_false] at ht
          rcases ht with rfl | rfl
          · exact hRnd
          · exact hDnd)
      (by simpa using hDne)
    simp only [Option.getD_some] at hparse
    rw [← hbody] at hparse
    refine ⟨?outC, ?h1C, ?h2C⟩
    case h1C =>
      rw [unmarshal_of_parse _ s _ hparse]
      refine unmarshalTree_of_loop sunmd5TI s.length _ _ ?stC (hpp _) ?loopC ?hfrC ?hgrC
      case loopC =>
        rw [hfields]
        refine loop_step (stepField_value _ _ _ _ _ _ _ _ rfl rfl rfl
          (fun h => absurd h.1 (by decide)) hRkey (hRft _).1 (hRft _).2) ?_
        refine loop_step (stepField_skip _ _ _ _ _ rfl rfl rfl
          (by show ((2 : Int) - 1 - (2 - 1) ≤ 0); decide)) ?_
        refine loop_step (stepField_skip _ _ _ _ _ rfl rfl rfl
          (by show ((2 : Int) - 1 - 1 - (2 - 1) ≤ 0); decide)) ?_
        refine loop_step (stepField_value _ _ _ _ _ _ _ _ rfl rfl rfl
          (fun h => absurd h.1 (by decide)) (Or.inl rfl) (hDft _).1 (hDft _).2) ?_
        exact loopFields_nil _ _
      case hfrC => rfl
      case hgrC => rfl
    case h2C =>
      rw [← hvals, hsalt, hsepn]
      rfl
  · -- a salt
    have hemS : emitted vals sunmd5_Salt = true := by
      unfold emitted; rw [hv2]
      cases salt with
      | nil => exact absurd rfl hsalt
      | cons c cs => rfl
    obtain ⟨hSnd, -, hSft⟩ := namedField_text vals sunmd5_Salt rfl rfl rfl (by decide) (by decide)
      (by rw [hv2]; rfl) (by decide) (hfm _ (by simp [sunmd5TI]) hemS)
    simp only [hnS] at hSnd hSft
    rcases hsep with hsepn | hseps
    · -- no separator
      have hemP : emitted vals sunmd5_Separator = false := by
        unfold emitted; rw [hv3, hsepn]; rfl
      have hbody : s = p ++ joinWith dollar
          [namedText sunmd5_Rounds (textOf vals sunmd5_Rounds), textOf vals sunmd5_Salt,
           textOf vals sunmd5_Sum] := by
        rw [hs, renderFields_cons_emit _ _ _ _ hemR, renderFields_cons_emit _ _ _ _ hemS,
          renderFields_cons_omit _ _ _ _ hemP, renderFields_cons_emit _ _ _ _ hemD, renderFields_nil, hnD, hnS]
        simp [joinWith, sepOf, sunmd5_Rounds, sunmd5_Salt]
      have hparse := parse_render (some p)
        [namedText sunmd5_Rounds (textOf vals sunmd5_Rounds), textOf vals sunmd5_Salt,
         textOf vals sunmd5_Sum] (hwf _)
        (by intro t ht
            simp only [List.mem_cons, List.not_mem_nil, or_false] at ht
            rcases ht with rfl | rfl | rfl
            · exact hRnd
            · exact hSnd
            · exact hDnd)
        (by simpa using hDne)
      simp only [Option.getD_some] at hparse
      rw [← hbody] at hparse
      refine ⟨?outA, ?h1A, ?h2A⟩
      case h1A =>
        rw [unmarshal_of_parse _ s _ hparse]
        refine unmarshalTree_of_loop sunmd5TI s.length _ _ ?stA (hpp _) ?loopA ?hfrA ?hgrA
        case loopA =>
          rw [hfields]
          refine loop_step (stepField_value _ _ _ _ _ _ _ _ rfl rfl rfl
            (fun h => absurd h.1 (by decide)) hRkey (hRft _).1 (hRft _).2) ?_
          refine loop_step (stepField_value _ _ _ _ _ _ _ _ rfl rfl rfl
            (fun h => absurd h.2 (by show ¬ ((3 : Int) - 1 - (2 - 1) ≤ 0); decide)) (Or.inl rfl)
            (hSft _).1 (hSft _).2) ?_
          refine loop_step (stepField_skip _ _ _ _ _ rfl rfl rfl
            (by show ((3 : Int) - 1 - 1 - (2 - 1) ≤ 0); decide)) ?_
          refine loop_step (stepField_value _ _ _ _ _ _ _ _ rfl rfl rfl
            (fun h => absurd h.1 (by decide)) (Or.inl rfl) (hDft _).1 (hDft _).2) ?_
          exact loopFields_nil _ _
        case hfrA => rfl
        case hgrA => rfl
      case h2A =>
        rw [← hvals, hsepn]
        rfl
    · -- the empty separator
      have hemP : emitted vals sunmd5_Separator = true := by
        unfold emitted; rw [hv3, hseps]; rfl
      obtain ⟨hPnd, -, hPft⟩ := namedField_text vals sunmd5_Separator rfl rfl rfl (by decide) (by decide)
        (by rw [hv3, hseps]; rfl) (by decide) (hfm _ (by simp [sunmd5TI]) hemP)
      simp only [hnP] at hPnd hPft
      have hbody : s = p ++ joinWith dollar
          [namedText sunmd5_Rounds (textOf vals sunmd5_Rounds), textOf vals sunmd5_Salt,
           textOf vals sunmd5_Separator, textOf vals sunmd5_Sum] := by
        rw [hs, renderFields_cons_emit _ _ _ _ hemR, renderFields_cons_emit _ _ _ _ hemS,
          renderFields_cons_emit _ _ _ _ hemP, renderFields_cons_emit _ _ _ _ hemD, renderFields_nil,
          hnD, hnS, hnP]
        simp [joinWith, sepOf, sunmd5_Rounds, sunmd5_Salt, sunmd5_Separator]
      have hparse := parse_render (some p)
        [namedText sunmd5_Rounds (textOf vals sunmd5_Rounds), textOf vals sunmd5_Salt,
         textOf vals sunmd5_Separator, textOf vals sunmd5_Sum] (hwf _)
        (by intro t ht
            simp only [List.mem_cons, List.not_mem_nil, or_false] at ht
            rcases ht with rfl | rfl | rfl | rfl
            · exact hRnd
            · exact hSnd
            · exact hPnd
            · exact hDnd)
        (by simpa using hDne)
      simp only [Option.getD_some] at hparse
      rw [← hbody] at hparse
      refine ⟨?outB, ?h1B, ?h2B⟩
      case h1B =>
        rw [unmarshal_of_parse _ s _ hparse]
        refine unmarshalTree_of_loop sunmd5TI s.length _ _ ?stB (hpp _) ?loopB ?hfrB ?hgrB
        case loopB =>
          rw [hfields]
          refine loop_step (stepField_value _ _ _ _ _ _ _ _ rfl rfl rfl
            (fun h => absurd h.1 (by decide)) hRkey (hRft _).1 (hRft _).2) ?_
          refine loop_step (stepField_value _ _ _ _ _ _ _ _ rfl rfl rfl
            (fun h => absurd h.2 (by show ¬ ((4 : Int) - 1 - (2 - 1) ≤ 0); decide)) (Or.inl rfl)
            (hSft _).1 (hSft _).2) ?_
          refine loop_step (stepField_value _ _ _ _ _ _ _ _ rfl rfl rfl
            (fun h => absurd h.2 (by show ¬ ((4 : Int) - 1 - 1 - (2 - 1) ≤ 0); decide)) (Or.inl rfl)
            (hPft _).1 (hPft _).2) ?_
          refine loop_step (stepField_value _ _ _ _ _ _ _ _ rfl rfl rfl
            (fun h => absurd h.1 (by decide)) (Or.inl rfl) (hDft _).1 (hDft _).2) ?_
          exact loopFields_nil _ _
        case hfrB => rfl
        case hgrB => rfl
      case h2B =>
        rw [← hvals]
        rfl

/-! ## Marshal accepts the canonical domain of every shipped layout -/

/-- Every byte is a symbol of `./0-9A-Za-z`. -/
def OverHash (b : Bytes) : Prop := firstInvalid .hash b = none
/-- Every byte is a symbol of the standard base64 alphabet. -/
def OverBase64 (b : Bytes) : Prop := firstInvalid .base64 b = none

instance (b : Bytes) : Decidable (OverHash b) := by unfold OverHash; infer_instance
instance (b : Bytes) : Decidable (OverBase64 b) := by unfold OverBase64; infer_instance

theorem accepts_md5 (salt sum : Bytes) (hsalt : OverHash salt) (hsum : sum.length = 22)
    (hsum' : OverHash sum) : ∃ s, marshal md5TI (md5Vals [36, 49, 36] salt sum) = .ok s := by
  apply marshal_accepts
  · intro hp h; cases h
    exact ⟨_, accepts_prefix md5_HashPrefix _ rfl rfl rfl rfl⟩
  · intro f hf _
    simp only [md5TI, List.mem_cons, List.not_mem_nil, or_false] at hf
    rcases hf with rfl | rfl
    · exact ⟨_, accepts_bytes md5_Salt salt rfl (Or.inl rfl) rfl (fun h => by cases h) hsalt⟩
    · exact ⟨_, accepts_bytes md5_Sum sum rfl (Or.inl rfl) rfl (fun _ => hsum) hsum'⟩

theorem accepts_sha1 (rounds : Nat) (salt sum : Bytes) (hsalt : OverHash salt) (hsum : sum.length = 28)
    (hsum' : OverHash sum) :
    ∃ s, marshal sha1TI (sha1Vals [36, 115, 104, 97, 49, 36] rounds salt sum) = .ok s := by
  apply marshal_accepts
  · intro hp h; cases h
    exact ⟨_, accepts_prefix sha1_HashPrefix _ rfl rfl rfl rfl⟩
  · intro f hf _
    simp only [sha1TI, List.mem_cons, List.not_mem_nil, or_false] at hf
    rcases hf with rfl | rfl | rfl
    · exact ⟨_, accepts_uint10 sha1_Rounds rounds 32 rfl rfl rfl rfl rfl rfl⟩
    · exact ⟨_, accepts_bytes sha1_Salt salt rfl (Or.inl rfl) rfl (fun h => by cases h) hsalt⟩
    · exact ⟨_, accepts_bytes sha1_Sum sum rfl (Or.inr ⟨_, rfl⟩) rfl (fun _ => hsum) hsum'⟩

theorem accepts_nthash (sum : Bytes) (hsum : sum.length = 32) (hsum' : OverHash sum) :
    ∃ s, marshal nthashTI (nthashVals [36, 51, 36] [] sum) = .ok s := by
  apply marshal_accepts
  · intro hp h; cases h
    exact ⟨_, accepts_prefix nthash_HashPrefix _ rfl rfl rfl rfl⟩
  · intro f hf _
    simp only [nthashTI, List.mem_cons, List.not_mem_nil, or_false] at hf
    rcases hf with rfl | rfl
    · exact ⟨_, accepts_bytes nthash_Empty [] rfl (Or.inr ⟨_, rfl⟩) rfl (fun _ => rfl) rfl⟩
    · exact ⟨_, accepts_bytes nthash_Sum sum rfl (Or.inr ⟨_, rfl⟩) rfl (fun _ => hsum) hsum'⟩

theorem accepts_sha256 (rounds : Nat) (salt sum : Bytes) (hsalt : OverHash salt) (hsum : sum.length = 43)
    (hsum' : OverHash sum) : ∃ s, marshal sha256TI (sha256Vals [36, 53, 36] rounds salt sum) = .ok s := by
  apply marshal_accepts
  · intro hp h; cases h
    exact ⟨_, accepts_prefix sha256_HashPrefix _ rfl rfl rfl rfl⟩
  · intro f hf _
    simp only [sha256TI, List.mem_cons, List.not_mem_nil, or_false] at hf
    rcases hf with rfl | rfl | rfl
    · exact ⟨_, accepts_uint10 sha256_Rounds rounds 32 rfl rfl rfl rfl rfl rfl⟩
    · exact ⟨_, accepts_bytes sha256_Salt salt rfl (Or.inl rfl) rfl (fun h => by cases h) hsalt⟩
    · exact ⟨_, accepts_bytes sha256_Sum sum rfl (Or.inr ⟨_, rfl⟩) rfl (fun _ => hsum) hsum'⟩

theorem accepts_sha512 (rounds : Nat) (salt sum : Bytes) (hsalt : OverHash salt) (hsum : sum.length = 86)
    (hsum' : OverHash sum) : ∃ s, marshal sha512TI (sha512Vals [36, 54, 36] rounds salt sum) = .ok s := by
  apply marshal_accepts
  · intro hp h; cases h
    exact ⟨_, accepts_prefix sha512_HashPrefix _ rfl rfl rfl rfl⟩
  · intro f hf _
    simp only [sha512TI, List.mem_cons, List.not_mem_nil, or_false] at hf
    rcases hf with rfl | rfl | rfl
    · exact ⟨_, accepts_uint10 sha512_Rounds rounds 32 rfl rfl rfl rfl rfl rfl⟩
    · exact ⟨_, accepts_bytes sha512_Salt salt rfl (Or.inl rfl) rfl (fun h => by cases h) hsalt⟩
    · exact ⟨_, accepts_bytes sha512_Sum sum rfl (Or.inr ⟨_, rfl⟩) rfl (fun _ => hsum) hsum'⟩

theorem accepts_des (salt sum : Bytes) (hsalt : salt.length = 2) (hsalt' : OverHash salt)
    (hsum : sum.length = 11) (hsum' : OverHash sum) :
    ∃ s, marshal desTI (desVals [] salt sum) = .ok s := by
  apply marshal_accepts
  · intro hp h; cases h
    exact ⟨_, accepts_prefix des_HashPrefix _ rfl rfl rfl rfl⟩
  · intro f hf _
    simp only [desTI, List.mem_cons, List.not_mem_nil, or_false] at hf
    rcases hf with rfl | rfl
    · exact ⟨_, accepts_bytes des_Salt salt rfl (Or.inl rfl) rfl (fun _ => hsalt) hsalt'⟩
    · exact ⟨_, accepts_bytes des_Sum sum rfl (Or.inr ⟨_, rfl⟩) rfl (fun _ => hsum) hsum'⟩

theorem desEncodeInt_hash (n : Nat) : firstInvalid .hash (desEncodeInt n) = none := by
  rw [firstInvalid_none_iff .hash hashAlphabet rfl]
  have hr : List.range 4 = [0, 1, 2, 3] := by decide
  have h63 : ∀ x, x &&& 63 = x % 64 := fun x => Nat.and_two_pow_sub_one_eq_mod x 6
  have hall : ∀ d, d < 64 → hashAlphabet.getD d 255 ∈ hashAlphabet := by decide +kernel
  intro c hc
  simp only [desEncodeInt, hr, List.map, h63, List.mem_cons, List.not_mem_nil, or_false] at hc
  rcases hc with rfl | rfl | rfl | rfl <;> exact hall _ (Nat.mod_lt _ (by decide))

theorem accepts_desext (rounds : Nat) (salt sum : Bytes) (hsalt : salt.length = 4) (hsalt' : OverHash salt)
    (hsum : sum.length = 11) (hsum' : OverHash sum) :
    ∃ s, marshal desextTI (desextVals [95] rounds salt sum) = .ok s := by
  apply marshal_accepts
  · intro hp h; cases h
    exact ⟨_, accepts_prefix desext_HashPrefix _ rfl rfl rfl rfl⟩
  · intro f hf _
    simp only [desextTI, List.mem_cons, List.not_mem_nil, or_false] at hf
    rcases hf with rfl | rfl | rfl
    · refine ⟨desEncodeInt (rounds % 4294967296), ?_⟩
      exact marshalValue_of (fi := desext_Rounds) (v := .uint rounds) rfl
        (fun _ => by simp [desEncodeInt, desext_Rounds]) (desEncodeInt_hash _)
    · exact ⟨_, accepts_bytes desext_Salt salt rfl (Or.inl rfl) rfl (fun _ => hsalt) hsalt'⟩
    · exact ⟨_, accepts_bytes desext_Sum sum rfl (Or.inr ⟨_, rfl⟩) rfl (fun _ => hsum) hsum'⟩

theorem accepts_bcrypt_cost : ∀ n, n < 100 → marshalValue bcrypt_Cost (.uint n) = .ok (twoDigit n) := by
  decide +kernel

theorem accepts_bcrypt (p : Bytes) (cost : Nat) (salt sum : Bytes) (hc : cost < 100)
    (hsalt : salt.length = 22) (hsalt' : OverHash salt) (hsum : sum.length = 31) (hsum' : OverHash sum) :
    ∃ s, marshal bcryptTI (bcryptVals p cost salt sum) = .ok s := by
  apply marshal_accepts
  · intro hp h; cases h
    exact ⟨_, accepts_prefix bcrypt_HashPrefix _ rfl rfl rfl rfl⟩
  · intro f hf _
    simp only [bcryptTI, List.mem_cons, List.not_mem_nil, or_false] at hf
    rcases hf with rfl | rfl | rfl
    · exact ⟨_, accepts_bcrypt_cost cost hc⟩
    · exact ⟨_, accepts_bytes bcrypt_Salt salt rfl (Or.inl rfl) rfl (fun _ => hsalt) hsalt'⟩
    · exact ⟨_, accepts_bytes bcrypt_Sum sum rfl (Or.inr ⟨_, rfl⟩) rfl (fun _ => hsum) hsum'⟩

theorem accepts_sunmd5 (p : Bytes) (rounds : Nat) (salt : Bytes) (sep : FVal) (sum : Bytes)
    (hsalt : OverHash salt) (hsep : sep = .nilPtr ∨ sep = .str [])
    (hsum : sum.length = 22) (hsum' : OverHash sum) :
    ∃ s, marshal sunmd5TI (sunmd5Vals p rounds salt sep sum) = .ok s := by
  apply marshal_accepts
  · intro hp h; cases h
    exact ⟨_, accepts_prefix sunmd5_HashPrefix _ rfl rfl rfl rfl⟩
  · intro f hf hem
    simp only [sunmd5TI, List.mem_cons, List.not_mem_nil, or_false] at hf
    rcases hf with rfl | rfl | rfl | rfl
    · exact ⟨_, accepts_uint10 sunmd5_Rounds rounds 32 rfl rfl rfl rfl rfl rfl⟩
    · exact ⟨_, accepts_bytes sunmd5_Salt salt rfl (Or.inl rfl) rfl (fun h => by cases h) hsalt⟩
    · rcases hsep with rfl | rfl
      · exact ⟨[], rfl⟩
      · exact ⟨[], rfl⟩
    · exact ⟨_, accepts_bytes sunmd5_Sum sum rfl (Or.inr ⟨_, rfl⟩) rfl (fun _ => hsum) hsum'⟩

theorem accepts_argon2 (p : Bytes) (version memory time threads : Nat) (salt sum : Bytes)
    (hsalt : OverBase64 salt) (hsum : OverBase64 sum) :
    ∃ s, marshal argon2TI (argon2Vals p version memory time threads salt sum) = .ok s := by
  apply marshal_accepts
  · intro hp h; cases h
    exact ⟨_, accepts_prefix argon2_HashPrefix _ rfl rfl rfl rfl⟩
  · intro f hf _
    simp only [argon2TI, List.mem_cons, List.not_mem_nil, or_false] at hf
    rcases hf with rfl | rfl | rfl | rfl | rfl | rfl
    · exact ⟨_, accepts_uint10 argon2_Version version 8 rfl rfl rfl rfl rfl rfl⟩
    · exact ⟨_, accepts_uint10 argon2_Memory memory 32 rfl rfl rfl rfl rfl rfl⟩
    · exact ⟨_, accepts_uint10 argon2_Time time 32 rfl rfl rfl rfl rfl rfl⟩
    · exact ⟨_, accepts_uint10 argon2_Threads threads 8 rfl rfl rfl rfl rfl rfl⟩
    · exact ⟨_, accepts_bytes argon2_Salt salt rfl (Or.inl rfl) rfl (fun h => by cases h) hsalt⟩
    · exact ⟨_, accepts_bytes argon2_Sum sum rfl (Or.inl rfl) rfl (fun h => by cases h) hsum⟩

end GoCrypt.Codec.Shapes
