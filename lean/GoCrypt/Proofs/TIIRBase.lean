import GoCrypt.Base.TIIR
import GoCrypt.Proofs.TIIRAttr

/-!
# Type-info IR: interpreter lemmas

Generic facts about `TIIR.exec`/`eval`: the result monads, one rule per statement/expression form,
statement accessors (to name the parts of a generated body without copying its text), loop shapes,
and the simp call `ti_simp` that runs straight-line code symbolically. Helper lemmas only.
-/

namespace GoCrypt.TIIR

/-! ## The result monads -/

@[simp, tiir] theorem pure_eq_ok {α : Type} (a : α) : (pure a : Res α) = .ok a := id rfl
@[simp, tiir] theorem ok_bind {α β : Type} (a : α) (f : α → Res β) : (Res.ok a >>= f) = f a := id rfl
@[simp, tiir] theorem panic_bind {α β : Type} (f : α → Res β) : (Res.panic >>= f) = .panic := id rfl
@[simp, tiir] theorem stuck_bind {α β : Type} (w : String) (f : α → Res β) : (Res.stuck w >>= f) = .stuck w := id rfl

@[simp, tiir] theorem bindR_ok {α : Type} (a : α) (k : α → Out) : bindR (.ok a) k = k a := id rfl
@[simp, tiir] theorem bindR_panic {α : Type} (k : α → Out) : bindR (.panic) k = .panic := id rfl
@[simp, tiir] theorem bindR_stuck {α : Type} (w : String) (k : α → Out) : bindR (.stuck w) k = .stuck w := id rfl

@[simp, tiir] theorem andThen_norm (h : Heap) (env : Env) (k : Heap → Env → Out) : (Out.norm h env).andThen k = k h env := id rfl
@[simp, tiir] theorem andThen_brk (h : Heap) (env : Env) (k : Heap → Env → Out) : (Out.brk h env).andThen k = .brk h env := id rfl
@[simp, tiir] theorem andThen_cont (h : Heap) (env : Env) (k : Heap → Env → Out) : (Out.cont h env).andThen k = .cont h env := id rfl
@[simp, tiir] theorem andThen_ret (h : Heap) (vs : List Val) (k : Heap → Env → Out) : (Out.ret h vs).andThen k = .ret h vs := id rfl
@[simp, tiir] theorem andThen_panic (k : Heap → Env → Out) : (Out.panic).andThen k = .panic := id rfl
@[simp, tiir] theorem andThen_stuck (w : String) (k : Heap → Env → Out) : (Out.stuck w).andThen k = .stuck w := id rfl

@[simp, tiir] theorem asInt_int (i : Int) : asInt (.int i) = .ok i := id rfl
@[simp, tiir] theorem asBool_bool (b : Bool) : asBool (.bool b) = .ok b := id rfl

@[tiir] theorem evalBin_add (a b : Int) : evalBin .add a b = .int (a + b) := id rfl
@[tiir] theorem evalBin_sub (a b : Int) : evalBin .sub a b = .int (a - b) := id rfl
@[tiir] theorem evalBin_lt (a b : Int) : evalBin .lt a b = .bool (decide (a < b)) := id rfl
@[tiir] theorem evalBin_le (a b : Int) : evalBin .le a b = .bool (decide (a ≤ b)) := id rfl
@[tiir] theorem evalBin_gt (a b : Int) : evalBin .gt a b = .bool (decide (a > b)) := id rfl
@[tiir] theorem evalBin_ge (a b : Int) : evalBin .ge a b = .bool (decide (a ≥ b)) := id rfl

@[tiir] theorem evalEq_int (a b : Int) : evalEq (.int a) (.int b) = .ok (decide (a = b)) := id rfl
@[tiir] theorem evalEq_bool (a b : Bool) : evalEq (.bool a) (.bool b) = .ok (decide (a = b)) := id rfl
@[tiir] theorem evalEq_str (a b : Bytes) : evalEq (.str a) (.str b) = .ok (decide (a = b)) := id rfl
@[tiir] theorem evalEq_name_str (a : String) (b : Bytes) : evalEq (.name a) (.str b) = .ok (decide (nameBytes a = b)) := id rfl

@[tiir] theorem isNilVal_nil : isNilVal .nil = .ok true := id rfl
@[tiir] theorem isNilVal_ptr (a : Nat) : isNilVal (.ptr a) = .ok false := id rfl
@[tiir] theorem isNilVal_global (g : String) : isNilVal (.global g) = .ok false := id rfl
@[tiir] theorem isNilVal_errNew (p : List MsgPart) : isNilVal (.errNew p) = .ok false := id rfl
@[tiir] theorem isNilVal_numErr : isNilVal .numErr = .ok false := id rfl

@[tiir] theorem lenOf_ints (l : List Int) : lenOf (.ints l) = .ok (.int l.length) := id rfl
@[tiir] theorem lenOf_ptrs (l : List Nat) : lenOf (.ptrs l) = .ok (.int l.length) := id rfl
@[tiir] theorem lenOf_str (l : Bytes) : lenOf (.str l) = .ok (.int l.length) := id rfl

@[tiir] theorem append1Val_ints (l : List Int) (x : Int) : append1Val (.ints l) (.int x) = .ok (.ints (l ++ [x])) := id rfl
@[tiir] theorem append1Val_ptrs (l : List Nat) (a : Nat) : append1Val (.ptrs l) (.ptr a) = .ok (.ptrs (l ++ [a])) := id rfl
@[tiir] theorem appendAllVal_ints (l m : List Int) : appendAllVal (.ints l) (.ints m) = .ok (.ints (l ++ m)) := id rfl
@[tiir] theorem appendAllVal_ptrs (l m : List Nat) : appendAllVal (.ptrs l) (.ptrs m) = .ok (.ptrs (l ++ m)) := id rfl

@[tiir] theorem msgParts_str (b : Bytes) : msgParts (.str b) = .ok [.lit b] := id rfl
@[tiir] theorem msgParts_name (s : String) : msgParts (.name s) = .ok [.name s] := id rfl
@[tiir] theorem msgParts_msg (p : List MsgPart) : msgParts (.msg p) = .ok p := id rfl

/-- Reading a slice of addresses / of ints / a string at a position in range. -/
theorem indexVal_ptrs (l : List Nat) (i : Nat) (a : Nat) (hi : l[i]? = some a) : indexVal (.ptrs l) (i : Int) = .ok (.ptr a) := by
  have : ¬ ((i : Int) < 0) := by omega
  simp [indexVal, this, hi]
theorem indexVal_ints (l : List Int) (i : Nat) (a : Int) (hi : l[i]? = some a) : indexVal (.ints l) (i : Int) = .ok (.int a) := by
  have : ¬ ((i : Int) < 0) := by omega
  simp [indexVal, this, hi]
theorem indexVal_ptrs_none (l : List Nat) (i : Nat) (hi : l[i]? = none) : indexVal (.ptrs l) (i : Int) = .panic := by
  have : ¬ ((i : Int) < 0) := by omega
  simp [indexVal, this, hi]

/-- Reading a record field through a pointer. -/
theorem fieldOf_ptr (h : Heap) (a k : Nat) (o : Obj) (x : Val) (ho : h[a]? = some o) (hx : o[k]? = some x) :
    fieldOf h (.ptr a) k = .ok x := by
  simp [fieldOf, ho, hx]

attribute [tiir] eval evalArgs evalLHS evalLHSs lookup storeAll store

/-! ## External operations, one rule per defined case -/

section ext
variable (structs : List GoStruct)
@[tiir] theorem ext1_typeNumField (t : RType) :
    ext1 structs .typeNumField (.rtype t) = (do let s ← structOf structs t; pure (.int s.fields.length)) := id rfl
@[tiir] theorem ext1_typeKind (t : RType) : ext1 structs .typeKind (.rtype t) = .ok (.int (kindNum t)) := id rfl
@[tiir] theorem ext1_typeElem (t : RType) :
    ext1 structs .typeElem (.rtype t) = (do let t' ← elemOf t; pure (.rtype t')) := id rfl
@[tiir] theorem ext1_typeString (t : RType) : ext1 structs .typeString (.rtype t) = .ok (.msg [.typeStr t]) := id rfl
@[tiir] theorem ext1_sfTag (f : GoField) (i : Nat) : ext1 structs .sfTag (.sfield f i) = .ok (.stag f.tag) := id rfl
@[tiir] theorem ext1_sfPkgPath (f : GoField) (i : Nat) :
    ext1 structs .sfPkgPath (.sfield f i) = .ok (.str (if f.exported then [] else [63])) := id rfl
@[tiir] theorem ext1_sfAnonymous (f : GoField) (i : Nat) : ext1 structs .sfAnonymous (.sfield f i) = .ok (.bool f.anonymous) := id rfl
@[tiir] theorem ext1_sfType (f : GoField) (i : Nat) : ext1 structs .sfType (.sfield f i) = .ok (.rtype (fieldType f)) := id rfl
@[tiir] theorem ext1_sfIndex (f : GoField) (i : Nat) : ext1 structs .sfIndex (.sfield f i) = .ok (.ints [(i : Int)]) := id rfl
@[tiir] theorem ext1_sfName (f : GoField) (i : Nat) : ext1 structs .sfName (.sfield f i) = .ok (.name f.name) := id rfl
@[tiir] theorem ext1_quote (b : Bytes) : ext1 structs .quote (.str b) = .ok (.msg [.quoted b]) := id rfl
@[tiir] theorem ext1_errorsNew (ps : List MsgPart) : ext1 structs .errorsNew (.msg ps) = .ok (.errNew ps) := id rfl
@[tiir] theorem ext2_typeFieldByIndex (t : RType) (idx : List Int) :
    ext2 structs .typeFieldByIndex (.rtype t) (.ints idx) =
      (do let (f, i) ← fieldByIndex structs t true idx; pure (.sfield f i)) := id rfl
@[tiir] theorem ext2_tagGet_hash (b : Bytes) : ext2 structs .tagGet (.stag b) (.str [104, 97, 115, 104]) = .ok (.str b) := id rfl
@[tiir] theorem ext2_hasPrefix (s p : Bytes) : ext2 structs .hasPrefix (.str s) (.str p) = .ok (.bool (p.isPrefixOf s)) := id rfl
@[tiir] theorem ext2_indexByte_comma (s : Bytes) : ext2 structs .indexByte (.str s) (.int 44) = .ok (.int (indexByte s 44)) := by
  simp [ext2]
theorem ext1_typeLen (t : RType) :
    ext1 structs .typeLen (.rtype t) =
      (if t.depth > 0 then .panic else
        (match t.kind with
         | .byteArray n => .ok (.int n)
         | _ => .panic)) := id rfl
theorem ext2_typeField (t : RType) (i : Int) :
    ext2 structs .typeField (.rtype t) (.int i) =
      (do let s ← structOf structs t
          if i < 0 then .panic else
          match s.fields[i.toNat]? with
          | some f => pure (.sfield f i.toNat)
          | none => .panic) := id rfl
end ext

/-- A name equals a string constant exactly when the Lean strings are equal. -/
theorem nameBytes_inj {s t : String} (h : nameBytes s = nameBytes t) : s = t := by
  unfold nameBytes at h
  have h1 : s.toUTF8.data = t.toUTF8.data := Array.toList_inj.mp h
  have h2 : s.toUTF8 = t.toUTF8 := ByteArray.ext h1
  exact String.toByteArray_inj.mp h2

/-! ## Statement accessors

A generated body is a right-nested chain `s₀ ;; s₁ ;; … ;; sₖ`. These functions name its parts, so
that the proofs can speak about "the loop at position 3" without copying its text. -/

namespace Stmt

/-- The chain without its first `n` statements. -/
def drop : Nat → Stmt → Stmt
  | 0, s => s
  | n + 1, .seq _ b => drop n b
  | _ + 1, _ => .skip

/-- The first statement of a chain. -/
def head : Stmt → Stmt
  | .seq a _ => a
  | s => s

/-- The first `n` statements of a chain. -/
def take : Nat → Stmt → Stmt
  | 0, _ => .skip
  | n + 1, .seq a b => .seq a (take n b)
  | _ + 1, s => s

def forCond : Stmt → Expr
  | .for_ c _ _ => c
  | _ => .unknown "not a loop"
def forPost : Stmt → Stmt
  | .for_ _ p _ => p
  | _ => .unknown "not a loop"
def forBody : Stmt → Stmt
  | .for_ _ _ b => b
  | _ => .unknown "not a loop"
def iteCond : Stmt → Expr
  | .ite c _ _ => c
  | _ => .unknown "not an if"
def iteThen : Stmt → Stmt
  | .ite _ t _ => t
  | _ => .unknown "not an if"
def iteElse : Stmt → Stmt
  | .ite _ _ e => e
  | _ => .unknown "not an if"
def sortBody : Stmt → Stmt
  | .sortSlice _ _ _ b => b
  | _ => .unknown "not a sort.Slice"

end Stmt

section rules
variable (c : Ctx) (h : Heap) (env : Env)

@[tiir] theorem exec_seq (a b : Stmt) : exec c (a ;; b) h env = (exec c a h env).andThen (exec c b) := id rfl
@[tiir] theorem exec_skip : exec c .skip h env = .norm h env := id rfl
@[tiir] theorem exec_brk : exec c .brk h env = .brk h env := id rfl
@[tiir] theorem exec_cont : exec c .cont h env = .cont h env := id rfl
@[tiir] theorem exec_ret (es : List Expr) : exec c (.ret es) h env = bindR (evalArgs c.structs h env es) fun vs => .ret h vs := id rfl
@[tiir] theorem exec_assign (lhs : List LHS) (rhs : List Expr) :
    exec c (.assign lhs rhs) h env =
      bindR (evalLHSs c.structs h env lhs) fun refs =>
      bindR (evalArgs c.structs h env rhs) fun vals =>
      bindR (storeAll h env refs vals) fun (h', env') => .norm h' env' := id rfl
@[tiir] theorem exec_call (lhs : List LHS) (f : Nat) (args : List Expr) :
    exec c (.call lhs f args) h env =
      bindR (evalLHSs c.structs h env lhs) fun refs =>
      bindR (evalArgs c.structs h env args) fun vals =>
      bindR (c.call f h vals) fun (h', rs) =>
      bindR (storeAll h' env refs rs) fun (h'', env') => .norm h'' env' := id rfl
@[tiir] theorem exec_extCall (lhs : List LHS) (op : ExtN) (args : List Expr) :
    exec c (.extCall lhs op args) h env =
      bindR (evalLHSs c.structs h env lhs) fun refs =>
      bindR (evalArgs c.structs h env args) fun vals =>
      bindR (extN op vals) fun rs =>
      bindR (storeAll h env refs rs) fun (h', env') => .norm h' env' := id rfl
@[tiir] theorem exec_alloc (x : Nat) (fields : List Expr) :
    exec c (.alloc x fields) h env =
      bindR (evalArgs c.structs h env fields) fun vs =>
        if x < env.length then .norm (h ++ [vs]) (env.set x (.ptr h.length)) else .stuck "no such slot" := id rfl
@[tiir] theorem exec_ite (cnd : Expr) (t e : Stmt) :
    exec c (.ite cnd t e) h env =
      bindR (eval c.structs h env cnd >>= asBool) fun b => if b then exec c t h env else exec c e h env := id rfl
theorem exec_for (cnd : Expr) (post body : Stmt) :
    exec c (.for_ cnd post body) h env =
      loop (fun h env => eval c.structs h env cnd >>= asBool) (exec c body) (exec c post) c.fuel h env := id rfl
theorem exec_sortSlice (x i j : Nat) (body : Stmt) :
    exec c (.sortSlice x i j body) h env =
      bindR (lookup env x) fun v =>
        match v with
        | .ptrs l =>
          let p := c.sort h l
          let env' := env.set x (.ptrs p)
          if p.isPerm l && sortedBy (lessAt (exec c body) h env' i j) p.length then .norm h env'
          else .stuck "sort.Slice: the proposed result is not a sorted permutation"
        | _ => .stuck "sort.Slice of something that is not a slice of pointers" := id rfl
theorem exec_copyObj (x : Nat) (e : Expr) :
    exec c (.copyObj x e) h env =
      bindR (eval c.structs h env e) fun v =>
        match v with
        | .ptr a =>
          match h[a]? with
          | some o => if x < env.length then .norm (h ++ [o]) (env.set x (.ptr h.length)) else .stuck "no such slot"
          | none => .stuck "dangling pointer"
        | .nil => .panic
        | _ => .stuck "dereference of a non-pointer" := id rfl

/-- Splitting a chain at position `n`. -/
theorem exec_take_drop (n : Nat) (s : Stmt) :
    exec c s h env = (exec c (s.take n) h env).andThen (exec c (s.drop n)) := by
  induction n generalizing s h env with
  | zero => rfl
  | succ n ih =>
    cases s with
    | seq a b =>
      simp only [Stmt.take, Stmt.drop, exec]
      cases hx : exec c a h env <;> simp only [andThen_norm, andThen_brk, andThen_cont, andThen_ret, andThen_panic, andThen_stuck]
      exact ih _ _ _
    | _ => simp only [Stmt.take, Stmt.drop] <;> (cases hx : exec c _ h env <;> simp [exec, Out.andThen])

end rules

/-! ## Procedures -/

/-- What a procedure returns, from the result of its body. -/
def procResult : Out → Res (Heap × List Val)
  | .ret h' vs => .ok (h', vs)
  | .norm h' _ => .ok (h', [])
  | .brk _ _ => .stuck "break outside a loop"
  | .cont _ _ => .stuck "continue outside a loop"
  | .panic => .panic
  | .stuck w => .stuck w

theorem execProc_eq (c : Ctx) (p : Proc) (h : Heap) (args : List Val) (hn : p.nparams = args.length) :
    execProc c p h args = procResult (exec c p.body h (args ++ List.replicate (p.nslots - p.nparams) .undef)) := by
  unfold execProc
  rw [if_neg (by omega)]
  cases exec c p.body h (args ++ List.replicate (p.nslots - p.nparams) .undef) <;> rfl

@[simp, tiir] theorem procResult_ret (h : Heap) (vs : List Val) : procResult (.ret h vs) = .ok (h, vs) := id rfl
@[simp, tiir] theorem procResult_norm (h : Heap) (env : Env) : procResult (.norm h env) = .ok (h, []) := id rfl
@[simp, tiir] theorem procResult_panic : procResult .panic = .panic := id rfl
@[simp, tiir] theorem procResult_stuck (w : String) : procResult (.stuck w) = .stuck w := id rfl

/-- Calling function number `f` of a program at depth `d + 1`. -/
theorem callIn_succ (P : Program) (w : World) (d f : Nat) (h : Heap) (args : List Val) (p : Proc)
    (hp : P.procs[f]? = some p) :
    callIn P w (d + 1) f h args =
      execProc { structs := w.structs, fuel := w.fuel, sort := w.sort, call := callIn P w d } p h args := by
  simp [callIn, hp]

/-! ## Loop shapes -/

theorem loop_false (cond : Heap → Env → Res Bool) (body post : Heap → Env → Out) (fuel : Nat) (h : Heap) (env : Env)
    (hc : cond h env = .ok false) : loop cond body post fuel h env = .norm h env := by
  unfold loop; simp [hc]

theorem loop_step (cond : Heap → Env → Res Bool) (body post : Heap → Env → Out) (fuel : Nat) (h : Heap) (env : Env)
    (hc : cond h env = .ok true) :
    loop cond body post (fuel + 1) h env = afterBody post (loop cond body post fuel) (body h env) := by
  rw [loop]; simp [hc]

theorem loop_zero (cond : Heap → Env → Res Bool) (body post : Heap → Env → Out) (h : Heap) (env : Env)
    (hc : cond h env = .ok true) :
    loop cond body post 0 h env = .stuck "loop bound exceeded" := by
  rw [loop]; simp [hc]

theorem loop_panic (cond : Heap → Env → Res Bool) (body post : Heap → Env → Out) (fuel : Nat) (h : Heap) (env : Env)
    (hc : cond h env = .panic) : loop cond body post fuel h env = .panic := by
  unfold loop; simp [hc]

@[simp, tiir] theorem afterPost_norm (k : Heap → Env → Out) (h : Heap) (env : Env) : afterPost k (.norm h env) = k h env := id rfl
@[simp, tiir] theorem afterPost_ret (k : Heap → Env → Out) (h : Heap) (vs : List Val) : afterPost k (.ret h vs) = .ret h vs := id rfl
@[simp, tiir] theorem afterPost_panic (k : Heap → Env → Out) : afterPost k .panic = .panic := id rfl
@[simp, tiir] theorem afterPost_stuck (k : Heap → Env → Out) (w : String) : afterPost k (.stuck w) = .stuck w := id rfl
@[simp, tiir] theorem afterBody_norm (post k : Heap → Env → Out) (h : Heap) (env : Env) :
    afterBody post k (.norm h env) = afterPost k (post h env) := id rfl
@[simp, tiir] theorem afterBody_cont (post k : Heap → Env → Out) (h : Heap) (env : Env) :
    afterBody post k (.cont h env) = afterPost k (post h env) := id rfl
@[simp, tiir] theorem afterBody_brk (post k : Heap → Env → Out) (h : Heap) (env : Env) :
    afterBody post k (.brk h env) = .norm h env := id rfl
@[simp, tiir] theorem afterBody_ret (post k : Heap → Env → Out) (h : Heap) (vs : List Val) :
    afterBody post k (.ret h vs) = .ret h vs := id rfl
@[simp, tiir] theorem afterBody_panic (post k : Heap → Env → Out) : afterBody post k .panic = .panic := id rfl
@[simp, tiir] theorem afterBody_stuck (post k : Heap → Env → Out) (w : String) : afterBody post k (.stuck w) = .stuck w := id rfl

/-! ## Heap shapes -/

theorem heap_get_append_self (h : Heap) (o : Obj) : (h ++ [o])[h.length]? = some o := by simp
theorem heap_get_append_lt (h : Heap) (o : Obj) (a : Nat) (ha : a < h.length) : (h ++ [o])[a]? = h[a]? := by
  simp [List.getElem?_append_left ha]
theorem heap_set_append_self (h : Heap) (o o' : Obj) : (h ++ [o]).set h.length o' = h ++ [o'] := by
  simp

/-! ## Keeping integers in `Nat`-cast form -/

theorem natCast_add_ofNat (a k : Nat) :
    (a : Int) + (no_index (OfNat.ofNat k) : Int) = ((a + (OfNat.ofNat k : Nat) : Nat) : Int) := id rfl
theorem natCast_add_natCast (a b : Nat) : (a : Int) + (b : Int) = ((a + b : Nat) : Int) := (Int.natCast_add a b).symm
theorem natCast_lt_natCast (a b : Nat) : ((a : Int) < (b : Int)) = (a < b) := by simp
theorem natCast_le_natCast (a b : Nat) : ((a : Int) ≤ (b : Int)) = (a ≤ b) := by simp
theorem natCast_eq_natCast (a b : Nat) : ((a : Int) = (b : Int)) = (a = b) := propext Int.ofNat_inj
theorem natCast_eq_ofNat (a k : Nat) : ((a : Int) = (no_index (OfNat.ofNat k) : Int)) = (a = (OfNat.ofNat k : Nat)) := by
  show ((a : Int) = ((OfNat.ofNat k : Nat) : Int)) = _
  exact propext Int.ofNat_inj
theorem natCast_lt_ofNat (a k : Nat) : ((a : Int) < (no_index (OfNat.ofNat k) : Int)) = (a < (OfNat.ofNat k : Nat)) := by
  show ((a : Int) < ((OfNat.ofNat k : Nat) : Int)) = _
  exact propext Int.ofNat_lt
theorem zero_eq_natCast_zero : (0 : Int) = ((0 : Nat) : Int) := rfl

/-! ## The symbolic-execution simp call -/

attribute [tiir] List.getElem?_cons_succ List.getElem?_cons_zero List.set_cons_succ List.set_cons_zero
  List.length_cons List.length_nil List.length_set Int.toNat_natCast decide_true decide_false
  List.cons_append List.nil_append List.replicate_succ List.replicate_zero ne_eq not_true_eq_false not_false_eq_true
  Bool.not_true Bool.not_false Bool.true_eq_false Bool.false_eq_true if_true if_false
  natCast_add_ofNat natCast_add_natCast natCast_lt_natCast natCast_le_natCast natCast_eq_natCast natCast_eq_ofNat natCast_lt_ofNat
  if_pos if_neg decide_eq_true_eq Nat.zero_add Nat.add_zero
  List.set_set List.getElem?_set_self List.getElem?_set_ne
  ge_iff_le gt_iff_lt true_and and_true Bool.and_true Bool.true_and Bool.and_false Bool.false_and
  Bool.or_true Bool.true_or Bool.or_false Bool.false_or Bool.not_not
  heap_get_append_self heap_set_append_self

/-- `simp only` with the rules that run a type-info-IR program (`tiir`) and the literal-arithmetic simprocs. -/
syntax "ti_simp" (" [" Lean.Parser.Tactic.simpLemma,* "]")? (" at " ident)? : tactic
macro_rules
  | `(tactic| ti_simp) =>
    `(tactic| simp (disch := omega) only [tiir, Int.reduceLE, Int.reduceLT, Int.reduceEq, Int.reduceNe, Int.reduceToNat, Int.reduceNeg, Int.reduceSub, Int.reduceAdd,
      Nat.reducePow, Nat.reduceEqDiff, Nat.reduceAdd, Nat.reduceLT, Nat.reduceSub, Nat.reduceMul, Nat.reduceLeDiff, ↓reduceIte])
  | `(tactic| ti_simp [$ls,*]) =>
    `(tactic| simp (disch := omega) only [tiir, Int.reduceLE, Int.reduceLT, Int.reduceEq, Int.reduceNe, Int.reduceToNat, Int.reduceNeg, Int.reduceSub, Int.reduceAdd,
      Nat.reducePow, Nat.reduceEqDiff, Nat.reduceAdd, Nat.reduceLT, Nat.reduceSub, Nat.reduceMul, Nat.reduceLeDiff, ↓reduceIte, $ls,*])
  | `(tactic| ti_simp at $h:ident) =>
    `(tactic| simp (disch := omega) only [tiir, Int.reduceLE, Int.reduceLT, Int.reduceEq, Int.reduceNe, Int.reduceToNat, Int.reduceNeg, Int.reduceSub, Int.reduceAdd,
      Nat.reducePow, Nat.reduceEqDiff, Nat.reduceAdd, Nat.reduceLT, Nat.reduceSub, Nat.reduceMul, Nat.reduceLeDiff, ↓reduceIte] at $h:ident)
  | `(tactic| ti_simp [$ls,*] at $h:ident) =>
    `(tactic| simp (disch := omega) only [tiir, Int.reduceLE, Int.reduceLT, Int.reduceEq, Int.reduceNe, Int.reduceToNat, Int.reduceNeg, Int.reduceSub, Int.reduceAdd,
      Nat.reducePow, Nat.reduceEqDiff, Nat.reduceAdd, Nat.reduceLT, Nat.reduceSub, Nat.reduceMul, Nat.reduceLeDiff, ↓reduceIte, $ls,*] at $h:ident)

end GoCrypt.TIIR
