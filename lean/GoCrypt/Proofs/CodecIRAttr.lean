import Lean

/-! The simp set `cir`: the rules that run a codec-IR program symbolically (see `Proofs/CodecIRBase.lean`). -/

register_simp_attr cir
