import GoCrypt.Proofs.SIREncWriteTail

/-!
# Stream IR of `hash/base64le`: `(*encoder).Write` — the end of the function, one interior iteration

Helper lemmas only; the property theorems are in `Props/SIREncoder.lean`.
-/

namespace GoCrypt.SIR
open GoCrypt.B64IR (Buf Heap Slice Res sliceBytes writeList padInt decodeMapBytes encVal)
open GoCrypt.Base64LE GoCrypt.Stream GoCrypt.Gen.base64leStream GoCrypt.Gen.base64le

theorem natCast_tmod_ofNat (a k : Nat) :
    Int.tmod (a : Int) (no_index (OfNat.ofNat k) : Int) = ((a % (OfNat.ofNat k : Nat) : Nat) : Int) := by
  show Int.tmod (a : Int) ((OfNat.ofNat k : Nat) : Int) = _
  rw [Int.tmod_eq_emod_of_nonneg (Int.natCast_nonneg a)]; rfl

/-! ## The trailing fringe as a whole -/

theorem trailing_run (c : Ctx) (L : EncLayout) (H : Heap) (O : List Obj) (X : List Ext) (B P : Buf) (bp off len n : Nat)
    (v4 v5 v6 : Val) (nb : Nat) (err : Option Nat)
    (hobj : O[L.d]? = some (encoderObj L.ae L.k L.bb L.bo err nb))
    (hB : H[L.bb]? = some B) (hBs : B.size = 3) (hP : H[bp]? = some P) (hne : L.bb ≠ bp)
    (hwin : off + len = P.size) (hlen : len < 3) (hsz : P.size < 2 ^ 62) (hn : n < 2 ^ 62) :
    procResult (exec c (wTailInit ;; wTailFor ;; wTailEnd) ⟨H, O, X⟩
        [.ptr L.d, .slice ⟨bp, off, len, len⟩, .int n, .err none, v4, v5, v6]) =
      .ok (⟨H.set L.bb (writeList B 0 (P.toList.drop off)), O.set L.d (encoderObj L.ae L.k L.bb L.bo err len), X⟩,
        [.int (n + len : Nat), .err none]) := by
  have hdl : L.d < O.length := lt_of_getElem? hobj
  have h0 : exec c wTailInit ⟨H, O, X⟩ [.ptr L.d, .slice ⟨bp, off, len, len⟩, .int n, .err none, v4, v5, v6] =
      .norm (tailSt L H O X B P bp off len n v4 v5 0).1 (tailSt L H O X B P bp off len n v4 v5 0).2 := by
    simp only [wTailInit, Stmt.head, Stmt.drop, encoderWriteIR, tailSt, List.take_zero, writeList,
      B64IR.heap_set_self H L.bb B hB]
    b64_simp []
  rw [exec_seq, h0, andThen_norm, exec_seq, tailLoop c L H O X B P bp off len n v4 v5 nb err hobj hB hBs hP hne hwin hlen hsz,
    andThen_norm]
  have htake : (P.toList.drop off).take len = P.toList.drop off := by
    apply List.take_of_length_le; simp; omega
  simp only [encoderObj] at hobj
  simp only [tailSt, htake, wTailEnd, Stmt.drop, encoderWriteIR]
  b64_simp [hobj]
  simp only [encoderObj]
  rfl

/-! ## One iteration of the interior loop, after `nn` has been computed -/

theorem encodedLen_mul3 (e : Encoding) (nn : Nat) (h3 : nn % 3 = 0) : encodedLen e nn = nn / 3 * 4 := by
  simp only [encodedLen, Base64LE.EncodedLen_eq]; split <;> omega

/-- The statements of the interior loop's body after `nn` is known. -/
def wIntCore : Stmt := wInterior.forBody.drop 2

set_option maxHeartbeats 1000000 in
theorem interior_core (n' : Nat) (hlib : EncLibSpec lib) (L : EncLayout) (e : Encoding) (st : EncSt) (herr : st.err = none)
    (H : Heap) (O : List Obj) (X : List Ext) (Ob P : Buf) (bp off len n nn : Nat) (v4 v6 : Val)
    (henc : EncAt H O L.ae L.b1 L.b2 e)
    (hobj : O[L.d]? = some (encoderObj L.ae L.k L.bb L.bo none 0))
    (hwr : X[L.k]? = some (writerOf st))
    (hOb : H[L.bo]? = some Ob) (hObs : Ob.size = 1024) (hP : H[bp]? = some P) (hne : L.bo ≠ bp) (hne6 : L.d ≠ L.ae)
    (hwin : off + len = P.size) (hsz : P.size < 2 ^ 62) (hn : n < 2 ^ 62)
    (h3 : nn % 3 = 0) (hnn : nn ≤ 768) (hnl : nn ≤ len) :
    exec { call := callIn program lib (n' + 1) } wIntCore ⟨H, O, X⟩
        [.ptr L.d, .slice ⟨bp, off, len, len⟩, .int n, .err none, v4, .int nn, v6] =
      let data := encode e ((P.toList.drop off).take nn)
      let st' := st.wWrite data
      if st'.err.isSome then
        .ret ⟨H.set L.bo (writeAt Ob 0 data), O.set L.d (encoderObj L.ae L.k L.bb L.bo st'.err 0), X.set L.k (writerOf st')⟩
          [.int n, .err st'.err]
      else
        .norm ⟨H.set L.bo (writeAt Ob 0 data), O, X.set L.k (writerOf st')⟩
          [.ptr L.d, .slice ⟨bp, off + nn, len - nn, len - nn⟩, .int (n + nn : Nat), .err none, v4, .int nn, v6] := by
  have hdl : L.d < O.length := lt_of_getElem? hobj
  have hbol : L.bo < H.length := lt_of_getElem? hOb
  have hae := henc.obj
  have hE := hlib.encode e H O X L.ae L.b1 L.b2 henc L.bo bp Ob P off nn len hOb hP hne (by omega)
    (by rw [hObs, encodedLen_mul3 e nn h3]; omega) (by omega)
  rw [hObs] at hE
  have hlen : (encode e ((P.toList.drop off).take nn)).length = nn / 3 * 4 := by
    rw [Base64LE.encode_length_eq, List.length_take, List.length_drop, Array.length_toList,
      Nat.min_eq_left (by omega), encodedLen_mul3 e nn h3]
  have hsb : sliceBytes (H.set L.bo (writeAt Ob 0 (encode e ((P.toList.drop off).take nn)))) ⟨L.bo, 0, nn / 3 * 4, 1024⟩ =
      some (encode e ((P.toList.drop off).take nn)) := by
    rw [← hlen]; exact sliceBytes_written H L.bo Ob _ _ hbol (by omega)
  have hW := extWrite_eq_wWrite st herr (H.set L.bo (writeAt Ob 0 (encode e ((P.toList.drop off).take nn)))) O X L.k _ _ hwr hsb
  have hcE : ∀ W vals, callIn program lib (n' + 1) "Encoding.Encode" W vals = lib "Encoding.Encode" W vals :=
    fun W vals => callIn_lib program lib n' _ W vals lookup_Encode
  simp only [encoderObj] at hobj
  simp only [wIntCore, wInterior, Stmt.forBody, Stmt.head, Stmt.drop, encoderWriteIR]
  cases hres : (st.wWrite (encode e ((P.toList.drop off).take nn))).err with
  | none =>
    rw [hres] at hW
    have hself : O.set L.d ⟨"encoder", [.err none, .ptr L.ae, .ext L.k, .slice ⟨L.bb, 0, 3, 3⟩, .int 0, .slice ⟨L.bo, 0, 1024, 1024⟩]⟩ = O :=
      list_set_self O L.d _ hobj
    b64_simp [hobj, hcE, hE, hW, hae, encObj, Option.isNone_none, Nat.sub_zero, Int.sub_zero, hself, Option.isSome_none]
  | some cerr =>
    rw [hres] at hW
    b64_simp [hobj, hcE, hE, hW, hae, encObj, Option.isNone_some, Nat.sub_zero, Int.sub_zero, Option.isSome_some]
    simp only [encoderObj]
    rfl

end GoCrypt.SIR
