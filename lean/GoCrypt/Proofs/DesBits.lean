import GoCrypt.Model.Kdf.Des

/-!
# Bit routing on 64-bit words

The table-driven DES of `Model/Kdf/Des.lean` moves bits around with shifts, masks and nibble-indexed
OR tables. All of these are *routings*: every output bit is a fixed input bit, or constantly 0.
A routing is described by `σ : Nat → Option Nat` (output bit `j` ← input bit `σ j`); routings compose,
and two routings agree on every word as soon as their descriptions agree on `j < 64` — which is
decidable. This turns universally quantified statements about 64-bit words into finite checks
without bit-blasting.
-/

namespace GoCrypt.Bits
open GoCrypt.Kdf GoCrypt.Kdf.Des

/-- Bit `j` of a word (bit 0 = least significant). -/
def bit (x : UInt64) (j : Nat) : Bool := x.toNat.testBit j

theorem bit_ge (x : UInt64) {j : Nat} (h : 64 ≤ j) : bit x j = false :=
  Nat.testBit_lt_two_pow (Nat.lt_of_lt_of_le (UInt64.toNat_lt x) (Nat.pow_le_pow_right (by decide) h))

theorem ext {x y : UInt64} (h : ∀ j, j < 64 → bit x j = bit y j) : x = y := by
  apply UInt64.toNat_inj.1
  apply Nat.eq_of_testBit_eq
  intro j
  by_cases hj : j < 64
  · exact h j hj
  · have := bit_ge x (Nat.le_of_not_lt hj); have := bit_ge y (Nat.le_of_not_lt hj)
    unfold bit at *; simp [*]

@[simp] theorem bit_zero (j : Nat) : bit 0 j = false := by simp [bit]
@[simp] theorem bit_or (x y : UInt64) (j : Nat) : bit (x ||| y) j = (bit x j || bit y j) := by
  simp [bit, UInt64.toNat_or, Nat.testBit_or]
@[simp] theorem bit_xor (x y : UInt64) (j : Nat) : bit (x ^^^ y) j = (bit x j ^^ bit y j) := by
  simp [bit, UInt64.toNat_xor, Nat.testBit_xor]
@[simp] theorem bit_and (x y : UInt64) (j : Nat) : bit (x &&& y) j = (bit x j && bit y j) := by
  simp [bit, UInt64.toNat_and, Nat.testBit_and]
theorem bit_shr (x k : UInt64) (j : Nat) : bit (x >>> k) j = bit x (k.toNat % 64 + j) := by
  simp [bit, UInt64.toNat_shiftRight, Nat.testBit_shiftRight]
theorem bit_shl (x k : UInt64) (j : Nat) :
    bit (x <<< k) j = (decide (j < 64) && (decide (k.toNat % 64 ≤ j) && bit x (j - k.toNat % 64))) := by
  unfold bit
  rw [UInt64.toNat_shiftLeft, Nat.testBit_mod_two_pow, Nat.testBit_shiftLeft]
theorem bit_ofNat (n j : Nat) : bit (UInt64.ofNat n) j = (decide (j < 64) && n.testBit j) := by
  unfold bit
  rw [UInt64.toNat_ofNat', Nat.testBit_mod_two_pow]

/-! ## Routings -/

/-- Output bit `j` comes from input bit `σ j` (`none`: constant 0). -/
abbrev Route := Nat → Option Nat

def Route.eval (σ : Route) (x : UInt64) (j : Nat) : Bool :=
  match σ j with
  | some i => bit x i
  | none => false

/-- `F` is the routing described by `σ`. -/
def IsRoute (F : UInt64 → UInt64) (σ : Route) : Prop := ∀ x j, j < 64 → bit (F x) j = σ.eval x j

/-- Two descriptions agreeing below 64 describe the same function. -/
theorem IsRoute.eq {F G : UInt64 → UInt64} {σ τ : Route} (hF : IsRoute F σ) (hG : IsRoute G τ)
    (h : ∀ j, j < 64 → σ j = τ j) (x : UInt64) : F x = G x := by
  apply ext
  intro j hj
  rw [hF x j hj, hG x j hj, Route.eval, Route.eval, h j hj]

theorem IsRoute.congr {F : UInt64 → UInt64} {σ τ : Route} (hF : IsRoute F σ) (h : ∀ j, j < 64 → σ j = τ j) :
    IsRoute F τ := by
  intro x j hj
  rw [hF x j hj, Route.eval, Route.eval, h j hj]

theorem IsRoute.map_or {F : UInt64 → UInt64} {σ : Route} (hF : IsRoute F σ) (x y : UInt64) :
    F (x ||| y) = F x ||| F y := by
  apply ext; intro j hj
  rw [bit_or, hF _ j hj, hF _ j hj, hF _ j hj]
  unfold Route.eval; cases σ j <;> simp

theorem IsRoute.map_xor {F : UInt64 → UInt64} {σ : Route} (hF : IsRoute F σ) (x y : UInt64) :
    F (x ^^^ y) = F x ^^^ F y := by
  apply ext; intro j hj
  rw [bit_xor, hF _ j hj, hF _ j hj, hF _ j hj]
  unfold Route.eval; cases σ j <;> simp

theorem IsRoute.map_zero {F : UInt64 → UInt64} {σ : Route} (hF : IsRoute F σ) : F 0 = 0 := by
  apply ext; intro j hj
  rw [hF _ j hj]
  unfold Route.eval; cases σ j <;> simp

/-- The constant-0 routing. -/
theorem IsRoute.eq_zero {F : UInt64 → UInt64} {σ : Route} (hF : IsRoute F σ) (h : ∀ j, j < 64 → σ j = none) (x : UInt64) :
    F x = 0 := by
  apply ext; intro j hj
  rw [hF _ j hj, Route.eval, h j hj]; simp

/-! ### Combinators -/

def rid : Route := fun j => some j
def rand (m : UInt64) (σ : Route) : Route := fun j => if bit m j then σ j else none
def rshr (k : UInt64) (σ : Route) : Route := fun j => if k.toNat % 64 + j < 64 then σ (k.toNat % 64 + j) else none
def rshl (k : UInt64) (σ : Route) : Route := fun j => if k.toNat % 64 ≤ j then σ (j - k.toNat % 64) else none
def ror (σ τ : Route) : Route := fun j => match σ j with | some i => some i | none => τ j
/-- description of `F ∘ G` from those of `F` (`σ`) and `G` (`τ`) -/
def rcomp (σ τ : Route) : Route := fun j => match σ j with | some i => if i < 64 then τ i else none | none => none

def Disjoint (σ τ : Route) : Prop := ∀ j, j < 64 → σ j = none ∨ τ j = none

instance (σ τ : Route) : Decidable (Disjoint σ τ) := by unfold Disjoint; infer_instance

theorem isRoute_id : IsRoute (fun x => x) rid := fun _ _ _ => rfl

theorem IsRoute.and_lit {F : UInt64 → UInt64} {σ : Route} (hF : IsRoute F σ) (m : UInt64) :
    IsRoute (fun x => F x &&& m) (rand m σ) := by
  intro x j hj
  rw [bit_and, hF x j hj]
  unfold Route.eval rand
  cases bit m j <;> simp

theorem IsRoute.shr {F : UInt64 → UInt64} {σ : Route} (hF : IsRoute F σ) (k : UInt64) :
    IsRoute (fun x => F x >>> k) (rshr k σ) := by
  intro x j hj
  rw [bit_shr]
  unfold Route.eval rshr
  by_cases h : k.toNat % 64 + j < 64
  · rw [if_pos h, hF x _ h]; rfl
  · rw [if_neg h, bit_ge _ (Nat.le_of_not_lt h)]

theorem IsRoute.shl {F : UInt64 → UInt64} {σ : Route} (hF : IsRoute F σ) (k : UInt64) :
    IsRoute (fun x => F x <<< k) (rshl k σ) := by
  intro x j hj
  rw [bit_shl]
  unfold Route.eval rshl
  by_cases h : k.toNat % 64 ≤ j
  · rw [if_pos h, hF x _ (by omega)]; simp [hj, h, Route.eval]
  · rw [if_neg h]; simp [h]

theorem IsRoute.or {F G : UInt64 → UInt64} {σ τ : Route} (hF : IsRoute F σ) (hG : IsRoute G τ) (hd : Disjoint σ τ) :
    IsRoute (fun x => F x ||| G x) (ror σ τ) := by
  intro x j hj
  rw [bit_or, hF x j hj, hG x j hj]
  unfold Route.eval ror
  rcases hd j hj with h | h
  · rw [h]; simp
  · rw [h]; cases σ j <;> simp

theorem IsRoute.comp {F G : UInt64 → UInt64} {σ τ : Route} (hF : IsRoute F σ) (hG : IsRoute G τ) :
    IsRoute (fun x => F (G x)) (rcomp σ τ) := by
  intro x j hj
  rw [hF (G x) j hj]
  unfold Route.eval rcomp
  cases σ j with
  | none => rfl
  | some i =>
    by_cases hi : i < 64
    · simp only [if_pos hi]; rw [hG x i hi]; rfl
    · simp only [if_neg hi]; exact bit_ge _ (Nat.le_of_not_lt hi)

/-! ## The nibble-table permutation loop is a routing -/

/-- The loop of `permute816`/`permute1616` as a recursion: `k` rows starting at row `r`. -/
def pnL (t : Array Nat) : Nat → Nat → UInt64 → UInt64 → UInt64
  | _, 0, v, _ => v
  | r, k + 1, v, c => pnL t (r + 1) k (v ||| tbl t (r * 16 + (c &&& 0x0F).toNat)) (c >>> 4)

theorem foldl_pnL (t : Array Nat) (r k : Nat) (v c : UInt64) :
    (List.foldl (fun (b : UInt64 × UInt64) a => (b.fst ||| tbl t (a * 16 + (b.snd &&& 15).toNat), b.snd >>> 4)) (v, c)
      (List.range' r k)).fst = pnL t r k v c := by
  induction k generalizing r v c with
  | zero => rfl
  | succ k ih => rw [List.range'_succ, List.foldl_cons, pnL]; exact ih _ _ _

theorem range_size (n : Nat) : [:n].size = n := by simp [Std.Legacy.Range.size]

theorem permuteNib_eq_pnL (t : Array Nat) (rows : Nat) (c : UInt64) : permuteNib t rows c = pnL t 0 rows 0 c := by
  unfold permuteNib
  simp only [Std.Legacy.Range.forIn_eq_forIn_range', List.forIn_pure_yield_eq_foldl, pure_bind, range_size]
  exact foldl_pnL t 0 rows 0 c

/-- The table `t` (`rows` rows of 16 entries) ORs, for a nibble `n` in row `r`, the images of the set
bits of `n`: entry `(r, n)` has bit `j` set iff `σ j = some i` with `i` in nibble `r` and bit `i % 4`
of `n` set. -/
def TableRoutes (t : Array Nat) (rows : Nat) (σ : Route) : Prop :=
  ∀ r, r < rows → ∀ n, n < 16 → ∀ j, j < 64 →
    (t.getD (r * 16 + n) 0).testBit j = (match σ j with | some i => decide (i / 4 = r) && n.testBit (i % 4) | none => false)

instance (t : Array Nat) (rows : Nat) (σ : Route) : Decidable (TableRoutes t rows σ) := by
  unfold TableRoutes; infer_instance

theorem nib_lt (c : UInt64) : (c &&& 0x0F).toNat < 16 := by
  rw [UInt64.toNat_and]; exact Nat.lt_of_le_of_lt Nat.and_le_right (by decide)

theorem nib_testBit (c : UInt64) (k : Nat) (hk : k < 4) : (c &&& 0x0F).toNat.testBit k = bit c k := by
  rw [UInt64.toNat_and, Nat.testBit_and]
  have : (UInt64.toNat 15).testBit k = true := by
    have : k = 0 ∨ k = 1 ∨ k = 2 ∨ k = 3 := by omega
    rcases this with h | h | h | h <;> subst h <;> decide
  rw [this, Bool.and_true]; rfl

theorem pnL_bit (t : Array Nat) (rows : Nat) (σ : Route) (ht : TableRoutes t rows σ) (j : Nat) (hj : j < 64) :
    ∀ k r v c, r + k ≤ rows →
      bit (pnL t r k v c) j =
        (bit v j || (match σ j with | some i => decide (r ≤ i / 4 ∧ i / 4 < r + k) && bit c (i - 4 * r) | none => false)) := by
  intro k
  induction k with
  | zero =>
    intro r v c _
    simp only [pnL]
    cases σ j with
    | none => simp
    | some i =>
      have : ¬ (r ≤ i / 4 ∧ i / 4 < r + 0) := by omega
      simp only [decide_eq_false this, Bool.false_and, Bool.or_false]
  | succ k ih =>
    intro r v c hr
    rw [pnL, ih (r + 1) _ _ (by omega), bit_or]
    have hT := ht r (by omega) _ (nib_lt c) j hj
    unfold tbl
    rw [bit_ofNat, hT]
    cases hσ : σ j with
    | none => simp [hj]
    | some i =>
      simp only [hj, decide_true, Bool.true_and]
      by_cases h1 : i / 4 = r
      · have h2 : ¬ (r + 1 ≤ i / 4 ∧ i / 4 < r + 1 + k) := by omega
        have h3 : r ≤ i / 4 ∧ i / 4 < r + (k + 1) := by omega
        have h4 : i - 4 * r = i % 4 := by omega
        rw [decide_eq_false h2, decide_eq_true h3, decide_eq_true h1, h4, nib_testBit c _ (Nat.mod_lt _ (by decide))]
        simp only [Bool.true_and, Bool.false_and, Bool.or_false]
      · by_cases h2 : r + 1 ≤ i / 4 ∧ i / 4 < r + 1 + k
        · have h3 : r ≤ i / 4 ∧ i / 4 < r + (k + 1) := by omega
          have h4 : UInt64.toNat 4 % 64 + (i - 4 * (r + 1)) = i - 4 * r := by
            have : UInt64.toNat 4 % 64 = 4 := by decide
            omega
          rw [decide_eq_true h2, decide_eq_true h3, decide_eq_false h1, bit_shr, h4]
          simp only [Bool.true_and, Bool.false_and, Bool.or_false]
        · have h3 : ¬ (r ≤ i / 4 ∧ i / 4 < r + (k + 1)) := by omega
          rw [decide_eq_false h2, decide_eq_false h3, decide_eq_false h1]
          simp only [Bool.false_and, Bool.or_false]

/-- `permute816` / `permute1616` with a table that routes bits is the routing. -/
theorem isRoute_permuteNib (t : Array Nat) (rows : Nat) (σ : Route) (ht : TableRoutes t rows σ)
    (hσ : ∀ j, j < 64 → ∀ i, σ j = some i → i / 4 < rows) : IsRoute (permuteNib t rows) σ := by
  intro x j hj
  rw [permuteNib_eq_pnL, pnL_bit t rows σ ht j hj rows 0 0 x (by omega)]
  unfold Route.eval
  cases h : σ j with
  | none => simp
  | some i =>
    have := hσ j hj i h
    simp [this]


end GoCrypt.Bits
