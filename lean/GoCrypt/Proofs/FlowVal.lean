import GoCrypt.Spec.FlowVal
import GoCrypt.Proofs.FlowValAttr

/-!
# Symbolic evaluation of the flow-IR interpreter

The programs of `Gen/Flow.lean` are concrete lists, their inputs symbolic.  `flow_run` executes a
program statement by statement: `run_cons` exposes the head statement, `simp [flowval]` evaluates
`step` on it.  The simp set `flowval` holds the defining equations of the interpreter, the
projections of `prims`, and (added by `Proofs/FlowValSchemes.lean`) what reading / writing a named
field of each scheme's struct gives.  `unmarshal`, `key`, the encoders and the KDFs stay folded.
-/

namespace GoCrypt.FlowVal
open GoCrypt GoCrypt.Flow GoCrypt.Codec GoCrypt.Scheme

theorem run_cons (P : Prims) (s : FStmt) (ss : List FStmt) (env : Env) (ent : Entropy) :
    run P (s :: ss) env ent = match step P env ent s with
      | .next env' ent' => run P ss env' ent'
      | .done o => o := rfl

theorem run_nil (P : Prims) (env : Env) (ent : Entropy) : run P [] env ent = .stuck "no return" := rfl

/-! ## The evaluation monad -/

@[flowval] theorem Eval.pure_apply {α} (a : α) (ent : Entropy) : (Pure.pure a : Eval α) ent = .ok (a, ent) := rfl
@[flowval] theorem Eval.bind_apply {α β} (x : Eval α) (f : α → Eval β) (ent : Entropy) :
    (x >>= f) ent = match x ent with
      | .ok (a, ent') => f a ent'
      | .panic => .panic
      | .stuck w => .stuck w := rfl
@[flowval] theorem Eval.pure_apply' {α} (a : α) (ent : Entropy) : (Eval.pure a : Eval α) ent = .ok (a, ent) := rfl
@[flowval] theorem Eval.stuck_apply {α} (w : String) (ent : Entropy) : (Eval.stuck w : Eval α) ent = .stuck w := rfl
@[flowval] theorem Eval.panic_apply {α} (ent : Entropy) : (Eval.panic : Eval α) ent = .panic := rfl
@[flowval] theorem draw_apply (n : Nat) (ent : Entropy) :
    draw n ent = .ok (ent.stream.take n, { stream := ent.stream.drop n, used := ent.used + n }) := rfl

/-! ## Environments -/

@[flowval] theorem Env.set_apply (env : Env) (x y : String) (v : Val) :
    (env.set x v) y = if y = x then some v else env y := rfl

/-! ## Projections of `prims` -/

@[flowval] theorem prims_const (S : Def) (rand : Nat) (rs : List String) : (prims S rand rs).const = constOf S := rfl
@[flowval] theorem prims_zero (S : Def) (rand : Nat) (rs : List String) : (prims S rand rs).zero = zeroOfVar S := rfl
@[flowval] theorem prims_results (S : Def) (rand : Nat) (rs : List String) : (prims S rand rs).results = rs := rfl
@[flowval] theorem prims_structTI (S : Def) (rand : Nat) (rs : List String) (T : String) :
    (prims S rand rs).structTI T = if T = "scheme" then tiOf S else none := rfl
@[flowval] theorem prims_call (S : Def) (rand : Nat) (rs : List String) : (prims S rand rs).call = callOf S rand := rfl
@[flowval] theorem prims_encoder (S : Def) (rand : Nat) (rs : List String) : (prims S rand rs).encoder = encoderOf S := rfl
@[flowval] theorem prims_unmarshal (S : Def) (rand : Nat) (rs : List String) (h : Bytes) :
    (prims S rand rs).unmarshal h = (tiOf S).elim (.error (.syntax 0 98)) fun ti =>
      (unmarshal ti h).map fun out => .struct ti (finalVals ti out) := rfl

/-! ## Assignment targets that occur in `Gen/Flow.lean` -/

@[flowval] theorem placeOfName_err : placeOfName "err" = .var "err" := by decide
@[flowval] theorem placeOfName_key : placeOfName "key" = .var "key" := by decide
@[flowval] theorem placeOfName_b : placeOfName "b" = .var "b" := by decide
@[flowval] theorem placeOfName_s : placeOfName "s" = .var "s" := by decide
@[flowval] theorem placeOfName_scheme : placeOfName "scheme" = .var "scheme" := by decide
@[flowval] theorem placeOfName_rounds : placeOfName "rounds" = .var "rounds" := by decide
@[flowval] theorem placeOfName_scheme_Rounds : placeOfName "scheme.Rounds" = .field "scheme" "Rounds" := by decide
@[flowval] theorem placeOfName_scheme_Version : placeOfName "scheme.Version" = .field "scheme" "Version" := by decide
@[flowval] theorem placeOfName_scheme_HashPrefix : placeOfName "scheme.HashPrefix" = .field "scheme" "HashPrefix" := by decide
@[flowval] theorem placeOfName_scheme_Separator : placeOfName "scheme.Separator" = .field "scheme" "Separator" := by decide
@[flowval] theorem placeOfName_scheme_Sum : placeOfName "scheme.Sum" = .field "scheme" "Sum" := by decide

/-! ## Stored field values -/

@[flowval] theorem fvNat_uint (n : Nat) : fvNat (.uint n) = n := rfl
@[flowval] theorem fvBytes_bytes (b : Bytes) : fvBytes (.bytes b) = b := rfl
@[flowval] theorem fvBytes_str (b : Bytes) : fvBytes (.str b) = b := rfl

/-! ## Buffers -/

/-- An encoder output of exactly the declared size replaces the (zeroed) buffer. -/
theorem writeBuf_exact (n : Nat) (out : Bytes) (h : out.length = n) :
    writeBuf (List.replicate n 0) out = some out := by
  simp [writeBuf, h]

theorem writeBuf_zeros_of_le (n : Nat) (out : Bytes) (h : out.length ≤ n) :
    writeBuf (List.replicate n 0) out = some (out ++ List.replicate (n - out.length) 0) := by
  simp [writeBuf, h]

/-! ## The defining equations -/

attribute [flowval] step eval evalSpine call litType zeroOfVar constOf asUnmarshal asEncode Step.of Step.ofOption
  env0 Eval.ofOption readPlace writePlace binop unop valEq Val.isNil Option.elim Except.map
  assignAll components encoderOf placeOfExpr callOf keyArgs keyResult sumLength kvList mkStruct writeFields
  optStr optNat optBool litField checkEnv paramsEnv paramsResults paramsPrims newHashEnv

/-- Finish the statement being executed, then execute statements while the head statement
evaluates; extra rewrite rules (case hypotheses on `unmarshal …`, buffer-length facts, …) are passed
in brackets. -/
syntax "flow_run" (" [" Lean.Parser.Tactic.simpLemma,* "]")? : tactic
macro_rules
  | `(tactic| flow_run) => `(tactic| ((try simp [flowval]); repeat (rw [run_cons]; simp [flowval])))
  | `(tactic| flow_run [$ls,*]) =>
    `(tactic| ((try simp [flowval, $ls,*]); repeat (rw [run_cons]; simp [flowval, $ls,*])))

end GoCrypt.FlowVal
