import GoCrypt.Props.C11Core
import GoCrypt.Props.DispatchFlow
import GoCrypt.Props.ParseFlow

/-!
# C11 — the hash parser terminates, loses no input and leaks no goroutine

* `Props/C11Core.lean` (namespace `GoCrypt.C11`): the theorems about the parser model — lossless rendering, exact spans,
  equality with the split-based reference, failure iff empty/unterminated identifier, the lexer's terminal token.
* `Props/ParseFlow.lean`, `Props/DispatchFlow.lean`: the whole lexer and parser regenerated from the current source into a
  structured IR (loops, switch, go, channel as a producer list) evaluate to that model for every input, never panic,
  terminate, and leave every channel closed and drained.

The obligations of C11 are the union.
-/

namespace GoCrypt.C11

#print axioms lexer_goroutine_facts
#print axioms parse_error_iff
#print axioms parse_total
#print axioms lexer_lossless
#print axioms parse_lossless
#print axioms spans_exact
#print axioms groups_nonempty
#print axioms lexer_never_blocked
#print axioms parse_eq_ref
#print axioms values_no_delim
#print axioms groups_surface_once
#print axioms GoCrypt.DispatchFlow.lexPrefixFlow_eq_model
#print axioms GoCrypt.DispatchFlow.lexPrefixFlow_closed_form
#print axioms GoCrypt.DispatchFlow.translated_fragment_lexer
#print axioms GoCrypt.ParseFlow.lexFragmentFlow_eq_model
#print axioms GoCrypt.ParseFlow.lexerFlow_eq_model
#print axioms GoCrypt.ParseFlow.parseFlow_eq_model
#print axioms GoCrypt.ParseFlow.parseFlow_returns
#print axioms GoCrypt.ParseFlow.parseFlow_never_panics
#print axioms GoCrypt.ParseFlow.parseFlow_terminates
#print axioms GoCrypt.ParseFlow.lexerFlow_returns
#print axioms GoCrypt.ParseFlow.parseFlow_error_iff
#print axioms GoCrypt.ParseFlow.parseFlow_lossless
#print axioms GoCrypt.ParseFlow.parseFlow_spans_exact
#print axioms GoCrypt.ParseFlow.lexerFlow_lossless
#print axioms GoCrypt.ParseFlow.translated_fragment
#print axioms GoCrypt.ParseFlow.token_constants
#print axioms GoCrypt.ParseFlow.token_struct
#print axioms GoCrypt.ParseFlow.appends_overwrite_their_source

end GoCrypt.C11
