import GoCrypt.Model.TypeCache
import GoCrypt.Model.Codec
import GoCrypt.Props.TypeInfoIR

/-!
# C18 — codec results do not depend on call history or on value/pointer form

`Marshal`/`Unmarshal` are functions of the type info and the argument (`Codec.marshal ti vals`,
`Codec.unmarshal ti s`); the only history-carrying state is the type cache. The theorems say the
type info handed to them — and the struct name used in error texts — never depends on the cache
contents.
-/

namespace GoCrypt.C18
open GoCrypt.Codec GoCrypt.TypeCache

theorem load_append_miss (c : Cache) (k k' : TypeKey) (v : TypeInfo) (h : c.load k = none) :
    Cache.load (c ++ [(k, v)]) k' = if k' = k then some v else c.load k' := by
  unfold Cache.load at *
  by_cases hk : k' = k
  · subst hk
    simp only [if_true]
    have : c.find? (fun e => e.1 = k') = none := by
      cases hf : c.find? (fun e => decide (e.1 = k')) with
      | none => rfl
      | some x => simp [hf] at h
    simp [List.find?_append, this]
  · simp only [hk, if_false]
    cases hf : c.find? (fun e => decide (e.1 = k')) with
    | none => simp [List.find?_append, hf]; intro h'; exact absurd h'.symm hk
    | some x => simp [List.find?_append, hf]

/-- The cache invariant is preserved by every call. -/
theorem cacheOK_step (compute : TypeKey → Except TagErr TypeInfo) (c : Cache) (t : ArgType)
    (h : CacheOK compute c) : CacheOK compute (getTypeInfo compute c t).1 := by
  unfold getTypeInfo
  cases hl : c.load t.key with
  | some ti => simpa using h
  | none =>
    cases hc : compute t.key with
    | error e => simpa using h
    | ok info =>
      simp only [Cache.loadOrStore, hl]
      intro k ti hk
      rw [load_append_miss c t.key k info hl] at hk
      by_cases hkk : k = t.key
      · subst hkk; simp at hk; subst hk; exact hc
      · simp [hkk] at hk; exact h k ti hk

theorem cacheOK_history (compute : TypeKey → Except TagErr TypeInfo) (c : Cache) (hist : List ArgType)
    (h : CacheOK compute c) : CacheOK compute (runHistory compute c hist) := by
  induction hist generalizing c with
  | nil => exact h
  | cons t ts ih => exact ih _ (cacheOK_step compute c t h)

/-- The result of `getTypeInfo` is the same from any (well-formed) cache as from the empty one:
`compute` of the dereferenced type, reporting the caller's own argument type. -/
theorem result_independent_of_cache (compute : TypeKey → Except TagErr TypeInfo) (c : Cache) (t : ArgType)
    (h : CacheOK compute c) :
    (getTypeInfo compute c t).2 = (compute t.key).map fun ti => ⟨ti, t⟩ := by
  unfold getTypeInfo
  cases hl : c.load t.key with
  | some ti => simp [h t.key ti hl, Except.map]
  | none =>
    cases hc : compute t.key with
    | error e => simp [Except.map]
    | ok info => simp [Cache.loadOrStore, hl, Except.map]

theorem cacheOK_empty (compute : TypeKey → Except TagErr TypeInfo) : CacheOK compute [] := by
  intro k ti h; simp [Cache.load] at h

/-- (a) History independence: after ANY history of calls (any types, any value/pointer forms,
succeeding or failing), a call returns exactly what it returns on a cold cache. -/
theorem history_independent (compute : TypeKey → Except TagErr TypeInfo) (hist : List ArgType) (t : ArgType) :
    (getTypeInfo compute (runHistory compute [] hist) t).2 = (getTypeInfo compute [] t).2 := by
  rw [result_independent_of_cache compute _ t (cacheOK_history compute [] hist (cacheOK_empty compute)),
      result_independent_of_cache compute [] t (cacheOK_empty compute)]

/-- (b) Value, pointer and pointer-to-pointer forms get the same type info (only the reported
struct name differs, and it is the caller's own). -/
theorem forms_agree (compute : TypeKey → Except TagErr TypeInfo) (c : Cache) (k : TypeKey) (d₁ d₂ : Nat)
    (h : CacheOK compute c) :
    ((getTypeInfo compute c ⟨k, d₁⟩).2.map (·.info)) = ((getTypeInfo compute c ⟨k, d₂⟩).2.map (·.info)) := by
  rw [result_independent_of_cache compute c _ h, result_independent_of_cache compute c _ h]
  cases compute k <;> simp [Except.map]

/-- (c) Invalid tag combinations are reported on every call: a failing `compute` is never cached,
so the error comes back from any history. -/
theorem invalid_tags_every_call (compute : TypeKey → Except TagErr TypeInfo) (hist : List ArgType) (t : ArgType)
    (e : TagErr) (he : compute t.key = .error e) :
    (getTypeInfo compute (runHistory compute [] hist) t).2 = .error e := by
  rw [history_independent, result_independent_of_cache compute [] t (cacheOK_empty compute), he]; rfl

/-- (d) The reported struct is the caller's argument type, never a previous caller's. -/
theorem reports_own_struct (compute : TypeKey → Except TagErr TypeInfo) (hist : List ArgType) (t : ArgType) (r : Result)
    (h : (getTypeInfo compute (runHistory compute [] hist) t).2 = .ok r) : r.reportedStruct = t := by
  rw [history_independent, result_independent_of_cache compute [] t (cacheOK_empty compute)] at h
  cases hc : compute t.key with
  | error e => simp [hc, Except.map] at h
  | ok ti => simp [hc, Except.map] at h; rw [← h]

/-! Non-vacuity -/
example : (getTypeInfo (fun _ => .ok {}) (runHistory (fun _ => .ok {}) [] [⟨"A", 0⟩, ⟨"B", 1⟩, ⟨"A", 2⟩]) ⟨"A", 1⟩).2
    = .ok ⟨{}, ⟨"A", 1⟩⟩ := by rfl

#print axioms load_append_miss
#print axioms cacheOK_step
#print axioms result_independent_of_cache
#print axioms cacheOK_empty
#print axioms cacheOK_history
#print axioms history_independent
#print axioms forms_agree
#print axioms invalid_tags_every_call
#print axioms reports_own_struct

-- the type-info layer IS the current code (Props/TypeInfoIR.lean): getRawTypeInfo (tag-parsing loop, embedded-struct recursion), (*typeInfo).field (with sort.Slice as ANY sorted permutation),
-- normalize and the cold path of getTypeInfo regenerated from hash/typeinfo.go on every run (records behind pointers, reflect.Type as operations over the struct descriptions) = fieldOpts/rawFields/resolveParam/normalizeLoop/typeInfoOf
#print axioms GoCrypt.TypeInfoIR.no_unknown_nodes
#print axioms GoCrypt.TypeInfoIR.normalize_eq_normalizeLoop
#print axioms GoCrypt.TypeInfoIR.normalize_eq_normalizeLoop_exact
#print axioms GoCrypt.TypeInfoIR.getRawTypeInfo_eq_rawFields
#print axioms GoCrypt.TypeInfoIR.getTypeInfo_cold_eq_typeInfoOf
#print axioms GoCrypt.TypeInfoIR.getTypeInfo_cold_eq_typeInfoOf_exact
end GoCrypt.C18
