import GoCrypt.Spec.CryptSpecs2
import GoCrypt.Proofs.CryptSpecs2Hash
import GoCrypt.Proofs.CryptSpecs2Nt
import GoCrypt.Proofs.CryptSpecs2Bcrypt
import GoCrypt.Proofs.CryptSpecs2Des
import GoCrypt.Proofs.DesFipsEq

/-!
# C03 (continued): the remaining classic schemes compute what the published algorithms say

Property theorems only; the references are in `Spec/CryptSpecs2.lean`, the helper lemmas in
`Proofs/CryptSpecs2*.lean`, `Proofs/DesBits.lean`, `Proofs/DesTables.lean`, `Proofs/DesIter.lean`.
Each theorem is for **all** inputs (and all primitives where the scheme has one); the `#guard`s run both
sides on a published test vector (values cross-checked with libxcrypt 4.4.33).

* `sha1crypt_eq_spec`, `sunmd5_eq_spec`, `nthash_eq_spec`: model = reference, any `HM` / `H`.
* `bcrypt_eq_spec`: model = Provos–Mazières over `Prim/Blowfish.lean`, for `$2b$` and for passwords
  under 254 bytes; `bcrypt_long_password_deviation` states what the Go code does instead for
  `$2$`/`$2a$` passwords of 254 bytes and more — **a difference from libcrypt**, see there.
* `descrypt_layer_eq_spec`, `desext_layer_eq_spec`: model = crypt(3) layer over the single salted
  encryption `desModel key salt block := descrypt.Encrypt(key, block, salt, 1)`; this includes
  `encrypt_rounds_compose` — one call with `rounds = m + n` is `m` then `n` complete encryptions —
  proved from the Go tables for every 64-bit key and block.
* `encrypt_eq_fips` (the stretch, complete): that single encryption **is FIPS 46-3 DES** with the
  crypt(3) salt (`Spec/DesFips.lean`, bit-list functions over the printed tables), for every 64-bit
  key and block and every salt; hence `descrypt_eq_fips`, `desext_eq_fips`: the two schemes are
  crypt(3) over textbook DES. The table facts it rests on are exported as `ie3264_is_IP_then_E`,
  `cf6464_is_IPinv`, `spe_is_E_P_S`, `pc_tables_are_PC1_shifts_PC2`, `salt_is_E_swap`.
-/

namespace GoCrypt.C03b
open GoCrypt.Kdf GoCrypt.CryptSpec2 GoCrypt.C03bProofs GoCrypt

/-! ## sha1-crypt -/

/-- sha1-crypt: the model is the final byte transposition of the NetBSD iteration, for every HMAC. -/
theorem sha1crypt_eq_spec (HM : Bytes → Bytes → Bytes) (perm : List Nat) (pw salt : Bytes) (rounds : Nat) :
    sha1Derive HM perm Gen.sha1.prefixBytes pw salt rounds = permute (sha1cryptSpec HM pw salt rounds) perm :=
  sha1crypt_eq_spec' HM perm pw salt rounds

/-- … as `sha1.Key` calls it after its guards. -/
theorem sha1_derive_eq_spec (a : KeyArgs) :
    Scheme.sha1.derive a = Scheme.optToRes
      (permute (sha1cryptSpec Prim.hmacSha1 a.password a.salt a.rounds) (Scheme.permNat Gen.sha1.permFinal)) := by
  simp only [Scheme.sha1, sha1crypt_eq_spec]

/-- `strconv.FormatUint(n, 10)` is `printf("%u")`. -/
theorem formatUint_eq_decimal (n : Nat) : Strconv.formatUint n 10 = decimal n := C03bProofs.formatUint_eq_decimal n

/-! ## Sun MD5 -/

/-- The coin toss: the Go loop body computes Muffett's coin on every 16-byte digest. -/
theorem sunCoin_eq_spec (D : Bytes) (hD : D.length = 16) (round : Nat) : sunCoin D round = some (sunCoinToss D round) :=
  sunCoin_eq D hD round

/-- Sun MD5, for every hash with 16-byte output and every round count the guards admit
(`rounds ≤ MaxRounds = 2^32 - 1 - 4096`). -/
theorem sunmd5_eq_spec (H : Bytes → Bytes) (hlen : ∀ x, (H x).length = 16) (phrase : Bytes) (perm : List Nat)
    (pw saltString : Bytes) (rounds : Nat) (hr : rounds ≤ 4294967295 - 4096) :
    sunmd5Derive H phrase perm pw saltString rounds = permute (sunmd5Spec H phrase pw saltString rounds) perm :=
  sunmd5_eq_spec' H hlen phrase perm pw saltString rounds hr

/-- … as `sunmd5.Key` calls it after its guards (which enforce `rounds ≤ MaxRounds`), on the marshalled
salt string; `hH`: MD5 digests have 16 bytes. -/
theorem sunmd5_derive_eq_spec (hH : ∀ x, (Prim.md5 x).length = 16) (a : KeyArgs) (hr : a.rounds ≤ 4294967295 - 4096) :
    Scheme.sunmd5.derive a =
      (match Scheme.sunSaltString a with
       | none => .panic
       | some ss => Scheme.optToRes (permute (sunmd5Spec Prim.md5 Gen.sunmd5.phrase a.password ss a.rounds)
           (Scheme.permNat Gen.sunmd5.permFinal))) := by
  simp only [Scheme.sunmd5]
  cases Scheme.sunSaltString a with
  | none => rfl
  | some ss => simp only [sunmd5_eq_spec Prim.md5 hH _ _ _ _ _ hr]

/-- … and for every round count whatsoever, with the 32-bit wrap of the Go counter made explicit. -/
theorem sunmd5_eq_spec_wrap (H : Bytes → Bytes) (hlen : ∀ x, (H x).length = 16) (phrase : Bytes) (perm : List Nat)
    (pw saltString : Bytes) (rounds : Nat) :
    sunmd5Derive H phrase perm pw saltString rounds =
      permute (sunDigest H phrase pw saltString ((rounds + 4096) % 4294967296)) perm :=
  sunmd5_eq_spec_wrap' H hlen phrase perm pw saltString rounds

/-! ## NT hash -/

/-- `utf8Prefix` finds exactly "the UTF-8 encoding of a scalar value at the head of `s`". -/
theorem utf8Prefix_iff (s : Bytes) (c k : Nat) :
    utf8Prefix s = some (c, k) ↔ IsScalar c ∧ k ≤ s.length ∧ utf8Encode c = s.take k :=
  utf8Prefix_iff' s c k

/-- The decoder inverts the encoder: every scalar value is read back from its encoding. -/
theorem utf8Scalars_encode (c : Nat) (hc : IsScalar c) : utf8Scalars (utf8Encode c) = [c] := by
  have h := complete1 c [] hc
  rw [List.append_nil] at h
  have hne : utf8Encode c ≠ [] := by unfold utf8Encode; split <;> (try split) <;> (try split) <;> simp
  cases he : utf8Encode c with
  | nil => exact absurd he hne
  | cons b rest =>
    rw [he] at h
    unfold utf8Scalars
    rw [go_cons, h]
    simp [utf8Scalars.go]

/-- `nthash.encodePassword` (`utf16.Encode([]rune(s))`, little endian) = the reference transcoding. -/
theorem utf16le_eq_spec (pw : Bytes) : Kdf.utf16le pw = CryptSpec2.utf16le pw := utf16le_eq pw

/-- NT hash: lower-case hex of `H` over the transcoded password, for every `H` and every byte string. -/
theorem nthash_eq_spec (H : Bytes → Bytes) (pw : Bytes) : hexLower (H (Kdf.utf16le pw)) = nthashSpec H pw :=
  nthash_eq_spec' H pw

/-- … as `Check`/`NewHash` use it: `Key(encodePassword(pw))`, hex-encoded. -/
theorem nthash_scheme_eq_spec (pw : Bytes) (k : Bytes)
    (h : Scheme.key Scheme.nthash { password := Kdf.utf16le pw } = .ok k) :
    Scheme.nthash.encodeSum k = nthashSpec Prim.md4 pw := by
  unfold Scheme.key at h
  cases hg : Scheme.nthash.guards { password := Kdf.utf16le pw } with
  | error e => rw [hg] at h; cases h
  | ok a' =>
    rw [hg] at h
    have hg' : Gen.nthash.keyGuards { password := Kdf.utf16le pw } = .ok a' := hg
    rw [Guards.nthash_guards] at hg'
    have := Guards.outcome_ok _ _ _ hg'
    subst this
    simp only [Scheme.nthash, Scheme.KeyRes.ok.injEq] at h
    subst h
    exact nthash_eq_spec Prim.md4 pw

/-! ## bcrypt -/

/-- bcrypt: the model is `EksBlowfishSetup` + 64 × ECB over the `Prim/Blowfish.lean` operations, for
every prefix reading, password, non-empty decoded salt and cost — for `$2b$` without restriction, for
`$2$`/`$2a$` when the password is shorter than 254 bytes. -/
theorem bcrypt_eq_spec (pfx pw decSalt : Bytes) (cost : Nat) (hs : decSalt ≠ [])
    (h : pfx = prefix2b ∨ pw.length < 254) :
    bcryptDerive pfx pw decSalt cost = bcryptSpec primBlowfish (variantOf pfx) cost decSalt pw :=
  bcrypt_eq_spec' pfx pw decSalt cost hs h

/-- **Deviation from the reference.** For `$2$`/`$2a$` and a password of 254 bytes or more the Go code
hashes seventy-two `'0'` characters instead of the password: all such passwords get the same hash.
libxcrypt (and OpenBSD) hash the first 72 bytes of the password (`bcrypt_eq_spec` would have
`pw ++ [0]` here). Concretely `Key("0123456789"×26[:254], "R1lJ2gkNaoPGdafE.H.16.", 4, $2a$)` encodes
to `nVyh2niHsGJhayOHLMiXlI45o8/DU.6` in go-crypt (its own test vector) and to
`1MKHPvmKwryeulRe225LKProWYwt9Oi` in libxcrypt 4.4.33. -/
theorem bcrypt_long_password_deviation (pfx pw decSalt : Bytes) (cost : Nat) (hp : pfx ≠ prefix2b)
    (hl : 254 ≤ pw.length) :
    bcryptDerive pfx pw decSalt cost = bcryptDerive pfx (List.replicate 72 48) decSalt cost :=
  bcrypt_long_password' pfx pw decSalt cost hp hl

/-- **bcrypt through the guards.** Whenever `bcrypt.Key` succeeds on a `$2b$` request or on a password
shorter than 254 bytes, its key is the Provos–Mazières reference on the decoded salt. -/
theorem bcrypt_key_eq_spec (a : KeyArgs) (k : Bytes) (h : Scheme.key Scheme.bcrypt a = .ok k)
    (hp : (Accepts.bcrypt.defaults a).optPrefix = prefix2b ∨ a.password.length < 254) :
    bcryptSpec primBlowfish (variantOf (Accepts.bcrypt.defaults a).optPrefix) a.rounds
      (stdDecodeBuf Scheme.bcryptAlphabet a.salt) a.password = some k := by
  unfold Scheme.key at h
  have hg : Scheme.bcrypt.guards a = Gen.bcrypt.keyGuards a := rfl
  rw [hg, Guards.bcrypt_guards] at h
  cases hv : Accepts.bcrypt.verdict a with
  | some e => rw [hv] at h; cases h
  | none =>
    rw [hv] at h
    have hc := (Guards.firstViolation_none_iff _ _).1 hv
    have h2 := hc (.saltExact Gen.bcrypt.SaltLength "InvalidSaltLengthError") (by simp [Accepts.bcrypt])
    have hd : (Accepts.bcrypt.defaults a).salt = a.salt ∧ (Accepts.bcrypt.defaults a).rounds = a.rounds ∧
        (Accepts.bcrypt.defaults a).password = a.password := by
      unfold Accepts.bcrypt; simp only []; split <;> simp
    have hl : a.salt.length = 22 := by
      simp only [Accepts.Clause.violation, Gen.bcrypt.SaltLength, hd.1] at h2
      by_cases h' : a.salt.length = 22
      · exact h'
      · simp [h'] at h2
    have hs : stdDecodeBuf Scheme.bcryptAlphabet a.salt ≠ [] := by
      intro e
      have := stdDecodeBuf_length Scheme.bcryptAlphabet a.salt
      rw [e, hl] at this
      simp at this
    simp only [Guards.outcome_none, guardsPw_eq] at h
    have hb := bcrypt_derive_eq (Accepts.bcrypt.defaults a) a.password
    rw [hb, hd.1, hd.2.1] at h
    rw [← bcrypt_eq_spec _ _ _ _ hs hp]
    cases hbd : bcryptDerive (Accepts.bcrypt.defaults a).optPrefix a.password (stdDecodeBuf Scheme.bcryptAlphabet a.salt) a.rounds with
    | none => rw [hbd] at h; cases h
    | some k' => rw [hbd] at h; simp only [Scheme.KeyRes.ok.injEq] at h; rw [h]

/-- The three ECB blocks are independent: 64 ECB passes = each block encrypted 64 times (the Go loop
order), for any block cipher. -/
theorem ecb_iterate {S : Type} (B : BlowfishOps S) (st : S) (hlen : ∀ b, (B.encryptBlock st b).length = 8) (n : Nat)
    (b0 b1 b2 : Bytes) (h0 : b0.length = 8) (h1 : b1.length = 8) (h2 : b2.length = 8) :
    iterate (encryptECB B st) n (b0 ++ b1 ++ b2) =
      iterate (B.encryptBlock st) n b0 ++ iterate (B.encryptBlock st) n b1 ++ iterate (B.encryptBlock st) n b2 :=
  iterate_ecb3 B st hlen n b0 b1 b2 h0 h1 h2

/-! ## DES-crypt and BSDi extended DES -/

/-- `descrypt.Encrypt` with `rounds = m + n` is `m` complete encryptions followed by `n`: the initial
and final permutations between them cancel, for every key, block and salt. (From the Go tables: the
permutation tables are bit routings, `IP ∘ FP = id` on E-consistent states, all 512 `spe` entries are
E-consistent.) -/
theorem encrypt_rounds_compose (key input : UInt64) (salt : UInt32) (m n : Nat) :
    Des.encrypt key input salt (m + n) = Des.encrypt key (Des.encrypt key input salt m) salt n :=
  DesIter.encrypt_add key input salt m n

theorem encrypt_zero_rounds (key input : UInt64) (salt : UInt32) : Des.encrypt key input salt 0 = input :=
  DesIter.encrypt_zero key input salt

/-- `descrypt.Key`: the 7 low bits of the first 8 characters, shifted left by one, big endian. -/
theorem desKey_eq_spec (pw : Bytes) : Des.desKey pw = desKeyOf pw := desKey_eq pw

/-- `desext.key`: BSDi key folding over the Go single encryption. -/
theorem desextKey_eq_spec (pw : Bytes) : Des.desextKey pw = bsdiKey desModel pw := desextKey_eq pw

/-- `hash.BigEndianEncoding` of the 8 result bytes = 11 base-64 digits of the 64-bit result. -/
theorem desOutput_eq_spec (v : UInt64) : Scheme.beEncode (Des.be64 v) = a64Block v := beEncode_eq v

/-- Traditional DES-crypt at the crypt(3) layer: for every password and every salt of at most 4
alphabet characters (the guards require exactly 2), the 11 hash characters are those of 25 iterated
salted encryptions of the zero block. -/
theorem descrypt_layer_eq_spec (pw salt : Bytes) (hlen : salt.length ≤ 4) (hv : ∀ c ∈ salt, c ∈ a64) :
    Scheme.beEncode (Des.be64 (Des.encrypt (Des.desKey pw) 0 (UInt32.ofNat (Codec.desDecodeInt salt)) 25)) =
      descryptSpec desModel pw salt :=
  descrypt_layer' pw salt hlen hv

/-- BSDi extended DES at the crypt(3) layer, every password, salt (≤ 4 alphabet characters) and round count. -/
theorem desext_layer_eq_spec (pw salt : Bytes) (rounds : Nat) (hlen : salt.length ≤ 4) (hv : ∀ c ∈ salt, c ∈ a64) :
    Scheme.beEncode (Des.be64 (Des.encrypt (Des.desextKey pw) 0 (UInt32.ofNat (Codec.desDecodeInt salt)) rounds)) =
      desextSpec desModel pw salt rounds :=
  desext_layer' pw salt rounds hlen hv

/-- … through the guards of `des.Key`: whenever `Key` succeeds, the encoded key is the reference. -/
theorem des_key_eq_spec (a : KeyArgs) (k : Bytes) (h : Scheme.key Scheme.des a = .ok k) :
    Scheme.des.encodeSum k = descryptSpec desModel a.password a.salt := by
  unfold Scheme.key at h
  have hg : Scheme.des.guards a = Gen.des.keyGuards a := rfl
  rw [hg, Guards.des_guards] at h
  cases hv : Accepts.des.verdict a with
  | some e => rw [hv] at h; cases h
  | none =>
    rw [hv] at h
    have hc := (Guards.firstViolation_none_iff _ _).1 hv
    have h2 := hc (.saltExact Gen.des.SaltLength "InvalidSaltLengthError") (by simp [Accepts.des])
    have h3 := (Guards.saltAlphabet_ok_iff _ _ _).1
      (hc (.saltAlphabet Accepts.hashAlpha "InvalidSaltError") (by simp [Accepts.des]))
    have hl : a.salt.length = 2 := by
      simp only [Accepts.Clause.violation, Accepts.des, id, Gen.des.SaltLength] at h2
      by_cases h' : a.salt.length = 2
      · exact h'
      · simp [h'] at h2
    simp only [Guards.outcome_none, Scheme.des, Scheme.KeyRes.ok.injEq] at h
    subst h
    exact descrypt_layer_eq_spec a.password a.salt (by omega) (fun c hc => by rw [← a64_eq]; exact h3 c hc)

/-- … and of `desext.Key`. -/
theorem desext_key_eq_spec (a : KeyArgs) (k : Bytes) (h : Scheme.key Scheme.desext a = .ok k) :
    Scheme.desext.encodeSum k = desextSpec desModel a.password a.salt a.rounds := by
  unfold Scheme.key at h
  have hg : Scheme.desext.guards a = Gen.desext.keyGuards a := rfl
  rw [hg, Guards.desext_guards] at h
  cases hv : Accepts.desext.verdict a with
  | some e => rw [hv] at h; cases h
  | none =>
    rw [hv] at h
    have hc := (Guards.firstViolation_none_iff _ _).1 hv
    have h2 := hc (.saltExact Gen.desext.SaltLength "InvalidSaltLengthError") (by simp [Accepts.desext])
    have h3 := (Guards.saltAlphabet_ok_iff _ _ _).1
      (hc (.saltAlphabet Accepts.hashAlpha "InvalidSaltError") (by simp [Accepts.desext]))
    have hl : a.salt.length = 4 := by
      simp only [Accepts.Clause.violation, Accepts.desext, id, Gen.desext.SaltLength] at h2
      by_cases h' : a.salt.length = 4
      · exact h'
      · simp [h'] at h2
    simp only [Guards.outcome_none, Scheme.desext, Scheme.KeyRes.ok.injEq] at h
    subst h
    exact desext_layer_eq_spec a.password a.salt a.rounds (by omega) (fun c hc => by rw [← a64_eq]; exact h3 c hc)

/-! ## The stretch: the table-driven DES is FIPS 46-3 DES -/

section fips
open GoCrypt.DesFips GoCrypt.DesEq GoCrypt.Bits GoCrypt.Gen.des_descrypt

/-- `ie3264` (after the even/odd bit shuffles): the two state words are the left and right halves of
`IP(block)`, E-expanded, in the Go layout — for every block. -/
theorem ie3264_is_IP_then_E (x : UInt64) :
    DesIter.ie (DesIter.f1 x) = eLay ((select IP (wordBits x)).take 32) ∧
    DesIter.ie (DesIter.f2 x) = eLay ((select IP (wordBits x)).drop 32) :=
  ⟨ip_left x, ip_right x⟩

/-- `cf6464` (after the nibble shuffles) is `IP⁻¹` of the two halves read back from E layout. -/
theorem cf6464_is_IPinv (A B : Bits) (hA : A.length = 32) (hB : B.length = 32) :
    DesIter.fpPair (eLay A, eLay B) = bitsWord (select FP (A ++ B)) :=
  fp_eq A B hA hB

/-- Every `spe` entry is `E(P(·))` of the output of the corresponding S-box (all 8 × 64 entries, bit by
bit; `rhoS g j` names the S-box output bit that reaches bit `j` through P and E). -/
theorem spe_is_E_P_S : ∀ g, g < 8 → ∀ v, v < 64 → ∀ j, j < 64 →
    (spe.getD (g * 64 + v) 0).testBit j =
      (match rhoS g j with | some m => (sbox g (sixOf v)).getD m false | none => false) :=
  spe_sbox

/-- … so the eight lookups of a round are `E(P(S1‖…‖S8))`, on every 48-bit input. -/
theorem speXor_is_E_P_S (y : Bits) (hy : y.length = 48) :
    Des.speXor (lay posE y) = lay posE (select E (select P (sboxes y))) :=
  speXor_lay y hy

/-- `pc1Rot` is PC-1 with the first shift; `pc2RotA`/`pc2RotB` advance `CD` by one/two left shifts; the
masked word is `PC-2(CD)` in E layout. Consequently the eight schedule pairs are `K₁ … K₁₆`. -/
theorem pc_tables_are_PC1_shifts_PC2 :
    (∀ k, Des.permuteNib pc1Rot 16 k = lay posCD (rotCD 1 (select PC1 (wordBits k)))) ∧
    (∀ cd : Bits, cd.length = 56 → Des.permuteNib pc2RotA 16 (lay posCD cd) = lay posCD (rotCD 1 cd)) ∧
    (∀ cd : Bits, cd.length = 56 → Des.permuteNib pc2RotB 16 (lay posCD cd) = lay posCD (rotCD 2 cd)) ∧
    (∀ cd : Bits, cd.length = 56 → lay posCD cd &&& Des.ksMask = lay posE (select PC2 cd)) ∧
    (∀ k, Des.keySchedules k = pairs ((keySchedule (wordBits k)).map (lay posE))) :=
  ⟨ks_first, ks_rot1, ks_rot2, ks_mask, keySchedules_fips⟩

/-- The salt trick of the round loop exchanges E outputs `i` and `i + 24` for the set salt bits. -/
theorem salt_is_E_swap (salt : Nat) (y : Bits) :
    ((((lay posE y >>> 32) ^^^ lay posE y) &&& (Des.expandSalt (UInt32.ofNat salt)).toUInt64) <<< 32) ^^^
      (((lay posE y >>> 32) ^^^ lay posE y) &&& (Des.expandSalt (UInt32.ofNat salt)).toUInt64) ^^^ lay posE y =
    lay posE (saltSwap salt y) :=
  salt_mix salt y

/-- With salt 0 the salted expansion is E itself: `desWord key 0` is the DES of the standard. -/
theorem saltSwap_zero (e : Bits) (h : e.length = 48) : saltSwap 0 e = e := DesEq.saltSwap_zero e h

/-- **`descrypt.Encrypt(key, block, salt, 1)` is FIPS 46-3 DES with the crypt(3) salt**, for every
64-bit key, every 64-bit block and every salt number. -/
theorem encrypt_eq_fips (key block : UInt64) (salt : Nat) :
    Des.encrypt key block (UInt32.ofNat salt) 1 = desWord key salt block :=
  DesEq.encrypt_eq_fips key block salt

/-- In particular, unsalted: `Encrypt(key, block, 0, 1)` is DES. -/
theorem encrypt_eq_fips_unsalted (key block : UInt64) : Des.encrypt key block 0 1 = desWord key 0 block :=
  encrypt_eq_fips key block 0

/-- The single encryption the layer theorems are stated over is the textbook one. -/
theorem desModel_eq_fips : desModel = desWord := by
  funext key salt block; exact encrypt_eq_fips key block salt

/-- DES-crypt is crypt(3) over FIPS DES: for every password and salt (≤ 4 alphabet characters). -/
theorem descrypt_eq_fips (pw salt : Bytes) (hlen : salt.length ≤ 4) (hv : ∀ c ∈ salt, c ∈ a64) :
    Scheme.beEncode (Des.be64 (Des.encrypt (Des.desKey pw) 0 (UInt32.ofNat (Codec.desDecodeInt salt)) 25)) =
      descryptSpec desWord pw salt := by
  rw [← desModel_eq_fips]; exact descrypt_layer_eq_spec pw salt hlen hv

/-- BSDi extended DES is its crypt(3) layer over FIPS DES. -/
theorem desext_eq_fips (pw salt : Bytes) (rounds : Nat) (hlen : salt.length ≤ 4) (hv : ∀ c ∈ salt, c ∈ a64) :
    Scheme.beEncode (Des.be64 (Des.encrypt (Des.desextKey pw) 0 (UInt32.ofNat (Codec.desDecodeInt salt)) rounds)) =
      desextSpec desWord pw salt rounds := by
  rw [← desModel_eq_fips]; exact desext_layer_eq_spec pw salt rounds hlen hv

/-- Through the guards: whenever `des.Key` / `desext.Key` succeed, the encoded key is crypt(3) over FIPS DES. -/
theorem des_key_eq_fips (a : KeyArgs) (k : Bytes) (h : Scheme.key Scheme.des a = .ok k) :
    Scheme.des.encodeSum k = descryptSpec desWord a.password a.salt := by
  rw [← desModel_eq_fips]; exact des_key_eq_spec a k h

theorem desext_key_eq_fips (a : KeyArgs) (k : Bytes) (h : Scheme.key Scheme.desext a = .ok k) :
    Scheme.desext.encodeSum k = desextSpec desWord a.password a.salt a.rounds := by
  rw [← desModel_eq_fips]; exact desext_key_eq_spec a k h

end fips

/-! ## Published test vectors: both sides compute them (cross-checked with libxcrypt 4.4.33) -/

section vectors
open Bytes (ofString)

/-- the constants of the reference are the strings they claim to be -/
example : sha1Magic = Gen.sha1.prefixBytes := rfl
#guard sha1Magic == ofString "$sha1$"
#guard orpheanBeholder == ofString "OrpheanBeholderScryDoubt"
#guard hexDigits == ofString "0123456789abcdef"
#guard a64 == ofString "./0123456789ABCDEFGHIJKLMNOPQRSTUVWXYZabcdefghijklmnopqrstuvwxyz"
#guard decimal 4096 == ofString "4096" && decimal 0 == ofString "0"

-- NT hash of "password" (MS-NLMP / libxcrypt `$3$`): 8846f7eaee8fb117ad06bdd830b7586c
#guard nthashSpec Prim.md4 (ofString "password") == ofString "8846f7eaee8fb117ad06bdd830b7586c"
#guard hexLower (Prim.md4 (Kdf.utf16le (ofString "password"))) == ofString "8846f7eaee8fb117ad06bdd830b7586c"
-- transcoding: "é€𝄞" (2-, 3-, 4-byte sequences, one surrogate pair)
example : utf8Scalars [0xC3, 0xA9, 0xE2, 0x82, 0xAC, 0xF0, 0x9D, 0x84, 0x9E] = [0xE9, 0x20AC, 0x1D11E] := by decide
example : CryptSpec2.utf16le [0xC3, 0xA9, 0xE2, 0x82, 0xAC, 0xF0, 0x9D, 0x84, 0x9E] =
    [0xE9, 0x00, 0xAC, 0x20, 0x34, 0xD8, 0x1E, 0xDD] := by decide
-- Go's rule for ill-formed input: one U+FFFD per offending byte (truncated sequence, overlong form,
-- encoded surrogate, beyond U+10FFFF, stray continuation byte)
example : utf8Scalars [0xE2, 0x82] = [0xFFFD, 0xFFFD] := by decide
example : utf8Scalars [0xC0, 0xAF] = [0xFFFD, 0xFFFD] := by decide
example : utf8Scalars [0xED, 0xA0, 0x80] = [0xFFFD, 0xFFFD, 0xFFFD] := by decide
example : utf8Scalars [0xF4, 0x90, 0x80, 0x80] = [0xFFFD, 0xFFFD, 0xFFFD, 0xFFFD] := by decide
example : utf8Scalars [0x41, 0x80, 0x42] = [0x41, 0xFFFD, 0x42] := by decide
example : decodeRunes 3 [0xE2, 0x82] = [0xFFFD, 0xFFFD] := by decide

-- sha1-crypt: `$sha1$3$saltsalt$RiOemtfZJrLMMqjVig/qmi/IdmCo` for "password"
#guard (permute (sha1cryptSpec Prim.hmacSha1 (ofString "password") (ofString "saltsalt") 3) Gen.sha1.permFinal.toList).map
    Scheme.leEncode == some (ofString "RiOemtfZJrLMMqjVig/qmi/IdmCo")
#guard (sha1Derive Prim.hmacSha1 Gen.sha1.permFinal.toList Gen.sha1.prefixBytes (ofString "password") (ofString "saltsalt") 3).map
    Scheme.leEncode == some (ofString "RiOemtfZJrLMMqjVig/qmi/IdmCo")

-- Sun MD5: `$md5$salt$$wzeAbcD.IeWmdgZ1DkhxH/` for "password" (0 extra rounds: 4096 rounds)
#guard (permute (sunmd5Spec Prim.md5 Gen.sunmd5.phrase (ofString "password") (ofString "$md5$salt$") 0)
    Gen.sunmd5.permFinal.toList).map Scheme.leEncode == some (ofString "wzeAbcD.IeWmdgZ1DkhxH/")
#guard (sunmd5Derive Prim.md5 Gen.sunmd5.phrase Gen.sunmd5.permFinal.toList (ofString "password") (ofString "$md5$salt$") 0).map
    Scheme.leEncode == some (ofString "wzeAbcD.IeWmdgZ1DkhxH/")

-- DES-crypt: `CCNf8Sbh3HDfQ` for "U*U*U*U*" (the classic vector), `abJnggxhB/yWI` for "password"/"ab"
#guard descryptSpec desModel (ofString "U*U*U*U*") (ofString "CC") == ofString "Nf8Sbh3HDfQ"
#guard descryptSpec desModel (ofString "password") (ofString "ab") == ofString "JnggxhB/yWI"
#guard (match Scheme.key Scheme.des { password := ofString "U*U*U*U*", salt := ofString "CC" } with
  | .ok k => Scheme.des.encodeSum k == ofString "Nf8Sbh3HDfQ"
  | _ => false)
-- BSDi: `_J9..rasmEedsvB6g8/6` for "password", `_J9..rasmu8kaDePMvWw` for a 34-character password (key folding)
#guard desextSpec desModel (ofString "password") (ofString "rasm") (a64Number (ofString "J9..")) == ofString "EedsvB6g8/6"
#guard desextSpec desModel (ofString "a very much longer text to encrypt") (ofString "rasm") (a64Number (ofString "J9..")) ==
    ofString "u8kaDePMvWw"
#guard a64Number (ofString "J9..") == 725

-- FIPS DES: the worked example key 133457799BBCDFF1, plaintext 0123456789ABCDEF, and crypt(3) over it
#guard (DesFips.desWord 0x133457799BBCDFF1 0 0x0123456789ABCDEF).toNat == 0x85E813540F0AB405
#guard (Des.encrypt 0x133457799BBCDFF1 0x0123456789ABCDEF 0 1).toNat == 0x85E813540F0AB405
#guard descryptSpec DesFips.desWord (ofString "U*U*U*U*") (ofString "CC") == ofString "Nf8Sbh3HDfQ"
#guard desextSpec DesFips.desWord (ofString "a very much longer text to encrypt") (ofString "rasm") 725 == ofString "u8kaDePMvWw"

-- bcrypt: `$2a$04$......................ini1L2hXWkegMV822DC6vks..mWmZHK` for "abc" (the salt decodes to 16 zero bytes)
#guard (bcryptSpec primBlowfish .v2a 4 (List.replicate 16 0) (ofString "abc")).map (stdEncode Scheme.bcryptAlphabet) ==
    some (ofString "ini1L2hXWkegMV822DC6vks..mWmZHK")
#guard (bcryptDerive [36, 50, 97, 36] (ofString "abc") (List.replicate 16 0) 4).map (stdEncode Scheme.bcryptAlphabet) ==
    some (ofString "ini1L2hXWkegMV822DC6vks..mWmZHK")

end vectors

#print axioms sha1crypt_eq_spec
#print axioms formatUint_eq_decimal
#print axioms sunCoin_eq_spec
#print axioms sunmd5_eq_spec
#print axioms sunmd5_eq_spec_wrap
#print axioms utf8Prefix_iff
#print axioms utf8Scalars_encode
#print axioms utf16le_eq_spec
#print axioms nthash_eq_spec
#print axioms nthash_scheme_eq_spec
#print axioms bcrypt_eq_spec
#print axioms bcrypt_long_password_deviation
#print axioms bcrypt_key_eq_spec
#print axioms ecb_iterate
#print axioms sha1_derive_eq_spec
#print axioms sunmd5_derive_eq_spec
#print axioms encrypt_rounds_compose
#print axioms encrypt_zero_rounds
#print axioms desKey_eq_spec
#print axioms desextKey_eq_spec
#print axioms desOutput_eq_spec
#print axioms descrypt_layer_eq_spec
#print axioms desext_layer_eq_spec
#print axioms des_key_eq_spec
#print axioms desext_key_eq_spec
#print axioms ie3264_is_IP_then_E
#print axioms cf6464_is_IPinv
#print axioms spe_is_E_P_S
#print axioms speXor_is_E_P_S
#print axioms pc_tables_are_PC1_shifts_PC2
#print axioms salt_is_E_swap
#print axioms saltSwap_zero
#print axioms encrypt_eq_fips
#print axioms encrypt_eq_fips_unsalted
#print axioms desModel_eq_fips
#print axioms descrypt_eq_fips
#print axioms desext_eq_fips
#print axioms des_key_eq_fips
#print axioms desext_key_eq_fips

end GoCrypt.C03b
