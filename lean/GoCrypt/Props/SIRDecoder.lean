import GoCrypt.Proofs.SIRDecNoPanic
import GoCrypt.Proofs.SIRLibDecode

/-!
# The streaming decoder of `hash/base64le` as regenerated from the Go source is the hand model

`gogen` re-translates `(*decoder).Read`, `(*newlineFilteringReader).Read` and `NewDecoder` of
`hash/base64le/base64le.go` into the stream-IR programs of `Gen/StreamIR.lean` on every run
(`Base/StreamIRBase.lean` interprets them over a heap of byte buffers, an object store for the structs
and a list of scripted external readers). The theorems below state that interpreting those programs
gives the hand model of `Model/Stream.lean` (`DecSt.rawRead`, `DecSt.filteredRead`, …): same returned
count and error, same bytes in the caller's buffer, same new reader state. The interpreter's third
outcome `stuck` (exhausted loop bound, type confusion, dangling pointer …) never equals the right-hand
sides. Property theorems only; the lemmas are in `Proofs/SIRDec*.lean`.

How the model's reader reaches the programs: `readerOf st` is the external scripted reader with the
script, the sticky error and the call counter of the model state `st`. How a whole decoder state
reaches them: `DecRep L e ow st W` (`Proofs/SIRDecRep.lean`) says that world `W` holds, at the layout `L`
(object numbers of the `decoder`, its `*Encoding`, its `newlineFilteringReader`; the external reader; the
heap buffers of the array fields `buf [1024]byte` and `outbuf [768]byte`), a Go `decoder` whose fields are
the model state `st`: `err`/`readErr` = `st.err`/`st.readErr`, `nbuf = len st.buf` and the first `nbuf`
bytes of `buf` are `st.buf`, the field `out` is the window `ow` with `len = len st.out` which, when not
empty, lies in `outbuf` and holds `st.out`; all buffers and objects are distinct; the external reader is
`readerOf st`.

KNOWN DIFFERENCES between the Go code and the model:
* `Live st` (the only hypothesis of `decoderRead_ir_eq_model` beyond the representation): the scripted
  reader reports an error at some point (a sticky error, or a script entry with an error). Without it
  (script exhausted, `sticky = none`) the underlying reader answers `(0, nil)` for ever and Go's refill
  loop spins; the model silently stops when its fuel runs out; the program is `stuck` (loop bound).
  `Live` is kept by `decRead` (`decRead_keeps_live`), so the theorem can be applied call after call.
* The model's `decode` starts from a ZERO-filled destination, `d.outbuf` and the caller's `p` hold old
  bytes. This makes no difference: what `Decode` reports (count, error, panic, the first `count` bytes)
  does not depend on the old contents (`decode_independent_of_old_dst`, proved for every encoding).
* The model's `decRead` ignores the panic flag of `decode`; Go would panic. This makes no difference
  either: with room for three bytes per four symbols `decode` does not panic (`decode_never_panics`), and
  `Read` always provides that room (`d.outbuf` has 768 bytes for at most 1024 symbols; the direct branch
  is taken only if `nbuf/4*3 ≤ len(p)`).
-/

namespace GoCrypt.SIR
open GoCrypt.B64IR (Buf Heap Slice Res sliceBytes writeList)
open GoCrypt.Base64LE GoCrypt.Stream GoCrypt.Gen.base64leStream

/-! ## Stage 1: the external reader is the model's scripted reader -/

/-- One `Read(p)` on the external reader that stands for the script of `st` (`p` the window `s` of buffer `B`)
is the model's `st.rawRead (len p)`: the delivered bytes land at the start of the window, the reader moves to the
model's next state, the call returns the number of delivered bytes and the model's error. -/
theorem extRead_eq_rawRead (H : Heap) (O : List Obj) (X : List Ext) (k : Nat) (st : DecSt) (s : Slice) (B : Buf)
    (hk : X[k]? = some (readerOf st)) (hb : H[s.buf]? = some B) (hin : s.off + s.len ≤ B.size) :
    extCall ⟨H, O, X⟩ k "Read" [.slice s] =
      .ok (⟨H.set s.buf (writeList B s.off (st.rawRead s.len).2.1), O, X.set k (readerOf (st.rawRead s.len).1)⟩,
        [.int (st.rawRead s.len).2.1.length, .err (st.rawRead s.len).2.2]) :=
  extRead_rawRead H O X k st s B hk hb hin

/-- What the loop bounds count (`Expr.extPending`) is the model's fuel measure `DecSt.pending`. -/
theorem ext_pending_eq_model (st : DecSt) : (readerOf st).pending = st.pending ∧ pendingAll [readerOf st] = st.pending :=
  ⟨pending_readerOf st, pendingAll_single st⟩

/-! ## Stage 2: `(*newlineFilteringReader).Read` -/

/-- `r.Read(p)` on the `newlineFilteringReader` object `nf` around external reader `k` (any number of other
external objects may exist), `p` the window `[off, off+want)` of buffer `bp` with contents `B`:
the regenerated program returns what the model's `st.filteredRead want (st.pending + 2)` returns (count = number of
delivered bytes, and the error), leaves the reader in the model's new state, and changes only buffer `bp`, which
becomes `nfrBuf off want st B _` (described by `nfrRead_buffer` below). The interpreter is never `stuck`: the
loop bound `1 + len(p) + pending input` of the translated `for n > 0` is enough because every repeated read consumed
at least one byte of the script. -/
theorem nfrRead_ir_eq_model (H : Heap) (O : List Obj) (X : List Ext) (nf k bp off want cap : Nat) (B : Buf) (st : DecSt)
    (ho : O[nf]? = some ⟨"newlineFilteringReader", [.ext k]⟩) (hk : X[k]? = some (readerOf st))
    (hb : H[bp]? = some B) (hin : off + want ≤ B.size) (hcap : want ≤ cap) (hw : want < 2 ^ 62) :
    interp program lib "newlineFilteringReader.Read" ⟨H, O, X⟩ [.ptr nf, .slice ⟨bp, off, want, cap⟩] =
      .ok (⟨H.set bp (nfrBuf off want st B (st.pending + 2)), O, X.set k (readerOf (st.filteredRead want (st.pending + 2)).1)⟩,
        [.int (st.filteredRead want (st.pending + 2)).2.1.length, .err (st.filteredRead want (st.pending + 2)).2.2]) := by
  rw [interp_eq program lib _ _ _ _ lookup_nfrRead]
  exact nfrRead_proc _ H O X nf k bp off want cap B st _ ho hk hb hin hcap hw (Nat.le_refl _)

/-- The caller's buffer after `newlineFilteringReader.Read`: same size; the delivered bytes are at the start of the
window; no byte outside the window has changed. (Bytes of the window behind the delivered ones hold leftovers of
the raw reads, as in Go.) -/
theorem nfrRead_buffer (off want : Nat) (st : DecSt) (B : Buf) (F : Nat) (hin : off + want ≤ B.size) :
    (nfrBuf off want st B F).size = B.size ∧
    ((nfrBuf off want st B F).toList.drop off).take (st.filteredRead want F).2.1.length = (st.filteredRead want F).2.1 ∧
    (∀ i, i < off ∨ off + want ≤ i → (nfrBuf off want st B F)[i]? = B[i]?) ∧
    (st.filteredRead want F).2.1.length ≤ want :=
  ⟨nfrBuf_size off want st B F, nfrBuf_window off want st B F hin, fun i hi => nfrBuf_outside off want st B F i hi,
    filteredRead_length_le st want F⟩

/-- The model's fuel `st.pending + 2` is not a restriction: any larger fuel gives the same result. -/
theorem filteredRead_enough_fuel (st : DecSt) (want F : Nat) (hF : st.pending + 1 ≤ F) :
    st.filteredRead want F = st.filteredRead want (st.pending + 2) :=
  filteredRead_fuel st want _ _ hF (by omega)

/-! ## Stage 3: `NewDecoder` -/

/-- `NewDecoder(enc, r)` (`enc` the object `ae`, `r` the external reader `k`): two new zero buffers (`buf`, `outbuf`), a
`newlineFilteringReader` object around `r` and the `decoder` object with nil errors, `nbuf = 0` and `out = nil`;
the result is the pointer to the decoder. Nothing else changes. -/
theorem newDecoder_ir_eq_model (H : Heap) (O : List Obj) (X : List Ext) (ae k : Nat) :
    interp program lib "NewDecoder" ⟨H, O, X⟩ [.ptr ae, .ext k] =
      .ok (⟨H ++ [Array.replicate 1024 0, Array.replicate 768 0],
            O ++ [⟨"newlineFilteringReader", [.ext k]⟩,
                  ⟨"decoder", [.err none, .err none, .ptr ae, .ptr O.length, .slice ⟨H.length, 0, 1024, 1024⟩, .int 0,
                    .slice ⟨0, 0, 0, 0⟩, .slice ⟨H.length + 1, 0, 768, 768⟩]⟩], X⟩,
        [.ptr (O.length + 1)]) := by
  rw [interp_eq program lib _ _ _ _ lookup_newDecoder]
  exact newDecoder_proc _ H O X ae k

/-- The world `NewDecoder` builds holds the model's initial decoder state: empty `buf` and `out`, no errors, and the
script / sticky error / call counter of the external reader it was given. -/
theorem newDecoder_represents (H : Heap) (O : List Obj) (X : List Ext) (ae b1 b2 k : Nat) (e : Encoding)
    (script : List GoCrypt.Stream.ReadResp) (sticky : Option Err) (reads : Nat)
    (henc : EncAt H O ae b1 b2 e)
    (hk : X[k]? = some (readerOf { script := script, sticky := sticky, reads := reads })) :
    DecRep ⟨O.length + 1, ae, b1, b2, O.length, k, H.length, H.length + 1⟩ e ⟨0, 0, 0, 0⟩
      { script := script, sticky := sticky, reads := reads }
      ⟨H ++ [Array.replicate 1024 0, Array.replicate 768 0],
        O ++ [⟨"newlineFilteringReader", [.ext k]⟩,
              ⟨"decoder", [.err none, .err none, .ptr ae, .ptr O.length, .slice ⟨H.length, 0, 1024, 1024⟩, .int 0,
                .slice ⟨0, 0, 0, 0⟩, .slice ⟨H.length + 1, 0, 768, 768⟩]⟩], X⟩ :=
  newDecoder_rep H O X ae b1 b2 k e _ henc hk ⟨rfl, rfl, rfl, rfl⟩

/-! ## Stage 4: `(*decoder).Read` -/

/-- `d.Read(p)` from a world that holds the model state `st` (`DecRep`), `p` the whole caller buffer `bp` (distinct from
the decoder's buffers, shorter than `2^59`): the regenerated program — leftover output, sticky error, the refill loop
with its dynamically dispatched `d.r.Read` (the translated `newlineFilteringReader.Read`), the final fragment without
padding, `io.ErrUnexpectedEOF`, both `Decode` variants (library calls into the regenerated buffer-IR `Decode`), the
overlapping `copy` inside `d.buf` — returns exactly what the model's `decRead e st (len p)` returns (count = number of
delivered bytes, error code), leaves a world that holds the model's new state, and the delivered bytes are the first
bytes of `p`'s buffer. Hypothesis `Live`: see the file header. -/
theorem decoderRead_ir_eq_model (L : DecLay) (e : Encoding) (ow : Slice) (st : DecSt) (H : Heap) (O : List Obj) (X : List Ext)
    (bp : Nat) (Bp : Buf) (hrep : DecRep L e ow st ⟨H, O, X⟩) (hbp : H[bp]? = some Bp) (hpl : Bp.size < 2 ^ 59)
    (h1 : bp ≠ L.b1) (h2 : bp ≠ L.b2) (hbb : bp ≠ L.bb) (hbo : bp ≠ L.bo)
    (hlive : Live st) :
    ∃ W' ow' Bp',
      interp program lib "decoder.Read" ⟨H, O, X⟩ [.ptr L.d, .slice ⟨bp, 0, Bp.size, Bp.size⟩] =
        .ok (W', [.int (decRead e st Bp.size).2.1.length, .err (decRead e st Bp.size).2.2]) ∧
      DecRep L e ow' (decRead e st Bp.size).1 W' ∧
      W'.heap[bp]? = some Bp' ∧ Bp'.size = Bp.size ∧
      Bp'.toList.take (decRead e st Bp.size).2.1.length = (decRead e st Bp.size).2.1 := by
  rw [interp_eq program lib _ _ _ _ lookup_read, program_length]
  exact decoderRead_proc libB64_decLibSpec _ { call := callIn program lib 8 }
    (fun W args => callIn_succ program lib 8 _ _ W args lookup_nfrRead)
    (fun W vals => callIn_lib program lib 8 _ W vals lookup_Decode)
    L e (decodeIndep e) ow st H O X bp Bp hrep hbp hpl h1 h2 hbb hbo hlive (decodeNoPanic_of_buf e st Bp.size hrep.nbuf)

/-- What `Decode` reports — count, error, panic flag, the first `count` bytes of `dst` — does not depend on what `dst` held
before the call (same size assumed): the model's zero-filled destination is no restriction. -/
theorem decode_independent_of_old_dst (e : Encoding) (src D1 D2 : Buf) (h : D1.size = D2.size) :
    (decodeLoop e src 0 0 0 D1).n = (decodeLoop e src 0 0 0 D2).n ∧
    (decodeLoop e src 0 0 0 D1).err = (decodeLoop e src 0 0 0 D2).err ∧
    (decodeLoop e src 0 0 0 D1).panic = (decodeLoop e src 0 0 0 D2).panic ∧
    (decodeLoop e src 0 0 0 D1).dst.toList.take (decodeLoop e src 0 0 0 D1).n =
      (decodeLoop e src 0 0 0 D2).dst.toList.take (decodeLoop e src 0 0 0 D2).n :=
  decodeIndep e src D1 D2 h

/-- `Decode` into a destination with room for three bytes per four symbols of `src` does not panic (whatever the symbols
are, newlines and malformed input included). -/
theorem decode_never_panics (e : Encoding) (dstLen : Nat) (src : Bytes) (h : 3 * src.length / 4 ≤ dstLen) :
    (decode e dstLen src).panic = false :=
  decode_noPanic e dstLen src h

/-- The leftover path does not need `Live`: with `len(d.out) > 0` the call copies from `d.out`. -/
theorem decoderRead_leftover (L : DecLay) (e : Encoding) (ow : Slice) (st : DecSt) (H : Heap) (O : List Obj) (X : List Ext)
    (bp : Nat) (Bp : Buf) (hrep : DecRep L e ow st ⟨H, O, X⟩) (hbp : H[bp]? = some Bp)
    (h1 : bp ≠ L.b1) (h2 : bp ≠ L.b2) (hbb : bp ≠ L.bb) (hbo : bp ≠ L.bo) (hout : 0 < st.out.length) :
    ∃ W' ow' Bp',
      interp program lib "decoder.Read" ⟨H, O, X⟩ [.ptr L.d, .slice ⟨bp, 0, Bp.size, Bp.size⟩] =
        .ok (W', [.int (st.out.take Bp.size).length, .err none]) ∧
      DecRep L e ow' { st with out := st.out.drop Bp.size } W' ∧
      W'.heap[bp]? = some Bp' ∧ Bp'.size = Bp.size ∧ Bp'.toList.take (st.out.take Bp.size).length = st.out.take Bp.size := by
  have := decoderRead_leftover_proc { call := callIn program lib program.procs.length } L e ow st H O X bp Bp hrep hbp h1 h2 hbb hbo hout
  rw [decRead_leftover_eq e st _ hout] at this
  rw [interp_eq program lib _ _ _ _ lookup_read]
  exact this

/-- Nor does the sticky-error path: with `d.err != nil` the call returns `0, d.err` and changes nothing. -/
theorem decoderRead_sticky (L : DecLay) (e : Encoding) (ow : Slice) (st : DecSt) (H : Heap) (O : List Obj) (X : List Ext)
    (bp : Nat) (plen cp : Nat) (hrep : DecRep L e ow st ⟨H, O, X⟩) (hout : st.out = []) (code : Nat) (herr : st.err = some code) :
    interp program lib "decoder.Read" ⟨H, O, X⟩ [.ptr L.d, .slice ⟨bp, 0, plen, cp⟩] = .ok (⟨H, O, X⟩, [.int 0, .err (some code)]) := by
  have hobj := hrep.obj
  rw [herr] at hobj
  rw [interp_eq program lib _ _ _ _ lookup_read, dr_body_noleft _ L e ow st H O X _ hrep (by rw [hout]; simp),
    drSticky_ret _ ⟨H, O, X⟩ L.d _ code _ _ _ _ _ _ _ hobj rfl, procResult_andThen_ret]

/-- A reader that will report an error still will after a `Read` (so `decoderRead_ir_eq_model` can be applied again). -/
theorem decRead_keeps_live (e : Encoding) (st : DecSt) (plen : Nat) (h : Live st) : Live (decRead e st plen).1 :=
  decRead_live e st plen h

/-! ## Examples -/

private def str (s : String) : Bytes := s.toUTF8.toList

/-- A reader that delivers `"ab\ncd"`, then `"\n\n"`, then `"ef"` together with `io.EOF`. -/
private def stNL : DecSt := { script := [⟨str "ab\ncd", none⟩, ⟨str "\n\n", none⟩, ⟨str "ef", some 1⟩] }
private def wNL : World := ⟨[Array.replicate 8 0], [⟨"newlineFilteringReader", [.ext 0]⟩], [readerOf stNL]⟩
private def nfrCall (W : World) : Res (World × List Val) :=
  interp program lib "newlineFilteringReader.Read" W [.ptr 0, .slice ⟨0, 0, 8, 8⟩]
private def nfrHeapVals (r : Res (World × List Val)) : Option (List UInt8 × List Val) :=
  match r with
  | .ok (W, vs) => some ((W.heap.getD 0 #[]).toList, vs)
  | _ => none
private def nfrNext (r : Res (World × List Val)) : Res (World × List Val) :=
  match r with
  | .ok (W, _) => nfrCall W
  | r => r

-- first call: "ab\ncd" is compacted to "abcd" (the fifth byte keeps the old 'd')
#guard nfrHeapVals (nfrCall wNL) == some (str "abcdd" ++ [0, 0, 0], [.int 4, .err none])
-- second call: "\n\n" is skipped, "ef" comes with io.EOF
#guard nfrHeapVals (nfrNext (nfrCall wNL)) == some (str "efcdd" ++ [0, 0, 0], [.int 2, .err (some 1)])
-- third call: nothing more, the sticky io.EOF
#guard nfrHeapVals (nfrNext (nfrNext (nfrCall wNL))) == some (str "efcdd" ++ [0, 0, 0], [.int 0, .err (some 1)])
-- the model says the same
#guard (stNL.filteredRead 8 (stNL.pending + 2)).2 == (str "abcd", none)
#guard ((stNL.filteredRead 8 (stNL.pending + 2)).1.filteredRead 8 20).2 == (str "ef", some 1)

/-! ### NewEncoding → NewDecoder → Read, Read, … against the model's `decRead` -/

private def alpha : Bytes := str "./0123456789ABCDEFGHIJKLMNOPQRSTUVWXYZabcdefghijklmnopqrstuvwxyz"

/-- `NewEncoding(alphabet)` (and `WithPadding(NoPadding)` if `noPad`), then `NewDecoder` around external reader 0. -/
private def mkDecoder (noPad : Bool) (st : DecSt) : Option (World × Val) :=
  match interp program lib "NewEncoding" ⟨[], [], [readerOf st]⟩ [.str alpha] with
  | .ok (W, [v]) =>
    let r := if noPad then interp program lib "Encoding.WithPadding" W [v, .int (-1)] else .ok (W, [v])
    match r with
    | .ok (W1, [v1]) =>
      match interp program lib "NewDecoder" W1 [v1, .ext 0] with
      | .ok (W2, [d]) => some (W2, d)
      | _ => none
    | _ => none
  | _ => none

/-- `Read` into fresh buffers (filled with 0xAA) of the given lengths: delivered bytes and errors. -/
private def irReads (W : World) (d : Val) : List Nat → List (Option (Bytes × Option Nat))
  | [] => []
  | plen :: rest =>
    match interp program lib "decoder.Read" ⟨W.heap ++ [Array.replicate plen 170], W.objs, W.exts⟩
        [d, .slice ⟨W.heap.length, 0, plen, plen⟩] with
    | .ok (W', [.int n, .err e]) => some (((W'.heap.getD W.heap.length #[]).toList.take n.toNat), e) :: irReads W' d rest
    | _ => [none]

private def modelReads (e : Encoding) (st : DecSt) : List Nat → List (Option (Bytes × Option Nat))
  | [] => []
  | plen :: rest => let r := decRead e st plen; some (r.2.1, r.2.2) :: modelReads e r.1 rest

private def agree (noPad : Bool) (st : DecSt) (plens : List Nat) : Bool :=
  match mkDecoder noPad st with
  | some (W, d) => irReads W d plens == modelReads ⟨alpha, if noPad then none else some 61, false⟩ st plens
  | none => false

/-- "/6k./6k./6k.2I.=" (bytes 1,2,3,1,2,3,1,2,3,4,5 with padding) in three fragments, a newline inside, then `io.EOF`. -/
private def stPad : DecSt := { script := [⟨str "/6k./6", none⟩, ⟨str "k./6\nk.", none⟩, ⟨str "2I.=", some 1⟩] }
/-- the same text without the padding character -/
private def stNoPad : DecSt := { script := [⟨str "/6k./6", none⟩, ⟨str "k./6\nk.", none⟩, ⟨str "2I.", some 1⟩] }
/-- malformed text and a reader error 7 -/
private def stBad : DecSt := { script := [⟨str "/6k.2I!/6k.", none⟩, ⟨str "2I.", some 7⟩] }

-- small and large `p`: the delivered fragments and the final io.EOF
#guard (match mkDecoder false stPad with | some (W, d) => irReads W d [2, 100, 3, 5, 5, 5] | none => []) ==
  [some ([1, 2], none), some ([3], none), some ([1, 2, 3], none), some ([1, 2, 3], none), some ([4, 5], none), some ([], some 1)]
#guard agree false stPad [2, 100, 3, 5, 5, 5, 5]
#guard agree false stPad [0, 1, 1, 1, 1, 1, 1, 1, 1, 1, 1, 1, 1, 1]
#guard agree false stPad [1000, 10, 10]
-- without padding: the final fragment of 3 symbols is decoded by the NoPadding branch
#guard agree true stNoPad [2, 100, 3, 5, 5, 5, 5]
#guard agree true stNoPad [1000, 10, 10]
#guard agree true stNoPad [0, 0, 1, 1, 1, 1, 1, 1, 1, 1, 1, 1, 1, 1]
-- the unpadded text read by a padding decoder: io.ErrUnexpectedEOF (code 2) at the end
#guard agree false stNoPad [1000, 10, 10]
#guard (modelReads ⟨alpha, some 61, false⟩ stNoPad [1000, 10, 10]).getLast? == some (some ([], some 2))
-- malformed input: CorruptInputError(6) = code 1006, sticky
#guard agree true stBad [2, 100, 3, 5, 5]
#guard agree true stBad [100, 100, 3]
#guard modelReads ⟨alpha, none, false⟩ stBad [100, 100] == [some ([1, 2, 3], some 1006), some ([], some 1006)]

-- why `Live` is needed: a reader that delivers "/6" and then answers (0, nil) for ever. Go's refill loop spins; the
-- program runs out of its loop bound (`stuck`, shown as `none` here); the model stops refilling and returns (0, nil).
private def stSpin : DecSt := { script := [⟨str "/6", none⟩] }
#guard (match mkDecoder false stSpin with | some (W, d) => irReads W d [10] | none => []) == [none]
#guard modelReads ⟨alpha, some 61, false⟩ stSpin [10] == [some ([], none)]

end GoCrypt.SIR

#print axioms GoCrypt.SIR.extRead_eq_rawRead
#print axioms GoCrypt.SIR.ext_pending_eq_model
#print axioms GoCrypt.SIR.nfrRead_ir_eq_model
#print axioms GoCrypt.SIR.nfrRead_buffer
#print axioms GoCrypt.SIR.filteredRead_enough_fuel
#print axioms GoCrypt.SIR.newDecoder_ir_eq_model
#print axioms GoCrypt.SIR.newDecoder_represents
#print axioms GoCrypt.SIR.decoderRead_ir_eq_model
#print axioms GoCrypt.SIR.decoderRead_leftover
#print axioms GoCrypt.SIR.decoderRead_sticky
#print axioms GoCrypt.SIR.decRead_keeps_live
#print axioms GoCrypt.SIR.decode_independent_of_old_dst
#print axioms GoCrypt.SIR.decode_never_panics
