import GoCrypt.Props.KdfProps
import GoCrypt.Props.C16

/-!
# C03 — classic crypt(3) schemes compute the same hashes as the reference libcrypt

Kernel-checked part: the code-shaped KDF skeletons (validated against the Go code by the `kdf`
correspondence suite) equal reference functions written from the published algorithm descriptions
(PHK md5-crypt; Drepper's SHA-crypt steps 1–22), for EVERY password, salt, round count and EVERY
hash function — this is where the length-dependent branches live (`take n (cycle d)`, binary digits
of the length LSB-first, `duplicate`). The output stage (final permutation tables regenerated from
the source; little-endian base64, C16) is covered by table facts and `encode_eq_spec`.
Equality with *libxcrypt itself* is sampled by the `xcrypt` suite (both directions), not proved:
the MD5/SHA/HMAC/DES/Blowfish/MD4 primitives are parameters of the theorems.
-/

namespace GoCrypt.C03

-- loops = closed forms
#print axioms GoCrypt.KdfProps.binDigitsLSB_eq
#print axioms GoCrypt.KdfProps.duplicate_spec
#print axioms GoCrypt.KdfProps.duplicate_spec_caller
#print axioms GoCrypt.KdfProps.shaFill_spec
#print axioms GoCrypt.KdfProps.md5Fill_spec
#print axioms GoCrypt.KdfProps.shaBits_spec
#print axioms GoCrypt.KdfProps.md5Bits_spec
-- model = specification, for all inputs and all hash functions
#print axioms GoCrypt.KdfProps.md5crypt_eq_spec
#print axioms GoCrypt.KdfProps.sha2crypt_eq_spec
-- output stage: permutation tables (regenerated) and the little-endian base64 digest encoding
#print axioms GoCrypt.KdfProps.md5_perm_permutation
#print axioms GoCrypt.KdfProps.sha256_perm_permutation
#print axioms GoCrypt.KdfProps.sha512_perm_permutation
#print axioms GoCrypt.KdfProps.sunmd5_perm_permutation
#print axioms GoCrypt.KdfProps.sha1_perm_facts
#print axioms GoCrypt.C16.encode_eq_spec
#print axioms GoCrypt.C16.exported_encodings

end GoCrypt.C03
