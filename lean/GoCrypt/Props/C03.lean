import GoCrypt.Props.KdfProps
import GoCrypt.Props.C16
import GoCrypt.Props.C03b
import GoCrypt.Props.KdfIR
import GoCrypt.Props.KdfIR2
import GoCrypt.Props.DesIR

/-!
# C03 — classic crypt(3) schemes compute the same hashes as the reference libcrypt

Kernel-checked part: the code-shaped KDF skeletons (validated against the Go code by the `kdf`
correspondence suite) equal reference functions written from the published algorithm descriptions
(PHK md5-crypt; Drepper's SHA-crypt steps 1–22), for EVERY password, salt, round count and EVERY
hash function — this is where the length-dependent branches live (`take n (cycle d)`, binary digits
of the length LSB-first, `duplicate`). The output stage (final permutation tables regenerated from
the source; little-endian base64, C16) is covered by table facts and `encode_eq_spec`.
Equality with *libxcrypt itself* is sampled by the `xcrypt` suite (both directions), not proved:
the MD5/SHA/HMAC/DES/Blowfish/MD4 primitives are parameters of the theorems.
-/

namespace GoCrypt.C03

-- loops = closed forms
#print axioms GoCrypt.KdfProps.binDigitsLSB_eq
#print axioms GoCrypt.KdfProps.duplicate_spec
#print axioms GoCrypt.KdfProps.duplicate_spec_caller
#print axioms GoCrypt.KdfProps.shaFill_spec
#print axioms GoCrypt.KdfProps.md5Fill_spec
#print axioms GoCrypt.KdfProps.shaBits_spec
#print axioms GoCrypt.KdfProps.md5Bits_spec
-- model = specification, for all inputs and all hash functions
#print axioms GoCrypt.KdfProps.md5crypt_eq_spec
#print axioms GoCrypt.KdfProps.sha2crypt_eq_spec
-- output stage: permutation tables (regenerated) and the little-endian base64 digest encoding
#print axioms GoCrypt.KdfProps.md5_perm_permutation
#print axioms GoCrypt.KdfProps.sha256_perm_permutation
#print axioms GoCrypt.KdfProps.sha512_perm_permutation
#print axioms GoCrypt.KdfProps.sunmd5_perm_permutation
#print axioms GoCrypt.KdfProps.sha1_perm_facts
#print axioms GoCrypt.C16.encode_eq_spec
#print axioms GoCrypt.C16.exported_encodings

-- the remaining schemes (Props/C03b.lean): model = reference written from the published algorithm, for all inputs;
-- the table-driven DES of des/descrypt (tables regenerated from const.go) = FIPS 46-3 DES with the crypt(3) salt swap, for all 64-bit keys and blocks
#print axioms GoCrypt.C03b.sha1crypt_eq_spec
#print axioms GoCrypt.C03b.sunmd5_eq_spec
#print axioms GoCrypt.C03b.sunmd5_eq_spec_wrap
#print axioms GoCrypt.C03b.nthash_eq_spec
#print axioms GoCrypt.C03b.utf16le_eq_spec
#print axioms GoCrypt.C03b.bcrypt_eq_spec
#print axioms GoCrypt.C03b.bcrypt_key_eq_spec
#print axioms GoCrypt.C03b.bcrypt_long_password_deviation
#print axioms GoCrypt.C03b.descrypt_layer_eq_spec
#print axioms GoCrypt.C03b.desext_layer_eq_spec
#print axioms GoCrypt.C03b.des_key_eq_spec
#print axioms GoCrypt.C03b.desext_key_eq_spec
#print axioms GoCrypt.C03b.encrypt_rounds_compose
#print axioms GoCrypt.C03b.encrypt_eq_fips
#print axioms GoCrypt.C03b.descrypt_eq_fips
#print axioms GoCrypt.C03b.desext_eq_fips
#print axioms GoCrypt.C03b.des_key_eq_fips
#print axioms GoCrypt.C03b.desext_key_eq_fips
#print axioms GoCrypt.C03b.ie3264_is_IP_then_E
#print axioms GoCrypt.C03b.cf6464_is_IPinv
#print axioms GoCrypt.C03b.spe_is_E_P_S
#print axioms GoCrypt.C03b.speXor_is_E_P_S
#print axioms GoCrypt.C03b.pc_tables_are_PC1_shifts_PC2
#print axioms GoCrypt.C03b.salt_is_E_swap

-- the KDF bodies ARE the current code (Props/KdfIR.lean): the hash-transcript IR regenerated from md5crypt.Encrypt, sha2crypt.Encrypt/duplicate,
-- cryptoutil.Permute and the HMAC loop of sha1.Key, interpreted generically in H, equals the hand-written skeletons for all inputs (panics included)
#print axioms GoCrypt.KdfIR.md5crypt_ir_eq_model
#print axioms GoCrypt.KdfIR.sha2crypt_ir_eq_model
#print axioms GoCrypt.KdfIR.sha256crypt_ir_eq_model
#print axioms GoCrypt.KdfIR.sha512crypt_ir_eq_model
#print axioms GoCrypt.KdfIR.sha2crypt_ir_unsupported_hash
#print axioms GoCrypt.KdfIR.sha2crypt_ir_zero_rounds
#print axioms GoCrypt.KdfIR.duplicate_ir_eq_model
#print axioms GoCrypt.KdfIR.permute_ir_eq_model
#print axioms GoCrypt.KdfIR.sha1_ir_eq_model
-- the remaining KDF glue IS the current code (Props/KdfIR2.lean): second-generation hash-transcript IR (variables are slots, closures lifted) regenerated from
-- descrypt.Key/EncodeInt/DecodeInt, desext.key/Key, des.Key, nthash.Key/encodePassword, sunmd5.Key (coin-toss loop), bcrypt.Key/encode (password rewriting, EksBlowfish glue)
-- and the Key tails of md5/sha256/sha512/sha1, interpreted = the models the reference theorems above speak about, for all inputs
#print axioms GoCrypt.KdfIR2.descrypt_key_ir_eq_model
#print axioms GoCrypt.KdfIR2.descrypt_encodeInt_ir_eq_model
#print axioms GoCrypt.KdfIR2.descrypt_decodeInt_ir_eq_model
#print axioms GoCrypt.KdfIR2.desext_key_ir_eq_fold
#print axioms GoCrypt.KdfIR2.desext_key_ir_eq_model
#print axioms GoCrypt.KdfIR2.desext_key_tail_ir_eq_derive
#print axioms GoCrypt.KdfIR2.des_key_tail_ir_eq_derive
#print axioms GoCrypt.KdfIR2.nthash_key_tail_ir_eq_model
#print axioms GoCrypt.KdfIR2.nthash_key_tail_ir_eq_derive
#print axioms GoCrypt.KdfIR2.nthash_encodePassword_ir_eq_model
#print axioms GoCrypt.KdfIR2.nthash_encodePassword_ir_eq_units
#print axioms GoCrypt.KdfIR2.md5_key_tail_ir_eq_model
#print axioms GoCrypt.KdfIR2.md5_key_tail_ir_eq_derive
#print axioms GoCrypt.KdfIR2.sha256_key_tail_ir_eq_model
#print axioms GoCrypt.KdfIR2.sha256_key_tail_ir_eq_derive
#print axioms GoCrypt.KdfIR2.sha512_key_tail_ir_eq_model
#print axioms GoCrypt.KdfIR2.sha512_key_tail_ir_eq_derive
#print axioms GoCrypt.KdfIR2.sha1_key_tail_ir_eq_derive
#print axioms GoCrypt.KdfIR2.sunmd5_key_tail_ir_eq_model
#print axioms GoCrypt.KdfIR2.sunmd5_key_tail_ir_eq_derive
#print axioms GoCrypt.KdfIR2.blowfishPrims_spec
#print axioms GoCrypt.KdfIR2.bcrypt_rewrite_ir_eq_model
#print axioms GoCrypt.KdfIR2.bcrypt_encode_ir_eq_model
#print axioms GoCrypt.KdfIR2.bcrypt_ir_eq_bcryptDerive
#print axioms GoCrypt.KdfIR2.bcrypt_key_tail_ir_eq_derive
-- DES itself is the current code (Props/DesIR.lean): permute816/1616, keySchedules and Encrypt regenerated from des/descrypt/des.go = the table-driven model that C03b.encrypt_eq_fips
-- proves equal to FIPS 46-3; the KdfIR2 theorems re-instantiated with the regenerated Encrypt as the primitive (`_full`)
#print axioms GoCrypt.DesIRProps.permute816_ir_eq_model
#print axioms GoCrypt.DesIRProps.permute1616_ir_eq_model
#print axioms GoCrypt.DesIRProps.permute_any_rows
#print axioms GoCrypt.DesIRProps.keySchedules_ir_eq_model
#print axioms GoCrypt.DesIRProps.encrypt_ir_eq_model
#print axioms GoCrypt.DesIRProps.desPrims_spec
#print axioms GoCrypt.DesIRProps.runEncrypt_wraps
#print axioms GoCrypt.DesIRProps.desext_key_ir_eq_model_full
#print axioms GoCrypt.DesIRProps.desext_key_tail_ir_eq_derive_full
#print axioms GoCrypt.DesIRProps.des_key_tail_ir_eq_derive_full
#print axioms GoCrypt.DesIRProps.no_unknown_nodes
#print axioms GoCrypt.DesIRProps.globals_defined
end GoCrypt.C03
