import GoCrypt.Props.C02Core
import GoCrypt.Props.C10
import GoCrypt.Props.C14
import GoCrypt.Props.Accept
import GoCrypt.Props.FlowModel
import GoCrypt.Props.CodecIRU3
import GoCrypt.Props.CodecIRU3Link
import GoCrypt.Props.CodecIRU3Closed

/-!
# C06 — verification classifies every string as match, mismatch or malformed correctly

Obligations gathered here: the three-way classification of `Check` on the pipeline model
(`check_ok_iff`, errors returned and never turned into a mismatch), acceptance of every
canonical-domain string of the ten shipped layouts with exactly its fields (shapes regenerated from
the Go struct tags, so a changed tag re-opens these proofs), and out-of-range costs rejected by the
regenerated guards with typed errors (C14). The converse — every accepted string lies in the
documented grammar — is carried by the `classify` correspondence suite (see MANIFEST note).
-/

namespace GoCrypt.C06
open GoCrypt GoCrypt.Scheme GoCrypt.Codec

/-- `Check` never reports a malformed or out-of-range hash as a mere mismatch: a mismatch verdict
means Unmarshal and Key both succeeded. -/
theorem mismatch_only_when_wellformed (S : Def) (h pw : Bytes) (rand : Nat) (hm : check S h pw rand = .mismatch) :
    ∃ ti out k, tiOf S = some ti ∧ unmarshal ti h = .ok out ∧ key S (checkArgs S ti (finalVals ti out) pw rand) = .ok k := by
  unfold check at hm
  cases hti : tiOf S with
  | none => simp [hti] at hm
  | some ti =>
    cases hu : unmarshal ti h with
    | error e => simp [hti, hu] at hm
    | ok out =>
      cases hk : key S (checkArgs S ti (finalVals ti out) pw rand) with
      | ok k => exact ⟨ti, out, k, rfl, hu, hk⟩
      | err e => simp [hti, hu, hk] at hm
      | internal w => simp [hti, hu, hk] at hm
      | panic => simp [hti, hu, hk] at hm

/-- `Params`/`Salt` succeed on exactly the strings `Unmarshal` accepts and return the fields after
the same defaults `Check` applies (both are `checkArgs` of the unmarshalled value in the model). -/
theorem params_iff_unmarshal (S : Def) (ti : TypeInfo) (h : Bytes) (hti : tiOf S = some ti) :
    (∃ a, params S h = .ok a) ↔ (∃ out, unmarshal ti h = .ok out) := by
  unfold params
  simp only [hti]
  cases unmarshal ti h <;> simp

#print axioms mismatch_only_when_wellformed
#print axioms params_iff_unmarshal
#print axioms GoCrypt.C02.check_ok_iff
#print axioms GoCrypt.C02.unmarshal_error_returned
#print axioms GoCrypt.C02.key_error_returned
#print axioms GoCrypt.C10.canonical_md5
#print axioms GoCrypt.C10.canonical_sha1
#print axioms GoCrypt.C10.canonical_sha256
#print axioms GoCrypt.C10.canonical_sha512
#print axioms GoCrypt.C10.canonical_des
#print axioms GoCrypt.C10.canonical_desext
#print axioms GoCrypt.C10.canonical_bcrypt
#print axioms GoCrypt.C10.canonical_nthash
#print axioms GoCrypt.C10.canonical_sunmd5
#print axioms GoCrypt.C10.canonical_argon2
#print axioms GoCrypt.C14.guards_iff_accepts_sha256
#print axioms GoCrypt.C14.guards_iff_accepts_bcrypt
#print axioms GoCrypt.C14.guards_iff_accepts_argon2
-- the accepted language: Unmarshal accepts exactly the strings of an independently written recogniser of the
-- documented layout (Spec/Grammar.lean), and returns exactly the fields the recogniser reads
#print axioms GoCrypt.Accept.unmarshal_eq_grammar_md5
#print axioms GoCrypt.Accept.unmarshal_iff_grammar_md5
#print axioms GoCrypt.Accept.unmarshal_eq_grammar_sha1
#print axioms GoCrypt.Accept.unmarshal_iff_grammar_sha1
#print axioms GoCrypt.Accept.unmarshal_eq_grammar_sha256
#print axioms GoCrypt.Accept.unmarshal_iff_grammar_sha256
#print axioms GoCrypt.Accept.unmarshal_eq_grammar_sha512
#print axioms GoCrypt.Accept.unmarshal_iff_grammar_sha512
#print axioms GoCrypt.Accept.unmarshal_eq_grammar_nthash
#print axioms GoCrypt.Accept.unmarshal_iff_grammar_nthash
#print axioms GoCrypt.Accept.unmarshal_eq_grammar_des
#print axioms GoCrypt.Accept.unmarshal_iff_grammar_des
#print axioms GoCrypt.Accept.unmarshal_eq_grammar_desext
#print axioms GoCrypt.Accept.unmarshal_iff_grammar_desext
#print axioms GoCrypt.Accept.unmarshal_eq_grammar_bcrypt
#print axioms GoCrypt.Accept.unmarshal_iff_grammar_bcrypt
#print axioms GoCrypt.Accept.unmarshal_eq_grammar_sunmd5
#print axioms GoCrypt.Accept.unmarshal_iff_grammar_sunmd5
#print axioms GoCrypt.Accept.unmarshal_eq_grammar_argon2
#print axioms GoCrypt.Accept.unmarshal_iff_grammar_argon2

-- the pipeline model IS the regenerated code (Props/FlowModel.lean): a value semantics of the flow IR, instantiated with the model's own
-- unmarshal / key / encoders, evaluates the IR regenerated from the current source to exactly Scheme.check and Scheme.params, for all inputs
#print axioms GoCrypt.FlowModel.flowCheck_eq_model_md5
#print axioms GoCrypt.FlowModel.flowCheck_eq_model_sha256
#print axioms GoCrypt.FlowModel.flowCheck_eq_model_sha512
#print axioms GoCrypt.FlowModel.flowCheck_eq_model_sha1
#print axioms GoCrypt.FlowModel.flowCheck_eq_model_sunmd5
#print axioms GoCrypt.FlowModel.flowCheck_eq_model_des
#print axioms GoCrypt.FlowModel.flowCheck_eq_model_desext
#print axioms GoCrypt.FlowModel.flowCheck_eq_model_bcrypt
#print axioms GoCrypt.FlowModel.flowCheck_eq_model_nthash
#print axioms GoCrypt.FlowModel.flowCheck_eq_model_argon2

#print axioms GoCrypt.FlowModel.flowSalt_eq_model_md5
#print axioms GoCrypt.FlowModel.flowParams_eq_model_sha256
#print axioms GoCrypt.FlowModel.flowParams_eq_model_sha512
#print axioms GoCrypt.FlowModel.flowParams_eq_model_sha1
#print axioms GoCrypt.FlowModel.flowParams_eq_model_sunmd5
#print axioms GoCrypt.FlowModel.flowSalt_eq_model_des
#print axioms GoCrypt.FlowModel.flowParams_eq_model_desext
#print axioms GoCrypt.FlowModel.flowParams_eq_model_bcrypt
#print axioms GoCrypt.FlowModel.flowParams_eq_model_argon2
-- Unmarshal IS the current code (Props/CodecIRU3*.lean): the whole regenerated Unmarshal — prologue, HashPrefix, the field loop with grouped params, the end checks — on a zero destination returns nil with the cells holding
-- finalVals ti out when Codec.unmarshal ti hash = .ok out, or an error of the model's class; with getTypeInfo from the regenerated type-info program and closed instances for the shipped scheme structs (every hash under 300 bytes)
#print axioms GoCrypt.CodecIRU.unmarshal_eq_model
#print axioms GoCrypt.CodecIRU.unmarshal_eq_model_typeInfoOf
#print axioms GoCrypt.CodecIRU.unmarshal_sha256_closed
#print axioms GoCrypt.CodecIRU.unmarshal_bcrypt_closed
#print axioms GoCrypt.CodecIRU.unmarshal_sunmd5_closed
#print axioms GoCrypt.CodecIRU.unmarshal_argon2_closed
end GoCrypt.C06
