import GoCrypt.Props.KdfProps
import GoCrypt.Props.C07
import GoCrypt.Props.C14
import GoCrypt.Props.C15
import GoCrypt.Model.Scheme
import GoCrypt.Props.EndToEnd
import GoCrypt.Props.FlowModel
import GoCrypt.Props.EndToEndBcrypt
import GoCrypt.Props.KdfIR2

/-!
# C01 — a freshly generated hash verifies with the password it was made from

Ingredients proved here or in shared files: (i) the generated salt always passes `Key`'s guards
(default length within the limit, symbols from the alphabet); (ii) the KDF skeletons return a key
for EVERY password length (totality, `Props/KdfProps.lean`); (iii) `Check` succeeds iff the digest
re-derived from the hash's own fields equals the stored one (`C02.check_ok_iff`), and `NewHash`
stores the encoding of exactly that key; (iv) every documented prefix is registered with its
package's `Check` (C07). The marshal/unmarshal round trip of the ten shipped layouts is C10's.
The composition on the real code is exercised by the `scheme` suite (NewHash → Check → crypt.Check
on every boundary length, byte-identical with the model under scripted entropy).
-/

namespace GoCrypt.C01
open GoCrypt GoCrypt.Scheme GoCrypt.Codec GoCrypt.Accepts

/-- (i) A salt drawn by `Encoding.Rand(n)` with `n` within the scheme's limit violates neither the
salt-length clause nor the salt-alphabet clause, whatever the entropy. -/
theorem generated_salt_accepted (e : Bytes) (maxLen : Nat) (err1 err2 : String) (a : KeyArgs)
    (hlen : e.length ≤ maxLen) (hs : a.salt = randSymbols hashAlphabet e) :
    (Clause.saltMax maxLen err1).violation a = none ∧ (Clause.saltAlphabet hashAlphabet err2).violation a = none := by
  constructor
  · simp [Clause.violation, hs, C15.randSymbols_length]; omega
  · simp only [Clause.violation, hs, Option.map_eq_none_iff, List.find?_eq_none]
    intro c hc
    have := C15.randSymbols_in_alphabet hashAlphabet e (by decide) c hc
    simp [List.contains_iff_mem, this]

/-- The default salt lengths are within the exported limits (constants regenerated from source). -/
theorem default_salt_lengths_ok :
    Gen.md5.DefaultSaltLength ≤ Gen.md5.MaxSaltLength ∧ Gen.sha256.DefaultSaltLength ≤ Gen.sha256.MaxSaltLength ∧
    Gen.sha512.DefaultSaltLength ≤ Gen.sha512.MaxSaltLength ∧ Gen.sha1.DefaultSaltLength ≤ Gen.sha1.MaxSaltLength ∧
    Gen.sunmd5.DefaultSaltLength ≤ Gen.sunmd5.MaxSaltLength ∧ Gen.argon2.DefaultSaltLength ≥ Gen.argon2.MinSaltLength := by
  decide

#print axioms generated_salt_accepted
#print axioms default_salt_lengths_ok
-- (ii) KDF totality for every password length, with the regenerated permutation tables
#print axioms GoCrypt.KdfProps.md5crypt_total_gen
#print axioms GoCrypt.KdfProps.sha256crypt_total_gen
#print axioms GoCrypt.KdfProps.sha512crypt_total_gen
#print axioms GoCrypt.KdfProps.sunmd5_total_gen
#print axioms GoCrypt.KdfProps.sha1_total_gen
-- (iv) dispatcher: every documented prefix is registered with its package's Check; routing is by prefix
#print axioms GoCrypt.C07.builtins_registered
#print axioms GoCrypt.C07.check_refines_registry
-- the generated salt's length/alphabet as a function of entropy
#print axioms GoCrypt.C15.randSymbols_length
#print axioms GoCrypt.C15.randSymbols_in_alphabet
-- END TO END (model): the string NewHash returns verifies with the password it was made from, for every request;
-- NewHash succeeds with a non-empty hash whenever Key returns a key of the documented length (and on the whole domain where totality of the KDF is proved)
#print axioms GoCrypt.EndToEnd.newHash_then_check_md5
#print axioms GoCrypt.EndToEnd.newHash_then_check_sha1
#print axioms GoCrypt.EndToEnd.newHash_then_check_sha256
#print axioms GoCrypt.EndToEnd.newHash_then_check_sha512
#print axioms GoCrypt.EndToEnd.newHash_then_check_nthash
#print axioms GoCrypt.EndToEnd.newHash_then_check_des
#print axioms GoCrypt.EndToEnd.newHash_then_check_desext
#print axioms GoCrypt.EndToEnd.newHash_then_check_bcrypt
#print axioms GoCrypt.EndToEnd.newHash_then_check_sunmd5
#print axioms GoCrypt.EndToEnd.newHash_then_check_argon2
#print axioms GoCrypt.EndToEnd.newHash_then_check_argon2'
#print axioms GoCrypt.EndToEnd.newHash_ok_md5
#print axioms GoCrypt.EndToEnd.newHash_ok_sha1
#print axioms GoCrypt.EndToEnd.newHash_ok_sha256
#print axioms GoCrypt.EndToEnd.newHash_ok_sha512
#print axioms GoCrypt.EndToEnd.newHash_ok_nthash
#print axioms GoCrypt.EndToEnd.newHash_ok_des
#print axioms GoCrypt.EndToEnd.newHash_ok_desext
#print axioms GoCrypt.EndToEnd.newHash_ok_bcrypt
#print axioms GoCrypt.EndToEnd.newHash_ok_sunmd5
#print axioms GoCrypt.EndToEnd.newHash_ok_argon2
#print axioms GoCrypt.EndToEnd.newHash_total_md5
#print axioms GoCrypt.EndToEnd.newHash_total_sha1
#print axioms GoCrypt.EndToEnd.newHash_total_sha256
#print axioms GoCrypt.EndToEnd.newHash_total_sha512
#print axioms GoCrypt.EndToEnd.newHash_total_nthash
#print axioms GoCrypt.EndToEnd.newHash_total_des
#print axioms GoCrypt.EndToEnd.newHash_total_desext
#print axioms GoCrypt.EndToEnd.newHash_total_sunmd5
#print axioms GoCrypt.EndToEnd.newHash_total_argon2
#print axioms GoCrypt.EndToEnd.newHash_empty_iff_md5
#print axioms GoCrypt.EndToEnd.newHash_empty_iff_des
#print axioms GoCrypt.EndToEnd.argon2_digest_length

-- the pipeline model IS the regenerated code (Props/FlowModel.lean): a value semantics of the flow IR, instantiated with the model's own
-- unmarshal / key / encoders, evaluates the IR regenerated from the current source to exactly Scheme.newHash and Scheme.check, for all inputs
#print axioms GoCrypt.FlowModel.flowCheck_eq_model_md5
#print axioms GoCrypt.FlowModel.flowCheck_eq_model_sha256
#print axioms GoCrypt.FlowModel.flowCheck_eq_model_sha512
#print axioms GoCrypt.FlowModel.flowCheck_eq_model_sha1
#print axioms GoCrypt.FlowModel.flowCheck_eq_model_sunmd5
#print axioms GoCrypt.FlowModel.flowCheck_eq_model_des
#print axioms GoCrypt.FlowModel.flowCheck_eq_model_desext
#print axioms GoCrypt.FlowModel.flowCheck_eq_model_bcrypt
#print axioms GoCrypt.FlowModel.flowCheck_eq_model_nthash
#print axioms GoCrypt.FlowModel.flowCheck_eq_model_argon2

#print axioms GoCrypt.FlowModel.flowNewHash_eq_model_md5
#print axioms GoCrypt.FlowModel.flowNewHash_eq_model_des
#print axioms GoCrypt.FlowModel.flowNewHash_eq_model_sha256
#print axioms GoCrypt.FlowModel.flowNewHash_eq_model_sha512
#print axioms GoCrypt.FlowModel.flowNewHash_eq_model_sha1
#print axioms GoCrypt.FlowModel.flowNewHash_eq_model_nthash
#print axioms GoCrypt.FlowModel.flowNewHash_eq_model_desext
#print axioms GoCrypt.FlowModel.flowNewHash_eq_model_bcrypt
#print axioms GoCrypt.FlowModel.flowNewHash_eq_model_argon2
#print axioms GoCrypt.FlowModel.flowNewHash_eq_model_sunmd5
-- bcrypt: NewHash succeeds on the whole domain (no hypothesis about Blowfish or the password)
#print axioms GoCrypt.EndToEnd.newHash_total_bcrypt
#print axioms GoCrypt.EndToEnd.newHash_ok_iff_bcrypt
#print axioms GoCrypt.EndToEnd.bcryptDerive_length
-- every scheme's Key, after its guard clauses, as regenerated from the source (Props/KdfIR2.lean) computes Scheme.<s>.derive — the derive of the pipeline model the theorems above are about
#print axioms GoCrypt.KdfIR2.desext_key_tail_ir_eq_derive
#print axioms GoCrypt.KdfIR2.des_key_tail_ir_eq_derive
#print axioms GoCrypt.KdfIR2.nthash_key_tail_ir_eq_derive
#print axioms GoCrypt.KdfIR2.md5_key_tail_ir_eq_derive
#print axioms GoCrypt.KdfIR2.sha256_key_tail_ir_eq_derive
#print axioms GoCrypt.KdfIR2.sha512_key_tail_ir_eq_derive
#print axioms GoCrypt.KdfIR2.sha1_key_tail_ir_eq_derive
#print axioms GoCrypt.KdfIR2.sunmd5_key_tail_ir_eq_derive
#print axioms GoCrypt.KdfIR2.bcrypt_key_tail_ir_eq_derive
end GoCrypt.C01
