import GoCrypt.Props.C04Core
import GoCrypt.Props.Argon2IR

/-!
# C04 — Argon2 keys equal the output of the RFC 9106 algorithm

* `Props/C04Core.lean` (namespace `GoCrypt.C04`): the theorems about the hand-written model.
* `Props/Argon2IR.lean`: the bodies of `Key`, `initHash`, `initBlocks`, `processBlocks` with its `processSegment` closure, `extractKey`, `indexAlpha`, `phi`, `blake2bHash`, `processBlock(XOR)`/`processBlockGeneric`/`blamkaGeneric` regenerated from `argon2/argon2crypto` (purego path) on every run, interpreted over a heap with real pointer aliasing, equal the model for every input on its domain; BLAKE2b is the only opaque primitive (spec with proved witness); `key_ir_eq_rfc`: the regenerated `Key` returns RFC 9106's Argon2.

The obligations of C04 are the union.
-/

#print axioms GoCrypt.C04.blake2bHash_eq_H'
#print axioms GoCrypt.C04.initHash_eq
#print axioms GoCrypt.C04.h0Preimage_layout
#print axioms GoCrypt.C04.h0Preimage_injective
#print axioms GoCrypt.C04.gb_eq_GB
#print axioms GoCrypt.C04.P_eq_eight_GB
#print axioms GoCrypt.C04.blamka_eq_P
#print axioms GoCrypt.C04.processBlock_eq_G
#print axioms GoCrypt.C04.processBlock_xor_eq_G
#print axioms GoCrypt.C04.key_memory_rule
#print axioms GoCrypt.C04.roundedMemory_def
#print axioms GoCrypt.C04.roundedMemory_eq_rfc
#print axioms GoCrypt.C04.refSet_closed_form
#print axioms GoCrypt.C04.indexAlpha_eq_refIndex
#print axioms GoCrypt.C04.blake2b_length
#print axioms GoCrypt.C04.blockOfBytes_eq
#print axioms GoCrypt.C04.bytesOfBlock_eq
#print axioms GoCrypt.C04.argon2_struct
#print axioms GoCrypt.C04.initBlocks_eq
#print axioms GoCrypt.C04.segment_eq
#print axioms GoCrypt.C04.fill_eq
#print axioms GoCrypt.C04.extractKey_eq
#print axioms GoCrypt.C04.key_eq_rfc
#print axioms GoCrypt.C04.C04
#print axioms GoCrypt.Argon2IR.phi_ir_eq_kernel
#print axioms GoCrypt.Argon2IR.indexAlpha_ir_eq_kernel
#print axioms GoCrypt.Argon2IR.processBlock_ir_eq_model
#print axioms GoCrypt.Argon2IR.processBlockXOR_ir_eq_model
#print axioms GoCrypt.Argon2IR.processSegment_ir_eq_model
#print axioms GoCrypt.Argon2IR.processBlocks_ir_eq_model
#print axioms GoCrypt.Argon2IR.blake2bHash_ir_eq_model
#print axioms GoCrypt.Argon2IR.initHash_ir_eq_model
#print axioms GoCrypt.Argon2IR.initBlocks_ir_eq_model
#print axioms GoCrypt.Argon2IR.extractKey_ir_eq_model
#print axioms GoCrypt.Argon2IR.key_ir_eq_model
#print axioms GoCrypt.Argon2IR.key_ir_eq_rfc
