import GoCrypt.Props.CodecIRU3Link

/-!
# Closed instances: `Unmarshal` into the scheme structs of the ten packages, every hash shorter than the loop bound

All hypotheses of `unmarshal_eq_model_typeInfoOf` are discharged for a concrete world (`worldC`: the regenerated `getTypeInfo`
with merge sort, the model parser as `parse.Parse`, the reference primitives, loop bound 300) and the struct descriptions the scheme
packages hand to `hash.Unmarshal` (`Gen/Shapes.lean`, generated from the Go source; `argon2` has grouped params): the per-field conditions by evaluation
(`fieldOkB`, a decidable form of `FieldOkW`), the zero destination by construction (`Examples.zeroDest`).
-/

namespace GoCrypt.CodecIRU
open GoCrypt.Codec GoCrypt.Gen.codecIR GoCrypt.CIR
open GoCrypt.TIIR (RType Res fiType fiObj tiObj)

def isOkE {ε α : Type} : Except ε α → Bool
  | .ok _ => true
  | .error _ => false

theorem ok_of_isOk {ε α : Type} {x : Except ε α} (h : isOkE x = true) (d : α) :
    x = .ok (match x with | .ok a => a | .error _ => d) := by
  cases x with
  | ok a => rfl
  | error e => cases h

/-- `NumOk`, decidable. -/
def numOkB (fi : FieldInfo) : Bool :=
  match fi.kind with
  | .int b => decide (0 < b ∧ b ≤ 64 ∧ 2 ≤ fi.opts.base ∧ fi.opts.base ≤ 36)
  | .uint b => decide (0 < b ∧ b ≤ 64 ∧ 2 ≤ fi.opts.base ∧ fi.opts.base ≤ 36)
  | _ => true

theorem numOk_of_B (fi : FieldInfo) (h : numOkB fi = true) : NumOk fi := by
  intro bits hb
  unfold numOkB at h
  rcases hb with hb | hb <;> rw [hb] at h <;> simp only [decide_eq_true_eq] at h <;> exact ⟨⟨h.1, h.2.1⟩, h.2.2.1, h.2.2.2⟩

/-- `FieldOkW`, decidable: `FieldByIndex` on the struct description finds an exported field of the recorded type, and the bounds. -/
def fieldOkB (structs : List GoStruct) (fuel : Nat) (t0 : RType) (fi : FieldInfo) : Bool :=
  (match TIIR.fieldByIndex structs t0 true (fi.index.map Int.ofNat) with
   | .ok (f, _) => f.exported && decide (TIIR.fieldType f = fiType fi)
   | _ => false) && decide (t0.depth = 0) && numOkB fi && (!fi.opts.inline || fi.opts.hasLength) && decide (fi.ptrDepth < fuel)

theorem all_nonneg_ofNat (l : List Nat) : (l.map Int.ofNat).all (0 ≤ ·) = true := by
  induction l with
  | nil => rfl
  | cons a l ih => simp [ih]

theorem map_toNat_ofNat (l : List Nat) : (l.map Int.ofNat).map Int.toNat = l := by
  induction l with
  | nil => rfl
  | cons a l ih => simp [ih]

theorem fieldOkW_of_B (w : World) (t0 : RType) (fi : FieldInfo) (h : fieldOkB w.structs w.fuel t0 fi = true) : FieldOkW w t0 fi := by
  unfold fieldOkB at h
  simp only [Bool.and_eq_true, decide_eq_true_eq, Bool.or_eq_true, Bool.not_eq_true'] at h
  obtain ⟨⟨⟨⟨h1, h2⟩, h3⟩, h4⟩, h5⟩ := h
  refine ⟨?_, numOk_of_B fi h3, ?_, h5⟩
  · intro mm hsome
    unfold rootFieldByIndex
    rw [if_neg (by simp [h2])]
    cases hfb : TIIR.fieldByIndex w.structs t0 true (fi.index.map Int.ofNat) with
    | ok p =>
      obtain ⟨f, i⟩ := p
      rw [hfb] at h1
      simp only [Bool.and_eq_true, decide_eq_true_eq] at h1
      simp only [all_nonneg_ofNat, if_true, map_toNat_ofNat]
      cases hc : cellRoot mm fi.index with
      | none => rw [hc] at hsome; cases hsome
      | some g => simp [h1.1, h1.2]
    | panic => rw [hfb] at h1; cases h1
    | stuck s => rw [hfb] at h1; cases h1
  · intro hinl
    rcases h4 with h4 | h4
    · rw [h4] at hinl; cases hinl
    · exact h4

theorem find_zero (g : FieldInfo → GVal) : ∀ (l : List FieldInfo) (fi : FieldInfo), fi ∈ l → (l.map (·.index)).Nodup →
    ((l.map fun f => (f.index, g f)).find? (·.1 = fi.index)).map (·.2) = some (g fi)
  | [], _, h, _ => by cases h
  | a :: l, fi, h, hnd => by
    rw [List.map_cons, List.nodup_cons] at hnd
    by_cases ha : a.index = fi.index
    · rcases List.mem_cons.1 h with rfl | hm
      · simp
      · exact absurd (by rw [ha]; exact List.mem_map_of_mem hm) hnd.1
    · have hm : fi ∈ l := by
        rcases List.mem_cons.1 h with rfl | hm
        · exact absurd rfl ha
        · exact hm
      simpa [List.find?_cons, ha] using find_zero g l fi hm hnd.2

/-- The zero destination `Examples.zeroDest ti` is zero in every listed field. -/
theorem zeroDest_ok (ti : TypeInfo) (hnd : ((allFields ti).map (·.index)).Nodup) : ZeroDest { dest := Examples.zeroDest ti } ti := by
  intro fi hfi
  exact find_zero (fun f => zeroG (fiType f)) (allFields ti) fi hfi hnd

/-- The concrete world: loop bound 300; `getTypeInfo` = the regenerated type-info program with merge sort at call depth 40; `parse.Parse` =
the model parser writing fresh nodes; the reference primitives. -/
def worldC (structs : List GoStruct) : World :=
  { structs := structs, fuel := 300, ext := extU ⟨structs, 300, TIIR.Field.sortByLen⟩ 40, indexAnyInvalid := indexAnyInvalidRef,
    marshalText := marshalTextRef, unmarshalText := unmarshalTextRef }

/-- `unmarshal_eq_model_typeInfoOf` in the concrete world, with every side condition in decidable form. -/
theorem unmarshal_closed_of_checks (structs : List GoStruct) (n : String) (s : GoStruct) (ti : TypeInfo)
    (hti : typeInfoOf structs n = .ok ti) (hl : Codec.lookupStruct structs n = some s)
    (hfit : TIIR.fitsFuel structs 8 s = true)
    (hemb : ∀ s ∈ structs, ∀ f ∈ s.fields, f.anonymous = true → f.ptrDepth ≤ 1)
    (hsz : ∀ s' ∈ structs, s'.fields.length < 300 ∧ ∀ f ∈ s'.fields, f.ptrDepth < 300 ∧ f.tag.length < 300)
    (hlen : (rawFields structs 8 s).length < 300)
    (hok : (allFields ti).all (fieldOkB structs 300 (Examples.rootType n 0)) = true)
    (hnd : ((allFields ti).map (·.index)).Nodup)
    (hpinl : (match ti.hashPrefix with | some hp => !(hp.opts.hasLength && hp.opts.inline) | none => true) = true)
    (hlenf : ti.fields.length < 300)
    (d : Nat) (hash : Bytes) (hF : hash.length < 300) :
    match Codec.unmarshal ti hash with
    | .error e => ∃ m' v heap', callIn program (worldC structs) (d + 3) 5 { dest := Examples.zeroDest ti } [.str hash, .dptr (Examples.rootType n 1)] =
        .ok (m', [v]) ∧ absErrU heap' v = some e
    | .ok out => ∃ m', callIn program (worldC structs) (d + 3) 5 { dest := Examples.zeroDest ti } [.str hash, .dptr (Examples.rootType n 1)] =
        .ok (m', [.nil]) ∧ HoldsFinal m' ti out := by
  refine unmarshal_eq_model_typeInfoOf (worldC structs) ⟨structs, 300, TIIR.Field.sortByLen⟩ TIIR.Field.goodSort_sortByLen 40 rfl rfl
    CodecIR.indexAnyInvalid_witness unmarshalTextRef_spec d hash (Examples.rootType n 1) n s rfl hl hfit
    (fun s hs f hf ha _ => hemb s hs f hf ha) (by decide) (show (1 : Nat) < 300 by decide) (show (8 : Nat) < 300 by decide) hsz hlen
    (show (0 : Nat) < 1 by decide) (show (1 : Nat) < 300 by decide)
    { dest := Examples.zeroDest ti } ti hti hF ?_ hnd (zeroDest_ok ti hnd) ?_ hlenf
  · intro fi hfi
    exact fieldOkW_of_B (worldC structs) _ fi (List.all_eq_true.1 hok fi hfi)
  · intro hp hhp
    rw [hhp] at hpinl
    cases h1 : hp.opts.hasLength <;> cases h2 : hp.opts.inline <;> simp_all

/-! ## The `sha256` scheme struct -/

def tiSha256 : TypeInfo :=
  match typeInfoOf GoCrypt.Gen.sha256.structs "scheme" with
  | .ok ti => ti
  | .error _ => {}

theorem tiSha256_eq : typeInfoOf GoCrypt.Gen.sha256.structs "scheme" = .ok tiSha256 := ok_of_isOk (by decide) {}

def sha256Struct : GoStruct :=
  match Codec.lookupStruct GoCrypt.Gen.sha256.structs "scheme" with
  | some s => s
  | none => ⟨"", []⟩

/-- **Closed instance.** For EVERY hash of fewer than 300 bytes: the regenerated `hash.Unmarshal(hash, &scheme{})` for the struct the
`sha256` package uses (`$5$[rounds=N$]salt$sum`), with the regenerated `getTypeInfo` behind it and the model parser as `parse.Parse`,
returns `nil` and leaves in the (zero) destination exactly the values `finalVals` lists for the model's `Codec.unmarshal`, or returns the
model's error.  No hypothesis is left except the length bound. -/
theorem unmarshal_sha256_closed (d : Nat) (hash : Bytes) (hF : hash.length < 300) :
    match Codec.unmarshal tiSha256 hash with
    | .error e => ∃ m' v heap', callIn program (worldC GoCrypt.Gen.sha256.structs) (d + 3) 5 { dest := Examples.zeroDest tiSha256 }
        [.str hash, .dptr (Examples.rootType "scheme" 1)] = .ok (m', [v]) ∧ absErrU heap' v = some e
    | .ok out => ∃ m', callIn program (worldC GoCrypt.Gen.sha256.structs) (d + 3) 5 { dest := Examples.zeroDest tiSha256 }
        [.str hash, .dptr (Examples.rootType "scheme" 1)] = .ok (m', [.nil]) ∧ HoldsFinal m' tiSha256 out :=
  unmarshal_closed_of_checks GoCrypt.Gen.sha256.structs "scheme" sha256Struct tiSha256 tiSha256_eq (by decide) (by decide) (by decide)
    (by decide) (by decide) (by decide) (by decide) (by decide) (by decide) d hash hF


/-! ## The other scheme structs (same statement, same proof by evaluation of the side conditions) -/

def tiOfScheme (structs : List GoStruct) : TypeInfo :=
  match typeInfoOf structs "scheme" with
  | .ok ti => ti
  | .error _ => {}

def schemeStruct (structs : List GoStruct) : GoStruct :=
  match Codec.lookupStruct structs "scheme" with
  | some s => s
  | none => ⟨"", []⟩

/-- The statement of the closed instances. -/
def ClosedFor (structs : List GoStruct) : Prop :=
  ∀ (d : Nat) (hash : Bytes), hash.length < 300 →
    match Codec.unmarshal (tiOfScheme structs) hash with
    | .error e => ∃ m' v heap', callIn program (worldC structs) (d + 3) 5 { dest := Examples.zeroDest (tiOfScheme structs) }
        [.str hash, .dptr (Examples.rootType "scheme" 1)] = .ok (m', [v]) ∧ absErrU heap' v = some e
    | .ok out => ∃ m', callIn program (worldC structs) (d + 3) 5 { dest := Examples.zeroDest (tiOfScheme structs) }
        [.str hash, .dptr (Examples.rootType "scheme" 1)] = .ok (m', [.nil]) ∧ HoldsFinal m' (tiOfScheme structs) out

theorem unmarshal_sha512_closed : ClosedFor GoCrypt.Gen.sha512.structs := fun d hash hF =>
  unmarshal_closed_of_checks GoCrypt.Gen.sha512.structs "scheme" (schemeStruct GoCrypt.Gen.sha512.structs) (tiOfScheme GoCrypt.Gen.sha512.structs)
    (ok_of_isOk (by decide) {}) (by decide) (by decide) (by decide) (by decide) (by decide) (by decide) (by decide) (by decide) (by decide)
    d hash hF

theorem unmarshal_md5_closed : ClosedFor GoCrypt.Gen.md5.structs := fun d hash hF =>
  unmarshal_closed_of_checks GoCrypt.Gen.md5.structs "scheme" (schemeStruct GoCrypt.Gen.md5.structs) (tiOfScheme GoCrypt.Gen.md5.structs)
    (ok_of_isOk (by decide) {}) (by decide) (by decide) (by decide) (by decide) (by decide) (by decide) (by decide) (by decide) (by decide)
    d hash hF

theorem unmarshal_sha1_closed : ClosedFor GoCrypt.Gen.sha1.structs := fun d hash hF =>
  unmarshal_closed_of_checks GoCrypt.Gen.sha1.structs "scheme" (schemeStruct GoCrypt.Gen.sha1.structs) (tiOfScheme GoCrypt.Gen.sha1.structs)
    (ok_of_isOk (by decide) {}) (by decide) (by decide) (by decide) (by decide) (by decide) (by decide) (by decide) (by decide) (by decide)
    d hash hF

theorem unmarshal_bcrypt_closed : ClosedFor GoCrypt.Gen.bcrypt.structs := fun d hash hF =>
  unmarshal_closed_of_checks GoCrypt.Gen.bcrypt.structs "scheme" (schemeStruct GoCrypt.Gen.bcrypt.structs) (tiOfScheme GoCrypt.Gen.bcrypt.structs)
    (ok_of_isOk (by decide) {}) (by decide) (by decide) (by decide) (by decide) (by decide) (by decide) (by decide) (by decide) (by decide)
    d hash hF

theorem unmarshal_des_closed : ClosedFor GoCrypt.Gen.des.structs := fun d hash hF =>
  unmarshal_closed_of_checks GoCrypt.Gen.des.structs "scheme" (schemeStruct GoCrypt.Gen.des.structs) (tiOfScheme GoCrypt.Gen.des.structs)
    (ok_of_isOk (by decide) {}) (by decide) (by decide) (by decide) (by decide) (by decide) (by decide) (by decide) (by decide) (by decide)
    d hash hF

theorem unmarshal_desext_closed : ClosedFor GoCrypt.Gen.desext.structs := fun d hash hF =>
  unmarshal_closed_of_checks GoCrypt.Gen.desext.structs "scheme" (schemeStruct GoCrypt.Gen.desext.structs) (tiOfScheme GoCrypt.Gen.desext.structs)
    (ok_of_isOk (by decide) {}) (by decide) (by decide) (by decide) (by decide) (by decide) (by decide) (by decide) (by decide) (by decide)
    d hash hF

theorem unmarshal_nthash_closed : ClosedFor GoCrypt.Gen.nthash.structs := fun d hash hF =>
  unmarshal_closed_of_checks GoCrypt.Gen.nthash.structs "scheme" (schemeStruct GoCrypt.Gen.nthash.structs) (tiOfScheme GoCrypt.Gen.nthash.structs)
    (ok_of_isOk (by decide) {}) (by decide) (by decide) (by decide) (by decide) (by decide) (by decide) (by decide) (by decide) (by decide)
    d hash hF

/-- `argon2` (`$argon2id$[v=19$]m=65536,t=3,p=4$salt$sum`): three GROUPED params. -/
theorem unmarshal_argon2_closed : ClosedFor GoCrypt.Gen.argon2.structs := fun d hash hF =>
  unmarshal_closed_of_checks GoCrypt.Gen.argon2.structs "scheme" (schemeStruct GoCrypt.Gen.argon2.structs) (tiOfScheme GoCrypt.Gen.argon2.structs)
    (ok_of_isOk (by decide) {}) (by decide) (by decide) (by decide) (by decide) (by decide) (by decide) (by decide) (by decide) (by decide)
    d hash hF

theorem unmarshal_sunmd5_closed : ClosedFor GoCrypt.Gen.sunmd5.structs := fun d hash hF =>
  unmarshal_closed_of_checks GoCrypt.Gen.sunmd5.structs "scheme" (schemeStruct GoCrypt.Gen.sunmd5.structs) (tiOfScheme GoCrypt.Gen.sunmd5.structs)
    (ok_of_isOk (by decide) {}) (by decide) (by decide) (by decide) (by decide) (by decide) (by decide) (by decide) (by decide) (by decide)
    d hash hF

#print axioms unmarshal_closed_of_checks
#print axioms unmarshal_sha256_closed
#print axioms unmarshal_bcrypt_closed
#print axioms unmarshal_sunmd5_closed
#print axioms unmarshal_argon2_closed

end GoCrypt.CodecIRU
