import GoCrypt.Proofs.FlowValCheck
import GoCrypt.Proofs.FlowValParams
import GoCrypt.Proofs.FlowValNewHash

/-!
# The hand-written pipeline model is what the regenerated flow IR computes

`Model/Scheme.lean` describes `Check`, `Params`/`Salt` and `NewHash` of the ten scheme packages by
hand (`Scheme.check`, `Scheme.params`, `Scheme.newHash`); `Gen/Flow.lean` holds the bodies of the same
Go functions, re-translated from the current source on every run.  `Spec/FlowVal.lean` gives that IR
a value semantics (`FlowVal.run`) whose primitives are the model's own `unmarshal`, `key`, encoders,
`ctEq` and the regenerated constants (`FlowVal.prims`).  The theorems below say that, **for all
inputs**, running the regenerated program yields exactly what the hand-written pipeline says — so
the pipeline shape of the model (which fields feed `Key` in which order, where defaults are filled,
what is compared with what, which error is returned when) is no longer tied to the Go source by
differential testing alone: it is re-proved against the regenerated translation on every run.

What is *not* covered: the translator itself (Go → IR), and the primitives' own correspondence with
Go (`unmarshal`, `key`, encoders — the subject of the other property files).

Findings recorded by the proofs (details in the final report of this work):
* desext: the IR has `uint32(scheme.Rounds)` where the model passes the field unconverted; they agree
  because `Unmarshal` only ever stores a value below 2^32 there (`FlowVal.desext_rounds_lt`).
* sha512: the model fills the default with sha256's `ImplicitRounds`; the IR uses sha512's own
  constant; equal today (`FlowVal.implicit512`, by `rfl` on the regenerated constants).
* `Check` compares a fixed-size buffer, the model compares the encoder output: equal because a
  returned key always has the length of the final permutation table / block
  (`Proofs/FlowValLen.lean`).
* sunmd5 `NewHash`: the `if rounds == 0 {…} else {…}` is three guarded assignments in the IR; the nested
  literal `scheme{saltScheme: saltScheme{…}}` sets promoted fields, and `&separator` is a non-nil pointer
  to the (never assigned) empty package-level string — the model's `FVal.str []` against `FVal.nilPtr`.
-/

namespace GoCrypt.FlowModel
open GoCrypt GoCrypt.Scheme GoCrypt.Codec GoCrypt.FlowVal

/-! ## Check -/

theorem flowCheck_eq_model_md5 (h pw : Bytes) (rand : Nat) (ent : Entropy) :
    outcomeToCheckRes (run (prims md5 rand) Gen.md5.flowCheck (checkEnv h pw) ent) =
      some (Scheme.check md5 h pw rand) :=
  FlowVal.flowCheck_eq_model_md5 h pw rand ent

theorem flowCheck_eq_model_sha256 (h pw : Bytes) (rand : Nat) (ent : Entropy) :
    outcomeToCheckRes (run (prims sha256 rand) Gen.sha256.flowCheck (checkEnv h pw) ent) =
      some (Scheme.check sha256 h pw rand) :=
  FlowVal.flowCheck_eq_model_sha256 h pw rand ent

theorem flowCheck_eq_model_sha512 (h pw : Bytes) (rand : Nat) (ent : Entropy) :
    outcomeToCheckRes (run (prims sha512 rand) Gen.sha512.flowCheck (checkEnv h pw) ent) =
      some (Scheme.check sha512 h pw rand) :=
  FlowVal.flowCheck_eq_model_sha512 h pw rand ent

theorem flowCheck_eq_model_sha1 (h pw : Bytes) (rand : Nat) (ent : Entropy) :
    outcomeToCheckRes (run (prims sha1 rand) Gen.sha1.flowCheck (checkEnv h pw) ent) =
      some (Scheme.check sha1 h pw rand) :=
  FlowVal.flowCheck_eq_model_sha1 h pw rand ent

theorem flowCheck_eq_model_sunmd5 (h pw : Bytes) (rand : Nat) (ent : Entropy) :
    outcomeToCheckRes (run (prims sunmd5 rand) Gen.sunmd5.flowCheck (checkEnv h pw) ent) =
      some (Scheme.check sunmd5 h pw rand) :=
  FlowVal.flowCheck_eq_model_sunmd5 h pw rand ent

theorem flowCheck_eq_model_des (h pw : Bytes) (rand : Nat) (ent : Entropy) :
    outcomeToCheckRes (run (prims des rand) Gen.des.flowCheck (checkEnv h pw) ent) =
      some (Scheme.check des h pw rand) :=
  FlowVal.flowCheck_eq_model_des h pw rand ent

theorem flowCheck_eq_model_desext (h pw : Bytes) (rand : Nat) (ent : Entropy) :
    outcomeToCheckRes (run (prims desext rand) Gen.desext.flowCheck (checkEnv h pw) ent) =
      some (Scheme.check desext h pw rand) :=
  FlowVal.flowCheck_eq_model_desext h pw rand ent

theorem flowCheck_eq_model_bcrypt (h pw : Bytes) (rand : Nat) (ent : Entropy) :
    outcomeToCheckRes (run (prims bcrypt rand) Gen.bcrypt.flowCheck (checkEnv h pw) ent) =
      some (Scheme.check bcrypt h pw rand) :=
  FlowVal.flowCheck_eq_model_bcrypt h pw rand ent

theorem flowCheck_eq_model_nthash (h pw : Bytes) (rand : Nat) (ent : Entropy) :
    outcomeToCheckRes (run (prims nthash rand) Gen.nthash.flowCheck (checkEnv h pw) ent) =
      some (Scheme.check nthash h pw rand) :=
  FlowVal.flowCheck_eq_model_nthash h pw rand ent

theorem flowCheck_eq_model_argon2 (h pw : Bytes) (rand : Nat) (ent : Entropy) :
    outcomeToCheckRes (run (prims argon2 rand) Gen.argon2.flowCheck (checkEnv h pw) ent) =
      some (Scheme.check argon2 h pw rand) :=
  FlowVal.flowCheck_eq_model_argon2 h pw rand ent

/-! ## Params / Salt (nthash has neither) -/

theorem flowSalt_eq_model_md5 (h : Bytes) (ent : Entropy) :
    outcomeToParams md5 (run (paramsPrims md5) Gen.md5.flowSalt (paramsEnv md5 h) ent) =
      some (Scheme.params md5 h) :=
  FlowVal.flowSalt_eq_model_md5 h ent

theorem flowParams_eq_model_sha256 (h : Bytes) (ent : Entropy) :
    outcomeToParams sha256 (run (paramsPrims sha256) Gen.sha256.flowParams (paramsEnv sha256 h) ent) =
      some (Scheme.params sha256 h) :=
  FlowVal.flowParams_eq_model_sha256 h ent

theorem flowParams_eq_model_sha512 (h : Bytes) (ent : Entropy) :
    outcomeToParams sha512 (run (paramsPrims sha512) Gen.sha512.flowParams (paramsEnv sha512 h) ent) =
      some (Scheme.params sha512 h) :=
  FlowVal.flowParams_eq_model_sha512 h ent

theorem flowParams_eq_model_sha1 (h : Bytes) (ent : Entropy) :
    outcomeToParams sha1 (run (paramsPrims sha1) Gen.sha1.flowParams (paramsEnv sha1 h) ent) =
      some (Scheme.params sha1 h) :=
  FlowVal.flowParams_eq_model_sha1 h ent

theorem flowParams_eq_model_sunmd5 (h : Bytes) (ent : Entropy) :
    outcomeToParams sunmd5 (run (paramsPrims sunmd5) Gen.sunmd5.flowParams (paramsEnv sunmd5 h) ent) =
      some (Scheme.params sunmd5 h) :=
  FlowVal.flowParams_eq_model_sunmd5 h ent

theorem flowSalt_eq_model_des (h : Bytes) (ent : Entropy) :
    outcomeToParams des (run (paramsPrims des) Gen.des.flowSalt (paramsEnv des h) ent) =
      some (Scheme.params des h) :=
  FlowVal.flowSalt_eq_model_des h ent

theorem flowParams_eq_model_desext (h : Bytes) (ent : Entropy) :
    outcomeToParams desext (run (paramsPrims desext) Gen.desext.flowParams (paramsEnv desext h) ent) =
      some (Scheme.params desext h) :=
  FlowVal.flowParams_eq_model_desext h ent

theorem flowParams_eq_model_bcrypt (h : Bytes) (ent : Entropy) :
    outcomeToParams bcrypt (run (paramsPrims bcrypt) Gen.bcrypt.flowParams (paramsEnv bcrypt h) ent) =
      some (Scheme.params bcrypt h) :=
  FlowVal.flowParams_eq_model_bcrypt h ent

theorem flowParams_eq_model_argon2 (h : Bytes) (ent : Entropy) :
    outcomeToParams argon2 (run (paramsPrims argon2) Gen.argon2.flowParams (paramsEnv argon2 h) ent) =
      some (Scheme.params argon2 h) :=
  FlowVal.flowParams_eq_model_argon2 h ent

/-! ## NewHash (stretch)

Entropy is an explicit input: the run starts with the request's entropy stream and the outcome
carries the number of bytes asked of `crypto/rand`, which must be the model's `entropyUsed`.
md5, des, sha256, sha512, sha1 (including the `RandomRounds` draw, consumed *before* the salt, as
the model has it) and nthash hold for all requests.  desext and bcrypt need the typing
precondition of the Go signature (`rounds uint32`, `cost uint8`) which the model's untyped request
does not enforce; bcrypt and argon2 need `crypto/rand` to deliver the 16 / 8 bytes asked for. -/

theorem flowNewHash_eq_model_md5 (r : NewHashReq) :
    outcomeToNewHash (run (prims md5) Gen.md5.flowNewHash (newHashEnv md5 r) ⟨r.entropy, 0⟩) =
      some (Scheme.newHash md5 r) :=
  FlowVal.flowNewHash_eq_model_md5 r

theorem flowNewHash_eq_model_des (r : NewHashReq) :
    outcomeToNewHash (run (prims des) Gen.des.flowNewHash (newHashEnv des r) ⟨r.entropy, 0⟩) =
      some (Scheme.newHash des r) :=
  FlowVal.flowNewHash_eq_model_des r

theorem flowNewHash_eq_model_sha256 (r : NewHashReq) :
    outcomeToNewHash (run (prims sha256) Gen.sha256.flowNewHash (newHashEnv sha256 r) ⟨r.entropy, 0⟩) =
      some (Scheme.newHash sha256 r) :=
  FlowVal.flowNewHash_eq_model_sha256 r

theorem flowNewHash_eq_model_sha512 (r : NewHashReq) :
    outcomeToNewHash (run (prims sha512) Gen.sha512.flowNewHash (newHashEnv sha512 r) ⟨r.entropy, 0⟩) =
      some (Scheme.newHash sha512 r) :=
  FlowVal.flowNewHash_eq_model_sha512 r

theorem flowNewHash_eq_model_sha1 (r : NewHashReq) :
    outcomeToNewHash (run (prims sha1) Gen.sha1.flowNewHash (newHashEnv sha1 r) ⟨r.entropy, 0⟩) =
      some (Scheme.newHash sha1 r) :=
  FlowVal.flowNewHash_eq_model_sha1 r

theorem flowNewHash_eq_model_nthash (r : NewHashReq) :
    outcomeToNewHash (run (prims nthash) Gen.nthash.flowNewHash (newHashEnv nthash r) ⟨r.entropy, 0⟩) =
      some (Scheme.newHash nthash r) :=
  FlowVal.flowNewHash_eq_model_nthash r

/-- `rounds uint32` -/
theorem flowNewHash_eq_model_desext (r : NewHashReq) (hrounds : r.rounds < 2 ^ 32) :
    outcomeToNewHash (run (prims desext) Gen.desext.flowNewHash (newHashEnv desext r) ⟨r.entropy, 0⟩) =
      some (Scheme.newHash desext r) :=
  FlowVal.flowNewHash_eq_model_desext r hrounds

/-- `cost uint8`; `crypto/rand` delivers the 16 bytes asked for -/
theorem flowNewHash_eq_model_bcrypt (r : NewHashReq) (hcost : r.rounds < 2 ^ 8) (hent : 16 ≤ r.entropy.length) :
    outcomeToNewHash (run (prims bcrypt) Gen.bcrypt.flowNewHash (newHashEnv bcrypt r) ⟨r.entropy, 0⟩) =
      some (Scheme.newHash bcrypt r) :=
  FlowVal.flowNewHash_eq_model_bcrypt r hcost hent

/-- `crypto/rand` delivers the 8 bytes asked for -/
theorem flowNewHash_eq_model_argon2 (r : NewHashReq) (hent : 8 ≤ r.entropy.length) :
    outcomeToNewHash (run (prims argon2) Gen.argon2.flowNewHash (newHashEnv argon2 r) ⟨r.entropy, 0⟩) =
      some (Scheme.newHash argon2 r) :=
  FlowVal.flowNewHash_eq_model_argon2 r hent

/-- No hypothesis: `rounds uint32` is never converted, and sunmd5 draws its salt symbol by symbol (a dry
entropy source gives a short salt on both sides).  The `if rounds == 0 {…} else {…}` is the three guarded
assignments of the regenerated IR; `&separator` is a non-nil pointer to the empty string. -/
theorem flowNewHash_eq_model_sunmd5 (r : NewHashReq) :
    outcomeToNewHash (run (prims sunmd5) Gen.sunmd5.flowNewHash (newHashEnv sunmd5 r) ⟨r.entropy, 0⟩) =
      some (Scheme.newHash sunmd5 r) :=
  FlowVal.flowNewHash_eq_model_sunmd5 r

/-! ## The environments bind the parameter names the translator recorded -/

theorem parameter_names :
    (Gen.md5.flowCheckParams = ["hash", "password"] ∧ Gen.sha256.flowCheckParams = ["hash", "password"] ∧
     Gen.sha512.flowCheckParams = ["hash", "password"] ∧ Gen.sha1.flowCheckParams = ["hash", "password"] ∧
     Gen.sunmd5.flowCheckParams = ["hash", "password"] ∧ Gen.des.flowCheckParams = ["hash", "password"] ∧
     Gen.desext.flowCheckParams = ["hash", "password"] ∧ Gen.bcrypt.flowCheckParams = ["hash", "password"] ∧
     Gen.nthash.flowCheckParams = ["hash", "password"] ∧ Gen.argon2.flowCheckParams = ["hash", "password"]) ∧
    (Gen.md5.flowSaltParams = ["hash"] ∧ Gen.des.flowSaltParams = ["hash"] ∧ Gen.sha256.flowParamsParams = ["hash"] ∧
     Gen.sha512.flowParamsParams = ["hash"] ∧ Gen.sha1.flowParamsParams = ["hash"] ∧
     Gen.sunmd5.flowParamsParams = ["hash"] ∧ Gen.desext.flowParamsParams = ["hash"] ∧
     Gen.bcrypt.flowParamsParams = ["hash"] ∧ Gen.argon2.flowParamsParams = ["hash"]) ∧
    (Gen.md5.flowNewHashParams = ["password"] ∧ Gen.des.flowNewHashParams = ["password"] ∧
     Gen.nthash.flowNewHashParams = ["password"] ∧ Gen.sha1.flowNewHashParams = ["password", "rounds"] ∧
     Gen.sha256.flowNewHashParams = ["password", "rounds"] ∧ Gen.sha512.flowNewHashParams = ["password", "rounds"] ∧
     Gen.desext.flowNewHashParams = ["password", "rounds"] ∧ Gen.sunmd5.flowNewHashParams = ["password", "rounds"] ∧
     Gen.bcrypt.flowNewHashParams = ["password", "cost"] ∧
     Gen.argon2.flowNewHashParams = ["password", "memory", "time"]) := by decide

/-! ## Non-vacuity: the interpreter really runs the regenerated programs -/

/-- "$3$$8846f7eaee8fb117ad06bdd830b7586c" -/
def ntHashOfPassword : Bytes :=
  [36, 51, 36, 36, 56, 56, 52, 54, 102, 55, 101, 97, 101, 101, 56, 102, 98, 49, 49, 55, 97, 100, 48, 54, 98, 100, 100, 56,
   51, 48, 98, 55, 53, 56, 54, 99]
/-- "password" -/
def passwordBytes : Bytes := [112, 97, 115, 115, 119, 111, 114, 100]
/-- "$1$saltsalt$tooshort": the digest has 8 symbols instead of 22 -/
def md5BadHash : Bytes := [36, 49, 36, 115, 97, 108, 116, 115, 97, 108, 116, 36, 116, 111, 111, 115, 104, 111, 114, 116]

/-- nthash: the whole of `Check` (Unmarshal, UTF-16 encoding, MD4, hex, comparison) accepts. -/
example : outcomeToCheckRes (run (prims nthash) Gen.nthash.flowCheck (checkEnv ntHashOfPassword passwordBytes) ⟨[], 0⟩) =
    some .nil := by decide +kernel

/-- nthash: a different password is a mismatch. -/
example : outcomeToCheckRes (run (prims nthash) Gen.nthash.flowCheck (checkEnv ntHashOfPassword [120]) ⟨[], 0⟩) =
    some .mismatch := by decide +kernel

/-- md5: a digest of the wrong length fails in `Unmarshal`, and `Check` returns that error. -/
example : outcomeToCheckRes (run (prims md5) Gen.md5.flowCheck (checkEnv md5BadHash passwordBytes) ⟨[], 0⟩) =
    some (.uerr (.ute "value" 20 "Sum" .lengthMismatch)) := by decide +kernel

/-- md5: `Salt` of the same hash returns the same error. -/
example : outcomeToParams md5 (run (paramsPrims md5) Gen.md5.flowSalt (paramsEnv md5 md5BadHash) ⟨[], 0⟩) =
    some (.error (.ute "value" 20 "Sum" .lengthMismatch)) := by decide +kernel

/-- The entropy hypothesis of `flowNewHash_eq_model_bcrypt` / `_argon2` cannot be dropped: on a dry
entropy source the program's salt is the zero-filled buffer (`InvalidSaltError(0)`), the model's is
the empty string (`InvalidSaltLengthError(0)`).  Neither is observable in Go, where `crypto/rand`
delivers or the process dies. -/
example : outcomeToNewHash (run (prims bcrypt) Gen.bcrypt.flowNewHash
      (newHashEnv bcrypt { password := [120], rounds := 4 }) ⟨[], 0⟩) ≠
    some (Scheme.newHash bcrypt { password := [120], rounds := 4 }) := by decide +kernel
example : outcomeToNewHash (run (prims argon2) Gen.argon2.flowNewHash
      (newHashEnv argon2 { password := [120], rounds := 1, memory := 8 }) ⟨[], 0⟩) ≠
    some (Scheme.newHash argon2 { password := [120], rounds := 1, memory := 8 }) := by decide +kernel

/-- An untranslated statement is `stuck`, not silently skipped. -/
example : (match run (prims sunmd5) [.other "if x { … } else { … }", .ret (.const "nil")]
      (env0 [("password", .str passwordBytes), ("rounds", .nat 0)]) ⟨[], 0⟩ with
    | .stuck _ => true | _ => false) = true := by decide +kernel

end GoCrypt.FlowModel

#print axioms GoCrypt.FlowModel.flowCheck_eq_model_md5
#print axioms GoCrypt.FlowModel.flowCheck_eq_model_sha256
#print axioms GoCrypt.FlowModel.flowCheck_eq_model_sha512
#print axioms GoCrypt.FlowModel.flowCheck_eq_model_sha1
#print axioms GoCrypt.FlowModel.flowCheck_eq_model_sunmd5
#print axioms GoCrypt.FlowModel.flowCheck_eq_model_des
#print axioms GoCrypt.FlowModel.flowCheck_eq_model_desext
#print axioms GoCrypt.FlowModel.flowCheck_eq_model_bcrypt
#print axioms GoCrypt.FlowModel.flowCheck_eq_model_nthash
#print axioms GoCrypt.FlowModel.flowCheck_eq_model_argon2
#print axioms GoCrypt.FlowModel.flowSalt_eq_model_md5
#print axioms GoCrypt.FlowModel.flowParams_eq_model_sha256
#print axioms GoCrypt.FlowModel.flowParams_eq_model_sha512
#print axioms GoCrypt.FlowModel.flowParams_eq_model_sha1
#print axioms GoCrypt.FlowModel.flowParams_eq_model_sunmd5
#print axioms GoCrypt.FlowModel.flowSalt_eq_model_des
#print axioms GoCrypt.FlowModel.flowParams_eq_model_desext
#print axioms GoCrypt.FlowModel.flowParams_eq_model_bcrypt
#print axioms GoCrypt.FlowModel.flowParams_eq_model_argon2
#print axioms GoCrypt.FlowModel.flowNewHash_eq_model_md5
#print axioms GoCrypt.FlowModel.flowNewHash_eq_model_des
#print axioms GoCrypt.FlowModel.flowNewHash_eq_model_sha256
#print axioms GoCrypt.FlowModel.flowNewHash_eq_model_sha512
#print axioms GoCrypt.FlowModel.flowNewHash_eq_model_sha1
#print axioms GoCrypt.FlowModel.flowNewHash_eq_model_nthash
#print axioms GoCrypt.FlowModel.flowNewHash_eq_model_desext
#print axioms GoCrypt.FlowModel.flowNewHash_eq_model_bcrypt
#print axioms GoCrypt.FlowModel.flowNewHash_eq_model_argon2
#print axioms GoCrypt.FlowModel.flowNewHash_eq_model_sunmd5
#print axioms GoCrypt.FlowModel.parameter_names
