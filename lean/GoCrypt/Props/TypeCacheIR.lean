import GoCrypt.Proofs.TIIRCacheHist
import GoCrypt.Proofs.TIIRCacheExamples
import GoCrypt.Proofs.TIIRCacheConc
import GoCrypt.Proofs.TIIRCacheConcExamples
import GoCrypt.Props.TypeInfoIR
import GoCrypt.Props.C18Core
/-!
# The type cache of `hash/typeinfo.go`, at the level of the regenerated code

`Props/TypeInfoIR.lean` ties the regenerated `getTypeInfo` to the model only on a COLD cache; `Props/C18.lean`
proves history independence for the hand-written protocol model `Model/TypeCache.lean` and had to take two
facts about the real code as measured: (i) the returned `*typeInfo` is a private copy, (ii) entries are keyed
by the dereferenced type.  Here the package variable `typeCache` gets real semantics
(`Base/TIIRCache.lean`: a cache state `List (key × address)` next to the heap; `Load` / `LoadOrStore` as ONE
atomic step each — the documented contract of `sync.Map`, which is the trusted part), and both facts, the
protocol and history independence become theorems about the program text regenerated from the source.

Vocabulary (`Proofs/TIIRCacheTop.lean`, `TIIRCacheCall.lean`, `TIIRCacheHist.lean`):
* `T : String → RType` with `KeyFn T`: `T n` is the `reflect.Type` of the struct named `n` (no stars, kind
  `Struct`); `argType T n d` is `T n` with `d` stars in front (`T`, `*T`, `**T`, …);
* `CacheRep T h K c`: the cache state `K` over heap `h` represents the model cache `c` — same entries in the
  same order, every key is `T n` (a DEREFERENCED type), every value is the address of a `typeInfo` record whose
  `Type` is `T n` and whose `HashPrefix` / `Fields` / `NumReqValues` represent the model's `TypeInfo`;
* `getTI w depth T K h t`: the regenerated `getTypeInfo` (function 4 of `Gen/TypeInfoIR.lean`) interpreted with
  cache state `K` and heap `h` on the argument type `t = ⟨n, d⟩`; the result is the new cache state, the new heap
  and the returned values;
* `CallPost …` spells out "the run did what the model `TypeCache.getTypeInfo (typeInfoOf structs) c t` does";
* `WorldOk w`, `InDomain w t`: size conditions (loop bound above the sizes involved, embedding depth below the
  model's fuel 8, every embedded struct described, embedded structs are `T` or `*T`); the call depth must be
  above 18.  The same domain as the cold-cache theorem of `Props/TypeInfoIR.lean`;
* as there, `sort.Slice` is an ARBITRARY function checked to return a sorted permutation: a run is `stuck` when
  the proposal is rejected, and never stuck for a `Field.GoodSort` behaviour (any sorted permutation).
-/

namespace GoCrypt.TypeCacheIR
open GoCrypt.Codec GoCrypt.Gen.typeinfoIR GoCrypt.TIIR GoCrypt.TIIR.Cache GoCrypt.TypeCache

/-! ## The cache interpreter extends the cache-less one -/

/-- The interpreter with cache state is a conservative extension: a statement without `typeCache`
operations, whose callees behave as in the cache-less context and leave the cache alone, runs exactly as under
the cache-less interpreter, and the cache state is unchanged. -/
theorem cache_interpreter_is_conservative (structs : List GoStruct) (fuel : Nat) (sort : Heap → List Nat → List Nat)
    (call : Nat → Heap → List Val → Res (Heap × List Val))
    (callC : Nat → CacheSt → Heap → List Val → Res (CacheSt × Heap × List Val))
    (s : Stmt) (hfree : s.cacheFree = true)
    (hcalls : ∀ f ∈ s.callees, ∀ k h args, callC f k h args = liftRes k (call f h args))
    (k : CacheSt) (h : Heap) (env : Env) :
    execC ⟨structs, fuel, sort, callC⟩ s k h env = (k, exec ⟨structs, fuel, sort, call⟩ s h env) :=
  execC_eq_exec structs fuel sort call callC s hfree hcalls k h env

/-- Only `getTypeInfo` mentions `typeCache`: `field`, `normalize`, `getRawTypeInfo`, `indirectType` contain no cache
operation and call only each other. -/
theorem only_getTypeInfo_touches_the_cache :
    (program.procs.take 4).all (fun p => p.body.cacheFree && p.body.callees.all (· < 4)) = true ∧
      getTypeInfoIR.body.cacheFree = false := ⟨procs_cacheFree, by decide⟩

/-- Hence those four functions run under the cache interpreter exactly as before (every theorem of
`Props/TypeInfoIR.lean` about them carries over), with the cache state unchanged. -/
theorem other_functions_run_as_before (w : World) (d f : Nat) (hf : f < 4) (k : CacheSt) (h : Heap) (args : List Val) :
    callInC program w d f k h args = liftRes k (callIn program w d f h args) :=
  callInC_pure w d f hf k h args

/-! ## (a) One call = one step of the protocol model -/

/-- One call of the regenerated `getTypeInfo(*…*T)` from a cache state that represents the model cache `c`:
the run is rejected by `sort.Slice` (only possible on a miss), or it does what the model
`TypeCache.getTypeInfo (typeInfoOf structs) c ⟨T, stars⟩` does (`CallPost`):
* hit — cache state unchanged; miss and success — ONE entry appended, under the key `T` (the dereferenced
  type); miss and error — cache state unchanged, `nil` and the model's error returned;
* the new state represents the model's new cache; the old heap is a prefix of the new heap;
* on success the returned record represents the model's type info, its `Type` is `T` and its `Struct` field is
  the ARGUMENT type `*…*T` — the caller's own, never a previous caller's (`reports_own_struct` at code level). -/
theorem getTypeInfo_eq_model (w : World) (hw : WorldOk w) (T : String → RType) (hT : KeyFn T) (depth : Nat)
    (hdepth : 18 < depth) (h : Heap) (K : CacheSt) (c : Cache) (t : ArgType) (hd : InDomain w t)
    (hrep : CacheRep T h K c) :
    (getTI w depth T K h t).isStuck ∨ CallPost T w.structs h K c t.key t.ptrDepth (getTI w depth T K h t) :=
  call_post w hw T hT depth hdepth h K c t hd hrep

/-- (a, sorted permutations) With a `sort.Slice` that returns ANY sorted permutation the call is never stuck. -/
theorem getTypeInfo_eq_model_exact (w : World) (hw : WorldOk w) (hgood : Field.GoodSort w.sort) (T : String → RType)
    (hT : KeyFn T) (depth : Nat) (hdepth : 18 < depth) (h : Heap) (K : CacheSt) (c : Cache) (t : ArgType)
    (hd : InDomain w t) (hrep : CacheRep T h K c) :
    CallPost T w.structs h K c t.key t.ptrDepth (getTI w depth T K h t) :=
  call_post_exact w hw hgood T hT depth hdepth h K c t hd hrep

/-- `CallPost` unfolded for a successful call, as one statement: same new cache as the model, returned record
with `Struct` = the argument type that represents the model's info. -/
theorem successful_call_reports_own_struct {T : String → RType} {structs : List GoStruct} {h : Heap} {K : CacheSt}
    {c : Cache} {n : String} {d : Nat} {r : Res (CacheSt × Heap × List Val)} {res : Result}
    (hp : CallPost T structs h K c n d r) (hm : (TypeCache.getTypeInfo (typeInfoOf structs) c ⟨n, d⟩).2 = .ok res) :
    ∃ K' h0 hp' addrs, r = .ok (K', h0 ++ [tiObj (.rtype (argType T n d)) (T n) hp' addrs res.info.numReqValues],
        [.ptr h0.length, .nil]) ∧
      RepOpt h0 hp' res.info.hashPrefix ∧ Reps h0 addrs res.info.fields ∧ res.reportedStruct = ⟨n, d⟩ ∧
      CacheRep T h0 K' (TypeCache.getTypeInfo (typeInfoOf structs) c ⟨n, d⟩).1 := by
  obtain ⟨K', ext, vals, hr, _, hmatch⟩ := hp
  rw [hm] at hmatch
  obtain ⟨ext0, o, rfl, rfl, hrep0, ⟨hp', addrs, rfl, hro, hre⟩, hrs, _⟩ := hmatch
  exact ⟨K', h ++ ext0, hp', addrs, by rw [hr, List.append_assoc], hro, hre, hrs, hrep0⟩

/-! ## (b) Privacy: the returned record is a fresh private copy — fact (i) of `Model/TypeCache.lean` -/

/-- On success the returned pointer is the address of the LAST record the call allocated: it did not exist
before the call (`h.length ≤ a`), it is different from every address stored in the cache after the call, it is
outside the cache's footprint (no cached record, `HashPrefix` or `Fields` entry is that record); the old heap is
a prefix of the new one (no cached record — no old record at all — was modified by the call); and whatever
the caller writes into the returned record afterwards (`ti.Struct = t` in `Marshal`/`Unmarshal`, or anything
else), the cache state still represents the same model cache: later calls cannot be affected. -/
theorem returned_record_is_private {T : String → RType} {structs : List GoStruct} {h : Heap} {K : CacheSt}
    {c : Cache} {n : String} {d : Nat} {r : Res (CacheSt × Heap × List Val)} {res : Result}
    (hp : CallPost T structs h K c n d r) (hm : (TypeCache.getTypeInfo (typeInfoOf structs) c ⟨n, d⟩).2 = .ok res) :
    ∃ K' h' a, r = .ok (K', h', [.ptr a, .nil]) ∧ (∃ ext, h' = h ++ ext) ∧ h.length ≤ a ∧ a + 1 = h'.length ∧
      (∀ e ∈ K', e.2 ≠ a) ∧ a ∉ footprint h' K' ∧
      ∀ o' : Obj, CallerStep K' h' (h'.set a o') ∧
        CacheRep T (h'.set a o') K' (TypeCache.getTypeInfo (typeInfoOf structs) c ⟨n, d⟩).1 := by
  obtain ⟨K', ext, vals, hr, hrepAll, hmatch⟩ := hp
  rw [hm] at hmatch
  obtain ⟨ext0, o, rfl, rfl, hrep0, _, _, _⟩ := hmatch
  have hassoc : h ++ (ext0 ++ [o]) = (h ++ ext0) ++ [o] := (List.append_assoc _ _ _).symm
  refine ⟨K', h ++ (ext0 ++ [o]), (h ++ ext0).length, hr, ⟨_, rfl⟩, by simp, by simp; omega, ?_, ?_, ?_⟩
  · intro e he heq
    have := CacheRep_addr_lt hrep0 e he
    omega
  · rw [hassoc]; exact (callerStep_set_last hrep0 o o).2
  · intro o'
    rw [hassoc]
    have hs := (callerStep_set_last hrep0 o o').1
    exact ⟨hs, (CacheRep_congr (by rw [← hassoc]; exact hrepAll) hs.2).1⟩

/-- On a hit the call allocates exactly one record — the copy — and changes nothing else: for ANY cache state
and heap (no representation hypothesis, no domain hypothesis beyond the loop bound exceeding the number of
stars), if the cache has an entry under the DEREFERENCED type of `t` the result is a copy of that record with
`Struct` overwritten by `t`, at the fresh address `h.length`; cache state and old heap are untouched. -/
theorem hit_returns_copy_of_cached_record (w : World) (d : Nat) (K : CacheSt) (h : Heap) (t : RType) (a0 : Nat) (o : Obj)
    (ht : t.depth < w.fuel) (hf : K.find { t with depth := 0 } = some a0) (ho : h[a0]? = some o) (hol : 0 < o.length) :
    callInC program w (d + 3) 4 K h [.rtype t] = .ok (K, h ++ [o.set 0 (.rtype t)], [.ptr h.length, .nil]) := by
  rw [callInC_succ program w (d + 2) 4 K h _ getTypeInfoIR (by rfl)]
  refine body_hit _ K h t { t with depth := 0 } ?_ a0 o hf ho hol
  show callInC program w (d + 2) 3 K h [.rtype t] = _
  have hi : callIn program w (d + 2) 3 h [.rtype t] = .ok (h, [.rtype { t with depth := 0 }]) :=
    indirectSpec_callIn w (d + 1) h t ht
  rw [callInC_pure w (d + 2) 3 (by omega), hi]; rfl

/-! ## (c) Keying: entries are keyed by the dereferenced type — fact (ii) of `Model/TypeCache.lean` -/

/-- `T`, `*T`, `**T`, … use the same cache entry: the key of `Load` (see `hit_returns_copy_of_cached_record`: the
lookup is under `{t with depth := 0}` = `indirectType(t)`) and of `LoadOrStore` (the only change a call makes to
the cache state is to append an entry whose key is `T n`, the dereferenced type, for every number of stars) do
not depend on the number of stars. -/
theorem entries_are_keyed_by_dereferenced_type {T : String → RType} {structs : List GoStruct} {h : Heap} {K : CacheSt}
    {c : Cache} {n : String} {d : Nat} {r : Res (CacheSt × Heap × List Val)}
    (hp : CallPost T structs h K c n d r) :
    ∃ K' h' vals, r = .ok (K', h', vals) ∧ (K' = K ∨ ∃ a, h.length ≤ a ∧ K' = K ++ [(T n, a)]) := by
  obtain ⟨K', ext, vals, hr, _, hmatch⟩ := hp
  refine ⟨K', _, vals, hr, ?_⟩
  cases hm : (TypeCache.getTypeInfo (typeInfoOf structs) c ⟨n, d⟩).2 with
  | ok res =>
    rw [hm] at hmatch; obtain ⟨_, _, _, _, _, _, _, hk⟩ := hmatch
    exact hk.imp id (fun ⟨a, h1, h2, _⟩ => ⟨a, h1, h2⟩)
  | error e => rw [hm] at hmatch; exact Or.inl hmatch.1

/-- Code-level corollary of `C18.forms_agree`: from the same cache state, calls with `d₁` and with `d₂` stars
that both succeed return records representing the SAME type info (only `Struct` differs, and it is each
caller's own argument type); if one fails, both fail with the same error. -/
theorem forms_agree_at_code_level (w : World) (hw : WorldOk w) (hgood : Field.GoodSort w.sort) (T : String → RType)
    (hT : KeyFn T) (depth : Nat) (hdepth : 18 < depth) (h : Heap) (K : CacheSt) (c : Cache) (hc : CacheOK (typeInfoOf w.structs) c)
    (n : String) (d₁ d₂ : Nat) (hd₁ : InDomain w ⟨n, d₁⟩) (hd₂ : InDomain w ⟨n, d₂⟩) (hrep : CacheRep T h K c) :
    ∃ m : Except TagErr TypeInfo,
      ((TypeCache.getTypeInfo (typeInfoOf w.structs) c ⟨n, d₁⟩).2.map (·.info)) = m ∧
      ((TypeCache.getTypeInfo (typeInfoOf w.structs) c ⟨n, d₂⟩).2.map (·.info)) = m ∧
      CallPost T w.structs h K c n d₁ (getTI w depth T K h ⟨n, d₁⟩) ∧
      CallPost T w.structs h K c n d₂ (getTI w depth T K h ⟨n, d₂⟩) :=
  ⟨_, rfl, (C18.forms_agree (typeInfoOf w.structs) c n d₁ d₂ hc).symm,
    call_post_exact w hw hgood T hT depth hdepth h K c ⟨n, d₁⟩ hd₁ hrep,
    call_post_exact w hw hgood T hT depth hdepth h K c ⟨n, d₂⟩ hd₂ hrep⟩

/-! ## (d) Histories -/

/-- After ANY history of calls of the regenerated `getTypeInfo` (any types, any numbers of stars, succeeding or
failing), with the rest of the program doing anything to the heap in between except shrinking it or changing a record of the
cache's footprint (`CallerStep`; the pointers `getTypeInfo` hands out are outside the footprint, see
`returned_record_is_private`), the cache state represents what the model's `runHistory` computes. -/
theorem history_represents_runHistory (w : World) (hw : WorldOk w) (T : String → RType) (hT : KeyFn T) (depth : Nat)
    (hdepth : 18 < depth) {K : CacheSt} {h : Heap} {ts : List ArgType} {K' : CacheSt} {h' : Heap}
    (hrun : Run w depth T K h ts K' h') (c : Cache) (hrep : CacheRep T h K c) (hdom : ∀ t ∈ ts, InDomain w t) :
    CacheRep T h' K' (runHistory (typeInfoOf w.structs) c ts) :=
  run_rep w hw T hT depth hdepth hrun c hrep hdom

/-- **A returned record stays private for ever.**  Take any address `a` of a record that exists now and is
outside the cache's footprint — in particular a pointer some earlier `getTypeInfo` call returned
(`returned_record_is_private`).  After ANY further history of calls and caller steps it is still outside the
footprint — the cache only grows by records allocated by the storing call itself — so overwriting that record
at any later time is a legitimate caller step and cannot affect any later call. -/
theorem returned_record_stays_private (w : World) (hw : WorldOk w) (T : String → RType) (hT : KeyFn T) (depth : Nat)
    (hdepth : 18 < depth) {K : CacheSt} {h : Heap} {c : Cache} (hrep : CacheRep T h K c) (a : Nat) (ha : a < h.length)
    (hout : a ∉ footprint h K) {ts : List ArgType} {K' : CacheSt} {h' : Heap} (hrun : Run w depth T K h ts K' h')
    (hdom : ∀ t ∈ ts, InDomain w t) :
    a ∉ footprint h' K' ∧ ∀ o : Obj, CallerStep K' h' (h'.set a o) := by
  obtain ⟨_, hf⟩ := run_footprint w hw T hT depth hdepth hrun c hrep hdom
  have hnot : a ∉ footprint h' K' := by
    intro hx
    rcases hf a hx with h1 | h2
    · exact hout h1
    · omega
  refine ⟨hnot, fun o => ⟨by simp, fun x hx => ?_⟩⟩
  have hne : a ≠ x := fun e => hnot (e ▸ hx)
  exact List.getElem?_set_ne hne

/-- What a call returns on a cold cache, as a statement about the run: the model's `typeInfoOf` in a fresh
record whose `Struct` is the argument type, or `nil` and the model's error. -/
def ColdResult (T : String → RType) (structs : List GoStruct) (h : Heap) (t : ArgType)
    (r : Res (CacheSt × Heap × List Val)) : Prop :=
  ∃ K' ext vals, r = .ok (K', h ++ ext, vals) ∧
    match typeInfoOf structs t.key with
    | .ok ti => ∃ ext0 o, ext = ext0 ++ [o] ∧ vals = [.ptr (h ++ ext0).length, .nil] ∧
        ResultRep (h ++ ext0) o (argType T t.key t.ptrDepth) (T t.key) ti
    | .error e => ∃ v, vals = [.nil, v] ∧ absErr (h ++ ext) v = some e

/-- **History independence at code level** (with `C18.history_independent`): after any history that started
from the empty cache, a call returns what it returns on a cold cache — `typeInfoOf` of the dereferenced type in
a private record reporting the caller's own type, or the model's error (an invalid tag combination is
reported on EVERY call: a failing type is never cached). -/
theorem every_call_returns_the_cold_result (w : World) (hw : WorldOk w) (T : String → RType) (hT : KeyFn T) (depth : Nat)
    (hdepth : 18 < depth) {h0 : Heap} {ts : List ArgType} {K : CacheSt} {h : Heap}
    (hrun : Run w depth T [] h0 ts K h) (hdom : ∀ t ∈ ts, InDomain w t) (t : ArgType) (hd : InDomain w t) :
    (getTI w depth T K h t).isStuck ∨ ColdResult T w.structs h t (getTI w depth T K h t) := by
  have hrep := run_rep w hw T hT depth hdepth hrun [] trivial hdom
  refine (call_post w hw T hT depth hdepth h K _ t hd hrep).imp id (fun hp => ?_)
  obtain ⟨n, d⟩ := t
  obtain ⟨K', ext, vals, hr, _, hmatch⟩ := hp
  have hind : (TypeCache.getTypeInfo (typeInfoOf w.structs) (runHistory (typeInfoOf w.structs) [] ts) ⟨n, d⟩).2 =
      (typeInfoOf w.structs n).map fun ti => ⟨ti, ⟨n, d⟩⟩ := by
    rw [C18.history_independent, C18.result_independent_of_cache _ [] _ (C18.cacheOK_empty _)]
  simp only at hmatch
  rw [hind] at hmatch
  refine ⟨K', ext, vals, hr, ?_⟩
  simp only
  cases hc : typeInfoOf w.structs n with
  | ok ti =>
    rw [hc] at hmatch
    simp only [Except.map] at hmatch ⊢
    obtain ⟨ext0, o, h1, h2, _, h4, _, _⟩ := hmatch
    exact ⟨ext0, o, h1, h2, h4⟩
  | error e =>
    rw [hc] at hmatch
    simp only [Except.map] at hmatch ⊢
    exact hmatch.2

/-- The same with a `sort.Slice` that returns any sorted permutation: never stuck. -/
theorem every_call_returns_the_cold_result_exact (w : World) (hw : WorldOk w) (hgood : Field.GoodSort w.sort)
    (T : String → RType) (hT : KeyFn T) (depth : Nat)
    (hdepth : 18 < depth) {h0 : Heap} {ts : List ArgType} {K : CacheSt} {h : Heap}
    (hrun : Run w depth T [] h0 ts K h) (hdom : ∀ t ∈ ts, InDomain w t) (t : ArgType) (hd : InDomain w t) :
    ColdResult T w.structs h t (getTI w depth T K h t) := by
  rcases every_call_returns_the_cold_result w hw T hT depth hdepth hrun hdom t hd with hs | hc
  · have hrep := run_rep w hw T hT depth hdepth hrun [] trivial hdom
    obtain ⟨_, _, _, hr, _⟩ := call_post_exact w hw hgood T hT depth hdepth h K _ t hd hrep
    rw [hr] at hs; exact hs.elim
  · exact hc

/-- Histories exist: with a sorting `sort.Slice`, from any represented state every call in the domain ends
normally, so any list of calls (with any caller steps, here: none) is a `Run`. -/
theorem histories_exist (w : World) (hw : WorldOk w) (hgood : Field.GoodSort w.sort) (T : String → RType) (hT : KeyFn T)
    (depth : Nat) (hdepth : 18 < depth) (ts : List ArgType) (hdom : ∀ t ∈ ts, InDomain w t) :
    ∀ (K : CacheSt) (h : Heap) (c : Cache), CacheRep T h K c → ∃ K' h', Run w depth T K h ts K' h' := by
  induction ts with
  | nil => intro K h c _; exact ⟨K, h, .nil K h⟩
  | cons t ts ih =>
    intro K h c hrep
    obtain ⟨K1, ext, vals, hr, hrep1, _⟩ :=
      call_post_exact w hw hgood T hT depth hdepth h K c t (hdom t List.mem_cons_self) hrep
    obtain ⟨K', h', hrun⟩ := ih (fun t' ht' => hdom t' (List.mem_cons_of_mem _ ht')) K1 (h ++ ext) _ hrep1
    exact ⟨K', h', .cons hr (CallerStep.refl _ _) hrun⟩

/-! ## (e) Concurrent calls, interleaved at the cache operations

`Proofs/TIIRCacheSteps.lean` cuts the body of the regenerated `getTypeInfo` at `typeCache.Load` and
`typeCache.LoadOrStore` into five pieces (sub-terms of the generated text): `indirectType` | `Load` | compute and
normalize | `LoadOrStore` | copy and return.  A `Sys` is a shared cache state and heap with any number of calls
in progress; a schedule (a list of thread numbers) says whose next piece runs.  `Load` and `LoadOrStore` are single
steps (the contract of `sync.Map`); the three local pieces are steps too.  That the local pieces may be treated
as steps rests on what they touch: `indirectType` touches nothing; compute-and-normalize allocates records and
writes only records it allocated itself (proved for the sequential run: `CallPost` says the old heap is a prefix
of the new one; NOT proved for arbitrary finer interleavings of two such pieces — the heap of this model is one
list, so two allocating pieces cannot be interleaved below this granularity without changing the model of
allocation); copy-and-return reads a cached record, which nobody writes. -/

/-- The small-step system runs the same program: one thread stepped alone five times, result handed to the
caller, is exactly the sequential interpretation of the regenerated `getTypeInfo` (for every calling context,
cache state, heap and argument). -/
theorem small_steps_are_the_same_program (cc : CtxC) (K : CacheSt) (h : Heap) (t : RType) :
    finish (stepN cc 5 (K, h, .start t)) = execProcC cc getTypeInfoIR K h [.rtype t] :=
  solo_run_is_the_call cc K h t

/-- In particular `getTI` (the call theorems (a)–(d) speak about) is the solo run. -/
theorem getTI_is_the_solo_run (w : World) (d : Nat) (T : String → RType) (K : CacheSt) (h : Heap) (t : ArgType) :
    getTI w (d + 1) T K h t = finish (stepN (ccOf w d) 5 (K, h, .start (argType T t.key t.ptrDepth))) := by
  rw [solo_run_is_the_call]
  exact callInC_succ program w d 4 K h _ getTypeInfoIR (by rfl)

/-- **Any number of concurrent calls, any schedule.**  Start one call per element of `args` (arbitrary types,
arbitrary numbers of stars, all in the domain) from a shared state that represents a model cache with valid
entries, and let the threads take turns in ANY order.  At every moment: the shared state represents a model
cache all of whose entries are `typeInfoOf` of their key, and every thread that has returned holds the
COLD-CACHE result for its own argument — `typeInfoOf` in a record whose `Struct` is its own argument type, or
`nil` and the model's error.  That is the result the same call gets in EVERY sequential order of the calls
(`every_call_returns_the_cold_result`), so each caller gets what it gets in some — indeed any — sequential order.
No thread is `bad` unless a `sort.Slice` proposal was rejected. -/
theorem interleaved_calls_return_the_cold_result (w : World) (hw : WorldOk w) (T : String → RType) (hT : KeyFn T)
    (d' : Nat) (hd' : 15 < d') (args : List ArgType) (hdom : ∀ a ∈ args, InDomain w a)
    (K : CacheSt) (h : Heap) (c : Cache) (hrep : CacheRep T h K c) (hok : CacheOK (typeInfoOf w.structs) c)
    (sched : List Nat) :
    let s := (Sys.init T K h args).run (ccOf w (d' + 2)) sched
    (∃ c', CacheRep T s.h s.K c' ∧ CacheOK (typeInfoOf w.structs) c') ∧ s.thr.length = args.length ∧
      (∀ (i : Nat) (a : ArgType) (vals : List Val), args[i]? = some a → s.thr[i]? = some (.done vals) →
        DoneOK T w.structs s.h a.key a.ptrDepth vals) ∧
      (∀ (i : Nat) (o : Out), s.thr[i]? = some (.bad o) → ∃ why, o = .stuck why) := by
  intro s
  obtain ⟨c', hrep', hok', hlen, hall⟩ :=
    sys_run_inv True (Raw.raw_spec Tag.fieldPart_spec) w (normCallsF_true w) T hT hw d' hd' args hdom sched _
      (sysInv_init True T w.structs K h c args hrep hok)
  refine ⟨⟨c', hrep', hok'⟩, hlen, fun i a vals ha hth => hall i a _ ha hth, fun i o hth => ?_⟩
  have hilt : i < args.length := by
    rw [← hlen]
    rcases Nat.lt_or_ge i s.thr.length with hlt | hge
    · exact hlt
    · rw [List.getElem?_eq_none hge] at hth; cases hth
  exact (hall i _ _ (List.getElem?_eq_getElem hilt) hth).2

/-- (e, sorted permutations, fair schedules) With a `sort.Slice` that returns any sorted permutation no thread is
ever `bad`, and a thread that got five turns has returned: in every schedule that gives each thread at least
five turns, EVERY call returns, with the cold-cache result for its own argument. -/
theorem interleaved_calls_all_return (w : World) (hw : WorldOk w) (hgood : Field.GoodSort w.sort) (T : String → RType)
    (hT : KeyFn T) (d' : Nat) (hd' : 15 < d') (args : List ArgType) (hdom : ∀ a ∈ args, InDomain w a)
    (K : CacheSt) (h : Heap) (c : Cache) (hrep : CacheRep T h K c) (hok : CacheOK (typeInfoOf w.structs) c)
    (sched : List Nat) (hfair : ∀ i, i < args.length → 5 ≤ sched.count i) :
    let s := (Sys.init T K h args).run (ccOf w (d' + 2)) sched
    ∀ (i : Nat) (a : ArgType), args[i]? = some a →
      ∃ vals, s.thr[i]? = some (.done vals) ∧ DoneOK T w.structs s.h a.key a.ptrDepth vals := by
  intro s i a ha
  obtain ⟨c', hrep', hok', hlen, hall⟩ :=
    sys_run_inv False (Raw.raw_spec Tag.fieldPart_spec) w (normCallsF_false w hgood) T hT hw d' hd' args hdom sched _
      (sysInv_init False T w.structs K h c args hrep hok)
  have hilt : i < args.length := by
    rcases Nat.lt_or_ge i args.length with hlt | hge
    · exact hlt
    · rw [List.getElem?_eq_none hge] at ha; cases ha
  have h0 : (Sys.init T K h args).thr[i]? = some (.start (argType T a.key a.ptrDepth)) := by
    simp [Sys.init, List.getElem?_map, ha]
  obtain ⟨th, hth, hle⟩ := run_remaining (ccOf w (d' + 2)) sched _ i _ h0
  have hz : th.remaining = 0 := by
    have := hfair i hilt
    have h5 : (Thr.start (argType T a.key a.ptrDepth)).remaining = 5 := rfl
    rw [h5] at hle
    omega
  have hinv := hall i a th ha hth
  rcases remaining_zero_cases th hz with ⟨vals, rfl⟩ | ⟨o, rfl⟩
  · exact ⟨vals, hth, hinv⟩
  · exact hinv.1.elim

/-- **Two concurrent calls** on arbitrary types `a`, `b` (the case asked for), any interleaving in which both
get their five turns: both return, each with the cold-cache result for its own argument type — the result it
gets when the two calls run one after the other in either order. -/
theorem two_concurrent_calls (w : World) (hw : WorldOk w) (hgood : Field.GoodSort w.sort) (T : String → RType)
    (hT : KeyFn T) (d' : Nat) (hd' : 15 < d') (a b : ArgType) (ha : InDomain w a) (hb : InDomain w b)
    (K : CacheSt) (h : Heap) (c : Cache) (hrep : CacheRep T h K c) (hok : CacheOK (typeInfoOf w.structs) c)
    (sched : List Nat) (h0 : 5 ≤ sched.count 0) (h1 : 5 ≤ sched.count 1) :
    let s := (Sys.init T K h [a, b]).run (ccOf w (d' + 2)) sched
    ∃ va vb, s.thr = [.done va, .done vb] ∧ DoneOK T w.structs s.h a.key a.ptrDepth va ∧
      DoneOK T w.structs s.h b.key b.ptrDepth vb := by
  intro s
  have hdom : ∀ x ∈ [a, b], InDomain w x := by
    intro x hx; simp at hx; rcases hx with rfl | rfl <;> assumption
  have hfair : ∀ i, i < [a, b].length → 5 ≤ sched.count i := by
    intro i hi
    have : i = 0 ∨ i = 1 := by simp at hi; omega
    rcases this with rfl | rfl <;> assumption
  have hall := interleaved_calls_all_return w hw hgood T hT d' hd' [a, b] hdom K h c hrep hok sched hfair
  obtain ⟨va, hva, hda⟩ := hall 0 a rfl
  obtain ⟨vb, hvb, hdb⟩ := hall 1 b rfl
  have hlen := (interleaved_calls_return_the_cold_result w hw T hT d' hd' [a, b] hdom K h c hrep hok sched).2.1
  refine ⟨va, vb, ?_, hda, hdb⟩
  show s.thr = _
  have hl : s.thr.length = 2 := hlen
  match hs : s.thr, hl with
  | [x, y], _ =>
    rw [hs] at hva hvb
    simp at hva hvb
    rw [hva, hvb]

/-! ## The hypotheses are satisfiable -/

/-- The domain hypotheses hold for the example world of `Proofs/TIIRExamples.lean` (merge sort as `sort.Slice`) and
the example struct `Outer` with any number of stars below the loop bound; `T0` is a key function. -/
theorem example_world_is_in_the_domain (d : Nat) (hd : d < 200) :
    WorldOk (TIIR.Examples.world TIIR.Examples.sortByLen) ∧ Field.GoodSort (TIIR.Examples.world TIIR.Examples.sortByLen).sort ∧
      KeyFn Cache.Examples.T0 ∧ InDomain (TIIR.Examples.world TIIR.Examples.sortByLen) ⟨"Outer", d⟩ :=
  ⟨⟨Exact.ex_emb, by decide, Exact.ex_sz⟩, Field.goodSort_sortByLen, fun _ => ⟨rfl, rfl⟩,
    hd, TIIR.Examples.outer, Exact.ex_lookup, Exact.ex_fit, Exact.ex_len⟩

/-- So, as a THEOREM about the regenerated code (not only as the evaluations below): `getTypeInfo(Outer)` and
`getTypeInfo(*Outer)` started concurrently on an empty cache, under every schedule that gives each five turns,
both return `typeInfoOf structs "Outer"`, each in a record reporting its own argument type. -/
theorem example_two_concurrent_calls (sched : List Nat) (h0 : 5 ≤ sched.count 0) (h1 : 5 ≤ sched.count 1) :
    let s := (Sys.init Cache.Examples.T0 [] [] [⟨"Outer", 0⟩, ⟨"Outer", 1⟩]).run
      (ccOf (TIIR.Examples.world TIIR.Examples.sortByLen) 39) sched
    ∃ va vb, s.thr = [.done va, .done vb] ∧ DoneOK Cache.Examples.T0 TIIR.Examples.structs s.h "Outer" 0 va ∧
      DoneOK Cache.Examples.T0 TIIR.Examples.structs s.h "Outer" 1 vb := by
  obtain ⟨hw, hg, hT, hd0⟩ := example_world_is_in_the_domain 0 (by decide)
  obtain ⟨_, _, _, hd1⟩ := example_world_is_in_the_domain 1 (by decide)
  exact two_concurrent_calls _ hw hg _ hT 37 (by decide) ⟨"Outer", 0⟩ ⟨"Outer", 1⟩ hd0 hd1 [] [] [] trivial
    (C18.cacheOK_empty _) sched h0 h1

/-! ## Examples: histories run on the example struct descriptions of `Proofs/TIIRExamples.lean`

`runAll hist` runs the regenerated `getTypeInfo` under the cache interpreter for every `(struct, stars)` of
`hist`, starting from the empty cache and heap, and CHECKS every call (`Examples.step`): result = `typeInfoOf`,
`Struct` = the argument type, returned address not cached, old heap unchanged, error ⇒ cache unchanged. -/

open Cache.Examples in
-- `T`, `*T`, `**T`: one entry, keyed by `Outer` without stars; all three calls return `typeInfoOf`
#guard keysAfter [("Outer", 0), ("Outer", 1), ("Outer", 2)] == some [T0 "Outer"]
open Cache.Examples in
-- the first call in pointer form: same single key
#guard keysAfter [("Outer", 2), ("Outer", 0)] == some [T0 "Outer"]
open Cache.Examples in
-- an invalid-tag type called twice (as `Invalid` and `***Invalid`): error both times, nothing cached
#guard keysAfter [("Invalid", 0), ("Invalid", 3)] == some []
open Cache.Examples in
-- a param conflict between two successes: the failing type leaves no entry, the others one each
#guard keysAfter [("Inner", 1), ("Conflict", 0), ("Outer", 0), ("Conflict", 1), ("Inner", 0)] == some [T0 "Inner", T0 "Outer"]
open Cache.Examples in
-- two different types: two entries in the order of first use; the heap keeps both cached records
#guard keysAfter [("Outer", 1), ("Inner", 0), ("Outer", 0), ("Inner", 2)] == some [T0 "Outer", T0 "Inner"]
open Cache.Examples in
-- the caller overwrites the record it got (every field, with garbage): later calls still return `typeInfoOf`
#guard (runAllWithMutation [("Outer", 1)] [("Outer", 0), ("Outer", 2), ("Inner", 0)]).map (fun st => st.1.map (·.1)) ==
  some [T0 "Outer", T0 "Inner"]
open Cache.Examples in
-- a miss on `Inner` allocates 4 records (the typeInfo, two fieldInfos, the copy); every hit allocates exactly one (the copy)
#guard ((runAll [("Inner", 0)]).map (·.2.length), (runAll [("Inner", 0), ("Inner", 1)]).map (·.2.length),
    (runAll [("Inner", 0), ("Inner", 1), ("Inner", 5)]).map (·.2.length)) == (some 4, some 5, some 6)

/-! Interleaved calls (`Examples.checkSched args sched`: one call per `(struct, stars)`, the schedule lists whose
piece runs next; `none` unless EVERY thread returned `typeInfoOf` with its own `Struct`, else the cache keys). -/

open Cache.Examples in
-- `Outer` and `*Outer` strictly alternating: both miss at `Load`, both compute; the first `LoadOrStore` stores, the
-- second finds that entry and keeps it: ONE entry, both results right
#guard checkSched [("Outer", 0), ("Outer", 1)] [0,1,0,1,0,1,0,1,0,1] == some [T0 "Outer"]
open Cache.Examples in
-- the same two calls one after the other, and in another interleaving
#guard checkSched [("Outer", 0), ("Outer", 1)] [0,0,0,0,0,1,1,1,1,1] == some [T0 "Outer"]
open Cache.Examples in
#guard checkSched [("Outer", 0), ("Outer", 1)] [1,1,0,0,0,0,1,0,1,1] == some [T0 "Outer"]
open Cache.Examples in
-- two different types: two entries, in the order of the `LoadOrStore` steps (here thread 1 stores first)
#guard checkSched [("Outer", 0), ("Inner", 2)] [0,1,0,1,0,1,1,0,0,1] == some [T0 "Inner", T0 "Outer"]
open Cache.Examples in
-- two concurrent calls on an invalid-tag type: both get the error, nothing is cached
#guard checkSched [("Invalid", 0), ("Invalid", 2)] [0,1,0,1,0,1,1,0,0,1] == some []
open Cache.Examples in
-- three threads, one of them failing
#guard checkSched [("Outer", 0), ("Conflict", 1), ("Outer", 3)] [0,1,2,0,1,2,0,1,2,2,1,0,0,1,2] == some [T0 "Outer"]
open Cache.Examples in
-- a schedule that stops one turn early: thread 1 has not returned yet
#guard checkSched [("Outer", 0), ("Outer", 1)] [0,1,0,1,0,1,0,1,0] == none

#print axioms cache_interpreter_is_conservative
#print axioms only_getTypeInfo_touches_the_cache
#print axioms other_functions_run_as_before
#print axioms getTypeInfo_eq_model
#print axioms getTypeInfo_eq_model_exact
#print axioms successful_call_reports_own_struct
#print axioms returned_record_is_private
#print axioms hit_returns_copy_of_cached_record
#print axioms entries_are_keyed_by_dereferenced_type
#print axioms forms_agree_at_code_level
#print axioms history_represents_runHistory
#print axioms returned_record_stays_private
#print axioms every_call_returns_the_cold_result
#print axioms every_call_returns_the_cold_result_exact
#print axioms histories_exist
#print axioms small_steps_are_the_same_program
#print axioms getTI_is_the_solo_run
#print axioms interleaved_calls_return_the_cold_result
#print axioms interleaved_calls_all_return
#print axioms two_concurrent_calls
#print axioms example_world_is_in_the_domain
#print axioms example_two_concurrent_calls

end GoCrypt.TypeCacheIR
