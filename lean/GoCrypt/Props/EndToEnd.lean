import GoCrypt.Proofs.EndToEndCheck
import GoCrypt.Proofs.EndToEndCanon
import GoCrypt.Proofs.EndToEndExtra

/-!
# End-to-end: NewHash → Check (C01) and NewHash → grammar / Params (C12), for the ten schemes

Property theorems only; the proofs are in `Proofs/EndToEnd` (helpers, scheme by scheme),
`Proofs/EndToEndCheck` (C01 family), `Proofs/EndToEndCanon` (C12 family), `Proofs/EndToEndExtra`
(encoders, success, the empty-string quirk).

All statements are about the MODEL (`Model/Scheme.lean`): `newHash S r` is `<S>.NewHash` as a function of
the password, the cost parameters and the entropy `crypto/rand` delivers (`r : NewHashReq`).

`key S args` is treated as an OPAQUE function throughout: no proof looks below the guard clauses of `Key`
(`Gen/Guards`, through their declarative reading `Spec/Accepts` proved in C14). What the proofs use:
* `NewHash` hands `Key` the arguments `<S>Args r` and marshals the struct `<S>Vals …` (`newHash_<S>_eq`);
* a successful `Marshal` pins down each field's text, length and alphabet (`marshal_render`,
  `marshalValue_ok`) — so the digest-length and digest-alphabet facts come from `NewHash` having returned
  a hash at all, not from the KDFs (argon2 excepted: its digest field carries no length tag, see there);
* the codec round trip of the layout (`Shapes.roundtrip_<S>`, C10), the grammar characterisation of
  `Unmarshal` (`Accept.unmarshal_<S>`, C06/C20), and `C02.check_ok_iff`;
* `Check` / `Params` rebuild exactly `<S>Args r` from the unmarshalled struct (`checkArgs_<S>`).

For each scheme `S`:
* (A) `newHash_then_check_<S>`: `newHash S r = .ok h used → check S h r.password rand = .nil`, for EVERY
  `rand` (the `check` of the task statement is `rand = 0`); for md5 / des with the extra hypothesis
  `h ≠ []` (their `NewHash` ignores errors and may return ""), for sha1 / argon2 with the Go typing
  bounds the model's `Nat`s need, for sunmd5 with a non-empty salt when rounds ≠ 0;
* (B) `newHash_canonical_<S>`: the independent recogniser `Grammar.<S>` accepts `h` with exactly the
  requested fields, `h` is spelled canonically (explicit string), salt of the default length over the
  salt alphabet, digest of the fixed length over the digest alphabet; `params_of_newHash_<S>`;
* `newHash_ok_<S>`: `NewHash` returns a (non-empty) hash whenever `Key` returns a key whose encoding has
  the layout's digest length (named hypothesis `hlen`; no such hypothesis for argon2);
* `newHash_total_<S>` (all but bcrypt): `NewHash` returns a non-empty hash on EVERY request of the scheme's
  domain; for md5, sha1, sha256, sha512, sunmd5, nthash under the named hypothesis `hH` that the primitive
  returns digests of its size (then `KdfProps.*_total_gen` applies), for des, desext, argon2 outright.
  (bcrypt: the 23-byte key needs length facts about the Blowfish block function; `newHash_ok_bcrypt` covers it.)
* `newHash_empty_iff_md5`, `newHash_empty_iff_des`: exactly when the empty string is returned.

Hypotheses that are NOT needed (they follow from `newHash S r = .ok h used`): cost within the exported
bounds (sha256, sha512, desext, bcrypt, sunmd5: `Key` checked it), password within the limit (des,
sunmd5: `Key` checked it), enough entropy for des / desext / bcrypt (salt `length:` tag: `Marshal`
checked it) and, for (A), any entropy at all for md5, sha1, sha256, sha512, argon2 (a shorter salt
round-trips just as well; (B) needs the entropy for "salt of the DEFAULT length").

The named pieces (`Proofs/EndToEnd.lean`): `<S>Salt r` is the salt text `NewHash` draws from `r.entropy`,
`<S>Args r` the `KeyArgs` it hands to `Key`; they are spelled out by `rfl`-examples in each section.

Concrete requests: the KDFs are far too slow for kernel evaluation (des NewHash + Check: 6 minutes), so that
`newHash S r = .ok h used` holds for the concrete request of each section is checked by `#guard`
(interpreter; no declaration, no axiom); for nthash also by the kernel.
-/

namespace GoCrypt.EndToEnd
open GoCrypt GoCrypt.Scheme GoCrypt.Codec GoCrypt.Codec.Shapes

/-- The request of the examples: password "pw", the given cost, 16 entropy bytes 1 … 16. -/
def exReq (rounds memory : Nat) : NewHashReq :=
  { password := [112, 119], rounds := rounds, memory := memory,
    entropy := [1, 2, 3, 4, 5, 6, 7, 8, 9, 10, 11, 12, 13, 14, 15, 16] }

/-- `newHash S r = .ok h used` for some non-empty `h` (a Bool, for `#guard`). -/
def okNonEmpty (S : Def) (r : NewHashReq) : Bool :=
  match newHash S r with
  | .ok h _ => !h.isEmpty
  | _ => false

theorem okNonEmpty_spec (S : Def) (r : NewHashReq) (hg : okNonEmpty S r = true) :
    ∃ h used, newHash S r = .ok h used ∧ h ≠ [] := by
  unfold okNonEmpty at hg
  cases hn : newHash S r with
  | ok h used =>
    refine ⟨h, used, rfl, ?_⟩
    intro he
    simp [hn, he] at hg
  | kerr e => simp [hn] at hg
  | internal w => simp [hn] at hg
  | panic => simp [hn] at hg

/-! ## md5 — `$1$salt$digest` -/

example (r : NewHashReq) : md5Salt r = randSymbols hashAlphabet (r.entropy.take Gen.md5.DefaultSaltLength) := rfl
example (r : NewHashReq) : md5Args r = { password := r.password, salt := md5Salt r } := rfl

/-- (A) md5. No domain hypothesis: `md5.Key` has no password limit and no cost; `h ≠ []` excludes the
ignored-error path. -/
theorem newHash_then_check_md5 (r : NewHashReq) (h : Bytes) (used rand : Nat)
    (hn : newHash md5 r = .ok h used) (hne : h ≠ []) : check md5 h r.password rand = .nil :=
  Proofs.newHash_then_check_md5 r h used rand hn hne

/-- (B) md5: the recogniser accepts `h`; `h` is `$1$` salt `$` digest; the salt is the one drawn, of the
default length, over `./0-9A-Za-z`; the digest is the encoding of the key, 22 symbols over the alphabet. -/
theorem newHash_canonical_md5 (r : NewHashReq) (h : Bytes) (used : Nat)
    (hent : Gen.md5.DefaultSaltLength ≤ r.entropy.length)
    (hn : newHash md5 r = .ok h used) (hne : h ≠ []) :
    ∃ f k, Grammar.md5 h = some f ∧
      h = Gen.md5.Prefix ++ f.salt ++ [36] ++ f.sum ∧
      f.salt = md5Salt r ∧ f.salt.length = Gen.md5.DefaultSaltLength ∧ Grammar.over Grammar.A f.salt = true ∧
      key md5 (md5Args r) = .ok k ∧ f.sum = md5.encodeSum k ∧
      f.sum.length = Gen.md5.sumLength ∧ Grammar.over Grammar.A f.sum = true ∧
      used = Gen.md5.DefaultSaltLength :=
  Proofs.newHash_canonical_md5 r h used hent hn hne

/-- `md5.Salt(hash)` (the package has no `Params`): the salt `NewHash` drew. -/
theorem params_of_newHash_md5 (r : NewHashReq) (h : Bytes) (used : Nat)
    (hn : newHash md5 r = .ok h used) (hne : h ≠ []) :
    params md5 h = .ok { salt := md5Salt r } :=
  Proofs.params_of_newHash_md5 r h used hn hne

/-- `md5.NewHash` returns a non-empty hash when `Key` returns a key encoding to `sumLength` symbols. -/
theorem newHash_ok_md5 (r : NewHashReq) (k : Bytes) (hk : key md5 (md5Args r) = .ok k)
    (hlen : (md5.encodeSum k).length = Gen.md5.sumLength) :
    ∃ h, newHash md5 r = .ok h Gen.md5.DefaultSaltLength ∧ h ≠ [] :=
  Proofs.newHash_ok_md5 r k hk hlen

/-- md5: `NewHash` never fails and never returns "" — for EVERY request, given only that MD5 digests have 16 bytes (`hH`; `KdfProps.md5crypt_total_gen` does the rest). -/
theorem newHash_total_md5 (hH : ∀ x, (Prim.md5 x).length = 16) (r : NewHashReq) :
    ∃ h, newHash md5 r = .ok h Gen.md5.DefaultSaltLength ∧ h ≠ [] :=
  Proofs.newHash_total_md5 hH r

/-- md5: "" is returned exactly when `Key` returns a key whose encoding is not 22 symbols long (`Key` cannot
return an error on a generated salt: `Proofs.key_md5_not_err`; a 16-byte key never hits this). -/
theorem newHash_empty_iff_md5 (r : NewHashReq) (used : Nat) :
    newHash md5 r = .ok [] used ↔
      used = Gen.md5.DefaultSaltLength ∧
        ∃ k, key md5 (md5Args r) = .ok k ∧ (md5.encodeSum k).length ≠ Gen.md5.sumLength :=
  Proofs.newHash_empty_iff_md5 r used

example : Gen.md5.DefaultSaltLength ≤ (exReq 0 0).entropy.length := by decide
#guard okNonEmpty md5 (exReq 0 0)
example (h : Bytes) (used : Nat) (hn : newHash md5 (exReq 0 0) = .ok h used) (hne : h ≠ []) :
    check md5 h [112, 119] = .nil := newHash_then_check_md5 _ h used 0 hn hne
/-- md5 never returns "" if `Key` returns keys of the right size. -/
example (r : NewHashReq) (hlen : ∀ k, key md5 (md5Args r) = .ok k → (md5.encodeSum k).length = Gen.md5.sumLength)
    (used : Nat) : newHash md5 r ≠ .ok [] used := by
  intro hn
  obtain ⟨-, k, hk, hne⟩ := (newHash_empty_iff_md5 r used).1 hn
  exact hne (hlen k hk)

/-! ## sha256 — `$5$rounds=N$salt$digest` -/

example (r : NewHashReq) : sha256Salt r = randSymbols hashAlphabet (r.entropy.take Gen.sha256.DefaultSaltLength) := rfl
example (r : NewHashReq) : sha256Args r = { password := r.password, salt := sha256Salt r, rounds := r.rounds } := rfl

/-- (A) sha256. No domain hypothesis: `MinRounds ≤ rounds ≤ MaxRounds` follows from `Key`'s success (so
the implicit-rounds default `0 ↦ 5000` of `Check` is not triggered). -/
theorem newHash_then_check_sha256 (r : NewHashReq) (h : Bytes) (used rand : Nat)
    (hn : newHash sha256 r = .ok h used) : check sha256 h r.password rand = .nil :=
  Proofs.newHash_then_check_sha256 r h used rand hn

/-- (B) sha256: `h` is `$5$rounds=` decimal(rounds) `$` salt `$` digest with the requested round count. -/
theorem newHash_canonical_sha256 (r : NewHashReq) (h : Bytes) (used : Nat)
    (hent : Gen.sha256.DefaultSaltLength ≤ r.entropy.length)
    (hn : newHash sha256 r = .ok h used) :
    ∃ f k, Grammar.sha256 h = some f ∧
      h = Gen.sha256.Prefix ++ Grammar.kRounds ++ Strconv.formatUint r.rounds 10 ++ [36] ++ f.salt ++ [36] ++ f.sum ∧
      f.rounds = some r.rounds ∧ Gen.sha256.MinRounds ≤ r.rounds ∧ r.rounds ≤ Gen.sha256.MaxRounds ∧
      f.salt = sha256Salt r ∧ f.salt.length = Gen.sha256.DefaultSaltLength ∧ Grammar.over Grammar.A f.salt = true ∧
      key sha256 (sha256Args r) = .ok k ∧ f.sum = sha256.encodeSum k ∧
      f.sum.length = Gen.sha256.sumLength ∧ Grammar.over Grammar.A f.sum = true ∧
      used = Gen.sha256.DefaultSaltLength :=
  Proofs.newHash_canonical_sha256 r h used hent hn

/-- `sha256.Params(hash)`: the salt drawn and the requested round count. -/
theorem params_of_newHash_sha256 (r : NewHashReq) (h : Bytes) (used : Nat)
    (hn : newHash sha256 r = .ok h used) :
    params sha256 h = .ok { salt := sha256Salt r, rounds := r.rounds } :=
  Proofs.params_of_newHash_sha256 r h used hn

theorem newHash_ok_sha256 (r : NewHashReq) (k : Bytes) (hk : key sha256 (sha256Args r) = .ok k)
    (hlen : (sha256.encodeSum k).length = Gen.sha256.sumLength) :
    ∃ h, newHash sha256 r = .ok h Gen.sha256.DefaultSaltLength ∧ h ≠ [] :=
  Proofs.newHash_ok_sha256 r k hk hlen

/-- sha256: `NewHash` succeeds on every request with the round count within the exported bounds (`hH`: SHA-256 digests have 32 bytes). -/
theorem newHash_total_sha256 (hH : ∀ x, (Prim.sha256 x).length = 32) (r : NewHashReq)
    (hlo : Gen.sha256.MinRounds ≤ r.rounds) (hhi : r.rounds ≤ Gen.sha256.MaxRounds) :
    ∃ h, newHash sha256 r = .ok h Gen.sha256.DefaultSaltLength ∧ h ≠ [] :=
  Proofs.newHash_total_sha256 hH r hlo hhi

example : Gen.sha256.DefaultSaltLength ≤ (exReq 1000 0).entropy.length := by decide
#guard okNonEmpty sha256 (exReq 1000 0)

/-! ## sha512 — `$6$rounds=N$salt$digest` -/

example (r : NewHashReq) : sha512Salt r = randSymbols hashAlphabet (r.entropy.take Gen.sha512.DefaultSaltLength) := rfl
example (r : NewHashReq) : sha512Args r = { password := r.password, salt := sha512Salt r, rounds := r.rounds } := rfl

/-- (A) sha512. No domain hypothesis (as sha256). -/
theorem newHash_then_check_sha512 (r : NewHashReq) (h : Bytes) (used rand : Nat)
    (hn : newHash sha512 r = .ok h used) : check sha512 h r.password rand = .nil :=
  Proofs.newHash_then_check_sha512 r h used rand hn

/-- (B) sha512. -/
theorem newHash_canonical_sha512 (r : NewHashReq) (h : Bytes) (used : Nat)
    (hent : Gen.sha512.DefaultSaltLength ≤ r.entropy.length)
    (hn : newHash sha512 r = .ok h used) :
    ∃ f k, Grammar.sha512 h = some f ∧
      h = Gen.sha512.Prefix ++ Grammar.kRounds ++ Strconv.formatUint r.rounds 10 ++ [36] ++ f.salt ++ [36] ++ f.sum ∧
      f.rounds = some r.rounds ∧ Gen.sha512.MinRounds ≤ r.rounds ∧ r.rounds ≤ Gen.sha512.MaxRounds ∧
      f.salt = sha512Salt r ∧ f.salt.length = Gen.sha512.DefaultSaltLength ∧ Grammar.over Grammar.A f.salt = true ∧
      key sha512 (sha512Args r) = .ok k ∧ f.sum = sha512.encodeSum k ∧
      f.sum.length = Gen.sha512.sumLength ∧ Grammar.over Grammar.A f.sum = true ∧
      used = Gen.sha512.DefaultSaltLength :=
  Proofs.newHash_canonical_sha512 r h used hent hn

/-- `sha512.Params(hash)`. -/
theorem params_of_newHash_sha512 (r : NewHashReq) (h : Bytes) (used : Nat)
    (hn : newHash sha512 r = .ok h used) :
    params sha512 h = .ok { salt := sha512Salt r, rounds := r.rounds } :=
  Proofs.params_of_newHash_sha512 r h used hn

theorem newHash_ok_sha512 (r : NewHashReq) (k : Bytes) (hk : key sha512 (sha512Args r) = .ok k)
    (hlen : (sha512.encodeSum k).length = Gen.sha512.sumLength) :
    ∃ h, newHash sha512 r = .ok h Gen.sha512.DefaultSaltLength ∧ h ≠ [] :=
  Proofs.newHash_ok_sha512 r k hk hlen

/-- sha512: likewise (`hH`: SHA-512 digests have 64 bytes). -/
theorem newHash_total_sha512 (hH : ∀ x, (Prim.sha512 x).length = 64) (r : NewHashReq)
    (hlo : Gen.sha512.MinRounds ≤ r.rounds) (hhi : r.rounds ≤ Gen.sha512.MaxRounds) :
    ∃ h, newHash sha512 r = .ok h Gen.sha512.DefaultSaltLength ∧ h ≠ [] :=
  Proofs.newHash_total_sha512 hH r hlo hhi

example : Gen.sha512.DefaultSaltLength ≤ (exReq 1000 0).entropy.length := by decide
#guard okNonEmpty sha512 (exReq 1000 0)

/-! ## sha1 — `$sha1$N$salt$digest`

`rounds = RandomRounds` (the default) makes `NewHash` draw the count from the first four entropy bytes:
`sha1Rounds r`; the salt then comes from the following bytes (`sha1Ent r`), `sha1Used r` = 12 instead of 8. -/

example (r : NewHashReq) : sha1Rounds r =
    if r.rounds = Gen.sha1.RandomRounds then Gen.sha1.randRounds (sha1Word r) else r.rounds := rfl
example (r : NewHashReq) : sha1Salt r = randSymbols hashAlphabet ((sha1Ent r).take Gen.sha1.DefaultSaltLength) := rfl
example (r : NewHashReq) : sha1Args r = { password := r.password, salt := sha1Salt r, rounds := sha1Rounds r } := rfl

/-- (A) sha1. `hr`: the round count fits Go's `uint32` (a typing hypothesis: the model's count is a `Nat`,
and `Key` has no upper bound). For every `rand`: `Key` reads the random word only for `RandomRounds`, which
`NewHash` never hands on (`key_sha1_rand`, `sha1Rounds_ne_random`). -/
theorem newHash_then_check_sha1 (r : NewHashReq) (h : Bytes) (used rand : Nat)
    (hr : r.rounds < 2 ^ 32) (hn : newHash sha1 r = .ok h used) : check sha1 h r.password rand = .nil :=
  Proofs.newHash_then_check_sha1 r h used rand hr hn

/-- (B) sha1: `h` is `$sha1$` decimal(rounds) `$` salt `$` digest, rounds = the requested / drawn count. -/
theorem newHash_canonical_sha1 (r : NewHashReq) (h : Bytes) (used : Nat)
    (hr : r.rounds < 2 ^ 32) (hent : sha1Used r ≤ r.entropy.length)
    (hn : newHash sha1 r = .ok h used) :
    ∃ f k, Grammar.sha1 h = some f ∧
      h = Gen.sha1.Prefix ++ Strconv.formatUint (sha1Rounds r) 10 ++ [36] ++ f.salt ++ [36] ++ f.sum ∧
      f.rounds = sha1Rounds r ∧
      f.salt = sha1Salt r ∧ f.salt.length = Gen.sha1.DefaultSaltLength ∧ Grammar.over Grammar.A f.salt = true ∧
      key sha1 (sha1Args r) = .ok k ∧ f.sum = sha1.encodeSum k ∧
      f.sum.length = Gen.sha1.sumLength ∧ Grammar.over Grammar.A f.sum = true ∧
      used = sha1Used r :=
  Proofs.newHash_canonical_sha1 r h used hr hent hn

/-- `sha1.Params(hash)`. -/
theorem params_of_newHash_sha1 (r : NewHashReq) (h : Bytes) (used : Nat)
    (hr : r.rounds < 2 ^ 32) (hn : newHash sha1 r = .ok h used) :
    params sha1 h = .ok { salt := sha1Salt r, rounds := sha1Rounds r } :=
  Proofs.params_of_newHash_sha1 r h used hr hn

theorem newHash_ok_sha1 (r : NewHashReq) (k : Bytes) (hk : key sha1 (sha1Args r) = .ok k)
    (hlen : (sha1.encodeSum k).length = Gen.sha1.sumLength) :
    ∃ h, newHash sha1 r = .ok h (sha1Used r) ∧ h ≠ [] :=
  Proofs.newHash_ok_sha1 r k hk hlen

/-- sha1: `NewHash` succeeds on every request with a non-zero round count (`RandomRounds` included), given that HMAC-SHA1 returns 20 bytes. -/
theorem newHash_total_sha1 (hH : ∀ k m, (Prim.hmacSha1 k m).length = 20) (r : NewHashReq)
    (hr : r.rounds ≠ 0) : ∃ h, newHash sha1 r = .ok h (sha1Used r) ∧ h ≠ [] :=
  Proofs.newHash_total_sha1 hH r hr

example : (exReq 1 0).rounds < 2 ^ 32 ∧ sha1Used (exReq 1 0) ≤ (exReq 1 0).entropy.length := by decide
example : (exReq Gen.sha1.RandomRounds 0).rounds < 2 ^ 32 ∧
    sha1Used (exReq Gen.sha1.RandomRounds 0) ≤ (exReq Gen.sha1.RandomRounds 0).entropy.length ∧
    sha1Rounds (exReq Gen.sha1.RandomRounds 0) = 21420 := by decide
#guard okNonEmpty sha1 (exReq 1 0)

/-! ## nthash — `$3$$digest` (no salt, no cost, no entropy) -/

example (r : NewHashReq) : nthashArgs r = { password := Kdf.utf16le r.password } := rfl

/-- (A) nthash. No hypothesis at all. -/
theorem newHash_then_check_nthash (r : NewHashReq) (h : Bytes) (used rand : Nat)
    (hn : newHash nthash r = .ok h used) : check nthash h r.password rand = .nil :=
  Proofs.newHash_then_check_nthash r h used rand hn

/-- (B) nthash: `h` is `$3$` `$` digest, 32 lower-case hex symbols. -/
theorem newHash_canonical_nthash (r : NewHashReq) (h : Bytes) (used : Nat)
    (hn : newHash nthash r = .ok h used) :
    ∃ f k, Grammar.nthash h = some f ∧
      h = Gen.nthash.Prefix ++ [36] ++ f.sum ∧
      key nthash (nthashArgs r) = .ok k ∧ f.sum = nthash.encodeSum k ∧
      f.sum.length = Gen.nthash.sumLength ∧ Grammar.over Grammar.A f.sum = true ∧ used = 0 :=
  Proofs.newHash_canonical_nthash r h used hn

/-- nthash has no `Params`; the model's `params` returns the arguments of an empty password. -/
theorem params_of_newHash_nthash (r : NewHashReq) (h : Bytes) (used : Nat)
    (hn : newHash nthash r = .ok h used) :
    params nthash h = .ok { password := Kdf.utf16le [] } :=
  Proofs.params_of_newHash_nthash r h used hn

theorem newHash_ok_nthash (r : NewHashReq) (k : Bytes) (hk : key nthash (nthashArgs r) = .ok k)
    (hlen : (nthash.encodeSum k).length = Gen.nthash.sumLength) :
    ∃ h, newHash nthash r = .ok h 0 ∧ h ≠ [] :=
  Proofs.newHash_ok_nthash r k hk hlen

/-- nthash: `NewHash` succeeds whenever the UTF-16 password fits `MaxPasswordLength` (`hH`: MD4 digests have 16 bytes). -/
theorem newHash_total_nthash (hH : ∀ x, (Prim.md4 x).length = 16) (r : NewHashReq)
    (hpw : (Kdf.utf16le r.password).length ≤ Gen.nthash.MaxPasswordLength) :
    ∃ h, newHash nthash r = .ok h 0 ∧ h ≠ [] :=
  Proofs.newHash_total_nthash hH r hpw

#guard okNonEmpty nthash (exReq 0 0)
set_option maxRecDepth 100000 in
/-- kernel-checked: "$3$$8cc19b6a8cfeac299c2871c86b38de28" -/
example : newHash nthash (exReq 0 0) = .ok [36, 51, 36, 36, 56, 99, 99, 49, 57, 98, 54, 97, 56, 99, 102, 101, 97, 99,
    50, 57, 57, 99, 50, 56, 55, 49, 99, 56, 54, 98, 51, 56, 100, 101, 50, 56] 0 := by decide +kernel

/-! ## des — salt(2) digest(11), no prefix -/

example (r : NewHashReq) : desSalt r = randSymbols hashAlphabet (r.entropy.take Gen.des.SaltLength) := rfl
example (r : NewHashReq) : desArgs r = { password := r.password, salt := desSalt r } := rfl

/-- (A) des. `h ≠ []` excludes the ignored-error path (password over 8 bytes, fewer than 2 entropy bytes). -/
theorem newHash_then_check_des (r : NewHashReq) (h : Bytes) (used rand : Nat)
    (hn : newHash des r = .ok h used) (hne : h ≠ []) : check des h r.password rand = .nil :=
  Proofs.newHash_then_check_des r h used rand hn hne

/-- (B) des: `h` is salt ++ digest, 2 + 11 symbols. -/
theorem newHash_canonical_des (r : NewHashReq) (h : Bytes) (used : Nat)
    (hn : newHash des r = .ok h used) (hne : h ≠ []) :
    ∃ f k, Grammar.des h = some f ∧
      h = f.salt ++ f.sum ∧
      f.salt = desSalt r ∧ f.salt.length = Gen.des.SaltLength ∧ Grammar.over Grammar.A f.salt = true ∧
      key des (desArgs r) = .ok k ∧ f.sum = des.encodeSum k ∧
      f.sum.length = Gen.des.sumLength ∧ Grammar.over Grammar.A f.sum = true ∧ used = Gen.des.SaltLength :=
  Proofs.newHash_canonical_des r h used hn hne

/-- `des.Salt(hash)`. -/
theorem params_of_newHash_des (r : NewHashReq) (h : Bytes) (used : Nat)
    (hn : newHash des r = .ok h used) (hne : h ≠ []) :
    params des h = .ok { salt := desSalt r } :=
  Proofs.params_of_newHash_des r h used hn hne

theorem newHash_ok_des (r : NewHashReq) (k : Bytes) (hk : key des (desArgs r) = .ok k)
    (hlen : (des.encodeSum k).length = Gen.des.sumLength) :
    ∃ h, newHash des r = .ok h Gen.des.SaltLength ∧ h ≠ [] :=
  Proofs.newHash_ok_des r k hk hlen

/-- des: `NewHash` returns a non-empty hash on every request with a password of at most 8 bytes and 2 entropy bytes (no hypothesis about DES). -/
theorem newHash_total_des (r : NewHashReq) (hpw : r.password.length ≤ Gen.des.MaxPasswordLength)
    (hent : Gen.des.SaltLength ≤ r.entropy.length) :
    ∃ h, newHash des r = .ok h Gen.des.SaltLength ∧ h ≠ [] :=
  Proofs.newHash_total_des r hpw hent

/-- des: "" is returned exactly when the password is longer than `MaxPasswordLength`, or fewer than
`SaltLength` entropy bytes arrive, or `Key` returns a key whose encoding is not 11 symbols long. -/
theorem newHash_empty_iff_des (r : NewHashReq) (used : Nat) :
    newHash des r = .ok [] used ↔
      used = Gen.des.SaltLength ∧
        (r.password.length > Gen.des.MaxPasswordLength ∨ r.entropy.length < Gen.des.SaltLength ∨
          ∃ k, key des (desArgs r) = .ok k ∧ (des.encodeSum k).length ≠ Gen.des.sumLength) :=
  Proofs.newHash_empty_iff_des r used

#guard okNonEmpty des (exReq 0 0)
/-- the documented quirk: a 9-byte password gives "" and no error … -/
example : newHash des { password := [1, 2, 3, 4, 5, 6, 7, 8, 9], entropy := [1, 2] } = .ok [] 2 :=
  (newHash_empty_iff_des _ _).2 ⟨rfl, Or.inl (by decide)⟩
/-- … and so does a short read of the entropy source. -/
example : newHash des { password := [1, 2, 3], entropy := [1] } = .ok [] 2 :=
  (newHash_empty_iff_des _ _).2 ⟨rfl, Or.inr (Or.inl (by decide))⟩

/-! ## desext — `_` rounds(4) salt(4) digest(11) -/

example (r : NewHashReq) : desextSalt r = randSymbols hashAlphabet (r.entropy.take Gen.desext.SaltLength) := rfl
example (r : NewHashReq) : desextArgs r = { password := r.password, salt := desextSalt r, rounds := r.rounds } := rfl

/-- (A) desext. No domain hypothesis: `MinRounds ≤ rounds ≤ MaxRounds` (24 bits) follows from `Key`'s success. -/
theorem newHash_then_check_desext (r : NewHashReq) (h : Bytes) (used rand : Nat)
    (hn : newHash desext r = .ok h used) : check desext h r.password rand = .nil :=
  Proofs.newHash_then_check_desext r h used rand hn

/-- (B) desext: the rounds text is the canonical four-symbol encoding of the requested count. -/
theorem newHash_canonical_desext (r : NewHashReq) (h : Bytes) (used : Nat)
    (hn : newHash desext r = .ok h used) :
    ∃ f k, Grammar.desext h = some f ∧
      h = Gen.desext.Prefix ++ f.rounds ++ f.salt ++ f.sum ∧
      f.rounds = desEncodeInt r.rounds ∧ desDecodeInt f.rounds = r.rounds ∧
      Gen.desext.MinRounds ≤ r.rounds ∧ r.rounds ≤ Gen.desext.MaxRounds ∧
      f.salt = desextSalt r ∧ f.salt.length = Gen.desext.SaltLength ∧ Grammar.over Grammar.A f.salt = true ∧
      key desext (desextArgs r) = .ok k ∧ f.sum = desext.encodeSum k ∧
      f.sum.length = Gen.desext.sumLength ∧ Grammar.over Grammar.A f.sum = true ∧
      used = Gen.desext.SaltLength :=
  Proofs.newHash_canonical_desext r h used hn

/-- `desext.Params(hash)`. -/
theorem params_of_newHash_desext (r : NewHashReq) (h : Bytes) (used : Nat)
    (hn : newHash desext r = .ok h used) :
    params desext h = .ok { salt := desextSalt r, rounds := r.rounds } :=
  Proofs.params_of_newHash_desext r h used hn

theorem newHash_ok_desext (r : NewHashReq) (k : Bytes) (hk : key desext (desextArgs r) = .ok k)
    (hlen : (desext.encodeSum k).length = Gen.desext.sumLength) :
    ∃ h, newHash desext r = .ok h Gen.desext.SaltLength ∧ h ≠ [] :=
  Proofs.newHash_ok_desext r k hk hlen

/-- desext: `NewHash` succeeds on every request with the round count within the exported bounds and 4 entropy bytes. -/
theorem newHash_total_desext (r : NewHashReq) (hlo : Gen.desext.MinRounds ≤ r.rounds)
    (hhi : r.rounds ≤ Gen.desext.MaxRounds) (hent : Gen.desext.SaltLength ≤ r.entropy.length) :
    ∃ h, newHash desext r = .ok h Gen.desext.SaltLength ∧ h ≠ [] :=
  Proofs.newHash_total_desext r hlo hhi hent

#guard okNonEmpty desext (exReq 1 0)

/-! ## bcrypt — `$2b$NN$` salt(22) digest(31) -/

example (r : NewHashReq) : bcryptSalt r = Kdf.stdEncode bcryptAlphabet (r.entropy.take 16) := rfl
example (r : NewHashReq) : bcryptArgs r =
    { password := r.password, salt := bcryptSalt r, rounds := r.rounds, optsNil := false,
      optPrefix := Gen.bcrypt.Prefix2b } := rfl

/-- (A) bcrypt. No domain hypothesis: `MinCost ≤ cost ≤ MaxCost` follows from `Key`'s success. (`Key` is
opaque, so its 72-byte password truncation plays no role: `Check` hands it the same password.) -/
theorem newHash_then_check_bcrypt (r : NewHashReq) (h : Bytes) (used rand : Nat)
    (hn : newHash bcrypt r = .ok h used) : check bcrypt h r.password rand = .nil :=
  Proofs.newHash_then_check_bcrypt r h used rand hn

/-- (B) bcrypt: `h` is `$2b$` two-digit(cost) `$` salt ++ digest. -/
theorem newHash_canonical_bcrypt (r : NewHashReq) (h : Bytes) (used : Nat)
    (hn : newHash bcrypt r = .ok h used) :
    ∃ f k, Grammar.bcrypt h = some f ∧
      h = Gen.bcrypt.Prefix2b ++ twoDigit r.rounds ++ [36] ++ f.salt ++ f.sum ∧
      f.pfx = Gen.bcrypt.Prefix2b ∧ f.cost = r.rounds ∧
      Gen.bcrypt.MinCost ≤ r.rounds ∧ r.rounds ≤ Gen.bcrypt.MaxCost ∧
      f.salt = bcryptSalt r ∧ f.salt.length = Gen.bcrypt.SaltLength ∧ Grammar.over Grammar.A f.salt = true ∧
      key bcrypt (bcryptArgs r) = .ok k ∧ f.sum = bcrypt.encodeSum k ∧
      f.sum.length = Gen.bcrypt.sumLength ∧ Grammar.over Grammar.A f.sum = true ∧ used = 16 :=
  Proofs.newHash_canonical_bcrypt r h used hn

/-- `bcrypt.Params(hash)`. -/
theorem params_of_newHash_bcrypt (r : NewHashReq) (h : Bytes) (used : Nat)
    (hn : newHash bcrypt r = .ok h used) :
    params bcrypt h = .ok { salt := bcryptSalt r, rounds := r.rounds, optsNil := false,
                            optPrefix := Gen.bcrypt.Prefix2b } :=
  Proofs.params_of_newHash_bcrypt r h used hn

theorem newHash_ok_bcrypt (r : NewHashReq) (k : Bytes) (hk : key bcrypt (bcryptArgs r) = .ok k)
    (hlen : (bcrypt.encodeSum k).length = Gen.bcrypt.sumLength) :
    ∃ h, newHash bcrypt r = .ok h 16 ∧ h ≠ [] :=
  Proofs.newHash_ok_bcrypt r k hk hlen

#guard okNonEmpty bcrypt (exReq 4 0)

/-! ## sunmd5 — `$md5,rounds=N$salt$$digest` (`$md5$rounds=0$salt$digest` for zero rounds) -/

example (r : NewHashReq) : sunmd5Salt r = randSymbols hashAlphabet (r.entropy.take Gen.sunmd5.DefaultSaltLength) := rfl
example (r : NewHashReq) : sunmd5Args r =
    { password := r.password, salt := sunmd5Salt r, rounds := r.rounds, optsNil := false,
      optPrefix := sunmd5Prefix r, optFlag := decide (r.rounds = 0) } := rfl
example (r : NewHashReq) : sunmd5Prefix r =
    if r.rounds = 0 then Gen.sunmd5.PrefixZeroRounds else Gen.sunmd5.PrefixNonZeroRounds := rfl
example (r : NewHashReq) : sunmd5Sep r = if r.rounds = 0 then FVal.nilPtr else FVal.str [] := rfl
example : sunmd5SepText .nilPtr = [36] ∧ sunmd5SepText (.str []) = [36, 36] := by decide

/-- (A) sunmd5. `hent`: for rounds ≠ 0 the salt must not be empty (at least one entropy byte): the separator
`$` is written only together with a salt, see the example below. Rounds ≤ MaxRounds and the password limit
follow from `Key`'s success. -/
theorem newHash_then_check_sunmd5 (r : NewHashReq) (h : Bytes) (used rand : Nat)
    (hent : r.rounds = 0 ∨ r.entropy ≠ []) (hn : newHash sunmd5 r = .ok h used) :
    check sunmd5 h r.password rand = .nil :=
  Proofs.newHash_then_check_sunmd5 r h used rand hent hn

/-- (B) sunmd5. -/
theorem newHash_canonical_sunmd5 (r : NewHashReq) (h : Bytes) (used : Nat)
    (hent : Gen.sunmd5.DefaultSaltLength ≤ r.entropy.length)
    (hn : newHash sunmd5 r = .ok h used) :
    ∃ f k, Grammar.sunmd5 h = some f ∧
      h = sunmd5Prefix r ++ Grammar.kRounds ++ Strconv.formatUint r.rounds 10 ++ [36] ++ sunmd5Salt r ++
            sunmd5SepText (sunmd5Sep r) ++ f.sum ∧
      f.pfx = sunmd5Prefix r ∧ f.rounds = r.rounds ∧ r.rounds ≤ Gen.sunmd5.MaxRounds ∧
      f.salt = some (sunmd5Salt r) ∧ (sunmd5Salt r).length = Gen.sunmd5.DefaultSaltLength ∧
      Grammar.over Grammar.A (sunmd5Salt r) = true ∧
      f.sep = !decide (r.rounds = 0) ∧
      key sunmd5 (sunmd5Args r) = .ok k ∧ f.sum = sunmd5.encodeSum k ∧
      f.sum.length = Gen.sunmd5.sumLength ∧ Grammar.over Grammar.A f.sum = true ∧
      used = Gen.sunmd5.DefaultSaltLength :=
  Proofs.newHash_canonical_sunmd5 r h used hent hn

/-- `sunmd5.Params(hash)`. -/
theorem params_of_newHash_sunmd5 (r : NewHashReq) (h : Bytes) (used : Nat)
    (hent : r.rounds = 0 ∨ r.entropy ≠ []) (hn : newHash sunmd5 r = .ok h used) :
    params sunmd5 h = .ok { salt := sunmd5Salt r, rounds := r.rounds, optsNil := false,
                            optPrefix := sunmd5Prefix r, optFlag := decide (r.rounds = 0) } :=
  Proofs.params_of_newHash_sunmd5 r h used hent hn

theorem newHash_ok_sunmd5 (r : NewHashReq) (k : Bytes) (hk : key sunmd5 (sunmd5Args r) = .ok k)
    (hlen : (sunmd5.encodeSum k).length = Gen.sunmd5.sumLength) :
    ∃ h, newHash sunmd5 r = .ok h Gen.sunmd5.DefaultSaltLength ∧ h ≠ [] :=
  Proofs.newHash_ok_sunmd5 r k hk hlen

/-- sunmd5: `NewHash` succeeds on every request within the password and round limits (`hH`: MD5 digests have 16 bytes). -/
theorem newHash_total_sunmd5 (hH : ∀ x, (Prim.md5 x).length = 16) (r : NewHashReq)
    (hpw : r.password.length ≤ Gen.sunmd5.MaxPasswordLength) (hhi : r.rounds ≤ Gen.sunmd5.MaxRounds) :
    ∃ h, newHash sunmd5 r = .ok h Gen.sunmd5.DefaultSaltLength ∧ h ≠ [] :=
  Proofs.newHash_total_sunmd5 hH r hpw hhi

example : Gen.sunmd5.DefaultSaltLength ≤ (exReq 0 0).entropy.length := by decide
example : (exReq 7 0).rounds = 0 ∨ (exReq 7 0).entropy ≠ [] := by decide
#guard okNonEmpty sunmd5 (exReq 0 0)
set_option maxRecDepth 100000 in
/-- Why `hent`: with rounds = 5 and NO entropy, `NewHash` asks `Key` for the separator (`optFlag = false`)
and marshals `$md5,rounds=5$$digest`; `Unmarshal` reads that as an explicitly empty salt and NO separator,
so `Check` asks `Key` for `DisableSaltSeparator = true`. (Model only: a failing entropy read panics in Go.) -/
example :
    marshal sunmd5TI (sunmd5Vals Gen.sunmd5.PrefixNonZeroRounds 5 [] (.str []) (List.replicate 22 46)) =
      .ok ([36, 109, 100, 53, 44, 114, 111, 117, 110, 100, 115, 61, 53, 36, 36] ++ List.replicate 22 46) ∧
    ((unmarshal sunmd5TI ([36, 109, 100, 53, 44, 114, 111, 117, 110, 100, 115, 61, 53, 36, 36] ++
        List.replicate 22 46)).map
      fun out => (checkArgs sunmd5 sunmd5TI (finalVals sunmd5TI out) [112, 119] 0).optFlag) = .ok true ∧
    (sunmd5Args { password := [112, 119], rounds := 5, entropy := [] }).optFlag = false := by
  decide

/-! ## argon2 — `$argon2id$v=19$m=M,t=T,p=1$salt$digest`

The digest field of the layout has no length tag, so here (and only here) a fact about `Key`'s result is
needed: the NAMED hypothesis `hdigest`. It is discharged for every request by `argon2_digest_length`, whose
proof looks at the output stage of the KDF only (`Key = … ; blake2bHash(keyLen, lastBlock)`, `blake2b_length`
of C04); the primed corollaries below are the hypothesis-free forms. -/

example (r : NewHashReq) : argon2Salt r = Kdf.stdEncode stdAlphabet (r.entropy.take 8) := rfl
example (r : NewHashReq) : argon2Args r =
    { password := r.password, salt := argon2Salt r, memory := r.memory, rounds := r.rounds,
      threads := Gen.argon2.DefaultThreads, optsNil := false, optPrefix := Gen.argon2.Prefix2id,
      optVersion := Gen.argon2.Version13 } := rfl
example (v m t p : Nat) : argon2ParamText v m t p =
    [118, 61] ++ Strconv.formatUint v 10 ++ [36] ++ [109, 61] ++ Strconv.formatUint m 10 ++ [44] ++
      [116, 61] ++ Strconv.formatUint t 10 ++ [44] ++ [112, 61] ++ Strconv.formatUint p 10 ++ [36] := rfl

/-- Every key `argon2.Key` returns encodes to 43 base64 symbols (= `keyLen` 32 bytes, unpadded). -/
theorem argon2_digest_length (a : KeyArgs) (k : Bytes) (hk : key argon2 a = .ok k) :
    (argon2.encodeSum k).length = 43 :=
  argon2_digest_len a k hk

/-- (A) argon2. `hmem`, `htime`: memory and time fit Go's `uint32` (typing; `Key` has no upper bounds);
`hdigest`: the encoded digest is not empty. -/
theorem newHash_then_check_argon2 (r : NewHashReq) (h : Bytes) (used rand : Nat)
    (hmem : r.memory < 2 ^ 32) (htime : r.rounds < 2 ^ 32)
    (hdigest : ∀ k, key argon2 (argon2Args r) = .ok k → argon2.encodeSum k ≠ [])
    (hn : newHash argon2 r = .ok h used) : check argon2 h r.password rand = .nil :=
  Proofs.newHash_then_check_argon2 r h used rand hmem htime hdigest hn

/-- (B) argon2. `hent`: 8 entropy bytes (for "salt of the default length"); `hdigest`: 43 digest symbols. -/
theorem newHash_canonical_argon2 (r : NewHashReq) (h : Bytes) (used : Nat)
    (hmem : r.memory < 2 ^ 32) (htime : r.rounds < 2 ^ 32) (hent : 8 ≤ r.entropy.length)
    (hdigest : ∀ k, key argon2 (argon2Args r) = .ok k → (argon2.encodeSum k).length = 43)
    (hn : newHash argon2 r = .ok h used) :
    ∃ f k, Grammar.argon2 h = some f ∧
      h = Gen.argon2.Prefix2id ++ argon2ParamText Gen.argon2.Version13 r.memory r.rounds Gen.argon2.DefaultThreads ++
            f.salt ++ [36] ++ f.sum ∧
      f.pfx = Gen.argon2.Prefix2id ∧ f.version = some Gen.argon2.Version13 ∧
      f.memory = r.memory ∧ f.time = r.rounds ∧ f.threads = Gen.argon2.DefaultThreads ∧
      Gen.argon2.MinMemory ≤ r.memory ∧ Gen.argon2.MinTime ≤ r.rounds ∧
      f.salt = argon2Salt r ∧ f.salt.length = Gen.argon2.DefaultSaltLength ∧ Grammar.over Grammar.B f.salt = true ∧
      key argon2 (argon2Args r) = .ok k ∧ f.sum = argon2.encodeSum k ∧
      f.sum.length = 43 ∧ Grammar.over Grammar.B f.sum = true ∧ used = 8 :=
  Proofs.newHash_canonical_argon2 r h used hmem htime hent hdigest hn

/-- `argon2.Params(hash)`. -/
theorem params_of_newHash_argon2 (r : NewHashReq) (h : Bytes) (used : Nat)
    (hmem : r.memory < 2 ^ 32) (htime : r.rounds < 2 ^ 32)
    (hdigest : ∀ k, key argon2 (argon2Args r) = .ok k → argon2.encodeSum k ≠ [])
    (hn : newHash argon2 r = .ok h used) :
    params argon2 h = .ok { salt := argon2Salt r, memory := r.memory, rounds := r.rounds,
                            threads := Gen.argon2.DefaultThreads, optsNil := false,
                            optPrefix := Gen.argon2.Prefix2id, optVersion := Gen.argon2.Version13 } :=
  Proofs.params_of_newHash_argon2 r h used hmem htime hdigest hn

/-- argon2: `NewHash` returns a non-empty hash whenever `Key` returns a key — no length condition. -/
theorem newHash_ok_argon2 (r : NewHashReq) (k : Bytes) (hk : key argon2 (argon2Args r) = .ok k) :
    ∃ h, newHash argon2 r = .ok h 8 ∧ h ≠ [] :=
  Proofs.newHash_ok_argon2 r k hk

/-- argon2: `NewHash` succeeds on every request with memory and time at least the exported minima and 8 entropy bytes. -/
theorem newHash_total_argon2 (r : NewHashReq) (hmem : Gen.argon2.MinMemory ≤ r.memory)
    (htime : Gen.argon2.MinTime ≤ r.rounds) (hent : 8 ≤ r.entropy.length) :
    ∃ h, newHash argon2 r = .ok h 8 ∧ h ≠ [] :=
  Proofs.newHash_total_argon2 r hmem htime hent

theorem newHash_then_check_argon2' (r : NewHashReq) (h : Bytes) (used rand : Nat)
    (hmem : r.memory < 2 ^ 32) (htime : r.rounds < 2 ^ 32) (hn : newHash argon2 r = .ok h used) :
    check argon2 h r.password rand = .nil :=
  newHash_then_check_argon2 r h used rand hmem htime
    (fun k hk he => by have := argon2_digest_length _ k hk; rw [he] at this; cases this) hn

theorem newHash_canonical_argon2' (r : NewHashReq) (h : Bytes) (used : Nat)
    (hmem : r.memory < 2 ^ 32) (htime : r.rounds < 2 ^ 32) (hent : 8 ≤ r.entropy.length)
    (hn : newHash argon2 r = .ok h used) :
    ∃ f k, Grammar.argon2 h = some f ∧
      h = Gen.argon2.Prefix2id ++ argon2ParamText Gen.argon2.Version13 r.memory r.rounds Gen.argon2.DefaultThreads ++
            f.salt ++ [36] ++ f.sum ∧
      f.pfx = Gen.argon2.Prefix2id ∧ f.version = some Gen.argon2.Version13 ∧
      f.memory = r.memory ∧ f.time = r.rounds ∧ f.threads = Gen.argon2.DefaultThreads ∧
      Gen.argon2.MinMemory ≤ r.memory ∧ Gen.argon2.MinTime ≤ r.rounds ∧
      f.salt = argon2Salt r ∧ f.salt.length = Gen.argon2.DefaultSaltLength ∧ Grammar.over Grammar.B f.salt = true ∧
      key argon2 (argon2Args r) = .ok k ∧ f.sum = argon2.encodeSum k ∧
      f.sum.length = 43 ∧ Grammar.over Grammar.B f.sum = true ∧ used = 8 :=
  newHash_canonical_argon2 r h used hmem htime hent (fun k hk => argon2_digest_length _ k hk) hn

theorem params_of_newHash_argon2' (r : NewHashReq) (h : Bytes) (used : Nat)
    (hmem : r.memory < 2 ^ 32) (htime : r.rounds < 2 ^ 32) (hn : newHash argon2 r = .ok h used) :
    params argon2 h = .ok { salt := argon2Salt r, memory := r.memory, rounds := r.rounds,
                            threads := Gen.argon2.DefaultThreads, optsNil := false,
                            optPrefix := Gen.argon2.Prefix2id, optVersion := Gen.argon2.Version13 } :=
  params_of_newHash_argon2 r h used hmem htime
    (fun k hk he => by have := argon2_digest_length _ k hk; rw [he] at this; cases this) hn

example : (exReq 1 8).memory < 2 ^ 32 ∧ (exReq 1 8).rounds < 2 ^ 32 ∧ 8 ≤ (exReq 1 8).entropy.length := by decide
/-- `hdigest` holds for every request. -/
example (r : NewHashReq) : ∀ k, key argon2 (argon2Args r) = .ok k → (argon2.encodeSum k).length = 43 :=
  fun k hk => argon2_digest_length _ k hk
example : (Gen.argon2.keyLen * 8 + 5) / 6 = 43 := by decide
#guard okNonEmpty argon2 (exReq 1 8)

/-! ## Axioms -/

#print axioms newHash_then_check_md5
#print axioms newHash_canonical_md5
#print axioms params_of_newHash_md5
#print axioms newHash_ok_md5
#print axioms newHash_total_md5
#print axioms newHash_empty_iff_md5
#print axioms newHash_then_check_sha256
#print axioms newHash_canonical_sha256
#print axioms params_of_newHash_sha256
#print axioms newHash_ok_sha256
#print axioms newHash_total_sha256
#print axioms newHash_then_check_sha512
#print axioms newHash_canonical_sha512
#print axioms params_of_newHash_sha512
#print axioms newHash_ok_sha512
#print axioms newHash_total_sha512
#print axioms newHash_then_check_sha1
#print axioms newHash_canonical_sha1
#print axioms params_of_newHash_sha1
#print axioms newHash_ok_sha1
#print axioms newHash_total_sha1
#print axioms newHash_then_check_nthash
#print axioms newHash_canonical_nthash
#print axioms params_of_newHash_nthash
#print axioms newHash_ok_nthash
#print axioms newHash_total_nthash
#print axioms newHash_then_check_des
#print axioms newHash_canonical_des
#print axioms params_of_newHash_des
#print axioms newHash_ok_des
#print axioms newHash_total_des
#print axioms newHash_empty_iff_des
#print axioms newHash_then_check_desext
#print axioms newHash_canonical_desext
#print axioms params_of_newHash_desext
#print axioms newHash_ok_desext
#print axioms newHash_total_desext
#print axioms newHash_then_check_bcrypt
#print axioms newHash_canonical_bcrypt
#print axioms params_of_newHash_bcrypt
#print axioms newHash_ok_bcrypt
#print axioms newHash_then_check_sunmd5
#print axioms newHash_canonical_sunmd5
#print axioms params_of_newHash_sunmd5
#print axioms newHash_ok_sunmd5
#print axioms newHash_total_sunmd5
#print axioms newHash_then_check_argon2
#print axioms newHash_canonical_argon2
#print axioms params_of_newHash_argon2
#print axioms newHash_ok_argon2
#print axioms newHash_total_argon2
#print axioms argon2_digest_length
#print axioms newHash_then_check_argon2'
#print axioms newHash_canonical_argon2'
#print axioms params_of_newHash_argon2'
#print axioms okNonEmpty_spec
#print axioms EndToEnd.Proofs.key_md5_not_err
#print axioms EndToEnd.key_sha1_rand

end GoCrypt.EndToEnd
