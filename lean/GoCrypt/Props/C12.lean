import GoCrypt.Props.C02Core
import GoCrypt.Props.C10
import GoCrypt.Gen.Flow
import GoCrypt.Props.EndToEnd
import GoCrypt.Props.FlowModel
import GoCrypt.Props.KdfIR2

/-!
# C12 — generated hashes are canonical and Params, Key and Check agree with each other
-/

namespace GoCrypt.C12
open GoCrypt.Flow GoCrypt.Gen

/-- The default-filling statements (`if scheme.X == 0 { scheme.X = C }`) of a function. -/
def defaultsOf (p : List FStmt) : List FStmt :=
  p.filter fun s => match s with | .ifAssign _ _ _ => true | _ => false

/-- `Params` and `Check` apply the SAME implicit defaults, in every scheme that has both
(flow IR regenerated from the current source). -/
theorem defaults_agree :
    defaultsOf sha256.flowParams = defaultsOf sha256.flowCheck ∧
    defaultsOf sha512.flowParams = defaultsOf sha512.flowCheck ∧
    defaultsOf argon2.flowParams = defaultsOf argon2.flowCheck ∧
    defaultsOf sha1.flowParams = defaultsOf sha1.flowCheck ∧
    defaultsOf sunmd5.flowParams = defaultsOf sunmd5.flowCheck ∧
    defaultsOf desext.flowParams = defaultsOf desext.flowCheck ∧
    defaultsOf bcrypt.flowParams = defaultsOf bcrypt.flowCheck ∧
    defaultsOf md5.flowSalt = defaultsOf md5.flowCheck ∧
    defaultsOf des.flowSalt = defaultsOf des.flowCheck := by
  decide

/-- … and those defaults are exactly the documented ones: SHA-crypt rounds 0 ↦ ImplicitRounds,
Argon2 version 0 ↦ Version10; no other scheme fills anything in. -/
theorem defaults_are_documented :
    defaultsOf sha256.flowCheck = [.ifAssign (.op "==" (.field "scheme" "Rounds") (.const "0")) "scheme.Rounds" (.const "ImplicitRounds")] ∧
    defaultsOf sha512.flowCheck = [.ifAssign (.op "==" (.field "scheme" "Rounds") (.const "0")) "scheme.Rounds" (.const "ImplicitRounds")] ∧
    defaultsOf argon2.flowCheck = [.ifAssign (.op "==" (.field "scheme" "Version") (.const "0")) "scheme.Version" (.const "Version10")] ∧
    defaultsOf sha1.flowCheck = [] ∧ defaultsOf sunmd5.flowCheck = [] ∧ defaultsOf desext.flowCheck = [] ∧
    defaultsOf bcrypt.flowCheck = [] ∧ defaultsOf md5.flowCheck = [] ∧ defaultsOf des.flowCheck = [] ∧ defaultsOf nthash.flowCheck = [] := by
  decide

#print axioms defaults_agree
#print axioms defaults_are_documented
-- coherence: Check succeeds iff Key on the extracted parameters re-encodes to the stored digest
#print axioms GoCrypt.C02.check_ok_iff
#print axioms GoCrypt.C02.accept_rederives_own_params
-- re-assembly: every canonical-domain value marshals to a string that unmarshals to the same fields
#print axioms GoCrypt.C10.canonical_md5
#print axioms GoCrypt.C10.canonical_sha256
#print axioms GoCrypt.C10.canonical_sha512
#print axioms GoCrypt.C10.canonical_sha1
#print axioms GoCrypt.C10.canonical_sunmd5
#print axioms GoCrypt.C10.canonical_des
#print axioms GoCrypt.C10.canonical_desext
#print axioms GoCrypt.C10.canonical_bcrypt
#print axioms GoCrypt.C10.canonical_nthash
#print axioms GoCrypt.C10.canonical_argon2
-- END TO END (model): the generated string is accepted by the independent recogniser of the documented layout with exactly the
-- documented prefix, the requested cost in canonical form, a default-length salt over the alphabet and a fixed-length digest;
-- Params returns what was requested
#print axioms GoCrypt.EndToEnd.newHash_canonical_md5
#print axioms GoCrypt.EndToEnd.newHash_canonical_sha1
#print axioms GoCrypt.EndToEnd.newHash_canonical_sha256
#print axioms GoCrypt.EndToEnd.newHash_canonical_sha512
#print axioms GoCrypt.EndToEnd.newHash_canonical_nthash
#print axioms GoCrypt.EndToEnd.newHash_canonical_des
#print axioms GoCrypt.EndToEnd.newHash_canonical_desext
#print axioms GoCrypt.EndToEnd.newHash_canonical_bcrypt
#print axioms GoCrypt.EndToEnd.newHash_canonical_sunmd5
#print axioms GoCrypt.EndToEnd.newHash_canonical_argon2
#print axioms GoCrypt.EndToEnd.newHash_canonical_argon2'
#print axioms GoCrypt.EndToEnd.params_of_newHash_md5
#print axioms GoCrypt.EndToEnd.params_of_newHash_sha1
#print axioms GoCrypt.EndToEnd.params_of_newHash_sha256
#print axioms GoCrypt.EndToEnd.params_of_newHash_sha512
#print axioms GoCrypt.EndToEnd.params_of_newHash_nthash
#print axioms GoCrypt.EndToEnd.params_of_newHash_des
#print axioms GoCrypt.EndToEnd.params_of_newHash_desext
#print axioms GoCrypt.EndToEnd.params_of_newHash_bcrypt
#print axioms GoCrypt.EndToEnd.params_of_newHash_sunmd5
#print axioms GoCrypt.EndToEnd.params_of_newHash_argon2
#print axioms GoCrypt.EndToEnd.params_of_newHash_argon2'

-- the pipeline model IS the regenerated code (Props/FlowModel.lean): a value semantics of the flow IR, instantiated with the model's own
-- unmarshal / key / encoders, evaluates the IR regenerated from the current source to exactly Scheme.newHash, Scheme.params and Scheme.check, for all inputs
#print axioms GoCrypt.FlowModel.flowCheck_eq_model_md5
#print axioms GoCrypt.FlowModel.flowCheck_eq_model_sha256
#print axioms GoCrypt.FlowModel.flowCheck_eq_model_sha512
#print axioms GoCrypt.FlowModel.flowCheck_eq_model_sha1
#print axioms GoCrypt.FlowModel.flowCheck_eq_model_sunmd5
#print axioms GoCrypt.FlowModel.flowCheck_eq_model_des
#print axioms GoCrypt.FlowModel.flowCheck_eq_model_desext
#print axioms GoCrypt.FlowModel.flowCheck_eq_model_bcrypt
#print axioms GoCrypt.FlowModel.flowCheck_eq_model_nthash
#print axioms GoCrypt.FlowModel.flowCheck_eq_model_argon2

#print axioms GoCrypt.FlowModel.flowNewHash_eq_model_md5
#print axioms GoCrypt.FlowModel.flowNewHash_eq_model_des
#print axioms GoCrypt.FlowModel.flowNewHash_eq_model_sha256
#print axioms GoCrypt.FlowModel.flowNewHash_eq_model_sha512
#print axioms GoCrypt.FlowModel.flowNewHash_eq_model_sha1
#print axioms GoCrypt.FlowModel.flowNewHash_eq_model_nthash
#print axioms GoCrypt.FlowModel.flowNewHash_eq_model_desext
#print axioms GoCrypt.FlowModel.flowNewHash_eq_model_bcrypt
#print axioms GoCrypt.FlowModel.flowNewHash_eq_model_argon2
#print axioms GoCrypt.FlowModel.flowNewHash_eq_model_sunmd5
#print axioms GoCrypt.FlowModel.flowSalt_eq_model_md5
#print axioms GoCrypt.FlowModel.flowParams_eq_model_sha256
#print axioms GoCrypt.FlowModel.flowParams_eq_model_sha512
#print axioms GoCrypt.FlowModel.flowParams_eq_model_sha1
#print axioms GoCrypt.FlowModel.flowParams_eq_model_sunmd5
#print axioms GoCrypt.FlowModel.flowSalt_eq_model_des
#print axioms GoCrypt.FlowModel.flowParams_eq_model_desext
#print axioms GoCrypt.FlowModel.flowParams_eq_model_bcrypt
#print axioms GoCrypt.FlowModel.flowParams_eq_model_argon2
#print axioms GoCrypt.FlowModel.parameter_names
-- every scheme's Key, after its guard clauses, as regenerated from the source (Props/KdfIR2.lean) computes Scheme.<s>.derive — the derive of the pipeline model the theorems above are about
#print axioms GoCrypt.KdfIR2.desext_key_tail_ir_eq_derive
#print axioms GoCrypt.KdfIR2.des_key_tail_ir_eq_derive
#print axioms GoCrypt.KdfIR2.nthash_key_tail_ir_eq_derive
#print axioms GoCrypt.KdfIR2.md5_key_tail_ir_eq_derive
#print axioms GoCrypt.KdfIR2.sha256_key_tail_ir_eq_derive
#print axioms GoCrypt.KdfIR2.sha512_key_tail_ir_eq_derive
#print axioms GoCrypt.KdfIR2.sha1_key_tail_ir_eq_derive
#print axioms GoCrypt.KdfIR2.sunmd5_key_tail_ir_eq_derive
#print axioms GoCrypt.KdfIR2.bcrypt_key_tail_ir_eq_derive
end GoCrypt.C12
