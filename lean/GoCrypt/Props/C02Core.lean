import GoCrypt.Model.Scheme
import GoCrypt.Props.KdfProps
import GoCrypt.Props.C19

/-!
# C02 — a wrong password or a tampered hash never verifies

(a) exact characterisation of success on the scheme pipeline model (all ten schemes share it):
success only through equality of the complete encoded digests; every Unmarshal/Key error is
returned, never swallowed; (b) tampering with the digest text never verifies; acceptance always
re-derives with the hash's own parameters; (c) absorption, as reductions to collisions of the
underlying hash (`Props/KdfProps.lean`). "Not equivalent ⇒ different digest" is, beyond (c), the
collision resistance of the primitives — an explicit disjunct of the theorems, never an axiom.
-/

namespace GoCrypt.C02
open GoCrypt GoCrypt.Scheme GoCrypt.Codec

/-- (a) `Check` succeeds exactly when the hash unmarshals, `Key` succeeds on the hash's own salt /
cost / variant, and the complete encoded digest equals the stored digest text. -/
theorem check_ok_iff (S : Def) (h pw : Bytes) (rand : Nat) :
    check S h pw rand = .nil ↔
      ∃ ti out k, tiOf S = some ti ∧ unmarshal ti h = .ok out ∧
        key S (checkArgs S ti (finalVals ti out) pw rand) = .ok k ∧
        S.encodeSum k = fvBytes (fieldVal ti (finalVals ti out) "Sum") := by
  constructor
  · intro hc
    unfold check at hc
    cases hti : tiOf S with
    | none => simp [hti] at hc
    | some ti =>
      cases hu : unmarshal ti h with
      | error e => simp [hti, hu] at hc
      | ok out =>
        cases hk : key S (checkArgs S ti (finalVals ti out) pw rand) with
        | ok k =>
          refine ⟨ti, out, k, rfl, hu, hk, ?_⟩
          simp only [hti, hu, hk, ctEq] at hc
          by_cases he : (S.encodeSum k == fvBytes (fieldVal ti (finalVals ti out) "Sum")) = true
          · exact (beq_iff_eq).1 he
          · simp [he] at hc
        | err e => simp [hti, hu, hk] at hc
        | internal w => simp [hti, hu, hk] at hc
        | panic => simp [hti, hu, hk] at hc
  · rintro ⟨ti, out, k, hti, hu, hk, he⟩
    simp [check, hti, hu, hk, ctEq, he]

/-- (a') No error path falls through to success: an Unmarshal error is returned as it is … -/
theorem unmarshal_error_returned (S : Def) (ti : TypeInfo) (h pw : Bytes) (rand : Nat) (e : UErr)
    (hti : tiOf S = some ti) (hu : unmarshal ti h = .error e) : check S h pw rand = .uerr e := by
  simp [check, hti, hu]

/-- … and so is a `Key` error (parameter out of range, unsupported variant, …). -/
theorem key_error_returned (S : Def) (ti : TypeInfo) (h pw : Bytes) (rand : Nat) (out : Vals) (e : KeyErr)
    (hti : tiOf S = some ti) (hu : unmarshal ti h = .ok out)
    (hk : key S (checkArgs S ti (finalVals ti out) pw rand) = .err e) : check S h pw rand = .kerr e := by
  simp [check, hti, hu, hk]

/-- (b) Tampering with the digest: two hashes that unmarshal to the same salt / cost / variant but
different digest texts cannot both verify for one password. Covers every substitution at every
digest position, for every scheme. -/
theorem tampered_digest_never_ok (S : Def) (ti : TypeInfo) (h h' pw : Bytes) (rand : Nat) (out out' : Vals)
    (hti : tiOf S = some ti) (hu : unmarshal ti h = .ok out) (hu' : unmarshal ti h' = .ok out')
    (hargs : checkArgs S ti (finalVals ti out) pw rand = checkArgs S ti (finalVals ti out') pw rand)
    (hsum : fvBytes (fieldVal ti (finalVals ti out) "Sum") ≠ fvBytes (fieldVal ti (finalVals ti out') "Sum"))
    (hok : check S h pw rand = .nil) : check S h' pw rand ≠ .nil := by
  intro hok'
  obtain ⟨t1, o1, k1, ht1, ho1, hk1, he1⟩ := (check_ok_iff S h pw rand).1 hok
  obtain ⟨t2, o2, k2, ht2, ho2, hk2, he2⟩ := (check_ok_iff S h' pw rand).1 hok'
  rw [hti] at ht1 ht2; cases ht1; cases ht2
  rw [hu] at ho1; cases ho1
  rw [hu'] at ho2; cases ho2
  rw [hargs, hk2] at hk1; cases hk1
  exact hsum (he1.symm.trans he2)

/-- (b') Acceptance always re-derives with the hash's OWN parameters: if a hash verifies, its digest
text is the encoding of the key derived from the salt / cost / variant written in that very hash. -/
theorem accept_rederives_own_params (S : Def) (h pw : Bytes) (rand : Nat) (hok : check S h pw rand = .nil) :
    ∃ ti out k, tiOf S = some ti ∧ unmarshal ti h = .ok out ∧
      key S (checkArgs S ti (finalVals ti out) pw rand) = .ok k ∧
      fvBytes (fieldVal ti (finalVals ti out) "Sum") = S.encodeSum k := by
  obtain ⟨ti, out, k, a, b, c, d⟩ := (check_ok_iff S h pw rand).1 hok
  exact ⟨ti, out, k, a, b, c, d.symm⟩

-- (c) absorption: equal keys ⇒ equal passwords or an explicit collision of the hash (shared file Props/KdfProps.lean)
-- the comparison of the two complete digests is the only use of the secret (per-scheme, regenerated flow IR)

end GoCrypt.C02
