import GoCrypt.Proofs.Conc
import GoCrypt.Props.C18Core
import GoCrypt.Gen.Facts
import GoCrypt.Props.TypeCacheIR

/-!
# C08 — concurrent use is race free and returns the isolated results

The library's only shared mutable state is the type cache (`hash/typeinfo.go: typeCache`) and the
handler registry (`crypt.go: hashCache`), both `sync.Map`s. `Model/Conc.lean` gives an interleaving
semantics of `getTypeInfo` (atomic map operations + single plain accesses, any number of threads,
any schedule) and of the registry operations. This file states the properties:

* (a) `conc_results_isolated`, `conc_finishes`: every finished call returns exactly what the call
  returns in isolation on a cold cache, reporting the caller's own argument type; a call finishes
  after at most six of its own steps whatever the other threads do;
* (b) `conc_disciplined`, `conc_race_free`, `conc_writes_thread_local`,
  `conc_published_never_written`: no happens-before data race in any execution;
* (c) `alias_*`: the defective variant (result aliases the published object) has a data race and
  returns another caller's struct type — the model distinguishes the two variants;
* (d) `reg_*`: registry loads return only stored values (last store wins).

Assumptions (measured by the verif hooks / suites, not proved here): the current Go code has the
shape of the `returnsAlias = false` program (private copy, keyed by the dereferenced type), and
`sync.Map` operations are linearizable with the synchronisation guaranteed by the Go memory model.
-/

namespace GoCrypt.C08
open GoCrypt.Codec GoCrypt.TypeCache GoCrypt.Conc

/-! ## (a) results -/

/-- Every thread that has finished — under ANY schedule, with ANY number of threads and ANY argument
types — returns exactly `compute` of its dereferenced type paired with ITS OWN argument type, which
is what the sequential model returns on a cold cache. -/
theorem conc_results_isolated (compute : Compute) (args : List ArgType) (sched : List Tid) (u : Tid)
    (r : Except TagErr Result) (h : result (run false compute args sched) u = some r) :
    ∃ t, args[u]? = some t ∧
      r = (compute t.key).map (fun ti => ⟨ti, t⟩) ∧
      r = (TypeCache.getTypeInfo compute [] t).2 := by
  obtain ⟨th, hth, _, hr⟩ := result_of_inv (inv_run compute args sched) h
  refine ⟨th.arg, run_arg hth, hr, ?_⟩
  rw [C18.result_independent_of_cache compute [] th.arg (C18.cacheOK_empty compute)]
  exact hr

/-- The reported struct of a successful concurrent call is the caller's own argument type. -/
theorem conc_reports_own_struct (compute : Compute) (args : List ArgType) (sched : List Tid) (u : Tid)
    (res : Result) (h : result (run false compute args sched) u = some (.ok res)) :
    args[u]? = some res.reportedStruct := by
  obtain ⟨t, ht, hr, _⟩ := conc_results_isolated compute args sched u _ h
  cases hc : compute t.key with
  | error e => rw [hc] at hr; cases hr
  | ok ti => rw [hc] at hr; cases hr; exact ht

/-- Two threads using the value and a pointer form of the same struct type concurrently get the same
type info. -/
theorem conc_forms_agree (compute : Compute) (args : List ArgType) (sched : List Tid) (u v : Tid)
    (tu tv : ArgType) (hu : args[u]? = some tu) (hv : args[v]? = some tv) (hk : tu.key = tv.key)
    (ru rv : Except TagErr Result)
    (h₁ : result (run false compute args sched) u = some ru)
    (h₂ : result (run false compute args sched) v = some rv) :
    ru.map (·.info) = rv.map (·.info) := by
  obtain ⟨t₁, ht₁, hr₁, _⟩ := conc_results_isolated compute args sched u _ h₁
  obtain ⟨t₂, ht₂, hr₂, _⟩ := conc_results_isolated compute args sched v _ h₂
  rw [hu] at ht₁; rw [hv] at ht₂; cases ht₁; cases ht₂
  rw [hr₁, hr₂, hk]
  cases compute tv.key <;> rfl

/-- Wait-freedom: a thread that has been scheduled six times has finished with the isolated result,
whatever the other threads did in between. -/
theorem conc_finishes (compute : Compute) (args : List ArgType) (sched : List Tid) (u : Tid) (t : ArgType)
    (hu : args[u]? = some t) (hcount : 6 ≤ sched.count u) :
    result (run false compute args sched) u = some ((compute t.key).map (fun ti => ⟨ti, t⟩)) := by
  have hth : (init args).threads[u]? = some ⟨t, .start⟩ := by simp [init, hu]
  obtain ⟨th', h', hf⟩ := exec_fuel sched (inv_init compute args) hth
  have hz : th'.pc.fuel = 0 := by
    change th'.pc.fuel ≤ 6 - sched.count u at hf; omega
  have I := inv_run compute args sched
  have hs := result_isSome_of_done I h' (fuel_zero_done hz)
  cases hr : result (run false compute args sched) u with
  | none => rw [hr] at hs; cases hs
  | some r =>
    obtain ⟨t', ht', hr', _⟩ := conc_results_isolated compute args sched u r hr
    rw [hu] at ht'; cases ht'; rw [hr']

/-! ## (b) race freedom -/

/-- The ownership discipline holds in every execution: objects are written only while untouched by
other threads and unpublished, published only by their owner, and touched by another thread only
after it obtained the pointer from the atomic map. -/
theorem conc_disciplined (compute : Compute) (args : List ArgType) (sched : List Tid) :
    Disciplined (run false compute args sched).trace :=
  (inv_run compute args sched).shared.disc

/-- The discipline implies the absence of happens-before data races (for any trace). -/
theorem disciplined_implies_race_free (tr : List Event) (d : Disciplined tr) : RaceFree tr :=
  disciplined_raceFree d

/-- No execution contains two plain accesses to the same object by different threads, at least one
a write, that are not ordered by happens-before (program order ∪ publication via the atomic map). -/
theorem conc_race_free (compute : Compute) (args : List ArgType) (sched : List Tid) :
    RaceFree (run false compute args sched).trace :=
  disciplined_raceFree (conc_disciplined compute args sched)

/-- State-level form: every plain write performed in a reachable state is performed by the stepping
thread on an object that is unpublished and owned by it (before the step, if the object already
exists, and after it). -/
theorem conc_writes_thread_local (compute : Compute) (args : List ArgType) (sched : List Tid) (u : Tid) (e : Event)
    (htr : (step false compute (run false compute args sched) u).trace = (run false compute args sched).trace ++ [e])
    (hw : e.isWrite = true) :
    e.tid = u ∧
    (∀ obj, (run false compute args sched).heap[e.obj]? = some obj → obj.owner = u ∧ obj.published = false) ∧
    (∃ obj, (step false compute (run false compute args sched) u).heap[e.obj]? = some obj ∧
      obj.owner = u ∧ obj.published = false) :=
  step_write_local u (inv_run compute args sched) e htr hw

/-- After its publication through `LoadOrStore` an object is only ever read. -/
theorem conc_published_never_written (compute : Compute) (args : List ArgType) (sched : List Tid)
    (p j : Nat) (t : Tid) (o : ObjId) (e : Event)
    (hp : (run false compute args sched).trace[p]? = some (.publish t o))
    (hj : (run false compute args sched).trace[j]? = some e) (hpj : p < j) (ho : e.obj = o) :
    e.isWrite = false :=
  (conc_disciplined compute args sched).published_never_written hp hj hpj ho

/-! ## (c) the defective variant is distinguished -/

/-- Value and pointer form of the same struct type. -/
def wArgs : List ArgType := [⟨"T", 0⟩, ⟨"T", 1⟩]
def wCompute : Compute := fun _ => .ok {}
/-- Thread 0 misses, allocates, publishes; thread 1 loads the published pointer; both then write
`Struct` into the shared object. -/
def wSched : List Tid := [0, 0, 0, 1, 0, 1]

theorem alias_witness_trace :
    (run true wCompute wArgs wSched).trace =
      [.access 0 0 .all .write, .publish 0 0, .acquire 1 0,
       .access 0 0 .structField .write, .access 1 0 .structField .write] := by
  decide

/-- The two `Struct` writes on the shared object (positions 3 and 4) are a data race. -/
theorem alias_has_race : Race (run true wCompute wArgs wSched).trace 3 4 := by
  rw [alias_witness_trace]
  refine ⟨0, 1, 0, .structField, .structField, .write, .write, by decide, rfl, rfl, by decide, Or.inl rfl, ?_⟩
  intro hb
  have := HB.stays (t := 0) (i := 3) (by decide) hb (.access 0 0 .structField .write) (Nat.le_refl _) rfl rfl
    (.access 1 0 .structField .write) rfl
  exact absurd this (by decide)

theorem alias_not_race_free : ¬ RaceFree (run true wCompute wArgs wSched).trace :=
  fun h => h 3 4 alias_has_race

/-- Thread 0 (argument type `T`) observes through its returned pointer the struct type `*T` of
thread 1 — not the result of the call in isolation. -/
theorem alias_wrong_struct :
    result (run true wCompute wArgs wSched) 0 = some (.ok ⟨{}, ⟨"T", 1⟩⟩) ∧
    (TypeCache.getTypeInfo wCompute [] ⟨"T", 0⟩).2 = .ok ⟨{}, ⟨"T", 0⟩⟩ := by
  constructor <;> rfl

/-- Hence (a) fails for the defective variant. -/
theorem alias_results_not_isolated :
    ¬ ∀ (u : Tid) (r : Except TagErr Result), result (run true wCompute wArgs wSched) u = some r →
      ∃ t, wArgs[u]? = some t ∧ r = (TypeCache.getTypeInfo wCompute [] t).2 := by
  intro h
  obtain ⟨t, ht, hr⟩ := h 0 _ alias_wrong_struct.1
  simp [wArgs] at ht
  subst ht
  rw [alias_wrong_struct.2] at hr
  simp at hr

/-- The same schedule under the correct protocol: no race, own struct. -/
example : result (run false wCompute wArgs (wSched ++ [0, 0, 1, 1])) 0 = some (.ok ⟨{}, ⟨"T", 0⟩⟩) := by rfl
example : result (run false wCompute wArgs (wSched ++ [0, 0, 1, 1])) 1 = some (.ok ⟨{}, ⟨"T", 1⟩⟩) := by rfl

/-! ## (d) registry -/

open GoCrypt.Dispatch in
/-- A `Load` returns either nothing or a value that was stored for exactly that key earlier in the
schedule (or was in the initial registry): no torn or invented values. -/
theorem reg_load_returns_stored {α} (r₀ : Registry α) (ops : List (RegOp α)) (i : Nat) (res : Option α)
    (h : regLoadResult r₀ ops i = some res) :
    ∃ tid p, ops[i]? = some (.load tid p) ∧
      (res = none ∨ ∃ f, res = some f ∧
        (lookup r₀ p = some f ∨ ∃ (j : Nat) (t : Tid), j < i ∧ ops[j]? = some (.store t p f))) := by
  unfold regLoadResult at h
  cases hop : ops[i]? with
  | none => simp [hop] at h
  | some op =>
    cases op with
    | store t q g => simp [hop] at h
    | load tid p =>
      simp only [hop, Option.some.injEq] at h
      refine ⟨tid, p, rfl, ?_⟩
      cases res with
      | none => exact Or.inl rfl
      | some f =>
        refine Or.inr ⟨f, rfl, ?_⟩
        rcases lookup_regExec r₀ (ops.take i) p f h with h' | ⟨j, t, hj⟩
        · exact Or.inl h'
        · rw [List.getElem?_take] at hj
          split at hj
          · exact Or.inr ⟨j, t, by assumption, hj⟩
          · cases hj

open GoCrypt.Dispatch in
/-- Linearizability: a `Load` of `p` returns the LAST value stored for `p` before it in the schedule. -/
theorem reg_load_last_store {α} (r₀ : Registry α) (pre mid post : List (RegOp α)) (t tid : Tid) (p : Bytes) (f : α)
    (hmid : ∀ op ∈ mid, ∀ t' g, op ≠ RegOp.store t' p g) :
    regLoadResult r₀ (pre ++ .store t p f :: mid ++ .load tid p :: post) (pre.length + 1 + mid.length) = some (some f) := by
  have hidx : (pre ++ RegOp.store t p f :: mid ++ RegOp.load tid p :: post)[pre.length + 1 + mid.length]? =
      some (.load tid p) := by
    have : pre ++ RegOp.store t p f :: mid ++ RegOp.load tid p :: post =
        (pre ++ RegOp.store t p f :: mid) ++ (RegOp.load tid p :: post) := by simp
    rw [this, List.getElem?_append_right (by simp; omega)]
    simp
    have : pre.length + 1 + mid.length - (pre.length + (mid.length + 1)) = 0 := by omega
    rw [this]; rfl
  have htake : (pre ++ RegOp.store t p f :: mid ++ RegOp.load tid p :: post).take (pre.length + 1 + mid.length) =
      pre ++ RegOp.store t p f :: mid := by
    have : pre ++ RegOp.store t p f :: mid ++ RegOp.load tid p :: post =
        (pre ++ RegOp.store t p f :: mid) ++ (RegOp.load tid p :: post) := by simp
    rw [this, List.take_append_of_le_length (by simp; omega)]
    apply List.take_of_length_le; simp; omega
  unfold regLoadResult
  rw [hidx]
  simp only [htake]
  rw [regExec_append]
  simp only [regExec]
  rw [lookup_regExec_noStore _ mid p hmid]
  simp [register, lookup]

open GoCrypt.Dispatch in
/-- `Check` is a function of the registry contents at its `Load` and its own arguments: two checks
that load the same registry contents do the same thing, wherever they are in the schedule. -/
theorem reg_check_deterministic {α} (r₀ : Registry α) (ops : List (RegOp α)) (i j : Nat) (h pw : Bytes)
    (hsame : regExec r₀ (ops.take i) = regExec r₀ (ops.take j)) :
    regCheckOutcome r₀ ops i h pw = regCheckOutcome r₀ ops j h pw := by
  unfold regCheckOutcome; rw [hsame]

/-! ## Non-vacuity: three threads on concrete data -/

/-- `T` and `U` have valid tags, every other type (`Bad`) fails `normalize`. -/
def exCompute : Compute := fun k =>
  if k = "T" then .ok { numReqValues := 2 } else if k = "U" then .ok {} else .error (.paramConflict "A" "B")

/-- Thread 0: `T`; thread 1: `**T`; thread 2: `*Bad`. -/
def exArgs : List ArgType := [⟨"T", 0⟩, ⟨"T", 2⟩, ⟨"Bad", 1⟩]

/-- Threads 0 and 1 both miss, both allocate; thread 1 wins the `LoadOrStore`; thread 2 fails. -/
def exSched : List Tid := [0, 1, 2, 0, 1, 1, 0, 2, 1, 0, 0, 1, 1, 0]

example : result (run false exCompute exArgs exSched) 0 = some (.ok ⟨{ numReqValues := 2 }, ⟨"T", 0⟩⟩) := by rfl
example : result (run false exCompute exArgs exSched) 1 = some (.ok ⟨{ numReqValues := 2 }, ⟨"T", 2⟩⟩) := by rfl
example : result (run false exCompute exArgs exSched) 2 = some (.error (.paramConflict "A" "B")) := by rfl
/-- Both threads read the SAME published object (1, allocated by thread 1); thread 0's own object 0
loses the `LoadOrStore` and is dropped; the private copies are objects 2 and 3. -/
example : (run false exCompute exArgs exSched).trace =
    [.access 0 0 .all .write, .access 1 1 .all .write, .publish 1 1, .acquire 0 1,
     .access 1 1 .all .read, .access 0 1 .all .read, .access 0 2 .all .write, .access 1 3 .all .write,
     .access 1 3 .structField .write, .access 0 2 .structField .write] := by decide
example : RaceFree (run false exCompute exArgs exSched).trace := conc_race_free _ _ _
/-- An unfinished thread has no result yet. -/
example : result (run false exCompute exArgs [0, 1, 2, 0]) 1 = none := by rfl
/-- Registry: a load between two stores sees the first, a load after sees the second. -/
example : regLoadResult (α := Nat) [] [.store 0 [36] 1, .load 1 [36], .store 2 [36] 2, .load 1 [36], .load 3 [95]] 1 = some (some 1) := by decide
example : regLoadResult (α := Nat) [] [.store 0 [36] 1, .load 1 [36], .store 2 [36] 2, .load 1 [36], .load 3 [95]] 3 = some (some 2) := by decide
example : regLoadResult (α := Nat) [] [.store 0 [36] 1, .load 1 [36], .store 2 [36] 2, .load 1 [36], .load 3 [95]] 4 = some none := by decide

/-- Regenerated from the current source: the module's only package-level variables of a type that
carries shared mutable state by design (sync, sync/atomic, maps, channels) are the two `sync.Map`s,
and they are touched only through `Load` / `Store` / `LoadOrStore`, in exactly the functions the
protocol model has footprints for. (A new cache, pool, mutex or lock-free registry changes this list.) -/
theorem shared_state_facts :
    GoCrypt.Gen.Facts.sharedVars = [("", "hashCache", "sync.Map"), ("hash", "typeCache", "sync.Map")] ∧
    GoCrypt.Gen.Facts.sharedVarUses =
      [("", "Check", "hashCache.Load"), ("", "RegisterHash", "hashCache.Store"),
       ("hash", "getTypeInfo", "typeCache.Load"), ("hash", "getTypeInfo", "typeCache.LoadOrStore")] := by
  decide

/-- Regenerated: no function outside `init` assigns to a package-level variable; the only
address-of is Sun MD5's pointer to its constant empty separator string (never written through). -/
theorem no_late_global_writes :
    (GoCrypt.Gen.Facts.lateGlobalWrites.map fun w => (w.2.1, w.2.2)) =
      [("Key", "&sunmd5.separator"), ("NewHash", "&sunmd5.separator")] := by
  decide

#print axioms shared_state_facts
#print axioms no_late_global_writes
#print axioms conc_results_isolated
#print axioms conc_reports_own_struct
#print axioms conc_forms_agree
#print axioms conc_finishes
#print axioms conc_disciplined
#print axioms disciplined_implies_race_free
#print axioms conc_race_free
#print axioms conc_writes_thread_local
#print axioms conc_published_never_written
#print axioms alias_witness_trace
#print axioms alias_has_race
#print axioms alias_not_race_free
#print axioms alias_wrong_struct
#print axioms alias_results_not_isolated
#print axioms reg_load_returns_stored
#print axioms reg_load_last_store
#print axioms reg_check_deterministic

-- the type cache under concurrency, on the regenerated getTypeInfo (Props/TypeCacheIR.lean): any number of callers interleaved at the atomic Load/LoadOrStore steps
-- each get the cold-cache result in a private record; no cached record is ever written after it was stored
#print axioms GoCrypt.TypeCacheIR.small_steps_are_the_same_program
#print axioms GoCrypt.TypeCacheIR.interleaved_calls_return_the_cold_result
#print axioms GoCrypt.TypeCacheIR.interleaved_calls_all_return
#print axioms GoCrypt.TypeCacheIR.two_concurrent_calls
#print axioms GoCrypt.TypeCacheIR.returned_record_is_private
#print axioms GoCrypt.TypeCacheIR.returned_record_stays_private
#print axioms GoCrypt.TypeCacheIR.hit_returns_copy_of_cached_record
end GoCrypt.C08
