import GoCrypt.Proofs.Argon2SchedLinkFill
import GoCrypt.Props.C04Core
/-!
# C09 (link) — the schedule-independence theorems are about the MODEL of `argon2crypto`

`GoCrypt/Props/C09.lean` proves, for an abstract system (cells `V`, block function `G`, address
source `rnd`, memory `Nat → V`), that every complete schedule of the lane goroutines of a phase
produces the memory of the sequential run.  This file closes the gap to the code-shaped model
`GoCrypt/Model/Kdf/Argon2.lean` (the object that is compared with the Go code):

* the abstract system is instantiated with the model's own functions
  (`V := Block`, `G := blockG version = processBlock · · · (version ≠ 0x10)`,
  `rnd := rndWord time memory mode` = word `index % 128` of the model's address block number
  `index / 128 + 1` for data-independent addressing, word 0 of `B[prev]` otherwise,
  memory `memOf B = fun i => B[i]!`, index `= lane * laneLength + column`);
* `processSegment_is_task`: one `processSegment` call on the array IS the run of the abstract task
  list of that lane on the memory function;
* `model_fill_eq_seqFill`: `processBlocks` on the array IS the abstract sequential fill;
* `fill_eq_any_complete_schedule`, `key_eq_any_complete_schedule`: running the `4·time` phases under
  ARBITRARY complete schedules (one per phase), from `initBlocks`, then `extractKey`, gives exactly
  `Kdf.Argon2.key …` — which is `Spec.Argon2Rfc.argon2 …` by C04 (`C09`).

Proofs: `GoCrypt/Proofs/Argon2SchedLink.lean`, `GoCrypt/Proofs/Argon2SchedLinkFill.lean`.

Still outside (trusted runtime semantics, as in `C09.lean`): that `go f(); …; wg.Wait()` realises
exactly the complete schedules of `Sys.exec`, with one block operation as the atomic step.
-/

namespace GoCrypt.C09Link
open GoCrypt GoCrypt.Kdf.Argon2 GoCrypt.Argon2Sched GoCrypt.Argon2SchedLink

/-! ## (1) the concrete parameters are the model's -/

/-- `G`: the block update of `processSegment` (XOR variant unless version 0x10) -/
theorem blockG_def (version : Nat) (old prev ref : Block) :
    blockG version old prev ref = processBlock old prev ref (!(version == version10)) := rfl

/-- `rnd`: the model's `random` word -/
theorem rndWord_def (time memory mode n slice lane index : Nat) (prev : Block) :
    rndWord time memory mode n slice lane index prev =
      if (mode == argon2i || (mode == argon2id && n == 0 && slice < syncPoints / 2)) = true then
        ((addrBlock time memory mode n slice lane (index / blockLength + 1))[index % blockLength]!).toNat
      else (prev[0]!).toNat := rfl

/-- the `c`-th address block: `in = (n, lane, slice, memory, time, mode, c, 0, …)`, then
`processBlock(&addresses, &in, &zero); processBlock(&addresses, &addresses, &zero)` -/
theorem addrBlock_def (time memory mode n slice lane c : Nat) :
    addrBlock time memory mode n slice lane c =
      let in_ := ((((((zeroBlock.set! 0 (UInt64.ofNat n)).set! 1 (UInt64.ofNat lane)).set! 2
        (UInt64.ofNat slice)).set! 3 (UInt64.ofNat memory)).set! 4 (UInt64.ofNat time)).set! 5
        (UInt64.ofNat mode)).set! 6 (UInt64.ofNat c)
      let a := processBlock zeroBlock in_ zeroBlock false
      processBlock a a zeroBlock false := rfl

/-- … which is the RFC's `G(ZERO, G(ZERO, Z_c))` -/
theorem addrBlock_eq_rfc (time memory mode n slice lane c : Nat) :
    addrBlock time memory mode n slice lane c
      = Spec.Argon2Rfc.addressBlock n lane slice memory time mode c :=
  addrBlock_eq time memory mode n slice lane c

/-- the systems of the `4·time` phases are `Argon2Sched.argon2Phases` with these parameters -/
theorem modelPhases_def {lanes segments threads : Nat} (geo : Geom lanes segments threads)
    (mode version time memory : Nat) :
    modelPhases geo mode version time memory
      = argon2Phases geo (blockG version) (rndWord time memory mode) time := rfl

/-- the memory function of an array, and back -/
theorem memOf_def (B : Array Block) (i : Nat) : memOf B i = B[i]! := rfl

theorem arrOf_memOf (B : Array Block) : arrOf (memOf B) B.size = B := Argon2SchedLink.arrOf_memOf B

/-- running the phases under given schedules = `Argon2Sched.parFill` on the memory function -/
theorem runPhases_def {lanes segments threads : Nat} (geo : Geom lanes segments threads)
    (mode version time memory : Nat) (scheds : List (List (Fin threads))) (B : Array Block) :
    runPhases geo mode version time memory scheds B
      = arrOf (parFill ((modelPhases geo mode version time memory).zip scheds) (memOf B)) B.size := rfl

/-- `Key` is `extractKey ∘ processBlocks ∘ initBlocks` on `modelMemory` blocks (definitional) -/
theorem key_pipeline (mode version : Nat) (password salt : Bytes) (time memory threads keyLen : Nat) :
    key mode version password salt time memory threads keyLen =
      extractKey (processBlocks
          (initBlocks (initHash password salt time memory threads keyLen mode version)
            (modelMemory memory threads) threads)
          time (modelMemory memory threads) threads mode version)
        (modelMemory memory threads) threads keyLen := rfl

/-- The geometry hypothesis of the scheduling theorems holds for EVERY `Key` call in the domain of
the Go function (the rounding of `memory` to `≥ 8·threads` is what makes `segments ≥ 2`). -/
theorem model_geom (memory threads : Nat) (hthreads : 1 ≤ threads ∧ threads ≤ 255) (hmem32 : memory < 2 ^ 32) :
    Geom (modelMemory memory threads / threads) (modelMemory memory threads / threads / 4) threads :=
  Argon2SchedLink.model_geom memory threads hthreads.1 hthreads.2 hmem32

/-! ## (2) the model's loops are the abstract sequential runs -/

/-- ONE goroutine: `processSegment` on the array is the run of the abstract task list of lane `lane`
in phase `(n, slice)` on the memory function; for every memory with `m' = p·q` entries
(`q = 4·L` the lane length, `L ≥ 2` the segment length). -/
theorem processSegment_is_task {m' p q L : Nat} (geo : Geom q L p) (hm : m' = p * q)
    (t y v n slice lane : Nat) (hslice : slice < 4) (hlane : lane < p)
    (B : Array Block) (hB : B.size = m') :
    memOf (processSegment B t m' p y v q L n slice lane)
      = runList (argon2Tasks q L p (blockG v) (rndWord t m' y n slice) n slice lane) (memOf B) := by
  have D := segDom_of_geom geo hm slice lane hslice hlane
  rw [processSegment_eq_cSteps D t y v n B hB]
  exact memOf_cSegment D t y v n B hB

/-- **`model_fill_eq_seqFill`.**  The model's fill loop `processBlocks` over `Array Block` computes,
cell for cell, the abstract sequential fill `seqFill` of the instantiated system, started from the
memory it is given — for every memory with `m'` entries, in particular the one of `initBlocks`. -/
theorem model_fill_eq_seqFill {m' p q L : Nat} (geo : Geom q L p) (hm : m' = p * q) (t y v : Nat)
    (B : Array Block) (hB : B.size = m') (i : Nat) :
    (processBlocks B t m' p y v)[i]! = seqFill (modelPhases geo y v t m') (memOf B) i :=
  congrFun (Argon2SchedLink.model_fill_eq_seqFill geo hm t y v B hB).1 i

/-- the same, inside `Key`: from `initBlocks` -/
theorem key_fill_eq_seqFill (mode version : Nat) (password salt : Bytes) (time memory threads keyLen : Nat)
    (hthreads : 1 ≤ threads ∧ threads ≤ 255) (hmem32 : memory < 2 ^ 32)
    (geo : Geom (modelMemory memory threads / threads) (modelMemory memory threads / threads / 4) threads)
    (i : Nat) :
    (processBlocks
        (initBlocks (initHash password salt time memory threads keyLen mode version)
          (modelMemory memory threads) threads)
        time (modelMemory memory threads) threads mode version)[i]!
      = seqFill (modelPhases geo mode version time (modelMemory memory threads))
          (memOf (initBlocks (initHash password salt time memory threads keyLen mode version)
            (modelMemory memory threads) threads)) i :=
  model_fill_eq_seqFill geo (modelMemory_mul memory threads hthreads.1 hthreads.2 hmem32) time mode version _
    (initBlocks_size password salt time memory threads keyLen mode version hthreads.1 hthreads.2 hmem32) i

/-! ## (3) every complete schedule -/

/-- `CompleteScheds`: one schedule per phase, each letting every lane finish its segment. -/
theorem completeScheds_def {lanes segments threads : Nat} (geo : Geom lanes segments threads)
    (mode version time memory : Nat) (scheds : List (List (Fin threads))) :
    CompleteScheds geo mode version time memory scheds ↔
      (scheds.length = 4 * time ∧
        ∀ ps ∈ (modelPhases geo mode version time memory).zip scheds, ps.1.Complete ps.2) := Iff.rfl

/-- a family indexed by (pass, slice) whose members are complete for their phase is complete -/
theorem completeScheds_of_family {lanes segments threads : Nat} (geo : Geom lanes segments threads)
    (mode version time memory : Nat) (sched : Nat → Fin 4 → List (Fin threads))
    (h : ∀ n, n < time → ∀ s : Fin 4,
      (argon2Phase geo (blockG version) (rndWord time memory mode n s.val) n s).Complete (sched n s)) :
    CompleteScheds geo mode version time memory (familyScheds time sched) :=
  Argon2SchedLink.completeScheds_of_family geo mode version time memory sched h

/-- The fill: for every memory with `m'` entries and EVERY family of complete schedules, running the
phases under those schedules gives the array computed by the model's `processBlocks`. -/
theorem fill_eq_any_complete_schedule {m' p q L : Nat} (geo : Geom q L p) (hm : m' = p * q) (t y v : Nat)
    (B : Array Block) (hB : B.size = m') (scheds : List (List (Fin p)))
    (hc : CompleteScheds geo y v t m' scheds) :
    runPhases geo y v t m' scheds B = processBlocks B t m' p y v :=
  runPhases_eq_processBlocks geo hm t y v B hB scheds hc

/-- **`key_eq_any_complete_schedule`.**  For all inputs in the domain of the Go function
(`1 ≤ threads ≤ 255`, `memory` a `uint32`; any mode, version, time, key length, password, salt), for
EVERY family of complete schedules of the lane goroutines (one per pass × slice phase): running the
phases under those schedules from `initBlocks` and then `extractKey` yields exactly
`Kdf.Argon2.key …`. -/
theorem key_eq_any_complete_schedule (mode version : Nat) (password salt : Bytes)
    (time memory threads keyLen : Nat)
    (hthreads : 1 ≤ threads ∧ threads ≤ 255) (hmem32 : memory < 2 ^ 32)
    (geo : Geom (modelMemory memory threads / threads) (modelMemory memory threads / threads / 4) threads)
    (scheds : List (List (Fin threads)))
    (hc : CompleteScheds geo mode version time (modelMemory memory threads) scheds) :
    extractKey
        (runPhases geo mode version time (modelMemory memory threads) scheds
          (initBlocks (initHash password salt time memory threads keyLen mode version)
            (modelMemory memory threads) threads))
        (modelMemory memory threads) threads keyLen
      = key mode version password salt time memory threads keyLen := by
  rw [key_pipeline, fill_eq_any_complete_schedule geo
    (modelMemory_mul memory threads hthreads.1 hthreads.2 hmem32) time mode version _
    (initBlocks_size password salt time memory threads keyLen mode version hthreads.1 hthreads.2 hmem32)
    scheds hc]

/-- Two families of complete schedules derive the same key. -/
theorem complete_schedules_same_key (mode version : Nat) (password salt : Bytes)
    (time memory threads keyLen : Nat)
    (hthreads : 1 ≤ threads ∧ threads ≤ 255) (hmem32 : memory < 2 ^ 32)
    (geo : Geom (modelMemory memory threads / threads) (modelMemory memory threads / threads / 4) threads)
    (scheds scheds' : List (List (Fin threads)))
    (hc : CompleteScheds geo mode version time (modelMemory memory threads) scheds)
    (hc' : CompleteScheds geo mode version time (modelMemory memory threads) scheds') :
    extractKey
        (runPhases geo mode version time (modelMemory memory threads) scheds
          (initBlocks (initHash password salt time memory threads keyLen mode version)
            (modelMemory memory threads) threads))
        (modelMemory memory threads) threads keyLen
      = extractKey
        (runPhases geo mode version time (modelMemory memory threads) scheds'
          (initBlocks (initHash password salt time memory threads keyLen mode version)
            (modelMemory memory threads) threads))
        (modelMemory memory threads) threads keyLen := by
  rw [key_eq_any_complete_schedule mode version password salt time memory threads keyLen hthreads hmem32 geo
      scheds hc,
    key_eq_any_complete_schedule mode version password salt time memory threads keyLen hthreads hmem32 geo
      scheds' hc']

/-- **C09**, in the words of the property: multi-lane Argon2 is schedule independent — for
Argon2d / Argon2i / Argon2id, versions 0x10 and 0x13, `1..255` lanes, memory `≥ 8 × lanes` KiB
(a `uint32`), for every interleaving of the lane goroutines within each slice (a complete schedule
per phase), the derived key equals the model's `key`, which is the sequential RFC 9106 evaluation. -/
theorem C09 (mode version : Nat) (password salt : Bytes) (time memory threads keyLen : Nat)
    (_hmode : mode = argon2d ∨ mode = argon2i ∨ mode = argon2id)
    (_hversion : version = version10 ∨ version = version13)
    (hthreads : 1 ≤ threads ∧ threads ≤ 255)
    (hmemory : 8 * threads ≤ memory) (hmem32 : memory < 2 ^ 32)
    (geo : Geom (modelMemory memory threads / threads) (modelMemory memory threads / threads / 4) threads)
    (scheds : List (List (Fin threads)))
    (hc : CompleteScheds geo mode version time (modelMemory memory threads) scheds) :
    extractKey
        (runPhases geo mode version time (modelMemory memory threads) scheds
          (initBlocks (initHash password salt time memory threads keyLen mode version)
            (modelMemory memory threads) threads))
        (modelMemory memory threads) threads keyLen
      = Spec.Argon2Rfc.argon2 mode version password salt threads keyLen memory time := by
  rw [key_eq_any_complete_schedule mode version password salt time memory threads keyLen hthreads hmem32 geo
    scheds hc]
  exact C04.key_eq_rfc mode version password salt threads keyLen memory time hthreads.1 hthreads.2 hmemory
    hmem32

/-! ## (4) non-vacuity -/

/-- the geometry hypotheses are satisfiable: the concrete shapes of `Key(…, memory = 16, threads = 2)`
and of the largest call -/
example : modelMemory 16 2 = 16 ∧ modelMemory 16 2 / 2 = 8 ∧ modelMemory 16 2 / 2 / 4 = 2 := by decide
example : Geom (modelMemory 16 2 / 2) (modelMemory 16 2 / 2 / 4) 2 :=
  model_geom 16 2 (by decide) (by decide)
example : Geom 8 2 2 := ⟨by decide, by decide, by decide, by decide⟩
example : Geom (modelMemory 4294967295 255 / 255) (modelMemory 4294967295 255 / 255 / 4) 255 :=
  model_geom 4294967295 255 (by decide) (by decide)
/-- also when the requested memory is below `8·threads` (it is rounded up) -/
example : modelMemory 3 2 = 16 := by decide

/-- the lane goroutines really have steps: `segments - 2` in phase (0, 0), `segments` otherwise -/
example (mode version time memory n : Nat) (s : Fin 4) (l : Fin 2) (geo : Geom 8 2 2) :
    ((argon2Phase geo (blockG version) (rndWord time memory mode n s.val) n s).tasks l).length
      = 2 - startIndex n s.val := by
  show (argon2Tasks 8 2 2 _ _ n s.val l.val).length = _
  simp [argon2Tasks]

/-- lane after lane, and strictly alternating starting with lane 1 -/
def schedA : Nat → Fin 4 → List (Fin 2) := fun _ _ => [0, 0, 1, 1]
def schedB : Nat → Fin 4 → List (Fin 2) := fun _ _ => [1, 0, 1, 0]

theorem schedA_complete (mode version : Nat)
    (geo : Geom (modelMemory 16 2 / 2) (modelMemory 16 2 / 2 / 4) 2) :
    CompleteScheds geo mode version 1 (modelMemory 16 2) (familyScheds 1 schedA) :=
  completeScheds_of_family geo mode version 1 _ schedA fun n _ s =>
    phase_complete_of_count geo _ _ n s _
      (show ∀ l : Fin 2, modelMemory 16 2 / 2 / 4 ≤ List.count l [0, 0, 1, 1] by decide)

theorem schedB_complete (mode version : Nat)
    (geo : Geom (modelMemory 16 2 / 2) (modelMemory 16 2 / 2 / 4) 2) :
    CompleteScheds geo mode version 1 (modelMemory 16 2) (familyScheds 1 schedB) :=
  completeScheds_of_family geo mode version 1 _ schedB fun n _ s =>
    phase_complete_of_count geo _ _ n s _
      (show ∀ l : Fin 2, modelMemory 16 2 / 2 / 4 ≤ List.count l [1, 0, 1, 0] by decide)

/-- `p = 2`, `m = 16`, `t = 1` (Argon2id, version 0x13): two DIFFERENT families of complete schedules,
and — by the theorem — the same key, namely `key …` = the RFC value, for every password, salt and
key length. -/
example (password salt : Bytes) (keyLen : Nat) :
    let geo := model_geom 16 2 (by decide) (by decide)
    let B0 := initBlocks (initHash password salt 1 16 2 keyLen argon2id version13) (modelMemory 16 2) 2
    familyScheds 1 schedA ≠ familyScheds 1 schedB ∧
    extractKey (runPhases geo argon2id version13 1 (modelMemory 16 2) (familyScheds 1 schedA) B0)
        (modelMemory 16 2) 2 keyLen
      = extractKey (runPhases geo argon2id version13 1 (modelMemory 16 2) (familyScheds 1 schedB) B0)
        (modelMemory 16 2) 2 keyLen ∧
    extractKey (runPhases geo argon2id version13 1 (modelMemory 16 2) (familyScheds 1 schedB) B0)
        (modelMemory 16 2) 2 keyLen
      = Spec.Argon2Rfc.argon2 argon2id version13 password salt 2 keyLen 16 1 := by
  intro geo B0
  refine ⟨by decide, ?_, ?_⟩
  · exact complete_schedules_same_key argon2id version13 password salt 1 16 2 keyLen (by decide) (by decide)
      geo _ _ (schedA_complete _ _ geo) (schedB_complete _ _ geo)
  · exact C09 argon2id version13 password salt 1 16 2 keyLen (Or.inr (Or.inr rfl)) (Or.inr rfl)
      (by decide) (by decide) (by decide) geo _ (schedB_complete _ _ geo)

/-- an INCOMPLETE schedule is not covered (and is excluded by the hypothesis): lane 1 never runs -/
example (geo : Geom 8 2 2) (mode version time memory : Nat) :
    ¬ (argon2Phase geo (blockG version) (rndWord time memory mode 0 1) 0 1).Complete [0, 0, 0, 0] := by
  intro h
  have h1 := h 1
  have : ((argon2Phase geo (blockG version) (rndWord time memory mode 0 1) 0 1).tasks 1).length = 2 := by
    show (argon2Tasks 8 2 2 _ _ 0 1 1).length = _
    simp [argon2Tasks, startIndex]
  rw [this] at h1
  revert h1
  decide

/-! compiled evaluation (`#guard`): `runPhases` really runs the interleaving — under the alternating
schedules it returns the key of the sequential model, and under an INCOMPLETE family (lane 1 never
runs in the last phase) it does not, so the completeness hypothesis is not idle. -/

theorem geo16 : Geom (modelMemory 16 2 / 2) (modelMemory 16 2 / 2 / 4) 2 := model_geom 16 2 (by decide) (by decide)

#guard
  let B0 := initBlocks (initHash [1, 2, 3] [1, 2, 3, 4, 5, 6, 7, 8] 1 16 2 32 2 0x13) (modelMemory 16 2) 2
  extractKey (runPhases geo16 2 0x13 1 (modelMemory 16 2) (familyScheds 1 schedB) B0) (modelMemory 16 2) 2 32
    == key 2 0x13 [1, 2, 3] [1, 2, 3, 4, 5, 6, 7, 8] 1 16 2 32
#guard
  let B0 := initBlocks (initHash [1, 2, 3] [1, 2, 3, 4, 5, 6, 7, 8] 2 16 2 32 0 0x10) (modelMemory 16 2) 2
  extractKey (runPhases geo16 0 0x10 2 (modelMemory 16 2) (familyScheds 2 schedB) B0) (modelMemory 16 2) 2 32
    == key 0 0x10 [1, 2, 3] [1, 2, 3, 4, 5, 6, 7, 8] 2 16 2 32
#guard
  let B0 := initBlocks (initHash [1, 2, 3] [1, 2, 3, 4, 5, 6, 7, 8] 1 16 2 32 2 0x13) (modelMemory 16 2) 2
  extractKey (runPhases geo16 2 0x13 1 (modelMemory 16 2)
      (familyScheds 1 fun _ s => if s = 3 then [0, 0, 0, 0] else [1, 0, 1, 0]) B0) (modelMemory 16 2) 2 32
    != key 2 0x13 [1, 2, 3] [1, 2, 3, 4, 5, 6, 7, 8] 1 16 2 32

#print axioms blockG_def
#print axioms rndWord_def
#print axioms addrBlock_def
#print axioms addrBlock_eq_rfc
#print axioms modelPhases_def
#print axioms memOf_def
#print axioms arrOf_memOf
#print axioms runPhases_def
#print axioms key_pipeline
#print axioms model_geom
#print axioms processSegment_is_task
#print axioms model_fill_eq_seqFill
#print axioms key_fill_eq_seqFill
#print axioms completeScheds_def
#print axioms completeScheds_of_family
#print axioms fill_eq_any_complete_schedule
#print axioms key_eq_any_complete_schedule
#print axioms complete_schedules_same_key
#print axioms C09
#print axioms schedA_complete
#print axioms schedB_complete

end GoCrypt.C09Link
