import GoCrypt.Proofs.TiWfMain
import GoCrypt.Props.C10General
import GoCrypt.Gen.Shapes

/-!
# `tiWf` discharged: every `TypeInfo` that `getTypeInfo` builds is well-formed

Property theorems only; the proofs are in `Proofs/TiWfRaw.lean` (the raw field list: `getRawTypeInfo`),
`Proofs/TiWfNorm.lean` (the invariant of `typeInfo.normalize`) and `Proofs/TiWfMain.lean`.

The general codec theorems of `Props/C10General.lean` assume `tiWf ti`. The only `TypeInfo`s that exist at
run time are the values of `typeInfoOf structs root` (the model of `getTypeInfo`). Result:

* `typeInfoOf_tiWf_iff` — for EVERY struct description, `typeInfoOf structs root = .ok ti` implies
  `tiWf ti ↔ kindsOk ti`, where `kindsOk` is the part of `tiWf` that speaks about the Go TYPES of the fields
  (`codecOk` of every field; the `HashPrefix` field is a plain `string`). Every other clause of `tiWf` —
  valid tag combinations, `inline ⇒ hasLength`, base in `2..36`, no prefix among `ti.fields`, a prefix
  field without name and not inline, distinct index paths, distinct parameter names,
  `numReqValues = reqCount` — is established by `getTypeInfo` itself.
* NO side condition on the struct description is needed for those clauses. In particular not
  - "field names within one struct are distinct" (Go guarantees it, but index paths are POSITIONS —
    `t.Field(i)` — so nothing depends on it; `dupNames_ok`),
  - "embedding depth ≤ the model's fuel 8" (running out of fuel drops fields, which cannot break `tiWf`;
    it matters for the FAITHFULNESS of the model only; `deep_ok`),
  - "no two `HashPrefix` fields" (the last one wins in `normalize`; `twoPrefixes_ok`).
* The one side condition, `supported structs root` (or, field by field, `structsSupported structs`), is
  "the field types are supported": NOT guaranteed by Go — `getTypeInfo` never inspects field types, a
  `float64` field or a `HashPrefix int` is accepted and fails later, in `Marshal`/`Unmarshal` — but it IS a
  decidable property of the struct description, it is part of `tiWf` by design ("the field kinds / text
  codecs the model supports"), and it holds of all ten shipped scheme structs (`shipped_supported`).
  Both of its clauses are necessary: `needs_supported_kind`, `needs_supported_prefix`.

No gap was found: no clause of `tiWf` other than the supported-types clause can fail on a `TypeInfo`
built by (the repaired) `getTypeInfo`.

Corollaries `roundtrip_of_typeInfoOf` / `accepted_respell_of_typeInfoOf`: the general round trip and the
general converse with `tiWf ti` replaced by `typeInfoOf structs root = .ok ti ∧ supported structs root`.
-/

namespace GoCrypt.TiWf
open Bytes GoCrypt.Parse GoCrypt.Codec GoCrypt.Codec.Layers GoCrypt.CodecDomain
open GoCrypt.Codec.TiWf (kindsOk prefixKindOk rawOk supported structsSupported goFieldOk)

/-- THE CHARACTERISATION, no hypothesis on the struct description: on the `TypeInfo`s `getTypeInfo`
builds, `tiWf` holds exactly when the field types are supported (`kindsOk ti`: `codecOk` of every field of
`ti.fields`, and the prefix field — if any — is a plain `string` without `MarshalText`, `UnmarshalText`
absent or a whitelist). -/
theorem typeInfoOf_tiWf_iff (structs : List GoStruct) (root : String) (ti : TypeInfo)
    (h : typeInfoOf structs root = .ok ti) : tiWf ti = true ↔ kindsOk ti = true :=
  Codec.TiWf.typeInfoOf_tiWf_iff structs root ti h

/-- `tiWf` of what `getTypeInfo` builds, under the side condition on the struct description:
`supported structs root` = every field `getRawTypeInfo` collects for `root` (`rawFields structs 8 s`) has a
supported type (`rawOk`: the `HashPrefix` field is a plain string, any other field has a supported kind /
text codec). -/
theorem typeInfoOf_tiWf (structs : List GoStruct) (root : String) (ti : TypeInfo)
    (h : typeInfoOf structs root = .ok ti) (hs : supported structs root = true) : tiWf ti = true :=
  Codec.TiWf.typeInfoOf_tiWf structs root ti h hs

/-- The side condition field by field, independent of `root`: every field of every struct of the
description is skipped (unexported and not embedded, or `hash:"-"`), or an embedded struct of the
description, or has a supported type. -/
theorem supported_of_structsSupported (structs : List GoStruct) (root : String)
    (h : structsSupported structs = true) : supported structs root = true :=
  Codec.TiWf.supported_of_structsSupported structs root h

theorem typeInfoOf_tiWf' (structs : List GoStruct) (root : String) (ti : TypeInfo)
    (h : typeInfoOf structs root = .ok ti) (hs : structsSupported structs = true) : tiWf ti = true :=
  typeInfoOf_tiWf structs root ti h (supported_of_structsSupported structs root hs)

/-- What `getTypeInfo` establishes by itself, spelled out (no hypothesis on `structs`): the clauses of
`tiWf` that do not speak about field types. -/
theorem typeInfoOf_core (structs : List GoStruct) (root : String) (ti : TypeInfo)
    (h : typeInfoOf structs root = .ok ti) :
    (∀ f ∈ ti.fields, validOpts f.opts = true ∧ f.opts.isPrefix = false ∧
      (f.opts.inline = true → f.opts.hasLength = true) ∧ baseOk f = true) ∧
    (∀ hp, ti.hashPrefix = some hp → hp.opts.isPrefix = true ∧ hp.opts.param = [] ∧ hp.opts.inline = false) ∧
    ((ti.hashPrefix.toList ++ ti.fields).map (·.index)).Nodup ∧
    (paramNames ti.fields).Nodup ∧
    ti.numReqValues = reqCount ti.fields := by
  obtain ⟨all, -, hv, hi, hnd, F⟩ := Codec.TiWf.typeInfoOf_final structs root ti h
  refine ⟨fun f hf => ?_, fun hp hhp => ?_, ?_, F.names, F.numReq⟩
  · obtain ⟨hfa, hfp⟩ := F.mem f hf
    have hvf := hv f hfa
    refine ⟨hvf, hfp, fun hin => ?_, ?_⟩
    · simp only [validOpts, hin, Bool.and_eq_true, Bool.or_eq_true, decide_eq_true_eq,
        Bool.not_true, Bool.false_eq_true, false_or] at hvf
      exact (hi f hfa).len hvf.2.2
    · simp only [baseOk, Bool.and_eq_true, decide_eq_true_eq]
      exact ⟨(hi f hfa).base_lo, (hi f hfa).base_hi⟩
  · obtain ⟨hpa, hpp⟩ := F.pfx hp hhp
    have hvp := hv hp hpa
    simp only [validOpts, hpp, Bool.and_eq_true, Bool.or_eq_true, decide_eq_true_eq,
      Bool.not_true, Bool.false_eq_true, or_false, false_and, Bool.not_eq_eq_eq_not] at hvp
    exact ⟨hpp, hvp.1.2, hvp.2⟩
  · cases hhp : ti.hashPrefix with
    | none => simpa using F.idx
    | some hp =>
      obtain ⟨hpall, hpp⟩ := F.pfx hp hhp
      simp only [Option.toList_some, List.cons_append, List.nil_append, List.map_cons, List.nodup_cons]
      refine ⟨fun hm => ?_, F.idx⟩
      obtain ⟨g, hg, hgi⟩ := List.mem_map.1 hm
      obtain ⟨hgall, hgp⟩ := F.mem g hg
      have : g = hp := Codec.TiWf.index_inj hnd g hgall hp hpall hgi
      subst this
      rw [hgp] at hpp
      cases hpp

/-! ## The side condition holds of the shipped structs, and is necessary -/

/-- All ten shipped scheme packages: every field of every struct has a supported type. -/
theorem shipped_supported :
    structsSupported Gen.md5.structs = true ∧ structsSupported Gen.sha1.structs = true ∧
    structsSupported Gen.nthash.structs = true ∧ structsSupported Gen.sha256.structs = true ∧
    structsSupported Gen.sha512.structs = true ∧ structsSupported Gen.des.structs = true ∧
    structsSupported Gen.desext.structs = true ∧ structsSupported Gen.bcrypt.structs = true ∧
    structsSupported Gen.sunmd5.structs = true ∧ structsSupported Gen.argon2.structs = true := by
  decide +kernel

private def gf (name : String) (kind : GoKind) (tag : Bytes) : GoField :=
  { name := name, exported := true, anonymous := false, ptrDepth := 0, kind := kind, typeName := "",
    tag := tag, marshalText := .none, unmarshalText := .none }

private def emb (name : String) : GoField :=
  { name := name, exported := true, anonymous := true, ptrDepth := 0, kind := .structRef name, typeName := name,
    tag := [], marshalText := .none, unmarshalText := .none }

/-- Necessity of the first clause of `supported` (a supported kind for every field): `getTypeInfo`
accepts `struct{ X float64 }`, and the `TypeInfo` it builds is not `tiWf`. -/
theorem needs_supported_kind :
    ∃ ti, typeInfoOf [{ name := "T", fields := [gf "X" (.other "float64") []] }] "T" = .ok ti ∧
      tiWf ti = false ∧ supported [{ name := "T", fields := [gf "X" (.other "float64") []] }] "T" = false := by
  refine ⟨_, rfl, ?_⟩
  decide

/-- Necessity of the second clause (the prefix field is a plain string): `getTypeInfo` accepts
`struct{ HashPrefix int; X string }`, and the `TypeInfo` it builds is not `tiWf`. -/
theorem needs_supported_prefix :
    ∃ ti, typeInfoOf [{ name := "T", fields := [gf "HashPrefix" (.int 64) [], gf "X" .string []] }] "T" = .ok ti ∧
      ti.fields.all codecOk = true ∧ tiWf ti = false ∧
      supported [{ name := "T", fields := [gf "HashPrefix" (.int 64) [], gf "X" .string []] }] "T" = false := by
  refine ⟨_, rfl, ?_⟩
  decide

/-- `supported` is a condition on ALL collected fields, so it is sufficient, not necessary: a shadowed
field of unsupported type is dropped by `normalize` (`struct{ Inner{A float64 param:a}; A uint8 param:a }`).
The exact condition is `kindsOk ti` (`typeInfoOf_tiWf_iff`). -/
example : ∃ ti, typeInfoOf
      [{ name := "Inner", fields := [gf "A" (.other "float64") [112, 97, 114, 97, 109, 58, 97]] },
       { name := "T", fields := [emb "Inner", gf "A" (.uint 8) [112, 97, 114, 97, 109, 58, 97]] }] "T" = .ok ti ∧
    tiWf ti = true ∧
    supported [{ name := "Inner", fields := [gf "A" (.other "float64") [112, 97, 114, 97, 109, 58, 97]] },
       { name := "T", fields := [emb "Inner", gf "A" (.uint 8) [112, 97, 114, 97, 109, 58, 97]] }] "T" = false := by
  refine ⟨_, rfl, ?_⟩
  decide

/-! ## Conditions that are NOT needed (instances of the general theorem, for illustration) -/

/-- Two fields with the same name in one struct (impossible in Go): index paths are positions. -/
theorem dupNames_ok : ∃ ti, typeInfoOf [{ name := "T", fields := [gf "A" .string [], gf "A" .string []] }] "T" = .ok ti ∧
    ti.fields.map (·.index) = [[0], [1]] ∧ tiWf ti = true := by
  refine ⟨_, rfl, ?_⟩
  decide

private def chain : Nat → List GoStruct
  | 0 => [{ name := "S0", fields := [gf "X" .string []] }]
  | n + 1 => { name := s!"S{n + 1}", fields := [emb s!"S{n}", gf "Y" .string []] } :: chain n

/-- Embedding deeper than the model's fuel (`S9` embeds `S8` embeds … `S0`): the model drops the fields
below depth 8 — it is no longer faithful to the Go code there — but what it returns is still `tiWf`, as
`typeInfoOf_tiWf` says without any depth hypothesis. -/
theorem deep_ok : ∃ ti, typeInfoOf (chain 9) "S9" = .ok ti ∧ ti.fields.length = 8 ∧ tiWf ti = true :=
  match h : typeInfoOf (chain 9) "S9" with
  | .ok ti => ⟨ti, rfl, by
      have h8 : (typeInfoOf (chain 9) "S9").toOption.map (·.fields.length) = some 8 := by decide +kernel
      rw [h] at h8
      simpa [Except.toOption] using h8,
      typeInfoOf_tiWf' (chain 9) "S9" ti h (by decide +kernel)⟩
  | .error e => by
      have : (typeInfoOf (chain 9) "S9").toOption.isSome = true := by decide +kernel
      rw [h] at this
      cases this

/-- Two `HashPrefix` fields (one through embedding): the last one met wins, the result is `tiWf`. -/
theorem twoPrefixes_ok : ∃ ti, typeInfoOf
      [{ name := "Inner", fields := [gf "HashPrefix" .string []] },
       { name := "T", fields := [gf "HashPrefix" .string [], emb "Inner", gf "X" .string []] }] "T" = .ok ti ∧
    ti.hashPrefix.map (·.index) = some [1, 0] ∧ tiWf ti = true := by
  refine ⟨_, rfl, ?_⟩
  decide

/-! ## The general theorems on the types `getTypeInfo` builds -/

/-- `C10General.roundtrip_general` with `tiWf ti` replaced by "`ti` is what `getTypeInfo` builds for a
struct description with supported field types". -/
theorem roundtrip_of_typeInfoOf (structs : List GoStruct) (root : String) (ti : TypeInfo) (vals : Vals) (s : Bytes)
    (hti : typeInfoOf structs root = .ok ti) (hsup : supported structs root = true)
    (hu : unambiguous ti = true) (hgs : groupsSeparated ti.fields = true)
    (ht : Layers.typed ti vals = true) (hr : representable ti vals = true)
    (hl : lastTextOk vals ti.fields = true) (hns : noSteal vals ti.fields = true)
    (hm : marshal ti vals = .ok s) :
    ∃ out, unmarshal ti s = .ok out ∧ finalVals ti out = canonVals ti vals :=
  C10General.roundtrip_general ti vals s (typeInfoOf_tiWf structs root ti hti hsup) hu hgs ht hr hl hns hm

open GoCrypt.Respell in
/-- The general converse (`C10General.accepted_respell_all`, in its form on the ladder
`accepted_respell_L6`) with `tiWf ti` replaced in the same way. As in `accepted_respell_all`, neither
`groupsSeparated` nor `noSteal` nor any assumption on `numReqValues` is needed; `Accepts8.extraOk`
(consistent `length:` options, optional fields with an explicit-zero spelling) is not implied by
`getTypeInfo` (`C10General.needs_intNoLength`, `needs_arrayLength`, `needs_desIntLength`, `needs_optOk`). -/
theorem accepted_respell_of_typeInfoOf (structs : List GoStruct) (root : String) (ti : TypeInfo) (h : Bytes)
    (out : Vals) (hti : typeInfoOf structs root = .ok ti) (hsup : supported structs root = true)
    (hu : unambiguous ti = true) (hx : Accepts8.extraOk ti = true) (hun : unmarshal ti h = .ok out) :
    respell ti (finalVals ti out) h = true :=
  C10General.accepted_respell_all ti h out
    (Codec.TiWf.acceptOk_of_tiWf ti (typeInfoOf_tiWf structs root ti hti hsup) hu hx) hun

private def cStructs : List GoStruct :=
  [{ name := "Inner", fields := [gf "A" (.uint 8) [112, 97, 114, 97, 109, 58, 97]] },
   { name := "T", fields := [emb "Inner", gf "A" (.uint 8) [112, 97, 114, 97, 109, 58, 97],
      gf "R" (.uint 8) [112, 97, 114, 97, 109, 58, 114, 44, 111, 109, 105, 116, 101, 109, 112, 116, 121],
      gf "X" .string []] }]

/-- Non-vacuity: the type of finding C (`Props/C10General.lean`), through `typeInfoOf`: `a=1$r=5$x`. -/
example : ∃ ti, typeInfoOf cStructs "T" = .ok ti ∧ ∃ out,
    unmarshal ti [97, 61, 49, 36, 114, 61, 53, 36, 120] = .ok out ∧
    finalVals ti out = canonVals ti [([1], .uint 1), ([2], .uint 5), ([3], .str [120])] := by
  refine ⟨_, rfl, ?_⟩
  exact roundtrip_of_typeInfoOf cStructs "T" _ [([1], .uint 1), ([2], .uint 5), ([3], .str [120])] _ rfl
    (by decide) (by decide) (by decide) (by decide) (by decide) (by decide) (by decide) (by decide)

/-- … and `a=01$r=5$x$` (a leading zero, a trailing `$`) is accepted and is a respelling. -/
example : ∃ ti out, typeInfoOf cStructs "T" = .ok ti ∧
    unmarshal ti [97, 61, 48, 49, 36, 114, 61, 53, 36, 120, 36] = .ok out ∧
    GoCrypt.Respell.respell ti (finalVals ti out) [97, 61, 48, 49, 36, 114, 61, 53, 36, 120, 36] = true := by
  refine ⟨_, [([1], .uint 1), ([2], .uint 5), ([3], .str [120])], rfl, ?_⟩
  refine (fun hu => ⟨hu, accepted_respell_of_typeInfoOf cStructs "T" _ _ _ rfl (by decide) (by decide) (by decide) hu⟩) ?_
  decide

#print axioms typeInfoOf_tiWf_iff
#print axioms typeInfoOf_tiWf
#print axioms supported_of_structsSupported
#print axioms typeInfoOf_tiWf'
#print axioms typeInfoOf_core
#print axioms shipped_supported
#print axioms needs_supported_kind
#print axioms needs_supported_prefix
#print axioms dupNames_ok
#print axioms deep_ok
#print axioms twoPrefixes_ok
#print axioms roundtrip_of_typeInfoOf
#print axioms accepted_respell_of_typeInfoOf

end GoCrypt.TiWf
