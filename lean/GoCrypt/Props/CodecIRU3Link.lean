import GoCrypt.Props.CodecIRU3
import GoCrypt.Props.CodecIRLink
import GoCrypt.Proofs.CodecIRUParseExt

/-!
# `Unmarshal` with the regenerated `getTypeInfo` and the model parser behind it

`Props/CodecIRU3.lean` assumes `GetTypeInfoOk` ("the external `getTypeInfo(t)` returns a record representing `ti`") and `ParseOkAt`
("the external `parse.Parse(hash)` builds the model's tree in fresh nodes").  Here the external functions are fixed (`extU`):
`getTypeInfo` := the REGENERATED type-info program (`Gen/TypeInfoIR.lean`, function 4, cold cache; `Props/CodecIRLink.lean`),
`parse.Parse` := the model parser writing its nodes into the memory (`Examples.parseExt`), `indirectType` and `(fieldInfo).String` as in the
examples.  `IndirectTypeOk`, `FieldStringOk` and `GetTypeInfoOk` are then THEOREMS, and `Unmarshal` is compared with
`Codec.unmarshal (typeInfoOf structs n)`.
-/

namespace GoCrypt.CodecIRU
open GoCrypt.Codec GoCrypt.Gen.codecIR GoCrypt.CIR
open GoCrypt.TIIR (RType Res fiType fiObj tiObj)

/-- The external functions of an `Unmarshal` run. -/
def extU (tw : TIIR.World) (depth : Nat) : String → Mem → List Val → Res (Mem × List Val)
  | name, m, args =>
    if name = "parse.Parse" then (match args with | [.str h] => Examples.parseExt m h | _ => .stuck "parse.Parse")
    else if name = "indirectType" then
      (match args with | [.rtype t] => .ok (m, [.rtype { t with depth := 0 }]) | _ => .stuck "indirectType")
    else if name = "fieldInfo.String" then (match args with | [.ptr a] => Examples.fieldStringExt m a | _ => .stuck "fieldInfo.String")
    else CodecIR.extOfTypeInfo tw depth name m args

theorem extU_parse (tw : TIIR.World) (depth : Nat) (m : Mem) (h : Bytes) :
    extU tw depth "parse.Parse" m [.str h] = Examples.parseExt m h := rfl

theorem indirectTypeOk_extU (tw : TIIR.World) (depth : Nat) : IndirectTypeOk (extU tw depth) := fun _ _ => rfl

theorem fieldStringOk_extU (tw : TIIR.World) (depth : Nat) : FieldStringOk (extU tw depth) := by
  intro m a fi ha
  show Examples.fieldStringExt m a = _
  unfold Examples.fieldStringExt
  rw [ha]
  simp only [fiObj, TIIR.optsVals, List.getElem?_cons_succ, List.getElem?_cons_zero, fieldKindName]

/-- **`ParseOkAt` holds for the model parser as the external `parse.Parse`**, for every hash shorter than the bound. -/
theorem parseOkAt_extU (tw : TIIR.World) (depth : Nat) (F : Nat) (m : Mem) (hash : Bytes) (hF : hash.length < F) :
    ParseOkAt (extU tw depth) F m hash :=
  parseOkAt_parseExt (extU tw depth) (fun _ _ => rfl) F m hash hF

theorem getTypeInfoOk_extU (tw : TIIR.World) (depth : Nat) (m : Mem) (t : RType) (ti : TypeInfo)
    (h : TIIR.Top.ColdPost t (.ok ti) (TIIR.callIn GoCrypt.Gen.typeinfoIR.program tw depth 4 m.heap [.rtype t])) :
    GetTypeInfoOk (extU tw depth) m t ti :=
  CodecIR.getTypeInfoOk_of_coldPost tw depth m t ti h

/-- **`Unmarshal` = `Codec.unmarshal (typeInfoOf structs n)`** for EVERY description (grouped params included), with NO assumption about
`getTypeInfo`, `indirectType`, `(fieldInfo).String` (they are the regenerated type-info program under any sorted-permutation behaviour of
`sort.Slice`, cold cache, and the two example functions): domain of `getTypeInfo_cold_eq_typeInfoOf_exact` + the domain of
`unmarshal_eq_model`.  `ParseOkAt` is a THEOREM here as well (`parseOkAt_extU`: `parse.Parse` is `Examples.parseExt`, the model parser
writing fresh nodes), for every hash shorter than the loop bound. -/
theorem unmarshal_eq_model_typeInfoOf (w : World) (tw : TIIR.World) (hgood : TIIR.Field.GoodSort tw.sort) (depth : Nat)
    (hext : w.ext = extU tw depth) (hst : tw.structs = w.structs)
    (hidx : IndexAnyInvalidSpec w.indexAnyInvalid) (hut : UnmarshalTextSpec w.unmarshalText) (d : Nat)
    (hash : Bytes) (t : RType) (n : String) (s : GoStruct)
    (hk : t.kind = .structRef n) (hl : Codec.lookupStruct tw.structs n = some s)
    (hfit : TIIR.fitsFuel tw.structs 8 s = true) (hemb : TIIR.Top.EmbedPtrOk tw.structs)
    (hdepth : 18 < depth) (ht : t.depth < tw.fuel) (h8 : 8 < tw.fuel)
    (hsz : ∀ s' ∈ tw.structs, s'.fields.length < tw.fuel ∧ ∀ f ∈ s'.fields, f.ptrDepth < tw.fuel ∧ f.tag.length < tw.fuel)
    (hlen : (rawFields tw.structs 8 s).length < tw.fuel)
    (hd : 0 < t.depth) (hdf : t.depth < w.fuel) (m : Mem) (ti : TypeInfo) (hti : typeInfoOf w.structs n = .ok ti)
    (hF : hash.length < w.fuel)
    (hok : ∀ fi ∈ allFields ti, FieldOkW w { t with depth := 0 } fi)
    (hnd : ((allFields ti).map (·.index)).Nodup)
    (hzero : ZeroDest m ti)
    (hpinl : ∀ hp, ti.hashPrefix = some hp → (hp.opts.hasLength && hp.opts.inline) = false)
    (hlenf : ti.fields.length < w.fuel) :
    match Codec.unmarshal ti hash with
    | .error e => ∃ m' v heap', callIn program w (d + 3) 5 m [.str hash, .dptr t] = .ok (m', [v]) ∧ absErrU heap' v = some e
    | .ok out => ∃ m', callIn program w (d + 3) 5 m [.str hash, .dptr t] = .ok (m', [.nil]) ∧ HoldsFinal m' ti out := by
  have hparse : ParseOkAt w.ext w.fuel m hash := hext ▸ parseOkAt_extU tw depth w.fuel m hash hF
  have hit : IndirectTypeOk w.ext := hext ▸ indirectTypeOk_extU tw depth
  have hfs : FieldStringOk w.ext := hext ▸ fieldStringOk_extU tw depth
  have hget : ∀ m1 : Mem, m1.heap = m.heap → GetTypeInfoOk w.ext m1 t ti := by
    intro m1 _
    rw [hext]
    apply getTypeInfoOk_extU
    have hcold := TypeInfoIR.getTypeInfo_cold_eq_typeInfoOf_exact tw hgood depth m1.heap t n s hk hl hfit hemb hdepth ht h8 hsz hlen
    rw [hst, hti] at hcold
    exact hcold
  exact unmarshal_eq_model w hidx hit hut hfs d hash t n hk hd hdf m ti hparse hget hok hnd hzero hpinl hlenf

#print axioms unmarshal_eq_model_typeInfoOf
#print axioms parseOkAt_extU
#print axioms indirectTypeOk_extU
#print axioms fieldStringOk_extU
#print axioms getTypeInfoOk_extU

end GoCrypt.CodecIRU
