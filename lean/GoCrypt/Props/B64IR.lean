import GoCrypt.Proofs.B64IRTop

/-!
# The hand-written base64le model is what the Go source computes (buffer IR)

`gogen` (b64ir.go) re-translates the BODIES of `(*Encoding).Encode`, `EncodeToString`, `EncodedLen`,
`DecodeString`, `Decode`, `decodeQuantum`, `assemble32`, `assemble64` and `DecodedLen` of
`hash/base64le/base64le.go` — loops, `switch`/`fallthrough`, `break`/`continue`, early `return`s,
slicing, `binary.BigEndian.PutUint64/32`, wrap-around of `int`/`uint`/`byte` arithmetic — into the
small structured programs of `Gen/B64IR.lean` on every run; `Base/B64IRBase.lean` interprets such
programs over a heap of byte buffers (slices are windows of a buffer, so `dst[n:]` aliases `dst`).
The theorems below state that interpreting the regenerated programs gives exactly the hand-written
model of `Model/Base64LE.lean` (the one `Props/C16*.lean` speak about) — for every encoding with a
64-entry alphabet, every input, panics included; the interpreter's third outcome `stuck` (unknown
node, exhausted loop bound, type confusion …) never equals either side. Property theorems only; the
lemmas are in `Proofs/B64IR*.lean`.

How the model's `Encoding` reaches the programs: `encVal e` is the Go struct
`{encode: alphabet, decodeMap: the 256-entry table of decodeMapOf, padChar: -1 or the byte, strict}`.
Buffers live in a heap `h`; `dst` is buffer number `d`, `src` buffer number `s`, `d ≠ s` (no aliasing
of source and destination). Lengths are below `2^62` (a Go slice cannot be longer), which keeps
`int` arithmetic away from wrap-around.

DOMAIN NOTES (differences between the Go functions and what the hand model can express; inside the
model's domain the two agree everywhere):
* `EncodedLen(n)`/`DecodedLen(n)` take a Go `int`. The regenerated programs wrap at 64 bits as Go does;
  the model computes in `Nat`. They agree for `n*8+5 < 2^63` (resp. `n*6 < 2^63`); beyond that
  the exported Go function returns a wrapped value (`EncodedLen(1<<61) = 0` without padding, see the
  `#guard` below). No slice is that long, so `Encode`/`Decode` are unaffected.
* The model's `pad : Option UInt8` covers `NoPadding` and the runes `0 … 255`. `WithPadding` also accepts
  NEGATIVE runes other than `-1`; for those the Go code pads with `byte(padChar)` and never accepts
  padding when decoding. The programs handle that (`padChar` is an `Int` field), the model cannot state it.
-/

namespace GoCrypt.B64IR
open GoCrypt.Base64LE GoCrypt.Gen.base64leIR GoCrypt.Gen.base64le

/-! ## Lengths -/

/-- `enc.EncodedLen(n)` as regenerated from the Go source is the model's `encodedLen` (the generated
kernel `EncodedLen` at `noPad := e.pad.isNone`), as long as the `int` arithmetic does not wrap. -/
theorem encodedLen_ir_eq_model (e : Encoding) (h : Heap) (n : Nat) (hn : n * 8 + 5 < 2 ^ 63) :
    interp program "Encoding.EncodedLen" h [encVal e, .int n] = .ok (h, [.int (encodedLen e n)]) := by
  rw [interp_eq program _ _ h _ lookup_el rfl]
  exact encodedLen_proc _ e h n hn

/-- `enc.DecodedLen(n)` -/
theorem decodedLen_ir_eq_model (e : Encoding) (h : Heap) (n : Nat) (hn : n * 6 < 2 ^ 63) :
    interp program "Encoding.DecodedLen" h [encVal e, .int n] = .ok (h, [.int (decodedLen e n)]) := by
  rw [interp_eq program _ _ h _ lookup_dl rfl]
  exact decodedLen_proc _ e h n hn

/-! ## `assemble32` / `assemble64` -/

/-- `assemble32(n1, n2, n3, n4)` as regenerated (statements and wrap-around included) is the generated
expression kernel `Gen.base64le.assemble32` the model uses: value and `ok` flag. -/
theorem assemble32_ir_eq_model (h : Heap) (n1 n2 n3 n4 : Nat) :
    interp program "assemble32" h [.int n1, .int n2, .int n3, .int n4] =
      .ok (h, [.int (assemble32 n1 n2 n3 n4).1, .bool (assemble32 n1 n2 n3 n4).2]) := by
  rw [interp_eq program _ _ h _ lookup_a32 rfl]
  exact assemble32_proc _ h n1 n2 n3 n4

/-- `assemble64(n1, …, n8)` -/
theorem assemble64_ir_eq_model (h : Heap) (n1 n2 n3 n4 n5 n6 n7 n8 : Nat) :
    interp program "assemble64" h [.int n1, .int n2, .int n3, .int n4, .int n5, .int n6, .int n7, .int n8] =
      .ok (h, [.int (assemble64 n1 n2 n3 n4 n5 n6 n7 n8).1, .bool (assemble64 n1 n2 n3 n4 n5 n6 n7 n8).2]) := by
  rw [interp_eq program _ _ h _ lookup_a64 rfl]
  exact assemble64_proc _ h n1 n2 n3 n4 n5 n6 n7 n8

/-! ## `Encode` -/

/-- `enc.Encode(dst, src)` as regenerated from the Go source — main loop, the one- and two-byte tails,
the `switch remain` with its padding stores — leaves in `dst` exactly `Model.encode e src`, written
from offset 0, and touches nothing else. `dst` must be at least `EncodedLen(len(src))` long (the
callers allocate exactly that). -/
theorem encode_ir_eq_model (e : Encoding) (hal : e.alphabet.length = 64) (h : Heap) (d s : Nat) (dst src : Buf)
    (hd : h[d]? = some dst) (hs : h[s]? = some src) (hne : d ≠ s)
    (hlen : encodedLen e src.size ≤ dst.size) (hdz : dst.size < 2 ^ 62) :
    interp program "Encoding.Encode" h [encVal e, .slice ⟨d, 0, dst.size, dst.size⟩, .slice ⟨s, 0, src.size, src.size⟩] =
      .ok (h.set d (writeAt dst 0 (encode e src.toList)), []) := by
  rw [interp_eq program _ _ h _ lookup_enc rfl]
  exact encode_proc _ e hal h d s dst src hd hs hne hlen hdz

/-- `enc.EncodeToString(src)`: a fresh buffer holding `Model.encode e src`, returned as a string. -/
theorem encodeToString_ir_eq_model (e : Encoding) (hal : e.alphabet.length = 64) (h : Heap) (s : Nat) (src : Buf)
    (hs : h[s]? = some src) (hsz : src.size < 2 ^ 59) :
    interp program "Encoding.EncodeToString" h [encVal e, .slice ⟨s, 0, src.size, src.size⟩] =
      .ok (h ++ [(encode e src.toList).toArray], [.str (encode e src.toList)]) :=
  encodeToString_program 7 e hal h s src hs hsz

/-! ## `decodeQuantum` -/

/-- `enc.decodeQuantum(dst[n:], src, si)` as regenerated from the Go source — the digit-collecting loop
with its `break`/`continue`/`j--`, both newline-skipping loops, the padding `switch`, the
`switch dlen` with `fallthrough` and the strict-mode checks — is the model's `decodeQuantum`
(`collect` + the three stores): new source index, bytes written, error offset, contents of `dst`,
and a panic exactly when the model says `none` (a store past the end of `dst[n:]`). -/
theorem decodeQuantum_ir_eq_model (e : Encoding) (hal : e.alphabet.length = 64) (h : Heap) (d n s si : Nat)
    (dst src : Buf) (hd : h[d]? = some dst) (hs : h[s]? = some src) (hn : n ≤ dst.size) (hsi : si ≤ src.size)
    (hsz : src.size < 2 ^ 62) :
    interp program "Encoding.decodeQuantum" h [encVal e, .slice ⟨d, n, dst.size - n, dst.size - n⟩,
        .slice ⟨s, 0, src.size, src.size⟩, .int si] =
      match decodeQuantum e dst n src si with
      | none => .panic
      | some q => .ok (h.set d q.dst, [.int (q.si : Nat), .int (q.n : Nat), .err (q.err.map Int.ofNat)]) := by
  rw [interp_eq program _ _ h _ lookup_dq rfl]
  rw [decodeQuantum_proc _ e hal h d n s si dst src hd hs hn hsi hsz]
  cases decodeQuantum e dst n src si <;> rfl

/-! ## `Decode` / `DecodeString` -/

/-- The result of `Decode` for a model result: panic, or the updated `dst`, `n` and the error. -/
def ofDRes (h : Heap) (d : Nat) (r : DRes) : Res (Heap × List Val) :=
  if r.panic then .panic else .ok (h.set d r.dst, [.int (r.n : Nat), .err (r.err.map Int.ofNat)])

/-- `enc.Decode(dst, src)` as regenerated from the Go source — the 8-symbol loop (`assemble64` +
`PutUint64`, advancing by 6), the 4-symbol loop (`assemble32` + `PutUint32`, advancing by 3), the
quantum-by-quantum loop, each falling back to `decodeQuantum` and returning at the first error — is
the model's `decodeLoop` from phase 0, for ANY initial contents of `dst`: bytes written, error,
everything left in `dst` (the fast paths store 8 resp. 4 bytes), and panic. -/
theorem decode_ir_eq_decodeLoop (e : Encoding) (hal : e.alphabet.length = 64) (h : Heap) (d s : Nat) (dst src : Buf)
    (hd : h[d]? = some dst) (hs : h[s]? = some src) (hne : d ≠ s) (hdz : dst.size < 2 ^ 62) (hsz : src.size < 2 ^ 62) :
    interp program "Encoding.Decode" h [encVal e, .slice ⟨d, 0, dst.size, dst.size⟩, .slice ⟨s, 0, src.size, src.size⟩] =
      if src.size = 0 then .ok (h, [.int 0, .err none]) else ofDRes h d (decodeLoop e src 0 0 0 dst) :=
  decode_program 7 e hal h d s dst src hd hs hne hdz hsz

/-- The same against `Model.decode`, the entry point the C16 theorems use: `dst` is a zero-filled
buffer of `dstLen` bytes. -/
theorem decode_ir_eq_model (e : Encoding) (hal : e.alphabet.length = 64) (h : Heap) (d s dstLen : Nat) (src : Bytes)
    (hd : h[d]? = some (Array.replicate dstLen 0)) (hs : h[s]? = some src.toArray) (hne : d ≠ s)
    (hdz : dstLen < 2 ^ 62) (hsz : src.length < 2 ^ 62) :
    interp program "Encoding.Decode" h [encVal e, .slice ⟨d, 0, dstLen, dstLen⟩, .slice ⟨s, 0, src.length, src.length⟩] =
      ofDRes h d (decode e dstLen src) := by
  have := decode_ir_eq_decodeLoop e hal h d s (Array.replicate dstLen 0) src.toArray hd hs hne (by simpa using hdz)
    (by simpa using hsz)
  simp only [Array.size_replicate, List.size_toArray] at this
  rw [this]
  by_cases hz : src = []
  · subst hz
    simp [decode, ofDRes, heap_set_self h d _ hd]
  · have : ¬ src.length = 0 := fun hl => hz (List.eq_nil_of_length_eq_zero hl)
    simp [decode, hz, this]

/-- `enc.DecodeString(s)` as regenerated from the Go source: it allocates `DecodedLen(len(s))` zero
bytes (buffer number `h.length`) and a copy of the text, runs `Decode`, and returns the window
`dbuf[:n]` with the error. -/
theorem decodeString_ir_eq_model (e : Encoding) (hal : e.alphabet.length = 64) (h : Heap) (text : Bytes)
    (hsz : text.length < 2 ^ 59) :
    interp program "Encoding.DecodeString" h [encVal e, .str text] =
      if (decode e (decodedLen e text.length) text).panic = true then .panic
      else .ok (h ++ [(decode e (decodedLen e text.length) text).dst, text.toArray],
        [.slice ⟨h.length, 0, (decode e (decodedLen e text.length) text).n, decodedLen e text.length⟩,
         .err ((decode e (decodedLen e text.length) text).err.map Int.ofNat)]) :=
  decodeString_program 6 e hal h text hsz

/-- What the slice returned by `DecodeString` shows is the model's `decodeString`. -/
theorem decodeString_ir_bytes (e : Encoding) (h : Heap) (text : Bytes)
    (hle : (decode e (decodedLen e text.length) text).n ≤ (decode e (decodedLen e text.length) text).dst.size) :
    sliceBytes (h ++ [(decode e (decodedLen e text.length) text).dst, text.toArray])
        ⟨h.length, 0, (decode e (decodedLen e text.length) text).n, decodedLen e text.length⟩ =
      some (decodeString e text).1 := by
  simp [sliceBytes, decodeString, hle]

/-! ## Non-vacuity: the regenerated programs run, on concrete inputs, to the model's values -/

private def alpha : Bytes := "./0123456789ABCDEFGHIJKLMNOPQRSTUVWXYZabcdefghijklmnopqrstuvwxyz".toUTF8.toList
private def eNoPad : Encoding := ⟨alpha, none, false⟩
private def ePad : Encoding := ⟨alpha, some 61, false⟩
private def eStrict : Encoding := ⟨alpha, some 61, true⟩
private def str (s : String) : Bytes := s.toUTF8.toList
private def whole (b n : Nat) : Val := .slice ⟨b, 0, n, n⟩

-- the struct layout `encVal` assumes is the one of the current source
#guard encodingFields == [("encode", "[64]byte"), ("decodeMap", "[256]byte"), ("padChar", "rune"), ("strict", "bool")]
-- lengths
#guard interp program "Encoding.EncodedLen" [] [encVal eNoPad, .int 5] == .ok ([], [.int 7])
#guard interp program "Encoding.EncodedLen" [] [encVal ePad, .int 5] == .ok ([], [.int 8])
#guard interp program "Encoding.DecodedLen" [] [encVal eNoPad, .int 7] == .ok ([], [.int 5])
#guard interp program "Encoding.DecodedLen" [] [encVal ePad, .int 8] == .ok ([], [.int 6])
-- domain note: beyond 2^60 the Go `int` arithmetic wraps, the model's `Nat` arithmetic does not
#guard interp program "Encoding.EncodedLen" [] [encVal eNoPad, .int (2 ^ 61)] == .ok ([], [.int 0])
#guard encodedLen eNoPad (2 ^ 61) != 0
-- assemble32 / assemble64: value and flag; 0xff marks an invalid digit
#guard interp program "assemble32" [] [.int 1, .int 2, .int 3, .int 4] ==
  .ok ([], [.int (assemble32 1 2 3 4).1, .bool true])
#guard interp program "assemble32" [] [.int 1, .int 255, .int 3, .int 4] == .ok ([], [.int 0, .bool false])
#guard interp program "assemble64" [] [.int 1, .int 2, .int 3, .int 4, .int 5, .int 6, .int 7, .int 8] ==
  .ok ([], [.int (assemble64 1 2 3 4 5 6 7 8).1, .bool true])
-- Encode: 5 bytes, with and without padding, into a buffer of exactly EncodedLen bytes
#guard interp program "Encoding.Encode" [Array.replicate 8 0, #[1, 2, 3, 4, 5]] [encVal ePad, whole 0 8, whole 1 5] ==
  .ok ([(str "/6k.2I.=").toArray, #[1, 2, 3, 4, 5]], [])
#guard encode ePad [1, 2, 3, 4, 5] == str "/6k.2I.="
#guard interp program "Encoding.Encode" [Array.replicate 7 0, #[1, 2, 3, 4, 5]] [encVal eNoPad, whole 0 7, whole 1 5] ==
  .ok ([(str "/6k.2I.").toArray, #[1, 2, 3, 4, 5]], [])
-- a destination that is too short: Go panics, and so does the program
#guard interp program "Encoding.Encode" [Array.replicate 6 0, #[1, 2, 3, 4, 5]] [encVal eNoPad, whole 0 6, whole 1 5] == .panic
#guard interp program "Encoding.EncodeToString" [#[1, 2, 3, 4, 5]] [encVal ePad, whole 0 5] ==
  .ok ([#[1, 2, 3, 4, 5], (str "/6k.2I.=").toArray], [.str (str "/6k.2I.=")])
-- decodeQuantum: a full quantum at offset 2 of dst, and a padded one
#guard interp program "Encoding.decodeQuantum" [Array.replicate 6 0, (str "/6k.").toArray]
    [encVal ePad, .slice ⟨0, 2, 4, 4⟩, whole 1 4, .int 0] ==
  .ok ([#[0, 0, 1, 2, 3, 0], (str "/6k.").toArray], [.int 4, .int 3, .err none])
#guard interp program "Encoding.decodeQuantum" [Array.replicate 3 0, (str "2I.=").toArray]
    [encVal ePad, whole 0 3, whole 1 4, .int 0] == .ok ([#[4, 5, 0], (str "2I.=").toArray], [.int 4, .int 2, .err none])
-- dst[n:] too short for the third byte: panic
#guard interp program "Encoding.decodeQuantum" [Array.replicate 2 0, (str "/6k.").toArray]
    [encVal ePad, whole 0 2, whole 1 4, .int 0] == .panic
#guard (decodeQuantum ePad (Array.replicate 2 0) 0 (str "/6k.").toArray 0).isNone
-- DecodeString: valid text
#guard interp program "Encoding.DecodeString" [] [encVal ePad, .str (str "/6k.2I.=")] ==
  .ok ([#[1, 2, 3, 4, 5, 0], (str "/6k.2I.=").toArray], [.slice ⟨0, 0, 5, 6⟩, .err none])
#guard decodeString ePad (str "/6k.2I.=") == ([1, 2, 3, 4, 5], none)
-- 43 symbols with a newline inside: the 8-symbol path, the 4-symbol path and a 3-symbol tail
#guard (match interp program "Encoding.DecodeString" [] [encVal eNoPad, .str (str "/6k.2I./6k.2I./6k\n.2I./6k.2I./6k.2I./6k.2I.")] with
  | .ok (_, [.slice s, .err none]) => s.len == 31
  | _ => false)
#guard (decodeString eNoPad (str "/6k.2I./6k.2I./6k\n.2I./6k.2I./6k.2I./6k.2I.")).1.length == 31
-- malformed text: the offending offset comes back as the error
#guard interp program "Encoding.DecodeString" [] [encVal eNoPad, .str (str "/6k.2I!")] ==
  .ok ([#[1, 2, 3, 0, 0], (str "/6k.2I!").toArray], [.slice ⟨0, 0, 3, 5⟩, .err (some 6)])
#guard decodeString eNoPad (str "/6k.2I!") == ([1, 2, 3], some 6)
-- trailing garbage after the padding
#guard interp program "Encoding.DecodeString" [] [encVal ePad, .str (str "/6k.2I.=abc")] ==
  .ok ([#[1, 2, 3, 4, 5, 0], (str "/6k.2I.=abc").toArray], [.slice ⟨0, 0, 5, 6⟩, .err (some 8)])
-- strict mode: non-zero unused bits (`E` instead of `.`) are rejected, after dst[1] has been stored
#guard interp program "Encoding.DecodeString" [] [encVal eStrict, .str (str "/6k.2IE=")] ==
  .ok ([#[1, 2, 3, 0, 5, 0], (str "/6k.2IE=").toArray], [.slice ⟨0, 0, 3, 6⟩, .err (some 7)])
#guard decodeString eStrict (str "/6k.2IE=") == ([1, 2, 3], some 7)
-- … and accepted otherwise
#guard interp program "Encoding.DecodeString" [] [encVal ePad, .str (str "/6k.2IE=")] ==
  .ok ([#[1, 2, 3, 4, 5, 0], (str "/6k.2IE=").toArray], [.slice ⟨0, 0, 5, 6⟩, .err none])
-- domain note: a negative padding rune other than NoPadding pads with byte(padChar) = 0xFE
#guard interp program "Encoding.EncodeToString" [#[1]]
    [.struct [.arr alpha, .arr (decodeMapBytes eNoPad), .int (-2), .bool false], whole 0 1] ==
  .ok ([#[1], #[47, 46, 254, 254]], [.str [47, 46, 254, 254]])
-- … and such an encoding does not decode its own output (`rune(0xFE) != -2`): error at offset 2, as in Go
#guard interp program "Encoding.DecodeString" []
    [.struct [.arr alpha, .arr (decodeMapBytes eNoPad), .int (-2), .bool false], .str [47, 46, 254, 254]] ==
  .ok ([#[0, 0, 0], #[47, 46, 254, 254]], [.slice ⟨0, 0, 0, 3⟩, .err (some 2)])
-- `stuck` is a third outcome: a program the interpreter does not understand proves nothing
#guard interp { procs := [("f", { nparams := 0, nslots := 0, body := .unknown "x" })] } "f" [] [] ==
  .stuck "unknown statement: x"
/-- `for i := 5; i > 0; i-- {}` with a (wrong) loop bound of 2. -/
private def badBound : Proc :=
  { nparams := 0, nslots := 1,
    body := Stmt.seq (.assign [.var 0] [.int 5])
      (.for_ (.int 2) (.bin .gt (.var 0) (.int 0)) (.assign [.var 0] [.bin .sub (.var 0) (.int 1)]) .skip) }
#guard interp { procs := [("f", badBound)] } "f" [] [] == .stuck "loop bound exceeded"

end GoCrypt.B64IR

#print axioms GoCrypt.B64IR.encodedLen_ir_eq_model
#print axioms GoCrypt.B64IR.decodedLen_ir_eq_model
#print axioms GoCrypt.B64IR.assemble32_ir_eq_model
#print axioms GoCrypt.B64IR.assemble64_ir_eq_model
#print axioms GoCrypt.B64IR.encode_ir_eq_model
#print axioms GoCrypt.B64IR.encodeToString_ir_eq_model
#print axioms GoCrypt.B64IR.decodeQuantum_ir_eq_model
#print axioms GoCrypt.B64IR.decode_ir_eq_decodeLoop
#print axioms GoCrypt.B64IR.decode_ir_eq_model
#print axioms GoCrypt.B64IR.decodeString_ir_eq_model
#print axioms GoCrypt.B64IR.decodeString_ir_bytes
