import GoCrypt.Props.C18Core
import GoCrypt.Props.TypeCacheIR

/-!
# C18 — codec results do not depend on call history or on value/pointer form

* `Props/C18Core.lean` (namespace `GoCrypt.C18`): the theorems about the cache protocol model (`Model/TypeCache.lean`) and the
  citations of the regenerated type-info layer.
* `Props/TypeCacheIR.lean`: the WHOLE of `getTypeInfo` — warm and cold path, `typeCache.Load`/`LoadOrStore` as atomic steps
  of a cache state — regenerated from `hash/typeinfo.go` on every run equals `TypeCache.getTypeInfo (typeInfoOf structs)`
  call by call and over every history; the two facts the model's header calls "measured" are theorems about the
  regenerated code there: the returned record is a private copy (`returned_record_is_private`, `_stays_private`,
  `hit_returns_copy_of_cached_record`) and entries are keyed by the dereferenced type
  (`entries_are_keyed_by_dereferenced_type`, `forms_agree_at_code_level`); interleavings at the atomic-step boundaries
  give every caller the cold-cache result (`interleaved_calls_return_the_cold_result`).

The obligations of C18 are the union.
-/

#print axioms GoCrypt.C18.load_append_miss
#print axioms GoCrypt.C18.cacheOK_step
#print axioms GoCrypt.C18.result_independent_of_cache
#print axioms GoCrypt.C18.cacheOK_empty
#print axioms GoCrypt.C18.cacheOK_history
#print axioms GoCrypt.C18.history_independent
#print axioms GoCrypt.C18.forms_agree
#print axioms GoCrypt.C18.invalid_tags_every_call
#print axioms GoCrypt.C18.reports_own_struct
#print axioms GoCrypt.TypeInfoIR.no_unknown_nodes
#print axioms GoCrypt.TypeInfoIR.normalize_eq_normalizeLoop
#print axioms GoCrypt.TypeInfoIR.normalize_eq_normalizeLoop_exact
#print axioms GoCrypt.TypeInfoIR.getRawTypeInfo_eq_rawFields
#print axioms GoCrypt.TypeInfoIR.getTypeInfo_cold_eq_typeInfoOf
#print axioms GoCrypt.TypeInfoIR.getTypeInfo_cold_eq_typeInfoOf_exact
#print axioms GoCrypt.TypeCacheIR.cache_interpreter_is_conservative
#print axioms GoCrypt.TypeCacheIR.only_getTypeInfo_touches_the_cache
#print axioms GoCrypt.TypeCacheIR.other_functions_run_as_before
#print axioms GoCrypt.TypeCacheIR.getTypeInfo_eq_model
#print axioms GoCrypt.TypeCacheIR.getTypeInfo_eq_model_exact
#print axioms GoCrypt.TypeCacheIR.successful_call_reports_own_struct
#print axioms GoCrypt.TypeCacheIR.returned_record_is_private
#print axioms GoCrypt.TypeCacheIR.hit_returns_copy_of_cached_record
#print axioms GoCrypt.TypeCacheIR.entries_are_keyed_by_dereferenced_type
#print axioms GoCrypt.TypeCacheIR.forms_agree_at_code_level
#print axioms GoCrypt.TypeCacheIR.history_represents_runHistory
#print axioms GoCrypt.TypeCacheIR.returned_record_stays_private
#print axioms GoCrypt.TypeCacheIR.every_call_returns_the_cold_result
#print axioms GoCrypt.TypeCacheIR.every_call_returns_the_cold_result_exact
#print axioms GoCrypt.TypeCacheIR.histories_exist
#print axioms GoCrypt.TypeCacheIR.small_steps_are_the_same_program
#print axioms GoCrypt.TypeCacheIR.getTI_is_the_solo_run
#print axioms GoCrypt.TypeCacheIR.interleaved_calls_return_the_cold_result
#print axioms GoCrypt.TypeCacheIR.interleaved_calls_all_return
#print axioms GoCrypt.TypeCacheIR.two_concurrent_calls
#print axioms GoCrypt.TypeCacheIR.example_world_is_in_the_domain
#print axioms GoCrypt.TypeCacheIR.example_two_concurrent_calls
