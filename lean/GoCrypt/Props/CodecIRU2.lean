import GoCrypt.Props.CodecIRU
import GoCrypt.Proofs.CodecIRUValue
import GoCrypt.Proofs.CodecIRULoop
import GoCrypt.Proofs.CodecIRUTop

/-!
# `hash/unmarshal.go` regenerated from source = `Model/Codec.lean` (continuation of `Props/CodecIRU.lean`)

* **2a** `unmarshal_value_eq_model` / `unmarshal_prefix_eq_model`: the regenerated `unmarshal(node, ti, fi, v)` on a value node / the
  prefix node is the model's `fieldText` followed by `storeValue`, for EVERY field kind: `string`, `[]byte`, `[n]byte` (the
  `Index(i).SetUint` loop), signed/unsigned integers (`ParseInt`/`ParseUint`, `OverflowInt`-class errors as `numRange`, syntax as
  `numSyntax`), fields behind pointers (`v` is what `unmarshalIndirect` returned: `k` pointers below the cell root), the
  TextUnmarshaler classes (whitelist / desInt / twoDigit / opaque), the prefix rule and the `unsupported type` fall-through.

Domain hypotheses (each is needed, see CODEC_IR_NOTES.md "Third session"):
* the cell is ZERO (`cur = zeroG t0`): a `[n]byte` keeps the old bytes beyond `len(s)` in Go, the model pads with zeros;
* `NumOk fi`: integer kinds have 0 < bits ≤ 64 and a base in 2..36 (`Strconv` models only those);
* `s0.length ≤ w.fuel`: the loop bound of the interpreter;
* a prefix field is not `length:…,inline` (Go would PANIC on `node.(*parse.ValueNode)`; `typeinfo.go` rejects `inline` on `HashPrefix`).
-/

namespace GoCrypt.CodecIRU
open GoCrypt.Codec GoCrypt.Gen.codecIR GoCrypt.CIR
open GoCrypt.TIIR (RType Res fiType fiObj tiObj)

/-- Inside the program, function 7 is `newUnmarshalError`, on any node. -/
theorem newErrSpecG_callIn (w : World) (d : Nat) : NewErrSpecG (w.ctx (callIn program w (d + 1))) :=
  CIR.newErrSpecG_callIn w d

/-- From the abstract postcondition to the shape `unmarshal_string` has. -/
theorem upost_unfold {m : Mem} {na : Nat} {s0 : Bytes} {pos fin : Nat} {fi : FieldInfo} {idx : List Nat} {k : Nat} {r cur : GVal}
    {kind : String} {res : Res (Mem × List Val)} (hg : getDeep k r = some cur)
    (h : UPost m na s0 pos fin fi idx k r (nodeModel fi kind fin s0) res) :
    match fieldText fi kind fin s0 with
    | .error e => ∃ m' v, res = .ok (m', [v]) ∧ absErrU m.heap v = some e
    | .ok (s, rest) =>
      match storeValue fi kind fin s with
      | .error e => ∃ m' v, res = .ok (m', [v]) ∧ absErrU m.heap v = some e
      | .ok fv => ∃ m', res = .ok (m', [.nil]) ∧
          cellGet m' idx k = .ok (gOfF fv) ∧ m'.heap = m.heap ∧ (∀ j, j ≠ idx → cellRoot m' j = cellRoot m j) ∧
          m'.nodes = (if fi.opts.hasLength && fi.opts.inline then m.nodes.set na (.value rest pos fin) else m.nodes) := by
  unfold nodeModel at h
  cases hft : fieldText fi kind fin s0 with
  | error e =>
    rw [hft] at h
    obtain ⟨m', v, h1, _, h3⟩ := h
    exact ⟨m', v, h1, h3⟩
  | ok p =>
    obtain ⟨s, rest⟩ := p
    rw [hft] at h
    simp only at h ⊢
    cases hsv : storeValue fi kind fin s with
    | error e =>
      rw [hsv] at h
      obtain ⟨m', v, h1, _, h3⟩ := h
      exact ⟨m', v, h1, h3⟩
    | ok fv =>
      rw [hsv] at h
      obtain ⟨mm, h1, hat⟩ := h
      have hrest : (fi.opts.hasLength && fi.opts.inline) = true → rest = s0.drop fi.opts.length := by
        intro hb
        rw [fieldText_eq] at hft
        cases hl : lenRule fi s0 with
        | none => rw [hl] at hft; cases hft
        | some p =>
          obtain ⟨s', inl⟩ := p
          rw [hl] at hft
          simp only at hft
          have hinl := (lenRule_facts fi s0 s' inl hl).2
          cases hf : firstInvalid fi.opts.enc s' with
          | some ch => rw [hf] at hft; cases hft
          | none =>
            rw [hf] at hft
            simp only [Except.ok.injEq, Prod.mk.injEq] at hft
            rw [← hft.2, hinl, hb]; rfl
      refine ⟨_, h1, ?_, ?_, ?_, ?_⟩
      · have := hat.get m idx k r cur hg
        cases hb : (fi.opts.hasLength && fi.opts.inline) <;> simpa [deferMem, cellGet, cellRoot] using this
      · rw [deferMem_heap]; exact hat.same.heap
      · intro j hj
        have := hat.same.other j hj
        cases hb : (fi.opts.hasLength && fi.opts.inline) <;> simpa [deferMem, cellRoot] using this
      · cases hb : (fi.opts.hasLength && fi.opts.inline)
        · simp [deferMem, hat.same.nodes]
        · simp [deferMem, hat.same.nodes, hrest hb]

/-- **`unmarshal(node, ti, fi, v)` on a VALUE node = `fieldText` then `storeValue`, for every field kind** (generalises
`unmarshal_string`).  The node holds the text `s0` and ends at `fin`; `v` refers to the zero value `k` pointers below cell `idx`
(what `unmarshalIndirect` returns).  Errors are exactly the model's (`absErrU`); on success `nil` is returned, the cell holds
`storeValue`'s value, nothing else of the destination and nothing on the heap changes, and an inline field has shortened its node
to the remainder `fieldText` computes. -/
theorem unmarshal_value_eq_model (w : World) (hidx : IndexAnyInvalidSpec w.indexAnyInvalid) (hit : IndirectTypeOk w.ext)
    (hut : UnmarshalTextSpec w.unmarshalText) (d : Nat)
    (m : Mem) (na tia a : Nat) (s0 : Bytes) (pos fin : Nat) (fi : FieldInfo) (st tt : RType)
    (hp : TIIR.Val) (addrs : List Nat) (n : Int) (t0 : RType) (idx : List Nat) (k : Nat) (r cur : GVal)
    (hn : m.nodes[na]? = some (.value s0 pos fin)) (ha : m.heap[a]? = some (fiObj fi))
    (hti : m.heap[tia]? = some (tiObj (.rtype st) tt hp addrs n))
    (hd : t0.depth = 0) (hk0 : t0.kind = fi.kind) (hu0 : t0.ut = fi.unmarshalText)
    (hr : cellRoot m idx = some r) (hg : getDeep k r = some cur) (hcur : cur = zeroG t0) (hnum : NumOk fi)
    (hfuel : s0.length ≤ w.fuel) :
    match fieldText fi "value" fin s0 with
    | .error e => ∃ m' v, callIn program w (d + 2) 6 m [.node na, .ptr tia, .ptr a, .cell t0 idx k false] = .ok (m', [v]) ∧
        absErrU m.heap v = some e
    | .ok (s, rest) =>
      match storeValue fi "value" fin s with
      | .error e => ∃ m' v, callIn program w (d + 2) 6 m [.node na, .ptr tia, .ptr a, .cell t0 idx k false] = .ok (m', [v]) ∧
          absErrU m.heap v = some e
      | .ok fv => ∃ m', callIn program w (d + 2) 6 m [.node na, .ptr tia, .ptr a, .cell t0 idx k false] = .ok (m', [.nil]) ∧
          cellGet m' idx k = .ok (gOfF fv) ∧ m'.heap = m.heap ∧ (∀ j, j ≠ idx → cellRoot m' j = cellRoot m j) ∧
          m'.nodes = (if fi.opts.hasLength && fi.opts.inline then m.nodes.set na (.value rest pos fin) else m.nodes) := by
  rw [callIn_succ program w (d + 1) 6 m _ unmarshalIR (by rfl)]
  have hec := ErrCalls.of_spec (newErrSpecG_callIn w d) m na tia a 2 valueLit "value" fin fi st tt hp addrs n
    (ext1M_nodeType m na s0 pos fin hn) ntypeString_2 (by simp [kindName, valueLit]) (ext1M_nodeEnd m na s0 pos fin hn) ha hti
  exact upost_unfold hg (unmarshal_node_spec (w.ctx (callIn program w (d + 1))) hidx hit hut m na tia a s0 pos fin fi valueLit "value" st
    t0 idx k r cur (ext1M_nodeString m na s0 pos fin hn) ha hec (fun _ => hn) hd hk0 hu0 hr hg hcur hnum hfuel)

/-- **`unmarshal(tree.Prefix, ti, ti.HashPrefix, v)` on the PREFIX node = `fieldText` then `storeValue`** with node kind `"prefix"` and
end offset `len(prefix)` — in particular the prefix rule (`unsupported type` unless the field is a string or has a text unmarshaler).
The field must not be `length:…,inline` (Go panics on the type assertion; `typeinfo.go` rejects such a `HashPrefix`). -/
theorem unmarshal_prefix_eq_model (w : World) (hidx : IndexAnyInvalidSpec w.indexAnyInvalid) (hit : IndirectTypeOk w.ext)
    (hut : UnmarshalTextSpec w.unmarshalText) (d : Nat)
    (m : Mem) (na tia a : Nat) (s0 : Bytes) (fi : FieldInfo) (st tt : RType)
    (hp : TIIR.Val) (addrs : List Nat) (n : Int) (t0 : RType) (idx : List Nat) (k : Nat) (r cur : GVal)
    (hn : m.nodes[na]? = some (.pfx s0)) (ha : m.heap[a]? = some (fiObj fi))
    (hti : m.heap[tia]? = some (tiObj (.rtype st) tt hp addrs n))
    (hninl : (fi.opts.hasLength && fi.opts.inline) = false)
    (hd : t0.depth = 0) (hk0 : t0.kind = fi.kind) (hu0 : t0.ut = fi.unmarshalText)
    (hr : cellRoot m idx = some r) (hg : getDeep k r = some cur) (hcur : cur = zeroG t0) (hnum : NumOk fi)
    (hfuel : s0.length ≤ w.fuel) :
    match fieldText fi "prefix" s0.length s0 with
    | .error e => ∃ m' v, callIn program w (d + 2) 6 m [.node na, .ptr tia, .ptr a, .cell t0 idx k false] = .ok (m', [v]) ∧
        absErrU m.heap v = some e
    | .ok (s, _) =>
      match storeValue fi "prefix" s0.length s with
      | .error e => ∃ m' v, callIn program w (d + 2) 6 m [.node na, .ptr tia, .ptr a, .cell t0 idx k false] = .ok (m', [v]) ∧
          absErrU m.heap v = some e
      | .ok fv => ∃ m', callIn program w (d + 2) 6 m [.node na, .ptr tia, .ptr a, .cell t0 idx k false] = .ok (m', [.nil]) ∧
          cellGet m' idx k = .ok (gOfF fv) ∧ m'.heap = m.heap ∧ (∀ j, j ≠ idx → cellRoot m' j = cellRoot m j) ∧
          m'.nodes = m.nodes := by
  rw [callIn_succ program w (d + 1) 6 m _ unmarshalIR (by rfl)]
  have hec := ErrCalls.of_spec (newErrSpecG_callIn w d) m na tia a 0 _ "prefix" s0.length fi st tt hp addrs n
    (ext1M_nodeType_pfx m na s0 hn) ntypeString_0 (by simp [kindName]) (ext1M_nodeEnd_pfx m na s0 hn) ha hti
  have h := upost_unfold (pos := 0) hg (unmarshal_node_spec (w.ctx (callIn program w (d + 1))) hidx hit hut m na tia a s0 0 s0.length fi _
    "prefix" st t0 idx k r cur (ext1M_nodeString_pfx m na s0 hn) ha hec (by rw [hninl]; intro h; cases h) hd hk0 hu0 hr hg hcur hnum hfuel)
  cases hft : fieldText fi "prefix" s0.length s0 with
  | error e => rw [hft] at h; exact h
  | ok p =>
    obtain ⟨s, rest⟩ := p
    rw [hft] at h
    simp only at h ⊢
    cases hsv : storeValue fi "prefix" s0.length s with
    | error e => rw [hsv] at h; exact h
    | ok fv =>
      rw [hsv] at h
      simpa [hninl] using h

/-! ## 2b — the loop over `ti.Fields`

Proved for struct descriptions WITHOUT grouped params (`fi.Opts.Group = false` for every field of `ti`; the hash may still contain
group fragments). `LInv` is the representation invariant (`Proofs/CodecIRULoop.lean`): the fragments from `fragIdx` on are the model's
`st.frags` with their CURRENT texts (an inline field shortens its node in place), at pairwise distinct value nodes; `CellsOk` says the
destination cells hold what `finalVals` lists for the assignments made so far; `ZeroRest` that the cells of the fields still to come are zero.
The grouped-param clause (`uG`) is proved on the program side only (`Proofs/CodecIRUStep.lean`: `uG1_open/uG1_cont/uG1_single`,
`uGLoop_none/uGLoop_found`, `uG5_spec`); its link to `stepField` is NOT made (see CODEC_IR_NOTES.md). -/

/-- Inside the program at depth `d + 2`, the calls of functions 6, 7, 8 are the regenerated `unmarshal`, `newUnmarshalError`,
`unmarshalIndirect`, run one level down with the same primitives. -/
theorem callsU_callIn (w : World) (hidx : IndexAnyInvalidSpec w.indexAnyInvalid) (hit : IndirectTypeOk w.ext)
    (hut : UnmarshalTextSpec w.unmarshalText) (hfs : FieldStringOk w.ext) (d : Nat) :
    CallsU (w.ctx (callIn program w (d + 2))) (w.ctx (callIn program w (d + 1))) :=
  ⟨fun mm args => callIn_succ program w (d + 1) 8 mm args unmarshalIndirectIR (by rfl),
   fun mm args => callIn_succ program w (d + 1) 6 mm args unmarshalIR (by rfl),
   CIR.newErrSpecG_callIn w (d + 1), CIR.newErrSpecG_callIn w d, hidx, hit, hut, hfs, rfl⟩

/-- **One iteration of `for _, fi := range ti.Fields` = the model's `stepField`** (field not a grouped param, no group open):
end-of-fragments (`unexpected EOF` / skipped optional), the `numValues - numReqValues` rule for optional fields, the param-name
rule (`param=` prefix or no param), `unmarshal` into the field's zero cell (all kinds, via 2a), the counters, an inline field leaving
its remainder in the SAME fragment, a group fragment or a foreign param being `… not found` for a required field. On error the returned
value abstracts to the model's `UErr`; otherwise the body ends normally or with `continue`, and the invariant holds for the model's new state. -/
theorem step_eq_stepField (c c' : Ctx) (hc : CallsU c c') (hfuel : c'.fuel = c.fuel)
    (hash : Bytes) (t t0 : RType) (pv : Val) (as : List Nat) (tia : Nat) (addrs : List Nat) (heap0 : TIIR.Heap)
    (st tt : RType) (hpv : TIIR.Val) (nreq : Int) (hti : heap0[tia]? = some (tiObj (.rtype st) tt hpv addrs nreq))
    (allF : List FieldInfo) (fi : FieldInfo) (rest : List FieldInfo) (a i : Nat) (hi : addrs[i]? = some a)
    (ha : heap0[a]? = some (fiObj fi)) (hok : FieldOk c t0 fi) (hg : fi.opts.group = false) (hmem : fi ∈ allF)
    (hdist : ∀ fi' ∈ rest, ¬ fi'.index = fi.index)
    (mm : Mem) (s : LoopSt) (fragIdx : Nat) (lay : List FA) (hinv : LInv heap0 as c.fuel mm s fragIdx lay)
    (hcells : CellsOk mm allF s.out) (hzero : ZeroRest mm (fi :: rest)) (ngv : Int) (fiv fragv : Val) (j : List Val) :
    match stepField hash.length fi s with
    | .error e => ∃ m' v, exec c uBody mm (tEnv hash t t0 pv as tia addrs fragIdx ngv .nil s.numValues s.numReq i fiv fragv j) = .ret m' [v] ∧
        absErrU heap0 v = some e
    | .ok s' => ∃ (mm' : Mem) (env' : Env) (fragIdx' : Nat) (lay' : List FA) (fragv' : Val),
        (exec c uBody mm (tEnv hash t t0 pv as tia addrs fragIdx ngv .nil s.numValues s.numReq i fiv fragv j) = .norm mm' env' ∨
         exec c uBody mm (tEnv hash t t0 pv as tia addrs fragIdx ngv .nil s.numValues s.numReq i fiv fragv j) = .cont mm' env') ∧
        IsT env' hash t t0 pv as tia addrs fragIdx' ngv .nil s'.numValues s'.numReq i (.ptr a) fragv' ∧
        LInv heap0 as c.fuel mm' s' fragIdx' lay' ∧ CellsOk mm' allF s'.out ∧ ZeroRest mm' rest :=
  step_nogroup c c' hc hfuel hash t t0 pv as tia addrs heap0 st tt hpv nreq hti allF fi rest a i hi ha hok hg hmem hdist mm s fragIdx lay
    hinv hcells hzero ngv fiv fragv j

/-- **The whole loop over `ti.Fields` = the model's `loopFields`** (no grouped params; distinct index paths): started at field `i` in a
state that represents `s`, the loop returns the model's error, or ends normally in a state that represents `loopFields`' result,
with the destination cells holding the model's assignments (`CellsOk … s'.out`). -/
theorem loop_eq_loopFields (c c' : Ctx) (hc : CallsU c c') (hfuel : c'.fuel = c.fuel)
    (hash : Bytes) (t t0 : RType) (pv : Val) (as : List Nat) (tia : Nat) (addrs : List Nat) (heap0 : TIIR.Heap)
    (st tt : RType) (hpv : TIIR.Val) (nreq : Int) (hti : heap0[tia]? = some (tiObj (.rtype st) tt hpv addrs nreq))
    (allF fields : List FieldInfo) (hreps : TIIR.Reps heap0 addrs fields)
    (hok : ∀ fi ∈ fields, FieldOk c t0 fi ∧ fi.opts.group = false ∧ fi ∈ allF) (hnd : (fields.map (·.index)).Nodup) (ngv : Int)
    (n i : Nat) (mm : Mem) (s : LoopSt) (fragIdx : Nat) (lay : List FA) (fiv fragv : Val) (j : List Val)
    (hi : i ≤ fields.length) (hn : fields.length - i < n) (hinv : LInv heap0 as c.fuel mm s fragIdx lay) (hcells : CellsOk mm allF s.out)
    (hzero : ZeroRest mm (fields.drop i)) :
    match loopFields hash.length (fields.drop i) s with
    | .error e => ∃ m' v, loop (fun m env => eval c m env uLoop.forCond >>= asBool) (exec c uBody) (exec c uLoop.forPost) n mm
          (tEnv hash t t0 pv as tia addrs fragIdx ngv .nil s.numValues s.numReq i fiv fragv j) = .ret m' [v] ∧ absErrU heap0 v = some e
    | .ok s' => ∃ (mm' : Mem) (env' : Env) (fragIdx' : Nat) (lay' : List FA) (fiv' fragv' : Val),
        loop (fun m env => eval c m env uLoop.forCond >>= asBool) (exec c uBody) (exec c uLoop.forPost) n mm
          (tEnv hash t t0 pv as tia addrs fragIdx ngv .nil s.numValues s.numReq i fiv fragv j) = .norm mm' env' ∧
        IsT env' hash t t0 pv as tia addrs fragIdx' ngv .nil s'.numValues s'.numReq (fields.length : Nat) fiv' fragv' ∧
        LInv heap0 as c.fuel mm' s' fragIdx' lay' ∧ CellsOk mm' allF s'.out :=
  loop_nogroup c c' hc hfuel hash t t0 pv as tia addrs heap0 st tt hpv nreq hti allF fields hreps hok hnd ngv n i mm s fragIdx lay fiv fragv j
    hi hn hinv hcells hzero

/-! ## 2c — PARTIAL: the checks after the loop; the hypothesis about `parse.Parse`

`CIR.ParseOk` (`Proofs/CodecIRUTop.lean`) is the `Prop` that links the external `parse.Parse` to `Parse.parse` (the returned tree is a
`RepFA` representation of the model's tree in freshly allocated, pairwise distinct nodes). The top-level theorem `Unmarshal = Codec.unmarshal +
finalVals` is NOT assembled (CODEC_IR_NOTES.md). -/

/-- **The two checks after the loop** (no group open) = the end of the model's `unmarshalTree`: a fragment left over is the struct-level
`excessive fragment` error with that fragment's kind and end offset; otherwise `Unmarshal` returns `nil`. -/
theorem after_loop_eq_model (c : Ctx) (hash : Bytes) (t t0 : RType) (pv : Val) (as : List Nat) (tia : Nat) (addrs : List Nat)
    (heap0 : TIIR.Heap) (mm : Mem) (s : LoopSt) (fragIdx : Nat) (lay : List FA) (hinv : LInv heap0 as c.fuel mm s fragIdx lay)
    (ngv nv nr i : Int) (fiv fragv : Val) (j : List Val) :
    match s.frags with
    | [] => exec c uTail mm (tEnv hash t t0 pv as tia addrs fragIdx ngv .nil nv nr i fiv fragv j) = .ret mm [.nil]
    | f :: _ => ∃ v, exec c uTail mm (tEnv hash t t0 pv as tia addrs fragIdx ngv .nil nv nr i fiv fragv j) = .ret mm [v] ∧
        absErrU heap0 v = some (.ute (fragKind f) (fragEnd f) "" .excessiveFragment) :=
  uTail_spec c hash t t0 pv as tia addrs heap0 mm s fragIdx lay hinv ngv nv nr i fiv fragv j

/-- `CellsOk` is `finalVals`, cell by cell: the entry of `finalVals ti out` for a field is `valOf out fi`. -/
theorem finalVals_eq_valOf (ti : TypeInfo) (out : Vals) :
    finalVals ti out = (ti.hashPrefix.toList ++ ti.fields).map fun fi => (fi.index, valOf out fi) := rfl

#print axioms unmarshal_value_eq_model
#print axioms after_loop_eq_model
#print axioms callsU_callIn
#print axioms step_eq_stepField
#print axioms loop_eq_loopFields
#print axioms unmarshal_prefix_eq_model

end GoCrypt.CodecIRU
