import GoCrypt.Proofs.SFlowValDispatch
import GoCrypt.Proofs.SFlowValLex

/-!
# The hand-written dispatcher model is what the regenerated `crypt.Check` / `RegisterHash` compute

`Model/Dispatch.lean` describes `crypt.go` by hand (`prefixOf`, `register`, `lookup`, `check`) and
`Props/C07.lean` proves property C07 about that model.  `Gen/DispatchFlow.lean` holds the bodies of
the Go functions `Check` and `RegisterHash` themselves, re-translated from the current source on every
run into the structured IR of `Base/SFlow.lean`; `Spec/SFlowVal.lean` gives that IR a value semantics
whose state is the registry and the log of handler calls.  The theorems below say that, **for all
registries, hashes and passwords**, running the regenerated program yields exactly what the model says.

Packaging (`Spec/SFlowVal.lean`): `evalCheck r prog h pw : Option (Dispatch.Outcome α)` runs `prog` on
`(h, pw)` with registry `r` and an empty call log, and reads the run as a model outcome —
`some .errHash` iff it returns `crypt.ErrHash` with the log still empty, `some (.call f a b)` iff it
returns the result of its one and only handler call `f(a, b)`, `none` for anything else (a panic — in
particular an out-of-range slice —, a stuck run, two calls, a dropped result).  `evalRegister r prog p f`
is the registry after the run, provided it returns nothing and calls nobody.

The same for the lexer's prefix rule (`hash/parse/lex.go`: `lexPrefix`, with the body of `(*lexer).emit`
regenerated too and *run*, not modelled, whenever `lexPrefix` calls `l.emit`): `evalLexPrefix prog s` runs
`prog` on a fresh lexer for `s` and reads the run as the model's tokens sent plus the offset at which
`lexFragment` resumes (`none` when `lexPrefix` returns the nil state).  `l.errorf` is a primitive of the
semantics, and the `lexFragment` loop is the model's (`Parse.lexFrag`): it is not regenerated.

What is *not* covered: the translator itself (Go → IR), and the faithfulness of the semantics'
primitives (`strings.HasPrefix`, `strings.IndexAny` on ASCII sets, Go's slice bounds, `sync.Map` as an
atomic last-writer-wins map).
-/

namespace GoCrypt.DispatchFlow
open GoCrypt GoCrypt.Dispatch GoCrypt.SFlowVal

/-- `crypt.Check`, regenerated, is `Dispatch.check`: same routing (latest handler registered for the
prefix), hash and password passed through unchanged, the handler's result returned unchanged and
nothing else called; `ErrHash` without any call in exactly the model's cases.  `some _` on the right
also says the run neither panics nor gets stuck: **no slice expression of `Check` is ever out of
bounds** (`hash[1:]` is evaluated only when `hash` starts with `$`; `hash[:i+2]` only with
`0 < i < len(hash[1:])`). -/
theorem checkFlow_eq_model {α} (r : Registry α) (h pw : Bytes) :
    evalCheck r Gen.crypt.checkFlow h pw = some (check r h pw) := by
  unfold evalCheck
  rw [runCheck_eq]
  unfold checkRun
  cases check r h pw <;> simp

/-- `Check` leaves the registry as it found it. -/
theorem checkFlow_registry_unchanged {α} (r : Registry α) (h pw : Bytes) :
    checkFinalRegistry r Gen.crypt.checkFlow h pw = some r := by
  unfold checkFinalRegistry
  rw [runCheck_eq]
  unfold checkRun
  cases check r h pw <;> rfl

/-- The run of `Check` always ends in a `return`: never a panic, never stuck. -/
theorem checkFlow_returns {α} (r : Registry α) (h pw : Bytes) :
    ∃ vs st, runCheck r Gen.crypt.checkFlow h pw = .ret vs st := by
  rw [runCheck_eq]
  unfold checkRun
  cases check r h pw <;> exact ⟨_, _, rfl⟩

/-- `crypt.RegisterHash`, regenerated, is `Dispatch.register`: one `Store`, no handler called. -/
theorem registerFlow_eq_model {α} (r : Registry α) (p : Bytes) (f : α) :
    evalRegister r Gen.crypt.registerFlow p f = some (register r p f) := by
  unfold evalRegister
  rw [runRegister_eq]

/-! ## The lexer's prefix rule -/

/-- `lexPrefix`, regenerated (with `l.emit` running the regenerated `(*lexer).emit`), followed by the
model's `lexFragment` loop from where it hands over, sends exactly the model's `Parse.tokens` — for every
input; in particular neither `l.input[l.pos:]` nor `l.input[l.start:l.pos]` is ever out of bounds. -/
theorem lexPrefixFlow_eq_model (s : Bytes) :
    resume s (evalLexPrefix Gen.hash_parse.lexPrefixFlow s) = some (Parse.tokens s) :=
  resume_evalLexPrefix s

/-- What the regenerated `lexPrefix` sends and where it resumes, in closed form. -/
theorem lexPrefixFlow_closed_form (s : Bytes) :
    evalLexPrefix Gen.hash_parse.lexPrefixFlow s =
      match s with
      | [] => some ([], some 0)
      | c :: rest =>
        if c = 36 then
          match Parse.indexDelim rest with
          | none => some ([.error s.length 2], none)
          | some 0 => some ([.error 1 1], none)
          | some (i + 1) => some ([.pfx 0 (s.take (i + 3))], some (i + 3))
        else if c = 95 then some ([.pfx 0 [95]], some 1)
        else some ([], some 0) :=
  evalLexPrefix_eq s

/-- The prefix the regenerated lexer reports is the prefix the dispatcher looks up (C07 (d), here
between the regenerated `lexPrefix` and `Dispatch.prefixOf`, which `checkFlow_eq_model` ties to the
regenerated `Check`): where `Check` finds no prefix the lexer sends one error token and stops; otherwise
it sends exactly that prefix as its prefix token (nothing for the empty prefix) and resumes after it. -/
theorem lexPrefixFlow_prefix_eq_dispatch (s : Bytes) :
    (prefixOf s = none →
      ∃ pos msg, evalLexPrefix Gen.hash_parse.lexPrefixFlow s = some ([.error pos msg], none)) ∧
    (∀ p, prefixOf s = some p →
      evalLexPrefix Gen.hash_parse.lexPrefixFlow s = some (if p = [] then [] else [.pfx 0 p], some p.length)) :=
  evalLexPrefix_prefixOf s

/-- Both functions lie wholly inside the translated fragment (no `other` node), and the interpreter
binds the parameter names the translator recorded. -/
theorem translated_fragment :
    SFlow.othersList Gen.crypt.checkFlow.body = 0 ∧ SFlow.othersList Gen.crypt.registerFlow.body = 0 ∧
    Gen.crypt.checkFlow.params = [("hash", "string"), ("password", "string")] ∧
    Gen.crypt.checkFlow.results = ["error"] ∧
    Gen.crypt.registerFlow.params = [("prefix", "string"), ("check", SFlowVal.handlerTy)] ∧
    Gen.crypt.registerFlow.results = [] := by decide

theorem translated_fragment_lexer :
    SFlow.othersList Gen.hash_parse.lexPrefixFlow.body = 0 ∧ SFlow.othersList Gen.hash_parse.lexerEmitFlow.body = 0 ∧
    Gen.hash_parse.lexPrefixFlow.params = [("l", "*lexer")] ∧ Gen.hash_parse.lexPrefixFlow.results = ["stateFn"] ∧
    Gen.hash_parse.lexerEmitFlow.params = [("l", "*lexer"), ("t", "tokenType")] ∧
    Gen.hash_parse.lexerEmitFlow.results = [] := by decide

/-! ## Non-vacuity: the interpreter really runs the regenerated programs -/

/-- Registration history `"$1$" ↦ 10`, `"_" ↦ 20`, `"$md5," ↦ 30`, then `"$1$" ↦ 11` again. -/
def reg : Registry Nat :=
  [([36, 49, 36], 11), ([36, 109, 100, 53, 44], 30), ([95], 20), ([36, 49, 36], 10)]

/-- the password "pw" -/
def pw : Bytes := [112, 119]

/-- `"$1$abc"`: the latest handler registered for `"$1$"`, arguments unchanged -/
example : evalCheck reg Gen.crypt.checkFlow [36, 49, 36, 97, 98, 99] pw = some (.call 11 [36, 49, 36, 97, 98, 99] pw) := by decide
/-- `"_abc"` -/
example : evalCheck reg Gen.crypt.checkFlow [95, 97, 98, 99] pw = some (.call 20 [95, 97, 98, 99] pw) := by decide
/-- `"abc"`: the empty prefix, which nobody registered -/
example : evalCheck reg Gen.crypt.checkFlow [97, 98, 99] pw = some .errHash := by decide
/-- `"abc"` with a handler registered for the empty prefix -/
example : evalCheck (([], 7) :: reg) Gen.crypt.checkFlow [97, 98, 99] pw = some (.call 7 [97, 98, 99] pw) := by decide
/-- `"$"`: unterminated identifier -/
example : evalCheck reg Gen.crypt.checkFlow [36] pw = some .errHash := by decide
/-- `"$$x"`: empty identifier -/
example : evalCheck reg Gen.crypt.checkFlow [36, 36, 120] pw = some .errHash := by decide
/-- `"$md5,rounds=5$x"`: the prefix ends at the comma -/
example : evalCheck reg Gen.crypt.checkFlow
    [36, 109, 100, 53, 44, 114, 111, 117, 110, 100, 115, 61, 53, 36, 120] pw =
    some (.call 30 [36, 109, 100, 53, 44, 114, 111, 117, 110, 100, 115, 61, 53, 36, 120] pw) := by decide
/-- `"$md5$x"`: `"$md5$"` is another prefix than `"$md5,"` -/
example : evalCheck reg Gen.crypt.checkFlow [36, 109, 100, 53, 36, 120] pw = some .errHash := by decide
/-- the empty hash -/
example : evalCheck reg Gen.crypt.checkFlow [] pw = some .errHash := by decide
/-- `RegisterHash("$2b$", 5)` -/
example : evalRegister reg Gen.crypt.registerFlow [36, 50, 98, 36] 5 = some (([36, 50, 98, 36], 5) :: reg) := by decide

/-- The bounds checks are live: the statement `prefix = hash[:i+2]` alone, with `i` beyond the string,
panics; an untranslated statement is stuck; a program that calls the handler but returns `ErrHash`
is not read as a model outcome. -/
example : (match runCheck reg { Gen.crypt.checkFlow with body :=
      [.declare "prefix" "string", .define ["i"] (.const "5"),
       .assign ["prefix"] (.op "[:_]" (.var "hash") (.op "+" (.var "i") (.const "2"))), .ret [.const "crypt.ErrHash"]] }
      [36, 49, 36] pw with
    | .panic _ => true | _ => false) = true := by decide
example : (match runCheck reg { Gen.crypt.checkFlow with body := [.other "for {}", .ret [.const "crypt.ErrHash"]] }
      [36, 49, 36] pw with
    | .stuck _ => true | _ => false) = true := by decide
example : evalCheck reg { Gen.crypt.checkFlow with body :=
      [.define ["check", "ok"] (.app (.app (.fn "(*sync.Map).Load") (.const "crypt.hashCache")) (.const "\"_\"")),
       .eval (.app (.app (.un "assert:func(hash string, password string) error" (.var "check")) (.var "hash")) (.var "password")),
       .ret [.const "crypt.ErrHash"]] } [95] pw = none := by decide

/-- `"$1$abc"`: one prefix token `"$1$"` at offset 0, `lexFragment` resumes at 3 -/
example : evalLexPrefix Gen.hash_parse.lexPrefixFlow [36, 49, 36, 97, 98, 99] = some ([.pfx 0 [36, 49, 36]], some 3) := by decide
example : evalLexPrefix Gen.hash_parse.lexPrefixFlow [95, 97, 98, 99] = some ([.pfx 0 [95]], some 1) := by decide
example : evalLexPrefix Gen.hash_parse.lexPrefixFlow [97, 98, 99] = some ([], some 0) := by decide
/-- `"$"`: "missing prefix end" at offset 1 -/
example : evalLexPrefix Gen.hash_parse.lexPrefixFlow [36] = some ([.error 1 2], none) := by decide
/-- `"$$x"`: "missing prefix identifier" at offset 1 -/
example : evalLexPrefix Gen.hash_parse.lexPrefixFlow [36, 36, 120] = some ([.error 1 1], none) := by decide
/-- `"$md5,rounds=5$x"` -/
example : evalLexPrefix Gen.hash_parse.lexPrefixFlow
    [36, 109, 100, 53, 44, 114, 111, 117, 110, 100, 115, 61, 53, 36, 120] =
    some ([.pfx 0 [36, 109, 100, 53, 44]], some 5) := by decide
/-- `"$1$_abc"`: after the `$1$` prefix no second `_` prefix is sent (the `else if` of the repaired source) -/
example : evalLexPrefix Gen.hash_parse.lexPrefixFlow [36, 49, 36, 95, 97] = some ([.pfx 0 [36, 49, 36]], some 3) := by decide
/-- `emit` with `start > pos` panics in `l.input[l.start:l.pos]` -/
example : (match lprims.call "(*lexer).emit" [.ext .lexer, .int 1] { input := [97, 98], pos := 1, start := 2 } with
    | .panic _ => true | _ => false) = true := by decide

end GoCrypt.DispatchFlow

#print axioms GoCrypt.DispatchFlow.checkFlow_eq_model
#print axioms GoCrypt.DispatchFlow.checkFlow_registry_unchanged
#print axioms GoCrypt.DispatchFlow.checkFlow_returns
#print axioms GoCrypt.DispatchFlow.registerFlow_eq_model
#print axioms GoCrypt.DispatchFlow.translated_fragment
#print axioms GoCrypt.DispatchFlow.lexPrefixFlow_eq_model
#print axioms GoCrypt.DispatchFlow.lexPrefixFlow_closed_form
#print axioms GoCrypt.DispatchFlow.lexPrefixFlow_prefix_eq_dispatch
#print axioms GoCrypt.DispatchFlow.translated_fragment_lexer
