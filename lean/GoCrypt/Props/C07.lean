import GoCrypt.Model.Dispatch
import GoCrypt.Proofs.Parse
import GoCrypt.Spec.RefParse
import GoCrypt.Gen.Facts
import GoCrypt.Proofs.Dispatch
import GoCrypt.Props.DispatchFlow

/-!
# C07 — top-level Check dispatches on the hash prefix to the latest registered checker

Property theorems only. `Dispatch.check` models `crypt.Check`; `RefParse.refPrefix` is the prefix
rule written from the property statement; `Gen.Facts` is regenerated from the source on every run.
-/

namespace GoCrypt.C07
open Bytes GoCrypt.Parse GoCrypt.Dispatch GoCrypt.RefParse

/-- (a) The dispatcher's prefix rule is the one in the statement: a leading `$` through the next
`$`/`,` inclusive; `_`; the empty prefix otherwise; no prefix (⇒ unknown-hash) iff the `$`
identifier is empty or unterminated. -/
theorem prefixOf_spec (h : Bytes) :
    prefixOf h = (match refPrefix h with
                  | .error _ => none
                  | .ok (p, _) => some (p.getD [])) := by
  unfold prefixOf refPrefix
  cases h with
  | nil => rfl
  | cons c rest =>
    by_cases hc : c = dollar
    · subst hc
      simp only [if_true]
      cases hi : indexDelim rest with
      | none => simp [takeWhile_of_indexDelim_none rest hi]
      | some i =>
        have hl := takeWhile_of_indexDelim_some rest i hi
        have hlt := indexDelim_lt rest i hi
        cases i with
        | zero =>
          simp only [hl]
          by_cases h0 : 0 = rest.length <;> simp [h0]
        | succ i =>
          simp only [hl]
          have : ¬ (i + 1 = rest.length) := by omega
          simp [this]
    · by_cases hu : c = underscore
      · subst hu
        have hne : underscore ≠ dollar := by decide
        simp [hne]
      · simp [hc, hu]

/-- (b) Refinement: after any registration history the dispatcher behaves like a last-writer-wins
map keyed by the prefix — it calls the latest handler registered for the hash's prefix with hash and
password unchanged, and returns the unknown-hash sentinel (calling nobody) exactly when the prefix is
ill-formed or no handler was ever registered for it. -/
theorem check_refines_registry {α} (hist : List (Bytes × α)) (h pw : Bytes) :
    check (replay [] hist) h pw =
      (match prefixOf h with
       | none => .errHash
       | some p => match lastReg hist p with
                   | some f => .call f h pw
                   | none => .errHash) := by
  unfold check
  cases prefixOf h with
  | none => rfl
  | some p =>
    simp only [lookup_replay]
    cases lastReg hist p <;> simp [lookup]

/-- (c) Registering one prefix never changes the routing of a hash with another prefix. -/
theorem register_independent {α} (r : Registry α) (p : Bytes) (f : α) (h pw : Bytes)
    (hne : prefixOf h ≠ some p) : check (register r p f) h pw = check r h pw := by
  unfold check
  cases hp : prefixOf h with
  | none => rfl
  | some q =>
    have : p ≠ q := by intro e; subst e; exact hne hp
    simp [register, lookup, this]

/-- (c') …and re-registration replaces the handler for exactly that prefix. -/
theorem register_overrides {α} (r : Registry α) (p : Bytes) (f : α) (h pw : Bytes)
    (hp : prefixOf h = some p) : check (register r p f) h pw = .call f h pw := by
  simp [check, hp, register, lookup]

/-- (d) The dispatcher mirrors the hash lexer: it finds no prefix exactly when `parse` fails … -/
theorem prefixOf_none_iff_parse_error (h : Bytes) :
    prefixOf h = none ↔ ∃ o m, parse h = .err o m := by
  rcases parse_cases h with ⟨rest, hs, hi, hp⟩ | ⟨rest, hs, hi, hp⟩ | ⟨t, hp, _⟩
  · subst hs; simp [prefixOf, hi, hp]
  · subst hs; simp [prefixOf, hi, hp]
  · constructor
    · intro hn
      exfalso
      unfold parse tokens at hp
      unfold prefixOf at hn
      cases h with
      | nil => simp at hn
      | cons c rest =>
        by_cases hc : c = dollar
        · subst hc
          simp only [if_true] at hn hp
          cases hi : indexDelim rest with
          | none => simp [hi, parseToks] at hp
          | some i => cases i with
            | zero => simp [hi, parseToks] at hp
            | succ i => simp [hi] at hn
        · by_cases hu : c = underscore
          · subst hu
            have hne : underscore ≠ dollar := by decide
            simp [hne] at hn
          · simp [hc, hu] at hn
    · rintro ⟨o, m, he⟩; rw [hp] at he; cases he

/-- … and otherwise the prefix it dispatches on is the prefix node of the parse tree (the empty
prefix when the tree has none). -/
theorem prefixOf_eq_parse_prefix (h : Bytes) (t : Tree) (hp : parse h = .ok t) :
    prefixOf h = some (t.pfx.getD []) := by
  unfold parse tokens at hp
  unfold prefixOf
  cases h with
  | nil =>
    have := frag_loop_pfx _ _ _ _ _ hp
    simp [this]
  | cons c rest =>
    by_cases hc : c = dollar
    · subst hc
      simp only [if_true] at hp ⊢
      cases hi : indexDelim rest with
      | none => simp [hi, parseToks] at hp
      | some i =>
        cases i with
        | zero => simp [hi, parseToks] at hp
        | succ i =>
          simp only [hi, parseToks] at hp ⊢
          have := frag_loop_pfx _ _ _ _ _ hp
          simp [this]
    · by_cases hu : c = underscore
      · subst hu
        have hne : underscore ≠ dollar := by decide
        simp only [hne, if_false, if_true, parseToks] at hp ⊢
        have := frag_loop_pfx _ _ _ _ _ hp
        simp [this]
      · simp only [hc, hu, if_false] at hp ⊢
        have := frag_loop_pfx _ _ _ _ _ hp
        simp [this]

/-- (e) Every exported `Prefix*` constant of a scheme package is registered, inside that package's
`init`, with that package's `Check` (facts regenerated from the current source). -/
theorem builtins_registered :
    ∀ e ∈ GoCrypt.Gen.Facts.prefixConsts,
      (e.1, e.2.1, some e.2.2, "Check", true) ∈ GoCrypt.Gen.Facts.registrations := by
  decide

/-- (e') No registration happens outside `init`, and none with a non-constant prefix. -/
theorem registrations_only_in_init :
    ∀ e ∈ GoCrypt.Gen.Facts.registrations, e.2.2.2.2 = true ∧ e.2.2.1.isSome = true := by
  decide

/-! Non-vacuity -/
example : prefixOf [36, 50, 98, 36, 49, 48] = some [36, 50, 98, 36] := by decide   -- "$2b$10" ↦ "$2b$"
example : prefixOf [36, 36] = none := by decide
example : check (replay [] [([95], 1), ([36, 97, 36], 2), ([95], 3)]) [95, 120] [] = .call 3 [95, 120] [] := by decide
example : GoCrypt.Gen.Facts.prefixConsts.length = 15 := by decide

#print axioms prefixOf_spec
#print axioms check_refines_registry
#print axioms register_independent
#print axioms register_overrides
#print axioms prefixOf_none_iff_parse_error
#print axioms prefixOf_eq_parse_prefix
#print axioms builtins_registered
#print axioms registrations_only_in_init

-- the dispatcher IS the current code (Props/DispatchFlow.lean): crypt.Check / RegisterHash and the lexer's lexPrefix, regenerated from the source into a
-- structured IR, evaluate to the hand models for all inputs (no slice in Check can panic; the registry is unchanged by Check)
#print axioms GoCrypt.DispatchFlow.checkFlow_eq_model
#print axioms GoCrypt.DispatchFlow.checkFlow_registry_unchanged
#print axioms GoCrypt.DispatchFlow.checkFlow_returns
#print axioms GoCrypt.DispatchFlow.registerFlow_eq_model
#print axioms GoCrypt.DispatchFlow.translated_fragment
#print axioms GoCrypt.DispatchFlow.lexPrefixFlow_prefix_eq_dispatch
end GoCrypt.C07
