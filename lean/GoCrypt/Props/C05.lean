import GoCrypt.Props.KdfProps
import GoCrypt.Props.C11Core
import GoCrypt.Props.C16
import GoCrypt.Props.C17
import GoCrypt.Props.KdfIR
import GoCrypt.Props.ParseFlow
import GoCrypt.Props.B64IRNoPanic
import GoCrypt.Props.KdfIR2
import GoCrypt.Props.MiscIR
import GoCrypt.Props.DesIR

/-!
# C05 — no input makes an exported function panic or hang

Every model function is a total Lean definition (structural or well-founded recursion checked by
the kernel), and Go's partial operations are explicit in the models (`Option`/`.panic`). The
theorems below say the explicit panic value is unreachable: the parser never stores a nil value and
always returns; the KDF skeletons return a key for EVERY password length (the defect repaired in
`sha2crypt.duplicate` lived exactly here); every base64 alphabet index is in range; the streaming
state machines are total. Panics inside reflect/strconv/stdlib crypto and hangs on the Go side are
covered by the outcome-class correspondence suites (recover + watchdog), not by proof.
-/

namespace GoCrypt.C05

#print axioms GoCrypt.C11.parse_total
#print axioms GoCrypt.C11.groups_nonempty
#print axioms GoCrypt.C11.lexer_never_blocked
#print axioms GoCrypt.KdfProps.md5crypt_total
#print axioms GoCrypt.KdfProps.sha2crypt_total
#print axioms GoCrypt.KdfProps.sunmd5_total
#print axioms GoCrypt.KdfProps.sha1_total
#print axioms GoCrypt.KdfProps.md5crypt_total_gen
#print axioms GoCrypt.KdfProps.sha256crypt_total_gen
#print axioms GoCrypt.KdfProps.sha512crypt_total_gen
#print axioms GoCrypt.KdfProps.sunmd5_total_gen
#print axioms GoCrypt.KdfProps.sha1_total_gen
#print axioms GoCrypt.KdfProps.duplicate_spec_caller
#print axioms GoCrypt.C16.sym_index_lt
#print axioms GoCrypt.C16.decode_encode
#print axioms GoCrypt.C17.enc_err_sticky

-- the KDF bodies ARE the current code (Props/KdfIR.lean): the hash-transcript IR regenerated from md5crypt.Encrypt, sha2crypt.Encrypt/duplicate,
-- cryptoutil.Permute and the HMAC loop of sha1.Key, interpreted generically in H, equals the hand-written skeletons for all inputs (panics included)
#print axioms GoCrypt.KdfIR.md5crypt_ir_eq_model
#print axioms GoCrypt.KdfIR.sha2crypt_ir_eq_model
#print axioms GoCrypt.KdfIR.sha256crypt_ir_eq_model
#print axioms GoCrypt.KdfIR.sha512crypt_ir_eq_model
#print axioms GoCrypt.KdfIR.sha2crypt_ir_unsupported_hash
#print axioms GoCrypt.KdfIR.sha2crypt_ir_zero_rounds
#print axioms GoCrypt.KdfIR.duplicate_ir_eq_model
#print axioms GoCrypt.KdfIR.permute_ir_eq_model
#print axioms GoCrypt.KdfIR.sha1_ir_eq_model
-- the regenerated parser never panics and always terminates
#print axioms GoCrypt.ParseFlow.parseFlow_never_panics
#print axioms GoCrypt.ParseFlow.parseFlow_terminates
#print axioms GoCrypt.ParseFlow.parseFlow_returns
-- the regenerated base64le loops (Encode/Decode/decodeQuantum bodies from the Go source) never panic: DecodeString on any text, EncodeToString on any bytes
#print axioms GoCrypt.B64IR.decodeString_ir_never_panics
#print axioms GoCrypt.B64IR.encodeToString_ir_never_panics
#print axioms GoCrypt.B64IR.decodeQuantum_ir_eq_model
-- the regenerated Key glue of the remaining schemes returns the model's result (a key or a typed error, never the IR's panic) for every input
#print axioms GoCrypt.KdfIR2.sunmd5_key_tail_ir_eq_derive
#print axioms GoCrypt.KdfIR2.desext_key_tail_ir_eq_derive
#print axioms GoCrypt.KdfIR2.des_key_tail_ir_eq_derive
#print axioms GoCrypt.KdfIR2.nthash_key_tail_ir_eq_derive
#print axioms GoCrypt.KdfIR2.nthash_encodePassword_ir_eq_model
#print axioms GoCrypt.KdfIR2.bcrypt_key_tail_ir_eq_derive
-- hashutil.Rand / cryptoutil.Rand / randRounds as regenerated panic only when the entropy source fails; Decode/IndexAnyInvalid/Encode never do
#print axioms GoCrypt.MiscIR.rand_ir_eq_model
#print axioms GoCrypt.MiscIR.encode_ir_eq_model
#print axioms GoCrypt.MiscIR.decode_ir_eq_table
#print axioms GoCrypt.MiscIR.indexAnyInvalid_ir_eq_model
#print axioms GoCrypt.MiscIR.cryptoutil_rand_ir_eq_model
#print axioms GoCrypt.MiscIR.randRounds_ir_eq_model
-- the regenerated DES core returns for every key, block, salt and round count (no table index out of range)
#print axioms GoCrypt.DesIRProps.encrypt_ir_eq_model
#print axioms GoCrypt.DesIRProps.keySchedules_ir_eq_model
end GoCrypt.C05
