import GoCrypt.Props.C11Core
import GoCrypt.Props.C10
import GoCrypt.Spec.Respell
import GoCrypt.Props.Accept
import GoCrypt.Props.C10General
import GoCrypt.Props.TiWf
import GoCrypt.Props.TypeInfoIR
import GoCrypt.Props.CodecIR
import GoCrypt.Props.CodecIRLink
import GoCrypt.Props.CodecIRU
import GoCrypt.Props.CodecIRU2
import GoCrypt.Props.CodecIRU3
import GoCrypt.Props.CodecIRU3Link
import GoCrypt.Props.CodecIRU3Closed

/-!
# C20 — Unmarshal accepts only respellings of what Marshal would have written

`Spec/Respell.lean` is the decidable specification of the tolerated respellings; the `codec` suite
evaluates it on every string the real `Unmarshal` accepts. The kernel-checked part here is that
nothing can be dropped or re-cut before the codec sees it: the parser is lossless, equals the
split-based reference parser, never hides a delimiter inside a value, and inverts rendering.
`accepts_only_respellings` as a theorem for all strings is not proved yet (see MANIFEST level note).
-/

namespace GoCrypt.C20
open GoCrypt.Codec GoCrypt.Respell

/-- The canonical string is a respelling of itself, on a concrete instance of every feature class
(sanity of the specification; evaluated by the kernel). -/
theorem respell_reflexive_examples :
    -- positional fields
    respell { fields := [{ index := [0], name := "A", kind := .string, ptrDepth := 0, typeName := "", tag := [], marshalText := .none, unmarshalText := .none, opts := {} },
                         { index := [1], name := "B", kind := .uint 8, ptrDepth := 0, typeName := "", tag := [], marshalText := .none, unmarshalText := .none, opts := {} }],
              numReqValues := 2 }
      [([0], .str [97]), ([1], .uint 7)] [97, 36, 55] = true ∧
    -- leading zero and trailing delimiter are tolerated, a different number is not
    respell { fields := [{ index := [0], name := "A", kind := .string, ptrDepth := 0, typeName := "", tag := [], marshalText := .none, unmarshalText := .none, opts := {} },
                         { index := [1], name := "B", kind := .uint 8, ptrDepth := 0, typeName := "", tag := [], marshalText := .none, unmarshalText := .none, opts := {} }],
              numReqValues := 2 }
      [([0], .str [97]), ([1], .uint 7)] [97, 36, 48, 55, 36] = true ∧
    respell { fields := [{ index := [0], name := "A", kind := .string, ptrDepth := 0, typeName := "", tag := [], marshalText := .none, unmarshalText := .none, opts := {} },
                         { index := [1], name := "B", kind := .uint 8, ptrDepth := 0, typeName := "", tag := [], marshalText := .none, unmarshalText := .none, opts := {} }],
              numReqValues := 2 }
      [([0], .str [97]), ([1], .uint 7)] [97, 36, 56] = false ∧
    -- junk after the last field is not a respelling
    respell { fields := [{ index := [0], name := "A", kind := .string, ptrDepth := 0, typeName := "", tag := [], marshalText := .none, unmarshalText := .none, opts := {} }],
              numReqValues := 1 }
      [([0], .str [97])] [97, 36, 120] = false := by
  decide

#print axioms respell_reflexive_examples
-- nothing is dropped, re-cut or hidden before the codec sees the fragments
#print axioms GoCrypt.C11.parse_lossless
#print axioms GoCrypt.C11.parse_eq_ref
#print axioms GoCrypt.C11.values_no_delim
#print axioms GoCrypt.C11.groups_surface_once
#print axioms GoCrypt.C11.spans_exact
#print axioms GoCrypt.C10.parse_render
#print axioms GoCrypt.C10.parse_render_groups
-- accepted ⇒ tolerated respelling of the canonical form, for every string, per shipped layout
#print axioms GoCrypt.Accept.accepts_only_respellings_md5
#print axioms GoCrypt.Accept.accepts_only_respellings_sha1
#print axioms GoCrypt.Accept.accepts_only_respellings_sha256
#print axioms GoCrypt.Accept.accepts_only_respellings_sha512
#print axioms GoCrypt.Accept.accepts_only_respellings_nthash
#print axioms GoCrypt.Accept.accepts_only_respellings_des
#print axioms GoCrypt.Accept.accepts_only_respellings_desext
#print axioms GoCrypt.Accept.accepts_only_respellings_bcrypt
#print axioms GoCrypt.Accept.accepts_only_respellings_sunmd5
#print axioms GoCrypt.Accept.accepts_only_respellings_argon2

-- THE GENERAL CONVERSE (Props/C10General.lean): for an ARBITRARY struct type with consistent options, every string Unmarshal accepts
-- is a tolerated respelling of what Marshal writes for the value read
#print axioms GoCrypt.C10General.accepted_respell_all
#print axioms GoCrypt.C10General.accepted_respell
#print axioms GoCrypt.C10General.accepted_respell4
#print axioms GoCrypt.C10General.accepted_respell6
#print axioms GoCrypt.C10General.accepted_respell7
#print axioms GoCrypt.C10General.accepted_respell_L1
#print axioms GoCrypt.C10General.accepted_respell_L2
#print axioms GoCrypt.C10General.accepted_respell_L3
#print axioms GoCrypt.C10General.accepted_respell_L4
#print axioms GoCrypt.C10General.accepted_respell_L6_nogroups
#print axioms GoCrypt.C10General.accepted_respell_L6
#print axioms GoCrypt.C10General.needs_optOk
#print axioms GoCrypt.C10General.needs_desIntLength
#print axioms GoCrypt.C10General.needs_intNoLength
#print axioms GoCrypt.C10General.needs_arrayLength

-- the type-info hypothesis discharged (Props/TiWf.lean): every TypeInfo that the model of getTypeInfo builds from supported field types is well-formed,
-- so the general theorem holds for every struct type getTypeInfo accepts
#print axioms GoCrypt.TiWf.typeInfoOf_tiWf_iff
#print axioms GoCrypt.TiWf.typeInfoOf_tiWf
#print axioms GoCrypt.TiWf.typeInfoOf_core
#print axioms GoCrypt.TiWf.shipped_supported
#print axioms GoCrypt.TiWf.accepted_respell_of_typeInfoOf
-- the type-info layer IS the current code (Props/TypeInfoIR.lean): getRawTypeInfo (tag-parsing loop, embedded-struct recursion), (*typeInfo).field (with sort.Slice as ANY sorted permutation),
-- normalize and the cold path of getTypeInfo regenerated from hash/typeinfo.go on every run (records behind pointers, reflect.Type as operations over the struct descriptions) = fieldOpts/rawFields/resolveParam/normalizeLoop/typeInfoOf
#print axioms GoCrypt.TypeInfoIR.no_unknown_nodes
#print axioms GoCrypt.TypeInfoIR.indirectType_eq
#print axioms GoCrypt.TypeInfoIR.tagLoop_eq_fieldOpts
#print axioms GoCrypt.TypeInfoIR.field_eq_resolveParam
#print axioms GoCrypt.TypeInfoIR.field_not_stuck_for_sorted_permutations
#print axioms GoCrypt.TypeInfoIR.merge_sort_is_good
#print axioms GoCrypt.TypeInfoIR.normalize_eq_normalizeLoop
#print axioms GoCrypt.TypeInfoIR.normalize_eq_normalizeLoop_exact
#print axioms GoCrypt.TypeInfoIR.getRawTypeInfo_eq_rawFields
#print axioms GoCrypt.TypeInfoIR.rawFields_paths_valid
#print axioms GoCrypt.TypeInfoIR.getTypeInfo_cold_eq_typeInfoOf
#print axioms GoCrypt.TypeInfoIR.getTypeInfo_cold_eq_typeInfoOf_exact
#print axioms GoCrypt.TypeInfoIR.example_outer_is_in_the_domain
-- the Marshal side IS the current code (Props/CodecIR.lean)
#print axioms GoCrypt.CodecIR.no_unknown_nodes
#print axioms GoCrypt.CodecIR.marshal_eq_model
#print axioms GoCrypt.CodecIR.marshal_eq_marshalRaw
-- Marshal with getTypeInfo linked to the regenerated type-info layer (Props/CodecIRLink.lean): no hypothesis about getTypeInfo beyond a cold cache
#print axioms GoCrypt.CodecIR.getTypeInfoOk_of_coldPost
#print axioms GoCrypt.CodecIR.getTypeInfoErr_of_coldPost
#print axioms GoCrypt.CodecIR.marshal_getTypeInfo_error
#print axioms GoCrypt.CodecIR.marshal_eq_model_typeInfoOf
-- the Unmarshal side (Props/CodecIRU.lean): Unmarshal/unmarshal/newUnmarshalError/unmarshalIndirect are regenerated (no unknown node) and run, as #guard examples, against Codec.unmarshal + finalVals on six scheme structs and every error class;
-- proved so far: pointer allocation, the error record, the text half of unmarshal (= fieldText: trimming, length/inline rule, alphabet check) and the whole of unmarshal for string fields; the remaining kinds and the field loop are tied by the correspondence suites
#print axioms GoCrypt.CodecIRU.unmarshalIndirect_allocates
#print axioms GoCrypt.CodecIRU.newUnmarshalError_eq
#print axioms GoCrypt.CodecIRU.newErrSpec_callIn
#print axioms GoCrypt.CodecIRU.fieldText_eq_lenRule
#print axioms GoCrypt.CodecIRU.unmarshal_string
#print axioms GoCrypt.CodecIRU.unmarshalText_witness
-- Unmarshal, continued (Props/CodecIRU2.lean): the regenerated unmarshal on a value node = fieldText then storeValue for EVERY field kind (bytes, arrays, all integer widths, pointers, text unmarshalers, prefix rule,
-- unsupported types); one iteration of the field loop = stepField and the whole loop = loopFields for struct descriptions without grouped params; the checks after the loop = the end of unmarshalTree.
-- Not yet proved: the grouped-param clause of the loop and the top-level assembly (both run against the model as #guard examples and tied by the correspondence suites)
#print axioms GoCrypt.CodecIRU.unmarshal_value_eq_model
#print axioms GoCrypt.CodecIRU.unmarshal_prefix_eq_model
#print axioms GoCrypt.CodecIRU.step_eq_stepField
#print axioms GoCrypt.CodecIRU.loop_eq_loopFields
#print axioms GoCrypt.CodecIRU.after_loop_eq_model
#print axioms GoCrypt.CodecIRU.callsU_callIn
-- Unmarshal IS the current code (Props/CodecIRU3*.lean): the whole regenerated Unmarshal — prologue, HashPrefix, the field loop with grouped params, the end checks — on a zero destination returns nil with the cells holding
-- finalVals ti out when Codec.unmarshal ti hash = .ok out, or an error of the model's class; with getTypeInfo from the regenerated type-info program and closed instances for the shipped scheme structs (every hash under 300 bytes)
#print axioms GoCrypt.CodecIRU.unmarshal_getTypeInfo_error
#print axioms GoCrypt.CodecIRU.unmarshalIndirect_root_eq
#print axioms GoCrypt.CodecIRU.unmarshal_eq_model_of_loopTail
#print axioms GoCrypt.CodecIRU.unmarshal_eq_model_nogroup
#print axioms GoCrypt.CodecIRU.step_eq_stepField_general
#print axioms GoCrypt.CodecIRU.loop_eq_loopFields_general
#print axioms GoCrypt.CodecIRU.after_loop_eq_model_general
#print axioms GoCrypt.CodecIRU.unmarshal_eq_model
#print axioms GoCrypt.CodecIRU.unmarshal_eq_model_typeInfoOf
#print axioms GoCrypt.CodecIRU.parseOkAt_extU
#print axioms GoCrypt.CodecIRU.indirectTypeOk_extU
#print axioms GoCrypt.CodecIRU.fieldStringOk_extU
#print axioms GoCrypt.CodecIRU.getTypeInfoOk_extU
#print axioms GoCrypt.CodecIRU.unmarshal_closed_of_checks
#print axioms GoCrypt.CodecIRU.unmarshal_sha256_closed
#print axioms GoCrypt.CodecIRU.unmarshal_bcrypt_closed
#print axioms GoCrypt.CodecIRU.unmarshal_sunmd5_closed
#print axioms GoCrypt.CodecIRU.unmarshal_argon2_closed
end GoCrypt.C20
