import GoCrypt.Model.Scheme
import GoCrypt.Proofs.Guards
import GoCrypt.Gen.Facts
import GoCrypt.Gen.Flow
import GoCrypt.Props.MiscIR

/-!
# C15 — every generated hash carries a fresh, full-strength random salt

The deterministic half: the salt as a function of the entropy `crypto/rand` delivers. That the
operating system's source is unpredictable and non-repeating is outside any model (the statistical
run in the `salt` suite is a test and labelled as such).
-/

namespace GoCrypt.C15
open Bytes GoCrypt.Scheme GoCrypt.Codec

/-- `Encoding.Rand(n)` consumes one byte per symbol: the salt has exactly as many symbols as bytes
were drawn, whatever the bytes. -/
theorem randSymbols_length (alphabet e : Bytes) : (randSymbols alphabet e).length = e.length := by
  simp [randSymbols]

/-- Every symbol of a generated salt lies in the alphabet (for an alphabet of 64 symbols). -/
theorem randSymbols_in_alphabet (alphabet e : Bytes) (h : alphabet.length = 64) :
    ∀ c ∈ randSymbols alphabet e, c ∈ alphabet := by
  intro c hc
  simp only [randSymbols, List.mem_map] at hc
  obtain ⟨b, _, rfl⟩ := hc
  have hlt : b.toNat % 64 < alphabet.length := by omega
  have : alphabet.getD (b.toNat % 64) 0 = alphabet[b.toNat % 64] := by
    simp [List.getD, List.getElem?_eq_getElem hlt]
  rw [this]
  exact List.getElem_mem _

/-- No symbol is starved and the code introduces no bias: `k ↦ alphabet[k]` is a bijection from
`[0, 64)` onto the crypt alphabet, and a byte contributes exactly its low six bits (each index has
exactly four pre-images among the 256 byte values). -/
theorem symbol_map_bijective :
    hashAlphabet.length = 64 ∧ hashAlphabet.Nodup ∧
    ∀ k : Fin 64, ((List.range 256).filter fun b => b % 64 = k.val).length = 4 := by
  refine ⟨by decide, by decide, by decide⟩

/-- Where the salt encodes raw bytes (bcrypt 16, Argon2 8), distinct entropy gives distinct salts:
the standard base64 text of a byte string determines the bytes. Stated for the two lengths used. -/
theorem stdEncode_length (alphabet b : Bytes) : (Kdf.stdEncode alphabet b).length = (b.length * 8 + 5) / 6 := by
  fun_induction Kdf.stdEncode alphabet b with
  | case1 b0 b1 b2 rest v ih => simp [ih]; omega
  | case2 b0 b1 v => simp
  | case3 b0 v => simp
  | case4 => simp

/-- bcrypt: 16 entropy bytes give the 22-symbol salt; Argon2: 8 bytes give 11 symbols. -/
theorem raw_salt_lengths : (16 * 8 + 5) / 6 = Gen.bcrypt.SaltLength ∧ (8 * 8 + 5) / 6 = Gen.argon2.DefaultSaltLength := by
  decide

/-- SHA-1-crypt's randomised round count stays inside its documented window, for every 32-bit draw. -/
theorem sha1_randRounds_window (x : Nat) (_hx : x < 4294967296) :
    18511 ≤ Gen.sha1.randRounds x ∧ Gen.sha1.randRounds x ≤ 24680 := by
  rw [GoCrypt.Guards.randRounds_eq]; omega

/-- Source purity: every import of a package named `rand` in non-test sources is `crypto/rand`
(facts regenerated from the current tree). -/
theorem rand_source_pure : ∀ e ∈ GoCrypt.Gen.Facts.randImports, e.2 = "crypto/rand" := by decide

/-- Fresh per call: every `NewHash` body (except NT hash, which has no salt) itself calls a random
generator (`Encoding.Rand` or `cryptoutil.Rand`) — the salt is not taken from package state. -/
def mentionsRand : GoCrypt.Flow.FExpr → Bool
  | .fn n => n == "hashutil.HashEncoding.Rand" || n == "cryptoutil.Rand"
  | .app f a => mentionsRand f || mentionsRand a
  | .op _ a b => mentionsRand a || mentionsRand b
  | .un _ a => mentionsRand a
  | _ => false

def callsRand (p : List GoCrypt.Flow.FStmt) : Bool :=
  p.any fun s => match s with
    | .assign _ e => mentionsRand e
    | .eval e => mentionsRand e
    | _ => false

theorem fresh_per_call :
    callsRand Gen.md5.flowNewHash ∧ callsRand Gen.sha256.flowNewHash ∧ callsRand Gen.sha512.flowNewHash ∧
    callsRand Gen.sha1.flowNewHash ∧ callsRand Gen.sunmd5.flowNewHash ∧ callsRand Gen.des.flowNewHash ∧
    callsRand Gen.desext.flowNewHash ∧ callsRand Gen.bcrypt.flowNewHash ∧ callsRand Gen.argon2.flowNewHash := by
  decide

#print axioms randSymbols_length
#print axioms randSymbols_in_alphabet
#print axioms symbol_map_bijective
#print axioms stdEncode_length
#print axioms raw_salt_lengths
#print axioms sha1_randRounds_window
#print axioms rand_source_pure
#print axioms fresh_per_call

-- the salt generators ARE the current code (Props/MiscIR.lean): hashutil.NewEncoding/Encode/Decode/IndexAnyInvalid/Rand, cryptoutil.Rand and sha1.randRounds regenerated from the source
-- (crypto/rand as a scripted entropy reader: rand.Int(Reader, 64) = one byte & 0x3F, rand.Read = io.ReadFull) = randSymbols / the next n entropy bytes / the randRounds kernel; entropy consumed exactly
#print axioms GoCrypt.MiscIR.no_unknown_nodes
#print axioms GoCrypt.MiscIR.calls_are_described
#print axioms GoCrypt.MiscIR.newEncoding_ir_eq_model
#print axioms GoCrypt.MiscIR.newEncoding_ir_hEncAt
#print axioms GoCrypt.MiscIR.decodeTable_outside
#print axioms GoCrypt.MiscIR.decodeTable_inside
#print axioms GoCrypt.MiscIR.decodeTable_ff_iff
#print axioms GoCrypt.MiscIR.decodeTable_hash
#print axioms GoCrypt.MiscIR.decodeTable_base64
#print axioms GoCrypt.MiscIR.packageVars_ir
#print axioms GoCrypt.MiscIR.packageVars_hEncAt
#print axioms GoCrypt.MiscIR.encode_ir_eq_model
#print axioms GoCrypt.MiscIR.decode_ir_eq_table
#print axioms GoCrypt.MiscIR.hash_table_entry
#print axioms GoCrypt.MiscIR.decode_ir_hash_eq_model
#print axioms GoCrypt.MiscIR.indexAnyInvalid_ir_eq_model
#print axioms GoCrypt.MiscIR.firstBad_eq
#print axioms GoCrypt.MiscIR.firstInvalid_eq_indexAnyInvalid
#print axioms GoCrypt.MiscIR.rand_ir_eq_model
#print axioms GoCrypt.MiscIR.rand_ir_result_bytes
#print axioms GoCrypt.MiscIR.rand_ir_panics_negative
#print axioms GoCrypt.MiscIR.rand_ir_panics_exhausted
#print axioms GoCrypt.MiscIR.rand_ir_panics_short
#print axioms GoCrypt.MiscIR.shipped_alphabets_64
#print axioms GoCrypt.MiscIR.read_short_ir_panics
#print axioms GoCrypt.MiscIR.cryptoutil_rand_ir_eq_model
#print axioms GoCrypt.MiscIR.cryptoutil_rand_ir_panics
#print axioms GoCrypt.MiscIR.randRounds_ir_eq_model
#print axioms GoCrypt.MiscIR.randRounds_ir_window
#print axioms GoCrypt.MiscIR.randRounds_ir_panics_exhausted
#print axioms GoCrypt.MiscIR.readOnce_is_extCall
end GoCrypt.C15
