import GoCrypt.Proofs.KdfIR2Des
import GoCrypt.Proofs.KdfIR2Nt
import GoCrypt.Proofs.KdfIR2Tails
import GoCrypt.Proofs.KdfIR2Sun
import GoCrypt.Proofs.KdfIR2Bcrypt
import GoCrypt.Proofs.KdfIR2Len
import GoCrypt.Props.KdfIR
import GoCrypt.Model.Scheme
import GoCrypt.Proofs.CryptSpecs2Bcrypt

/-!
# The remaining key-derivation glue is what the Go source computes (second-generation IR)

`gogen` (kdfir2.go) re-translates, on every run, the key-derivation glue that `Props/KdfIR.lean` does
not cover into the programs of `Gen/KdfIR2.lean`; `Base/HashIR2.lean` interprets them for an arbitrary
hash function and arbitrary OPAQUE PRIMITIVES (`descrypt.Encrypt`, `hashutil.HashEncoding.Encode/Decode`,
`[]rune(s)`, `utf16.Encode`, the Blowfish operations). The theorems below state that interpreting the
regenerated programs gives exactly the hand-written models — for all inputs, panics included — and,
per scheme, that the tail of `Key` after its guard clauses is `Scheme.<scheme>.derive`.

The programs name their variables by SLOT (order of first appearance), so a pure rename of a local
variable or parameter in the Go source leaves `Gen/KdfIR2.lean` unchanged up to comments, and these
proofs untouched. Property theorems only; the lemmas are in `Proofs/KdfIR2*.lean`.
-/

namespace GoCrypt.KdfIR2
open GoCrypt.HashIR2 GoCrypt.Kdf GoCrypt.Scheme GoCrypt.Codec GoCrypt.Gen.KdfIR2

/-- `Key`'s result after the guards as an IR result. A typed guard error cannot occur there. -/
def ofKeyRes : KeyRes → Res Val
  | .ok k => .ok (.bytes k)
  | .panic => .panic
  | .internal w => .ok (.err w)
  | .err _ => .stuck "guard error after the guards"

theorem ofKeyRes_optToRes (r : Option Bytes) : ofKeyRes (optToRes r) = ofModel r := by
  cases r <;> rfl

/-! ## The opaque primitives with the models' meaning -/

/-- `descrypt.Encrypt` = the table-driven model `Des.encrypt` (on the unsigned values of the arguments),
`HashEncoding.Encode/Decode` = symbol / index in the regenerated hash alphabet (`0xFF` when absent),
`[]rune(s)` = the model's UTF-8 decoder, `utf16.Encode` = the model's surrogate-pair encoder. -/
def modelPrims : String → List Val → Res Val
  | "descrypt.Encrypt", [.int k, .int i, .int s, .int r] => .ok (nat (encryptNat k i s r))
  | "hashutil.HashEncoding.Encode", [.int x] => .ok (nat (hashAlphabet.getD x.toNat 255).toNat)
  | "hashutil.HashEncoding.Decode", [.int x] => .ok (nat (hashDecode (UInt8.ofNat x.toNat)))
  | "[]rune", [.bytes s] => .ok (.ints ((decodeRunes (s.length + 1) s).map Int.ofNat))
  | "utf16.Encode", [.ints l] => .ok (.ints (l.flatMap fun r => (utf16Units r.toNat).map Int.ofNat))
  | f, _ => .stuck ("no such function " ++ f)

theorem modelPrims_des : DesPrimSpec modelPrims encryptNat :=
  ⟨fun _ _ _ _ => rfl, encryptNat_lt, fun _ => rfl, fun _ => rfl⟩

/-! ## (a) DES -/

theorem des_derive_eq (a : KeyArgs) : Scheme.des.derive a =
    .ok (Des.be64 (Des.encrypt (Des.desKey a.password) 0 (UInt32.ofNat (desDecodeInt a.salt)) 25)) := rfl

theorem desext_derive_eq (a : KeyArgs) : Scheme.desext.derive a =
    .ok (Des.be64 (Des.encrypt (Des.desextKey a.password) 0 (UInt32.ofNat (desDecodeInt a.salt)) a.rounds)) := rfl

/-- `encryptNat` on values that come from the unsigned types is `Des.encrypt`. -/
theorem encryptNat_des (k : UInt64) (s : Nat) (r : Int) :
    UInt64.ofNat (encryptNat ↑k.toNat 0 ↑s r) = Des.encrypt k 0 (UInt32.ofNat s) r.toNat := by simp [encryptNat]

/-- `descrypt.Key(password)` as regenerated = `Des.desKey`, whatever the hash and the primitives. -/
theorem descrypt_key_ir_eq_model (π : Params) (pw : Bytes) :
    interp π des_descrypt.program "descrypt.Key" [.bytes pw] = .ok (nat (Des.desKey pw).toNat) := by
  rw [interp_proc π _ _ des_descrypt.proc_Key _ rfl]
  exact descrypt_key_proc _ pw

/-- `descrypt.EncodeInt(val)` as regenerated = `Codec.desEncodeInt`, for every `uint32` value and every
primitive `Encode` with the alphabet's meaning. -/
theorem descrypt_encodeInt_ir_eq_model (π : Params) {E : Int → Int → Int → Int → Nat} (hπ : DesPrimSpec π.prim E) (v : Nat) :
    interp π des_descrypt.program "descrypt.EncodeInt" [nat v] = .ok (.bytes (desEncodeInt v)) := by
  rw [interp_proc π _ _ des_descrypt.proc_EncodeInt _ rfl]
  exact descrypt_encodeInt_proc _ (desCalls_ctxOf π _ hπ noDesPrims_descrypt 2) v

/-- `descrypt.DecodeInt(b)` as regenerated = `Codec.desDecodeInt`, for every byte string. -/
theorem descrypt_decodeInt_ir_eq_model (π : Params) {E : Int → Int → Int → Int → Nat} (hπ : DesPrimSpec π.prim E) (b : Bytes) :
    interp π des_descrypt.program "descrypt.DecodeInt" [.bytes b] = .ok (nat (desDecodeInt b)) := by
  rw [interp_proc π _ _ des_descrypt.proc_DecodeInt _ rfl]
  exact descrypt_decodeInt_proc _ (desCalls_ctxOf π _ hπ noDesPrims_descrypt 2) b

/-- `desext.key(password)` as regenerated (the 8-byte-block fold, with `min`, `descrypt.Key` and the
slicing), for an ARBITRARY `descrypt.Encrypt` `E` with 64-bit results, is the fold `extNat E`. -/
theorem desext_key_ir_eq_fold (π : Params) {E : Int → Int → Int → Int → Nat} (hπ : DesPrimSpec π.prim E) (pw : Bytes) :
    interp π desext.program "desext.key" [.bytes pw] = .ok (nat (extNat E pw ((pw.length - 8 + 7) / 8))) := by
  rw [interp_proc π _ _ desext.proc_key _ rfl]
  exact desext_key_proc _ (desextCalls_ctxOf π hπ 3) pw

/-- … and = `Des.desextKey`, for every password, when `descrypt.Encrypt` is the model's DES. -/
theorem desext_key_ir_eq_model (π : Params) (hπ : DesPrimSpec π.prim encryptNat) (pw : Bytes) :
    interp π desext.program "desext.key" [.bytes pw] = .ok (nat (Des.desextKey pw).toNat) := by
  rw [← extNat_full]
  exact desext_key_ir_eq_fold π hπ pw

/-- The tail of `desext.Key` after its guards (`var b [8]byte; binary.BigEndian.PutUint64(b[:],
descrypt.Encrypt(key(password), 0, descrypt.DecodeInt(salt), rounds)); return b[:], nil`) =
`Scheme.desext.derive`, for every password, salt and round count. -/
theorem desext_key_tail_ir_eq_derive (π : Params) (hπ : DesPrimSpec π.prim encryptNat) (a : KeyArgs) :
    interp π desext.program "desext.Key" [.bytes a.password, .bytes a.salt, nat a.rounds] =
      ofKeyRes (Scheme.desext.derive a) := by
  rw [interp_proc π _ _ desext.proc_Key _ rfl, desext_derive_eq]
  have h := desext_key_tail_proc _ (desextTailCalls_ctxOf π hπ 2) a.password a.salt a.rounds
  rw [extNat_full, encryptNat_des, Int.toNat_natCast] at h
  exact h

/-- The tail of `des.Key` after its guards = `Scheme.des.derive`. -/
theorem des_key_tail_ir_eq_derive (π : Params) (hπ : DesPrimSpec π.prim encryptNat) (a : KeyArgs) :
    interp π des.program "des.Key" [.bytes a.password, .bytes a.salt] = ofKeyRes (Scheme.des.derive a) := by
  rw [interp_proc π _ _ des.proc_Key _ rfl, des_derive_eq]
  have h := des_key_tail_proc _ (desTailCalls_ctxOf π hπ 1) a.password a.salt
  rw [encryptNat_des] at h
  exact h

/-! ## (c) NT hash -/

/-- The model's `[]rune(s)` and `utf16.Encode` as functions on IR values. -/
def modelRunes (s : Bytes) : List Int := (decodeRunes (s.length + 1) s).map Int.ofNat
def modelU16 (l : List Int) : List Int := l.flatMap fun r => (utf16Units r.toNat).map Int.ofNat

theorem utf16Units_lt (r : Nat) : ∀ u ∈ utf16Units r, u < 65536 := by
  intro u hu
  unfold utf16Units at hu
  split at hu
  · next h => simp only [List.mem_singleton] at hu; omega
  · split at hu
    · simp only [List.mem_cons, List.not_mem_nil, or_false] at hu
      have h1 : (r - 0x10000) >>> 10 &&& 0x3FF ≤ 0x3FF := Nat.and_le_right
      have h2 : (r - 0x10000) &&& 0x3FF ≤ 0x3FF := Nat.and_le_right
      rcases hu with rfl | rfl <;> omega
    · simp only [List.mem_singleton] at hu; omega

theorem modelPrims_nt : NtPrimSpec modelPrims modelRunes modelU16 where
  runes _ := rfl
  encode _ := rfl
  unit_range l u hu := by
    simp only [modelU16, List.mem_flatMap, List.mem_map] at hu
    obtain ⟨r, _, n, hn, rfl⟩ := hu
    have := utf16Units_lt _ n hn
    constructor <;> simp only [Int.ofNat_eq_natCast] <;> omega

theorem flatMap_le2_model (l : List Nat) :
    (l.map Int.ofNat).flatMap le2 = l.flatMap fun u => [UInt8.ofNat u, UInt8.ofNat (u >>> 8)] := by
  induction l with
  | nil => rfl
  | cons u l ih =>
    simp only [List.map_cons, List.flatMap_cons, ih]
    congr 1

theorem modelU16_modelRunes (s : Bytes) :
    modelU16 (modelRunes s) = ((decodeRunes (s.length + 1) s).flatMap utf16Units).map Int.ofNat := by
  simp only [modelU16, modelRunes, List.flatMap_map, List.map_flatMap]
  rfl

/-- `nthash.Key` after its guard (`h := md4.New(); h.Write(password); return h.Sum(nil), nil`) is the
hash of the password — for every hash function `H` — hence `Scheme.nthash.derive` for `H = MD4`. -/
theorem nthash_key_tail_ir_eq_model (π : Params) (pw : Bytes) :
    interp π nthash.program "nthash.Key" [.bytes pw] = .ok (.bytes (π.H pw)) := by
  rw [interp_proc π _ _ nthash.proc_Key _ rfl]
  exact nthash_key_tail_proc _ pw

theorem nthash_key_tail_ir_eq_derive (π : Params) (hH : π.H = Prim.md4) (a : KeyArgs) :
    interp π nthash.program "nthash.Key" [.bytes a.password] = ofKeyRes (Scheme.nthash.derive a) := by
  rw [nthash_key_tail_ir_eq_model, hH]; rfl

/-- `nthash.encodePassword(s)` as regenerated (`utf16.Encode([]rune(s))`, then two little-endian bytes
per unit into a `make([]byte, len(a)*2)` buffer) = the model's `utf16le`, for every byte string `s`,
when the two primitives have the model's meaning. -/
theorem nthash_encodePassword_ir_eq_model (π : Params) (hπ : NtPrimSpec π.prim modelRunes modelU16) (s : Bytes) :
    interp π nthash.program "nthash.encodePassword" [.bytes s] = .ok (.bytes (utf16le s)) := by
  rw [interp_proc π _ _ nthash.proc_encodePassword _ rfl]
  have h := nthash_encodePassword_proc _ (ntCalls_ctxOf π hπ 1) s
  rw [modelU16_modelRunes, flatMap_le2_model] at h
  exact h

/-- … and for ARBITRARY primitives with 16-bit units: two little-endian bytes per unit. -/
theorem nthash_encodePassword_ir_eq_units (π : Params) {runes : Bytes → List Int} {u16 : List Int → List Int}
    (hπ : NtPrimSpec π.prim runes u16) (s : Bytes) :
    interp π nthash.program "nthash.encodePassword" [.bytes s] = .ok (.bytes ((u16 (runes s)).flatMap le2)) := by
  rw [interp_proc π _ _ nthash.proc_encodePassword _ rfl]
  exact nthash_encodePassword_proc _ (ntCalls_ctxOf π hπ 1) s

/-! ## (e) The tails of `md5.Key`, `sha256.Key`, `sha512.Key`, `sha1.Key` -/

/-- `md5.Key` after its guards (`return md5crypt.Encrypt(password, salt, prefixBytes), nil`, the callee
being the regenerated first-generation program) = the hand model, for every hash function. -/
theorem md5_key_tail_ir_eq_model (π : Params) (pw salt : Bytes) :
    interp π md5.program "md5.Key" [.bytes pw, .bytes salt] =
      ofModel (md5cryptEncrypt π.H (permNat Gen.md5_md5crypt.permFinal) pw salt Gen.md5.prefixBytes) := by
  rw [interp_proc π _ _ md5.proc_Key _ rfl]
  apply md5_key_tail_proc _ Gen.md5.prefixBytes pw salt _ rfl
  rw [ctxOf_call]
  show callIn π md5.program (0 + 1) _ _ = _
  rw [callIn_link π _ 0 _ Gen.md5_md5crypt.kdfProgram _
    [.bytes pw, .bytes salt, .bytes Gen.md5.prefixBytes] rfl rfl rfl]
  rw [← ofOldRes_ofModel]
  exact congrArg ofOldRes (KdfIR.md5crypt_ir_eq_model π.H π.HM π.size pw salt Gen.md5.prefixBytes)

theorem md5_key_tail_ir_eq_derive (π : Params) (hH : π.H = Prim.md5) (a : KeyArgs) :
    interp π md5.program "md5.Key" [.bytes a.password, .bytes a.salt] = ofKeyRes (Scheme.md5.derive a) := by
  rw [md5_key_tail_ir_eq_model, hH, ← ofKeyRes_optToRes]; rfl

/-- `sha256.Key` after its guards (`return sha2crypt.Encrypt(crypto.SHA256, password, salt, rounds,
permFinal[:])`) = the hand model, for every hash function with 32-byte digests and `0 < rounds < 2^32`
(the guards enforce `1000 ≤ rounds ≤ 999999999`). -/
theorem sha256_key_tail_ir_eq_model (π : Params) (hsize : π.size = 32) (hH : ∀ x, (π.H x).length = 32)
    (pw salt : Bytes) (rounds : Nat) (hr0 : 0 < rounds) (hr : rounds < 2 ^ 32) :
    interp π sha256.program "sha256.Key" [.bytes pw, .bytes salt, nat rounds] =
      ofModel (sha2cryptEncrypt π.H 32 (permNat Gen.sha256.permFinal) pw salt rounds) := by
  rw [interp_proc π _ _ sha256.proc_Key _ rfl]
  apply sha256_key_tail_proc _ (KdfIR.tableBytes Gen.sha256.permFinal) pw salt rounds _ rfl
  rw [ctxOf_call]
  show callIn π sha256.program (0 + 1) _ _ = _
  rw [callIn_link π _ 0 _ Gen.sha256_sha2crypt.kdfProgram _
    [.int 5, .bytes pw, .bytes salt, .int rounds, .bytes (KdfIR.tableBytes Gen.sha256.permFinal)] rfl rfl rfl]
  rw [← ofOldRes_ofModel, hsize]
  exact congrArg ofOldRes (KdfIR.sha256crypt_ir_eq_model π.H π.HM pw salt rounds hH hr0 hr)

theorem sha256_key_tail_ir_eq_derive (π : Params) (hsize : π.size = 32) (hH : π.H = Prim.sha256) (a : KeyArgs)
    (hr0 : 0 < a.rounds) (hr : a.rounds < 2 ^ 32) :
    interp π sha256.program "sha256.Key" [.bytes a.password, .bytes a.salt, nat a.rounds] =
      ofKeyRes (Scheme.sha256.derive a) := by
  rw [sha256_key_tail_ir_eq_model π hsize (by rw [hH]; exact KdfIR2Len.sha256_length) _ _ _ hr0 hr, hH,
    ← ofKeyRes_optToRes]
  rfl

/-- `sha512.Key` after its guards, likewise (64-byte digests). -/
theorem sha512_key_tail_ir_eq_model (π : Params) (hsize : π.size = 64) (hH : ∀ x, (π.H x).length = 64)
    (pw salt : Bytes) (rounds : Nat) (hr0 : 0 < rounds) (hr : rounds < 2 ^ 32) :
    interp π sha512.program "sha512.Key" [.bytes pw, .bytes salt, nat rounds] =
      ofModel (sha2cryptEncrypt π.H 64 (permNat Gen.sha512.permFinal) pw salt rounds) := by
  rw [interp_proc π _ _ sha512.proc_Key _ rfl]
  apply sha512_key_tail_proc _ (KdfIR.tableBytes Gen.sha512.permFinal) pw salt rounds _ rfl
  rw [ctxOf_call]
  show callIn π sha512.program (0 + 1) _ _ = _
  rw [callIn_link π _ 0 _ Gen.sha256_sha2crypt.kdfProgram _
    [.int 7, .bytes pw, .bytes salt, .int rounds, .bytes (KdfIR.tableBytes Gen.sha512.permFinal)] rfl rfl rfl]
  rw [← ofOldRes_ofModel, hsize]
  exact congrArg ofOldRes (KdfIR.sha512crypt_ir_eq_model π.H π.HM pw salt rounds hH hr0 hr)

theorem sha512_key_tail_ir_eq_derive (π : Params) (hsize : π.size = 64) (hH : π.H = Prim.sha512) (a : KeyArgs)
    (hr0 : 0 < a.rounds) (hr : a.rounds < 2 ^ 32) :
    interp π sha512.program "sha512.Key" [.bytes a.password, .bytes a.salt, nat a.rounds] =
      ofKeyRes (Scheme.sha512.derive a) := by
  rw [sha512_key_tail_ir_eq_model π hsize (by rw [hH]; exact KdfIR2Len.sha512_length) _ _ _ hr0 hr, hH,
    ← ofKeyRes_optToRes]
  rfl

/-- `sha1.Key` after its guards is already a first-generation program (`Gen.sha1.kdfProgram`, from
`h := hmac.New(sha1.New, password)` on): with HMAC-SHA1 for `HM` it is `Scheme.sha1.derive`, for
`1 ≤ rounds < 2^32` (the guards enforce `MinRounds = 1`). -/
theorem sha1_key_tail_ir_eq_derive (H : Bytes → Bytes) (size : Nat) (a : KeyArgs) (h1 : 1 ≤ a.rounds) (hr : a.rounds < 2 ^ 32) :
    ofOldRes (HashIR.interp H Prim.hmacSha1 size Gen.sha1.kdfProgram Gen.sha1.kdfEntry
        [.bytes a.password, .bytes a.salt, .int a.rounds]) = ofKeyRes (Scheme.sha1.derive a) := by
  rw [KdfIR.sha1_ir_eq_model H Prim.hmacSha1 size a.password a.salt a.rounds KdfIR2Len.hmacSha1_length h1 hr,
    ofOldRes_ofModel, ← ofKeyRes_optToRes]
  rfl

/-! ## (b) Sun MD5 -/

set_option maxRecDepth 100000 in
theorem sunCalls_ctxOf (π : Params) (d : Nat) :
    SunCalls (ctxOf π sunmd5.program (d + 1)) Gen.sunmd5.phrase (KdfIR.tableBytes Gen.sunmd5.permFinal) where
  bit dg off hd := by
    rw [ctxOf_call, callIn_proc π _ d "sunmd5.Key.func1" sunmd5.proc_Key_func1 _ rfl]
    exact sunmd5_bit_proc _ dg hd off
  permute b t := by
    rw [ctxOf_call, callIn_link π _ d _ Gen.md5_md5crypt.kdfProgram _ [.bytes b, .bytes t] rfl rfl rfl,
      ← ofOldRes_ofModel]
    exact congrArg ofOldRes (KdfIR.permute_ir_eq_model π.H π.HM π.size b t)
  phrase := by rw [ctxOf_globals]; rfl
  permFinal := by rw [ctxOf_globals]; rfl

/-- `sunmd5.Key` from `rounds += BasicRounds` on (the statements after `crypthash.Marshal`: the initial
digest, the closure `bit`, the two `ind7` loops, the coin flip, `h.Reset()`, `strconv.FormatUint`, the
final `Permute`), as regenerated, = the hand model `sunmd5Derive` — for every hash function with 16-byte
digests, every password, salt string and `uint32` round count. -/
theorem sunmd5_key_tail_ir_eq_model (π : Params) (hH : ∀ x, (π.H x).length = 16) (pw ss : Bytes) (rounds : Nat) :
    interp π sunmd5.program "sunmd5.Key" [.bytes pw, nat rounds, .bytes ss] =
      ofModel (sunmd5Derive π.H Gen.sunmd5.phrase (permNat Gen.sunmd5.permFinal) pw ss rounds) := by
  rw [interp_proc π _ _ sunmd5.proc_Key _ rfl, SunMd5.sunmd5Derive_eq π.H hH]
  have ht : (KdfIR.tableBytes Gen.sunmd5.permFinal).map (·.toNat) = permNat Gen.sunmd5.permFinal := by decide
  rw [← ht]
  exact sunmd5_key_proc _ (sunCalls_ctxOf π 1) hH pw ss rounds

theorem sunmd5_derive_eq (a : KeyArgs) (ss : Bytes) (hss : sunSaltString a = some ss) :
    Scheme.sunmd5.derive a =
      optToRes (sunmd5Derive Prim.md5 Gen.sunmd5.phrase (permNat Gen.sunmd5.permFinal) a.password ss a.rounds) := by
  unfold Scheme.sunmd5
  simp only [hss]

/-- … hence `Scheme.sunmd5.derive` (MD5, the marshalled salt string of the model). -/
theorem sunmd5_key_tail_ir_eq_derive (π : Params) (hH : π.H = Prim.md5) (a : KeyArgs) (ss : Bytes)
    (hss : sunSaltString a = some ss) :
    interp π sunmd5.program "sunmd5.Key" [.bytes a.password, nat a.rounds, .bytes ss] =
      ofKeyRes (Scheme.sunmd5.derive a) := by
  rw [sunmd5_key_tail_ir_eq_model π (by rw [hH]; exact KdfIR2Len.md5_length) _ _ _, hH, sunmd5_derive_eq a ss hss,
    ofKeyRes_optToRes]

/-! ## (d) bcrypt -/

/-- A Blowfish state as an IR value: the five arrays, each preceded by its size. -/
def encArr (a : Array UInt32) : List Int := (a.size : Int) :: a.toList.map fun x => (x.toNat : Int)

def encB (c : Prim.Blowfish) : Val := .ints (encArr c.p ++ (encArr c.s0 ++ (encArr c.s1 ++ (encArr c.s2 ++ encArr c.s3))))

def takeArr : List Int → Array UInt32 × List Int
  | [] => (#[], [])
  | n :: rest => (((rest.take n.toNat).map fun i => UInt32.ofNat i.toNat).toArray, rest.drop n.toNat)

def decB : Val → Prim.Blowfish
  | .ints l =>
    let (p, l) := takeArr l
    let (s0, l) := takeArr l
    let (s1, l) := takeArr l
    let (s2, l) := takeArr l
    let (s3, _) := takeArr l
    ⟨p, s0, s1, s2, s3⟩
  | _ => ⟨#[], #[], #[], #[], #[]⟩

theorem takeArr_encArr (a : Array UInt32) (rest : List Int) : takeArr (encArr a ++ rest) = (a, rest) := by
  have hl : (a.toList.map fun x => (x.toNat : Int)).length = a.size := by simp
  simp only [encArr, List.cons_append, takeArr, Int.toNat_natCast]
  rw [← hl, List.take_left, List.drop_left, List.map_map]
  have : ((fun i : Int => UInt32.ofNat i.toNat) ∘ fun x : UInt32 => (x.toNat : Int)) = id := by
    funext x; simp
  rw [this, List.map_id, Array.toArray_toList]

theorem decB_encB (c : Prim.Blowfish) : decB (encB c) = c := by
  have h := takeArr_encArr c.s3 []
  rw [List.append_nil] at h
  simp only [decB, encB, takeArr_encArr, h]

/-- The Blowfish primitives with the model's meaning (`errMsg` = `KeySizeError(0).Error()`). -/
def blowfishKeyErr : String := "crypto/blowfish: invalid key size 0"

def blowfishPrims : String → List Val → Res Val
  | "blowfish.NewSaltedCipher", [.bytes k, .bytes s] =>
    if k = [] then .ok (.err blowfishKeyErr) else .ok (encB (Prim.Blowfish.newSaltedCipher k s))
  | "blowfish.ExpandKey", [.bytes k, v] => .ok (encB (Prim.Blowfish.expandKey k (decB v)))
  | "blowfish.Cipher.Encrypt", [v, .bytes src] => .ok (.bytes (Prim.Blowfish.encrypt8 (decB v) src))
  | f, _ => .stuck ("no such function " ++ f)

/-- The specification of the Blowfish primitives is satisfiable: `blowfishPrims` meets it. -/
theorem blowfishPrims_spec : BcryptPrimSpec blowfishPrims encB Prim.Blowfish.newSaltedCipher Prim.Blowfish.expandKey
    Prim.Blowfish.encrypt8 blowfishKeyErr where
  enc_not_err _ := rfl
  newCipher key salt hk := by simp only [blowfishPrims, hk, if_false]
  newCipher_empty _ := rfl
  expandKey key k := by simp only [blowfishPrims, decB_encB]
  encrypt k src _ := by
    show blowfishPrims "blowfish.Cipher.Encrypt" [.ints _, .bytes src] = _
    simp only [blowfishPrims]
    rw [show (Val.ints _) = encB k from rfl, decB_encB]
  encrypt_length := C03bProofs.encrypt8_length

/-- The Go result of `encode` for a model result: `none` (an empty key) is the error `setup` builds. -/
def ofBcrypt (errMsg : String) : Option Bytes → Res Val
  | some b => .ok (.bytes b)
  | none => .ok (.err ("failed to create blowfish cipher: " ++ errMsg))

/-- The model's `encode(key0, decSalt, cost, prefix)`: `bcryptDerive` from the rewritten password on. -/
def bcryptEncodeModel (pfx key0 decSalt : Bytes) (cost : Nat) : Option Bytes :=
  let key := if pfx ≠ prefix2 then key0 ++ [0] else key0
  if key.isEmpty then none else
  let c := Prim.Blowfish.newSaltedCipher key decSalt
  let c := expandLoop key decSalt (2 ^ cost) c
  let b := (encryptTimes c 64 (orphean.take 8)) ++ (encryptTimes c 64 ((orphean.drop 8).take 8)) ++ (encryptTimes c 64 (orphean.drop 16))
  some (b.take 23)

theorem bcryptDerive_eq (pfx pw decSalt : Bytes) (cost : Nat) :
    bcryptDerive pfx pw decSalt cost = bcryptEncodeModel pfx (bcryptPassword pfx pw) decSalt cost := rfl

theorem expandLoop_step (key salt : Bytes) : ∀ n c, expandLoop key salt n (Prim.Blowfish.expandKey salt (Prim.Blowfish.expandKey key c)) =
    Prim.Blowfish.expandKey salt (Prim.Blowfish.expandKey key (expandLoop key salt n c))
  | 0, _ => rfl
  | n + 1, c => by rw [expandLoop, expandLoop_step key salt n, expandLoop]

theorem expandLoopG_eq (key salt : Bytes) : ∀ n c, expandLoopG Prim.Blowfish.expandKey key salt n c = expandLoop key salt n c
  | 0, _ => rfl
  | n + 1, c => by rw [expandLoopG, expandLoopG_eq key salt n, expandLoop, expandLoop_step]

theorem encryptTimes_step (c : Prim.Blowfish) : ∀ n b, encryptTimes c n (Prim.Blowfish.encrypt8 c b) =
    Prim.Blowfish.encrypt8 c (encryptTimes c n b)
  | 0, _ => rfl
  | n + 1, b => by rw [encryptTimes, encryptTimes_step c n, encryptTimes]

theorem encTimesG_eq (c : Prim.Blowfish) : ∀ n b, encTimesG Prim.Blowfish.encrypt8 c n b = encryptTimes c n b
  | 0, _ => rfl
  | n + 1, b => by rw [encTimesG, encTimesG_eq c n, encryptTimes, encryptTimes_step]

theorem prefixG_orphean (c : Prim.Blowfish) :
    prefixG Prim.Blowfish.encrypt8 c orpheanG 3 =
      encryptTimes c 64 (orphean.take 8) ++ encryptTimes c 64 ((orphean.drop 8).take 8) ++ encryptTimes c 64 (orphean.drop 16) := by
  have h0 : blockG orpheanG 0 = orphean.take 8 := by decide
  have h1 : blockG orpheanG 1 = (orphean.drop 8).take 8 := by decide
  have h2 : blockG orpheanG 2 = orphean.drop 16 := by decide
  have hr : List.range 3 = [0, 1, 2] := by decide
  simp only [prefixG, hr, List.flatMap_cons, List.flatMap_nil, List.append_nil, encTimesG_eq, h0, h1, h2, List.append_assoc]

theorem encodeG_eq_model (pfx key0 decSalt : Bytes) (cost : Nat) :
    Res.ok (encodeG Prim.Blowfish.encrypt8 Prim.Blowfish.newSaltedCipher Prim.Blowfish.expandKey blowfishKeyErr pfx key0 decSalt cost) =
      ofBcrypt blowfishKeyErr (bcryptEncodeModel pfx key0 decSalt cost) := by
  unfold encodeG bcryptEncodeModel keyG
  have hp : prefix2 = [36, 50, 36] := rfl
  rw [hp]
  by_cases hk : (if pfx ≠ [36, 50, 36] then key0 ++ [0] else key0) = []
  · simp only [hk, if_true, List.isEmpty_nil, ofBcrypt]
  · have hk' : (if pfx ≠ [36, 50, 36] then key0 ++ [0] else key0).isEmpty = false := by
      cases h : (if pfx ≠ [36, 50, 36] then key0 ++ [0] else key0) with
      | nil => exact absurd h hk
      | cons _ _ => rfl
    simp only [hk, if_false, hk', Bool.false_eq_true, ofBcrypt, expandLoopG_eq, prefixG_orphean]

/-- The password rewriting of `bcrypt.Key` between its first two guards (`n := len(password)`; 2b: cut
to 72 bytes; older prefixes: 254 bytes or more become seventy-two `'0'`s), as regenerated, = the model's
`bcryptPassword`, for every password and prefix. -/
theorem bcrypt_rewrite_ir_eq_model (π : Params) (pw pfx : Bytes) :
    interp π bcrypt.program "bcrypt.Key.between1" [.bytes pw, .bytes pfx] = .ok (.bytes (bcryptPassword pfx pw)) := by
  rw [interp_proc π _ _ bcrypt.proc_Key_between1 _ rfl]
  exact bcrypt_rewrite_proc _ pw pfx

/-- `bcrypt.encode(key, salt, cost, prefix)` as regenerated — `setup` (NUL terminator unless `$2$`, the
error of an empty key, the `1<<cost` key-expansion loop) and the 3 × 64 ECB loop over the magic string —
= the model, for every key, salt, cost and prefix, when the Blowfish primitives have the model's meaning. -/
theorem bcrypt_encode_ir_eq_model (π : Params)
    (hπ : BcryptPrimSpec π.prim encB Prim.Blowfish.newSaltedCipher Prim.Blowfish.expandKey Prim.Blowfish.encrypt8 blowfishKeyErr)
    (pfx key0 decSalt : Bytes) (cost : Nat) :
    interp π bcrypt.program "bcrypt.encode" [.bytes key0, .bytes decSalt, nat cost, .bytes pfx] =
      ofBcrypt blowfishKeyErr (bcryptEncodeModel pfx key0 decSalt cost) := by
  rw [interp_proc π _ _ bcrypt.proc_encode _ rfl, ← encodeG_eq_model]
  exact bcrypt_encode_proc _ (bcryptCalls_ctxOf π hπ 3) key0 decSalt pfx cost (bcrypt_setup_call π hπ 2 key0 decSalt pfx cost)

/-- The rewriting followed by `encode` is `bcryptDerive`. -/
theorem bcrypt_ir_eq_bcryptDerive (π : Params)
    (hπ : BcryptPrimSpec π.prim encB Prim.Blowfish.newSaltedCipher Prim.Blowfish.expandKey Prim.Blowfish.encrypt8 blowfishKeyErr)
    (pfx pw decSalt : Bytes) (cost : Nat) :
    (interp π bcrypt.program "bcrypt.Key.between1" [.bytes pw, .bytes pfx] >>= fun pw' =>
      interp π bcrypt.program "bcrypt.encode" [pw', .bytes decSalt, nat cost, .bytes pfx]) =
      ofBcrypt blowfishKeyErr (bcryptDerive pfx pw decSalt cost) := by
  rw [bcrypt_rewrite_ir_eq_model, ok_bind, bcrypt_encode_ir_eq_model π hπ, bcryptDerive_eq]

/-- `Key`'s result after the guards as an IR result, for bcrypt: the untyped error carries Go's text. -/
def ofKeyResBcrypt : KeyRes → Res Val
  | .ok k => .ok (.bytes k)
  | .internal _ => .ok (.err ("failed to create blowfish cipher: " ++ blowfishKeyErr))
  | .panic => .panic
  | .err _ => .stuck "guard error after the guards"

/-- The tail of `bcrypt.Key` after its last guard (`return encode(password, decSalt, cost, opts.Prefix)`)
= `Scheme.bcrypt.derive` (whose arguments are the already rewritten password and the salt text). -/
theorem bcrypt_key_tail_ir_eq_derive (π : Params)
    (hπ : BcryptPrimSpec π.prim encB Prim.Blowfish.newSaltedCipher Prim.Blowfish.expandKey Prim.Blowfish.encrypt8 blowfishKeyErr)
    (a : KeyArgs) :
    interp π bcrypt.program "bcrypt.Key"
        [.bytes a.password, nat a.rounds, .bytes a.optPrefix, .bytes (stdDecodeBuf bcryptAlphabet a.salt)] =
      ofKeyResBcrypt (Scheme.bcrypt.derive a) := by
  rw [interp_proc π _ _ bcrypt.proc_Key _ rfl]
  show execProc (ctxOf π bcrypt.program (1 + 3)) _ _ = _
  rw [bcrypt_key_tail_proc _ _ _ _ _ _ (bcrypt_encode_call π hπ 1 a.password (stdDecodeBuf bcryptAlphabet a.salt) a.optPrefix a.rounds),
    encodeG_eq_model]
  show _ = ofKeyResBcrypt (
    let key := if a.optPrefix ≠ prefix2 then a.password ++ [0] else a.password
    if key.isEmpty then .internal "cipher" else _)
  unfold bcryptEncodeModel
  by_cases hk : (if a.optPrefix ≠ prefix2 then a.password ++ [0] else a.password).isEmpty = true
  · simp only [hk, if_true, ofBcrypt, ofKeyResBcrypt]
  · simp only [hk, Bool.false_eq_true, if_false, ofBcrypt, ofKeyResBcrypt]

/-! ## Non-vacuity: the interpreter computes, with toy and with real primitives -/

def toyPw : Bytes := (List.range 21).map UInt8.ofNat
def toySalt4 : Bytes := [46, 47, 65, 122]          -- "./Az"

/-- A toy `descrypt.Encrypt` (any function with 64-bit results will do for `desext_key_ir_eq_fold`). -/
def toyE (k i s r : Int) : Nat := (k.toNat * 31 + i.toNat * 17 + s.toNat * 7 + r.toNat + 5) % 2 ^ 64

def toyDesPrims : String → List Val → Res Val
  | "descrypt.Encrypt", [.int k, .int i, .int s, .int r] => .ok (nat (toyE k i s r))
  | f, args => modelPrims f args

-- descrypt.Key / EncodeInt / DecodeInt
#guard interp { H := KdfIR.toyH 16 } des_descrypt.program "descrypt.Key" [.bytes toyPw] == .ok (nat (Des.desKey toyPw).toNat)
#guard interp { H := KdfIR.toyH 16 } des_descrypt.program "descrypt.Key" [.bytes [97, 98, 99]] == .ok (nat 0xC2C4C60000000000)
#guard interp { H := KdfIR.toyH 16, prim := modelPrims } des_descrypt.program "descrypt.EncodeInt" [nat 5001] ==
  .ok (.bytes (Bytes.ofString "7C/."))
#guard interp { H := KdfIR.toyH 16, prim := modelPrims } des_descrypt.program "descrypt.DecodeInt" [.bytes (Bytes.ofString "7C/.")] ==
  .ok (nat 5001)
-- desext.key with a toy Encrypt: the fold, and with the model's DES: `desextKey`
#guard interp { H := KdfIR.toyH 16, prim := toyDesPrims } desext.program "desext.key" [.bytes toyPw] ==
  .ok (nat (extNat toyE toyPw 2))
#guard interp { H := KdfIR.toyH 16, prim := modelPrims } desext.program "desext.key" [.bytes toyPw] ==
  .ok (nat (Des.desextKey toyPw).toNat)
-- the tails of desext.Key / des.Key against the scheme-level derive
#guard interp { H := KdfIR.toyH 16, prim := modelPrims } desext.program "desext.Key" [.bytes toyPw, .bytes toySalt4, nat 3] ==
  ofKeyRes (Scheme.desext.derive { password := toyPw, salt := toySalt4, rounds := 3 })
#guard interp { H := KdfIR.toyH 16, prim := modelPrims } des.program "des.Key" [.bytes [112, 119], .bytes [97, 98]] ==
  ofKeyRes (Scheme.des.derive { password := [112, 119], salt := [97, 98] })
-- without the primitives the same program is stuck (a third outcome, never a value)
#guard interp { H := KdfIR.toyH 16 } des.program "des.Key" [.bytes [112, 119], .bytes [97, 98]] ==
  .stuck "no such function hashutil.HashEncoding.Decode"

-- nthash: "aä€😀" and an invalid byte
def toyUtf8 : Bytes := [97, 0xC3, 0xA4, 0xE2, 0x82, 0xAC, 0xF0, 0x9F, 0x98, 0x80, 0xFF]
#guard interp { H := Prim.md4, prim := modelPrims } nthash.program "nthash.encodePassword" [.bytes toyUtf8] ==
  .ok (.bytes [0x61, 0, 0xE4, 0, 0xAC, 0x20, 0x3D, 0xD8, 0x00, 0xDE, 0xFD, 0xFF])
#guard interp { H := Prim.md4, prim := modelPrims } nthash.program "nthash.encodePassword" [.bytes toyUtf8] ==
  .ok (.bytes (utf16le toyUtf8))
#guard interp { H := Prim.md4 } nthash.program "nthash.Key" [.bytes (utf16le toyUtf8)] ==
  ofKeyRes (Scheme.nthash.derive { password := utf16le toyUtf8 })

-- the tails that link first-generation programs
#guard interp { H := Prim.md5 } md5.program "md5.Key" [.bytes toyPw, .bytes KdfIR.toySalt] ==
  ofKeyRes (Scheme.md5.derive { password := toyPw, salt := KdfIR.toySalt })
#guard interp { H := Prim.sha256, size := 32 } sha256.program "sha256.Key" [.bytes toyPw, .bytes KdfIR.toySalt, nat 50] ==
  ofKeyRes (Scheme.sha256.derive { password := toyPw, salt := KdfIR.toySalt, rounds := 50 })
#guard interp { H := Prim.sha512, size := 64 } sha512.program "sha512.Key" [.bytes toyPw, .bytes KdfIR.toySalt, nat 50] ==
  ofKeyRes (Scheme.sha512.derive { password := toyPw, salt := KdfIR.toySalt, rounds := 50 })

-- Sun MD5: a toy 16-byte hash, and MD5 (4096 + 3 rounds)
#guard interp { H := KdfIR.toyH 16 } sunmd5.program "sunmd5.Key" [.bytes toyPw, nat 7, .bytes (Bytes.ofString "$md5,rounds=7$abc$")] ==
  ofModel (sunmd5Derive (KdfIR.toyH 16) Gen.sunmd5.phrase (permNat Gen.sunmd5.permFinal) toyPw (Bytes.ofString "$md5,rounds=7$abc$") 7)
#guard interp { H := Prim.md5 } sunmd5.program "sunmd5.Key" [.bytes toyPw, nat 3, .bytes (Bytes.ofString "$md5,rounds=3$abc$")] ==
  ofModel (sunmd5Derive Prim.md5 Gen.sunmd5.phrase (permNat Gen.sunmd5.permFinal) toyPw (Bytes.ofString "$md5,rounds=3$abc$") 3)
-- a 15-byte "hash": `digest[off]` is out of range in the first round, in the IR as in the model
#guard interp { H := KdfIR.toyH 15 } sunmd5.program "sunmd5.Key" [.bytes toyPw, nat 0, .bytes []] == .panic
#guard sunmd5Derive (KdfIR.toyH 15) Gen.sunmd5.phrase (permNat Gen.sunmd5.permFinal) toyPw [] 0 == none
-- the lifted closure on its own: bit 9 of the digest
#guard interp { H := KdfIR.toyH 16 } sunmd5.program "sunmd5.Key.func1" [.bytes ([0, 2] ++ List.replicate 14 0), nat 9] == .ok (nat 1)

-- bcrypt with a toy "cipher" (a number) …
def toyBfPrims : String → List Val → Res Val
  | "blowfish.NewSaltedCipher", [.bytes k, .bytes s] =>
    if k = [] then .ok (.err "empty key") else .ok (nat (k.length * 7 + s.length))
  | "blowfish.ExpandKey", [.bytes k, .int c] => .ok (nat ((c.toNat * 31 + k.length) % 65521))
  | "blowfish.Cipher.Encrypt", [.int c, .bytes src] => .ok (.bytes (src.map fun x => x + UInt8.ofNat c.toNat))
  | f, _ => .stuck ("no such function " ++ f)

#guard interp { H := KdfIR.toyH 16, prim := toyBfPrims } bcrypt.program "bcrypt.encode"
    [.bytes toyPw, .bytes toySalt4, nat 4, .bytes prefix2b] ==
  .ok (encodeG (κ := Nat) (fun c src => src.map fun x => x + UInt8.ofNat c) (fun k s => k.length * 7 + s.length)
    (fun k c => (c * 31 + k.length) % 65521) "empty key" prefix2b toyPw toySalt4 4)
#guard interp { H := KdfIR.toyH 16, prim := toyBfPrims } bcrypt.program "bcrypt.encode" [.bytes [], .bytes toySalt4, nat 4, .bytes prefix2] ==
  .ok (.err "failed to create blowfish cipher: empty key")
-- … and with Blowfish: the rewriting, `encode` and the tail of `Key` against the model
#guard interp { H := KdfIR.toyH 16 } bcrypt.program "bcrypt.Key.between1" [.bytes (List.replicate 300 65), .bytes prefix2] ==
  .ok (.bytes (List.replicate 72 48))
#guard interp { H := KdfIR.toyH 16 } bcrypt.program "bcrypt.Key.between1" [.bytes (List.replicate 300 65), .bytes prefix2b] ==
  .ok (.bytes (List.replicate 72 65))
#guard interp { H := KdfIR.toyH 16, prim := blowfishPrims } bcrypt.program "bcrypt.encode"
    [.bytes toyPw, .bytes ((List.range 16).map UInt8.ofNat), nat 4, .bytes prefix2b] ==
  ofBcrypt blowfishKeyErr (bcryptDerive prefix2b toyPw ((List.range 16).map UInt8.ofNat) 4)
#guard interp { H := KdfIR.toyH 16, prim := blowfishPrims } bcrypt.program "bcrypt.Key"
    [.bytes toyPw, nat 4, .bytes prefix2b, .bytes (stdDecodeBuf bcryptAlphabet (Bytes.ofString "R1lJ2gkNaoPGdafE.H.16."))] ==
  ofKeyResBcrypt (Scheme.bcrypt.derive { password := toyPw, salt := Bytes.ofString "R1lJ2gkNaoPGdafE.H.16.", rounds := 4, optPrefix := prefix2b })

-- the primitive table the generator emitted (what each opaque primitive is in the Go source)
#guard Gen.KdfIR2.primitives.map (·.1) == ["[]rune", "blowfish.Cipher.Encrypt", "blowfish.ExpandKey", "blowfish.NewSaltedCipher",
  "descrypt.Encrypt", "hashutil.HashEncoding.Decode", "hashutil.HashEncoding.Encode", "utf16.Encode"]
#guard Gen.KdfIR2.primitives.lookup "hashutil.HashEncoding.Decode" ==
  some "method Decode of var github.com/sergeymakinen/go-crypt/internal/hashutil.HashEncoding = NewEncoding(encoderHash)"

end GoCrypt.KdfIR2

#print axioms GoCrypt.KdfIR2.descrypt_key_ir_eq_model
#print axioms GoCrypt.KdfIR2.descrypt_encodeInt_ir_eq_model
#print axioms GoCrypt.KdfIR2.descrypt_decodeInt_ir_eq_model
#print axioms GoCrypt.KdfIR2.desext_key_ir_eq_fold
#print axioms GoCrypt.KdfIR2.desext_key_ir_eq_model
#print axioms GoCrypt.KdfIR2.desext_key_tail_ir_eq_derive
#print axioms GoCrypt.KdfIR2.des_key_tail_ir_eq_derive
#print axioms GoCrypt.KdfIR2.nthash_key_tail_ir_eq_model
#print axioms GoCrypt.KdfIR2.nthash_key_tail_ir_eq_derive
#print axioms GoCrypt.KdfIR2.nthash_encodePassword_ir_eq_model
#print axioms GoCrypt.KdfIR2.nthash_encodePassword_ir_eq_units
#print axioms GoCrypt.KdfIR2.md5_key_tail_ir_eq_model
#print axioms GoCrypt.KdfIR2.md5_key_tail_ir_eq_derive
#print axioms GoCrypt.KdfIR2.sha256_key_tail_ir_eq_model
#print axioms GoCrypt.KdfIR2.sha256_key_tail_ir_eq_derive
#print axioms GoCrypt.KdfIR2.sha512_key_tail_ir_eq_model
#print axioms GoCrypt.KdfIR2.sha512_key_tail_ir_eq_derive
#print axioms GoCrypt.KdfIR2.sha1_key_tail_ir_eq_derive
#print axioms GoCrypt.KdfIR2.sunmd5_key_tail_ir_eq_model
#print axioms GoCrypt.KdfIR2.sunmd5_key_tail_ir_eq_derive
#print axioms GoCrypt.KdfIR2.blowfishPrims_spec
#print axioms GoCrypt.KdfIR2.bcrypt_rewrite_ir_eq_model
#print axioms GoCrypt.KdfIR2.bcrypt_encode_ir_eq_model
#print axioms GoCrypt.KdfIR2.bcrypt_ir_eq_bcryptDerive
#print axioms GoCrypt.KdfIR2.bcrypt_key_tail_ir_eq_derive
