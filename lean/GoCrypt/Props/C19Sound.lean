import GoCrypt.Proofs.FlowNI
import GoCrypt.Proofs.FlowDemo

/-!
# C19, semantically: the syntactic discipline is sound for a cost semantics

`Spec/FlowSem.lean` gives the flow IR a semantics in which every uninterpreted operation has an
arbitrary value and an arbitrary cost that may depend on everything the operation sees; only
`subtle.ConstantTimeCompare`, the encoders, `len` and `x[:]` are assumed (`Trusted`) to have a cost
(and output length) that depends on argument *lengths* only.  `Proofs/FlowNI.lean` proves
non-interference for programs accepted by the strengthened checker `secretSafe'`.

`secretSafe` itself is **not** sound: three leaks it accepts are exhibited below
(`gap_len_leaks`, `gap_field_leaks`, `gap_encoder_source_leaks`).  The ten generated `Check`
programs satisfy the strengthened checker too.

Not covered (neither by the checkers nor by the semantics): a `Key(…)` call that is not the head of
an assignment's right-hand side (`x := wrap(Key(pw, salt))`, `return Key(…)`) is an ordinary
application of public arguments for both — its result is not tainted.  This is harmless as long as
the key is regarded as a deterministic function of public inputs, but it is not the stated
discipline ("the result of `Key` is secret"); a one-line fix is to make `.fn "Key"` tainted.
Calls other than encoders are pure in the semantics: `crypthash.Unmarshal(hash, &scheme)` does not
populate `scheme.*`; the struct fields are inputs of the run.
-/

namespace GoCrypt.C19
open GoCrypt.Flow GoCrypt.Gen

/-! ## The ten generated programs satisfy the strengthened discipline -/

theorem secretSafe'_argon2 : secretSafe' argon2.flowCheck = true := by decide
theorem secretSafe'_bcrypt : secretSafe' bcrypt.flowCheck = true := by decide
theorem secretSafe'_des : secretSafe' des.flowCheck = true := by decide
theorem secretSafe'_desext : secretSafe' desext.flowCheck = true := by decide
theorem secretSafe'_md5 : secretSafe' md5.flowCheck = true := by decide
theorem secretSafe'_nthash : secretSafe' nthash.flowCheck = true := by decide
theorem secretSafe'_sha1 : secretSafe' sha1.flowCheck = true := by decide
theorem secretSafe'_sha256 : secretSafe' sha256.flowCheck = true := by decide
theorem secretSafe'_sha512 : secretSafe' sha512.flowCheck = true := by decide
theorem secretSafe'_sunmd5 : secretSafe' sunmd5.flowCheck = true := by decide

/-! ## Soundness -/

variable {I : Interp} {K K₁ K₂ : KeyOracle} {p : List FStmt} {e₁ e₂ env : Env}

/-- **Non-interference (full strength).**  For every interpretation satisfying the assumptions on
the trusted primitives, every program accepted by `secretSafe'`, every two key oracles whose keys
have equal lengths and every two environments that agree on all public names and agree in length
on the `….Sum` fields:

* if the constant-time comparison returns the same value in both runs, then the two runs execute
  the same statements with the same costs and the same branch decisions, return the same value,
  and in particular have the same total cost;
* in all cases the two runs execute the same statements, with the same costs and branch
  decisions, up to the comparison, and both reach it or neither does. -/
theorem secretSafe'_sound (hI : Trusted I) (hK : KeyRel K₁ K₂) (hp : secretSafe' p = true)
    (hL : LowEq [] e₁ e₂) :
    ((run I K₁ p e₁).ctcVals = (run I K₂ p e₂).ctcVals →
      (run I K₁ p e₁).cost = (run I K₂ p e₂).cost ∧
      (run I K₁ p e₁).out = (run I K₂ p e₂).out ∧
      (run I K₁ p e₁).events = (run I K₂ p e₂).events) ∧
    uptoGuard (run I K₁ p e₁).events = uptoGuard (run I K₂ p e₂).events := by
  obtain ⟨t', ht⟩ := runSafe'_of_secretSafe' hp
  obtain ⟨h1, h2⟩ := noninterference hI hK hL ht
  refine ⟨fun hc => ?_, h2⟩
  obtain ⟨hev, hout⟩ := h1 hc
  exact ⟨by rw [Result.cost, Result.cost, hev], hout, hev⟩

/-- If in both runs every pair of buffers handed to `ConstantTimeCompare` differs — wherever the
first differing byte is — the runs are observationally identical. -/
theorem mismatch_runs_agree (hI : Trusted I) (hK : KeyRel K₁ K₂) (hp : secretSafe' p = true)
    (hL : LowEq [] e₁ e₂)
    (h₁ : (run I K₁ p e₁).AllMismatch) (h₂ : (run I K₂ p e₂).AllMismatch) :
    (run I K₁ p e₁).cost = (run I K₂ p e₂).cost ∧
    (run I K₁ p e₁).out = (run I K₂ p e₂).out ∧
    (run I K₁ p e₁).events = (run I K₂ p e₂).events := by
  obtain ⟨t', ht⟩ := runSafe'_of_secretSafe' hp
  obtain ⟨hev, hout⟩ := noninterference_mismatch hI hK hL ht h₁ h₂
  exact ⟨by rw [Result.cost, Result.cost, hev], hout, hev⟩

theorem keyRel_refl (K : KeyOracle) : KeyRel K K := fun _ => ⟨rfl, rfl⟩

/-- **The mismatch cost does not depend on the position of the first differing byte.**
Same public inputs (`env`), same recomputed key (`K`), two stored digests `d₁`, `d₂` of equal
length, both different from the encoded key (`AllMismatch`: the buffers compared by
`ConstantTimeCompare` differ): the verification cost is the same. -/
theorem mismatch_cost_independent_of_position (hI : Trusted I) (hp : secretSafe' p = true)
    (K : KeyOracle) (env : Env) (base : String) (d₁ d₂ : List UInt8) (hlen : d₁.length = d₂.length)
    (h₁ : (run I K p (env.set (base ++ "." ++ "Sum") (.bytes d₁))).AllMismatch)
    (h₂ : (run I K p (env.set (base ++ "." ++ "Sum") (.bytes d₂))).AllMismatch) :
    (run I K p (env.set (base ++ "." ++ "Sum") (.bytes d₁))).cost =
    (run I K p (env.set (base ++ "." ++ "Sum") (.bytes d₂))).cost :=
  (mismatch_runs_agree hI (keyRel_refl K) hp (lowEq_set_sum env base hlen) h₁ h₂).1

/-- The same with the name `scheme.Sum` the generated programs use. -/
theorem scheme_mismatch_cost (hI : Trusted I) (hp : secretSafe' p = true)
    (K : KeyOracle) (env : Env) (d₁ d₂ : List UInt8) (hlen : d₁.length = d₂.length)
    (h₁ : (run I K p (env.set "scheme.Sum" (.bytes d₁))).AllMismatch)
    (h₂ : (run I K p (env.set "scheme.Sum" (.bytes d₂))).AllMismatch) :
    (run I K p (env.set "scheme.Sum" (.bytes d₁))).cost =
    (run I K p (env.set "scheme.Sum" (.bytes d₂))).cost := by
  have hn : "scheme.Sum" = "scheme" ++ "." ++ "Sum" := by decide
  rw [hn] at h₁ h₂ ⊢
  exact mismatch_cost_independent_of_position hI hp K env "scheme" d₁ d₂ hlen h₁ h₂

/-- Neither does it depend on the content of the recomputed key. -/
theorem mismatch_cost_independent_of_key (hI : Trusted I) (hp : secretSafe' p = true)
    (hK : KeyRel K₁ K₂) (env : Env)
    (h₁ : (run I K₁ p env).AllMismatch) (h₂ : (run I K₂ p env).AllMismatch) :
    (run I K₁ p env).cost = (run I K₂ p env).cost :=
  (mismatch_runs_agree hI hK hp (LowEq.refl [] env) h₁ h₂).1

/-! ## The ten schemes -/

section schemes
variable (hI : Trusted I) (K : KeyOracle) (env : Env) (d₁ d₂ : List UInt8)
  (hlen : d₁.length = d₂.length)
include hI hlen

theorem argon2_mismatch_cost
    (h₁ : (run I K argon2.flowCheck (env.set "scheme.Sum" (.bytes d₁))).AllMismatch)
    (h₂ : (run I K argon2.flowCheck (env.set "scheme.Sum" (.bytes d₂))).AllMismatch) :
    (run I K argon2.flowCheck (env.set "scheme.Sum" (.bytes d₁))).cost =
    (run I K argon2.flowCheck (env.set "scheme.Sum" (.bytes d₂))).cost :=
  scheme_mismatch_cost hI secretSafe'_argon2 K env d₁ d₂ hlen h₁ h₂

theorem bcrypt_mismatch_cost
    (h₁ : (run I K bcrypt.flowCheck (env.set "scheme.Sum" (.bytes d₁))).AllMismatch)
    (h₂ : (run I K bcrypt.flowCheck (env.set "scheme.Sum" (.bytes d₂))).AllMismatch) :
    (run I K bcrypt.flowCheck (env.set "scheme.Sum" (.bytes d₁))).cost =
    (run I K bcrypt.flowCheck (env.set "scheme.Sum" (.bytes d₂))).cost :=
  scheme_mismatch_cost hI secretSafe'_bcrypt K env d₁ d₂ hlen h₁ h₂

theorem des_mismatch_cost
    (h₁ : (run I K des.flowCheck (env.set "scheme.Sum" (.bytes d₁))).AllMismatch)
    (h₂ : (run I K des.flowCheck (env.set "scheme.Sum" (.bytes d₂))).AllMismatch) :
    (run I K des.flowCheck (env.set "scheme.Sum" (.bytes d₁))).cost =
    (run I K des.flowCheck (env.set "scheme.Sum" (.bytes d₂))).cost :=
  scheme_mismatch_cost hI secretSafe'_des K env d₁ d₂ hlen h₁ h₂

theorem desext_mismatch_cost
    (h₁ : (run I K desext.flowCheck (env.set "scheme.Sum" (.bytes d₁))).AllMismatch)
    (h₂ : (run I K desext.flowCheck (env.set "scheme.Sum" (.bytes d₂))).AllMismatch) :
    (run I K desext.flowCheck (env.set "scheme.Sum" (.bytes d₁))).cost =
    (run I K desext.flowCheck (env.set "scheme.Sum" (.bytes d₂))).cost :=
  scheme_mismatch_cost hI secretSafe'_desext K env d₁ d₂ hlen h₁ h₂

theorem md5_mismatch_cost
    (h₁ : (run I K md5.flowCheck (env.set "scheme.Sum" (.bytes d₁))).AllMismatch)
    (h₂ : (run I K md5.flowCheck (env.set "scheme.Sum" (.bytes d₂))).AllMismatch) :
    (run I K md5.flowCheck (env.set "scheme.Sum" (.bytes d₁))).cost =
    (run I K md5.flowCheck (env.set "scheme.Sum" (.bytes d₂))).cost :=
  scheme_mismatch_cost hI secretSafe'_md5 K env d₁ d₂ hlen h₁ h₂

theorem nthash_mismatch_cost
    (h₁ : (run I K nthash.flowCheck (env.set "scheme.Sum" (.bytes d₁))).AllMismatch)
    (h₂ : (run I K nthash.flowCheck (env.set "scheme.Sum" (.bytes d₂))).AllMismatch) :
    (run I K nthash.flowCheck (env.set "scheme.Sum" (.bytes d₁))).cost =
    (run I K nthash.flowCheck (env.set "scheme.Sum" (.bytes d₂))).cost :=
  scheme_mismatch_cost hI secretSafe'_nthash K env d₁ d₂ hlen h₁ h₂

theorem sha1_mismatch_cost
    (h₁ : (run I K sha1.flowCheck (env.set "scheme.Sum" (.bytes d₁))).AllMismatch)
    (h₂ : (run I K sha1.flowCheck (env.set "scheme.Sum" (.bytes d₂))).AllMismatch) :
    (run I K sha1.flowCheck (env.set "scheme.Sum" (.bytes d₁))).cost =
    (run I K sha1.flowCheck (env.set "scheme.Sum" (.bytes d₂))).cost :=
  scheme_mismatch_cost hI secretSafe'_sha1 K env d₁ d₂ hlen h₁ h₂

theorem sha256_mismatch_cost
    (h₁ : (run I K sha256.flowCheck (env.set "scheme.Sum" (.bytes d₁))).AllMismatch)
    (h₂ : (run I K sha256.flowCheck (env.set "scheme.Sum" (.bytes d₂))).AllMismatch) :
    (run I K sha256.flowCheck (env.set "scheme.Sum" (.bytes d₁))).cost =
    (run I K sha256.flowCheck (env.set "scheme.Sum" (.bytes d₂))).cost :=
  scheme_mismatch_cost hI secretSafe'_sha256 K env d₁ d₂ hlen h₁ h₂

theorem sha512_mismatch_cost
    (h₁ : (run I K sha512.flowCheck (env.set "scheme.Sum" (.bytes d₁))).AllMismatch)
    (h₂ : (run I K sha512.flowCheck (env.set "scheme.Sum" (.bytes d₂))).AllMismatch) :
    (run I K sha512.flowCheck (env.set "scheme.Sum" (.bytes d₁))).cost =
    (run I K sha512.flowCheck (env.set "scheme.Sum" (.bytes d₂))).cost :=
  scheme_mismatch_cost hI secretSafe'_sha512 K env d₁ d₂ hlen h₁ h₂

theorem sunmd5_mismatch_cost
    (h₁ : (run I K sunmd5.flowCheck (env.set "scheme.Sum" (.bytes d₁))).AllMismatch)
    (h₂ : (run I K sunmd5.flowCheck (env.set "scheme.Sum" (.bytes d₂))).AllMismatch) :
    (run I K sunmd5.flowCheck (env.set "scheme.Sum" (.bytes d₁))).cost =
    (run I K sunmd5.flowCheck (env.set "scheme.Sum" (.bytes d₂))).cost :=
  scheme_mismatch_cost hI secretSafe'_sunmd5 K env d₁ d₂ hlen h₁ h₂

end schemes

/-! ## The hypotheses are satisfiable: a concrete run of `md5.Check` -/

section demo
open GoCrypt.Flow.Demo

def demoEnv : Env := fun x =>
  if x = "hash" then .bytes [1, 2, 3, 4] else if x = "password" then .bytes [112, 119] else
  if x = "scheme.Salt" then .bytes [115] else .nil

theorem allMismatch_of_cmps {R : Result} {x y : List UInt8} (h : R.cmps = [(.bytes x, .bytes y)])
    (hne : x ≠ y) : R.AllMismatch := by
  intro c hc
  rw [h] at hc
  simp only [List.mem_singleton] at hc
  exact ⟨x, y, hc, hne⟩

/-- The interpretation `demoI` satisfies every assumption on the trusted primitives. -/
example : Trusted demoI := demo_trusted

/-- With key `[1,2,3]` the encoded key is `[2,3,4,1]`; a stored digest differing in the *first*
byte and one differing in the *last* byte are both compared, in full, against it. -/
example : (run demoI (keyIs [1, 2, 3]) md5.flowCheck
    (demoEnv.set "scheme.Sum" (.bytes [9, 3, 4, 1]))).cmps = [(.bytes [2, 3, 4, 1], .bytes [9, 3, 4, 1])] := rfl
example : (run demoI (keyIs [1, 2, 3]) md5.flowCheck
    (demoEnv.set "scheme.Sum" (.bytes [2, 3, 4, 9]))).cmps = [(.bytes [2, 3, 4, 1], .bytes [2, 3, 4, 9])] := rfl

theorem demo_md5_first : (run demoI (keyIs [1, 2, 3]) md5.flowCheck
    (demoEnv.set "scheme.Sum" (.bytes [9, 3, 4, 1]))).AllMismatch :=
  allMismatch_of_cmps (x := [2, 3, 4, 1]) (y := [9, 3, 4, 1]) rfl (by decide)

theorem demo_md5_last : (run demoI (keyIs [1, 2, 3]) md5.flowCheck
    (demoEnv.set "scheme.Sum" (.bytes [2, 3, 4, 9]))).AllMismatch :=
  allMismatch_of_cmps (x := [2, 3, 4, 1]) (y := [2, 3, 4, 9]) rfl (by decide)

/-- The theorem applied to the concrete run … -/
example :
    (run demoI (keyIs [1, 2, 3]) md5.flowCheck (demoEnv.set "scheme.Sum" (.bytes [9, 3, 4, 1]))).cost =
    (run demoI (keyIs [1, 2, 3]) md5.flowCheck (demoEnv.set "scheme.Sum" (.bytes [2, 3, 4, 9]))).cost :=
  md5_mismatch_cost demo_trusted _ _ _ _ rfl demo_md5_first demo_md5_last

/-- … and the same fact by evaluation: all nine statements up to the guard run, the cost is 121
either way, and the mismatch sentinel is returned. -/
example : (run demoI (keyIs [1, 2, 3]) md5.flowCheck
    (demoEnv.set "scheme.Sum" (.bytes [9, 3, 4, 1]))).cost = 121 := by decide
example : (run demoI (keyIs [1, 2, 3]) md5.flowCheck
    (demoEnv.set "scheme.Sum" (.bytes [2, 3, 4, 9]))).cost = 121 := by decide
example : (run demoI (keyIs [1, 2, 3]) md5.flowCheck
    (demoEnv.set "scheme.Sum" (.bytes [2, 3, 4, 9]))).events.length = 8 := by decide
example : (run demoI (keyIs [1, 2, 3]) md5.flowCheck
    (demoEnv.set "scheme.Sum" (.bytes [2, 3, 4, 9]))).out = some (.data "crypt.ErrPasswordMismatch" []) := rfl
/-- A matching digest is accepted (`return nil` after nine statements). -/
example : (run demoI (keyIs [1, 2, 3]) md5.flowCheck
    (demoEnv.set "scheme.Sum" (.bytes [2, 3, 4, 1]))).out = some .nil := rfl
example : (run demoI (keyIs [1, 2, 3]) md5.flowCheck
    (demoEnv.set "scheme.Sum" (.bytes [2, 3, 4, 1]))).events.length = 9 := by decide
/-- A different key of the same length: same cost (`mismatch_cost_independent_of_key`). -/
example : (run demoI (keyIs [7, 7, 7]) md5.flowCheck
    (demoEnv.set "scheme.Sum" (.bytes [2, 3, 4, 9]))).cost = 121 := by decide

/-! ## Soundness gaps of `secretSafe`

Each program below is accepted by `secretSafe`, rejected by `secretSafe'`, and leaks: under the
interpretation `demoI` (which satisfies `Trusted`) two low-equivalent runs in which the compared
buffers differ nevertheless have different costs, because the ordinary data-dependent function
`trim` gets to see secret bytes. -/

def ctcGuard (a b : FExpr) : FStmt :=
  .ifRet (.op "==" (.app (.app (.fn "subtle.ConstantTimeCompare") a) b) (.const "0"))
    (.const "crypt.ErrPasswordMismatch")

/-- Gap 1: `len(e)` is declared public for *every* `e`, so `len(trim(scheme.Sum))` — or
`len(<other>)` — lets arbitrary code run on the stored digest. -/
def gapLen : List FStmt := [
  .eval (.app (.fn "len") (.app (.fn "trim") (.field "scheme" "Sum"))),
  ctcGuard (.var "hash") (.field "scheme" "Sum"),
  .ret (.const "nil")
]

/-- Gap 2: `tainted` ignores the taint set on field reads, so a key stored in a struct field
(`scheme.K, err = Key(password)`) is untracked. -/
def gapField : List FStmt := [
  .assign ["scheme.K", "err"] (.app (.fn "Key") (.var "password")),
  .eval (.app (.fn "trim") (.field "scheme" "K")),
  ctcGuard (.var "hash") (.field "scheme" "Sum"),
  .ret (.const "nil")
]

/-- Gap 3: an encoder's source may be *any* tainted expression, e.g. `trim(scheme.Sum)`. -/
def gapEncSrc : List FStmt := [
  .declare "b",
  .eval (.app (.app (.fn "hex.Encode") (.un "[:]" (.var "b"))) (.app (.fn "trim") (.field "scheme" "Sum"))),
  ctcGuard (.un "[:]" (.var "b")) (.var "hash"),
  .ret (.const "nil")
]

theorem gap_len_leaks :
    secretSafe gapLen = true ∧ secretSafe' gapLen = false ∧
    ∃ (I : Interp) (K : KeyOracle) (e₁ e₂ : Env), Trusted I ∧ LowEq [] e₁ e₂ ∧
      (run I K gapLen e₁).AllMismatch ∧ (run I K gapLen e₂).AllMismatch ∧
      (run I K gapLen e₁).cost ≠ (run I K gapLen e₂).cost :=
  ⟨by decide, by decide, demoI, keyIs [1, 2, 3],
    demoEnv.set ("scheme" ++ "." ++ "Sum") (.bytes [0, 0, 0, 9]),
    demoEnv.set ("scheme" ++ "." ++ "Sum") (.bytes [9, 0, 0, 9]),
    demo_trusted, lowEq_set_sum _ _ rfl,
    allMismatch_of_cmps (x := [1, 2, 3, 4]) (y := [0, 0, 0, 9]) rfl (by decide),
    allMismatch_of_cmps (x := [1, 2, 3, 4]) (y := [9, 0, 0, 9]) rfl (by decide),
    by decide⟩

theorem gap_field_leaks :
    secretSafe gapField = true ∧ secretSafe' gapField = false ∧
    ∃ (I : Interp) (K₁ K₂ : KeyOracle) (e : Env), Trusted I ∧ KeyRel K₁ K₂ ∧
      (run I K₁ gapField e).AllMismatch ∧ (run I K₂ gapField e).AllMismatch ∧
      (run I K₁ gapField e).cost ≠ (run I K₂ gapField e).cost :=
  ⟨by decide, by decide, demoI, keyIs [0, 0, 7], keyIs [5, 0, 7],
    demoEnv.set "scheme.Sum" (.bytes [9, 9, 9, 9]),
    demo_trusted, keyRel_of_length rfl,
    allMismatch_of_cmps (x := [1, 2, 3, 4]) (y := [9, 9, 9, 9]) rfl (by decide),
    allMismatch_of_cmps (x := [1, 2, 3, 4]) (y := [9, 9, 9, 9]) rfl (by decide),
    by decide⟩

theorem gap_encoder_source_leaks :
    secretSafe gapEncSrc = true ∧ secretSafe' gapEncSrc = false ∧
    ∃ (I : Interp) (K : KeyOracle) (e₁ e₂ : Env), Trusted I ∧ LowEq [] e₁ e₂ ∧
      (run I K gapEncSrc e₁).AllMismatch ∧ (run I K gapEncSrc e₂).AllMismatch ∧
      (run I K gapEncSrc e₁).cost ≠ (run I K gapEncSrc e₂).cost :=
  ⟨by decide, by decide, demoI, keyIs [1, 2, 3],
    demoEnv.set ("scheme" ++ "." ++ "Sum") (.bytes [0, 0, 0, 9]),
    demoEnv.set ("scheme" ++ "." ++ "Sum") (.bytes [9, 0, 0, 9]),
    demo_trusted, lowEq_set_sum _ _ rfl,
    allMismatch_of_cmps (x := [10, 1, 1, 1]) (y := [1, 2, 3, 4]) rfl (by decide),
    allMismatch_of_cmps (x := [10, 1, 1, 10]) (y := [1, 2, 3, 4]) rfl (by decide),
    by decide⟩

end demo

#print axioms secretSafe'_argon2
#print axioms secretSafe'_bcrypt
#print axioms secretSafe'_des
#print axioms secretSafe'_desext
#print axioms secretSafe'_md5
#print axioms secretSafe'_nthash
#print axioms secretSafe'_sha1
#print axioms secretSafe'_sha256
#print axioms secretSafe'_sha512
#print axioms secretSafe'_sunmd5
#print axioms secretSafe'_sound
#print axioms mismatch_runs_agree
#print axioms mismatch_cost_independent_of_position
#print axioms scheme_mismatch_cost
#print axioms mismatch_cost_independent_of_key
#print axioms argon2_mismatch_cost
#print axioms bcrypt_mismatch_cost
#print axioms des_mismatch_cost
#print axioms desext_mismatch_cost
#print axioms md5_mismatch_cost
#print axioms nthash_mismatch_cost
#print axioms sha1_mismatch_cost
#print axioms sha256_mismatch_cost
#print axioms sha512_mismatch_cost
#print axioms sunmd5_mismatch_cost
#print axioms Demo.demo_trusted
#print axioms gap_len_leaks
#print axioms gap_field_leaks
#print axioms gap_encoder_source_leaks

end GoCrypt.C19
