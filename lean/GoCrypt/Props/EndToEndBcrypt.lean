import GoCrypt.Proofs.EndToEndBcrypt

/-!
# bcrypt: `NewHash` is total on its domain — the theorem `Props/EndToEnd.lean` omitted

Property theorems only; the proofs are in `Proofs/EndToEndBcrypt.lean`.

`Props/EndToEnd.lean` has `newHash_total_<S>` for every scheme but bcrypt ("the 23-byte key needs length
facts about the Blowfish block function"). Those facts: one ECB block is 8 bytes
(`C03bProofs.encrypt8_length`), 64 encryptions keep it (`FlowVal.encryptTimes_length`), so the 24-byte
output cut to 23 bytes has 23 bytes (`bcryptDerive_length`) and its `bcrypt.Encoding` text the 31 symbols
of the layout's digest field. No hypothesis about Blowfish remains.

* `newHash_total_bcrypt` — for a cost within the exported bounds and 16 bytes of entropy `NewHash`
  returns a non-empty hash. The password is arbitrary (any length, empty included): `NewHash` uses
  `$2b$`, whose key-schedule input is the (truncated) password followed by a NUL, never empty, so
  `blowfish.NewSaltedCipher`'s refusal of an empty key (`KeyRes.internal "cipher"`) cannot happen.
* `newHash_ok_bcrypt_domain` — the converse: that domain is exact.
* `bcryptDerive_eq_none_iff` — where the refusal DOES happen: exactly the empty password under `$2$`
  (reachable through `Key`/`Check` with a `$2$` hash, not through `NewHash`).
-/

namespace GoCrypt.EndToEnd
open GoCrypt GoCrypt.Scheme GoCrypt.Codec GoCrypt.Codec.Shapes

/-- The key `bcrypt.Key` derives (after its guards) has 23 bytes, whenever there is one. -/
theorem bcryptDerive_length (pfx pw decSalt k : Bytes) (cost : Nat)
    (h : Kdf.bcryptDerive pfx pw decSalt cost = some k) : k.length = 23 :=
  Proofs.bcryptDerive_length pfx pw decSalt k cost h

/-- `blowfish.NewSaltedCipher` refuses exactly the empty key: the empty password under `$2$`. -/
theorem bcryptDerive_eq_none_iff (pfx pw decSalt : Bytes) (cost : Nat) :
    Kdf.bcryptDerive pfx pw decSalt cost = none ↔ pfx = Kdf.prefix2 ∧ Kdf.bcryptPassword pfx pw = [] :=
  Proofs.bcryptDerive_eq_none_iff pfx pw decSalt cost

/-- `Key` on the arguments `NewHash` builds (`bcryptArgs r`: prefix `$2b$`, salt = `bcrypt.Encoding` of 16
entropy bytes) returns a 23-byte key: no error, no refusal, whatever the password. -/
theorem key_bcrypt_newHash (r : NewHashReq) (hlo : Gen.bcrypt.MinCost ≤ r.rounds)
    (hhi : r.rounds ≤ Gen.bcrypt.MaxCost) (hent : 16 ≤ r.entropy.length) :
    ∃ k, key bcrypt (bcryptArgs r) = .ok k ∧ k.length = 23 :=
  Proofs.key_bcrypt_newHash r hlo hhi hent

/-- bcrypt: `NewHash` returns a non-empty hash on EVERY request with a cost within the exported bounds and
16 bytes of entropy — no hypothesis about Blowfish, none about the password. -/
theorem newHash_total_bcrypt (r : NewHashReq) (hlo : Gen.bcrypt.MinCost ≤ r.rounds)
    (hhi : r.rounds ≤ Gen.bcrypt.MaxCost) (hent : 16 ≤ r.entropy.length) :
    ∃ h, newHash bcrypt r = .ok h 16 ∧ h ≠ [] :=
  Proofs.newHash_total_bcrypt r hlo hhi hent

/-- … and only on those. -/
theorem newHash_ok_bcrypt_domain (r : NewHashReq) (h : Bytes) (used : Nat) (hn : newHash bcrypt r = .ok h used) :
    Gen.bcrypt.MinCost ≤ r.rounds ∧ r.rounds ≤ Gen.bcrypt.MaxCost ∧ 16 ≤ r.entropy.length :=
  Proofs.newHash_ok_bcrypt_domain r h used hn

/-- The domain, as an equivalence. -/
theorem newHash_ok_iff_bcrypt (r : NewHashReq) :
    (∃ h used, newHash bcrypt r = .ok h used) ↔
      Gen.bcrypt.MinCost ≤ r.rounds ∧ r.rounds ≤ Gen.bcrypt.MaxCost ∧ 16 ≤ r.entropy.length :=
  ⟨fun ⟨h, used, hn⟩ => newHash_ok_bcrypt_domain r h used hn,
   fun ⟨hlo, hhi, hent⟩ => let ⟨h, hn, _⟩ := newHash_total_bcrypt r hlo hhi hent; ⟨h, 16, hn⟩⟩

/-- Non-vacuity: the empty password, the smallest cost. -/
example : ∃ h, newHash bcrypt { password := [], rounds := 4, entropy := List.replicate 16 7 } = .ok h 16 ∧ h ≠ [] :=
  newHash_total_bcrypt _ (by decide) (by decide) (by decide)

#print axioms bcryptDerive_length
#print axioms bcryptDerive_eq_none_iff
#print axioms key_bcrypt_newHash
#print axioms newHash_total_bcrypt
#print axioms newHash_ok_bcrypt_domain
#print axioms newHash_ok_iff_bcrypt

end GoCrypt.EndToEnd
