import GoCrypt.Proofs.AcceptForms

/-!
# Acceptance: what `Unmarshal` accepts, for ALL strings (C06, C20)

C06: "… a string with a digest of the wrong length, a character outside a field's alphabet, a missing or
surplus field, leading or trailing material that belongs to no field (other than one bare trailing
`$`), an unsupported prefix variant … is never accepted."

C20: "a string is accepted by Unmarshal only if it equals, up to the tolerated respellings, the string
Marshal produces from the very value Unmarshal returned; nothing in an accepted string is ignored,
dropped or reinterpreted."

Property theorems only; the proofs are in `Proofs/Accept`, `Proofs/AcceptLoop`, `Proofs/AcceptShapes`,
`Proofs/AcceptArgon2`, `Proofs/AcceptRespell`, `Proofs/AcceptRespellShapes`, `Proofs/AcceptForms`.

For each of the ten shipped layouts (`ti` = `typeInfoOf` of the GENERATED struct shape, so the theorems
are re-checked when the Go structs change):

* `unmarshal_eq_grammar_<pkg>`: `Unmarshal` succeeds on `h` with assignments `out` IFF the independent
  recogniser `Grammar.<pkg>` (`Spec/Grammar.lean`, written from the documented layout) accepts `h`
  with fields `f` and `out` is exactly the assignment list of `f` — both directions, all strings;
* `unmarshal_iff_grammar_<pkg>`: the same in the form "accepted with fields `f`" ⇔ "the grammar yields `f`";
* `accepts_only_respellings_<pkg>`: every accepted string satisfies `Respell.respell` against the value
  `Unmarshal` returned (no hypothesis; no exception was found);
* `accepted_iff_<pkg>`, `rejected_<pkg>`: acceptance ⇔ the recogniser succeeds.
-/

namespace GoCrypt.Accept
open Bytes GoCrypt.Codec GoCrypt.Codec.Shapes GoCrypt.Respell

/-! ## md5: `$1$` A* `$` A{22} `[$]` -/

theorem unmarshal_eq_grammar_md5 (ti : TypeInfo) (hti : typeInfoOf GoCrypt.Gen.md5.structs "scheme" = .ok ti)
    (h : Bytes) (out : Vals) :
    unmarshal ti h = .ok out ↔ ∃ f, Grammar.md5 h = some f ∧ out = md5Out f := by
  rw [ti_md5] at hti; cases hti
  exact unmarshal_md5 h out

theorem unmarshal_iff_grammar_md5 (ti : TypeInfo) (hti : typeInfoOf GoCrypt.Gen.md5.structs "scheme" = .ok ti)
    (h : Bytes) (f : _) :
    (∃ out, unmarshal ti h = .ok out ∧ md5Fields out = some f) ↔ Grammar.md5 h = some f := by
  rw [ti_md5] at hti; cases hti
  exact fields_form _ _ md5Out md5Fields (unmarshal_md5 h) (fun f _ => md5Fields_out f) f

theorem accepts_only_respellings_md5 (ti : TypeInfo)
    (hti : typeInfoOf GoCrypt.Gen.md5.structs "scheme" = .ok ti) (h : Bytes) (out : Vals)
    (hu : unmarshal ti h = .ok out) : respell ti (finalVals ti out) h = true := by
  rw [ti_md5] at hti; cases hti
  exact respell_md5 h out hu

theorem accepted_iff_md5 (h : Bytes) :
    (∃ out, unmarshal md5TI h = .ok out) ↔ (Grammar.md5 h).isSome = true :=
  accepted_form _ _ md5Out (unmarshal_md5 h)

theorem rejected_md5 (h : Bytes) (hG : Grammar.md5 h = none) : ∀ out, unmarshal md5TI h ≠ .ok out :=
  rejected_form _ _ md5Out (unmarshal_md5 h) hG

/-! ## sha1: `$sha1$` n(32) `$` A* `$` A{28} `[$]` -/

theorem unmarshal_eq_grammar_sha1 (ti : TypeInfo) (hti : typeInfoOf GoCrypt.Gen.sha1.structs "scheme" = .ok ti)
    (h : Bytes) (out : Vals) :
    unmarshal ti h = .ok out ↔ ∃ f, Grammar.sha1 h = some f ∧ out = sha1Out f := by
  rw [ti_sha1] at hti; cases hti
  exact unmarshal_sha1 h out

theorem unmarshal_iff_grammar_sha1 (ti : TypeInfo) (hti : typeInfoOf GoCrypt.Gen.sha1.structs "scheme" = .ok ti)
    (h : Bytes) (f : _) :
    (∃ out, unmarshal ti h = .ok out ∧ sha1Fields out = some f) ↔ Grammar.sha1 h = some f := by
  rw [ti_sha1] at hti; cases hti
  exact fields_form _ _ sha1Out sha1Fields (unmarshal_sha1 h) (fun f _ => sha1Fields_out f) f

theorem accepts_only_respellings_sha1 (ti : TypeInfo)
    (hti : typeInfoOf GoCrypt.Gen.sha1.structs "scheme" = .ok ti) (h : Bytes) (out : Vals)
    (hu : unmarshal ti h = .ok out) : respell ti (finalVals ti out) h = true := by
  rw [ti_sha1] at hti; cases hti
  exact respell_sha1 h out hu

theorem accepted_iff_sha1 (h : Bytes) :
    (∃ out, unmarshal sha1TI h = .ok out) ↔ (Grammar.sha1 h).isSome = true :=
  accepted_form _ _ sha1Out (unmarshal_sha1 h)

theorem rejected_sha1 (h : Bytes) (hG : Grammar.sha1 h = none) : ∀ out, unmarshal sha1TI h ≠ .ok out :=
  rejected_form _ _ sha1Out (unmarshal_sha1 h) hG

/-! ## sha256: `$5$` [`rounds=` n(32) `$`] A* `$` A{43} `[$]` -/

theorem unmarshal_eq_grammar_sha256 (ti : TypeInfo) (hti : typeInfoOf GoCrypt.Gen.sha256.structs "scheme" = .ok ti)
    (h : Bytes) (out : Vals) :
    unmarshal ti h = .ok out ↔ ∃ f, Grammar.sha256 h = some f ∧ out = sha256Out f := by
  rw [ti_sha256] at hti; cases hti
  exact unmarshal_sha256 h out

theorem unmarshal_iff_grammar_sha256 (ti : TypeInfo) (hti : typeInfoOf GoCrypt.Gen.sha256.structs "scheme" = .ok ti)
    (h : Bytes) (f : _) :
    (∃ out, unmarshal ti h = .ok out ∧ sha2Fields out = some f) ↔ Grammar.sha256 h = some f := by
  rw [ti_sha256] at hti; cases hti
  exact fields_form _ _ sha256Out sha2Fields (unmarshal_sha256 h) (fun f _ => sha256Fields_out f) f

theorem accepts_only_respellings_sha256 (ti : TypeInfo)
    (hti : typeInfoOf GoCrypt.Gen.sha256.structs "scheme" = .ok ti) (h : Bytes) (out : Vals)
    (hu : unmarshal ti h = .ok out) : respell ti (finalVals ti out) h = true := by
  rw [ti_sha256] at hti; cases hti
  exact respell_sha256 h out hu

theorem accepted_iff_sha256 (h : Bytes) :
    (∃ out, unmarshal sha256TI h = .ok out) ↔ (Grammar.sha256 h).isSome = true :=
  accepted_form _ _ sha256Out (unmarshal_sha256 h)

theorem rejected_sha256 (h : Bytes) (hG : Grammar.sha256 h = none) : ∀ out, unmarshal sha256TI h ≠ .ok out :=
  rejected_form _ _ sha256Out (unmarshal_sha256 h) hG

/-! ## sha512: `$6$` [`rounds=` n(32) `$`] A* `$` A{86} `[$]` -/

theorem unmarshal_eq_grammar_sha512 (ti : TypeInfo) (hti : typeInfoOf GoCrypt.Gen.sha512.structs "scheme" = .ok ti)
    (h : Bytes) (out : Vals) :
    unmarshal ti h = .ok out ↔ ∃ f, Grammar.sha512 h = some f ∧ out = sha512Out f := by
  rw [ti_sha512] at hti; cases hti
  exact unmarshal_sha512 h out

theorem unmarshal_iff_grammar_sha512 (ti : TypeInfo) (hti : typeInfoOf GoCrypt.Gen.sha512.structs "scheme" = .ok ti)
    (h : Bytes) (f : _) :
    (∃ out, unmarshal ti h = .ok out ∧ sha2Fields out = some f) ↔ Grammar.sha512 h = some f := by
  rw [ti_sha512] at hti; cases hti
  exact fields_form _ _ sha512Out sha2Fields (unmarshal_sha512 h) (fun f _ => sha512Fields_out f) f

theorem accepts_only_respellings_sha512 (ti : TypeInfo)
    (hti : typeInfoOf GoCrypt.Gen.sha512.structs "scheme" = .ok ti) (h : Bytes) (out : Vals)
    (hu : unmarshal ti h = .ok out) : respell ti (finalVals ti out) h = true := by
  rw [ti_sha512] at hti; cases hti
  exact respell_sha512 h out hu

theorem accepted_iff_sha512 (h : Bytes) :
    (∃ out, unmarshal sha512TI h = .ok out) ↔ (Grammar.sha512 h).isSome = true :=
  accepted_form _ _ sha512Out (unmarshal_sha512 h)

theorem rejected_sha512 (h : Bytes) (hG : Grammar.sha512 h = none) : ∀ out, unmarshal sha512TI h ≠ .ok out :=
  rejected_form _ _ sha512Out (unmarshal_sha512 h) hG

/-! ## nthash: `$3$` ε `$` A{32} `[$]` -/

theorem unmarshal_eq_grammar_nthash (ti : TypeInfo) (hti : typeInfoOf GoCrypt.Gen.nthash.structs "scheme" = .ok ti)
    (h : Bytes) (out : Vals) :
    unmarshal ti h = .ok out ↔ ∃ f, Grammar.nthash h = some f ∧ out = nthashOut f := by
  rw [ti_nthash] at hti; cases hti
  exact unmarshal_nthash h out

theorem unmarshal_iff_grammar_nthash (ti : TypeInfo) (hti : typeInfoOf GoCrypt.Gen.nthash.structs "scheme" = .ok ti)
    (h : Bytes) (f : _) :
    (∃ out, unmarshal ti h = .ok out ∧ nthashFields out = some f) ↔ Grammar.nthash h = some f := by
  rw [ti_nthash] at hti; cases hti
  exact fields_form _ _ nthashOut nthashFields (unmarshal_nthash h) (fun f _ => nthashFields_out f) f

theorem accepts_only_respellings_nthash (ti : TypeInfo)
    (hti : typeInfoOf GoCrypt.Gen.nthash.structs "scheme" = .ok ti) (h : Bytes) (out : Vals)
    (hu : unmarshal ti h = .ok out) : respell ti (finalVals ti out) h = true := by
  rw [ti_nthash] at hti; cases hti
  exact respell_nthash h out hu

theorem accepted_iff_nthash (h : Bytes) :
    (∃ out, unmarshal nthashTI h = .ok out) ↔ (Grammar.nthash h).isSome = true :=
  accepted_form _ _ nthashOut (unmarshal_nthash h)

theorem rejected_nthash (h : Bytes) (hG : Grammar.nthash h = none) : ∀ out, unmarshal nthashTI h ≠ .ok out :=
  rejected_form _ _ nthashOut (unmarshal_nthash h) hG

/-! ## des: A{2} A{11} `[$]`, no prefix -/

theorem unmarshal_eq_grammar_des (ti : TypeInfo) (hti : typeInfoOf GoCrypt.Gen.des.structs "scheme" = .ok ti)
    (h : Bytes) (out : Vals) :
    unmarshal ti h = .ok out ↔ ∃ f, Grammar.des h = some f ∧ out = desOut f := by
  rw [ti_des] at hti; cases hti
  exact unmarshal_des h out

theorem unmarshal_iff_grammar_des (ti : TypeInfo) (hti : typeInfoOf GoCrypt.Gen.des.structs "scheme" = .ok ti)
    (h : Bytes) (f : _) :
    (∃ out, unmarshal ti h = .ok out ∧ desFields out = some f) ↔ Grammar.des h = some f := by
  rw [ti_des] at hti; cases hti
  exact fields_form _ _ desOut desFields (unmarshal_des h) (fun f _ => desFields_out f) f

theorem accepts_only_respellings_des (ti : TypeInfo)
    (hti : typeInfoOf GoCrypt.Gen.des.structs "scheme" = .ok ti) (h : Bytes) (out : Vals)
    (hu : unmarshal ti h = .ok out) : respell ti (finalVals ti out) h = true := by
  rw [ti_des] at hti; cases hti
  exact respell_des h out hu

theorem accepted_iff_des (h : Bytes) :
    (∃ out, unmarshal desTI h = .ok out) ↔ (Grammar.des h).isSome = true :=
  accepted_form _ _ desOut (unmarshal_des h)

theorem rejected_des (h : Bytes) (hG : Grammar.des h = none) : ∀ out, unmarshal desTI h ≠ .ok out :=
  rejected_form _ _ desOut (unmarshal_des h) hG

/-! ## desext: `_` A{4} A{4} A{11} `[$]` -/

theorem unmarshal_eq_grammar_desext (ti : TypeInfo) (hti : typeInfoOf GoCrypt.Gen.desext.structs "scheme" = .ok ti)
    (h : Bytes) (out : Vals) :
    unmarshal ti h = .ok out ↔ ∃ f, Grammar.desext h = some f ∧ out = desextOut f := by
  rw [ti_desext] at hti; cases hti
  exact unmarshal_desext h out

theorem unmarshal_iff_grammar_desext (ti : TypeInfo) (hti : typeInfoOf GoCrypt.Gen.desext.structs "scheme" = .ok ti)
    (h : Bytes) (f : _) :
    (∃ out, unmarshal ti h = .ok out ∧ desextFields out = some f) ↔ Grammar.desext h = some f := by
  rw [ti_desext] at hti; cases hti
  exact fields_form _ _ desextOut desextFields (unmarshal_desext h) (fun f hG => desextFields_out h f hG) f

theorem accepts_only_respellings_desext (ti : TypeInfo)
    (hti : typeInfoOf GoCrypt.Gen.desext.structs "scheme" = .ok ti) (h : Bytes) (out : Vals)
    (hu : unmarshal ti h = .ok out) : respell ti (finalVals ti out) h = true := by
  rw [ti_desext] at hti; cases hti
  exact respell_desext h out hu

theorem accepted_iff_desext (h : Bytes) :
    (∃ out, unmarshal desextTI h = .ok out) ↔ (Grammar.desext h).isSome = true :=
  accepted_form _ _ desextOut (unmarshal_desext h)

theorem rejected_desext (h : Bytes) (hG : Grammar.desext h = none) : ∀ out, unmarshal desextTI h ≠ .ok out :=
  rejected_form _ _ desextOut (unmarshal_desext h) hG

/-! ## bcrypt: (`$2$`|`$2a$`|`$2b$`) cost `$` A{22} A{31} `[$]` -/

theorem unmarshal_eq_grammar_bcrypt (ti : TypeInfo) (hti : typeInfoOf GoCrypt.Gen.bcrypt.structs "scheme" = .ok ti)
    (h : Bytes) (out : Vals) :
    unmarshal ti h = .ok out ↔ ∃ f, Grammar.bcrypt h = some f ∧ out = bcryptOut f := by
  rw [ti_bcrypt] at hti; cases hti
  exact unmarshal_bcrypt h out

theorem unmarshal_iff_grammar_bcrypt (ti : TypeInfo) (hti : typeInfoOf GoCrypt.Gen.bcrypt.structs "scheme" = .ok ti)
    (h : Bytes) (f : _) :
    (∃ out, unmarshal ti h = .ok out ∧ bcryptFields out = some f) ↔ Grammar.bcrypt h = some f := by
  rw [ti_bcrypt] at hti; cases hti
  exact fields_form _ _ bcryptOut bcryptFields (unmarshal_bcrypt h) (fun f _ => bcryptFields_out f) f

theorem accepts_only_respellings_bcrypt (ti : TypeInfo)
    (hti : typeInfoOf GoCrypt.Gen.bcrypt.structs "scheme" = .ok ti) (h : Bytes) (out : Vals)
    (hu : unmarshal ti h = .ok out) : respell ti (finalVals ti out) h = true := by
  rw [ti_bcrypt] at hti; cases hti
  exact respell_bcrypt h out hu

theorem accepted_iff_bcrypt (h : Bytes) :
    (∃ out, unmarshal bcryptTI h = .ok out) ↔ (Grammar.bcrypt h).isSome = true :=
  accepted_form _ _ bcryptOut (unmarshal_bcrypt h)

theorem rejected_bcrypt (h : Bytes) (hG : Grammar.bcrypt h = none) : ∀ out, unmarshal bcryptTI h ≠ .ok out :=
  rejected_form _ _ bcryptOut (unmarshal_bcrypt h) hG

/-! ## sunmd5: (`$md5,`|`$md5$`) `rounds=` n(32) then digest | salt, digest | salt, ε, digest; `[$]` -/

theorem unmarshal_eq_grammar_sunmd5 (ti : TypeInfo) (hti : typeInfoOf GoCrypt.Gen.sunmd5.structs "scheme" = .ok ti)
    (h : Bytes) (out : Vals) :
    unmarshal ti h = .ok out ↔ ∃ f, Grammar.sunmd5 h = some f ∧ out = sunmd5Out f := by
  rw [ti_sunmd5] at hti; cases hti
  exact unmarshal_sunmd5 h out

theorem unmarshal_iff_grammar_sunmd5 (ti : TypeInfo) (hti : typeInfoOf GoCrypt.Gen.sunmd5.structs "scheme" = .ok ti)
    (h : Bytes) (f : _) :
    (∃ out, unmarshal ti h = .ok out ∧ sunmd5Fields out = some f) ↔ Grammar.sunmd5 h = some f := by
  rw [ti_sunmd5] at hti; cases hti
  exact fields_form _ _ sunmd5Out sunmd5Fields (unmarshal_sunmd5 h) (fun f hG => sunmd5Fields_out f (sunmd5_sep_salt h f hG)) f

theorem accepts_only_respellings_sunmd5 (ti : TypeInfo)
    (hti : typeInfoOf GoCrypt.Gen.sunmd5.structs "scheme" = .ok ti) (h : Bytes) (out : Vals)
    (hu : unmarshal ti h = .ok out) : respell ti (finalVals ti out) h = true := by
  rw [ti_sunmd5] at hti; cases hti
  exact respell_sunmd5 h out hu

theorem accepted_iff_sunmd5 (h : Bytes) :
    (∃ out, unmarshal sunmd5TI h = .ok out) ↔ (Grammar.sunmd5 h).isSome = true :=
  accepted_form _ _ sunmd5Out (unmarshal_sunmd5 h)

theorem rejected_sunmd5 (h : Bytes) (hG : Grammar.sunmd5 h = none) : ∀ out, unmarshal sunmd5TI h ≠ .ok out :=
  rejected_form _ _ sunmd5Out (unmarshal_sunmd5 h) hG

/-! ## argon2: (`$argon2d$`|`$argon2i$`|`$argon2id$`) [`v=` n(8) `$`] {m,t,p} `$` B* `$` B* `[$]` -/

theorem unmarshal_eq_grammar_argon2 (ti : TypeInfo) (hti : typeInfoOf GoCrypt.Gen.argon2.structs "scheme" = .ok ti)
    (h : Bytes) (out : Vals) :
    unmarshal ti h = .ok out ↔ ∃ f, Grammar.argon2 h = some f ∧ out = argon2Out f := by
  rw [ti_argon2] at hti; cases hti
  exact unmarshal_argon2 h out

theorem unmarshal_iff_grammar_argon2 (ti : TypeInfo) (hti : typeInfoOf GoCrypt.Gen.argon2.structs "scheme" = .ok ti)
    (h : Bytes) (f : _) :
    (∃ out, unmarshal ti h = .ok out ∧ argon2Fields out = some f) ↔ Grammar.argon2 h = some f := by
  rw [ti_argon2] at hti; cases hti
  exact fields_form _ _ argon2Out argon2Fields (unmarshal_argon2 h) (fun f _ => argon2Fields_out f) f

theorem accepts_only_respellings_argon2 (ti : TypeInfo)
    (hti : typeInfoOf GoCrypt.Gen.argon2.structs "scheme" = .ok ti) (h : Bytes) (out : Vals)
    (hu : unmarshal ti h = .ok out) : respell ti (finalVals ti out) h = true := by
  rw [ti_argon2] at hti; cases hti
  exact respell_argon2 h out hu

theorem accepted_iff_argon2 (h : Bytes) :
    (∃ out, unmarshal argon2TI h = .ok out) ↔ (Grammar.argon2 h).isSome = true :=
  accepted_form _ _ argon2Out (unmarshal_argon2 h)

theorem rejected_argon2 (h : Bytes) (hG : Grammar.argon2 h = none) : ∀ out, unmarshal argon2TI h ≠ .ok out :=
  rejected_form _ _ argon2Out (unmarshal_argon2 h) hG

/-! ## Non-vacuity: concrete accepted and rejected strings of every layout

Each `example` evaluates the recogniser (kernel computation) and transports the verdict to `unmarshal` by
the theorems above. -/

-- "$1$salt$abcdefghijklmnopqrstuv"
example : ∃ out, unmarshal md5TI [36, 49, 36, 115, 97, 108, 116, 36, 97, 98, 99, 100, 101, 102, 103, 104, 105, 106, 107, 108, 109, 110, 111, 112, 113, 114, 115, 116, 117, 118] = .ok out :=
  (accepted_iff_md5 _).2 (by decide +kernel)

-- "$1$salt$abcdefghijklmnopqrstuv$"
example : ∃ out, unmarshal md5TI [36, 49, 36, 115, 97, 108, 116, 36, 97, 98, 99, 100, 101, 102, 103, 104, 105, 106, 107, 108, 109, 110, 111, 112, 113, 114, 115, 116, 117, 118, 36] = .ok out :=
  (accepted_iff_md5 _).2 (by decide +kernel)

-- "$1$salt$abcdefghijklmnopqrstuv$$"
example : ∀ out, unmarshal md5TI [36, 49, 36, 115, 97, 108, 116, 36, 97, 98, 99, 100, 101, 102, 103, 104, 105, 106, 107, 108, 109, 110, 111, 112, 113, 114, 115, 116, 117, 118, 36, 36] ≠ .ok out :=
  rejected_md5 _ (by decide +kernel)

-- "$1$salt$abcdefghijklmnopqrstuv,"
example : ∀ out, unmarshal md5TI [36, 49, 36, 115, 97, 108, 116, 36, 97, 98, 99, 100, 101, 102, 103, 104, 105, 106, 107, 108, 109, 110, 111, 112, 113, 114, 115, 116, 117, 118, 44] ≠ .ok out :=
  rejected_md5 _ (by decide +kernel)

-- "$1$sa_lt$abcdefghijklmnopqrstuv"
example : ∀ out, unmarshal md5TI [36, 49, 36, 115, 97, 95, 108, 116, 36, 97, 98, 99, 100, 101, 102, 103, 104, 105, 106, 107, 108, 109, 110, 111, 112, 113, 114, 115, 116, 117, 118] ≠ .ok out :=
  rejected_md5 _ (by decide +kernel)

-- "$1$salt$abcdefghijklmnopqrstuvx"
example : ∀ out, unmarshal md5TI [36, 49, 36, 115, 97, 108, 116, 36, 97, 98, 99, 100, 101, 102, 103, 104, 105, 106, 107, 108, 109, 110, 111, 112, 113, 114, 115, 116, 117, 118, 120] ≠ .ok out :=
  rejected_md5 _ (by decide +kernel)

-- "$2$salt$abcdefghijklmnopqrstuv"
example : ∀ out, unmarshal md5TI [36, 50, 36, 115, 97, 108, 116, 36, 97, 98, 99, 100, 101, 102, 103, 104, 105, 106, 107, 108, 109, 110, 111, 112, 113, 114, 115, 116, 117, 118] ≠ .ok out :=
  rejected_md5 _ (by decide +kernel)

-- "$sha1$0012$salt$aaaaaaaaaaaaaaaaaaaaaaaaaaaa"
example : ∃ out, unmarshal sha1TI [36, 115, 104, 97, 49, 36, 48, 48, 49, 50, 36, 115, 97, 108, 116, 36, 97, 97, 97, 97, 97, 97, 97, 97, 97, 97, 97, 97, 97, 97, 97, 97, 97, 97, 97, 97, 97, 97, 97, 97, 97, 97, 97, 97] = .ok out :=
  (accepted_iff_sha1 _).2 (by decide +kernel)

-- "$sha1$$salt$aaaaaaaaaaaaaaaaaaaaaaaaaaaa"
example : ∀ out, unmarshal sha1TI [36, 115, 104, 97, 49, 36, 36, 115, 97, 108, 116, 36, 97, 97, 97, 97, 97, 97, 97, 97, 97, 97, 97, 97, 97, 97, 97, 97, 97, 97, 97, 97, 97, 97, 97, 97, 97, 97, 97, 97] ≠ .ok out :=
  rejected_sha1 _ (by decide +kernel)

-- "$sha1$4294967296$salt$aaaaaaaaaaaaaaaaaaaaaaaaaaaa"
example : ∀ out, unmarshal sha1TI [36, 115, 104, 97, 49, 36, 52, 50, 57, 52, 57, 54, 55, 50, 57, 54, 36, 115, 97, 108, 116, 36, 97, 97, 97, 97, 97, 97, 97, 97, 97, 97, 97, 97, 97, 97, 97, 97, 97, 97, 97, 97, 97, 97, 97, 97, 97, 97, 97, 97] ≠ .ok out :=
  rejected_sha1 _ (by decide +kernel)

-- "$5$salt$aaaaaaaaaaaaaaaaaaaaaaaaaaaaaaaaaaaaaaaaaaa"
example : ∃ out, unmarshal sha256TI [36, 53, 36, 115, 97, 108, 116, 36, 97, 97, 97, 97, 97, 97, 97, 97, 97, 97, 97, 97, 97, 97, 97, 97, 97, 97, 97, 97, 97, 97, 97, 97, 97, 97, 97, 97, 97, 97, 97, 97, 97, 97, 97, 97, 97, 97, 97, 97, 97, 97, 97] = .ok out :=
  (accepted_iff_sha256 _).2 (by decide +kernel)

-- "$5$rounds=005$salt$aaaaaaaaaaaaaaaaaaaaaaaaaaaaaaaaaaaaaaaaaaa$"
example : ∃ out, unmarshal sha256TI [36, 53, 36, 114, 111, 117, 110, 100, 115, 61, 48, 48, 53, 36, 115, 97, 108, 116, 36, 97, 97, 97, 97, 97, 97, 97, 97, 97, 97, 97, 97, 97, 97, 97, 97, 97, 97, 97, 97, 97, 97, 97, 97, 97, 97, 97, 97, 97, 97, 97, 97, 97, 97, 97, 97, 97, 97, 97, 97, 97, 97, 97, 36] = .ok out :=
  (accepted_iff_sha256 _).2 (by decide +kernel)

-- "$5$rounds=5$aaaaaaaaaaaaaaaaaaaaaaaaaaaaaaaaaaaaaaaaaaa"
example : ∀ out, unmarshal sha256TI [36, 53, 36, 114, 111, 117, 110, 100, 115, 61, 53, 36, 97, 97, 97, 97, 97, 97, 97, 97, 97, 97, 97, 97, 97, 97, 97, 97, 97, 97, 97, 97, 97, 97, 97, 97, 97, 97, 97, 97, 97, 97, 97, 97, 97, 97, 97, 97, 97, 97, 97, 97, 97, 97, 97] ≠ .ok out :=
  rejected_sha256 _ (by decide +kernel)

-- "$5$rounds=5$salt$aaaaaaaaaaaaaaaaaaaaaaaaaaaaaaaaaaaaaaaaaaa$x"
example : ∀ out, unmarshal sha256TI [36, 53, 36, 114, 111, 117, 110, 100, 115, 61, 53, 36, 115, 97, 108, 116, 36, 97, 97, 97, 97, 97, 97, 97, 97, 97, 97, 97, 97, 97, 97, 97, 97, 97, 97, 97, 97, 97, 97, 97, 97, 97, 97, 97, 97, 97, 97, 97, 97, 97, 97, 97, 97, 97, 97, 97, 97, 97, 97, 97, 36, 120] ≠ .ok out :=
  rejected_sha256 _ (by decide +kernel)

-- "$6$rounds=5000$salt$aaaaaaaaaaaaaaaaaaaaaaaaaaaaaaaaaaaaaaaaaaaaaaaaaaaaaaaaaaaaaaaaaaaaaaaaaaaaaaaaaaaaaa"
example : ∃ out, unmarshal sha512TI [36, 54, 36, 114, 111, 117, 110, 100, 115, 61, 53, 48, 48, 48, 36, 115, 97, 108, 116, 36, 97, 97, 97, 97, 97, 97, 97, 97, 97, 97, 97, 97, 97, 97, 97, 97, 97, 97, 97, 97, 97, 97, 97, 97, 97, 97, 97, 97, 97, 97, 97, 97, 97, 97, 97, 97, 97, 97, 97, 97, 97, 97, 97, 97, 97, 97, 97, 97, 97, 97, 97, 97, 97, 97, 97, 97, 97, 97, 97, 97, 97, 97, 97, 97, 97, 97, 97, 97, 97, 97, 97, 97, 97, 97, 97, 97, 97, 97, 97, 97, 97, 97, 97, 97, 97, 97] = .ok out :=
  (accepted_iff_sha512 _).2 (by decide +kernel)

-- "$6$salt$aaaaaaaaaaaaaaaaaaaaaaaaaaaaaaaaaaaaaaaaaaaaaaaaaaaaaaaaaaaaaaaaaaaaaaaaaaaaaaaaaaaaa"
example : ∀ out, unmarshal sha512TI [36, 54, 36, 115, 97, 108, 116, 36, 97, 97, 97, 97, 97, 97, 97, 97, 97, 97, 97, 97, 97, 97, 97, 97, 97, 97, 97, 97, 97, 97, 97, 97, 97, 97, 97, 97, 97, 97, 97, 97, 97, 97, 97, 97, 97, 97, 97, 97, 97, 97, 97, 97, 97, 97, 97, 97, 97, 97, 97, 97, 97, 97, 97, 97, 97, 97, 97, 97, 97, 97, 97, 97, 97, 97, 97, 97, 97, 97, 97, 97, 97, 97, 97, 97, 97, 97, 97, 97, 97, 97, 97, 97, 97] ≠ .ok out :=
  rejected_sha512 _ (by decide +kernel)

-- "$3$$aaaaaaaaaaaaaaaaaaaaaaaaaaaaaaaa"
example : ∃ out, unmarshal nthashTI [36, 51, 36, 36, 97, 97, 97, 97, 97, 97, 97, 97, 97, 97, 97, 97, 97, 97, 97, 97, 97, 97, 97, 97, 97, 97, 97, 97, 97, 97, 97, 97, 97, 97, 97, 97] = .ok out :=
  (accepted_iff_nthash _).2 (by decide +kernel)

-- "$3$x$aaaaaaaaaaaaaaaaaaaaaaaaaaaaaaaa"
example : ∀ out, unmarshal nthashTI [36, 51, 36, 120, 36, 97, 97, 97, 97, 97, 97, 97, 97, 97, 97, 97, 97, 97, 97, 97, 97, 97, 97, 97, 97, 97, 97, 97, 97, 97, 97, 97, 97, 97, 97, 97, 97] ≠ .ok out :=
  rejected_nthash _ (by decide +kernel)

-- "aaaaaaaaaaaaa"
example : ∃ out, unmarshal desTI [97, 97, 97, 97, 97, 97, 97, 97, 97, 97, 97, 97, 97] = .ok out :=
  (accepted_iff_des _).2 (by decide +kernel)

-- "aaaaaaaaaaaaa$"
example : ∃ out, unmarshal desTI [97, 97, 97, 97, 97, 97, 97, 97, 97, 97, 97, 97, 97, 36] = .ok out :=
  (accepted_iff_des _).2 (by decide +kernel)

-- "aaaaaaaaaaaaaa"
example : ∀ out, unmarshal desTI [97, 97, 97, 97, 97, 97, 97, 97, 97, 97, 97, 97, 97, 97] ≠ .ok out :=
  rejected_des _ (by decide +kernel)

-- "_aaaaaaaaaaaa"
example : ∀ out, unmarshal desTI [95, 97, 97, 97, 97, 97, 97, 97, 97, 97, 97, 97, 97] ≠ .ok out :=
  rejected_des _ (by decide +kernel)

-- "_aaaaaaaaaaaaaaaaaaa"
example : ∃ out, unmarshal desextTI [95, 97, 97, 97, 97, 97, 97, 97, 97, 97, 97, 97, 97, 97, 97, 97, 97, 97, 97, 97] = .ok out :=
  (accepted_iff_desext _).2 (by decide +kernel)

-- "_aaaaaaaaaaaaaaaaaaaa"
example : ∀ out, unmarshal desextTI [95, 97, 97, 97, 97, 97, 97, 97, 97, 97, 97, 97, 97, 97, 97, 97, 97, 97, 97, 97, 97] ≠ .ok out :=
  rejected_desext _ (by decide +kernel)

-- "aaaaaaaaaaaaaaaaaaa"
example : ∀ out, unmarshal desextTI [97, 97, 97, 97, 97, 97, 97, 97, 97, 97, 97, 97, 97, 97, 97, 97, 97, 97, 97] ≠ .ok out :=
  rejected_desext _ (by decide +kernel)

-- "$2a$05$aaaaaaaaaaaaaaaaaaaaaaaaaaaaaaaaaaaaaaaaaaaaaaaaaaaaa"
example : ∃ out, unmarshal bcryptTI [36, 50, 97, 36, 48, 53, 36, 97, 97, 97, 97, 97, 97, 97, 97, 97, 97, 97, 97, 97, 97, 97, 97, 97, 97, 97, 97, 97, 97, 97, 97, 97, 97, 97, 97, 97, 97, 97, 97, 97, 97, 97, 97, 97, 97, 97, 97, 97, 97, 97, 97, 97, 97, 97, 97, 97, 97, 97, 97, 97] = .ok out :=
  (accepted_iff_bcrypt _).2 (by decide +kernel)

-- "$2y$05$aaaaaaaaaaaaaaaaaaaaaaaaaaaaaaaaaaaaaaaaaaaaaaaaaaaaa"
example : ∀ out, unmarshal bcryptTI [36, 50, 121, 36, 48, 53, 36, 97, 97, 97, 97, 97, 97, 97, 97, 97, 97, 97, 97, 97, 97, 97, 97, 97, 97, 97, 97, 97, 97, 97, 97, 97, 97, 97, 97, 97, 97, 97, 97, 97, 97, 97, 97, 97, 97, 97, 97, 97, 97, 97, 97, 97, 97, 97, 97, 97, 97, 97, 97, 97] ≠ .ok out :=
  rejected_bcrypt _ (by decide +kernel)

-- "$2a$5$aaaaaaaaaaaaaaaaaaaaaaaaaaaaaaaaaaaaaaaaaaaaaaaaaaaaa"
example : ∀ out, unmarshal bcryptTI [36, 50, 97, 36, 53, 36, 97, 97, 97, 97, 97, 97, 97, 97, 97, 97, 97, 97, 97, 97, 97, 97, 97, 97, 97, 97, 97, 97, 97, 97, 97, 97, 97, 97, 97, 97, 97, 97, 97, 97, 97, 97, 97, 97, 97, 97, 97, 97, 97, 97, 97, 97, 97, 97, 97, 97, 97, 97, 97] ≠ .ok out :=
  rejected_bcrypt _ (by decide +kernel)

-- "$2a$05$aaaaaaaaaaaaaaaaaaaaaa$aaaaaaaaaaaaaaaaaaaaaaaaaaaaaaa"
example : ∀ out, unmarshal bcryptTI [36, 50, 97, 36, 48, 53, 36, 97, 97, 97, 97, 97, 97, 97, 97, 97, 97, 97, 97, 97, 97, 97, 97, 97, 97, 97, 97, 97, 97, 36, 97, 97, 97, 97, 97, 97, 97, 97, 97, 97, 97, 97, 97, 97, 97, 97, 97, 97, 97, 97, 97, 97, 97, 97, 97, 97, 97, 97, 97, 97, 97] ≠ .ok out :=
  rejected_bcrypt _ (by decide +kernel)

-- "$md5,rounds=904$salt$$abcdefghijklmnopqrstuv"
example : ∃ out, unmarshal sunmd5TI [36, 109, 100, 53, 44, 114, 111, 117, 110, 100, 115, 61, 57, 48, 52, 36, 115, 97, 108, 116, 36, 36, 97, 98, 99, 100, 101, 102, 103, 104, 105, 106, 107, 108, 109, 110, 111, 112, 113, 114, 115, 116, 117, 118] = .ok out :=
  (accepted_iff_sunmd5 _).2 (by decide +kernel)

-- "$md5$rounds=904$abcdefghijklmnopqrstuv"
example : ∃ out, unmarshal sunmd5TI [36, 109, 100, 53, 36, 114, 111, 117, 110, 100, 115, 61, 57, 48, 52, 36, 97, 98, 99, 100, 101, 102, 103, 104, 105, 106, 107, 108, 109, 110, 111, 112, 113, 114, 115, 116, 117, 118] = .ok out :=
  (accepted_iff_sunmd5 _).2 (by decide +kernel)

-- "$md5$rounds=904$salt$x$abcdefghijklmnopqrstuv"
example : ∀ out, unmarshal sunmd5TI [36, 109, 100, 53, 36, 114, 111, 117, 110, 100, 115, 61, 57, 48, 52, 36, 115, 97, 108, 116, 36, 120, 36, 97, 98, 99, 100, 101, 102, 103, 104, 105, 106, 107, 108, 109, 110, 111, 112, 113, 114, 115, 116, 117, 118] ≠ .ok out :=
  rejected_sunmd5 _ (by decide +kernel)

-- "$md5$abcdefghijklmnopqrstuv"
example : ∀ out, unmarshal sunmd5TI [36, 109, 100, 53, 36, 97, 98, 99, 100, 101, 102, 103, 104, 105, 106, 107, 108, 109, 110, 111, 112, 113, 114, 115, 116, 117, 118] ≠ .ok out :=
  rejected_sunmd5 _ (by decide +kernel)

-- "$argon2id$v=19$m=65536,t=2,p=1$c2FsdA$aGFzaA"
example : ∃ out, unmarshal argon2TI [36, 97, 114, 103, 111, 110, 50, 105, 100, 36, 118, 61, 49, 57, 36, 109, 61, 54, 53, 53, 51, 54, 44, 116, 61, 50, 44, 112, 61, 49, 36, 99, 50, 70, 115, 100, 65, 36, 97, 71, 70, 122, 97, 65] = .ok out :=
  (accepted_iff_argon2 _).2 (by decide +kernel)

-- "$argon2i$t=2,p=1,m=65536$c2FsdA$aGFzaA$"
example : ∃ out, unmarshal argon2TI [36, 97, 114, 103, 111, 110, 50, 105, 36, 116, 61, 50, 44, 112, 61, 49, 44, 109, 61, 54, 53, 53, 51, 54, 36, 99, 50, 70, 115, 100, 65, 36, 97, 71, 70, 122, 97, 65, 36] = .ok out :=
  (accepted_iff_argon2 _).2 (by decide +kernel)

-- "$argon2d$m=1,t=2,p=1$c2FsdA$$"
example : ∃ out, unmarshal argon2TI [36, 97, 114, 103, 111, 110, 50, 100, 36, 109, 61, 49, 44, 116, 61, 50, 44, 112, 61, 49, 36, 99, 50, 70, 115, 100, 65, 36, 36] = .ok out :=
  (accepted_iff_argon2 _).2 (by decide +kernel)

-- "$argon2d$m=1,t=2,p=1$c2FsdA$"
example : ∀ out, unmarshal argon2TI [36, 97, 114, 103, 111, 110, 50, 100, 36, 109, 61, 49, 44, 116, 61, 50, 44, 112, 61, 49, 36, 99, 50, 70, 115, 100, 65, 36] ≠ .ok out :=
  rejected_argon2 _ (by decide +kernel)

-- "$argon2d$m=1,t=2,p=1,$a$b"
example : ∀ out, unmarshal argon2TI [36, 97, 114, 103, 111, 110, 50, 100, 36, 109, 61, 49, 44, 116, 61, 50, 44, 112, 61, 49, 44, 36, 97, 36, 98] ≠ .ok out :=
  rejected_argon2 _ (by decide +kernel)

-- "$argon2d$m=1,m=2,p=1$a$b"
example : ∀ out, unmarshal argon2TI [36, 97, 114, 103, 111, 110, 50, 100, 36, 109, 61, 49, 44, 109, 61, 50, 44, 112, 61, 49, 36, 97, 36, 98] ≠ .ok out :=
  rejected_argon2 _ (by decide +kernel)

-- "$argon2d$m=1,t=2,p=1$a$b,"
example : ∀ out, unmarshal argon2TI [36, 97, 114, 103, 111, 110, 50, 100, 36, 109, 61, 49, 44, 116, 61, 50, 44, 112, 61, 49, 36, 97, 36, 98, 44] ≠ .ok out :=
  rejected_argon2 _ (by decide +kernel)

-- the recogniser agrees with direct evaluation of the model on a sample
example : unmarshal md5TI [36, 49, 36, 115, 36, 97, 98, 99, 100, 101, 102, 103, 104, 105, 106, 107, 108, 109, 110, 111,
    112, 113, 114, 115, 116, 117, 118] =
    .ok [([0], .str [36, 49, 36]), ([1], .bytes [115]),
      ([2], .bytes [97, 98, 99, 100, 101, 102, 103, 104, 105, 106, 107, 108, 109, 110, 111, 112, 113, 114, 115, 116,
        117, 118])] := by decide +kernel

#print axioms unmarshal_eq_grammar_md5
#print axioms unmarshal_iff_grammar_md5
#print axioms accepts_only_respellings_md5
#print axioms unmarshal_eq_grammar_sha1
#print axioms unmarshal_iff_grammar_sha1
#print axioms accepts_only_respellings_sha1
#print axioms unmarshal_eq_grammar_sha256
#print axioms unmarshal_iff_grammar_sha256
#print axioms accepts_only_respellings_sha256
#print axioms unmarshal_eq_grammar_sha512
#print axioms unmarshal_iff_grammar_sha512
#print axioms accepts_only_respellings_sha512
#print axioms unmarshal_eq_grammar_nthash
#print axioms unmarshal_iff_grammar_nthash
#print axioms accepts_only_respellings_nthash
#print axioms unmarshal_eq_grammar_des
#print axioms unmarshal_iff_grammar_des
#print axioms accepts_only_respellings_des
#print axioms unmarshal_eq_grammar_desext
#print axioms unmarshal_iff_grammar_desext
#print axioms accepts_only_respellings_desext
#print axioms unmarshal_eq_grammar_bcrypt
#print axioms unmarshal_iff_grammar_bcrypt
#print axioms accepts_only_respellings_bcrypt
#print axioms unmarshal_eq_grammar_sunmd5
#print axioms unmarshal_iff_grammar_sunmd5
#print axioms accepts_only_respellings_sunmd5
#print axioms unmarshal_eq_grammar_argon2
#print axioms unmarshal_iff_grammar_argon2
#print axioms accepts_only_respellings_argon2

end GoCrypt.Accept
