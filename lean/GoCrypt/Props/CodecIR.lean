import GoCrypt.Proofs.CodecIRProgram
import GoCrypt.Proofs.CodecIRExamples

/-!
# `hash/marshal.go` regenerated from source equals the hand-written model `Model/Codec.lean`

`gogen` (codecir.go) translates `Marshal`, `marshalValue`, `marshal`, `indirect`, `isEmpty` into the codec IR
(`Base/CodecIR.lean`) on every run (`Gen/CodecIR.lean`).  The theorems below say that INTERPRETING those
programs gives what the model (`marshalRaw`, `marshalValue`, `isEmptyVal`, `marshalFields`, `marshal`)
computes; so a change of the Go source that changes behaviour breaks a proof here, and everything proved
elsewhere about the model (`Props/C10General`, `C10`, `C20`, `C06`, …) is about the code in the repository.

Vocabulary (`Proofs/CodecIRDefs.lean`):
* `RepStruct structs t fs ti vals` — the Go struct value `fs` of type `t` holds the model's `vals`: every field
  `ti` lists is reached by `FieldByIndex` through exported fields and non-nil embedded pointers, has the type
  `ti` records, and its value is `RepF`-related to the model's `FVal` (`.nilPtr` = the field itself is nil;
  otherwise non-nil all the way down to a value of the field's kind; `.other` = a non-embedded struct, or a
  value of a kind outside the description language that is not an interface and — when the field has
  `omitempty` — is not empty);
* `GetTypeInfoOk ext m t ti` — the external `getTypeInfo(t)` leaves a `typeInfo` record representing `ti`
  (the shape `Props/TypeInfoIR.lean: getTypeInfo_cold_eq_typeInfoOf` proves for the regenerated `getTypeInfo`);
* `IndexAnyInvalidSpec`, `MarshalTextSpec` — what is assumed about the two primitives the program calls but
  does not contain (both have witnesses: `indexAnyInvalid_witness`, `marshalText_witness`);
* `absErr heap v` — the model's `MErr` for an error VALUE of the program: error type, `Field` name, message
  class.  The `Type`, `Struct` and `Value` payloads of the Go error are NOT compared.
-/

namespace GoCrypt.CodecIR
open GoCrypt.Codec GoCrypt.Gen.codecIR GoCrypt.CIR
open GoCrypt.TIIR (RType Res fiType)

/-- The translator understood every statement and expression of the nine functions (five of marshal.go, four of unmarshal.go). -/
theorem no_unknown_nodes : program.procs.map (·.body.unknowns) = [0, 0, 0, 0, 0, 0, 0, 0, 0] := by decide

/-- Loop bound above the pointer depths and the number of fields; `base:` values as `strconv` accepts them
(true of every `TypeInfo` that `typeInfoOf` produces; `strconv.FormatInt` PANICS otherwise). -/
def BoundsW (w : World) (t : RType) (ti : TypeInfo) : Prop :=
  t.depth < w.fuel ∧ ti.fields.length < w.fuel ∧
  ∀ fi ∈ ti.hashPrefix.toList ++ ti.fields, fi.ptrDepth < w.fuel ∧ 2 ≤ fi.opts.base ∧ fi.opts.base ≤ 36

/-- **`Marshal` = `Codec.marshal`.**  For every `ti`, every struct value `fs` (behind `t.depth` non-nil pointers)
that represents `vals`: the regenerated `Marshal` returns `(text, nil)` with `Codec.marshal ti vals = .ok text`,
or `("", err)` with `absErr err` = the model's error — omitempty skipping, `$`/`,` separators, `param=`
prefixes, inline fields, nil pointers, TextMarshaler classes, length and alphabet checks included. -/
theorem marshal_eq_model (w : World) (hidx : IndexAnyInvalidSpec w.indexAnyInvalid) (hmt : MarshalTextSpec w.marshalText)
    (d : Nat) (m : Mem) (t : RType) (fs : List GVal) (ti : TypeInfo) (vals : Vals)
    (hget : GetTypeInfoOk w.ext m t ti) (hrep : RepStruct w.structs t fs ti vals) (hb : BoundsW w t ti) :
    ∃ m', MarshalPost m' (Codec.marshal ti vals)
      (callIn program w (d + 3) 0 m [.iface t (ptrChain t.depth (.struct fs))]) := by
  obtain ⟨heap', a, hp, addrs, hext, hti, hhp, hreps⟩ := hget
  refine ⟨{ m with heap := heap' }, ?_⟩
  rw [callIn_succ program w (d + 2) 0 m _ marshalTopIR (by rfl)]
  exact marshalTop_spec (w.ctx (callIn program w (d + 2))) (callSpecs_callIn w hidx hmt d) m t fs ti vals _ a hp addrs
    hext hti hhp hreps hrep hb

/-- `marshal` (one dereferenced field value) = `marshalRaw`. -/
theorem marshal_eq_marshalRaw (c : Ctx) (hmts : MarshalTextSpec c.marshalText) (m : Mem) (t t0 : RType) (a : Nat)
    (fi : FieldInfo) (fv : FVal) (g0 : GVal) (h : m.heap[a]? = some (TIIR.fiObj fi)) (hd : t0.depth = 0)
    (hk0 : t0.kind = fi.kind) (hm0 : t0.mt = fi.marshalText) (hbase : 2 ≤ fi.opts.base ∧ fi.opts.base ≤ 36)
    (hv : RepV0 fi fv g0) (hc : mtCompat fi.marshalText fv) :
    MPost m (marshalRaw fi fv) (execProc c marshalIR m [.rtype t, .ptr a, .rv t0 g0 false]) :=
  marshal_spec c hmts m t t0 a fi fv g0 h hd hk0 hm0 hbase hv hc

/-- `isEmpty` = `isEmptyVal` (for a field with `omitempty`, the only place `Marshal` asks). -/
theorem isEmpty_eq_isEmptyVal (c : Ctx) (m : Mem) (fi : FieldInfo) (fv : FVal) (g : GVal) (ro : Bool)
    (hrep : RepF fi fv g) (hom : fi.opts.omitEmpty = true) :
    execProc c isEmptyIR m [.rv (fiType fi) g ro] = .ok (m, [.bool (isEmptyVal fi fv)]) :=
  isEmpty_spec c m fi fv g ro hrep hom

/-- `indirect` follows every pointer of a non-nil chain … -/
theorem indirect_nonnil (c : Ctx) (m : Mem) (t : RType) (g0 : GVal) (ro : Bool) (ht : t.depth < c.fuel) :
    execProc c indirectIR m [.rv t (ptrChain t.depth g0) ro] = .ok (m, [.rv { t with depth := 0 } g0 ro]) :=
  indirect_chain c m t g0 ro ht

/-- … and gives the invalid `Value` at a nil pointer. -/
theorem indirect_of_nil (c : Ctx) (m : Mem) (t : RType) (ro : Bool) (hd : 0 < t.depth) (hf : 0 < c.fuel) :
    execProc c indirectIR m [.rv t .nilPtr ro] = .ok (m, [.rvInvalid]) :=
  indirect_nil c m t ro hd hf

/-- The primitive specifications are satisfiable. -/
theorem indexAnyInvalid_witness : IndexAnyInvalidSpec indexAnyInvalidRef := indexAnyInvalidRef_spec
theorem marshalText_witness : MarshalTextSpec marshalTextRef := marshalTextRef_spec

/-! ## Examples: the regenerated `Marshal` run on concrete struct descriptions

`Examples.agrees structs root stars vals` runs function 0 on a `*…*root` holding `vals` (with the reference
primitives and a `getTypeInfo` that writes the records of `typeInfoOf`) and compares with `Codec.marshal`
through `absErr`. -/

open Examples in
-- the sha256 scheme struct of `Gen/Shapes.lean` (prefix, `rounds=` param with omitempty, salt, 43-byte sum)
#guard textOf (run GoCrypt.Gen.sha256.structs "scheme" 1 [([0], .str (b "$5$")), ([1], .uint 5000), ([2], .bytes (b "salt")),
    ([3], .bytes (b "0123456789012345678901234567890123456789012"))]) ==
  some "$5$rounds=5000$salt$0123456789012345678901234567890123456789012"
open Examples in
#guard agrees GoCrypt.Gen.sha256.structs "scheme" 1 [([0], .str (b "$5$")), ([1], .uint 0), ([2], .bytes (b "salt")),
    ([3], .bytes (b "0123456789012345678901234567890123456789012"))]
open Examples in
-- a sum of the wrong alphabet: the same `invalid character` error
#guard agrees GoCrypt.Gen.sha256.structs "scheme" 0 [([0], .str (b "$5$")), ([2], .bytes (b "salt")),
    ([3], .bytes (b "01234567890123456789012345678901234567890!2"))]
open Examples in
-- the argon2 scheme struct (omitempty version, a group of three params, base64 fields)
#guard textOf (run GoCrypt.Gen.argon2.structs "scheme" 1 [([0], .str (b "$argon2id$")), ([1], .uint 19), ([2], .uint 65536), ([3], .uint 3),
    ([4], .uint 4), ([5], .bytes (b "c2FsdA")), ([6], .bytes (b "c3Vt"))]) == some "$argon2id$v=19$m=65536,t=3,p=4$c2FsdA$c3Vt"
open Examples in
#guard agrees GoCrypt.Gen.argon2.structs "scheme" 0 [([0], .str (b "$argon2id$")), ([2], .uint 65536), ([3], .uint 3),
    ([4], .uint 4), ([5], .bytes (b "c2FsdA")), ([6], .bytes (b "c3Vt"))]
open Examples in
-- a struct with a prefix, a group, an embedded `*Inner` with an omitempty pointer, an inline field, a two-digit marshaler
#guard textOf (run structs "Outer" 1 [([0], .str (b "$x$")), ([1], .uint 65536), ([2], .int 3), ([3, 0], .str (b "abc")), ([3, 1], .uint 255),
    ([4], .bytes (b "sa")), ([5], .uint 7), ([6], .str (b "QUJD")), ([7], .bytes (b "abcd"))]) == some "$x$m=65536,t=3$abc$n=ff$sa07$QUJD$abcd"
open Examples in
#guard agrees structs "Outer" 1 [([0], .str (b "$x$")), ([1], .uint 65536), ([2], .int 3), ([3, 0], .str (b "abc")), ([3, 1], .uint 255),
    ([4], .bytes (b "sa")), ([5], .uint 7), ([6], .str (b "QUJD")), ([7], .bytes (b "abcd"))]
open Examples in
-- nil pointers (`N`, `P`) are omitted; a negative `T` fails the alphabet check in both
#guard agrees structs "Outer" 0 [([0], .str (b "$x$")), ([2], .int (-3)), ([3, 0], .str (b "abc")), ([3, 1], .nilPtr), ([4], .bytes (b "sa")),
    ([5], .uint 12), ([6], .nilPtr), ([7], .bytes (b "abcd"))]
open Examples in
-- length mismatch on `Z`
#guard agrees structs "Outer" 0 [([3, 0], .str (b "ab"))]
open Examples in
-- unsupported kind, failing marshaler, invalid tag
#guard agrees structs "Bad" 0 []
open Examples in
#guard agrees structs "Failing" 0 []
open Examples in
#guard agrees structs "Invalid" 0 []

#print axioms no_unknown_nodes
#print axioms marshal_eq_model
#print axioms marshal_eq_marshalRaw
#print axioms isEmpty_eq_isEmptyVal
#print axioms indirect_nonnil
#print axioms indirect_of_nil
#print axioms indexAnyInvalid_witness
#print axioms marshalText_witness

end GoCrypt.CodecIR
