import GoCrypt.Proofs.ParseFlowLoop
import GoCrypt.Props.C11Core

/-!
# The whole hash lexer and parser, regenerated from the source, equal the hand model — for all inputs

`gogen` (`parseir.go`) re-translates, on every run, `lexPrefix`, `lexFragment`, `(*lexer).emit`,
`(*lexer).Next`, `(*lexer).errorf`, `(*lexer).NextToken`, `(*lexer).run`, `lex` (`/repo/hash/parse/lex.go`)
and `Parse` (`/repo/hash/parse/parse.go`) into the extended structured statement IR of
`Base/SFlow2.lean` (`Gen/ParseFlow.lean`): loops, `switch`, `break Loop`, `go`, struct literals,
`append`, with canonical names for locals, parameters and labels.  `Spec/SFlowVal2.lean` +
`Spec/SFlowVal2Parse.lean` say what such a program computes (fuelled loops, Go scoping, a heap with
real pointers, bounds-checked slicing, the goroutine + channel as a producer list — the modelling
decisions are stated at the top of `Spec/SFlowVal2Parse.lean`).

The theorems below say that the regenerated programs compute exactly the functions of
`Model/Parse.lean` about which C11 is proved: `lexFrag`, `tokens`, `parse`.  Helper lemmas are in
`Proofs/ParseFlow*.lean`.
-/

namespace GoCrypt.ParseFlow
open GoCrypt GoCrypt.Flow GoCrypt.SFlow GoCrypt.SFlow2 GoCrypt.SFlowVal GoCrypt.SFlowVal2 GoCrypt.Parse

/-! ## The equalities -/

/-- The regenerated `lexFragment`, iterated as a state function from offset `p` of `s` (lexer at
`pos = start = p`), sends exactly the model's `lexFrag` of the rest of the input and then stops with
the lexer at the end of its input. -/
theorem lexFragmentFlow_eq_model (s : Bytes) (p : Nat) (hp : p ≤ s.length) :
    evalLexFragment Gen.hash_parse.lexFragmentFlow s p = some (lexFrag (s.drop p) p []) :=
  evalLexFragment_eq s p hp

/-- The regenerated lexer — `lex`, its goroutine `(*lexer).run` with the state-function loop,
`lexPrefix`, `lexFragment`, `emit`, `Next`, `errorf`, all from their regenerated bodies — sends
exactly `Parse.tokens s` (the terminal EOF / error token included), **then closes the channel**: the
lexer stops there. -/
theorem lexerFlow_eq_model (s : Bytes) : evalLex Gen.hash_parse.lexFlow s = some (tokens s) :=
  evalLex_eq s

/-- The regenerated `Parse` (with `lex`, `NextToken` and the whole lexer under it) returns exactly
`Parse.parse s`: the tree read off the heap with every span, or the syntax error with its offset and
message — and when it returns, every token the lexer sent has been received and the channel is closed
(`evalParse` yields nothing otherwise). -/
theorem parseFlow_eq_model (s : Bytes) : evalParse Gen.hash_parse.parseFlow s = some (parse s) :=
  evalParse_eq s

/-! ## Consequences: no panic, no stuck run, termination within the fuel, no blocked goroutine -/

/-- `Parse` returns — it neither panics (slice / index out of range, nil call, send on or close of a
closed channel), nor gets stuck (unknown construct, ill-typed operand, deadlock on the channel), nor
runs out of the loop fuel `2·len(s) + 4` — with every channel closed and drained. -/
theorem parseFlow_returns (s : Bytes) :
    ∃ vs st, runParse Gen.hash_parse.parseFlow s = .ret vs st ∧ allDrained st.chans = true := by
  have h := parseFlow_eq_model s
  unfold evalParse at h
  split at h
  · rename_i st heq
    refine ⟨_, st, heq, ?_⟩
    by_cases hd : allDrained st.chans = true
    · exact hd
    · simp [hd] at h
  · rename_i st heq
    refine ⟨_, st, heq, ?_⟩
    by_cases hd : allDrained st.chans = true
    · exact hd
    · simp [hd] at h
  · cases h

theorem parseFlow_never_panics (s : Bytes) : ∀ w, runParse Gen.hash_parse.parseFlow s ≠ .panic w := by
  obtain ⟨vs, st, h, _⟩ := parseFlow_returns s
  intro w e; rw [h] at e; cases e

theorem parseFlow_terminates (s : Bytes) : ∀ w, runParse Gen.hash_parse.parseFlow s ≠ .stuck w := by
  obtain ⟨vs, st, h, _⟩ := parseFlow_returns s
  intro w e; rw [h] at e; cases e

/-- The lexer goroutine runs to its end (within the fuel) without panic. -/
theorem lexerFlow_returns (s : Bytes) : ∃ a st, runLex Gen.hash_parse.lexFlow s = .ret [.ext (.ptr a)] st := by
  have h := lexerFlow_eq_model s
  unfold evalLex at h
  split at h
  · rename_i a st heq; exact ⟨a, st, heq⟩
  · cases h

/-! ## C11 about the regenerated program (transported along the equalities) -/

/-- C11 (a) for the regenerated `Parse`: it fails iff the `$` identifier is empty or unterminated. -/
theorem parseFlow_error_iff (s : Bytes) :
    (∃ o m, evalParse Gen.hash_parse.parseFlow s = some (.err o m)) ↔ (C11.Unterminated s ∨ C11.EmptyIdent s) := by
  rw [parseFlow_eq_model]
  simp only [Option.some.injEq]
  exact C11.parse_error_iff s

/-- C11 (c) for the regenerated `Parse`: the tree renders back to the input up to one trailing delimiter. -/
theorem parseFlow_lossless (s : Bytes) (t : Tree) (h : evalParse Gen.hash_parse.parseFlow s = some (.ok t)) :
    ∃ d, (d = [] ∨ d = [Bytes.dollar] ∨ d = [Bytes.comma]) ∧ t.render ++ d = s := by
  rw [parseFlow_eq_model] at h
  exact C11.parse_lossless s t (Option.some.inj h)

/-- C11 (d) for the regenerated `Parse`: every value node's span is exactly its text. -/
theorem parseFlow_spans_exact (s : Bytes) (t : Tree) (h : evalParse Gen.hash_parse.parseFlow s = some (.ok t)) :
    ∀ n ∈ t.nodes, n.fin = n.pos + n.val.length ∧ n.fin ≤ s.length ∧ (s.drop n.pos).take (n.fin - n.pos) = n.val := by
  rw [parseFlow_eq_model] at h
  exact C11.spans_exact s t (Option.some.inj h)

/-- C11 (b) for the regenerated lexer: without an error token, the token texts concatenate to the input. -/
theorem lexerFlow_lossless (s : Bytes) (ts : List Tok) (h : evalLex Gen.hash_parse.lexFlow s = some ts)
    (hne : ∀ t ∈ ts, ∀ p m, t ≠ Tok.error p m) : (ts.map Tok.text).flatten = s := by
  rw [lexerFlow_eq_model] at h
  cases h
  exact C11.lexer_lossless s hne

/-! ## Structure facts about the regenerated programs -/

/-- All nine functions lie wholly inside the translated fragment (no `other` node); the only `go`
statement is the one in `lex`; the interpreter binds the parameters the translator recorded. -/
theorem translated_fragment :
    SFlow2.othersList Gen.hash_parse.lexPrefixFlow2.body = 0 ∧ SFlow2.othersList Gen.hash_parse.lexFragmentFlow.body = 0 ∧
    SFlow2.othersList Gen.hash_parse.lexerEmitFlow2.body = 0 ∧ SFlow2.othersList Gen.hash_parse.lexerNextFlow.body = 0 ∧
    SFlow2.othersList Gen.hash_parse.lexerErrorfFlow.body = 0 ∧ SFlow2.othersList Gen.hash_parse.lexerNextTokenFlow.body = 0 ∧
    SFlow2.othersList Gen.hash_parse.lexerRunFlow.body = 0 ∧ SFlow2.othersList Gen.hash_parse.lexFlow.body = 0 ∧
    SFlow2.othersList Gen.hash_parse.parseFlow.body = 0 ∧
    [Gen.hash_parse.lexPrefixFlow2, Gen.hash_parse.lexFragmentFlow, Gen.hash_parse.lexerEmitFlow2,
      Gen.hash_parse.lexerNextFlow, Gen.hash_parse.lexerErrorfFlow, Gen.hash_parse.lexerNextTokenFlow,
      Gen.hash_parse.lexerRunFlow, Gen.hash_parse.lexFlow, Gen.hash_parse.parseFlow].map (fun f => SFlow2.gosList f.body) =
      [0, 0, 0, 0, 0, 0, 0, 1, 0] ∧
    Gen.hash_parse.parseFlow.params = [("p1", "string")] ∧ Gen.hash_parse.parseFlow.results = ["*Tree", "error"] ∧
    Gen.hash_parse.lexFlow.params = [("p1", "string")] ∧ Gen.hash_parse.lexFlow.results = ["*lexer"] ∧
    Gen.hash_parse.lexFragmentFlow.params = [("p1", "*lexer")] ∧ Gen.hash_parse.lexFragmentFlow.results = ["stateFn"] ∧
    Gen.hash_parse.lexerErrorfFlow.params = [("p1", "*lexer"), ("p2", "string"), ("p3", "...interface{}")] := by
  decide

/-- The token kinds the regenerated programs switch on / emit are the regenerated constants. -/
theorem token_constants :
    (Gen.hash_parse.tokenError, Gen.hash_parse.tokenPrefix, Gen.hash_parse.tokenDollar, Gen.hash_parse.tokenComma,
      Gen.hash_parse.tokenValue, Gen.hash_parse.tokenEOF) = (0, 1, 2, 3, 4, 5) := by decide

/-- The `token` struct has exactly the three fields the semantics' `GoToken` record has. -/
theorem token_struct : lookupS Gen.hash_parse.structs "token" =
    some [("Type", "tokenType"), ("Pos", "Pos"), ("Value", "string")] := by decide

def exprHasAppend : FExpr → Bool
  | .fn f => f == "append"
  | .app f a => exprHasAppend f || exprHasAppend a
  | .op _ a b => exprHasAppend a || exprHasAppend b
  | .un _ a => exprHasAppend a
  | _ => false

/-- The expression an assignment target spells. -/
def targetExpr (x : String) : FExpr :=
  match placeOfName x with
  | .var y => .var y
  | .field y f => .field y f

mutual
/-- Every `append` occurs as `x = append(x, v)` with no `append` inside `x` or `v`. -/
def appendOK : PStmt → Bool
  | .assign [x] (.app (.app (.fn "append") src) v) => src == targetExpr x && !exprHasAppend src && !exprHasAppend v
  | .assign _ e => !exprHasAppend e
  | .define _ e => !exprHasAppend e
  | .eval e => !exprHasAppend e
  | .ret es => es.all fun e => !exprHasAppend e
  | .ite i c t e => appendOKs i && !exprHasAppend c && appendOKs t && appendOKs e
  | .block b => appendOKs b
  | .loop _ i c p b =>
    appendOKs i && (match c with | some c => !exprHasAppend c | none => true) && appendOKs p && appendOKs b
  | .switch _ i t cs d => appendOKs i && !exprHasAppend t && appendOKCases cs && appendOKs d
  | .go e => !exprHasAppend e
  | _ => true
def appendOKs : List PStmt → Bool
  | [] => true
  | s :: ss => appendOK s && appendOKs ss
def appendOKCases : List PCase → Bool
  | [] => true
  | .mk vs b :: cs => (vs.all fun e => !exprHasAppend e) && appendOKs b && appendOKCases cs
end

/-- Slices as values (`Spec/SFlowVal2Parse.lean`) cannot be told from Go's slices by these programs:
every `append` has the form `x = append(x, v)` — its result overwrites the only holder of its first
argument, so no stale slice header sharing a backing array survives. -/
theorem appends_overwrite_their_source :
    appendOKs Gen.hash_parse.parseFlow.body = true ∧ appendOKs Gen.hash_parse.lexFlow.body = true ∧
    appendOKs Gen.hash_parse.lexerRunFlow.body = true ∧ appendOKs Gen.hash_parse.lexFragmentFlow.body = true ∧
    appendOKs Gen.hash_parse.lexPrefixFlow2.body = true ∧ appendOKs Gen.hash_parse.lexerEmitFlow2.body = true ∧
    appendOKs Gen.hash_parse.lexerNextFlow.body = true ∧ appendOKs Gen.hash_parse.lexerErrorfFlow.body = true ∧
    appendOKs Gen.hash_parse.lexerNextTokenFlow.body = true := by
  decide

/-! ## Non-vacuity: the interpreter really runs the regenerated lexer and parser

(`decide +kernel`: the kernel evaluates the interpreter on the regenerated terms; no axiom beyond the
usual three, no `native_decide`.) -/

/-- `"$1$salt$sum"`: MD5-crypt -/
example : evalLex Gen.hash_parse.lexFlow [36, 49, 36, 115, 97, 108, 116, 36, 115, 117, 109] = some (tokens [36, 49, 36, 115, 97, 108, 116, 36, 115, 117, 109]) := by decide +kernel
example : evalParse Gen.hash_parse.parseFlow [36, 49, 36, 115, 97, 108, 116, 36, 115, 117, 109] = some (parse [36, 49, 36, 115, 97, 108, 116, 36, 115, 117, 109]) := by decide +kernel
/-- `"$argon2id$v=19$m=8,t=1,p=1$c2FsdA$aGFzaA"`: argon2: groups of params -/
example : evalLex Gen.hash_parse.lexFlow [36, 97, 114, 103, 111, 110, 50, 105, 100, 36, 118, 61, 49, 57, 36, 109, 61, 56, 44, 116, 61, 49, 44, 112, 61, 49, 36, 99, 50, 70, 115, 100, 65, 36, 97, 71, 70, 122, 97, 65] = some (tokens [36, 97, 114, 103, 111, 110, 50, 105, 100, 36, 118, 61, 49, 57, 36, 109, 61, 56, 44, 116, 61, 49, 44, 112, 61, 49, 36, 99, 50, 70, 115, 100, 65, 36, 97, 71, 70, 122, 97, 65]) := by decide +kernel
example : evalParse Gen.hash_parse.parseFlow [36, 97, 114, 103, 111, 110, 50, 105, 100, 36, 118, 61, 49, 57, 36, 109, 61, 56, 44, 116, 61, 49, 44, 112, 61, 49, 36, 99, 50, 70, 115, 100, 65, 36, 97, 71, 70, 122, 97, 65] = some (parse [36, 97, 114, 103, 111, 110, 50, 105, 100, 36, 118, 61, 49, 57, 36, 109, 61, 56, 44, 116, 61, 49, 44, 112, 61, 49, 36, 99, 50, 70, 115, 100, 65, 36, 97, 71, 70, 122, 97, 65]) := by decide +kernel
/-- `"_abcd"`: BSDi prefix -/
example : evalLex Gen.hash_parse.lexFlow [95, 97, 98, 99, 100] = some (tokens [95, 97, 98, 99, 100]) := by decide +kernel
example : evalParse Gen.hash_parse.parseFlow [95, 97, 98, 99, 100] = some (parse [95, 97, 98, 99, 100]) := by decide +kernel
/-- `"$"`: unterminated identifier -/
example : evalLex Gen.hash_parse.lexFlow [36] = some (tokens [36]) := by decide +kernel
example : evalParse Gen.hash_parse.parseFlow [36] = some (parse [36]) := by decide +kernel
/-- `"$$x"`: empty identifier -/
example : evalLex Gen.hash_parse.lexFlow [36, 36, 120] = some (tokens [36, 36, 120]) := by decide +kernel
example : evalParse Gen.hash_parse.parseFlow [36, 36, 120] = some (parse [36, 36, 120]) := by decide +kernel
/-- `"a$b,"`: a group of one value before a trailing comma -/
example : evalLex Gen.hash_parse.lexFlow [97, 36, 98, 44] = some (tokens [97, 36, 98, 44]) := by decide +kernel
example : evalParse Gen.hash_parse.parseFlow [97, 36, 98, 44] = some (parse [97, 36, 98, 44]) := by decide +kernel
/-- `""`: the empty hash -/
example : evalLex Gen.hash_parse.lexFlow [] = some (tokens []) := by decide +kernel
example : evalParse Gen.hash_parse.parseFlow [] = some (parse []) := by decide +kernel

/-- …and the values are what one expects: `"a$b,"` lexes to value, `$`, value, `,`, EOF… -/
example : evalLex Gen.hash_parse.lexFlow [97, 36, 98, 44] =
    some [.value 0 [97], .dollar 1, .value 2 [98], .comma 3, .eof 4] := by decide +kernel
/-- …and parses to the value `a` and the one-element group `b`. -/
example : evalParse Gen.hash_parse.parseFlow [97, 36, 98, 44] =
    some (.ok ⟨none, [.value ⟨[97], 0, 1⟩, .group [⟨[98], 2, 3⟩]]⟩) := by decide +kernel
/-- `"$$x"`: "missing prefix identifier" at offset 1 -/
example : evalParse Gen.hash_parse.parseFlow [36, 36, 120] = some (.err 1 1) := by decide +kernel
/-- `"$"`: "missing prefix end" at offset 1 -/
example : evalParse Gen.hash_parse.parseFlow [36] = some (.err 1 2) := by decide +kernel
/-- the iterated `lexFragment` from offset 3 of `"$1$ab,c"` -/
example : evalLexFragment Gen.hash_parse.lexFragmentFlow [36, 49, 36, 97, 98, 44, 99] 3 =
    some [.value 3 [97, 98], .comma 5, .value 6 [99], .eof 7] := by decide +kernel

/-! ## The semantics is live: panics, stuck runs, fuel, deadlock and leaks are observable -/

/-- Out of fuel is `stuck`, never a silent cut: `lex("a$b")` with fuel 1. -/
example : (match runFunc2 (pp3 1) 1 Gen.hash_parse.lexFlow [.str [97, 36, 98]] {} with
    | .stuck _ => true | _ => false) = true := by decide +kernel
/-- `lexFragment` from an offset beyond the input panics in `l.input[l.pos:]` (nothing is clamped). -/
example : evalLexFragment Gen.hash_parse.lexFragmentFlow [] 1 = none := by decide +kernel
example : (match runFunc2 (pp1 4) 4 Gen.hash_parse.lexFragmentFlow [.ext (.ptr 0)] ⟨[lexObj [] 1 1 0], [{}]⟩ with
    | .panic _ => true | _ => false) = true := by decide +kernel
/-- A `Parse` that returns before the lexer's channel is drained — here: right after `lex` — is not
read as a result (`allDrained`): the blocked lexer goroutine is observable. -/
example : evalParse { Gen.hash_parse.parseFlow with body :=
      [.define ["v1"] (.un "()" (.fn "new:Tree")), .define ["v2"] (.app (.fn "lex") (.var "p1")),
       .ret [.var "v1", .const "nil"]] } [97, 36, 98] = none := by decide +kernel
/-- A receive with no producer (`NextToken` before any `go`) is a deadlock: `stuck`. -/
example : (match (pp4 4).call "(*lexer).NextToken" [.ext (.ptr 0)] ⟨[lexObj [] 0 0 0], [{}]⟩ with
    | .stuck _ => true | _ => false) = true := by decide +kernel
/-- A `Parse` without `break Loop` at EOF receives from the closed channel: the zero token, an error
at offset 0 with the empty message — not the model's result. -/
example : evalParse { Gen.hash_parse.parseFlow with body :=
      [.define ["v1"] (.un "()" (.fn "new:Tree")), .define ["v2"] (.app (.fn "lex") (.var "p1")),
       .loop "L1" [] none [] [.define ["v5"] (.app (.fn "(*lexer).NextToken") (.var "v2")),
         .switch "" [] (.field "v5" "Type") [.mk [.const "0"]
           [.ret [.const "nil", .app (.app (.fn "new:SyntaxError") (.op ":" (.const "Offset") (.un "conv:int" (.field "v5" "Pos"))))
              (.op ":" (.const "Msg") (.field "v5" "Value"))]]] []],
       .ret [.var "v1", .const "nil"]] } [97, 98] = some (.err 0 0) := by decide +kernel
/-- An untranslated statement is `stuck`. -/
example : (match runParse { Gen.hash_parse.parseFlow with body := [.other "goto x"] } [] with
    | .stuck _ => true | _ => false) = true := by decide +kernel
/-- Pointers alias: a write through one pointer is seen through another to the same object. -/
example : (match exec2 pp0 1 (.assign ["x.Values"] (.const "nil")) [[("x", .ext (.ptr 0)), ("y", .ext (.ptr 0))]]
      ⟨[("GroupNode", [("Values", .ext (.slice [none]))])], []⟩ with
    | .next env st => pp0.readField (.ext (.ptr 0)) "Values" st == some .nil && env.get "y" == some (.ext (.ptr 0))
    | _ => false) = true := by decide +kernel

end GoCrypt.ParseFlow

#print axioms GoCrypt.ParseFlow.lexFragmentFlow_eq_model
#print axioms GoCrypt.ParseFlow.lexerFlow_eq_model
#print axioms GoCrypt.ParseFlow.parseFlow_eq_model
#print axioms GoCrypt.ParseFlow.parseFlow_returns
#print axioms GoCrypt.ParseFlow.parseFlow_never_panics
#print axioms GoCrypt.ParseFlow.parseFlow_terminates
#print axioms GoCrypt.ParseFlow.lexerFlow_returns
#print axioms GoCrypt.ParseFlow.parseFlow_error_iff
#print axioms GoCrypt.ParseFlow.parseFlow_lossless
#print axioms GoCrypt.ParseFlow.parseFlow_spans_exact
#print axioms GoCrypt.ParseFlow.lexerFlow_lossless
#print axioms GoCrypt.ParseFlow.translated_fragment
#print axioms GoCrypt.ParseFlow.token_constants
#print axioms GoCrypt.ParseFlow.token_struct
#print axioms GoCrypt.ParseFlow.appends_overwrite_their_source
