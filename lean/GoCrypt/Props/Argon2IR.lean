import GoCrypt.Proofs.A2IRSpecs
import GoCrypt.Proofs.A2IRBlock
import GoCrypt.Proofs.A2IRLink
import GoCrypt.Proofs.A2IRHash
import GoCrypt.Proofs.A2IRKey
import GoCrypt.Props.C04Core
/-!
# The Argon2 core is what the Go source computes (block IR)

`gogen` (argon2ir.go) re-translates, on every run, the bodies of `argon2/argon2crypto` (generic / `purego`
path) into the programs of `Gen/Argon2IR.lean`; `Base/A2IR.lean` interprets them on a heap of blocks and
byte buffers, with BLAKE2b as an opaque primitive.  The theorems below state that interpreting the
regenerated programs gives exactly the hand-written model `Model/Kdf/Argon2.lean` (and, for the index
computation, the integer kernels of `Gen/Kernels.lean` that the model calls).

The programs name their variables by SLOT (order of declaration), so a pure rename of a local variable or
parameter in the Go source leaves `Gen/Argon2IR.lean` unchanged up to comments, and these proofs untouched.
Property theorems only; the lemmas are in `Proofs/A2IR*.lean`.
-/

namespace GoCrypt.Argon2IR
open GoCrypt.A2IR GoCrypt.Gen.argon2IR GoCrypt.Kdf GoCrypt.Argon2Sched

/-! ## Step 1: `phi`, `indexAlpha` -/

/-- `phi(rand, m, s, lane, lanes)` as regenerated returns the kernel `Gen.argon2crypto.phi` of the
arguments' values and leaves the heap alone — for all `uint64` words `rand, m, s`, every `lane`, and every
`lanes` with `0 < lanes < 2^32` (`lanes = 0` is a division by zero in Go). -/
theorem phi_ir_eq_kernel (H : Nat → Bytes → Bytes) (h : Heap) (rand m s : UInt64) (lane lanes : Nat)
    (hl : 0 < lanes) (hl32 : lanes < 4294967296) :
    interp H program "phi" h [.u64 rand, .u64 m, .u64 s, .u32 lane, .u32 lanes] =
      .ok (h, [.u32 (Gen.argon2crypto.phi rand.toNat m.toNat s.toNat lane lanes)]) :=
  phiSpec_ctxOf H 12 h rand m s lane lanes hl hl32

/-- `indexAlpha(rand, lanes, segments, threads, n, slice, lane, index)` as regenerated (including its call
of the regenerated `phi`) returns `Gen.argon2crypto.indexAlpha` — the expression kernel the model calls —
for every `uint64` `rand` and all `uint32` arguments with `0 < lanes < 2^32` and `0 < threads`
(`threads = 0` or `lanes = 0` is a division by zero in Go). -/
theorem indexAlpha_ir_eq_kernel (H : Nat → Bytes → Bytes) (h : Heap) (rand : UInt64)
    (lanes segments threads n slice lane index : Nat)
    (hl : 0 < lanes) (hl32 : lanes < 4294967296) (ht : 0 < threads) :
    interp H program "indexAlpha" h
        [.u64 rand, .u32 lanes, .u32 segments, .u32 threads, .u32 n, .u32 slice, .u32 lane, .u32 index] =
      .ok (h, [.u32 (Gen.argon2crypto.indexAlpha rand.toNat lanes segments threads n slice lane index)]) :=
  indexAlphaSpec_ctxOf H 11 h rand lanes segments threads n slice lane index hl hl32 ht

/-! ## Step 2: the block function and the `processSegment` closure -/

/-- `processBlock(out, in1, in2)` as regenerated — `processBlock` → `processBlockGeneric(…, false)` → sixteen calls of
`blamkaGeneric` on pointers into the local block `t`, ALL THREE regenerated — stores the model's
`processBlock out in1 in2 false` through `out` and changes nothing else, for all 128-word blocks; `out`, `in1`,
`in2` are arbitrary block pointers and MAY COINCIDE (`processBlock(&addresses, &addresses, &zero)`). -/
theorem processBlock_ir_eq_model (H : Nat → Bytes → Bytes) (h : Heap) (ro r1 r2 : Ref) (io i1 i2 : Nat)
    (ao a1 a2 : Array Block)
    (ho : h.get ro = some (.blocks ao)) (h1 : h.get r1 = some (.blocks a1)) (h2 : h.get r2 = some (.blocks a2))
    (hio : io < ao.size) (hi1 : i1 < a1.size) (hi2 : i2 < a2.size)
    (so : ao[io]!.size = 128) (s1 : a1[i1]!.size = 128) (s2 : a2[i2]!.size = 128) :
    interp H program "processBlock" h [.pblk ro io, .pblk r1 i1, .pblk r2 i2] =
      .ok (h.set ro (.blocks (ao.set! io (Argon2.processBlock ao[io]! a1[i1]! a2[i2]! false))), []) :=
  processBlockSpec_ctxOf H 10 h ro r1 r2 io i1 i2 ao a1 a2 ho h1 h2 hio hi1 hi2 so s1 s2

/-- The same for `processBlockXOR` (`xor = true`: the result is XORed into `*out`). -/
theorem processBlockXOR_ir_eq_model (H : Nat → Bytes → Bytes) (h : Heap) (ro r1 r2 : Ref) (io i1 i2 : Nat)
    (ao a1 a2 : Array Block)
    (ho : h.get ro = some (.blocks ao)) (h1 : h.get r1 = some (.blocks a1)) (h2 : h.get r2 = some (.blocks a2))
    (hio : io < ao.size) (hi1 : i1 < a1.size) (hi2 : i2 < a2.size)
    (so : ao[io]!.size = 128) (s1 : a1[i1]!.size = 128) (s2 : a2[i2]!.size = 128) :
    interp H program "processBlockXOR" h [.pblk ro io, .pblk r1 i1, .pblk r2 i2] =
      .ok (h.set ro (.blocks (ao.set! io (Argon2.processBlock ao[io]! a1[i1]! a2[i2]! true))), []) :=
  processBlockXORSpec_ctxOf H 10 h ro r1 r2 io i1 i2 ao a1 a2 ho h1 h2 hio hi1 hi2 so s1 s2

/-- The lifted `processSegment` closure as regenerated (captured variables `B, time, memory, threads, mode, version,
lanes, segments`, then `n, slice, lane, wg`; with the regenerated `indexAlpha`, `phi`, `processBlock`,
`processBlockXOR` underneath) stores the model's `processSegment` into the memory object and calls `wg.Done()` —
nothing else changes.  Hypotheses = the situation inside `Key`: the geometry `Geom lanes segments threads`
(`lanes = 4·segments`, `segments ≥ 2`, `threads·lanes < 2^32`), a memory of `threads·lanes` blocks of 128 words,
`slice < 4`, `lane < threads`, a WaitGroup counter `k ≥ 1`.  PANICS: under these hypotheses every `B[…]` of the
program is in range (the proof uses `C09.argon2_accesses_in_memory` for `offset`, `prev`, `newOffset`), so the
program does not panic; the model's `[i]!`/`setB` never leave the array there either.  Outside them nothing is claimed. -/
theorem processSegment_ir_eq_model (H : Nat → Bytes → Bytes) (h : Heap) (rB rW : Ref) (B : Array Block) (k : Int)
    (time memory threads mode version lanes segments n slice lane : Nat)
    (hgB : h.get rB = some (.blocks B)) (hgW : h.get rW = some (.wg k)) (hk : 1 ≤ k)
    (geo : Geom lanes segments threads) (hB : B.size = threads * lanes) (h128 : Blocks128 B)
    (hslice : slice < 4) (hlane : lane < threads) :
    interp H program "processSegment" h
        [.blks rB, .u32 time, .u32 memory, .u32 threads, .int mode, .int version, .u32 lanes, .u32 segments,
         .u32 n, .u32 slice, .u32 lane, .pwg rW] =
      .ok ((h.set rB (.blocks (Argon2.processSegment B time memory threads mode version lanes segments n slice lane))).set
              rW (.wg (k - 1)), []) :=
  processSegmentSpec_ctxOf H 8 h rB rW B k time memory threads mode version lanes segments n slice lane hgB hgW hk geo hB h128
    hslice hlane

/-! ## Step 3: `processBlocks` -/

/-- `processBlocks(B, time, memory, threads, mode, version)` as regenerated — the loops over passes and slices and,
inside, the node "`for lane … { wg.Add(1); go processSegment(n, slice, lane, &wg) }; wg.Wait()`: run these calls as
tasks, then join" — stores the model's `processBlocks` into the memory object and changes nothing else, on the
rounded memory (`memory = threads·lanes`, `Geom`), for every `time < 2^32`.  The tasks node has the SEQUENTIAL
meaning `lane = 0, 1, …` (as the model); that every interleaving of the goroutines yields the same memory is proved
about the model in `Props/C09.lean` / `Props/C09Link.lean` (`key_eq_any_complete_schedule`), not here. -/
theorem processBlocks_ir_eq_model (H : Nat → Bytes → Bytes) (h : Heap) (rB : Ref) (B : Array Block)
    (time memory threads mode version : Nat)
    (hgB : h.get rB = some (.blocks B)) (geo : Geom (memory / threads) (memory / threads / 4) threads)
    (hmem : memory = threads * (memory / threads)) (htime : time < 4294967296) (hsz : B.size = memory) (h128 : Blocks128 B) :
    interp H program "processBlocks" h [.blks rB, .u32 time, .u32 memory, .u32 threads, .int mode, .int version] =
      .ok (h.set rB (.blocks (Argon2.processBlocks B time memory threads mode version)), []) :=
  processBlocksSpec_ctxOf H 7 h rB B time memory threads mode version hgB geo hmem htime hsz h128

/-! ## Step 4: the byte-level procedures

BLAKE2b is an opaque primitive: the interpreter is parameterised by `H size msg`, and the theorems hold for every
`H` with `B2Spec H` (`H size msg = Prim.blake2b size msg`, the model's BLAKE2b); `b2Spec_model` is the witness. -/

/-- The model's BLAKE2b satisfies the spec the theorems ask of the primitive. -/
theorem b2Spec_model : B2Spec Prim.blake2b := ⟨fun _ _ => rfl⟩

/-- `blake2bHash(out, in)` as regenerated (`blake2b.New`/`New512`, `Write`, `Sum`, `Reset`, `copy`, the re-slicing
loop `out = out[32:]`, the final `blake2b.New(outLen - 32*r)`) fills the window `out` with the model's
`blake2bHash (len out) in` and changes nothing else, for `1 ≤ len out < 2^32` (`len out = 0`: `blake2b.New(0)` fails,
the nil hash is used and Go panics — see the `#guard` below) and every `in` (which may overlap `out`). -/
theorem blake2bHash_ir_eq_model (H : Nat → Bytes → Bytes) (hH : B2Spec H) (h : Heap) (ro : Ref) (off len cap : Nat)
    (inV : Val) (buf inp : Bytes)
    (hg : h.get ro = some (.bytes buf)) (hfit : off + cap ≤ buf.length) (hlen : len ≤ cap) (h1 : 1 ≤ len)
    (h32 : len < 4294967296) (hin : viewBytes h inV = .ok inp) :
    interp H program "blake2bHash" h [.bytes ro off len cap, inV] =
      .ok (h.set ro (.bytes (buf.take off ++ Argon2.blake2bHash len inp ++ buf.drop (off + len))), []) :=
  blake2bHashSpec_ctxOf H hH 12 h ro off len cap inV buf inp hg hfit hlen h1 h32 hin

/-- `initHash(password, salt, nil, nil, time, memory, threads, keyLen, mode, version)` as regenerated returns the
72-byte array of the model's `initHash` and leaves the heap alone, for all arguments. -/
theorem initHash_ir_eq_model (H : Nat → Bytes → Bytes) (hH : B2Spec H) (h : Heap) (pwV saltV : Val) (pw salt : Bytes)
    (time memory threads keyLen mode version : Nat)
    (hpw : viewBytes h pwV = .ok pw) (hsalt : viewBytes h saltV = .ok salt) :
    interp H program "initHash" h
        [pwV, saltV, .nilBytes, .nilBytes, .u32 time, .u32 memory, .u32 threads, .u32 keyLen, .int mode, .int version] =
      .ok (h, [.arr (Argon2.initHash pw salt time memory threads keyLen mode version)]) :=
  initHashSpec_ctxOf H hH 12 h pwV saltV pw salt time memory threads keyLen mode version hpw hsalt

/-- `initBlocks(&h0, memory, threads)` as regenerated (two `PutUint32` into `h0`, two `blake2bHash` calls and two
`binary.LittleEndian.Uint64` loops per lane) allocates the memory — a NEW `mem` object — holding the model's
`initBlocks h0 memory threads`, on the rounded memory; the last 8 bytes of `h0` are scratch (`h0'`). -/
theorem initBlocks_ir_eq_model (H : Nat → Bytes → Bytes) (hH : B2Spec H) (h : Heap) (r0 : Ref) (h0 : Bytes)
    (memory threads : Nat) (hg : h.get r0 = some (.bytes h0)) (hlen : h0.length = 72)
    (geo : Geom (memory / threads) (memory / threads / 4) threads) (hmem : memory = threads * (memory / threads)) :
    ∃ h0' : Bytes,
      interp H program "initBlocks" h [.parr r0, .u32 memory, .u32 threads] =
        .ok ((h.set r0 (.bytes h0')).alloc (.blocks (Argon2.initBlocks h0 memory threads)), [.blks (.mem h.mem.length)]) :=
  initBlocksSpec_ctxOf H 12 (blake2bHashSpec_ctxOf H hH 11) h r0 h0 memory threads hg hlen geo hmem

/-- `extractKey(B, memory, threads, keyLen)` as regenerated (the XOR of the last blocks of all lanes, accumulated IN
PLACE in `B[memory-1]`, `PutUint64` of the 128 words, `make`, `blake2bHash`) returns a fresh `[]byte` — a NEW `mem`
object — holding the model's `extractKey B memory threads keyLen`; the memory is left in some state `B'`. -/
theorem extractKey_ir_eq_model (H : Nat → Bytes → Bytes) (hH : B2Spec H) (h : Heap) (rB : Ref) (B : Array Block)
    (memory threads keyLen : Nat) (hg : h.get rB = some (.blocks B)) (hsz : B.size = memory) (h128 : Blocks128 B)
    (geo : Geom (memory / threads) (memory / threads / 4) threads) (hmem : memory = threads * (memory / threads))
    (hk1 : 1 ≤ keyLen) (hk : keyLen < 4294967296) :
    ∃ B' : Array Block,
      interp H program "extractKey" h [.blks rB, .u32 memory, .u32 threads, .u32 keyLen] =
        .ok ((h.set rB (.blocks B')).alloc (.bytes (Argon2.extractKey B memory threads keyLen)),
             [.bytes (.mem h.mem.length) 0 keyLen keyLen]) :=
  extractKeySpec_ctxOf H 12 (blake2bHashSpec_ctxOf H hH 11) h rB B memory threads keyLen hg hsz h128 geo hmem hk1 hk

/-- **`Key`**.  The regenerated `Key(mode, version, password, salt, time, memory, threads, keyLen)` — with EVERY
function below it regenerated (initHash, the memory rounding, initBlocks, processBlocks with the tasks/join node and
the lifted `processSegment`, indexAlpha, phi, processBlock/processBlockXOR/processBlockGeneric/blamkaGeneric,
extractKey, blake2bHash) and BLAKE2b the only primitive — returns a slice that shows exactly the model's
`key mode version password salt time memory threads keyLen`; the local region and every object that existed before
the call are unchanged.  Domain = the model's: `1 ≤ threads ≤ 255` (`uint8`; `0` divides by zero),
`1 ≤ keyLen < 2^32` (`0`: nil hash, Go panics), `time, memory < 2^32` (`uint32`), `mode, version ≥ 0`.
The goroutines are run sequentially (`tasks` node); see `processBlocks_ir_eq_model`. -/
theorem key_ir_eq_model (H : Nat → Bytes → Bytes) (hH : B2Spec H) (h : Heap) (pwV saltV : Val) (pw salt : Bytes)
    (mode version time memory threads keyLen : Nat)
    (hpw : viewBytes h pwV = .ok pw) (hsalt : viewBytes h saltV = .ok salt)
    (ht1 : 1 ≤ threads) (ht : threads ≤ 255) (hk1 : 1 ≤ keyLen) (hk : keyLen < 4294967296)
    (htime : time < 4294967296) (hmem : memory < 4294967296) :
    ∃ h' : Heap,
      interp H program "Key" h [.int mode, .int version, pwV, saltV, .u32 time, .u32 memory, .u8 threads, .u32 keyLen]
        = .ok (h', [.bytes (.mem (h.mem.length + 1)) 0 keyLen keyLen]) ∧
      h'.get (.mem (h.mem.length + 1)) = some (.bytes (Argon2.key mode version pw salt time memory threads keyLen)) ∧
      h'.stk = h.stk ∧ (∀ i, i < h.mem.length → h'.mem[i]? = h.mem[i]?) :=
  key_interp H 12 (initHashSpec_ctxOf H hH 11) (initBlocksSpec_ctxOf H 11 (blake2bHashSpec_ctxOf H hH 10))
    (processBlocksSpec_ctxOf H 6) (extractKeySpec_ctxOf H 11 (blake2bHashSpec_ctxOf H hH 10))
    h pwV saltV pw salt mode version time memory threads keyLen hpw hsalt ht1 ht hk1 hk htime hmem

/-- With the model's BLAKE2b as the primitive and `C04.key_eq_rfc` (model = RFC 9106 reference): for
`8·threads ≤ memory` the bytes the regenerated `Key` returns are the RFC's `argon2`. -/
theorem key_ir_eq_rfc (h : Heap) (pwV saltV : Val) (pw salt : Bytes) (mode version time memory threads keyLen : Nat)
    (hpw : viewBytes h pwV = .ok pw) (hsalt : viewBytes h saltV = .ok salt)
    (ht1 : 1 ≤ threads) (ht : threads ≤ 255) (hk1 : 1 ≤ keyLen) (hk : keyLen < 4294967296)
    (htime : time < 4294967296) (hm8 : 8 * threads ≤ memory) (hmem : memory < 4294967296) :
    ∃ h' : Heap,
      interp Prim.blake2b program "Key" h
          [.int mode, .int version, pwV, saltV, .u32 time, .u32 memory, .u8 threads, .u32 keyLen]
        = .ok (h', [.bytes (.mem (h.mem.length + 1)) 0 keyLen keyLen]) ∧
      h'.get (.mem (h.mem.length + 1)) =
        some (.bytes (Spec.Argon2Rfc.argon2 mode version pw salt threads keyLen memory time)) := by
  obtain ⟨h', e, g, _, _⟩ := key_ir_eq_model Prim.blake2b b2Spec_model h pwV saltV pw salt mode version time memory threads
    keyLen hpw hsalt ht1 ht hk1 hk htime hmem
  refine ⟨h', e, ?_⟩
  rw [g, C04.key_eq_rfc mode version pw salt threads keyLen memory time ht1 ht hm8 (by omega)]

/-! ## non-vacuity: the regenerated programs run -/

/-- an empty heap -/
def h0 : Heap := ⟨[], []⟩

def retOf : Res (Heap × List Val) → Option (List Val)
  | .ok (_, vs) => some vs
  | _ => none

-- the values of C09's non-vacuity examples, computed by the regenerated program
#guard retOf (interp (fun _ _ => []) program "indexAlpha" h0
  [.u64 0x12345678, .u32 16, .u32 4, .u32 2, .u32 0, .u32 0, .u32 1, .u32 2]) = some [.u32 16]
#guard retOf (interp (fun _ _ => []) program "indexAlpha" h0
  [.u64 0xFFFFFFFF00000000, .u32 16, .u32 4, .u32 2, .u32 1, .u32 2, .u32 0, .u32 3]) =
  some [.u32 (Gen.argon2crypto.indexAlpha 0xFFFFFFFF00000000 16 4 2 1 2 0 3)]
-- `lanes = 0`: Go panics (integer divide by zero), and so does the program
#guard (match interp (fun _ _ => []) program "phi" h0 [.u64 1, .u64 2, .u64 3, .u32 0, .u32 0] with
  | .panic => true | _ => false)

/-- run the regenerated `Key` with the model's BLAKE2b on a heap holding `password` and `salt` -/
def runKey (mode version : Nat) (pw salt : Bytes) (time memory threads keyLen : Nat) : Res (Heap × List Val) :=
  interp Prim.blake2b program "Key" ⟨[.bytes pw, .bytes salt], []⟩
    [.int mode, .int version, .bytes (.mem 0) 0 pw.length pw.length, .bytes (.mem 1) 0 salt.length salt.length,
     .u32 time, .u32 memory, .u8 threads, .u32 keyLen]

/-- the bytes of the returned slice -/
def keyOf : Res (Heap × List Val) → Option Bytes
  | .ok (h, [v]) => match viewBytes h v with | .ok b => some b | _ => none
  | _ => none

-- the whole regenerated pipeline (Key → initHash, initBlocks, processBlocks → tasks → processSegment → indexAlpha/phi,
-- processBlock(XOR) → processBlockGeneric → blamkaGeneric, extractKey, blake2bHash) computes the model's `key`:
-- argon2id, version 0x13, memory 8, time 1, threads 1, keyLen 32
#guard keyOf (runKey 2 0x13 [1,2,3] [1,2,3,4,5,6,7,8] 1 8 1 32) = some (Argon2.key 2 0x13 [1,2,3] [1,2,3,4,5,6,7,8] 1 8 1 32)
-- argon2d, version 0x10, memory 20 (rounded to 16), time 2, threads 2, keyLen 70 (> 64: the long branch of blake2bHash)
#guard keyOf (runKey 0 0x10 [1,2,3] [1,2,3,4,5,6,7,8] 2 20 2 70) = some (Argon2.key 0 0x10 [1,2,3] [1,2,3,4,5,6,7,8] 2 20 2 70)
-- argon2i, version 0x13, memory 1 (rounded up to 8), empty password
#guard keyOf (runKey 1 0x13 [] [9,9,9,9,9,9,9,9] 1 1 1 16) = some (Argon2.key 1 0x13 [] [9,9,9,9,9,9,9,9] 1 1 1 16)
-- keyLen = 0: `blake2b.New(0)` fails, the nil hash is used: Go panics, and so does the program
#guard (match runKey 1 0x13 [] [] 1 8 1 0 with | .panic => true | _ => false)
-- threads = 0: integer divide by zero in `Key`
#guard (match runKey 1 0x13 [] [] 1 8 0 32 with | .panic => true | _ => false)

-- the hypotheses of `key_ir_eq_model` are satisfiable: the theorem instantiated on a concrete heap
example : ∃ h' : Heap,
    interp Prim.blake2b program "Key" ⟨[.bytes [1,2,3], .bytes [1,2,3,4,5,6,7,8]], []⟩
        [.int (2 : Nat), .int (0x13 : Nat), .bytes (.mem 0) 0 3 3, .bytes (.mem 1) 0 8 8, .u32 1, .u32 8, .u8 1, .u32 32]
      = .ok (h', [.bytes (.mem 3) 0 32 32]) ∧
    h'.get (.mem 3) = some (.bytes (Argon2.key 2 0x13 [1,2,3] [1,2,3,4,5,6,7,8] 1 8 1 32)) := by
  obtain ⟨h', e, g, _, _⟩ := key_ir_eq_model Prim.blake2b b2Spec_model ⟨[.bytes [1,2,3], .bytes [1,2,3,4,5,6,7,8]], []⟩
    (.bytes (.mem 0) 0 3 3) (.bytes (.mem 1) 0 8 8) [1,2,3] [1,2,3,4,5,6,7,8] 2 0x13 1 8 1 32 rfl rfl
    (by decide) (by decide) (by decide) (by decide) (by decide) (by decide)
  exact ⟨h', e, g⟩

#print axioms phi_ir_eq_kernel
#print axioms indexAlpha_ir_eq_kernel
#print axioms processBlock_ir_eq_model
#print axioms processBlockXOR_ir_eq_model
#print axioms processSegment_ir_eq_model
#print axioms processBlocks_ir_eq_model
#print axioms blake2bHash_ir_eq_model
#print axioms initHash_ir_eq_model
#print axioms initBlocks_ir_eq_model
#print axioms extractKey_ir_eq_model
#print axioms key_ir_eq_model
#print axioms key_ir_eq_rfc

end GoCrypt.Argon2IR
