import GoCrypt.Spec.CryptSpecs
import GoCrypt.Proofs.Kdf
import GoCrypt.Gen.Tables

/-!
# The hash-based KDF skeletons: no panic, loops = closed forms, model = published description, absorption

Property theorems only; helper lemmas are in `Proofs/Kdf.lean`. The models are those of
`Model/Kdf/Hashed.lean` (md5-crypt, SHA-crypt, Sun MD5, SHA1-crypt), parametric in the hash function.

* (A) totality: with a hash of the right output size and an in-range transposition table, `Encrypt`
  never hits a panicking slice/index — for **every** password length (the repaired `duplicate` loop);
* (B) every length-dependent loop equals a closed form (`cycleTake`, `binDigitsLSB`);
* (C) the models equal the reference functions written from PHK's / Drepper's descriptions;
* (D) absorption (C02): two passwords with the same key are equal, or a hash collision is exhibited.
-/

namespace GoCrypt.KdfProps
open GoCrypt.Kdf GoCrypt.CryptSpec

/-! ## Spec vocabulary -/

/-- Defining equations of `binDigitsLSB` (the definition itself carries a step bound so that
`decide` can evaluate it). -/
theorem binDigitsLSB_eq (n : Nat) :
    binDigitsLSB n = if n = 0 then [] else decide (n % 2 = 1) :: binDigitsLSB (n / 2) := by
  by_cases h : n = 0
  · subst h; rfl
  · rw [if_neg h]; exact binDigitsLSB_pos h

theorem cycleTake_length (b : Bytes) (n : Nat) : (cycleTake b n).length = n := Kdf.cycleTake_length b n

/-- `cycleTake` is "take" within the first copy … -/
theorem cycleTake_of_le (b : Bytes) (n : Nat) (h : n ≤ b.length) : cycleTake b n = b.take n :=
  Kdf.cycleTake_of_le h

/-- … and one whole copy followed by the rest beyond it. -/
theorem cycleTake_add_length (b : Bytes) (n : Nat) : cycleTake b (b.length + n) = b ++ cycleTake b n :=
  Kdf.cycleTake_add_length b n

/-! ## (B) Loops = closed forms -/

/-- `duplicate(h, b, n)` is "the first `n` bytes of `b` repeated" whenever the fuel covers the
`n / size` whole copies (`n < (fuel + 1) * size`, i.e. `n / size ≤ fuel`). -/
theorem duplicate_spec (size : Nat) (b : Bytes) (fuel n : Nat) (hs : 0 < size) (hb : b.length = size)
    (hf : n < (fuel + 1) * size) : duplicate size b fuel n = some (cycleTake b n) :=
  duplicate_spec_fuel size b hs hb fuel n hf

/-- The fuel the callers pass (`n + 1`) always suffices: `duplicate` never slices out of range,
whatever the length `n` (the defect was `n ≥ 32` resp. `64`). -/
theorem duplicate_spec_caller (size : Nat) (b : Bytes) (n : Nat) (hs : 0 < size) (hb : b.length = size) :
    duplicate size b (n + 1) n = some (cycleTake b n) :=
  duplicate_spec_fuel size b hs hb (n + 1) n (dup_fuel_ok n size hs)

/-- SHA-crypt step 10 ("add the first `len(pw)` bytes of digest B, repeated"): the loop tests `>`
where `duplicate` tests `≥`; both are `cycleTake`. -/
theorem shaFill_spec (size : Nat) (db : Bytes) (n : Nat) (hs : 0 < size) (hb : db.length = size) :
    shaFill size db (n + 1) n = some (cycleTake db n) :=
  shaFill_spec_fuel size db hs hb (n + 1) n (Nat.le_of_lt (dup_fuel_ok n size hs))

theorem md5Fill_spec (d : Bytes) (n : Nat) (hd : d.length = 16) : md5Fill d (n + 1) n = some (cycleTake d n) :=
  md5Fill_spec_fuel d hd (n + 1) n (Nat.lt_add_one n)

/-- `for i := n; i > 0; i >>= 1` visits the binary digits of `n`, least significant first. -/
theorem shaBits_spec (db pw : Bytes) (n : Nat) :
    shaBits db pw (n + 1) n = (binDigitsLSB n).flatMap fun bit => if bit then db else pw :=
  shaBits_spec_fuel db pw (n + 1) n (Nat.lt_add_one n)

/-- md5-crypt's bit loop, run on the password's own length: `password[:1]` cannot panic, because the
loop body only runs when the password is non-empty. -/
theorem md5Bits_spec (pw : Bytes) :
    md5Bits pw (pw.length + 1) pw.length =
      some ((binDigitsLSB pw.length).flatMap fun bit => if bit then [0] else pw.take 1) :=
  md5Bits_spec_fuel pw (pw.length + 1) pw.length (Nat.lt_add_one _) (by intro h e; subst e; exact h rfl)

/-! ## (A) Totality -/

theorem md5crypt_total (H : Bytes → Bytes) (permFinal : List Nat) (pw salt pfx : Bytes)
    (hlen : ∀ x, (H x).length = 16) (hperm : ∀ j ∈ permFinal, j < 16) :
    ∃ k, md5cryptEncrypt H permFinal pw salt pfx = some k ∧ k.length = permFinal.length :=
  md5crypt_total' H permFinal pw salt pfx hlen hperm

theorem sha2crypt_total (H : Bytes → Bytes) (size : Nat) (permFinal : List Nat) (pw salt : Bytes) (rounds : Nat)
    (hs : 0 < size) (hlen : ∀ x, (H x).length = size) (hperm : ∀ j ∈ permFinal, j < size) :
    ∃ k, sha2cryptEncrypt H size permFinal pw salt rounds = some k ∧ k.length = permFinal.length :=
  sha2crypt_total' H size permFinal pw salt rounds hs hlen hperm

theorem sunmd5_total (H : Bytes → Bytes) (phrase : Bytes) (permFinal : List Nat) (pw saltString : Bytes) (rounds : Nat)
    (hlen : ∀ x, (H x).length = 16) (hperm : ∀ j ∈ permFinal, j < 16) :
    ∃ k, sunmd5Derive H phrase permFinal pw saltString rounds = some k ∧ k.length = permFinal.length :=
  sunmd5_total' H phrase permFinal pw saltString rounds hlen hperm

theorem sha1_total (HM : Bytes → Bytes → Bytes) (permFinal : List Nat) (pfx pw salt : Bytes) (rounds : Nat)
    (hlen : ∀ k m, (HM k m).length = 20) (hperm : ∀ j ∈ permFinal, j < 20) :
    ∃ k, sha1Derive HM permFinal pfx pw salt rounds = some k ∧ k.length = permFinal.length :=
  sha1_total' HM permFinal pfx pw salt rounds hlen hperm

/-! ### The generated transposition tables meet the side conditions -/

theorem md5_perm_lt : ∀ j ∈ Gen.md5_md5crypt.permFinal.toList, j < 16 := by decide
theorem sha256_perm_lt : ∀ j ∈ Gen.sha256.permFinal.toList, j < 32 := by decide
theorem sha512_perm_lt : ∀ j ∈ Gen.sha512.permFinal.toList, j < 64 := by decide
theorem sunmd5_perm_lt : ∀ j ∈ Gen.sunmd5.permFinal.toList, j < 16 := by decide
theorem sha1_perm_lt : ∀ j ∈ Gen.sha1.permFinal.toList, j < 20 := by decide

/-- Four of the tables are permutations of all digest positions … -/
theorem md5_perm_permutation :
    Gen.md5_md5crypt.permFinal.toList.Nodup ∧ Gen.md5_md5crypt.permFinal.toList.length = 16 := by decide
theorem sha256_perm_permutation :
    Gen.sha256.permFinal.toList.Nodup ∧ Gen.sha256.permFinal.toList.length = 32 := by decide
theorem sha512_perm_permutation :
    Gen.sha512.permFinal.toList.Nodup ∧ Gen.sha512.permFinal.toList.length = 64 := by decide
theorem sunmd5_perm_permutation :
    Gen.sunmd5.permFinal.toList.Nodup ∧ Gen.sunmd5.permFinal.toList.length = 16 := by decide

/-- … the SHA1-crypt table is not: 21 entries over 20 bytes, byte 0 is emitted twice (positions 2
and 18, the "wrap-around" of the last 3-byte group), every byte is emitted at least once. -/
theorem sha1_perm_facts :
    Gen.sha1.permFinal.toList.length = 21 ∧ ¬ Gen.sha1.permFinal.toList.Nodup ∧
    Gen.sha1.permFinal.toList.count 0 = 2 ∧ Gen.sha1.permFinal.toList.eraseDups.length = 20 ∧
    ∀ i, i < 20 → i ∈ Gen.sha1.permFinal.toList := by decide

/-- A duplicate-free table of `n` indices below `n` mentions every index (pigeonhole). -/
theorem permutation_full (n : Nat) (t : List Nat) (hn : t.Nodup) (hlen : t.length = n) (hlt : ∀ j ∈ t, j < n) :
    ∀ i, i < n → i ∈ t := nodup_full n t hn hlen hlt

/-- The schemes as instantiated (any 16/32/64/20-byte hash): a key of the table's length, always. -/
theorem md5crypt_total_gen (H : Bytes → Bytes) (hlen : ∀ x, (H x).length = 16) (pw salt pfx : Bytes) :
    ∃ k, md5cryptEncrypt H Gen.md5_md5crypt.permFinal.toList pw salt pfx = some k ∧ k.length = 16 :=
  md5crypt_total H _ pw salt pfx hlen md5_perm_lt

theorem sha256crypt_total_gen (H : Bytes → Bytes) (hlen : ∀ x, (H x).length = 32) (pw salt : Bytes) (rounds : Nat) :
    ∃ k, sha2cryptEncrypt H 32 Gen.sha256.permFinal.toList pw salt rounds = some k ∧ k.length = 32 :=
  sha2crypt_total H 32 _ pw salt rounds (by decide) hlen sha256_perm_lt

theorem sha512crypt_total_gen (H : Bytes → Bytes) (hlen : ∀ x, (H x).length = 64) (pw salt : Bytes) (rounds : Nat) :
    ∃ k, sha2cryptEncrypt H 64 Gen.sha512.permFinal.toList pw salt rounds = some k ∧ k.length = 64 :=
  sha2crypt_total H 64 _ pw salt rounds (by decide) hlen sha512_perm_lt

theorem sunmd5_total_gen (H : Bytes → Bytes) (hlen : ∀ x, (H x).length = 16) (pw ss : Bytes) (rounds : Nat) :
    ∃ k, sunmd5Derive H Gen.sunmd5.phrase Gen.sunmd5.permFinal.toList pw ss rounds = some k ∧ k.length = 16 :=
  sunmd5_total H _ _ pw ss rounds hlen sunmd5_perm_lt

theorem sha1_total_gen (HM : Bytes → Bytes → Bytes) (hlen : ∀ k m, (HM k m).length = 20) (pw salt : Bytes) (rounds : Nat) :
    ∃ k, sha1Derive HM Gen.sha1.permFinal.toList Gen.sha1.prefixBytes pw salt rounds = some k ∧ k.length = 21 :=
  sha1_total HM _ _ pw salt rounds hlen sha1_perm_lt

/-! ## (C) Model = published description -/

/-- md5-crypt: the model is the final transposition of PHK's digest, for every input. -/
theorem md5crypt_eq_spec (H : Bytes → Bytes) (perm : List Nat) (pw salt pfx : Bytes) (hlen : ∀ x, (H x).length = 16) :
    md5cryptEncrypt H perm pw salt pfx = permute (md5cryptSpec H pw salt pfx) perm :=
  md5crypt_eq_spec' H hlen perm pw salt pfx

/-- SHA-crypt: the model is the final transposition of Drepper's step-21 digest, for every input. -/
theorem sha2crypt_eq_spec (H : Bytes → Bytes) (size : Nat) (perm : List Nat) (pw salt : Bytes) (rounds : Nat)
    (hs : 0 < size) (hlen : ∀ x, (H x).length = size) :
    sha2cryptEncrypt H size perm pw salt rounds = permute (shacryptSpec H size pw salt rounds) perm :=
  sha2crypt_eq_spec' H size hs hlen perm pw salt rounds

/-! ## (D) Absorption -/

/-- Transposition by a table mentioning every index is injective on blocks of that size. -/
theorem permute_injective (n : Nat) (t : List Nat) (hfull : ∀ i, i < n → i ∈ t) (hlt : ∀ j ∈ t, j < n)
    (b b' : Bytes) (hb : b.length = n) (hb' : b'.length = n) (h : permute b t = permute b' t) : b = b' :=
  permute_eq_imp n t hfull hlt b b' hb hb' h

/-- md5-crypt, located form: equal keys come from equal passwords, or two corresponding round
inputs (one of the 1000) differ and hash to the same digest. -/
theorem md5crypt_absorbs_located (H : Bytes → Bytes) (permFinal : List Nat) (pw pw' salt pfx : Bytes)
    (hlen : ∀ x, (H x).length = 16)
    (hnd : permFinal.Nodup) (hpl : permFinal.length = 16) (hlt : ∀ j ∈ permFinal, j < 16)
    (h : md5cryptEncrypt H permFinal pw salt pfx = md5cryptEncrypt H permFinal pw' salt pfx) :
    pw = pw' ∨ RoundCollision H pw salt (md5Intermediate H pw salt pfx) pw' salt (md5Intermediate H pw' salt pfx) 1000 :=
  md5crypt_absorbs_located' H hlen permFinal (nodup_full 16 _ hnd hpl hlt) hlt pw pw' salt pfx h

/-- md5-crypt absorbs its password: a wrong password verifies only through a hash collision. -/
theorem md5crypt_absorbs (H : Bytes → Bytes) (permFinal : List Nat) (pw pw' salt pfx : Bytes)
    (hlen : ∀ x, (H x).length = 16)
    (hnd : permFinal.Nodup) (hpl : permFinal.length = 16) (hlt : ∀ j ∈ permFinal, j < 16)
    (h : md5cryptEncrypt H permFinal pw salt pfx = md5cryptEncrypt H permFinal pw' salt pfx) :
    pw = pw' ∨ Collision H :=
  (md5crypt_absorbs_located H permFinal pw pw' salt pfx hlen hnd hpl hlt h).imp id RoundCollision.collision

/-- SHA-crypt, located form (`rounds ≥ 1`; the Go guards enforce `rounds ≥ 1000`): equal keys come
from equal passwords, or a collision between corresponding round inputs, or between the two
messages hashed into digest A. -/
theorem sha2crypt_absorbs_located (H : Bytes → Bytes) (size : Nat) (permFinal : List Nat) (pw pw' salt : Bytes)
    (rounds : Nat) (hs : 0 < size) (hr : 0 < rounds) (hlen : ∀ x, (H x).length = size)
    (hnd : permFinal.Nodup) (hpl : permFinal.length = size) (hlt : ∀ j ∈ permFinal, j < size)
    (h : sha2cryptEncrypt H size permFinal pw salt rounds = sha2cryptEncrypt H size permFinal pw' salt rounds) :
    pw = pw' ∨
    RoundCollision H (shaP H pw) (shaS H pw salt) (shaA H pw salt) (shaP H pw') (shaS H pw' salt) (shaA H pw' salt) rounds ∨
    (shaAInput H pw salt ≠ shaAInput H pw' salt ∧ H (shaAInput H pw salt) = H (shaAInput H pw' salt)) :=
  sha2crypt_absorbs_located' H size hs hlen permFinal (nodup_full size _ hnd hpl hlt) hlt pw pw' salt rounds hr h

/-- SHA-crypt absorbs its password (for `rounds ≥ 1`).

For `rounds = 0` the key is the transposed digest A and the chain argument has nothing to walk: the
lengths of the two A-messages do not determine `len(pw)` (the bit step makes the message length
non-monotone in `len(pw)`), so no explicit collision is found this way. The Go guards reject
`rounds < 1000`, so the case does not arise. -/
theorem sha2crypt_absorbs (H : Bytes → Bytes) (size : Nat) (permFinal : List Nat) (pw pw' salt : Bytes)
    (rounds : Nat) (hs : 0 < size) (hr : 0 < rounds) (hlen : ∀ x, (H x).length = size)
    (hnd : permFinal.Nodup) (hpl : permFinal.length = size) (hlt : ∀ j ∈ permFinal, j < size)
    (h : sha2cryptEncrypt H size permFinal pw salt rounds = sha2cryptEncrypt H size permFinal pw' salt rounds) :
    pw = pw' ∨ Collision H := by
  rcases sha2crypt_absorbs_located H size permFinal pw pw' salt rounds hs hr hlen hnd hpl hlt h with h | h | h
  · exact Or.inl h
  · exact Or.inr (RoundCollision.collision h)
  · exact Or.inr ⟨_, _, h.1, h.2⟩

/-- Sun MD5 absorbs its password, for equal salt string and round count (also when the 32-bit round
counter wraps to 0 rounds). -/
theorem sunmd5_absorbs (H : Bytes → Bytes) (phrase : Bytes) (permFinal : List Nat) (pw pw' saltString : Bytes)
    (rounds : Nat) (hlen : ∀ x, (H x).length = 16)
    (hnd : permFinal.Nodup) (hpl : permFinal.length = 16) (hlt : ∀ j ∈ permFinal, j < 16)
    (h : sunmd5Derive H phrase permFinal pw saltString rounds = sunmd5Derive H phrase permFinal pw' saltString rounds) :
    pw = pw' ∨ Collision H :=
  sunmd5_absorbs' H hlen phrase permFinal (nodup_full 16 _ hnd hpl hlt) hlt pw pw' saltString rounds h

/-- SHA1-crypt, what holds for every keyed function: equal keys give two equal tags under the two
passwords, i.e. equal passwords or a keyed collision. (The table need not be a permutation, only
mention every byte: `sha1_perm_facts`.) -/
theorem sha1_absorbs_keyed (HM : Bytes → Bytes → Bytes) (permFinal : List Nat) (pfx pw pw' salt : Bytes) (rounds : Nat)
    (hlen : ∀ k m, (HM k m).length = 20)
    (hfull : ∀ i, i < 20 → i ∈ permFinal) (hlt : ∀ j ∈ permFinal, j < 20)
    (h : sha1Derive HM permFinal pfx pw salt rounds = sha1Derive HM permFinal pfx pw' salt rounds) :
    pw = pw' ∨ KeyedCollision HM := by
  obtain ⟨m, m', hm⟩ := sha1_tags_eq HM hlen permFinal hfull hlt pfx pw pw' salt rounds h
  by_cases hpw : pw = pw'
  · exact Or.inl hpw
  · exact Or.inr ⟨pw, m, pw', m', fun e => hpw (congrArg Prod.fst e), hm⟩

/-- SHA1-crypt absorbs its password **under the hypothesis `KeySeparating HM`** (a tag determines
its key). Partial by necessity: the real HMAC is not key-separating, see `sha1_key_equiv`. -/
theorem sha1_absorbs_partial (HM : Bytes → Bytes → Bytes) (permFinal : List Nat) (pfx pw pw' salt : Bytes) (rounds : Nat)
    (hlen : ∀ k m, (HM k m).length = 20) (hsep : KeySeparating HM)
    (hfull : ∀ i, i < 20 → i ∈ permFinal) (hlt : ∀ j ∈ permFinal, j < 20)
    (h : sha1Derive HM permFinal pfx pw salt rounds = sha1Derive HM permFinal pfx pw' salt rounds) :
    pw = pw' := by
  obtain ⟨m, m', hm⟩ := sha1_tags_eq HM hlen permFinal hfull hlt pfx pw pw' salt rounds h
  exact hsep _ _ _ _ hm

/-- With only fixed-message key injectivity, a single iteration (`rounds ≤ 1`) absorbs: both tags
are over the same message `salt ‖ prefix ‖ rounds`. -/
theorem sha1_absorbs_one_round (HM : Bytes → Bytes → Bytes) (permFinal : List Nat) (pfx pw pw' salt : Bytes) (rounds : Nat)
    (hr : rounds ≤ 1) (hlen : ∀ k m, (HM k m).length = 20) (hinj : KeyInjective HM)
    (hfull : ∀ i, i < 20 → i ∈ permFinal) (hlt : ∀ j ∈ permFinal, j < 20)
    (h : sha1Derive HM permFinal pfx pw salt rounds = sha1Derive HM permFinal pfx pw' salt rounds) :
    pw = pw' := by
  have h0 : rounds - 1 = 0 := by omega
  unfold sha1Derive at h
  rw [h0] at h
  exact hinj _ _ _ (permute_eq_imp 20 permFinal hfull hlt _ _ (hlen _ _) (hlen _ _) h)

/-- The converse obstruction: two keys the keyed function never tells apart give the same
SHA1-crypt key. For the real HMAC-SHA1 `k` and `k ++ [0]` (`len k < 64`) are such keys, so
"`pw = pw'`" cannot be concluded for it without a hypothesis like `KeySeparating`. -/
theorem sha1_key_equiv (HM : Bytes → Bytes → Bytes) (permFinal : List Nat) (pfx k k' salt : Bytes) (rounds : Nat)
    (hk : ∀ m, HM k m = HM k' m) :
    sha1Derive HM permFinal pfx k salt rounds = sha1Derive HM permFinal pfx k' salt rounds :=
  sha1_key_equiv' HM permFinal pfx k k' salt rounds hk

/-! ## Non-vacuity: concrete inputs meeting the hypotheses -/

/-- A toy "hash" of `n` bytes, computed from the input's length and first byte. -/
def toyH (n : Nat) : Bytes → Bytes := fun x => List.replicate n (UInt8.ofNat (x.length + 3 * (x.headD 0).toNat))
def toyHM : Bytes → Bytes → Bytes := fun k m => toyH 20 (k ++ 255 :: m)

example : ∀ x, (toyH 16 x).length = 16 := fun _ => List.length_replicate
example : ∀ k m, (toyHM k m).length = 20 := fun _ _ => List.length_replicate

-- the closed forms
example : cycleTake [1, 2, 3] 8 = [1, 2, 3, 1, 2, 3, 1, 2] := by decide
example : binDigitsLSB 37 = [true, false, true, false, false, true] := by decide
example : duplicate 4 [1, 2, 3, 4] 11 10 = some [1, 2, 3, 4, 1, 2, 3, 4, 1, 2] := by decide
-- not enough fuel for the whole copies: the residual slice is out of range
example : duplicate 4 [1, 2, 3, 4] 0 10 = none := by decide
example : shaFill 4 [1, 2, 3, 4] 9 8 = some [1, 2, 3, 4, 1, 2, 3, 4] := by decide
example : md5Bits [7, 8, 9, 9, 9] 6 5 = some [0, 7, 0] := by decide

-- md5-crypt on "abc" / salt "xy" with the generated table
example : md5cryptEncrypt (toyH 16) Gen.md5_md5crypt.permFinal.toList [97, 98, 99] [120, 121] [36, 49, 36] =
    some (List.replicate 16 57) := by decide
-- a 40-byte password (beyond one 32-byte digest: the length at which `duplicate` used to panic)
example : (sha2cryptEncrypt (toyH 32) 32 Gen.sha256.permFinal.toList (List.replicate 40 7) [1, 2] 5).isSome = true := by
  decide
example : (sha2cryptEncrypt (toyH 64) 64 Gen.sha512.permFinal.toList (List.replicate 70 7) [1, 2] 3).isSome = true := by
  decide
example : shacryptSpec (toyH 4) 4 [1, 2, 3, 4, 5, 6] [9] 3 = [163, 163, 163, 163] := by decide
example : sha2cryptEncrypt (toyH 4) 4 [3, 1, 0, 2] [1, 2, 3, 4, 5, 6] [9] 3 = some [163, 163, 163, 163] := by decide
-- Sun MD5 with a short phrase; the uint32 round counter wraps: 4294963202 + 4096 ≡ 2 rounds
example : sunmd5Derive (toyH 16) [84, 111] Gen.sunmd5.permFinal.toList [97] [36, 109, 100, 53, 36] 4294963202 =
    some (List.replicate 16 181) := by decide
example : (sha1Derive toyHM Gen.sha1.permFinal.toList Gen.sha1.prefixBytes [97] [115] 3).map List.length = some 21 := by
  decide
-- the `Collision` disjunct is needed: the toy hash collides, and a different password verifies
example : md5cryptEncrypt (toyH 16) Gen.md5_md5crypt.permFinal.toList [1, 2, 3] [4] [5] =
    md5cryptEncrypt (toyH 16) Gen.md5_md5crypt.permFinal.toList [1, 3, 2] [4] [5] := by decide
example : Collision (toyH 16) := ⟨[1, 2], [1, 3], by decide, by decide⟩

#print axioms binDigitsLSB_eq
#print axioms cycleTake_length
#print axioms cycleTake_of_le
#print axioms cycleTake_add_length
#print axioms duplicate_spec
#print axioms duplicate_spec_caller
#print axioms shaFill_spec
#print axioms md5Fill_spec
#print axioms shaBits_spec
#print axioms md5Bits_spec
#print axioms md5crypt_total
#print axioms sha2crypt_total
#print axioms sunmd5_total
#print axioms sha1_total
#print axioms md5_perm_lt
#print axioms sha256_perm_lt
#print axioms sha512_perm_lt
#print axioms sunmd5_perm_lt
#print axioms sha1_perm_lt
#print axioms md5_perm_permutation
#print axioms sha256_perm_permutation
#print axioms sha512_perm_permutation
#print axioms sunmd5_perm_permutation
#print axioms sha1_perm_facts
#print axioms permutation_full
#print axioms md5crypt_total_gen
#print axioms sha256crypt_total_gen
#print axioms sha512crypt_total_gen
#print axioms sunmd5_total_gen
#print axioms sha1_total_gen
#print axioms md5crypt_eq_spec
#print axioms sha2crypt_eq_spec
#print axioms permute_injective
#print axioms md5crypt_absorbs_located
#print axioms md5crypt_absorbs
#print axioms sha2crypt_absorbs_located
#print axioms sha2crypt_absorbs
#print axioms sunmd5_absorbs
#print axioms sha1_absorbs_keyed
#print axioms sha1_absorbs_partial
#print axioms sha1_absorbs_one_round
#print axioms sha1_key_equiv

end GoCrypt.KdfProps
