import GoCrypt.Proofs.B64IRCtor

/-!
# The constructors of `hash/base64le` as regenerated programs: `NewEncoding`, `WithPadding`, `Strict`

`gogen` (b64ir.go, "stream" mode) re-translates the bodies of `NewEncoding`, `Encoding.WithPadding` and
`Encoding.Strict` of `hash/base64le/base64le.go` into the stream-IR programs `newEncodingIR`,
`withPaddingIR`, `strictIR` of `Gen/StreamIR.lean` on every run; `Base/StreamIRBase.lean` interprets
such programs over a world of byte buffers (`heap`), struct objects (`objs`) and external readers/writers
(`exts`). The theorems below state what interpreting the regenerated programs gives, for EVERY input in the
stated domain, panics included (the interpreter's third outcome `stuck` never equals either side):

* `NewEncoding(alphabet)` builds exactly the struct the model's `Encoding ⟨alphabet, some '=', false⟩`
  stands for: `encode` = the alphabet, `decodeMap` = the model's 256-entry table `decodeMapOf` (entry by
  entry, `0xFF` for bytes outside the alphabet, a later duplicate wins), `padChar` = `'='`, `strict` =
  false — and it panics exactly on the alphabets the Go code rejects (length ≠ 64, or a `\n`/`\r` inside).
* `enc.WithPadding(p)` / `enc.Strict()` return a NEW object that differs from `enc` only in `padChar` /
  `strict`; the receiver (a Go value receiver, copied on entry) and its arrays are unchanged.

How the model's `Encoding` sits in the world: `EncAt H O a b1 b2 e` (`Proofs/SIRDefs.lean`) says object
number `a` is the Go struct of `e` with its arrays in heap buffers `b1`, `b2`; `encObj b1 b2 e` is that
struct. Result worlds have the shape `⟨H ++ [two fresh buffers], O ++ [one fresh object], X⟩`: everything
that existed before is still there, untouched. Property theorems only; the lemmas are in
`Proofs/B64IRCtor.lean`.

DOMAIN NOTE. `WithPadding` takes a Go `rune` (here an `Int`). The Go code rejects `'\r'`, `'\n'`, runes above
`0xff` and runes found in the alphabet; it ACCEPTS every negative rune, not only `NoPadding = -1` (e.g. `-2`,
which can never equal `rune(enc.encode[i])`). The model's `pad : Option UInt8` can express `-1` and
`0 … 255` only, so other negative runes are outside both `withPadding_ir_eq_model` and
`withPadding_ir_panics`; the program handles them (`#guard` below: `padChar` becomes `-2`).
-/

namespace GoCrypt.SIR
open GoCrypt.B64IR (Buf Heap Slice Res sliceBytes padInt decodeMapBytes encVal)
open GoCrypt.Base64LE GoCrypt.Gen.base64leStream

/-! ## `NewEncoding` -/

/-- `NewEncoding(al)` as regenerated from the Go source — the length check, the newline loop, `new(Encoding)`,
`copy`, the `0xFF` loop and the table loop — for every 64-byte alphabet without `'\n'` (10) and `'\r'` (13),
in every world: it returns a pointer to ONE fresh object, allocates two fresh buffers for its arrays and
touches nothing else. The object is the struct of the model encoding `⟨al, some '=', false⟩`: `encode` holds
the alphabet, `decodeMap` holds exactly the model's 256-entry table (`decodeMapBytes`, i.e. `decodeMapOf`
entry by entry), `padChar` is `'='` (61), `strict` is false. -/
theorem newEncoding_ir_eq_model (al : Bytes) (hal : al.length = 64) (h10 : (10 : UInt8) ∉ al) (h13 : (13 : UInt8) ∉ al)
    (H : Heap) (O : List Obj) (X : List Ext) :
    interp program lib "NewEncoding" ⟨H, O, X⟩ [.str al] =
      .ok (⟨H ++ [al.toArray, (decodeMapBytes ⟨al, some 61, false⟩).toArray],
          O ++ [encObj H.length (H.length + 1) ⟨al, some 61, false⟩], X⟩, [.ptr O.length]) := by
  rw [interp_eq program lib _ _ _ _ lookup_newEncoding]
  exact newEncoding_proc _ H O X al hal h10 h13

/-- The world `NewEncoding(al)` returns contains, at the returned pointer, the model encoding
`⟨al, some '=', false⟩` in the sense of `EncAt` (the form every other stream-IR theorem assumes). -/
theorem newEncoding_ir_encAt (al : Bytes) (hal : al.length = 64) (H : Heap) (O : List Obj) :
    EncAt (H ++ [al.toArray, (decodeMapBytes ⟨al, some 61, false⟩).toArray])
      (O ++ [encObj H.length (H.length + 1) ⟨al, some 61, false⟩]) O.length H.length (H.length + 1) ⟨al, some 61, false⟩ :=
  encAt_fresh H O ⟨al, some 61, false⟩ hal

/-- Read out of the world `NewEncoding(al)` returns, the new object is the struct value `encVal ⟨al, some '=', false⟩`
that the buffer-IR theorems about `Encode`/`Decode` (`Props/B64IR.lean`) take as their receiver. -/
theorem newEncoding_ir_toB (al : Bytes) (hal : al.length = 64) (H : Heap) (O : List Obj) (X : List Ext) :
    toB ⟨H ++ [al.toArray, (decodeMapBytes ⟨al, some 61, false⟩).toArray],
        O ++ [encObj H.length (H.length + 1) ⟨al, some 61, false⟩], X⟩ (.ptr O.length) =
      .ok (encVal ⟨al, some 61, false⟩) :=
  toB_enc X (newEncoding_ir_encAt al hal H O)

/-- `NewEncoding(al)` panics when the alphabet is not 64 bytes long or contains `'\n'` or `'\r'` — with
`newEncoding_ir_eq_model`: it panics exactly on the alphabets the Go code rejects, and on every other
alphabet it returns the model's encoding. (Like the Go code it does NOT reject an alphabet that contains
the default padding `'='` or a repeated byte.) -/
theorem newEncoding_ir_panics (al : Bytes) (hp : al.length ≠ 64 ∨ (10 : UInt8) ∈ al ∨ (13 : UInt8) ∈ al)
    (H : Heap) (O : List Obj) (X : List Ext) :
    interp program lib "NewEncoding" ⟨H, O, X⟩ [.str al] = .panic := by
  rw [interp_eq program lib _ _ _ _ lookup_newEncoding]
  exact newEncoding_proc_panic _ H O X al hp

/-! ## `Encoding.WithPadding` -/

/-- `enc.WithPadding(p)` as regenerated from the Go source, for an `enc` that is the model encoding `e` and a
rune `p` that is `NoPadding` (-1) or a byte other than `'\n'`, `'\r'` that does not occur in the alphabet:
it returns a pointer to ONE fresh object whose arrays are fresh copies of `enc`'s (same alphabet, same
`decodeMap`), whose `strict` flag is `enc`'s, and whose `padChar` is `p` — the struct of the model encoding
`{ e with pad := … }`. The result world is `H ++ …`, `O ++ …`: the receiver `enc` (a value receiver, copied on
entry) and every other buffer and object are unchanged. -/
theorem withPadding_ir_eq_model {H : Heap} {O : List Obj} {a b1 b2 : Nat} {e : Encoding} (he : EncAt H O a b1 b2 e)
    (X : List Ext) (p : Int)
    (hp : p = -1 ∨ (0 ≤ p ∧ p ≤ 255 ∧ p ≠ 10 ∧ p ≠ 13 ∧ UInt8.ofNat p.toNat ∉ e.alphabet)) :
    interp program lib "Encoding.WithPadding" ⟨H, O, X⟩ [.ptr a, .int p] =
      .ok (⟨H ++ [e.alphabet.toArray, (decodeMapBytes e).toArray],
          O ++ [encObj H.length (H.length + 1) { e with pad := if p = -1 then none else some (UInt8.ofNat p.toNat) }], X⟩,
        [.ptr O.length]) := by
  rw [interp_eq program lib _ _ _ _ lookup_withPadding]
  exact withPadding_proc _ e H O X a b1 b2 he p hp

/-- After `enc.WithPadding(p)` the ORIGINAL `enc` is still the encoding `e`, in the same object and buffers. -/
theorem withPadding_ir_keeps_receiver {H : Heap} {O : List Obj} {a b1 b2 : Nat} {e : Encoding} (he : EncAt H O a b1 b2 e)
    (e' : Encoding) :
    EncAt (H ++ [e.alphabet.toArray, (decodeMapBytes e).toArray]) (O ++ [encObj H.length (H.length + 1) e']) a b1 b2 e :=
  he.append _ _

/-- … and the returned object is the model encoding with the new padding (`decodeMap` depends on the alphabet only). -/
theorem withPadding_ir_encAt {H : Heap} {O : List Obj} {a b1 b2 : Nat} {e : Encoding} (he : EncAt H O a b1 b2 e)
    (pad : Option UInt8) :
    EncAt (H ++ [e.alphabet.toArray, (decodeMapBytes e).toArray]) (O ++ [encObj H.length (H.length + 1) { e with pad := pad }])
      O.length H.length (H.length + 1) { e with pad := pad } :=
  encAt_fresh H O { e with pad := pad } he.len

/-- `enc.WithPadding(p)` panics for `'\r'`, `'\n'`, a rune above `0xff`, and a byte that occurs in the alphabet.
With `withPadding_ir_eq_model` this covers every rune `p ≥ -1`; see the domain note for `p < -1`. -/
theorem withPadding_ir_panics {H : Heap} {O : List Obj} {a b1 b2 : Nat} {e : Encoding} (he : EncAt H O a b1 b2 e)
    (X : List Ext) (p : Int)
    (hp : p = 13 ∨ p = 10 ∨ p > 255 ∨ (0 ≤ p ∧ p ≤ 255 ∧ UInt8.ofNat p.toNat ∈ e.alphabet)) :
    interp program lib "Encoding.WithPadding" ⟨H, O, X⟩ [.ptr a, .int p] = .panic := by
  rw [interp_eq program lib _ _ _ _ lookup_withPadding]
  exact withPadding_proc_panic _ e H O X a b1 b2 he p hp

/-! ## `Encoding.Strict` -/

/-- `enc.Strict()` as regenerated from the Go source, for an `enc` that is the model encoding `e`: it returns a
pointer to ONE fresh object with fresh copies of `enc`'s arrays, `enc`'s `padChar`, and `strict = true` — the
struct of `{ e with strict := true }`. It never panics. The result world is `H ++ …`, `O ++ …`: the receiver
and everything else are unchanged. -/
theorem strict_ir_eq_model {H : Heap} {O : List Obj} {a b1 b2 : Nat} {e : Encoding} (he : EncAt H O a b1 b2 e)
    (X : List Ext) :
    interp program lib "Encoding.Strict" ⟨H, O, X⟩ [.ptr a] =
      .ok (⟨H ++ [e.alphabet.toArray, (decodeMapBytes e).toArray],
          O ++ [encObj H.length (H.length + 1) { e with strict := true }], X⟩, [.ptr O.length]) := by
  rw [interp_eq program lib _ _ _ _ lookup_strict]
  exact strict_proc _ e H O X a b1 b2 he

/-- The object `enc.Strict()` returns is the model encoding `{ e with strict := true }`; the receiver is still `e`. -/
theorem strict_ir_encAt {H : Heap} {O : List Obj} {a b1 b2 : Nat} {e : Encoding} (he : EncAt H O a b1 b2 e) :
    EncAt (H ++ [e.alphabet.toArray, (decodeMapBytes e).toArray]) (O ++ [encObj H.length (H.length + 1) { e with strict := true }])
        O.length H.length (H.length + 1) { e with strict := true } ∧
      EncAt (H ++ [e.alphabet.toArray, (decodeMapBytes e).toArray]) (O ++ [encObj H.length (H.length + 1) { e with strict := true }])
        a b1 b2 e :=
  ⟨encAt_fresh H O { e with strict := true } he.len, he.append _ _⟩

/-! ## Examples: the regenerated programs run on concrete inputs -/

private def alpha : Bytes := "./0123456789ABCDEFGHIJKLMNOPQRSTUVWXYZabcdefghijklmnopqrstuvwxyz".toUTF8.toList
private def ePad : Encoding := ⟨alpha, some 61, false⟩
private def str (s : String) : Bytes := s.toUTF8.toList
private def W0 : World := ⟨[], [], []⟩
/-- the world after `NewEncoding(alpha)` in the empty world -/
private def W1 : World := ⟨[alpha.toArray, (decodeMapBytes ePad).toArray], [encObj 0 1 ePad], []⟩

-- the struct layout `encObj` assumes is the one of the current source
#guard EncodingFields == [("encode", "[64]byte"), ("decodeMap", "[256]byte"), ("padChar", "rune"), ("strict", "bool")]
#guard encObj 7 8 ePad ==
  ⟨"Encoding", [.slice ⟨7, 0, 64, 64⟩, .slice ⟨8, 0, 256, 256⟩, .int 61, .bool false]⟩
#guard program.procs.map (·.1) |>.take 3 |> (· == ["NewEncoding", "Encoding.WithPadding", "Encoding.Strict"])

-- NewEncoding on the crypt(3) alphabet: the object of the model encoding, '.' ↦ 0, '/' ↦ 1, 'z' ↦ 63, others 0xFF
#guard interp program lib "NewEncoding" W0 [.str alpha] == .ok (W1, [.ptr 0])
#guard (decodeMapBytes ePad).getD 46 0 == 0 && (decodeMapBytes ePad).getD 47 0 == 1 &&
  (decodeMapBytes ePad).getD 122 0 == 63 && (decodeMapBytes ePad).getD 61 0 == 255 && (decodeMapBytes ePad).length == 256
-- … in a world that already has buffers, objects and an external writer: appended, nothing else touched
#guard interp program lib "NewEncoding" ⟨[#[1, 2]], [⟨"x", [.int 5]⟩], [.writer [] []]⟩ [.str alpha] ==
  .ok (⟨[#[1, 2], alpha.toArray, (decodeMapBytes ePad).toArray], [⟨"x", [.int 5]⟩, encObj 1 2 ePad], [.writer [] []]⟩, [.ptr 1])
-- a repeated byte is accepted, the LATER position wins (as in the model's `decodeMapOf`)
#guard (match interp program lib "NewEncoding" W0 [.str (str ".." ++ alpha.drop 2)] with
  | .ok (W, _) => (W.heap.getD 1 #[]).getD 46 0 == 1 && (W.heap.getD 1 #[]).getD 47 0 == 255 &&
      W.heap.getD 1 #[] == (decodeMapBytes ⟨str ".." ++ alpha.drop 2, some 61, false⟩).toArray
  | _ => false)
-- an alphabet with '\n' or '\r' panics; so do 63 and 65 bytes
#guard interp program lib "NewEncoding" W0 [.str (alpha.take 10 ++ [10] ++ alpha.drop 11)] == .panic
#guard interp program lib "NewEncoding" W0 [.str (alpha.take 63 ++ [13])] == .panic
#guard interp program lib "NewEncoding" W0 [.str (alpha.take 63)] == .panic
#guard interp program lib "NewEncoding" W0 [.str (alpha ++ [65])] == .panic
#guard interp program lib "NewEncoding" W0 [.str []] == .panic

-- WithPadding(NoPadding), WithPadding('*'): a new object; object 0 and buffers 0, 1 are unchanged
#guard interp program lib "Encoding.WithPadding" W1 [.ptr 0, .int (-1)] ==
  .ok (⟨W1.heap ++ [alpha.toArray, (decodeMapBytes ePad).toArray], W1.objs ++ [encObj 2 3 ⟨alpha, none, false⟩], []⟩, [.ptr 1])
#guard interp program lib "Encoding.WithPadding" W1 [.ptr 0, .int 42] ==
  .ok (⟨W1.heap ++ [alpha.toArray, (decodeMapBytes ePad).toArray], W1.objs ++ [encObj 2 3 ⟨alpha, some 42, false⟩], []⟩, [.ptr 1])
#guard (match interp program lib "Encoding.WithPadding" W1 [.ptr 0, .int 42] with
  | .ok (W, _) => W.objs[0]? == some (encObj 0 1 ePad) && W.heap.take 2 == W1.heap && toB W (.ptr 0) == .ok (encVal ePad)
      && toB W (.ptr 1) == .ok (encVal ⟨alpha, some 42, false⟩)
  | _ => false)
-- WithPadding('A') (in the alphabet), WithPadding(256), WithPadding('\n'), WithPadding('\r') panic
#guard interp program lib "Encoding.WithPadding" W1 [.ptr 0, .int 65] == .panic
#guard interp program lib "Encoding.WithPadding" W1 [.ptr 0, .int 256] == .panic
#guard interp program lib "Encoding.WithPadding" W1 [.ptr 0, .int 10] == .panic
#guard interp program lib "Encoding.WithPadding" W1 [.ptr 0, .int 13] == .panic
-- outside the model's domain: Go accepts the negative rune -2, the new object has padChar -2
#guard interp program lib "Encoding.WithPadding" W1 [.ptr 0, .int (-2)] ==
  .ok (⟨W1.heap ++ [alpha.toArray, (decodeMapBytes ePad).toArray],
    W1.objs ++ [⟨"Encoding", [.slice ⟨2, 0, 64, 64⟩, .slice ⟨3, 0, 256, 256⟩, .int (-2), .bool false]⟩], []⟩, [.ptr 1])

-- Strict: a new object with strict = true; the receiver keeps strict = false
#guard interp program lib "Encoding.Strict" W1 [.ptr 0] ==
  .ok (⟨W1.heap ++ [alpha.toArray, (decodeMapBytes ePad).toArray], W1.objs ++ [encObj 2 3 ⟨alpha, some 61, true⟩], []⟩, [.ptr 1])
-- NewEncoding(alpha).WithPadding(NoPadding).Strict(), chained as in Go
#guard (match interp program lib "NewEncoding" W0 [.str alpha] with
  | .ok (Wa, [pa]) =>
    match interp program lib "Encoding.WithPadding" Wa [pa, .int (-1)] with
    | .ok (Wb, [pb]) =>
      match interp program lib "Encoding.Strict" Wb [pb] with
      | .ok (Wc, [pc]) => toB Wc pc == .ok (encVal ⟨alpha, none, true⟩) && toB Wc pa == .ok (encVal ePad)
          && toB Wc pb == .ok (encVal ⟨alpha, none, false⟩)
      | _ => false
    | _ => false
  | _ => false)
-- a dangling receiver is `stuck`, a third outcome that proves nothing
#guard interp program lib "Encoding.Strict" W0 [.ptr 0] == .stuck "dangling pointer"

end GoCrypt.SIR

#print axioms GoCrypt.SIR.newEncoding_ir_eq_model
#print axioms GoCrypt.SIR.newEncoding_ir_encAt
#print axioms GoCrypt.SIR.newEncoding_ir_toB
#print axioms GoCrypt.SIR.newEncoding_ir_panics
#print axioms GoCrypt.SIR.withPadding_ir_eq_model
#print axioms GoCrypt.SIR.withPadding_ir_keeps_receiver
#print axioms GoCrypt.SIR.withPadding_ir_encAt
#print axioms GoCrypt.SIR.withPadding_ir_panics
#print axioms GoCrypt.SIR.strict_ir_eq_model
#print axioms GoCrypt.SIR.strict_ir_encAt
