import GoCrypt.Proofs.CodecShapes
import GoCrypt.Props.C10General
import GoCrypt.Props.TiWf
import GoCrypt.Props.TypeInfoIR
import GoCrypt.Props.CodecIR
import GoCrypt.Props.CodecIRLink
import GoCrypt.Props.CodecIRU
import GoCrypt.Props.CodecIRU2
import GoCrypt.Props.CodecIRU3
import GoCrypt.Props.CodecIRU3Link
import GoCrypt.Props.CodecIRU3Closed

/-!
# C10 — Marshal / Unmarshal round trip

"For every struct type built from the documented field kinds and tag options whose layout is
unambiguous, and every field assignment that Marshal accepts, unmarshalling the produced string into a
fresh value of the same type succeeds and reproduces the value."

Property theorems only; the proofs are in `Proofs/Strconv`, `Proofs/ParseRender`, `Proofs/Codec`,
`Proofs/CodecL1`, `Proofs/CodecSteps`, `Proofs/CodecShapes`.

* (1) `strconv` round trips: `format_parse_uint`, `format_parse_int`, `formatUint_digits`.
* (2) parsing a rendered tree gives the tree back: `parse_render`, `parse_render_groups`.
* (3) `roundtrip_L1`: the general round trip for layouts made of an optional prefix and required
  positional fields (any number of fields, any of the documented kinds).
* (4) one round-trip theorem per shipped scheme struct, stated on `typeInfoOf` of the GENERATED shape
  (`Gen/Shapes.lean`), so that they are re-checked when the Go structs change: md5, sha1, nthash,
  sha256, sha512, des, desext, bcrypt, sunmd5, argon2.

In (4) the alphabet and length conditions of the canonical domain are not hypotheses: they follow from
`marshal … = .ok s` (Marshal rejects everything else), so the theorems cover every value Marshal
accepts whose integers fit their Go types, whose arrays have their Go length and whose prefix is one of
the whitelisted constants. The `example`s show the hypotheses are satisfiable.
-/

namespace GoCrypt.C10
open Bytes GoCrypt.Parse GoCrypt.Codec GoCrypt.Codec.Shapes

/-! ## (1) `strconv` -/

/-- `ParseUint(FormatUint(n, base), base, bits) = n` for every base 2..36 and `n < 2^bits`. -/
theorem format_parse_uint (base bits n : Nat) (h2 : 2 ≤ base) (h36 : base ≤ 36) (hn : n < 2 ^ bits) :
    Strconv.parseUint (Strconv.formatUint n base) base bits = .ok n :=
  Strconv.format_parse_uint base bits n h2 h36 hn

/-- `ParseInt(FormatInt(v, base), base, bits) = v` for every base 2..36 and `v` in the signed range. -/
theorem format_parse_int (base bits : Nat) (v : Int) (h2 : 2 ≤ base) (h36 : base ≤ 36) (hbits : 1 ≤ bits)
    (hlo : -(2 ^ (bits - 1) : Int) ≤ v) (hhi : v < (2 ^ (bits - 1) : Int)) :
    Strconv.parseInt (Strconv.formatInt v base) base bits = .ok v :=
  Strconv.format_parse_int base bits v h2 h36 hbits hlo hhi

/-- `FormatUint` writes a non-empty string of digit characters of the base; in particular no `$`,
`,`, `=` (nor a sign). -/
theorem formatUint_digits (n base : Nat) (h2 : 2 ≤ base) (h36 : base ≤ 36) :
    Strconv.formatUint n base ≠ [] ∧
    (∀ c ∈ Strconv.formatUint n base, ∃ d, d < base ∧ c = Strconv.digitChar d) ∧
    (∀ c ∈ Strconv.formatUint n base, c ≠ 36 ∧ c ≠ 44 ∧ c ≠ 61 ∧ c ≠ 43 ∧ c ≠ 45) :=
  Strconv.formatUint_digits n base h2 h36

/-! ## (2) `parse` on a rendered string -/

/-- A well-formed prefix followed by `$`-joined delimiter-free texts, the last one not empty, parses
to the prefix and one value node per text at the obvious positions. -/
theorem parse_render (p : Option Bytes) (texts : List Bytes)
    (hw : WfPrefix p (joinWith dollar texts)) (hp : ∀ t ∈ texts, NoDelim t)
    (hl : texts.getLast? ≠ some []) :
    parse (p.getD [] ++ joinWith dollar texts) = .ok ⟨p, valueFrags (p.getD []).length texts⟩ :=
  Parse.parse_render p texts hw hp hl

/-- The version with groups: each `$`-separated piece is a `,`-joined list of members; a lone member
is a value node, several members are one group node. -/
theorem parse_render_groups (p : Option Bytes) (pieces : List (List Bytes))
    (hw : WfPrefix p (renderPieces pieces))
    (hp : ∀ ms ∈ pieces, ms ≠ [] ∧ ∀ m ∈ ms, NoDelim m)
    (hl : ∀ ms, pieces.getLast? = some ms → ms.getLast? ≠ some []) :
    parse (p.getD [] ++ renderPieces pieces) = .ok ⟨p, piecesFrags (p.getD []).length pieces⟩ :=
  Parse.parse_render_pieces p pieces hw hp hl

/-! ## (3) The positional layer -/

/-- Round trip for every layout made of an optional string prefix and required positional fields
(`L1.shapeOk`: no param name, not grouped, not optional, not inline, no text codec, alphabet `hash` or
`base64`, kind string / []byte / [n]byte / uint / int with base 2..36, distinct index paths) and every
value Marshal accepts whose fields fit their kinds, whose prefix text is well-formed (or empty and
declared optional) and whose first (when no prefix text precedes it) and last field texts are not empty
(`L1.valuesOk`). `canonVals ti vals` lists every field with the value Marshal read for it. -/
theorem roundtrip_L1 (ti : TypeInfo) (vals : Vals) (s : Bytes)
    (hs : L1.shapeOk ti = true) (hv : L1.valuesOk ti vals = true) (hm : marshal ti vals = .ok s) :
    ∃ out, unmarshal ti s = .ok out ∧ finalVals ti out = canonVals ti vals :=
  L1.roundtrip_L1 ti vals s hs hv hm

/-- `canonVals` is the identity on a value given as the listing of all fields in order. -/
theorem canonVals_listing (ti : TypeInfo) (g : FieldInfo → FVal)
    (hnd : ((ti.hashPrefix.toList ++ ti.fields).map (·.index)).Nodup) :
    canonVals ti ((ti.hashPrefix.toList ++ ti.fields).map fun f => (f.index, g f)) =
      (ti.hashPrefix.toList ++ ti.fields).map fun f => (f.index, g f) :=
  Codec.canonVals_listing ti g hnd

/-! ## (4) The shipped layouts -/

/-- md5: `$1$salt$digest`. -/
theorem roundtrip_md5 (ti : TypeInfo) (hti : typeInfoOf GoCrypt.Gen.md5.structs "scheme" = .ok ti)
    (p salt sum s : Bytes) (hp : p = [36, 49, 36])
    (hm : marshal ti (md5Vals p salt sum) = .ok s) :
    ∃ out, unmarshal ti s = .ok out ∧ finalVals ti out = md5Vals p salt sum := by
  rw [ti_md5] at hti; cases hti
  exact Shapes.roundtrip_md5 p salt sum s hp hm

/-- sha1: `$sha1$rounds$salt$digest`. -/
theorem roundtrip_sha1 (ti : TypeInfo) (hti : typeInfoOf GoCrypt.Gen.sha1.structs "scheme" = .ok ti)
    (p salt sum s : Bytes) (rounds : Nat) (hp : p = [36, 115, 104, 97, 49, 36])
    (hr : rounds < 2 ^ 32) (hsum : sum.length = 28)
    (hm : marshal ti (sha1Vals p rounds salt sum) = .ok s) :
    ∃ out, unmarshal ti s = .ok out ∧ finalVals ti out = sha1Vals p rounds salt sum := by
  rw [ti_sha1] at hti; cases hti
  exact Shapes.roundtrip_sha1 p salt sum s rounds hp hr hsum hm

/-- nthash: `$3$$digest` (a `[0]byte` field between the prefix and the digest). -/
theorem roundtrip_nthash (ti : TypeInfo) (hti : typeInfoOf GoCrypt.Gen.nthash.structs "scheme" = .ok ti)
    (p empty sum s : Bytes) (hp : p = [36, 51, 36]) (hempty : empty.length = 0) (hsum : sum.length = 32)
    (hm : marshal ti (nthashVals p empty sum) = .ok s) :
    ∃ out, unmarshal ti s = .ok out ∧ finalVals ti out = nthashVals p empty sum := by
  rw [ti_nthash] at hti; cases hti
  exact Shapes.roundtrip_nthash p empty sum s hp hempty hsum hm

/-- sha256: `$5$[rounds=N$]salt$digest`, with and without the optional `rounds=`. -/
theorem roundtrip_sha256 (ti : TypeInfo) (hti : typeInfoOf GoCrypt.Gen.sha256.structs "scheme" = .ok ti)
    (p salt sum s : Bytes) (rounds : Nat) (hp : p = [36, 53, 36])
    (hr : rounds < 2 ^ 32) (hsum : sum.length = 43)
    (hm : marshal ti (sha256Vals p rounds salt sum) = .ok s) :
    ∃ out, unmarshal ti s = .ok out ∧ finalVals ti out = sha256Vals p rounds salt sum := by
  rw [ti_sha256] at hti; cases hti
  exact Shapes.roundtrip_sha256 p salt sum s rounds hp hr hsum hm

/-- sha512: `$6$[rounds=N$]salt$digest`. -/
theorem roundtrip_sha512 (ti : TypeInfo) (hti : typeInfoOf GoCrypt.Gen.sha512.structs "scheme" = .ok ti)
    (p salt sum s : Bytes) (rounds : Nat) (hp : p = [36, 54, 36])
    (hr : rounds < 2 ^ 32) (hsum : sum.length = 86)
    (hm : marshal ti (sha512Vals p rounds salt sum) = .ok s) :
    ∃ out, unmarshal ti s = .ok out ∧ finalVals ti out = sha512Vals p rounds salt sum := by
  rw [ti_sha512] at hti; cases hti
  exact Shapes.roundtrip_sha512 p salt sum s rounds hp hr hsum hm

/-- des: no prefix, the 2-symbol inline salt glued to the 11-symbol digest. -/
theorem roundtrip_des (ti : TypeInfo) (hti : typeInfoOf GoCrypt.Gen.des.structs "scheme" = .ok ti)
    (p salt sum s : Bytes) (hp : p = []) (hsum : sum.length = 11)
    (hm : marshal ti (desVals p salt sum) = .ok s) :
    ∃ out, unmarshal ti s = .ok out ∧ finalVals ti out = desVals p salt sum := by
  rw [ti_des] at hti; cases hti
  exact Shapes.roundtrip_des p salt sum s hp hsum hm

/-- desext: `_`, then the 24-bit crypt(3) rounds, the salt and the digest in one fragment. -/
theorem roundtrip_desext (ti : TypeInfo) (hti : typeInfoOf GoCrypt.Gen.desext.structs "scheme" = .ok ti)
    (p salt sum s : Bytes) (rounds : Nat) (hp : p = [95]) (hr : rounds < 2 ^ 24) (hsum : sum.length = 11)
    (hm : marshal ti (desextVals p rounds salt sum) = .ok s) :
    ∃ out, unmarshal ti s = .ok out ∧ finalVals ti out = desextVals p rounds salt sum := by
  rw [ti_desext] at hti; cases hti
  exact Shapes.roundtrip_desext p salt sum s rounds hp hr hsum hm

/-- bcrypt: `$2b$NN$` followed by the 22-symbol inline salt glued to the 31-symbol digest. -/
theorem roundtrip_bcrypt (ti : TypeInfo) (hti : typeInfoOf GoCrypt.Gen.bcrypt.structs "scheme" = .ok ti)
    (p salt sum s : Bytes) (cost : Nat)
    (hp : p = [36, 50, 36] ∨ p = [36, 50, 97, 36] ∨ p = [36, 50, 98, 36])
    (hc : cost < 100) (hsum : sum.length = 31)
    (hm : marshal ti (bcryptVals p cost salt sum) = .ok s) :
    ∃ out, unmarshal ti s = .ok out ∧ finalVals ti out = bcryptVals p cost salt sum := by
  rw [ti_bcrypt] at hti; cases hti
  exact Shapes.roundtrip_bcrypt p salt sum s cost hp hc hsum hm

/-- sunmd5: `$md5$rounds=N$[salt$][$]digest` (`$md5,` likewise). The optional positional fields are
filled by count, so a separator without a salt is excluded (`hgreedy`; see the counterexample below). -/
theorem roundtrip_sunmd5 (ti : TypeInfo) (hti : typeInfoOf GoCrypt.Gen.sunmd5.structs "scheme" = .ok ti)
    (p salt sum s : Bytes) (rounds : Nat) (sep : FVal)
    (hp : p = [36, 109, 100, 53, 44] ∨ p = [36, 109, 100, 53, 36])
    (hr : rounds < 2 ^ 32) (hsum : sum.length = 22)
    (hsep : sep = .nilPtr ∨ sep = .str []) (hgreedy : salt ≠ [] ∨ sep = .nilPtr)
    (hm : marshal ti (sunmd5Vals p rounds salt sep sum) = .ok s) :
    ∃ out, unmarshal ti s = .ok out ∧ finalVals ti out = sunmd5Vals p rounds salt sep sum := by
  rw [ti_sunmd5] at hti; cases hti
  exact Shapes.roundtrip_sunmd5 p salt sum s rounds sep hp hr hsum hsep hgreedy hm

/-- argon2: `$argon2id$[v=N$]m=M,t=T,p=P$salt$digest`, with and without the optional `v=`. -/
theorem roundtrip_argon2 (ti : TypeInfo) (hti : typeInfoOf GoCrypt.Gen.argon2.structs "scheme" = .ok ti)
    (p salt sum s : Bytes) (version memory time threads : Nat)
    (hp : p = [36, 97, 114, 103, 111, 110, 50, 100, 36] ∨ p = [36, 97, 114, 103, 111, 110, 50, 105, 36] ∨
      p = [36, 97, 114, 103, 111, 110, 50, 105, 100, 36])
    (hver : version < 2 ^ 8) (hmem : memory < 2 ^ 32) (htime : time < 2 ^ 32) (hthr : threads < 2 ^ 8)
    (hsum : sum ≠ [])
    (hm : marshal ti (argon2Vals p version memory time threads salt sum) = .ok s) :
    ∃ out, unmarshal ti s = .ok out ∧
      finalVals ti out = argon2Vals p version memory time threads salt sum := by
  rw [ti_argon2] at hti; cases hti
  exact Shapes.roundtrip_argon2 p salt sum s version memory time threads hp hver hmem htime hthr hsum hm

/-! ## (4') The canonical domains: Marshal accepts them, and they round-trip

`OverHash b` / `OverBase64 b`: every byte of `b` is a symbol of `./0-9A-Za-z` / of the base64 alphabet
(so `b` holds no delimiter). For every value of the scheme's canonical domain Marshal succeeds, and the
string it writes unmarshals back to the value. -/

theorem canonical_md5 (ti : TypeInfo) (hti : typeInfoOf GoCrypt.Gen.md5.structs "scheme" = .ok ti)
    (salt sum : Bytes) (hsalt : OverHash salt) (hsum : sum.length = 22) (hsum' : OverHash sum) :
    ∃ s out, marshal ti (md5Vals [36, 49, 36] salt sum) = .ok s ∧ unmarshal ti s = .ok out ∧
      finalVals ti out = md5Vals [36, 49, 36] salt sum := by
  obtain ⟨s, hs⟩ := accepts_md5 salt sum hsalt hsum hsum'
  have hti' := hti; rw [ti_md5] at hti'; cases hti'
  obtain ⟨out, h1, h2⟩ := roundtrip_md5 _ hti _ salt sum s rfl hs
  exact ⟨s, out, hs, h1, h2⟩

theorem canonical_sha1 (ti : TypeInfo) (hti : typeInfoOf GoCrypt.Gen.sha1.structs "scheme" = .ok ti)
    (rounds : Nat) (salt sum : Bytes) (hr : rounds < 2 ^ 32) (hsalt : OverHash salt)
    (hsum : sum.length = 28) (hsum' : OverHash sum) :
    ∃ s out, marshal ti (sha1Vals [36, 115, 104, 97, 49, 36] rounds salt sum) = .ok s ∧
      unmarshal ti s = .ok out ∧ finalVals ti out = sha1Vals [36, 115, 104, 97, 49, 36] rounds salt sum := by
  obtain ⟨s, hs⟩ := accepts_sha1 rounds salt sum hsalt hsum hsum'
  have hti' := hti; rw [ti_sha1] at hti'; cases hti'
  obtain ⟨out, h1, h2⟩ := roundtrip_sha1 _ hti _ salt sum s rounds rfl hr hsum hs
  exact ⟨s, out, hs, h1, h2⟩

theorem canonical_nthash (ti : TypeInfo) (hti : typeInfoOf GoCrypt.Gen.nthash.structs "scheme" = .ok ti)
    (sum : Bytes) (hsum : sum.length = 32) (hsum' : OverHash sum) :
    ∃ s out, marshal ti (nthashVals [36, 51, 36] [] sum) = .ok s ∧ unmarshal ti s = .ok out ∧
      finalVals ti out = nthashVals [36, 51, 36] [] sum := by
  obtain ⟨s, hs⟩ := accepts_nthash sum hsum hsum'
  have hti' := hti; rw [ti_nthash] at hti'; cases hti'
  obtain ⟨out, h1, h2⟩ := roundtrip_nthash _ hti _ [] sum s rfl rfl hsum hs
  exact ⟨s, out, hs, h1, h2⟩

theorem canonical_sha256 (ti : TypeInfo) (hti : typeInfoOf GoCrypt.Gen.sha256.structs "scheme" = .ok ti)
    (rounds : Nat) (salt sum : Bytes) (hr : rounds < 2 ^ 32) (hsalt : OverHash salt)
    (hsum : sum.length = 43) (hsum' : OverHash sum) :
    ∃ s out, marshal ti (sha256Vals [36, 53, 36] rounds salt sum) = .ok s ∧ unmarshal ti s = .ok out ∧
      finalVals ti out = sha256Vals [36, 53, 36] rounds salt sum := by
  obtain ⟨s, hs⟩ := accepts_sha256 rounds salt sum hsalt hsum hsum'
  have hti' := hti; rw [ti_sha256] at hti'; cases hti'
  obtain ⟨out, h1, h2⟩ := roundtrip_sha256 _ hti _ salt sum s rounds rfl hr hsum hs
  exact ⟨s, out, hs, h1, h2⟩

theorem canonical_sha512 (ti : TypeInfo) (hti : typeInfoOf GoCrypt.Gen.sha512.structs "scheme" = .ok ti)
    (rounds : Nat) (salt sum : Bytes) (hr : rounds < 2 ^ 32) (hsalt : OverHash salt)
    (hsum : sum.length = 86) (hsum' : OverHash sum) :
    ∃ s out, marshal ti (sha512Vals [36, 54, 36] rounds salt sum) = .ok s ∧ unmarshal ti s = .ok out ∧
      finalVals ti out = sha512Vals [36, 54, 36] rounds salt sum := by
  obtain ⟨s, hs⟩ := accepts_sha512 rounds salt sum hsalt hsum hsum'
  have hti' := hti; rw [ti_sha512] at hti'; cases hti'
  obtain ⟨out, h1, h2⟩ := roundtrip_sha512 _ hti _ salt sum s rounds rfl hr hsum hs
  exact ⟨s, out, hs, h1, h2⟩

theorem canonical_des (ti : TypeInfo) (hti : typeInfoOf GoCrypt.Gen.des.structs "scheme" = .ok ti)
    (salt sum : Bytes) (hsalt : salt.length = 2) (hsalt' : OverHash salt)
    (hsum : sum.length = 11) (hsum' : OverHash sum) :
    ∃ s out, marshal ti (desVals [] salt sum) = .ok s ∧ unmarshal ti s = .ok out ∧
      finalVals ti out = desVals [] salt sum := by
  obtain ⟨s, hs⟩ := accepts_des salt sum hsalt hsalt' hsum hsum'
  have hti' := hti; rw [ti_des] at hti'; cases hti'
  obtain ⟨out, h1, h2⟩ := roundtrip_des _ hti _ salt sum s rfl hsum hs
  exact ⟨s, out, hs, h1, h2⟩

theorem canonical_desext (ti : TypeInfo) (hti : typeInfoOf GoCrypt.Gen.desext.structs "scheme" = .ok ti)
    (rounds : Nat) (salt sum : Bytes) (hr : rounds < 2 ^ 24) (hsalt : salt.length = 4)
    (hsalt' : OverHash salt) (hsum : sum.length = 11) (hsum' : OverHash sum) :
    ∃ s out, marshal ti (desextVals [95] rounds salt sum) = .ok s ∧ unmarshal ti s = .ok out ∧
      finalVals ti out = desextVals [95] rounds salt sum := by
  obtain ⟨s, hs⟩ := accepts_desext rounds salt sum hsalt hsalt' hsum hsum'
  have hti' := hti; rw [ti_desext] at hti'; cases hti'
  obtain ⟨out, h1, h2⟩ := roundtrip_desext _ hti _ salt sum s rounds rfl hr hsum hs
  exact ⟨s, out, hs, h1, h2⟩

theorem canonical_bcrypt (ti : TypeInfo) (hti : typeInfoOf GoCrypt.Gen.bcrypt.structs "scheme" = .ok ti)
    (p : Bytes) (cost : Nat) (salt sum : Bytes)
    (hp : p = [36, 50, 36] ∨ p = [36, 50, 97, 36] ∨ p = [36, 50, 98, 36]) (hc : cost < 100)
    (hsalt : salt.length = 22) (hsalt' : OverHash salt) (hsum : sum.length = 31) (hsum' : OverHash sum) :
    ∃ s out, marshal ti (bcryptVals p cost salt sum) = .ok s ∧ unmarshal ti s = .ok out ∧
      finalVals ti out = bcryptVals p cost salt sum := by
  obtain ⟨s, hs⟩ := accepts_bcrypt p cost salt sum hc hsalt hsalt' hsum hsum'
  have hti' := hti; rw [ti_bcrypt] at hti'; cases hti'
  obtain ⟨out, h1, h2⟩ := roundtrip_bcrypt _ hti p salt sum s cost hp hc hsum hs
  exact ⟨s, out, hs, h1, h2⟩

theorem canonical_sunmd5 (ti : TypeInfo) (hti : typeInfoOf GoCrypt.Gen.sunmd5.structs "scheme" = .ok ti)
    (p : Bytes) (rounds : Nat) (salt : Bytes) (sep : FVal) (sum : Bytes)
    (hp : p = [36, 109, 100, 53, 44] ∨ p = [36, 109, 100, 53, 36]) (hr : rounds < 2 ^ 32)
    (hsalt : OverHash salt) (hsep : sep = .nilPtr ∨ sep = .str []) (hgreedy : salt ≠ [] ∨ sep = .nilPtr)
    (hsum : sum.length = 22) (hsum' : OverHash sum) :
    ∃ s out, marshal ti (sunmd5Vals p rounds salt sep sum) = .ok s ∧ unmarshal ti s = .ok out ∧
      finalVals ti out = sunmd5Vals p rounds salt sep sum := by
  obtain ⟨s, hs⟩ := accepts_sunmd5 p rounds salt sep sum hsalt hsep hsum hsum'
  have hti' := hti; rw [ti_sunmd5] at hti'; cases hti'
  obtain ⟨out, h1, h2⟩ := roundtrip_sunmd5 _ hti p salt sum s rounds sep hp hr hsum hsep hgreedy hs
  exact ⟨s, out, hs, h1, h2⟩

theorem canonical_argon2 (ti : TypeInfo) (hti : typeInfoOf GoCrypt.Gen.argon2.structs "scheme" = .ok ti)
    (p : Bytes) (version memory time threads : Nat) (salt sum : Bytes)
    (hp : p = [36, 97, 114, 103, 111, 110, 50, 100, 36] ∨ p = [36, 97, 114, 103, 111, 110, 50, 105, 36] ∨
      p = [36, 97, 114, 103, 111, 110, 50, 105, 100, 36])
    (hver : version < 2 ^ 8) (hmem : memory < 2 ^ 32) (htime : time < 2 ^ 32) (hthr : threads < 2 ^ 8)
    (hsalt : OverBase64 salt) (hsum : sum ≠ []) (hsum' : OverBase64 sum) :
    ∃ s out, marshal ti (argon2Vals p version memory time threads salt sum) = .ok s ∧
      unmarshal ti s = .ok out ∧ finalVals ti out = argon2Vals p version memory time threads salt sum := by
  obtain ⟨s, hs⟩ := accepts_argon2 p version memory time threads salt sum hsalt hsum'
  have hti' := hti; rw [ti_argon2] at hti'; cases hti'
  obtain ⟨out, h1, h2⟩ := roundtrip_argon2 _ hti p salt sum s version memory time threads hp hver hmem htime
    hthr hsum hs
  exact ⟨s, out, hs, h1, h2⟩

/-! ## Non-vacuity -/

/-- 22 / 43 / … symbols of the hash alphabet. -/
private def dots (n : Nat) : Bytes := List.replicate n 46

example : OverHash (dots 22) ∧ OverHash [97, 98] ∧ OverBase64 [97, 98, 43, 47] := by decide
example : ¬ OverHash [97, 36, 98] ∧ ¬ OverHash [97, 44] ∧ ¬ OverBase64 [36] := by decide
-- "$1$ab$......................"
example : marshal md5TI (md5Vals [36, 49, 36] [97, 98] (dots 22)) =
    .ok ([36, 49, 36, 97, 98, 36] ++ dots 22) := by decide
example : L1.shapeOk md5TI = true ∧ L1.shapeOk sha1TI = true ∧ L1.shapeOk nthashTI = true := by decide
example : L1.valuesOk md5TI (md5Vals [36, 49, 36] [97, 98] (dots 22)) = true := by decide
-- "$sha1$480000$ab$............................"
example : (marshal sha1TI (sha1Vals [36, 115, 104, 97, 49, 36] 480000 [97, 98] (dots 28))).toOption.isSome = true := by decide
-- "$3$$................................"
example : (marshal nthashTI (nthashVals [36, 51, 36] [] (dots 32))).toOption.isSome = true := by decide
-- "$5$ab$...", "$5$rounds=1000$ab$..."
example : marshal sha256TI (sha256Vals [36, 53, 36] 0 [97, 98] (dots 43)) =
    .ok ([36, 53, 36, 97, 98, 36] ++ dots 43) := by decide
example : marshal sha256TI (sha256Vals [36, 53, 36] 1000 [97, 98] (dots 43)) =
    .ok ([36, 53, 36, 114, 111, 117, 110, 100, 115, 61, 49, 48, 48, 48, 36, 97, 98, 36] ++ dots 43) := by
  decide
example : (marshal sha512TI (sha512Vals [36, 54, 36] 5000 [97, 98] (dots 86))).toOption.isSome = true := by decide
-- "ab..........."
example : marshal desTI (desVals [] [97, 98] (dots 11)) = .ok ([97, 98] ++ dots 11) := by decide
-- "_J9..abcd..........."
example : marshal desextTI (desextVals [95] 725 [97, 98, 99, 100] (dots 11)) =
    .ok ([95, 74, 57, 46, 46, 97, 98, 99, 100] ++ dots 11) := by decide
-- "$2b$05$" ++ 22 + 31 symbols
example : marshal bcryptTI (bcryptVals [36, 50, 98, 36] 5 (dots 22) (dots 31)) =
    .ok ([36, 50, 98, 36, 48, 53, 36] ++ dots 22 ++ dots 31) := by decide
-- "$md5$rounds=5$ab$......................", "$md5,rounds=5$ab$$…", "$md5$rounds=5$…"
example : (marshal sunmd5TI (sunmd5Vals [36, 109, 100, 53, 36] 5 [97, 98] .nilPtr (dots 22))).toOption.isSome = true := by decide
example : (marshal sunmd5TI (sunmd5Vals [36, 109, 100, 53, 44] 5 [97, 98] (.str []) (dots 22))).toOption.isSome = true := by decide
example : (marshal sunmd5TI (sunmd5Vals [36, 109, 100, 53, 36] 5 [] .nilPtr (dots 22))).toOption.isSome = true := by decide
-- "$argon2id$v=19$m=65536,t=2,p=1$ab$cd", and without "v=19$"
example : marshal argon2TI (argon2Vals [36, 97, 114, 103, 111, 110, 50, 105, 100, 36] 19 65536 2 1 [97, 98] [99, 100]) =
    .ok [36, 97, 114, 103, 111, 110, 50, 105, 100, 36, 118, 61, 49, 57, 36, 109, 61, 54, 53, 53, 51, 54, 44,
      116, 61, 50, 44, 112, 61, 49, 36, 97, 98, 36, 99, 100] := by decide
example : (marshal argon2TI (argon2Vals [36, 97, 114, 103, 111, 110, 50, 105, 36] 0 65536 2 1 [97, 98] [99, 100])).toOption.isSome = true := by decide

/-- Why `hgreedy` is needed in `roundtrip_sunmd5`: an empty salt with a (non-nil, empty) separator is
written `$md5$rounds=5$$digest`, which Unmarshal reads as an explicitly empty salt and NO separator —
optional positional fields are filled by count, left to right. -/
example :
    marshal sunmd5TI (sunmd5Vals [36, 109, 100, 53, 36] 5 [] (.str []) (dots 22)) =
      .ok ([36, 109, 100, 53, 36, 114, 111, 117, 110, 100, 115, 61, 53, 36, 36] ++ dots 22) ∧
    (unmarshal sunmd5TI ([36, 109, 100, 53, 36, 114, 111, 117, 110, 100, 115, 61, 53, 36, 36] ++ dots 22)).map
      (finalVals sunmd5TI) = .ok (sunmd5Vals [36, 109, 100, 53, 36] 5 [] .nilPtr (dots 22)) := by
  decide

#print axioms format_parse_uint
#print axioms format_parse_int
#print axioms formatUint_digits
#print axioms parse_render
#print axioms parse_render_groups
#print axioms roundtrip_L1
#print axioms canonVals_listing
#print axioms roundtrip_md5
#print axioms roundtrip_sha1
#print axioms roundtrip_nthash
#print axioms roundtrip_sha256
#print axioms roundtrip_sha512
#print axioms roundtrip_des
#print axioms roundtrip_desext
#print axioms roundtrip_bcrypt
#print axioms roundtrip_sunmd5
#print axioms roundtrip_argon2
#print axioms canonical_md5
#print axioms canonical_sha1
#print axioms canonical_nthash
#print axioms canonical_sha256
#print axioms canonical_sha512
#print axioms canonical_des
#print axioms canonical_desext
#print axioms canonical_bcrypt
#print axioms canonical_sunmd5
#print axioms canonical_argon2

-- THE GENERAL THEOREM (Props/C10General.lean): for an ARBITRARY struct type and value inside the explicit decidable hypothesis
-- (well-formed type info ∧ Unambiguous ∧ groups separated; typed ∧ Representable ∧ non-empty last text ∧ no value mimicking an omitted parameter)
-- Unmarshal(Marshal v) = v — layers L2 … L6 (= everything: params, inline, codecs, groups, omitempty, trailing optionals)
#print axioms GoCrypt.C10General.roundtrip_L2
#print axioms GoCrypt.C10General.roundtrip_L3
#print axioms GoCrypt.C10General.roundtrip_L4
#print axioms GoCrypt.C10General.roundtrip_L5
#print axioms GoCrypt.C10General.roundtrip_L6
#print axioms GoCrypt.C10General.roundtrip_general
#print axioms GoCrypt.C10General.L2_hypotheses
#print axioms GoCrypt.C10General.L3_hypotheses
#print axioms GoCrypt.C10General.L4_hypotheses
#print axioms GoCrypt.C10General.L5_hypotheses
#print axioms GoCrypt.C10General.param_inline_excluded
#print axioms GoCrypt.C10General.needs_lastTextOk
#print axioms GoCrypt.C10General.needs_groupsSeparated
#print axioms GoCrypt.C10General.needs_noSteal
#print axioms GoCrypt.C10General.numReq_shadowed_param_counted_once

-- the type-info hypothesis discharged (Props/TiWf.lean): every TypeInfo that the model of getTypeInfo builds from supported field types is well-formed,
-- so the general theorem holds for every struct type getTypeInfo accepts
#print axioms GoCrypt.TiWf.typeInfoOf_tiWf_iff
#print axioms GoCrypt.TiWf.typeInfoOf_tiWf
#print axioms GoCrypt.TiWf.typeInfoOf_core
#print axioms GoCrypt.TiWf.shipped_supported
#print axioms GoCrypt.TiWf.roundtrip_of_typeInfoOf
-- the type-info layer IS the current code (Props/TypeInfoIR.lean): getRawTypeInfo (tag-parsing loop, embedded-struct recursion), (*typeInfo).field (with sort.Slice as ANY sorted permutation),
-- normalize and the cold path of getTypeInfo regenerated from hash/typeinfo.go on every run (records behind pointers, reflect.Type as operations over the struct descriptions) = fieldOpts/rawFields/resolveParam/normalizeLoop/typeInfoOf
#print axioms GoCrypt.TypeInfoIR.no_unknown_nodes
#print axioms GoCrypt.TypeInfoIR.indirectType_eq
#print axioms GoCrypt.TypeInfoIR.tagLoop_eq_fieldOpts
#print axioms GoCrypt.TypeInfoIR.field_eq_resolveParam
#print axioms GoCrypt.TypeInfoIR.field_not_stuck_for_sorted_permutations
#print axioms GoCrypt.TypeInfoIR.merge_sort_is_good
#print axioms GoCrypt.TypeInfoIR.normalize_eq_normalizeLoop
#print axioms GoCrypt.TypeInfoIR.normalize_eq_normalizeLoop_exact
#print axioms GoCrypt.TypeInfoIR.getRawTypeInfo_eq_rawFields
#print axioms GoCrypt.TypeInfoIR.rawFields_paths_valid
#print axioms GoCrypt.TypeInfoIR.getTypeInfo_cold_eq_typeInfoOf
#print axioms GoCrypt.TypeInfoIR.getTypeInfo_cold_eq_typeInfoOf_exact
#print axioms GoCrypt.TypeInfoIR.example_outer_is_in_the_domain
-- the Marshal side IS the current code (Props/CodecIR.lean): Marshal, marshalValue, marshal, indirect, isEmpty regenerated from hash/marshal.go (reflect.Value as operations over a value model)
-- = Codec.marshal for every type info and every representable struct value: text or the same error class
#print axioms GoCrypt.CodecIR.no_unknown_nodes
#print axioms GoCrypt.CodecIR.marshal_eq_model
#print axioms GoCrypt.CodecIR.marshal_eq_marshalRaw
#print axioms GoCrypt.CodecIR.isEmpty_eq_isEmptyVal
#print axioms GoCrypt.CodecIR.indirect_nonnil
#print axioms GoCrypt.CodecIR.indirect_of_nil
#print axioms GoCrypt.CodecIR.indexAnyInvalid_witness
#print axioms GoCrypt.CodecIR.marshalText_witness
-- Marshal with getTypeInfo linked to the regenerated type-info layer (Props/CodecIRLink.lean): no hypothesis about getTypeInfo beyond a cold cache
#print axioms GoCrypt.CodecIR.getTypeInfoOk_of_coldPost
#print axioms GoCrypt.CodecIR.getTypeInfoErr_of_coldPost
#print axioms GoCrypt.CodecIR.marshal_getTypeInfo_error
#print axioms GoCrypt.CodecIR.marshal_eq_model_typeInfoOf
-- the Unmarshal side (Props/CodecIRU.lean): Unmarshal/unmarshal/newUnmarshalError/unmarshalIndirect are regenerated (no unknown node) and run, as #guard examples, against Codec.unmarshal + finalVals on six scheme structs and every error class;
-- proved so far: pointer allocation, the error record, the text half of unmarshal (= fieldText: trimming, length/inline rule, alphabet check) and the whole of unmarshal for string fields; the remaining kinds and the field loop are tied by the correspondence suites
#print axioms GoCrypt.CodecIRU.unmarshalIndirect_allocates
#print axioms GoCrypt.CodecIRU.newUnmarshalError_eq
#print axioms GoCrypt.CodecIRU.newErrSpec_callIn
#print axioms GoCrypt.CodecIRU.fieldText_eq_lenRule
#print axioms GoCrypt.CodecIRU.unmarshal_string
#print axioms GoCrypt.CodecIRU.unmarshalText_witness
-- Unmarshal, continued (Props/CodecIRU2.lean): the regenerated unmarshal on a value node = fieldText then storeValue for EVERY field kind (bytes, arrays, all integer widths, pointers, text unmarshalers, prefix rule,
-- unsupported types); one iteration of the field loop = stepField and the whole loop = loopFields for struct descriptions without grouped params; the checks after the loop = the end of unmarshalTree.
-- Not yet proved: the grouped-param clause of the loop and the top-level assembly (both run against the model as #guard examples and tied by the correspondence suites)
#print axioms GoCrypt.CodecIRU.unmarshal_value_eq_model
#print axioms GoCrypt.CodecIRU.unmarshal_prefix_eq_model
#print axioms GoCrypt.CodecIRU.step_eq_stepField
#print axioms GoCrypt.CodecIRU.loop_eq_loopFields
#print axioms GoCrypt.CodecIRU.after_loop_eq_model
#print axioms GoCrypt.CodecIRU.callsU_callIn
-- Unmarshal IS the current code (Props/CodecIRU3*.lean): the whole regenerated Unmarshal — prologue, HashPrefix, the field loop with grouped params, the end checks — on a zero destination returns nil with the cells holding
-- finalVals ti out when Codec.unmarshal ti hash = .ok out, or an error of the model's class; with getTypeInfo from the regenerated type-info program and closed instances for the shipped scheme structs (every hash under 300 bytes)
#print axioms GoCrypt.CodecIRU.unmarshal_getTypeInfo_error
#print axioms GoCrypt.CodecIRU.unmarshalIndirect_root_eq
#print axioms GoCrypt.CodecIRU.unmarshal_eq_model_of_loopTail
#print axioms GoCrypt.CodecIRU.unmarshal_eq_model_nogroup
#print axioms GoCrypt.CodecIRU.step_eq_stepField_general
#print axioms GoCrypt.CodecIRU.loop_eq_loopFields_general
#print axioms GoCrypt.CodecIRU.after_loop_eq_model_general
#print axioms GoCrypt.CodecIRU.unmarshal_eq_model
#print axioms GoCrypt.CodecIRU.unmarshal_eq_model_typeInfoOf
#print axioms GoCrypt.CodecIRU.parseOkAt_extU
#print axioms GoCrypt.CodecIRU.indirectTypeOk_extU
#print axioms GoCrypt.CodecIRU.fieldStringOk_extU
#print axioms GoCrypt.CodecIRU.getTypeInfoOk_extU
#print axioms GoCrypt.CodecIRU.unmarshal_closed_of_checks
#print axioms GoCrypt.CodecIRU.unmarshal_sha256_closed
#print axioms GoCrypt.CodecIRU.unmarshal_bcrypt_closed
#print axioms GoCrypt.CodecIRU.unmarshal_sunmd5_closed
#print axioms GoCrypt.CodecIRU.unmarshal_argon2_closed
end GoCrypt.C10
