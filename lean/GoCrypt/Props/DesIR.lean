import GoCrypt.Proofs.DesIRTop
import GoCrypt.Props.KdfIR2

/-!
# The DES core is what the Go source computes (word IR)

`gogen` (desir.go) re-translates, on every run, the bodies of `permute816`, `permute1616`, `keySchedules`
and `Encrypt` of `des/descrypt/des.go` into the programs of `Gen/DesIR.lean`, together with the values of
the package-level variables they read (`globals`: the constant tables of `const.go` by reference to
`Gen/Tables.lean`, `pcxRot` as the array of table NAMES the source lists, `ksMask`).
`Base/DesIR.lean` interprets the programs: `uint64`/`uint32` words with Go's wrap-around and Go's shift
rule, arrays of `uint64` as windows of flat data, tables looked up by name (`stuck` when unknown), index
out of range = panic, `unknown` node = `stuck`.

The theorems below state that interpreting the regenerated programs gives exactly the hand-written model
`Model/Kdf/Des.lean` — for every input — and that the primitive `descrypt.Encrypt`, which the
key-derivation IR of `Props/KdfIR2.lean` treats as opaque, can be the interpreter running the regenerated
`Encrypt`: the three DES theorems of that file then hold with DES itself regenerated (`…_full`).
Property theorems only; the lemmas are in `Proofs/DesIR*.lean`.
-/

namespace GoCrypt.DesIRProps
open GoCrypt.DesIR GoCrypt.Gen.DesIR GoCrypt.Kdf GoCrypt.Kdf.Des

/-! ## 1. `permute816`, `permute1616` -/

/-- `permute816(c, p)` as regenerated = `Des.permuteNib p 8 c`, for every 64-bit `c` and EVERY `[8][16]uint64`
table `p` (given by its 128 words `t`, row-major), whatever the package-level variables are. -/
theorem permute816_ir_eq_model (g : Globals) (t : Array Nat) (c : UInt64) :
    interp program g "permute816" [.u64 c, .tab [8, 16] 0 t] = .ok (.u64 (permuteNib t 8 c)) :=
  callIn_permute816 g 3 t c

/-- `permute1616(c, p)` as regenerated = `Des.permuteNib p 16 c`, for every 64-bit `c` and every
`[16][16]uint64` table `p`. -/
theorem permute1616_ir_eq_model (g : Globals) (t : Array Nat) (c : UInt64) :
    interp program g "permute1616" [.u64 c, .tab [16, 16] 0 t] = .ok (.u64 (permuteNib t 16 c)) :=
  callIn_permute1616 g 3 t c

/-- The loop itself is proved for ANY number of rows: a function with the body of `permute816` applied to a
`rows × 16` table is `permuteNib` with `rows` rows (the two Go functions differ only in their types). -/
theorem permute_any_rows (c : Ctx) (g : Globals) (t : Array Nat) (rows : Nat) (x : UInt64) :
    execProc c g proc_permute816 [.u64 x, .tab [rows, 16] 0 t] = .ok (.u64 (permuteNib t rows x)) :=
  permute_body c g _ rfl rfl rfl t rows x

/-! ## 2. `keySchedules` -/

/-- `keySchedules(key)` as regenerated returns the `[8][2]uint64` array whose rows are the eight
(even, odd) pairs of `Des.keySchedules key`, for every 64-bit key. `pcxRot` and `ksMask` are read from the
regenerated `globals` (the model restates them by hand: this theorem compares the two). -/
theorem keySchedules_ir_eq_model (key : UInt64) :
    interp program globals "keySchedules" [.u64 key] = .ok (ksVal (keySchedules key)) :=
  callIn_keySchedules 2 key

/-- `ksVal`: row `i` of the array holds pair `i` (read back through the interpreter's indexing). -/
theorem ksVal_row (l : List (UInt64 × UInt64)) (i : Nat) (h : i < l.length) :
    indexVal (ksVal l) i = .ok (.tab [2] (0 + i * (2 * 1)) (ksFlat l).toArray) := by
  simp only [ksVal, indexVal, h, if_true, tabElem, dimsSize]

/-! ## 3. `Encrypt` -/

/-- `Encrypt(key, input, salt, rounds)` as regenerated = `Des.encrypt key input salt rounds`, for every
`uint64` key and input and every `uint32` salt and round count. The `rounds` loop is handled by induction
on the value of `rounds` (`enc_loop`), the inner `range` loop by induction on the schedule (`inner_loop`). -/
theorem encrypt_ir_eq_model (key input : UInt64) (salt rounds : UInt32) :
    interp program globals "Encrypt" [.u64 key, .u64 input, .u32 salt, .u32 rounds] =
      .ok (.u64 (encrypt key input salt rounds.toNat)) :=
  callIn_Encrypt 1 key input salt rounds

/-! ## 4. The opaque primitive of the key-derivation IR, discharged -/

section prims
open GoCrypt.HashIR2 GoCrypt.KdfIR2 GoCrypt.Scheme GoCrypt.Codec GoCrypt.Gen.KdfIR2

/-- `descrypt.Encrypt(k, i, s, r)` for the key-derivation IR: the word-IR interpreter running the
regenerated `Encrypt` on the arguments converted to their Go types (`uint64`, `uint64`, `uint32`, `uint32`). -/
def runEncrypt (k i s r : Int) : HashIR2.Res HashIR2.Val :=
  match DesIR.interp program globals "Encrypt"
      [.u64 (UInt64.ofNat k.toNat), .u64 (UInt64.ofNat i.toNat), .u32 (UInt32.ofNat s.toNat), .u32 (UInt32.ofNat r.toNat)] with
  | .ok (.u64 x) => .ok (nat x.toNat)
  | .ok _ => .stuck "Encrypt did not return a uint64"
  | .panic => .panic
  | .stuck w => .stuck w

/-- The primitive table with DES regenerated: `descrypt.Encrypt` runs the regenerated program, the other
primitives keep the models' meaning (`modelPrims`). -/
def desPrims : String → List HashIR2.Val → HashIR2.Res HashIR2.Val
  | "descrypt.Encrypt", [.int k, .int i, .int s, .int r] => runEncrypt k i s r
  | f, args => modelPrims f args

/-- `encryptNat` with the round count converted to `uint32`, as a call of the Go function does. -/
def encryptNat32 (k i s r : Int) : Nat := encryptNat k i s ((r.toNat % 2 ^ 32 : Nat) : Int)

/-- On a round count that is a `uint32` value the conversion changes nothing. -/
theorem encryptNat32_eq (k i s r : Int) (h : r.toNat < 2 ^ 32) : encryptNat32 k i s r = encryptNat k i s r := by
  unfold encryptNat32 encryptNat
  rw [Int.toNat_natCast, Nat.mod_eq_of_lt h]

theorem runEncrypt_eq (k i s r : Int) : runEncrypt k i s r = .ok (nat (encryptNat32 k i s r)) := by
  unfold runEncrypt
  rw [encrypt_ir_eq_model]
  simp only [encryptNat32, encryptNat, UInt32.toNat_ofNat', Int.toNat_natCast]

/-- The primitive table that RUNS THE REGENERATED `Encrypt` satisfies the specification the DES theorems
of `Props/KdfIR2.lean` assume of their opaque primitive, with `E := encryptNat32` — i.e. `encryptNat`
(the model `Des.encrypt`) on the round count as a `uint32`. -/
theorem desPrims_spec : DesPrimSpec desPrims encryptNat32 where
  encrypt k i s r := runEncrypt_eq k i s r
  encrypt_lt _ _ _ _ := encryptNat_lt ..
  encode _ := rfl
  decode _ := rfl

/-- Why `encryptNat32` and not `encryptNat`: a round count of `2^32` reaches the Go function as the `uint32`
value `0`, so the regenerated `Encrypt` runs no round at all (the model `Des.encrypt`, which counts rounds in
`Nat`, would run `2^32`). Inside the `uint32` range the two agree (`encryptNat32_eq`). -/
theorem runEncrypt_wraps (k i s : Int) : runEncrypt k i s (2 ^ 32) = .ok (nat (encryptNat k i s 0)) := by
  rw [runEncrypt_eq]; rfl

theorem extNat_encryptNat32 (pw : Bytes) : ∀ k, extNat encryptNat32 pw k = extNat encryptNat pw k
  | 0 => rfl
  | k + 1 => by
    rw [extNat, extNat, extNat_encryptNat32 pw k, encryptNat32_eq _ _ _ _ (by decide)]

/-- `desext.key(password)` as regenerated, with `descrypt.Encrypt` regenerated too, = `Des.desextKey`,
for every password and every hash. -/
theorem desext_key_ir_eq_model_full (π : Params) (hπ : π.prim = desPrims) (pw : Bytes) :
    HashIR2.interp π desext.program "desext.key" [.bytes pw] = .ok (nat (Des.desextKey pw).toNat) := by
  rw [← extNat_full, ← extNat_encryptNat32]
  exact desext_key_ir_eq_fold π (hπ ▸ desPrims_spec) pw

/-- The tail of `desext.Key` after its guards, with `descrypt.Encrypt` regenerated too, =
`Scheme.desext.derive`, for every password and salt and every round count that is a `uint32` value (the
Go parameter `rounds` is a `uint32`; the models count rounds in `Nat`). -/
theorem desext_key_tail_ir_eq_derive_full (π : Params) (hπ : π.prim = desPrims) (a : KeyArgs) (hr : a.rounds < 2 ^ 32) :
    HashIR2.interp π desext.program "desext.Key" [.bytes a.password, .bytes a.salt, nat a.rounds] =
      ofKeyRes (Scheme.desext.derive a) := by
  have hs : DesPrimSpec π.prim encryptNat32 := hπ ▸ desPrims_spec
  rw [interp_proc π _ _ desext.proc_Key _ rfl, desext_derive_eq]
  have h := desext_key_tail_proc _ (desextTailCalls_ctxOf π hs 2) a.password a.salt a.rounds
  rw [extNat_encryptNat32, extNat_full, encryptNat32_eq _ _ _ _ (by rw [Int.toNat_natCast]; exact hr), encryptNat_des,
    Int.toNat_natCast] at h
  exact h

/-- The tail of `des.Key` after its guards (25 rounds), with `descrypt.Encrypt` regenerated too, =
`Scheme.des.derive`, for every password and salt. -/
theorem des_key_tail_ir_eq_derive_full (π : Params) (hπ : π.prim = desPrims) (a : KeyArgs) :
    HashIR2.interp π des.program "des.Key" [.bytes a.password, .bytes a.salt] = ofKeyRes (Scheme.des.derive a) := by
  have hs : DesPrimSpec π.prim encryptNat32 := hπ ▸ desPrims_spec
  rw [interp_proc π _ _ des.proc_Key _ rfl, des_derive_eq]
  have h := des_key_tail_proc _ (desTailCalls_ctxOf π hs 1) a.password a.salt
  rw [encryptNat32_eq _ _ _ _ (by decide), encryptNat_des] at h
  exact h

end prims

/-! ## 5. Nothing fell outside the translated fragment -/

/-- No `unknown` node in any of the four regenerated bodies. -/
theorem no_unknown_nodes : program.clean = true := by decide

/-- Every package-level variable the bodies name has a value in `globals` (the translator withholds the
value of a variable that some statement of the package assigns to). -/
theorem globals_defined : globalNames.all (fun n => (globals n).isSome) = true := by decide

/-! ## Examples (run by the interpreter at build time) -/

def runEnc (k i : UInt64) (s r : UInt32) : Option UInt64 :=
  match interp program globals "Encrypt" [.u64 k, .u64 i, .u32 s, .u32 r] with
  | .ok (.u64 x) => some x
  | _ => none

-- the classic DES example (key 133457799BBCDFF1, block 0123456789ABCDEF): one pass, no salt
#guard runEnc 0x133457799BBCDFF1 0x0123456789ABCDEF 0 1 == some 0x85E813540F0AB405
-- zero rounds: the two permutations cancel
#guard runEnc 0x133457799BBCDFF1 0x0123456789ABCDEF 0x123456 0 == some 0x0123456789ABCDEF
-- crypt(3): 25 passes over the zero block with a 24-bit salt, against the (executable) model and against
-- the value the real Go function printed (`descrypt.Encrypt(0x133457799BBCDFF1, 0, 0x123456, 25)`)
#guard runEnc 0x133457799BBCDFF1 0 0x123456 25 == some (encrypt 0x133457799BBCDFF1 0 0x123456 25)
#guard runEnc 0x133457799BBCDFF1 0 0x123456 25 == some 11762244641446854415
#guard runEnc 0xE0E0E0E0F1F1F1F1 0xFFFFFFFFFFFFFFFF 0xFFFFFF 3 == some (encrypt 0xE0E0E0E0F1F1F1F1 0xFFFFFFFFFFFFFFFF 0xFFFFFF 3)
#guard runEnc 0xE0E0E0E0F1F1F1F1 0xFFFFFFFFFFFFFFFF 0xFFFFFF 3 == some 2572832633259865567
-- bits of the salt above 24 are dropped by the expansion (Go prints 11257867635975843842 for both)
#guard runEnc 0x133457799BBCDFF1 2 0xFF000003 2 == some (encrypt 0x133457799BBCDFF1 2 3 2)
#guard runEnc 0x133457799BBCDFF1 2 3 2 == some 11257867635975843842
-- an unknown table name is `stuck`, an index out of range is a panic
#guard (match interp program (fun _ => none) "Encrypt" [.u64 1, .u64 2, .u32 3, .u32 1] with | .stuck _ => true | _ => false)
#guard (match interp program globals "permute816" [.u64 0xF0, .tab [8, 4] 0 #[]] with | .panic => true | _ => false)
#guard (match interp program globals "keySchedules" [.u64 5] with | .ok (.tab [8, 2] 0 d) => d.size == 16 | _ => false)

open GoCrypt.HashIR2 GoCrypt.KdfIR2 GoCrypt.Gen.KdfIR2 in
#guard HashIR2.interp { H := KdfIR.toyH 16, prim := desPrims } desext.program "desext.Key" [.bytes toyPw, .bytes toySalt4, nat 3] ==
  HashIR2.interp { H := KdfIR.toyH 16, prim := modelPrims } desext.program "desext.Key" [.bytes toyPw, .bytes toySalt4, nat 3]
open GoCrypt.HashIR2 GoCrypt.KdfIR2 GoCrypt.Gen.KdfIR2 in
#guard HashIR2.interp { H := KdfIR.toyH 16, prim := desPrims } des.program "des.Key" [.bytes [112, 119], .bytes [97, 98]] ==
  HashIR2.interp { H := KdfIR.toyH 16, prim := modelPrims } des.program "des.Key" [.bytes [112, 119], .bytes [97, 98]]

#print axioms permute816_ir_eq_model
#print axioms permute1616_ir_eq_model
#print axioms permute_any_rows
#print axioms keySchedules_ir_eq_model
#print axioms encrypt_ir_eq_model
#print axioms desPrims_spec
#print axioms runEncrypt_wraps
#print axioms desext_key_ir_eq_model_full
#print axioms desext_key_tail_ir_eq_derive_full
#print axioms des_key_tail_ir_eq_derive_full
#print axioms no_unknown_nodes
#print axioms globals_defined

end GoCrypt.DesIRProps
