import GoCrypt.Props.CodecIR
import GoCrypt.Props.TypeInfoIR

/-!
# `Marshal` with the regenerated `getTypeInfo` behind it

`Props/CodecIR.lean: marshal_eq_model` assumes "the external `getTypeInfo(t)` returns a record representing
`ti`" (`GetTypeInfoOk`).  Here the external function is the REGENERATED `getTypeInfo` of `hash/typeinfo.go`
(`Gen/TypeInfoIR.lean`, function 4, cold cache), run on the heap of the codec run: `extOfTypeInfo`.
`Props/TypeInfoIR.lean: getTypeInfo_cold_eq_typeInfoOf_exact` (`TIIR.Top.ColdPost`) then discharges the
assumption, and `Marshal` is compared with `Codec.marshal (typeInfoOf structs n)` — or returns the tag
error of `typeInfoOf`.
-/

namespace GoCrypt.CodecIR
open GoCrypt.Codec GoCrypt.Gen.codecIR GoCrypt.CIR
open GoCrypt.TIIR (RType Res fiType)

/-- The external functions of a codec run, with `getTypeInfo` = the regenerated type-info program (cold cache)
under the `sort.Slice` behaviour and bounds of `tw`, at call depth `depth`. -/
def extOfTypeInfo (tw : TIIR.World) (depth : Nat) : String → Mem → List Val → Res (Mem × List Val)
  | name, m, [.rtype t] =>
    if name = "getTypeInfo" then
      match TIIR.callIn GoCrypt.Gen.typeinfoIR.program tw depth 4 m.heap [.rtype t] with
      | .ok (h', [.ptr a, .nil]) => .ok ({ m with heap := h' }, [.ptr a, .nil])
      | .ok (h', [.nil, v]) => .ok ({ m with heap := h' }, [.nil, .tiErr v])
      | .ok _ => .stuck "getTypeInfo returned something else"
      | .panic => .panic
      | .stuck w => .stuck w
    else .stuck "no such external function"
  | _, _, _ => .stuck "no such external function"

/-- STEP 3 (success): what `Props/TypeInfoIR.lean` proves about the regenerated `getTypeInfo` is what `Marshal` assumes. -/
theorem getTypeInfoOk_of_coldPost (tw : TIIR.World) (depth : Nat) (m : Mem) (t : RType) (ti : TypeInfo)
    (h : TIIR.Top.ColdPost t (.ok ti) (TIIR.callIn GoCrypt.Gen.typeinfoIR.program tw depth 4 m.heap [.rtype t])) :
    GetTypeInfoOk (extOfTypeInfo tw depth) m t ti := by
  obtain ⟨h', a, hp, addrs, hr, hti, hhp, hreps⟩ := h
  exact ⟨h', a, hp, addrs, by simp [extOfTypeInfo, hr], hti, hhp, hreps⟩

/-- STEP 3 (error). -/
theorem getTypeInfoErr_of_coldPost (tw : TIIR.World) (depth : Nat) (m : Mem) (t : RType) (e : TagErr)
    (h : TIIR.Top.ColdPost t (.error e) (TIIR.callIn GoCrypt.Gen.typeinfoIR.program tw depth 4 m.heap [.rtype t])) :
    GetTypeInfoErr (extOfTypeInfo tw depth) m t e := by
  obtain ⟨h', v, hr, habs⟩ := h
  exact ⟨h', v, by simp [extOfTypeInfo, hr], habs⟩

/-- `Marshal` passes an error of `getTypeInfo` on. -/
theorem marshal_getTypeInfo_error (w : World) (hidx : IndexAnyInvalidSpec w.indexAnyInvalid) (hmt : MarshalTextSpec w.marshalText)
    (d : Nat) (m : Mem) (t : RType) (fs : List GVal) (sn : String) (e : TagErr) (hkind : t.kind = .structRef sn)
    (hfuel : t.depth < w.fuel) (hget : GetTypeInfoErr w.ext m t e) :
    ∃ m' v, callIn program w (d + 3) 0 m [.iface t (ptrChain t.depth (.struct fs))] = .ok (m', [.str [], v]) ∧
      absErr m'.heap v = some (.tag e) := by
  obtain ⟨heap', v, hext, habs⟩ := hget
  refine ⟨{ m with heap := heap' }, .tiErr v, ?_, by simp [absErr, habs]⟩
  rw [callIn_succ program w (d + 2) 0 m _ marshalTopIR (by rfl), execProc_eq _ _ _ _ (by rfl)]
  have hs := callSpecs_callIn w hidx hmt d
  have hind : (w.ctx (callIn program w (d + 2))).call 3 m [.rv t (ptrChain t.depth (.struct fs)) false] =
      .ok (m, [.rv ⟨0, t.kind, t.typeName, t.mt, t.ut⟩ (.struct fs) false]) := hs.indirect.1 m t (.struct fs) false hfuel
  have hkn : valKindNum ⟨0, t.kind, t.typeName, t.mt, t.ut⟩ (.struct fs) = .ok 25 := valKindNum_struct _ _ sn rfl hkind
  have hext' : (w.ctx (callIn program w (d + 2))).ext "getTypeInfo" m [.rtype t] = .ok ({ m with heap := heap' }, [.nil, .tiErr v]) := hext
  show procResult (exec _ marshalTopIR.body m
    [.iface t (ptrChain t.depth (.struct fs)), .undef, .undef, .undef, .undef, .undef, .undef, .undef, .undef, .undef, .undef, .undef,
      .undef, .undef, .undef, .undef, .undef, .undef, .undef]) = _
  simp only [marshalTopIR]
  ci_simp [hind, hkn, hext']

/-- **`Marshal` = `Codec.marshal (typeInfoOf structs n)`**, with no assumption about `getTypeInfo` beyond "cold cache":
the external function is the regenerated type-info program under any sorted-permutation behaviour of `sort.Slice`.
Domain of `getTypeInfo_cold_eq_typeInfoOf_exact` (embedding depth < 8, every embedded struct described and `T`/`*T`,
call depth > 18, loop bound above the sizes) + the domain of `marshal_eq_model`. -/
theorem marshal_eq_model_typeInfoOf (w : World) (tw : TIIR.World) (hgood : TIIR.Field.GoodSort tw.sort) (depth : Nat)
    (hext : w.ext = extOfTypeInfo tw depth) (hst : tw.structs = w.structs)
    (hidx : IndexAnyInvalidSpec w.indexAnyInvalid) (hmt : MarshalTextSpec w.marshalText)
    (d : Nat) (m : Mem) (t : RType) (fs : List GVal) (vals : Vals) (n : String) (s : GoStruct)
    (hk : t.kind = .structRef n) (hl : Codec.lookupStruct tw.structs n = some s)
    (hfit : TIIR.fitsFuel tw.structs 8 s = true) (hemb : TIIR.Top.EmbedPtrOk tw.structs)
    (hdepth : 18 < depth) (ht : t.depth < tw.fuel) (h8 : 8 < tw.fuel)
    (hsz : ∀ s' ∈ tw.structs, s'.fields.length < tw.fuel ∧ ∀ f ∈ s'.fields, f.ptrDepth < tw.fuel ∧ f.tag.length < tw.fuel)
    (hlen : (rawFields tw.structs 8 s).length < tw.fuel) (hfuel : t.depth < w.fuel) :
    match typeInfoOf w.structs n with
    | .ok ti => RepStruct w.structs t fs ti vals → BoundsW w t ti →
        ∃ m', MarshalPost m' (Codec.marshal ti vals) (callIn program w (d + 3) 0 m [.iface t (ptrChain t.depth (.struct fs))])
    | .error e => ∃ m' v, callIn program w (d + 3) 0 m [.iface t (ptrChain t.depth (.struct fs))] = .ok (m', [.str [], v]) ∧
        absErr m'.heap v = some (.tag e) := by
  have hcold := TypeInfoIR.getTypeInfo_cold_eq_typeInfoOf_exact tw hgood depth m.heap t n s hk hl hfit hemb hdepth ht h8 hsz hlen
  rw [hst] at hcold
  cases hti : typeInfoOf w.structs n with
  | ok ti =>
    rw [hti] at hcold
    intro hrep hb
    exact marshal_eq_model w hidx hmt d m t fs ti vals (hext ▸ getTypeInfoOk_of_coldPost tw depth m t ti hcold) hrep hb
  | error e =>
    rw [hti] at hcold
    exact marshal_getTypeInfo_error w hidx hmt d m t fs n e hk hfuel (hext ▸ getTypeInfoErr_of_coldPost tw depth m t e hcold)

#print axioms getTypeInfoOk_of_coldPost
#print axioms getTypeInfoErr_of_coldPost
#print axioms marshal_getTypeInfo_error
#print axioms marshal_eq_model_typeInfoOf

end GoCrypt.CodecIR
