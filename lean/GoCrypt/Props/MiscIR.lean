import GoCrypt.Proofs.MiscIRCtor
import GoCrypt.Proofs.MiscIRCodec
import GoCrypt.Proofs.MiscIRRand
import GoCrypt.Model.Codec

/-!
# Alphabets and entropy: `internal/hashutil`, `internal/cryptoutil.Rand`, `sha1.randRounds` as regenerated programs

`gogen` (miscir.go) re-translates, on every run, the bodies of

* `hashutil.NewEncoding`, `Encoding.Rand`, `Encoding.Encode`, `Encoding.Decode`, `Encoding.IndexAnyInvalid`
  and the initialisers of the package variables `HashEncoding`, `Base64Encoding` (`internal/hashutil/hashutil.go`),
* `cryptoutil.Rand` (`internal/cryptoutil/cryptoutil.go`; `Permute` is covered by `Props/KdfIR.lean`),
* `sha1.randRounds` (`sha1/sha1.go`)

into stream-IR programs (`Gen/MiscIR.lean`; interpreter `Base/StreamIRBase.lean`, unchanged). The theorems below say
what interpreting those programs gives, for EVERY input in the stated domain (the interpreter's third outcome
`stuck` never equals either side), and tie the results to what the hand-written models use:
`Scheme.randSymbols` (salt symbols), `Codec.hashDecode`, `Codec.firstInvalid`, `Gen.sha1.randRounds`.

WHAT IS TRUSTED. The Go library operations these bodies call (`make`, `crypto/rand.Reader`, `rand.Read`,
`rand.Int` for `max = 64`, `big.NewInt`, `(*big.Int).Uint64`, `binary.BigEndian.Uint32`) are described in
`Base/MiscIRBase.lean` (`miscLib rk`; read its header). The entropy source is external object number `rk`, a
scripted reader `Ext.reader script sticky reads` — the scripted `io.Reader` of the stream decoder theorems.

ENTROPY SCRIPTS. The theorems take a reader whose FIRST script entry `⟨e, er⟩` holds the entropy `e` ("at least
`n` bytes available" is `n ≤ e.length`); `consumed e er rest sticky reads m calls` is the reader after `m` bytes of it
were taken by `calls` `Read` calls: the entry shrinks to `e.drop m`; when it is used up exactly it is removed (its
error `er`, if any, becomes the sticky error; that last read itself succeeds, as in Go); `m = 0` leaves the reader
untouched. ON EXHAUSTION (`script = []`) the reader answers `(0, sticky)`: with `sticky = some c` every function
below that needs at least one byte PANICS (`*_panics_exhausted`); with `sticky = none` Go's `io.ReadFull` would spin
forever and the interpreter is `stuck`.

How a `hashutil.Encoding` sits in the world: `HEncAt H O a b al` — object `a` is `hEncObj b al` = the struct
`{encoder: al, encMax: len(al), decodeMap: buffer b}` and heap buffer `b` holds `decodeTable al`. Methods have VALUE
receivers: each call first copies the struct (one fresh object, one fresh 256-byte buffer), so result worlds are
`⟨H ++ […], O ++ [hEncObj H.length al], …⟩`; everything that existed before is untouched.
Property theorems only; lemmas are in `Proofs/MiscIR*.lean`.
-/

namespace GoCrypt.MiscIR
open GoCrypt GoCrypt.SIR
open GoCrypt.B64IR (Buf Heap Slice Res sliceBytes)
open GoCrypt.Gen.miscIR

/-! ## (e) Nothing was left untranslated -/

/-- No `unknown` node in any regenerated body: every statement and expression of the nine Go functions has an IR form. -/
theorem no_unknown_nodes :
    hashutil.program.procs.map (·.2.body.unknowns) = [0, 0, 0, 0, 0] ∧
    cryptoutil.program.procs.map (·.2.body.unknowns) = [0] ∧
    sha1.program.procs.map (·.2.body.unknowns) = [0] := by decide

/-- Every function the regenerated bodies call is one of the library operations `miscLib` describes (none calls
another translated function), and the package variables are initialised by translated functions. -/
theorem calls_are_described :
    (∀ p ∈ hashutil.program.procs ++ cryptoutil.program.procs ++ sha1.program.procs,
      ∀ f ∈ p.2.body.callees, f ∈ miscLibOperations) ∧
    libraryOperations = miscLibOperations ∧
    hashutil.packageVars.map (·.fn) = ["NewEncoding", "NewEncoding"] := by decide

/-! ## (a) `NewEncoding` and the package variables -/

/-- `hashutil.NewEncoding(al)` as regenerated from the Go source (`&Encoding{…}`, `big.NewInt`, the `0xFF` loop, the
table loop), for EVERY alphabet `al` (any length below 2^63 − 1, duplicates allowed), in every world: it returns a
pointer to ONE fresh object — `encoder` = `al`, `encMax` = `len(al)`, `decodeMap` = a fresh buffer holding
`decodeTable al` — and touches nothing else. It never panics. -/
theorem newEncoding_ir_eq_model (rk : Nat) (al : Bytes) (hal : al.length < 9223372036854775807)
    (H : Heap) (O : List Obj) (X : List Ext) :
    interp hashutil.program (miscLib rk) "NewEncoding" ⟨H, O, X⟩ [.str al] =
      .ok (⟨H ++ [(decodeTable al).toArray], O ++ [hEncObj H.length al], X⟩, [.ptr O.length]) := by
  rw [interp_mctx _ rk _ _ _ _ (by rfl : List.lookup "NewEncoding" hashutil.program.procs = some hashutil.newEncodingIR)]
  exact HU.newEncoding_proc rk H O X al hal

/-- … and in the world it returns, the new object is an `Encoding` of `al` in the sense every theorem below assumes. -/
theorem newEncoding_ir_hEncAt (al : Bytes) (H : Heap) (O : List Obj) :
    HEncAt (H ++ [(decodeTable al).toArray]) (O ++ [hEncObj H.length al]) O.length H.length al :=
  hEncAt_fresh H O al

/-- The table has 256 entries; a byte that does not occur in the alphabet has entry `0xFF`. -/
theorem decodeTable_outside (al : Bytes) (x : UInt8) (hx : x ∉ al) :
    (decodeTable al).length = 256 ∧ (decodeTable al).getD x.toNat 0 = 255 :=
  ⟨decodeTable_length al, decodeTable_not_mem al x hx⟩

/-- `decodeMap[al[i]] = byte(i)` for the LAST position `i` of each byte (a later duplicate wins, as in the Go loop). -/
theorem decodeTable_inside (al : Bytes) (i : Nat) (hi : i < al.length)
    (hlast : ∀ j (hj : j < al.length), i < j → al[j] ≠ al[i]) :
    (decodeTable al).getD (al[i]).toNat 0 = UInt8.ofNat i :=
  decodeTable_last al i hi hlast

/-- For an alphabet of at most 255 symbols the entry is `0xFF` EXACTLY for the bytes outside the alphabet. (With 256 or
more symbols position 255 would be stored as `0xFF` too — the Go code has the same ambiguity.) -/
theorem decodeTable_ff_iff (al : Bytes) (hal : al.length ≤ 255) (x : UInt8) :
    (decodeTable al).getD x.toNat 0 = 255 ↔ x ∉ al :=
  decodeTable_eq_255_iff al hal x

set_option maxRecDepth 1000000 in
/-- For the crypt(3) alphabet the table is the model's `Codec.hashDecode`, entry by entry. -/
theorem decodeTable_hash :
    decodeTable Codec.hashAlphabet = (List.range 256).map fun c => UInt8.ofNat (Codec.hashDecode (UInt8.ofNat c)) := by
  decide

set_option maxRecDepth 1000000 in
/-- For the base64 alphabet the table is "index in the alphabet, else `0xFF`", entry by entry. -/
theorem decodeTable_base64 :
    decodeTable Codec.base64Alphabet = (List.range 256).map fun c =>
      UInt8.ofNat (match Codec.base64Alphabet.idxOf? (UInt8.ofNat c) with | some i => i | none => 255) := by
  decide

/-- The package variables `HashEncoding = NewEncoding(encoderHash)`, `Base64Encoding = NewEncoding(encoderBase64)`, as
regenerated (variable, function, constant argument — `packageVars`), run in source order: two fresh objects, the
`Encoding`s of the two alphabets of `Gen/Consts.lean` (the ones `Codec.hashAlphabet` / `Codec.base64Alphabet` are). -/
theorem packageVars_ir (rk : Nat) (H : Heap) (O : List Obj) (X : List Ext) :
    initVars hashutil.program (miscLib rk) hashutil.packageVars ⟨H, O, X⟩ =
      .ok (⟨H ++ [(decodeTable Codec.hashAlphabet).toArray, (decodeTable Codec.base64Alphabet).toArray],
          O ++ [hEncObj H.length Codec.hashAlphabet, hEncObj (H.length + 1) Codec.base64Alphabet], X⟩,
        [("HashEncoding", .ptr O.length), ("Base64Encoding", .ptr (O.length + 1))]) := by
  have hv : hashutil.packageVars =
      [⟨"HashEncoding", "NewEncoding", [.str Codec.hashAlphabet]⟩, ⟨"Base64Encoding", "NewEncoding", [.str Codec.base64Alphabet]⟩] := rfl
  rw [hv]
  simp only [initVars]
  rw [newEncoding_ir_eq_model rk Codec.hashAlphabet (by decide)]
  simp only
  rw [newEncoding_ir_eq_model rk Codec.base64Alphabet (by decide)]
  simp [List.append_assoc]

/-- In that world both variables are `Encoding`s (`HashEncoding` = object `O.length`, `Base64Encoding` = the next one). -/
theorem packageVars_hEncAt (H : Heap) (O : List Obj) :
    HEncAt (H ++ [(decodeTable Codec.hashAlphabet).toArray, (decodeTable Codec.base64Alphabet).toArray])
        (O ++ [hEncObj H.length Codec.hashAlphabet, hEncObj (H.length + 1) Codec.base64Alphabet]) O.length H.length Codec.hashAlphabet ∧
      HEncAt (H ++ [(decodeTable Codec.hashAlphabet).toArray, (decodeTable Codec.base64Alphabet).toArray])
        (O ++ [hEncObj H.length Codec.hashAlphabet, hEncObj (H.length + 1) Codec.base64Alphabet]) (O.length + 1) (H.length + 1)
        Codec.base64Alphabet := by
  constructor
  · have := (hEncAt_fresh H O Codec.hashAlphabet).append [(decodeTable Codec.base64Alphabet).toArray]
      [hEncObj (H.length + 1) Codec.base64Alphabet]
    simpa [List.append_assoc] using this
  · have := hEncAt_fresh (H ++ [(decodeTable Codec.hashAlphabet).toArray]) (O ++ [hEncObj H.length Codec.hashAlphabet])
      Codec.base64Alphabet
    simpa [List.append_assoc] using this

/-! ## (b) `Encode`, `Decode`, `IndexAnyInvalid` -/

/-- `enc.Encode(c)` as regenerated: `alphabet[c]`, or `0xFF` when `c` is not an index of the alphabet — for every
alphabet and every byte `c`. (The value receiver is copied first: one fresh object and buffer, nothing else changes.) -/
theorem encode_ir_eq_model (rk : Nat) {H : Heap} {O : List Obj} {a b : Nat} {al : Bytes} (he : HEncAt H O a b al)
    (X : List Ext) (c : UInt8) :
    interp hashutil.program (miscLib rk) "Encoding.Encode" ⟨H, O, X⟩ [.ptr a, .int c.toNat] =
      .ok (⟨H ++ [(decodeTable al).toArray], O ++ [hEncObj H.length al], X⟩, [.int (al.getD c.toNat 255).toNat]) := by
  rw [interp_mctx _ rk _ _ _ _ (by rfl : List.lookup "Encoding.Encode" hashutil.program.procs = some hashutil.encodeIR)]
  exact HU.encode_proc _ H O X a b al he c

/-- `enc.Decode(c)` as regenerated: the table entry of `c`. -/
theorem decode_ir_eq_table (rk : Nat) {H : Heap} {O : List Obj} {a b : Nat} {al : Bytes} (he : HEncAt H O a b al)
    (X : List Ext) (c : UInt8) :
    interp hashutil.program (miscLib rk) "Encoding.Decode" ⟨H, O, X⟩ [.ptr a, .int c.toNat] =
      .ok (⟨H ++ [(decodeTable al).toArray], O ++ [hEncObj H.length al], X⟩,
        [.int ((decodeTable al).getD c.toNat 0).toNat]) := by
  rw [interp_mctx _ rk _ _ _ _ (by rfl : List.lookup "Encoding.Decode" hashutil.program.procs = some hashutil.decodeIR)]
  exact HU.decode_proc _ H O X a b al he c

/-- The table entry of `c` for the crypt(3) alphabet is the model's `Codec.hashDecode c` (index of `c`, or 255). -/
theorem hash_table_entry (c : UInt8) : ((decodeTable Codec.hashAlphabet).getD c.toNat 0).toNat = Codec.hashDecode c := by
  have hlt : Codec.hashDecode c < 256 := by
    unfold Codec.hashDecode
    cases h : Codec.hashAlphabet.idxOf? c with
    | none => simp
    | some i =>
      have := (List.findIdx?_eq_some_iff_getElem.mp h).1
      have hl : Codec.hashAlphabet.length = 64 := by decide
      simp; omega
  rw [decodeTable_hash]
  simp [List.getD_eq_getElem?_getD, c.toNat_lt, UInt8.ofNat_toNat, Nat.mod_eq_of_lt hlt]

/-- `HashEncoding.Decode(c)` as regenerated is the model's `Codec.hashDecode c`. -/
theorem decode_ir_hash_eq_model (rk : Nat) {H : Heap} {O : List Obj} {a b : Nat} (he : HEncAt H O a b Codec.hashAlphabet)
    (X : List Ext) (c : UInt8) :
    interp hashutil.program (miscLib rk) "Encoding.Decode" ⟨H, O, X⟩ [.ptr a, .int c.toNat] =
      .ok (⟨H ++ [(decodeTable Codec.hashAlphabet).toArray], O ++ [hEncObj H.length Codec.hashAlphabet], X⟩,
        [.int (Codec.hashDecode c)]) := by
  rw [decode_ir_eq_table rk he X c, hash_table_entry]

/-- `enc.IndexAnyInvalid(b)` as regenerated, for a slice `b` that holds the bytes `bs` (any window of any buffer; its
length below 2^63 − 1, as every Go slice): the index of the first byte whose table entry is `0xFF`, or `-1`
(`HU.firstBad`). The slice and everything else are unchanged. -/
theorem indexAnyInvalid_ir_eq_model (rk : Nat) {H : Heap} {O : List Obj} {a b : Nat} {al : Bytes} (he : HEncAt H O a b al)
    (X : List Ext) (s : Slice) (bs : Bytes) (hs : sliceBytes H s = some bs) (hlen : s.len < 9223372036854775807) :
    interp hashutil.program (miscLib rk) "Encoding.IndexAnyInvalid" ⟨H, O, X⟩ [.ptr a, .slice s] =
      .ok (⟨H ++ [(decodeTable al).toArray], O ++ [hEncObj H.length al], X⟩, [.int (HU.firstBad al bs)]) := by
  rw [interp_mctx _ rk _ _ _ _ (by rfl : List.lookup "Encoding.IndexAnyInvalid" hashutil.program.procs = some hashutil.indexAnyInvalidIR)]
  exact HU.indexAnyInvalid_proc _ H O X a b al he s bs hs hlen

/-- For an alphabet of at most 255 symbols, that result is the position of the first byte OUTSIDE the alphabet, or `-1`. -/
theorem firstBad_eq (al : Bytes) (hal : al.length ≤ 255) (bs : Bytes) :
    HU.firstBad al bs = match bs.findIdx? (fun c => !al.contains c) with | some i => (i : Int) | none => -1 := by
  have : HU.isBad al = fun c => !al.contains c := by
    funext c
    have h := decodeTable_eq_255_iff al hal c
    have hb : ((decodeTable al).getD c.toNat 0 == 255) = true ↔ c ∉ al := by rw [beq_iff_eq]; exact h
    by_cases hc : c ∈ al
    · have h1 : ((decodeTable al).getD c.toNat 0 == 255) = false := by
        cases hv : ((decodeTable al).getD c.toNat 0 == 255) with
        | false => rfl
        | true => exact absurd hc (hb.mp hv)
      have h2 : al.contains c = true := List.contains_iff_mem.mpr hc
      simp only [HU.isBad, h1, h2, Bool.not_true]
    · have h1 : ((decodeTable al).getD c.toNat 0 == 255) = true := hb.mpr hc
      have h2 : al.contains c = false := by
        cases hv : al.contains c with
        | false => rfl
        | true => exact absurd (List.contains_iff_mem.mp hv) hc
      simp only [HU.isBad, h1, h2, Bool.not_false]
  simp only [HU.firstBad, this]
  rfl

/-- The model's `Codec.firstInvalid` (the byte `marshal`/`unmarshal` report) finds a byte exactly when the regenerated
`IndexAnyInvalid` returns a non-negative index, and it is the byte AT that index — for both shipped alphabets. -/
theorem firstInvalid_eq_indexAnyInvalid (k : Codec.EncKind) (al : Bytes) (hk : Codec.alphabetOf k = some al) (bs : Bytes) :
    Codec.firstInvalid k bs = if HU.firstBad al bs < 0 then none else bs[(HU.firstBad al bs).toNat]? := by
  have hal : al.length ≤ 255 := by
    cases k <;> simp [Codec.alphabetOf] at hk <;> subst hk <;> decide
  rw [firstBad_eq al hal]
  simp only [Codec.firstInvalid, hk]
  cases hf : bs.findIdx? (fun c => !al.contains c) with
  | none =>
    have := List.findIdx?_eq_none_iff.mp hf
    simp only [show ((-1 : Int) < 0) from by decide, if_true]
    exact List.find?_eq_none.mpr (fun x hx => by rw [this x hx]; decide)
  | some i =>
    obtain ⟨hi, hp, hlt⟩ := List.findIdx?_eq_some_iff_getElem.mp hf
    have hneg : ¬ ((i : Int) < 0) := by omega
    simp only [hneg, if_false, Int.toNat_natCast, List.getElem?_eq_getElem hi]
    exact List.find?_eq_some_iff_getElem.mpr ⟨hp, i, hi, rfl, fun j hj => by simpa using hlt j hj⟩

/-! ## (c) `Encoding.Rand` -/

/-- `enc.Rand(n)` as regenerated (`make`, the loop around `rand.Int(rand.Reader, enc.encMax)`, `n.Uint64()`), for a
64-symbol alphabet and an entropy reader whose first script entry `e` holds at least `n` bytes, `0 ≤ n < 2^63 − 1`:
it returns a fresh `n`-byte slice holding EXACTLY the model's `Scheme.randSymbols al (e.take n)` (one entropy byte per
symbol, `% 64`), consumes exactly `n` entropy bytes in `n` reads (`consumed … n n`), and does not panic. -/
theorem rand_ir_eq_model (rk : Nat) {H : Heap} {O : List Obj} {a b : Nat} {al : Bytes} (he : HEncAt H O a b al)
    (hal : al.length = 64) (X : List Ext) (e : Bytes) (er : Option Nat) (rest : List ReadResp) (sticky : Option Nat) (reads : Nat)
    (hX : X[rk]? = some (.reader (⟨e, er⟩ :: rest) sticky reads)) (n : Nat) (hn : n ≤ e.length) (hn63 : n < 9223372036854775807) :
    interp hashutil.program (miscLib rk) "Encoding.Rand" ⟨H, O, X⟩ [.ptr a, .int (n : Int)] =
      .ok (⟨H ++ [(decodeTable al).toArray, (Scheme.randSymbols al (e.take n)).toArray], O ++ [hEncObj H.length al],
          X.set rk (consumed e er rest sticky reads n n)⟩, [.slice ⟨H.length + 1, 0, n, n⟩]) := by
  rw [interp_mctx _ rk _ _ _ _ (by rfl : List.lookup "Encoding.Rand" hashutil.program.procs = some hashutil.randIR)]
  exact HU.rand_proc rk H O X a b al he hal e er rest sticky reads hX n hn hn63

/-- The returned slice reads back as the model's symbols. -/
theorem rand_ir_result_bytes (H : Heap) (al e : Bytes) (n : Nat) (hn : n ≤ e.length) :
    sliceBytes (H ++ [(decodeTable al).toArray, (Scheme.randSymbols al (e.take n)).toArray]) ⟨H.length + 1, 0, n, n⟩ =
      some (Scheme.randSymbols al (e.take n)) := by
  have hl : (Scheme.randSymbols al (e.take n)).length = n := by simp [Scheme.randSymbols]; omega
  exact sliceBytes_whole_n _ _ n _ (get_append2_1 _ _ _) hl

/-- `enc.Rand(n)` panics for negative `n` (`make` panics) … -/
theorem rand_ir_panics_negative (rk : Nat) {H : Heap} {O : List Obj} {a b : Nat} {al : Bytes} (he : HEncAt H O a b al)
    (X : List Ext) (n : Int) (hn : n < 0) :
    interp hashutil.program (miscLib rk) "Encoding.Rand" ⟨H, O, X⟩ [.ptr a, .int n] = .panic := by
  rw [interp_mctx _ rk _ _ _ _ (by rfl : List.lookup "Encoding.Rand" hashutil.program.procs = some hashutil.randIR)]
  exact HU.rand_proc_neg rk H O X a b al he n hn

/-- … and when the entropy source reports an error: an exhausted reader with sticky error `c` and `n ≥ 1`. -/
theorem rand_ir_panics_exhausted (rk : Nat) {H : Heap} {O : List Obj} {a b : Nat} {al : Bytes} (he : HEncAt H O a b al)
    (hal : al.length = 64) (X : List Ext) (c reads : Nat) (hX : X[rk]? = some (.reader [] (some c) reads))
    (n : Nat) (hn : 0 < n) :
    interp hashutil.program (miscLib rk) "Encoding.Rand" ⟨H, O, X⟩ [.ptr a, .int (n : Int)] = .panic := by
  rw [interp_mctx _ rk _ _ _ _ (by rfl : List.lookup "Encoding.Rand" hashutil.program.procs = some hashutil.randIR)]
  exact HU.rand_proc_exhausted rk H O X a b al he hal c reads hX n hn

/-- "Panics iff the entropy source reports an error", the other direction for the harness-shaped reader `[⟨e, some c⟩]`
(entropy `e`, then error `c`): when `e` is non-empty but shorter than `n`, the first `e.length` draws succeed, the next
`rand.Int` returns the error and `Rand` panics. With `rand_ir_eq_model`: on such a reader `Rand(n)`, `0 ≤ n`, panics
exactly when `n > e.length`. -/
theorem rand_ir_panics_short (rk : Nat) {H : Heap} {O : List Obj} {a b : Nat} {al : Bytes} (he : HEncAt H O a b al)
    (hal : al.length = 64) (X : List Ext) (e : Bytes) (c : Nat) (sticky : Option Nat) (reads : Nat)
    (hX : X[rk]? = some (.reader [⟨e, some c⟩] sticky reads)) (he0 : 0 < e.length) (n : Nat) (hn : e.length < n)
    (hn63 : n < 9223372036854775807) :
    interp hashutil.program (miscLib rk) "Encoding.Rand" ⟨H, O, X⟩ [.ptr a, .int (n : Int)] = .panic := by
  rw [interp_mctx _ rk _ _ _ _ (by rfl : List.lookup "Encoding.Rand" hashutil.program.procs = some hashutil.randIR)]
  exact HU.rand_proc_short rk H O X a b al he hal e c sticky reads hX he0 n hn hn63

/-- Both shipped alphabets have 64 symbols (so `encMax = 64`, the case `rand.Int` is described for, and `rand_ir_eq_model`
applies to `HashEncoding` and `Base64Encoding`). -/
theorem shipped_alphabets_64 : Codec.hashAlphabet.length = 64 ∧ Codec.base64Alphabet.length = 64 := by decide

/-! ## (d) `cryptoutil.Rand` and `sha1.randRounds` -/

/-- `cryptoutil.Rand(n)` as regenerated (`make`, `rand.Read`), `0 ≤ n ≤ e.length`: a fresh `n`-byte slice holding the
next `n` entropy bytes `e.take n`, consumed in ONE read (none for `n = 0`); no panic. -/
theorem cryptoutil_rand_ir_eq_model (rk : Nat) (H : Heap) (O : List Obj) (X : List Ext) (e : Bytes) (er : Option Nat)
    (rest : List ReadResp) (sticky : Option Nat) (reads : Nat) (hX : X[rk]? = some (.reader (⟨e, er⟩ :: rest) sticky reads))
    (n : Nat) (hn : n ≤ e.length) :
    interp cryptoutil.program (miscLib rk) "Rand" ⟨H, O, X⟩ [.int (n : Int)] =
      .ok (⟨H ++ [(e.take n).toArray], O, X.set rk (consumed e er rest sticky reads n 1)⟩, [.slice ⟨H.length, 0, n, n⟩]) := by
  rw [interp_mctx _ rk _ _ _ _ (by rfl : List.lookup "Rand" cryptoutil.program.procs = some cryptoutil.randIR)]
  exact CU.rand_proc rk H O X e er rest sticky reads hX n hn

/-- `cryptoutil.Rand(n)` panics for negative `n` and, for `n ≥ 1`, on an exhausted reader with a sticky error. -/
theorem cryptoutil_rand_ir_panics (rk : Nat) (H : Heap) (O : List Obj) (X : List Ext) :
    (∀ n : Int, n < 0 → interp cryptoutil.program (miscLib rk) "Rand" ⟨H, O, X⟩ [.int n] = .panic) ∧
    (∀ (c reads n : Nat), X[rk]? = some (.reader [] (some c) reads) → 0 < n →
      interp cryptoutil.program (miscLib rk) "Rand" ⟨H, O, X⟩ [.int (n : Int)] = .panic) := by
  constructor
  · intro n hn
    rw [interp_mctx _ rk _ _ _ _ (by rfl : List.lookup "Rand" cryptoutil.program.procs = some cryptoutil.randIR)]
    exact CU.rand_proc_neg rk _ n hn
  · intro c reads n hX hn
    rw [interp_mctx _ rk _ _ _ _ (by rfl : List.lookup "Rand" cryptoutil.program.procs = some cryptoutil.randIR)]
    exact CU.rand_proc_exhausted rk H O X c reads hX n hn

/-- `sha1.randRounds()` as regenerated (`var b [4]byte`, `rand.Read(b[:])`, `binary.BigEndian.Uint32`, the `uint32`
arithmetic) on an entropy reader whose first script entry starts with the bytes `a b c d`: it returns the generated
kernel `Gen.sha1.randRounds w` — the function the model calls — for the big-endian word `w` of those four bytes,
and consumes exactly those four bytes in one read. -/
theorem randRounds_ir_eq_model (rk : Nat) (H : Heap) (O : List Obj) (X : List Ext) (a b c d : UInt8) (e' : Bytes)
    (er : Option Nat) (rest : List ReadResp) (sticky : Option Nat) (reads : Nat)
    (hX : X[rk]? = some (.reader (⟨a :: b :: c :: d :: e', er⟩ :: rest) sticky reads)) :
    interp sha1.program (miscLib rk) "randRounds" ⟨H, O, X⟩ [] =
      .ok (⟨H ++ [[a, b, c, d].toArray], O, X.set rk (consumed (a :: b :: c :: d :: e') er rest sticky reads 4 1)⟩,
        [.int ((Gen.sha1.randRounds (S1.be32 a b c d) : Nat) : Int)]) := by
  rw [interp_mctx _ rk _ _ _ _ (by rfl : List.lookup "randRounds" sha1.program.procs = some sha1.randRoundsIR)]
  exact S1.randRounds_proc rk H O X a b c d e' er rest sticky reads hX

/-- The word is a 32-bit value, so `Props/C15.lean`'s `sha1_randRounds_window` applies to the result: 18511 … 24680. -/
theorem randRounds_ir_window (a b c d : UInt8) :
    18511 ≤ Gen.sha1.randRounds (S1.be32 a b c d) ∧ Gen.sha1.randRounds (S1.be32 a b c d) ≤ 24680 := by
  have := S1.be32_lt a b c d
  unfold Gen.sha1.randRounds
  omega

/-- `sha1.randRounds()` panics on an exhausted reader with a sticky error. -/
theorem randRounds_ir_panics_exhausted (rk : Nat) (H : Heap) (O : List Obj) (X : List Ext) (c reads : Nat)
    (hX : X[rk]? = some (.reader [] (some c) reads)) :
    interp sha1.program (miscLib rk) "randRounds" ⟨H, O, X⟩ [] = .panic := by
  rw [interp_mctx _ rk _ _ _ _ (by rfl : List.lookup "randRounds" sha1.program.procs = some sha1.randRoundsIR)]
  exact S1.randRounds_proc_exhausted rk H O X c reads hX

/-- Too little entropy followed by an error (`⟨e, some c⟩` with `e.length` below the request): `cryptoutil.Rand(n)` and
`sha1.randRounds()` panic. -/
theorem read_short_ir_panics (rk : Nat) (H : Heap) (O : List Obj) (X : List Ext) (e : Bytes) (c : Nat) (rest : List ReadResp)
    (sticky : Option Nat) (reads : Nat) (hX : X[rk]? = some (.reader (⟨e, some c⟩ :: rest) sticky reads)) :
    (∀ n : Nat, e.length < n → interp cryptoutil.program (miscLib rk) "Rand" ⟨H, O, X⟩ [.int (n : Int)] = .panic) ∧
    (e.length < 4 → interp sha1.program (miscLib rk) "randRounds" ⟨H, O, X⟩ [] = .panic) := by
  constructor
  · intro n hn
    rw [interp_mctx _ rk _ _ _ _ (by rfl : List.lookup "Rand" cryptoutil.program.procs = some cryptoutil.randIR)]
    exact CU.rand_proc_short rk H O X e c rest sticky reads hX n hn
  · intro he
    rw [interp_mctx _ rk _ _ _ _ (by rfl : List.lookup "randRounds" sha1.program.procs = some sha1.randRoundsIR)]
    exact S1.randRounds_proc_short rk H O X e c rest sticky reads hX he

/-! ## The scripted reader of the library description is the one of the stream theorems -/

/-- One `Read(p)` as the library description sees it (`readOnce`, no heap) is the reader clause of `extCall`
(`Base/StreamIRBase.lean`): same bytes into the window, same `(n, err)`, same reader afterwards. -/
theorem readOnce_is_extCall (W : World) (k : Nat) (script : List ReadResp) (sticky : Option Nat) (reads : Nat) (s : Slice)
    (hk : W.exts[k]? = some (.reader script sticky reads))
    (buf : Buf) (hb : W.heap[s.buf]? = some buf) (hin : s.off + s.len ≤ buf.size) :
    extCall W k "Read" [.slice s] =
      match writeSlice W.heap s (readOnce script sticky reads s.len).1 with
      | .ok h' => .ok (⟨h', W.objs, W.exts.set k (readOnce script sticky reads s.len).2.2⟩,
          [.int (readOnce script sticky reads s.len).1.length, .err (readOnce script sticky reads s.len).2.1])
      | .panic => .panic
      | .stuck w => .stuck w :=
  extCall_read_eq W k script sticky reads s hk buf hb hin

/-! ## Examples: the regenerated programs run on concrete inputs -/

private def str (s : String) : Bytes := s.toUTF8.toList
private def alpha : Bytes := str "./0123456789ABCDEFGHIJKLMNOPQRSTUVWXYZabcdefghijklmnopqrstuvwxyz"
/-- entropy `00 01 41 ff 07`, then the error `io.ErrUnexpectedEOF` (2) — the shape of the harness's scripted reader -/
private def ent : Ext := .reader [⟨[0, 1, 65, 255, 7], some 2⟩] none 0
private def W0 : World := ⟨[], [], [ent]⟩
private def lib := miscLib 0
/-- the world after package initialisation -/
private def W1 : World :=
  ⟨[(decodeTable Codec.hashAlphabet).toArray, (decodeTable Codec.base64Alphabet).toArray],
    [hEncObj 0 Codec.hashAlphabet, hEncObj 1 Codec.base64Alphabet], [ent]⟩

-- the struct layout `hEncObj` assumes is the one of the current source; the alphabets are the generated constants
#guard hashutil.EncodingFields == [("encoder", "string"), ("encMax", "*big.Int"), ("decodeMap", "[256]byte")]
#guard hEncObj 7 alpha == ⟨"Encoding", [.str alpha, .int 64, .slice ⟨7, 0, 256, 256⟩]⟩
#guard alpha == Codec.hashAlphabet && Codec.hashAlphabet == Gen.internal_hashutil.encoderHash
#guard hashutil.packageVars.map (·.args) == [[.str Gen.internal_hashutil.encoderHash], [.str Gen.internal_hashutil.encoderBase64]]
-- package initialisation
#guard initVars hashutil.program lib hashutil.packageVars W0 == .ok (W1, [("HashEncoding", .ptr 0), ("Base64Encoding", .ptr 1)])
-- '.' ↦ 0, '/' ↦ 1, 'z' ↦ 63, '=' ↦ 0xFF; base64: 'A' ↦ 0, '/' ↦ 63
#guard (decodeTable alpha).getD 46 0 == 0 && (decodeTable alpha).getD 47 0 == 1 && (decodeTable alpha).getD 122 0 == 63 &&
  (decodeTable alpha).getD 61 0 == 255 && (decodeTable Codec.base64Alphabet).getD 65 0 == 0 && (decodeTable Codec.base64Alphabet).getD 47 0 == 63
-- a repeated byte: the LATER position wins; a 300-symbol alphabet: positions are stored mod 256
#guard (match interp hashutil.program lib "NewEncoding" W0 [.str (str "abca")] with
  | .ok (W, _) => (W.heap.getD 0 #[]).getD 97 0 == 3 && (W.heap.getD 0 #[]).getD 98 0 == 1 && (W.heap.getD 0 #[]).getD 100 0 == 255
  | _ => false)
#guard (match interp hashutil.program lib "NewEncoding" W0 [.str (List.replicate 299 65 ++ [66])] with
  | .ok (W, _) => (W.heap.getD 0 #[]).getD 66 0 == 43 && (W.heap.getD 0 #[]).getD 65 0 == 42
  | _ => false)
-- Encode / Decode
#guard (match interp hashutil.program lib "Encoding.Encode" W1 [.ptr 0, .int 5] with | .ok (_, vs) => vs == [.int 51] | _ => false)
#guard (match interp hashutil.program lib "Encoding.Encode" W1 [.ptr 0, .int 64] with | .ok (_, vs) => vs == [.int 255] | _ => false)
#guard (match interp hashutil.program lib "Encoding.Decode" W1 [.ptr 0, .int 122] with | .ok (_, vs) => vs == [.int 63] | _ => false)
#guard (match interp hashutil.program lib "Encoding.Decode" W1 [.ptr 1, .int 122] with | .ok (_, vs) => vs == [.int 51] | _ => false)
#guard (match interp hashutil.program lib "Encoding.Decode" W1 [.ptr 0, .int 36] with | .ok (_, vs) => vs == [.int 255] | _ => false)
-- IndexAnyInvalid("AB!C") = 2, ("ABC") = -1, on a window inside a larger buffer
#guard (match interp hashutil.program lib "Encoding.IndexAnyInvalid" ⟨W1.heap ++ [#[0, 65, 66, 33, 67, 0]], W1.objs, W1.exts⟩ [.ptr 0, .slice ⟨2, 1, 4, 5⟩] with
  | .ok (_, vs) => vs == [.int 2] | _ => false)
#guard (match interp hashutil.program lib "Encoding.IndexAnyInvalid" ⟨W1.heap ++ [#[0, 65, 66, 67, 33]], W1.objs, W1.exts⟩ [.ptr 0, .slice ⟨2, 1, 3, 4⟩] with
  | .ok (_, vs) => vs == [.int (-1)] | _ => false)
#guard HU.firstBad alpha (str "AB!C") == 2 && Codec.firstInvalid .hash (str "AB!C") == some 33 && HU.firstBad alpha (str "ABC") == -1
-- Rand(4): symbols of 00 01 41 ff, four reads, one byte left; Rand(5) uses the entry up (its error becomes sticky)
#guard (match interp hashutil.program lib "Encoding.Rand" W1 [.ptr 0, .int 4] with
  | .ok (W, vs) => vs == [.slice ⟨3, 0, 4, 4⟩] && W.heap.getD 3 #[] == (str ".//z").toArray && W.exts == [.reader [⟨[7], some 2⟩] none 4]
      && Scheme.randSymbols alpha [0, 1, 65, 255] == str ".//z"
  | _ => false)
#guard (match interp hashutil.program lib "Encoding.Rand" W1 [.ptr 0, .int 5] with
  | .ok (W, _) => W.exts == [.reader [] (some 2) 5] && W.exts == [consumed [0, 1, 65, 255, 7] (some 2) [] none 0 5 5] | _ => false)
-- Rand(6): the sixth draw fails, panic; Rand(-1) panics; Rand(0) reads nothing
#guard interp hashutil.program lib "Encoding.Rand" W1 [.ptr 0, .int 6] == .panic
#guard interp hashutil.program lib "Encoding.Rand" W1 [.ptr 0, .int (-1)] == .panic
#guard (match interp hashutil.program lib "Encoding.Rand" W1 [.ptr 0, .int 0] with | .ok (W, _) => W.exts == [ent] | _ => false)
-- an entropy source that answers (0, nil) forever: Go would spin, the interpreter is stuck
#guard interp hashutil.program lib "Encoding.Rand" ⟨W1.heap, W1.objs, [.reader [] none 0]⟩ [.ptr 0, .int 1] ==
  .stuck "io.ReadFull: the reader makes no progress"
-- rand.Int is described for max = 64 only: an Encoding of a 3-symbol alphabet is stuck in Rand
#guard (match interp hashutil.program lib "NewEncoding" W0 [.str (str "abc")] with
  | .ok (W, [p]) => interp hashutil.program lib "Encoding.Rand" W [p, .int 1] == .stuck "crypto/rand.Int is described for max = 64 only"
  | _ => false)
-- cryptoutil.Rand(3), Rand(0), Rand(6)
#guard interp cryptoutil.program lib "Rand" W0 [.int 3] ==
  .ok (⟨[#[0, 1, 65]], [], [.reader [⟨[255, 7], some 2⟩] none 1]⟩, [.slice ⟨0, 0, 3, 3⟩])
#guard interp cryptoutil.program lib "Rand" W0 [.int 0] == .ok (⟨[#[]], [], [ent]⟩, [.slice ⟨0, 0, 0, 0⟩])
#guard interp cryptoutil.program lib "Rand" W0 [.int 6] == .panic
-- sha1.randRounds on 00 01 41 ff
#guard interp sha1.program lib "randRounds" W0 [] ==
  .ok (⟨[#[0, 1, 65, 255]], [], [.reader [⟨[7], some 2⟩] none 1]⟩, [.int (Gen.sha1.randRounds 82431)])
#guard S1.be32 0 1 65 255 == 82431 && Gen.sha1.randRounds 82431 == 22459
#guard (match interp sha1.program lib "randRounds" ⟨[], [], [.reader [⟨[255, 255, 255, 255], none⟩] none 0]⟩ [] with
  | .ok (_, vs) => vs == [.int 19065] | _ => false)
#guard interp sha1.program lib "randRounds" ⟨[], [], [.reader [⟨[1, 2, 3], some 2⟩] none 0]⟩ [] == .panic

end GoCrypt.MiscIR

#print axioms GoCrypt.MiscIR.no_unknown_nodes
#print axioms GoCrypt.MiscIR.calls_are_described
#print axioms GoCrypt.MiscIR.newEncoding_ir_eq_model
#print axioms GoCrypt.MiscIR.newEncoding_ir_hEncAt
#print axioms GoCrypt.MiscIR.decodeTable_outside
#print axioms GoCrypt.MiscIR.decodeTable_inside
#print axioms GoCrypt.MiscIR.decodeTable_ff_iff
#print axioms GoCrypt.MiscIR.decodeTable_hash
#print axioms GoCrypt.MiscIR.decodeTable_base64
#print axioms GoCrypt.MiscIR.packageVars_ir
#print axioms GoCrypt.MiscIR.packageVars_hEncAt
#print axioms GoCrypt.MiscIR.encode_ir_eq_model
#print axioms GoCrypt.MiscIR.decode_ir_eq_table
#print axioms GoCrypt.MiscIR.hash_table_entry
#print axioms GoCrypt.MiscIR.decode_ir_hash_eq_model
#print axioms GoCrypt.MiscIR.indexAnyInvalid_ir_eq_model
#print axioms GoCrypt.MiscIR.firstBad_eq
#print axioms GoCrypt.MiscIR.firstInvalid_eq_indexAnyInvalid
#print axioms GoCrypt.MiscIR.rand_ir_eq_model
#print axioms GoCrypt.MiscIR.rand_ir_result_bytes
#print axioms GoCrypt.MiscIR.rand_ir_panics_negative
#print axioms GoCrypt.MiscIR.rand_ir_panics_exhausted
#print axioms GoCrypt.MiscIR.rand_ir_panics_short
#print axioms GoCrypt.MiscIR.shipped_alphabets_64
#print axioms GoCrypt.MiscIR.read_short_ir_panics
#print axioms GoCrypt.MiscIR.cryptoutil_rand_ir_eq_model
#print axioms GoCrypt.MiscIR.cryptoutil_rand_ir_panics
#print axioms GoCrypt.MiscIR.randRounds_ir_eq_model
#print axioms GoCrypt.MiscIR.randRounds_ir_window
#print axioms GoCrypt.MiscIR.randRounds_ir_panics_exhausted
#print axioms GoCrypt.MiscIR.readOnce_is_extCall
