import GoCrypt.Proofs.KdfIRSha1
import GoCrypt.Model.Scheme
import GoCrypt.Gen.Tables

/-!
# The hand-written KDF models are what the Go source computes (hash-transcript IR)

`gogen` (kdfir.go) re-translates `md5crypt.Encrypt`, `sha2crypt.Encrypt`, the hashing part of
`sha1.Key` and every function of the module they call (`newHash`, `sum`, `duplicate`,
`cryptoutil.Permute`) into the small structured
programs of `Gen/KdfIR.lean` on every run; `Base/HashIR.lean` interprets such programs for an
arbitrary hash function `H`. The theorems below state that interpreting the regenerated programs
gives exactly the hand-written models of `Model/Kdf/Hashed.lean` — for all inputs and all `H`,
panics included (`ofModel none = panic`; the interpreter's third outcome `stuck` — unknown node,
exhausted loop bound, … — never equals either side). Property theorems only; the lemmas are in
`Proofs/KdfIR*.lean`.

FINDING recorded here (`sha2crypt_ir_zero_rounds`): for `rounds = 0` the Go function returns the
permuted digest of the repeated PASSWORD alone (the variable `dp` is reused for the running digest
and is never overwritten when the loop body does not run), whereas `sha2cryptEncrypt` returns the
permuted digest A. `sha256.Key`/`sha512.Key` reject `rounds < 1000`, so only direct callers of the
exported `sha2crypt.Encrypt` can observe it; the equality theorem therefore assumes `0 < rounds`.
-/

namespace GoCrypt.KdfIR
open GoCrypt.HashIR GoCrypt.Kdf GoCrypt.Scheme

/-- A regenerated `[N]byte` table as the `[]byte` the IR programs take as argument. -/
def tableBytes (t : Array Nat) : Bytes := t.toList.map UInt8.ofNat

/-! ## md5-crypt -/

/-- `md5crypt.Encrypt(password, salt, prefix)` as regenerated from the Go source, run with ANY hash
function `H` (of any output size), is the hand model `md5cryptEncrypt` with the regenerated table —
the arguments with which `Scheme.md5.derive` calls it. -/
theorem md5crypt_ir_eq_model (H : Bytes → Bytes) (HM : Bytes → Bytes → Bytes) (size : Nat) (pw salt pfx : Bytes) :
    interp H HM size Gen.md5_md5crypt.kdfProgram Gen.md5_md5crypt.kdfEntry [.bytes pw, .bytes salt, .bytes pfx] =
      ofModel (md5cryptEncrypt H (permNat Gen.md5_md5crypt.permFinal) pw salt pfx) :=
  md5_encrypt_proc _ (md5_calls H HM size 1) pw salt pfx

/-! ## SHA-crypt -/

/-- `sha2crypt.Encrypt(h, password, salt, rounds, permutation)` as regenerated from the Go source,
for a supported hash id (`crypto.SHA256 = 5`, `crypto.SHA512 = 7`), a hash function `H` whose
digests have `size > 0` bytes and `0 < rounds < 2^32` (a `uint32`), is the hand model
`sha2cryptEncrypt`; `duplicate`, the `rounds` loop and `Permute` included. -/
theorem sha2crypt_ir_eq_model (H : Bytes → Bytes) (HM : Bytes → Bytes → Bytes) (size : Nat) (hid : Int) (pw salt perm : Bytes) (rounds : Nat)
    (hs : 0 < size) (hH : ∀ x, (H x).length = size) (hsup : hid = 5 ∨ hid = 7)
    (hr0 : 0 < rounds) (hr : rounds < 2 ^ 32) :
    interp H HM size Gen.sha256_sha2crypt.kdfProgram Gen.sha256_sha2crypt.kdfEntry
        [.int hid, .bytes pw, .bytes salt, .int rounds, .bytes perm] =
      ofModel (sha2cryptEncrypt H size (perm.map (·.toNat)) pw salt rounds) := by
  rw [← sha2cryptGo_eq_model H size _ pw salt rounds hr0]
  exact sha2_encrypt_proc _ (sha2_calls H HM size hs 2) hs hH hid hsup pw salt perm rounds hr

/-- The instance `Scheme.sha256.derive` uses: `crypto.SHA256`, 32-byte digests, the regenerated table. -/
theorem sha256crypt_ir_eq_model (H : Bytes → Bytes) (HM : Bytes → Bytes → Bytes) (pw salt : Bytes) (rounds : Nat)
    (hH : ∀ x, (H x).length = 32) (hr0 : 0 < rounds) (hr : rounds < 2 ^ 32) :
    interp H HM 32 Gen.sha256_sha2crypt.kdfProgram Gen.sha256_sha2crypt.kdfEntry
        [.int 5, .bytes pw, .bytes salt, .int rounds, .bytes (tableBytes Gen.sha256.permFinal)] =
      ofModel (sha2cryptEncrypt H 32 (permNat Gen.sha256.permFinal) pw salt rounds) := by
  have ht : (tableBytes Gen.sha256.permFinal).map (·.toNat) = permNat Gen.sha256.permFinal := by decide
  rw [← ht]
  exact sha2crypt_ir_eq_model H HM 32 5 pw salt _ rounds (by decide) hH (Or.inl rfl) hr0 hr

/-- The instance `Scheme.sha512.derive` uses: `crypto.SHA512`, 64-byte digests, the regenerated table. -/
theorem sha512crypt_ir_eq_model (H : Bytes → Bytes) (HM : Bytes → Bytes → Bytes) (pw salt : Bytes) (rounds : Nat)
    (hH : ∀ x, (H x).length = 64) (hr0 : 0 < rounds) (hr : rounds < 2 ^ 32) :
    interp H HM 64 Gen.sha256_sha2crypt.kdfProgram Gen.sha256_sha2crypt.kdfEntry
        [.int 7, .bytes pw, .bytes salt, .int rounds, .bytes (tableBytes Gen.sha512.permFinal)] =
      ofModel (sha2cryptEncrypt H 64 (permNat Gen.sha512.permFinal) pw salt rounds) := by
  have ht : (tableBytes Gen.sha512.permFinal).map (·.toNat) = permNat Gen.sha512.permFinal := by decide
  rw [← ht]
  exact sha2crypt_ir_eq_model H HM 64 7 pw salt _ rounds (by decide) hH (Or.inr rfl) hr0 hr

/-- The error return: any other hash id gives `errors.New("unsupported hash")`, whatever the other
arguments. -/
theorem sha2crypt_ir_unsupported_hash (H : Bytes → Bytes) (HM : Bytes → Bytes → Bytes) (size : Nat) (hid : Int) (pw salt perm : Bytes) (rounds : Int)
    (h5 : hid ≠ 5) (h7 : hid ≠ 7) :
    interp H HM size Gen.sha256_sha2crypt.kdfProgram Gen.sha256_sha2crypt.kdfEntry
        [.int hid, .bytes pw, .bytes salt, .int rounds, .bytes perm] = .ok (.err "unsupported hash") :=
  sha2_encrypt_unsupported _ hid h5 h7 pw salt perm rounds

/-- FINDING: with `rounds = 0` the Go function returns `Permute(H(password × len(password)), permutation)`
— not the hand model's `permute da` (see the `#guard` below for a concrete difference). -/
theorem sha2crypt_ir_zero_rounds (H : Bytes → Bytes) (HM : Bytes → Bytes → Bytes) (size : Nat) (hid : Int) (pw salt perm : Bytes)
    (hs : 0 < size) (hH : ∀ x, (H x).length = size) (hsup : hid = 5 ∨ hid = 7) :
    interp H HM size Gen.sha256_sha2crypt.kdfProgram Gen.sha256_sha2crypt.kdfEntry
        [.int hid, .bytes pw, .bytes salt, .int (0 : Nat), .bytes perm] =
      ofModel (permute (H (repeatBytes pw pw.length)) (perm.map (·.toNat))) := by
  rw [← sha2cryptGo_zero H size _ pw salt hs hH]
  exact sha2_encrypt_proc _ (sha2_calls H HM size hs 2) hs hH hid hsup pw salt perm 0 (by decide)

/-! ## SHA1-crypt (the HMAC loop of `sha1.Key`) -/

/-- The hashing part of `sha1.Key` — from `h := hmac.New(sha1.New, password)` to the end, as
regenerated from the Go source — run with ANY keyed function `HM` whose digests have 20 bytes (so
that `h.Sum(b[:0])` overwrites the array `b`), for `1 ≤ rounds < 2^32` (the guards before it enforce
`MinRounds = 1`; `rounds` is a `uint32` counted down), is the hand model `sha1Derive` with the
regenerated table and prefix — the arguments with which `Scheme.sha1.derive` calls it. -/
theorem sha1_ir_eq_model (H : Bytes → Bytes) (HM : Bytes → Bytes → Bytes) (size : Nat) (pw salt : Bytes) (rounds : Nat)
    (hHM : ∀ k m, (HM k m).length = 20) (h1 : 1 ≤ rounds) (hr : rounds < 2 ^ 32) :
    interp H HM size Gen.sha1.kdfProgram Gen.sha1.kdfEntry [.bytes pw, .bytes salt, .int rounds] =
      ofModel (sha1Derive HM (permNat Gen.sha1.permFinal) Gen.sha1.prefixBytes pw salt rounds) :=
  sha1_key_proc _ (sha1_calls H HM size 0) hHM pw salt rounds h1 hr

/-- `sha2crypt.duplicate(h, b, n)` on its own, for every `b` and `n ≥ 0`. -/
theorem duplicate_ir_eq_model (H : Bytes → Bytes) (HM : Bytes → Bytes → Bytes) (size : Nat) (hid : Val) (b : Bytes) (n : Nat) (hs : 0 < size) :
    interp H HM size Gen.sha256_sha2crypt.kdfProgram "sha2crypt.duplicate" [hid, .bytes b, .int n] =
      ofModel (duplicate size b (n + 1) n) :=
  duplicate_proc (ctxOf H HM size Gen.sha256_sha2crypt.kdfProgram 4) hs hid b n

/-- `cryptoutil.Permute(b, t)` on its own. -/
theorem permute_ir_eq_model (H : Bytes → Bytes) (HM : Bytes → Bytes → Bytes) (size : Nat) (b t : Bytes) :
    interp H HM size Gen.md5_md5crypt.kdfProgram "cryptoutil.Permute" [.bytes b, .bytes t] =
      ofModel (permute b (t.map (·.toNat))) :=
  permute_proc _ b t

/-! ## Non-vacuity: the interpreter computes, and agrees with the hand models on concrete inputs -/

/-- A toy "hash": fold the input into a number, expand it to `n` bytes. -/
def toyH (n : Nat) : Bytes → Bytes := fun x =>
  let s := x.foldl (fun a b => (a * 31 + b.toNat + 7) % 65521) x.length
  (List.range n).map fun i => UInt8.ofNat ((s + i * 37 + s / (i + 1)) % 256)

/-- A toy "HMAC". -/
def toyHM : Bytes → Bytes → Bytes := fun k m => toyH 20 (k ++ [0x5c] ++ m)

def toyPw : Bytes := (List.range 21).map UInt8.ofNat
def toySalt : Bytes := [1, 2, 3, 4, 5, 6, 7, 8]

#guard interp (toyH 16) toyHM 16 Gen.md5_md5crypt.kdfProgram Gen.md5_md5crypt.kdfEntry
    [.bytes toyPw, .bytes toySalt, .bytes Gen.md5.prefixBytes] ==
  .ok (.bytes [0, 96, 164, 11, 239, 96, 59, 74, 12, 138, 52, 117, 3, 133, 144, 37])
#guard interp (toyH 16) toyHM 16 Gen.md5_md5crypt.kdfProgram Gen.md5_md5crypt.kdfEntry
    [.bytes toyPw, .bytes toySalt, .bytes Gen.md5.prefixBytes] ==
  ofModel (md5cryptEncrypt (toyH 16) (permNat Gen.md5_md5crypt.permFinal) toyPw toySalt Gen.md5.prefixBytes)
-- a digest shorter than the password chunk it is sliced to: `d[:i]` panics, in the IR as in the model
#guard interp (toyH 3) toyHM 16 Gen.md5_md5crypt.kdfProgram Gen.md5_md5crypt.kdfEntry
    [.bytes toyPw, .bytes toySalt, .bytes Gen.md5.prefixBytes] == .panic
#guard md5cryptEncrypt (toyH 3) (permNat Gen.md5_md5crypt.permFinal) toyPw toySalt Gen.md5.prefixBytes == none
#guard interp (toyH 32) toyHM 32 Gen.sha256_sha2crypt.kdfProgram Gen.sha256_sha2crypt.kdfEntry
    [.int 5, .bytes (toyPw ++ toyPw), .bytes toySalt, .int 50, .bytes (tableBytes Gen.sha256.permFinal)] ==
  ofModel (sha2cryptEncrypt (toyH 32) 32 (permNat Gen.sha256.permFinal) (toyPw ++ toyPw) toySalt 50)
#guard interp (toyH 64) toyHM 64 Gen.sha256_sha2crypt.kdfProgram Gen.sha256_sha2crypt.kdfEntry
    [.int 7, .bytes (toyPw ++ toyPw ++ toyPw ++ toyPw), .bytes toySalt, .int 9, .bytes (tableBytes Gen.sha512.permFinal)] ==
  ofModel (sha2cryptEncrypt (toyH 64) 64 (permNat Gen.sha512.permFinal) (toyPw ++ toyPw ++ toyPw ++ toyPw) toySalt 9)
#guard interp (toyH 32) toyHM 32 Gen.sha256_sha2crypt.kdfProgram Gen.sha256_sha2crypt.kdfEntry
    [.int 6, .bytes toyPw, .bytes toySalt, .int 50, .bytes (tableBytes Gen.sha256.permFinal)] == .ok (.err "unsupported hash")
#guard interp (toyH 4) toyHM 4 Gen.sha256_sha2crypt.kdfProgram "sha2crypt.duplicate" [.int 5, .bytes [1, 2, 3, 4], .int 10] ==
  .ok (.bytes [1, 2, 3, 4, 1, 2, 3, 4, 1, 2])
#guard interp (toyH 16) toyHM 20 Gen.sha1.kdfProgram Gen.sha1.kdfEntry [.bytes toyPw, .bytes toySalt, .int 25] ==
  ofModel (sha1Derive toyHM (permNat Gen.sha1.permFinal) Gen.sha1.prefixBytes toyPw toySalt 25)
-- a 19-byte "HMAC": the digest no longer fills `b`, whose last byte stays 0 (the hand model has no array)
#guard interp (toyH 16) (fun k m => (toyHM k m).take 19) 20 Gen.sha1.kdfProgram Gen.sha1.kdfEntry
    [.bytes toyPw, .bytes toySalt, .int 3] !=
  ofModel (sha1Derive (fun k m => (toyHM k m).take 19) (permNat Gen.sha1.permFinal) Gen.sha1.prefixBytes toyPw toySalt 3)
-- the finding: at rounds = 0 the Go function and the hand model differ
#guard interp (toyH 32) toyHM 32 Gen.sha256_sha2crypt.kdfProgram Gen.sha256_sha2crypt.kdfEntry
    [.int 5, .bytes toyPw, .bytes toySalt, .int 0, .bytes (tableBytes Gen.sha256.permFinal)] !=
  ofModel (sha2cryptEncrypt (toyH 32) 32 (permNat Gen.sha256.permFinal) toyPw toySalt 0)
-- `stuck` is a third outcome: a program the interpreter does not understand proves nothing
#guard interp (toyH 16) toyHM 16 { procs := [("f", { params := [], body := .unknown "x" })], globals := [] } "f" [] ==
  .stuck "unknown statement: x"
/-- `for i := 5; i > 0; i-- {}` with a (wrong) loop bound of 2. -/
def badBound : Proc :=
  { params := [],
    body := (.assign "i" (.int 5) ;;
      .for_ (.int 2) (.bin .gt (.var "i") (.int 0)) (.assign "i" (.bin .sub (.var "i") (.int 1))) .skip ;;
      .ret (.var "i")) }
#guard interp (toyH 16) toyHM 16 { procs := [("f", badBound)], globals := [] } "f" [] == .stuck "loop bound exceeded"

end GoCrypt.KdfIR

#print axioms GoCrypt.KdfIR.md5crypt_ir_eq_model
#print axioms GoCrypt.KdfIR.sha2crypt_ir_eq_model
#print axioms GoCrypt.KdfIR.sha256crypt_ir_eq_model
#print axioms GoCrypt.KdfIR.sha512crypt_ir_eq_model
#print axioms GoCrypt.KdfIR.sha2crypt_ir_unsupported_hash
#print axioms GoCrypt.KdfIR.sha2crypt_ir_zero_rounds
#print axioms GoCrypt.KdfIR.sha1_ir_eq_model
#print axioms GoCrypt.KdfIR.duplicate_ir_eq_model
#print axioms GoCrypt.KdfIR.permute_ir_eq_model
