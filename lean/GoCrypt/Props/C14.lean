import GoCrypt.Proofs.Guards

/-!
# C14 — key derivation accepts exactly the values inside the scheme's exported limits

Property theorems only; helper lemmas are in `Proofs/Guards.lean`.

* `Gen.<pkg>.keyGuards` is the machine translation of the guard clauses at the top of each Go `Key`
  function (`Gen/Guards.lean`); a `.error` result is Go's early `return nil, err` — nothing is derived.
* `Accepts.<pkg>` is the hand-written declarative specification in terms of the exported constants
  (`Spec/Accepts.lean`): an ordered list of clauses; the first violated one fixes the typed error and
  its payload.

For each of the ten packages:
1. `guards_iff_accepts_<pkg>` — for *all* arguments the guards reject exactly when some clause is
   violated, with exactly the typed error and payload of the first violated clause.
2. `guards_result_<pkg>` — what the guards hand on to the derivation when they accept.
-/

namespace GoCrypt.C14
open GoCrypt GoCrypt.Accepts GoCrypt.Guards

/-! ## (1) the generated guards reject exactly as the declarative spec says -/

theorem guards_iff_accepts_md5 (a : KeyArgs) : errOf (Gen.md5.keyGuards a) = Accepts.md5.verdict a := by
  rw [md5_guards, errOf_outcome]

theorem guards_iff_accepts_sha256 (a : KeyArgs) :
    errOf (Gen.sha256.keyGuards a) = Accepts.sha256.verdict a := by
  rw [sha256_guards, errOf_outcome]

theorem guards_iff_accepts_sha512 (a : KeyArgs) :
    errOf (Gen.sha512.keyGuards a) = Accepts.sha512.verdict a := by
  rw [sha512_guards, errOf_outcome]

theorem guards_iff_accepts_sha1 (a : KeyArgs) : errOf (Gen.sha1.keyGuards a) = Accepts.sha1.verdict a := by
  rw [sha1_guards, errOf_outcome]

theorem guards_iff_accepts_sunmd5 (a : KeyArgs) :
    errOf (Gen.sunmd5.keyGuards a) = Accepts.sunmd5.verdict a := by
  rw [sunmd5_guards, errOf_outcome]

theorem guards_iff_accepts_des (a : KeyArgs) : errOf (Gen.des.keyGuards a) = Accepts.des.verdict a := by
  rw [des_guards, errOf_outcome]

theorem guards_iff_accepts_desext (a : KeyArgs) :
    errOf (Gen.desext.keyGuards a) = Accepts.desext.verdict a := by
  rw [desext_guards, errOf_outcome]

theorem guards_iff_accepts_bcrypt (a : KeyArgs) :
    errOf (Gen.bcrypt.keyGuards a) = Accepts.bcrypt.verdict a := by
  rw [bcrypt_guards, errOf_outcome]

theorem guards_iff_accepts_nthash (a : KeyArgs) :
    errOf (Gen.nthash.keyGuards a) = Accepts.nthash.verdict a := by
  rw [nthash_guards, errOf_outcome]

theorem guards_iff_accepts_argon2 (a : KeyArgs) :
    errOf (Gen.argon2.keyGuards a) = Accepts.argon2.verdict a := by
  rw [argon2_guards, errOf_outcome]

/-! ## (2) what the guards hand on to the derivation -/

theorem guards_result_md5 (a a' : KeyArgs) (h : Gen.md5.keyGuards a = .ok a') : a' = a :=
  outcome_ok _ _ _ (md5_guards a ▸ h)

theorem guards_result_sha256 (a a' : KeyArgs) (h : Gen.sha256.keyGuards a = .ok a') : a' = a :=
  outcome_ok _ _ _ (sha256_guards a ▸ h)

theorem guards_result_sha512 (a a' : KeyArgs) (h : Gen.sha512.keyGuards a = .ok a') : a' = a :=
  outcome_ok _ _ _ (sha512_guards a ▸ h)

/-- sha1: `rounds = RandomRounds` is replaced by the drawn value `randomHint - rand % (randomHint/4)`;
everything else is passed through. -/
theorem guards_result_sha1 (a a' : KeyArgs) (h : Gen.sha1.keyGuards a = .ok a') :
    a' = Accepts.sha1.defaults a :=
  outcome_ok _ _ _ (sha1_guards a ▸ h)

/-- sunmd5: a nil `opts` becomes `{Prefix: "$md5$" if rounds = 0 else "$md5,", DisableSaltSeparator: false}`. -/
theorem guards_result_sunmd5 (a a' : KeyArgs) (h : Gen.sunmd5.keyGuards a = .ok a') :
    a' = Accepts.sunmd5.defaults a :=
  outcome_ok _ _ _ (sunmd5_guards a ▸ h)

theorem guards_result_des (a a' : KeyArgs) (h : Gen.des.keyGuards a = .ok a') : a' = a :=
  outcome_ok _ _ _ (des_guards a ▸ h)

theorem guards_result_desext (a a' : KeyArgs) (h : Gen.desext.keyGuards a = .ok a') : a' = a :=
  outcome_ok _ _ _ (desext_guards a ▸ h)

/-- bcrypt: a nil `opts` becomes `{Prefix: "$2b$"}`, and the password is rewritten: `$2b$` truncates to
72 bytes, the older prefixes replace a password of 254 bytes or more by 72 `'0'` bytes; all other
fields are those of `Accepts.bcrypt.defaults a`. -/
theorem guards_result_bcrypt (a a' : KeyArgs) (h : Gen.bcrypt.keyGuards a = .ok a') :
    a' = { Accepts.bcrypt.defaults a with password := a'.password } ∧
    a'.password =
      if a'.optPrefix = Gen.bcrypt.Prefix2b ∧ a.password.length > 72 then a.password.take 72
      else if a.password.length ≥ 254 then List.replicate 72 48
      else a.password := by
  have := outcome_ok _ _ _ (bcrypt_guards a ▸ h)
  subst this
  exact ⟨rfl, rfl⟩

theorem guards_result_nthash (a a' : KeyArgs) (h : Gen.nthash.keyGuards a = .ok a') : a' = a :=
  outcome_ok _ _ _ (nthash_guards a ▸ h)

/-- argon2: a nil `opts` becomes `{Prefix: "$argon2id$", Version: 0x13}`. -/
theorem guards_result_argon2 (a a' : KeyArgs) (h : Gen.argon2.keyGuards a = .ok a') :
    a' = Accepts.argon2.defaults a :=
  outcome_ok _ _ _ (argon2_guards a ▸ h)

/-! ## Reading the verdict

`verdict = none` means every clause holds (of the defaulted arguments); the alphabet clause holds
exactly when every salt byte is one of the 64 symbols, and when it fails the payload is the first
offending byte. -/

theorem verdict_none_iff (s : Spec) (a : KeyArgs) :
    s.verdict a = none ↔ ∀ c ∈ s.clauses, c.violation (s.defaults a) = none :=
  firstViolation_none_iff _ _

theorem saltAlphabet_accepts_iff (al : Bytes) (e : String) (a : KeyArgs) :
    (Clause.saltAlphabet al e).violation a = none ↔ ∀ c ∈ a.salt, c ∈ al :=
  saltAlphabet_ok_iff al e a

theorem saltAlphabet_rejects_first (al : Bytes) (e : String) (a : KeyArgs) (err : KeyErr)
    (h : (Clause.saltAlphabet al e).violation a = some err) :
    ∃ pre c post, a.salt = pre ++ c :: post ∧ (∀ x ∈ pre, x ∈ al) ∧ c ∉ al ∧
      err = { type := e, num := c.toNat } :=
  saltAlphabet_violation al e a err h

/-! ## (3) the two alphabets -/

/-- Both exported alphabets have 64 pairwise distinct symbols and are the documented strings. -/
theorem alphabet_membership :
    (Gen.internal_hashutil.encoderHash =
        [46, 47, 48, 49, 50, 51, 52, 53, 54, 55, 56, 57,
         65, 66, 67, 68, 69, 70, 71, 72, 73, 74, 75, 76, 77, 78, 79, 80, 81, 82, 83, 84, 85, 86, 87, 88, 89, 90,
         97, 98, 99, 100, 101, 102, 103, 104, 105, 106, 107, 108, 109, 110, 111, 112, 113, 114, 115, 116, 117, 118,
         119, 120, 121, 122] ∧
      "./0123456789ABCDEFGHIJKLMNOPQRSTUVWXYZabcdefghijklmnopqrstuvwxyz".toList.map
        (fun c => UInt8.ofNat c.toNat) = Gen.internal_hashutil.encoderHash ∧
      Gen.internal_hashutil.encoderHash.length = 64 ∧
      Gen.internal_hashutil.encoderHash.Nodup) ∧
    (Gen.internal_hashutil.encoderBase64 =
        [65, 66, 67, 68, 69, 70, 71, 72, 73, 74, 75, 76, 77, 78, 79, 80, 81, 82, 83, 84, 85, 86, 87, 88, 89, 90,
         97, 98, 99, 100, 101, 102, 103, 104, 105, 106, 107, 108, 109, 110, 111, 112, 113, 114, 115, 116, 117, 118,
         119, 120, 121, 122,
         48, 49, 50, 51, 52, 53, 54, 55, 56, 57, 43, 47] ∧
      "ABCDEFGHIJKLMNOPQRSTUVWXYZabcdefghijklmnopqrstuvwxyz0123456789+/".toList.map
        (fun c => UInt8.ofNat c.toNat) = Gen.internal_hashutil.encoderBase64 ∧
      Gen.internal_hashutil.encoderBase64.length = 64 ∧
      Gen.internal_hashutil.encoderBase64.Nodup) := by
  refine ⟨⟨?_, ?_, ?_, ?_⟩, ⟨?_, ?_, ?_, ?_⟩⟩ <;> decide

/-! ## Non-vacuity: both sides evaluated on concrete arguments -/

-- md5: 8 alphabet bytes are accepted and handed on unchanged
example : Gen.md5.keyGuards { salt := [97, 98, 99, 100, 101, 102, 103, 104] } =
    .ok { salt := [97, 98, 99, 100, 101, 102, 103, 104] } := rfl
example : Accepts.md5.verdict { salt := [97, 98, 99, 100, 101, 102, 103, 104] } = none := by decide
-- md5: 9 bytes → InvalidSaltLengthError(9); a `$` in the salt → InvalidSaltError('$')
example : errOf (Gen.md5.keyGuards { salt := [97, 98, 99, 100, 101, 102, 103, 104, 105] }) =
    some { type := "InvalidSaltLengthError", num := 9 } := by decide
example : Accepts.md5.verdict { salt := [97, 98, 99, 100, 101, 102, 103, 104, 105] } =
    some { type := "InvalidSaltLengthError", num := 9 } := by decide
example : errOf (Gen.md5.keyGuards { salt := [97, 36, 98, 33] }) =
    some { type := "InvalidSaltError", num := 36 } := by decide
example : Accepts.md5.verdict { salt := [97, 36, 98, 33] } =
    some { type := "InvalidSaltError", num := 36 } := by decide
-- sha256: rounds 999 / 1000 / 999999999 / 1000000000
example : Accepts.sha256.verdict { salt := [97], rounds := 999 } =
    some { type := "InvalidRoundsError", num := 999 } := by decide
example : errOf (Gen.sha256.keyGuards { salt := [97], rounds := 999 }) =
    some { type := "InvalidRoundsError", num := 999 } := by decide
example : Accepts.sha256.verdict { salt := [97], rounds := 1000 } = none := by decide
example : Accepts.sha256.verdict { salt := [97], rounds := 999999999 } = none := by decide
example : errOf (Gen.sha256.keyGuards { salt := [97], rounds := 1000000000 }) =
    some { type := "InvalidRoundsError", num := 1000000000 } := by decide
-- the first violated clause wins: long salt *and* bad rounds reports the salt length
example : Accepts.sha512.verdict { salt := List.replicate 17 97, rounds := 5 } =
    some { type := "InvalidSaltLengthError", num := 17 } := by decide
example : errOf (Gen.sha512.keyGuards { salt := List.replicate 17 97, rounds := 5 }) =
    some { type := "InvalidSaltLengthError", num := 17 } := by decide
-- sha1: RandomRounds is resolved from the random word (24680 - 12345 % 6170 = 24675)
example : (Accepts.sha1.defaults { rounds := 4294967295, rand := 12345 }).rounds = 24675 := by decide
example : Gen.sha1.keyGuards { rounds := 4294967295, rand := 12345 } =
    .ok { rounds := 24675, rand := 12345 } := rfl
example : errOf (Gen.sha1.keyGuards { rounds := 0 }) = some { type := "InvalidRoundsError", num := 0 } := by
  decide
-- sunmd5: nil opts picks the prefix from rounds; an explicit foreign prefix is rejected with the string
example : Gen.sunmd5.keyGuards { rounds := 0 } = .ok { optsNil := false, optPrefix := [36, 109, 100, 53, 36] } :=
  rfl
example : Gen.sunmd5.keyGuards { rounds := 7 } =
    .ok { rounds := 7, optsNil := false, optPrefix := [36, 109, 100, 53, 44] } := rfl
example : errOf (Gen.sunmd5.keyGuards { optsNil := false, optPrefix := [36, 49, 36] }) =
    some { type := "UnsupportedPrefixError", str := [36, 49, 36] } := by decide
example : Accepts.sunmd5.verdict { optsNil := false, optPrefix := [36, 49, 36] } =
    some { type := "UnsupportedPrefixError", str := [36, 49, 36] } := by decide
-- des: 9-byte password; 1-byte salt
example : errOf (Gen.des.keyGuards { password := List.replicate 9 97, salt := [97, 98] }) =
    some { type := "InvalidPasswordLengthError", num := 9 } := by decide
example : Accepts.des.verdict { password := [97], salt := [97] } =
    some { type := "InvalidSaltLengthError", num := 1 } := by decide
example : Accepts.des.verdict { password := [97], salt := [97, 98] } = none := by decide
-- desext: rounds 0 and 2^24
example : errOf (Gen.desext.keyGuards { salt := [97, 98, 99, 100], rounds := 0 }) =
    some { type := "InvalidRoundsError", num := 0 } := by decide
example : Accepts.desext.verdict { salt := [97, 98, 99, 100], rounds := 16777216 } =
    some { type := "InvalidRoundsError", num := 16777216 } := by decide
example : Accepts.desext.verdict { salt := [97, 98, 99, 100], rounds := 16777215 } = none := by decide
-- bcrypt: cost 3 / 32 rejected, 4 accepted; `$2b$` truncates an 80-byte password to 72
example : Accepts.bcrypt.verdict { salt := List.replicate 22 46, rounds := 3 } =
    some { type := "InvalidCostError", num := 3 } := by decide
example : errOf (Gen.bcrypt.keyGuards { salt := List.replicate 22 46, rounds := 32 }) =
    some { type := "InvalidCostError", num := 32 } := by decide
example : Gen.bcrypt.keyGuards { password := List.replicate 80 97, salt := List.replicate 22 46, rounds := 4 } =
    .ok { password := List.replicate 72 97, salt := List.replicate 22 46, rounds := 4, optsNil := false,
          optPrefix := [36, 50, 98, 36] } := rfl
example : errOf (Gen.bcrypt.keyGuards { optsNil := false, optPrefix := [36, 50, 121, 36] }) =
    some { type := "UnsupportedPrefixError", str := [36, 50, 121, 36] } := by decide
-- nthash: odd length / 258 bytes
example : Accepts.nthash.verdict { password := [97, 0, 98] } =
    some { type := "InvalidPasswordLengthError", num := 3 } := by decide
set_option maxRecDepth 8192 in
example : errOf (Gen.nthash.keyGuards { password := List.replicate 258 0 }) =
    some { type := "InvalidPasswordLengthError", num := 258 } := by decide
set_option maxRecDepth 8192 in
example : Accepts.nthash.verdict { password := List.replicate 256 0 } = none := by decide
-- argon2: unsupported version / short salt / memory 7 / accepted with defaults filled in
example : errOf (Gen.argon2.keyGuards
      { optsNil := false, optPrefix := [36, 97, 114, 103, 111, 110, 50, 105, 36], optVersion := 17 }) =
    some { type := "UnsupportedVersionError", num := 17 } := by decide
example : Accepts.argon2.verdict { salt := List.replicate 10 65, rounds := 1, memory := 8, threads := 1 } =
    some { type := "InvalidSaltLengthError", num := 10 } := by decide
example : errOf (Gen.argon2.keyGuards { salt := List.replicate 11 65, rounds := 1, memory := 7, threads := 1 }) =
    some { type := "InvalidMemoryError", num := 7 } := by decide
example : Gen.argon2.keyGuards { salt := List.replicate 11 65, rounds := 1, memory := 8, threads := 1 } =
    .ok { salt := List.replicate 11 65, rounds := 1, memory := 8, threads := 1, optsNil := false,
          optPrefix := [36, 97, 114, 103, 111, 110, 50, 105, 100, 36], optVersion := 19 } := rfl
-- '.' is in the crypt alphabet but not in the base64 one
example : errOf (Gen.argon2.keyGuards { salt := List.replicate 11 46, rounds := 1, memory := 8, threads := 1 }) =
    some { type := "InvalidSaltError", num := 46 } := by decide

end GoCrypt.C14

#print axioms GoCrypt.C14.guards_iff_accepts_md5
#print axioms GoCrypt.C14.guards_iff_accepts_sha256
#print axioms GoCrypt.C14.guards_iff_accepts_sha512
#print axioms GoCrypt.C14.guards_iff_accepts_sha1
#print axioms GoCrypt.C14.guards_iff_accepts_sunmd5
#print axioms GoCrypt.C14.guards_iff_accepts_des
#print axioms GoCrypt.C14.guards_iff_accepts_desext
#print axioms GoCrypt.C14.guards_iff_accepts_bcrypt
#print axioms GoCrypt.C14.guards_iff_accepts_nthash
#print axioms GoCrypt.C14.guards_iff_accepts_argon2
#print axioms GoCrypt.C14.guards_result_md5
#print axioms GoCrypt.C14.guards_result_sha256
#print axioms GoCrypt.C14.guards_result_sha512
#print axioms GoCrypt.C14.guards_result_sha1
#print axioms GoCrypt.C14.guards_result_sunmd5
#print axioms GoCrypt.C14.guards_result_des
#print axioms GoCrypt.C14.guards_result_desext
#print axioms GoCrypt.C14.guards_result_bcrypt
#print axioms GoCrypt.C14.guards_result_nthash
#print axioms GoCrypt.C14.guards_result_argon2
#print axioms GoCrypt.C14.verdict_none_iff
#print axioms GoCrypt.C14.saltAlphabet_accepts_iff
#print axioms GoCrypt.C14.saltAlphabet_rejects_first
#print axioms GoCrypt.C14.alphabet_membership
