import GoCrypt.Proofs.SliceSound
import GoCrypt.Props.C13IR

/-!
# C13, semantically: what `argSafe` and `resultFresh` mean

`Spec/SliceSem.lean` gives the slice-effect IR a concrete semantics: array identities
(`.param i` / `.global g` / `.fresh` + serial), a state (variable ↦ array, allocation counter, log
of arrays STORED into, log of arrays RETURNED), one `Step` per statement (`append` nondeterministic
in its capacity, `.unknown` arbitrary) and `Run p` = any finite sequence of statements of `p`, in
any order, with any repetitions — which covers every execution of the Go function, whatever its
branches and loops do.  `Proofs/SliceSound.lean` proves that a fixpoint of `pass` over-approximates
every reachable environment.  This file states the consequences.

* `argSafe_sound`, `resultFresh_sound` — the meaning of the two booleans decided in `Props/C13.lean`.
* `results_disjoint_across_calls` — two successive calls never return the same array.
* `pointsTo_sound` / `pointsTo_exact` — the analysis itself: sound, and for this flow-insensitive
  semantics exact.  Hence the booleans have no false alarms other than instability
  (`argSafe_complete`, `resultFresh_complete`), and `resultFresh`'s non-emptiness clause means
  "every `ret x` returns an array in some run" (`resultFresh_ret_happens`).
* the twenty instances for the generated `Key` programs.
* non-vacuity: concrete runs.

Nothing in `Base/SliceIR.lean` was found unsound with respect to this semantics.
-/

namespace GoCrypt.C13Sound
open GoCrypt.SliceIR GoCrypt.SliceSem GoCrypt.Gen

/-! ## The analysis -/

/-- **Key invariant.** In every state an execution can reach, every slice variable points into an
array whose origin the analysis lists for that variable. -/
theorem pointsTo_sound {p : Prog} (hs : stable p = true) (hu : NoUnknown p) {s : State}
    (hr : Run p init s) {x : Nat} {a : Arr} (hx : s.env x = some a) :
    a.origin ∈ (solve p).of x :=
  run_envOk (closed_of_stable hs) hu hr (envOk_init _ _) x a hx

/-- The analysis is exact for the flow-insensitive semantics: it lists an origin for `x` iff some
run makes `x` point into an array of that origin. -/
theorem pointsTo_exact {p : Prog} (hs : stable p = true) (hu : NoUnknown p) (x : Nat) (k : Root) :
    k ∈ (solve p).of x ↔ ∃ s a, Run p init s ∧ s.env x = some a ∧ a.origin = k :=
  solve_exact hs hu x k

/-! ## Soundness of the two booleans -/

/-- **`argSafe` means:** no execution ever stores into an argument's or a package variable's array —
every array stored into was allocated during the call. -/
theorem argSafe_sound {p : Prog} {s : State} (h : argSafe p = true) (hr : Run p init s) :
    ∀ a ∈ s.stored, a.origin = .fresh :=
  fun a ha => (stored_fresh_at h hr a ha).1

/-- **`resultFresh` means:** every array an execution returns (a slice of) was allocated during the
call — never an argument's, never a package variable's. -/
theorem resultFresh_sound {p : Prog} {s : State} (h : resultFresh p = true) (hr : Run p init s) :
    ∀ a ∈ s.returned, a.origin = .fresh :=
  fun a ha => (returned_fresh_at h hr a ha).1

/-- The same from any call entry (allocation counter at `n`), with the serial range: what is
stored into / returned was allocated by THIS call, i.e. has a serial in `[n, s.next)`. -/
theorem argSafe_sound_at {p : Prog} {n : Nat} {s : State} (h : argSafe p = true)
    (hr : Run p (initAt n) s) :
    ∀ a ∈ s.stored, a.origin = .fresh ∧ n ≤ a.serial ∧ a.serial < s.next :=
  stored_fresh_at h hr

theorem resultFresh_sound_at {p : Prog} {n : Nat} {s : State} (h : resultFresh p = true)
    (hr : Run p (initAt n) s) :
    ∀ a ∈ s.returned, a.origin = .fresh ∧ n ≤ a.serial ∧ a.serial < s.next :=
  returned_fresh_at h hr

/-- **Results of different calls never share memory.**  Run `p₁` from the initial state to `s₁`;
then run `p₂` (the same function again, or another one) from a fresh environment whose allocation
counter continues where the first call stopped.  Every array the first call returned is different
from every array the second call returned. -/
theorem results_disjoint_across_calls {p₁ p₂ : Prog} {s₁ s₂ : State}
    (h₁ : resultFresh p₁ = true) (h₂ : resultFresh p₂ = true)
    (r₁ : Run p₁ init s₁) (r₂ : Run p₂ (initAt s₁.next) s₂) :
    ∀ a ∈ s₁.returned, ∀ b ∈ s₂.returned, a ≠ b := by
  intro a ha b hb hab
  have h1 := (returned_fresh_at h₁ r₁ a ha).2.2
  have h2 := (returned_fresh_at h₂ r₂ b hb).2.1
  rw [hab] at h1
  exact Nat.lt_irrefl _ (Nat.lt_of_lt_of_le h1 h2)

/-- A later call never stores into an array an earlier call returned (it stores only into arrays
it allocated itself, and those are new). -/
theorem later_call_never_stores_into_earlier_result {p₁ p₂ : Prog} {s₁ s₂ : State}
    (h₁ : resultFresh p₁ = true) (h₂ : argSafe p₂ = true)
    (r₁ : Run p₁ init s₁) (r₂ : Run p₂ (initAt s₁.next) s₂) :
    ∀ a ∈ s₁.returned, ∀ b ∈ s₂.stored, a ≠ b := by
  intro a ha b hb hab
  have h1 := (returned_fresh_at h₁ r₁ a ha).2.2
  have h2 := (stored_fresh_at h₂ r₂ b hb).2.1
  rw [hab] at h1
  exact Nat.lt_irrefl _ (Nat.lt_of_lt_of_le h1 h2)

/-! ## Completeness: a stable, fully translated program is rejected only for a real reason -/

theorem argSafe_complete {p : Prog} (hs : stable p = true) (hu : NoUnknown p)
    (h : argSafe p = false) : ∃ s a, Run p init s ∧ a ∈ s.stored ∧ a.origin ≠ .fresh :=
  SliceSem.argSafe_complete hs hu h

theorem resultFresh_complete {p : Prog} (hs : stable p = true) (hu : NoUnknown p)
    (h : resultFresh p = false) :
    (∃ s a, Run p init s ∧ a ∈ s.returned ∧ a.origin ≠ .fresh) ∨
    (∃ x, SStmt.ret x ∈ p ∧ ∀ s, Run p init s → s.env x = none) :=
  SliceSem.resultFresh_complete hs hu h

/-- What the clause `!(r.of x).isEmpty` of `resultFresh` buys: every `ret x` of an accepted program
returns an array in some run. -/
theorem resultFresh_ret_happens {p : Prog} (h : resultFresh p = true) {x : Nat}
    (hm : SStmt.ret x ∈ p) : ∃ s a, Run p init s ∧ a ∈ s.returned ∧ s.env x = some a :=
  SliceSem.resultFresh_ret_happens h hm

/-! ## The ten `Key` functions -/

section instances
variable {s : State}

theorem argon2_key_never_stores_into_arguments (hr : Run argon2.keySlices init s) :
    ∀ a ∈ s.stored, a.origin = .fresh := argSafe_sound C13.argSafe_argon2 hr
theorem bcrypt_key_never_stores_into_arguments (hr : Run bcrypt.keySlices init s) :
    ∀ a ∈ s.stored, a.origin = .fresh := argSafe_sound C13.argSafe_bcrypt hr
theorem des_key_never_stores_into_arguments (hr : Run des.keySlices init s) :
    ∀ a ∈ s.stored, a.origin = .fresh := argSafe_sound C13.argSafe_des hr
theorem desext_key_never_stores_into_arguments (hr : Run desext.keySlices init s) :
    ∀ a ∈ s.stored, a.origin = .fresh := argSafe_sound C13.argSafe_desext hr
theorem md5_key_never_stores_into_arguments (hr : Run md5.keySlices init s) :
    ∀ a ∈ s.stored, a.origin = .fresh := argSafe_sound C13.argSafe_md5 hr
theorem nthash_key_never_stores_into_arguments (hr : Run nthash.keySlices init s) :
    ∀ a ∈ s.stored, a.origin = .fresh := argSafe_sound C13.argSafe_nthash hr
theorem sha1_key_never_stores_into_arguments (hr : Run sha1.keySlices init s) :
    ∀ a ∈ s.stored, a.origin = .fresh := argSafe_sound C13.argSafe_sha1 hr
theorem sha256_key_never_stores_into_arguments (hr : Run sha256.keySlices init s) :
    ∀ a ∈ s.stored, a.origin = .fresh := argSafe_sound C13.argSafe_sha256 hr
theorem sha512_key_never_stores_into_arguments (hr : Run sha512.keySlices init s) :
    ∀ a ∈ s.stored, a.origin = .fresh := argSafe_sound C13.argSafe_sha512 hr
theorem sunmd5_key_never_stores_into_arguments (hr : Run sunmd5.keySlices init s) :
    ∀ a ∈ s.stored, a.origin = .fresh := argSafe_sound C13.argSafe_sunmd5 hr

theorem argon2_key_returns_only_fresh_memory (hr : Run argon2.keySlices init s) :
    ∀ a ∈ s.returned, a.origin = .fresh := resultFresh_sound C13.resultFresh_argon2 hr
theorem bcrypt_key_returns_only_fresh_memory (hr : Run bcrypt.keySlices init s) :
    ∀ a ∈ s.returned, a.origin = .fresh := resultFresh_sound C13.resultFresh_bcrypt hr
theorem des_key_returns_only_fresh_memory (hr : Run des.keySlices init s) :
    ∀ a ∈ s.returned, a.origin = .fresh := resultFresh_sound C13.resultFresh_des hr
theorem desext_key_returns_only_fresh_memory (hr : Run desext.keySlices init s) :
    ∀ a ∈ s.returned, a.origin = .fresh := resultFresh_sound C13.resultFresh_desext hr
theorem md5_key_returns_only_fresh_memory (hr : Run md5.keySlices init s) :
    ∀ a ∈ s.returned, a.origin = .fresh := resultFresh_sound C13.resultFresh_md5 hr
theorem nthash_key_returns_only_fresh_memory (hr : Run nthash.keySlices init s) :
    ∀ a ∈ s.returned, a.origin = .fresh := resultFresh_sound C13.resultFresh_nthash hr
theorem sha1_key_returns_only_fresh_memory (hr : Run sha1.keySlices init s) :
    ∀ a ∈ s.returned, a.origin = .fresh := resultFresh_sound C13.resultFresh_sha1 hr
theorem sha256_key_returns_only_fresh_memory (hr : Run sha256.keySlices init s) :
    ∀ a ∈ s.returned, a.origin = .fresh := resultFresh_sound C13.resultFresh_sha256 hr
theorem sha512_key_returns_only_fresh_memory (hr : Run sha512.keySlices init s) :
    ∀ a ∈ s.returned, a.origin = .fresh := resultFresh_sound C13.resultFresh_sha512 hr
theorem sunmd5_key_returns_only_fresh_memory (hr : Run sunmd5.keySlices init s) :
    ∀ a ∈ s.returned, a.origin = .fresh := resultFresh_sound C13.resultFresh_sunmd5 hr

end instances

/-- Two `bcrypt.Key` calls in a row hand out different arrays (likewise for any pair of the ten,
by `results_disjoint_across_calls`). -/
theorem bcrypt_keys_of_two_calls_are_disjoint {s₁ s₂ : State}
    (r₁ : Run bcrypt.keySlices init s₁) (r₂ : Run bcrypt.keySlices (initAt s₁.next) s₂) :
    ∀ a ∈ s₁.returned, ∀ b ∈ s₂.returned, a ≠ b :=
  results_disjoint_across_calls C13.resultFresh_bcrypt C13.resultFresh_bcrypt r₁ r₂

/-! ## Non-vacuity -/

/-- The bcrypt.setup defect (`append` to a slice of the password): rejected by `argSafe`, and here is
the execution that stores into the argument's array — `append` finds spare capacity. -/
def clobberProg : Prog := [.fromParam 0 0, .alias 1 0, .appendTo 2 1]

example : argSafe clobberProg = false := by decide +kernel

example : ∃ s, Run clobberProg init s ∧ (⟨.param 0, 0⟩ : Arr) ∈ s.stored := by
  refine ⟨_, ((Run.refl.step (st := .fromParam 0 0) (by decide) Step.fromParam).step
    (st := .alias 1 0) (by decide) Step.alias).step
    (st := .appendTo 2 1) (by decide) (Step.appendInPlace (a := ⟨.param 0, 0⟩) rfl), ?_⟩
  exact List.mem_cons_self ..

/-- The same program when `append` has to grow: nothing is stored into the argument.  The defect is
capacity-dependent; `argSafe` rejects it because SOME run stores into the argument. -/
example : ∃ s, Run clobberProg init s ∧ s.stored = [⟨.fresh, 0⟩] ∧ s.next = 1 := by
  refine ⟨_, ((Run.refl.step (st := .fromParam 0 0) (by decide) Step.fromParam).step
    (st := .alias 1 0) (by decide) Step.alias).step
    (st := .appendTo 2 1) (by decide) (Step.appendGrow (a := ⟨.param 0, 0⟩) rfl), ?_, ?_⟩ <;> rfl

/-- Returning a slice of an argument: rejected by `resultFresh`, and the run that returns it. -/
def aliasingProg : Prog := [.fromParam 0 0, .alias 1 0, .ret 1]

example : resultFresh aliasingProg = false := by decide +kernel

example : ∃ s, Run aliasingProg init s ∧ (⟨.param 0, 0⟩ : Arr) ∈ s.returned := by
  refine ⟨_, ((Run.refl.step (st := .fromParam 0 0) (by decide) Step.fromParam).step
    (st := .alias 1 0) (by decide) Step.alias).step
    (st := .ret 1) (by decide) (Step.ret (a := ⟨.param 0, 0⟩) rfl), ?_⟩
  exact List.mem_cons_self ..

/-- A safe program with a run whose logs are not empty: the theorems above speak about something. -/
def safeProg : Prog := [.fromParam 0 0, .alloc 1, .write 1, .appendTo 2 1, .ret 2]

example : argSafe safeProg = true := by decide +kernel
example : resultFresh safeProg = true := by decide +kernel

example : ∃ s, Run safeProg init s ∧
    s.stored = [⟨.fresh, 0⟩, ⟨.fresh, 0⟩] ∧ s.returned = [⟨.fresh, 0⟩] ∧ s.next = 1 := by
  refine ⟨_, ((((Run.refl.step (st := .fromParam 0 0) (by decide) Step.fromParam).step
    (st := .alloc 1) (by decide) Step.alloc).step
    (st := .write 1) (by decide) (Step.write (a := ⟨.fresh, 0⟩) rfl)).step
    (st := .appendTo 2 1) (by decide) (Step.appendInPlace (a := ⟨.fresh, 0⟩) rfl)).step
    (st := .ret 2) (by decide) (Step.ret (a := ⟨.fresh, 0⟩) rfl), ?_, ?_, ?_⟩ <;> rfl

/-- Statements may run in any order and repeatedly: here `ret 2` runs before anything is bound
(returns nothing), and `alloc 1` runs twice (two different arrays). -/
example : ∃ s, Run safeProg init s ∧ s.returned = [] ∧ s.env 1 = some ⟨.fresh, 1⟩ := by
  refine ⟨_, ((Run.refl.step (st := .ret 2) (by decide) (Step.retNil rfl)).step
    (st := .alloc 1) (by decide) Step.alloc).step
    (st := .alloc 1) (by decide) Step.alloc, ?_, ?_⟩ <;> rfl

/-- The generated programs do store and return: a run of `bcrypt.Key`'s IR with non-empty logs
exists for every `write` / `ret` they contain (`resultFresh_ret_happens`); e.g. -/
example : ∃ s a, Run bcrypt.keySlices init s ∧ a ∈ s.returned ∧ a.origin = .fresh := by
  have hm : ∃ x, SStmt.ret x ∈ bcrypt.keySlices := by
    refine ⟨?_, ?_⟩
    · exact (bcrypt.keySlices.filterMap fun | .ret x => some x | _ => none).head!
    · decide +kernel
  obtain ⟨x, hx⟩ := hm
  obtain ⟨s, a, hr, ha, _⟩ := resultFresh_ret_happens C13.resultFresh_bcrypt hx
  exact ⟨s, a, hr, ha, resultFresh_sound C13.resultFresh_bcrypt hr a ha⟩

/-- `.unknown` really is arbitrary: a program containing it can reach any state, which is why both
booleans reject it. -/
example (d : String) (s : State) : Run [.unknown d] init s :=
  Run.refl.step (List.mem_singleton.mpr rfl) Step.unknown

#print axioms pointsTo_sound
#print axioms pointsTo_exact
#print axioms argSafe_sound
#print axioms resultFresh_sound
#print axioms argSafe_sound_at
#print axioms resultFresh_sound_at
#print axioms results_disjoint_across_calls
#print axioms later_call_never_stores_into_earlier_result
#print axioms argSafe_complete
#print axioms resultFresh_complete
#print axioms resultFresh_ret_happens
#print axioms argon2_key_never_stores_into_arguments
#print axioms bcrypt_key_never_stores_into_arguments
#print axioms des_key_never_stores_into_arguments
#print axioms desext_key_never_stores_into_arguments
#print axioms md5_key_never_stores_into_arguments
#print axioms nthash_key_never_stores_into_arguments
#print axioms sha1_key_never_stores_into_arguments
#print axioms sha256_key_never_stores_into_arguments
#print axioms sha512_key_never_stores_into_arguments
#print axioms sunmd5_key_never_stores_into_arguments
#print axioms argon2_key_returns_only_fresh_memory
#print axioms bcrypt_key_returns_only_fresh_memory
#print axioms des_key_returns_only_fresh_memory
#print axioms desext_key_returns_only_fresh_memory
#print axioms md5_key_returns_only_fresh_memory
#print axioms nthash_key_returns_only_fresh_memory
#print axioms sha1_key_returns_only_fresh_memory
#print axioms sha256_key_returns_only_fresh_memory
#print axioms sha512_key_returns_only_fresh_memory
#print axioms sunmd5_key_returns_only_fresh_memory
#print axioms bcrypt_keys_of_two_calls_are_disjoint

end GoCrypt.C13Sound
