import GoCrypt.Props.CodecIRU2
import GoCrypt.Proofs.CodecIRUMain
import GoCrypt.Proofs.CodecIRULoopG

/-!
# `hash.Unmarshal` regenerated from source = `Codec.unmarshal` + `finalVals` (continuation of `Props/CodecIRU2.lean`)

The whole of function 5 (`Unmarshal(hash string, v interface{}) error`, `hash/unmarshal.go:61`) run inside the regenerated program,
compared with the hand model `Model/Codec.lean: unmarshal` (parse, prefix, `loopFields`, the checks after the loop) and `finalVals`
(the struct value afterwards).

* 2b with grouped params: `step_eq_stepField_general`, `loop_eq_loopFields_general`, `after_loop_eq_model_general`.
* 2c: `unmarshal_eq_model` (every description), `unmarshal_eq_model_nogroup` (the same through the group-free loop proof),
  `unmarshal_eq_model_of_loopTail` (the glue: prologue + `HashPrefix` `if` + the interface `LoopTailOk`), `unmarshal_getTypeInfo_error`,
  `unmarshalIndirect_root_eq`.
* `Props/CodecIRU3Link.lean`: the external functions fixed (regenerated `getTypeInfo`, model parser) — their hypotheses become theorems;
  `Props/CodecIRU3Closed.lean`: closed instances for the ten scheme structs of `Gen/Shapes.lean`.

Domain (each hypothesis is needed; see CODEC_IR_NOTES.md "Fourth session"):
* `v` is a NON-NIL POINTER (possibly several) TO A STRUCT (`.dptr t`, `0 < t.depth`, `t.kind = .structRef _`): the model takes a `TypeInfo`,
  not a value, and has no `InvalidUnmarshalError`;
* the destination is ZERO in every listed field (`ZeroDest`): the model describes `Unmarshal` into a zero value (Go keeps old array bytes
  beyond the text, allocates only nil pointers);
* `getTypeInfo` succeeds with a record representing `ti` (`GetTypeInfoOk`; the model's `unmarshal` takes `ti` as given) and
  `parse.Parse` behaves as `Parse.parse` on THIS hash (`ParseOkAt`: fresh, pairwise distinct value nodes; texts and group sizes within the
  loop bound `w.fuel`);
* per field `FieldOkW`: `FieldByIndex` reaches an exported cell of the recorded type, integer kinds have 0 < bits ≤ 64 and a base in 2..36,
  `inline` only with `length:n` (typeinfo.go rejects the rest), pointer depth below the loop bound; index paths pairwise distinct;
  the prefix field is not `length:…,inline` (Go panics on the type assertion; typeinfo.go rejects it);
* `ti.fields.length < w.fuel`, `t.depth < w.fuel` (loop bounds of the interpreter); through `ParseOkAt`: texts and group sizes ≤ `w.fuel`.
On an ERROR only the returned error value is compared (`absErrU`: node kind, offset, field, message class); the values stored in the
destination BEFORE the error are NOT compared.
-/

namespace GoCrypt.CodecIRU
open GoCrypt.Codec GoCrypt.Gen.codecIR GoCrypt.CIR
open GoCrypt.TIIR (RType Res fiType fiObj tiObj)

/-- What is assumed of one field of the description, in terms of the world of the run. -/
structure FieldOkW (w : World) (t0 : RType) (fi : FieldInfo) : Prop where
  /-- `val.FieldByIndex(fi.Index)` is the field's cell: exported, of the recorded type -/
  reach : ∀ mm : Mem, (cellRoot mm fi.index).isSome = true →
    rootFieldByIndex w.structs mm t0 (fi.index.map Int.ofNat) = .ok (.cell (fiType fi) fi.index 0 false)
  num : NumOk fi
  inl : fi.opts.inline = true → fi.opts.hasLength = true
  depth : fi.ptrDepth < w.fuel

theorem FieldOkW.toCtx {w : World} {t0 : RType} {fi : FieldInfo} (h : FieldOkW w t0 fi)
    (call : Nat → Mem → List Val → Res (Mem × List Val)) : FieldOk (w.ctx call) t0 fi :=
  ⟨h.reach, h.num, h.inl, h.depth⟩

/-- The fields `Unmarshal` may store into: the prefix field, then `ti.Fields`. -/
def allFields (ti : TypeInfo) : List FieldInfo := ti.hashPrefix.toList ++ ti.fields

/-- Every listed field of the destination holds the zero value of its type. -/
def ZeroDest (m : Mem) (ti : TypeInfo) : Prop := ∀ fi ∈ allFields ti, cellRoot m fi.index = some (zeroG (fiType fi))

/-- The destination holds exactly what the model's `finalVals` lists (read through `fOfG`: pointer chains followed). -/
def HoldsFinal (m : Mem) (ti : TypeInfo) (out : Vals) : Prop :=
  ∀ p ∈ finalVals ti out, (cellRoot m p.1).map Examples.fOfG = some p.2

theorem holdsFinal_of_cellsOk (m : Mem) (ti : TypeInfo) (out : Vals) (h : CellsOk m (allFields ti) out) : HoldsFinal m ti out := by
  intro p hp
  rw [finalVals_eq_valOf] at hp
  obtain ⟨fi, hfi, rfl⟩ := List.mem_map.1 hp
  exact h fi hfi

/-- `Unmarshal` = `Codec.unmarshal`, given the interface `LoopTailOk` for the loop and the checks after it. -/
theorem unmarshal_eq_model_of_loopTail (w : World) (hidx : IndexAnyInvalidSpec w.indexAnyInvalid) (hit : IndirectTypeOk w.ext)
    (hut : UnmarshalTextSpec w.unmarshalText) (hfs : FieldStringOk w.ext) (d : Nat)
    (hash : Bytes) (t : RType) (sn : String) (hk : t.kind = .structRef sn) (hd : 0 < t.depth) (hdf : t.depth < w.fuel)
    (m : Mem) (ti : TypeInfo)
    (hparse : ParseOkAt w.ext w.fuel m hash)
    (hget : ∀ m1 : Mem, m1.heap = m.heap → GetTypeInfoOk w.ext m1 t ti)
    (hok : ∀ fi ∈ allFields ti, FieldOkW w { t with depth := 0 } fi)
    (hnd : ((allFields ti).map (·.index)).Nodup)
    (hzero : ZeroDest m ti)
    (hpinl : ∀ hp, ti.hashPrefix = some hp → (hp.opts.hasLength && hp.opts.inline) = false)
    (hLT : ∀ (pv : Val) (as : List Nat) (tia : Nat) (addrs : List Nat) (heap0 : TIIR.Heap) (hpv : TIIR.Val),
       heap0[tia]? = some (tiObj (.rtype t) { t with depth := 0 } hpv addrs ti.numReqValues) → TIIR.Reps heap0 addrs ti.fields →
       LoopTailOk (w.ctx (callIn program w (d + 2))) hash t { t with depth := 0 } pv as tia addrs heap0 (allFields ti) ti.fields) :
    match Codec.unmarshal ti hash with
    | .error e => ∃ m' v heap', callIn program w (d + 3) 5 m [.str hash, .dptr t] = .ok (m', [v]) ∧ absErrU heap' v = some e
    | .ok out => ∃ m', callIn program w (d + 3) 5 m [.str hash, .dptr t] = .ok (m', [.nil]) ∧ HoldsFinal m' ti out := by
  rw [callIn_succ program w (d + 2) 5 m _ unmarshalTopIR (by rfl)]
  have h := unmarshal_top (w.ctx (callIn program w (d + 2))) (w.ctx (callIn program w (d + 1))) (callsU_callIn w hidx hit hut hfs d) rfl
    hash t sn hk hd hdf m ti hparse hget (fun fi hfi => (hok fi hfi).toCtx _) hnd hzero hpinl hLT
  cases hm : Codec.unmarshal ti hash with
  | error e => rw [hm] at h; exact h
  | ok out =>
    rw [hm] at h
    obtain ⟨m', h1, h2⟩ := h
    exact ⟨m', h1, holdsFinal_of_cellsOk m' ti out h2⟩

/-- **One iteration of `for _, fi := range ti.Fields` = the model's `stepField`, for EVERY field and state** (2b with grouped params):
a grouped param (`fi.Opts.Group`) against a group fragment (it becomes the open group, `numGroupValues = len(Values)`), against the group
already open, or against a single value (the synthetic `&parse.GroupNode{Values: {frag}}`); the inner loop to the FIRST member with the
`param=` prefix, `unmarshal` into the field's zero cell, `numGroupValues--`, an inline field shortening the member node in place
(`replaceFirst` in the model); `… not found` for a required param; a non-group field arriving while a group is open (`excessive fragment`
when members are left, else the group is closed and the field is handled as in `step_eq_stepField`).  `LInvG` is the representation
invariant with the open group (`GroupRep`: slot 8 is the group node whose members represent `st.group` — the head fragment's node or the
synthetic one — and `Int.toNat numGroupValues = st.numGroupValues`: Go's `int` may go below 0 where the model's `Nat` stops, both are only
tested with `> 0`). -/
theorem step_eq_stepField_general (c c' : Ctx) (hc : CallsU c c') (hfuel : c'.fuel = c.fuel)
    (hash : Bytes) (t t0 : RType) (pv : Val) (as : List Nat) (tia : Nat) (addrs : List Nat) (heap0 : TIIR.Heap)
    (st tt : RType) (hpv : TIIR.Val) (nreq : Int) (hti : heap0[tia]? = some (tiObj (.rtype st) tt hpv addrs nreq))
    (allF : List FieldInfo) (fi : FieldInfo) (rest : List FieldInfo) (a i : Nat) (hi : addrs[i]? = some a)
    (ha : heap0[a]? = some (fiObj fi)) (hok : FieldOk c t0 fi) (hmem : fi ∈ allF)
    (hdist : ∀ fi' ∈ rest, ¬ fi'.index = fi.index)
    (mm : Mem) (s : LoopSt) (fragIdx : Nat) (lay : List FA) (gv : Val) (ngv : Int)
    (hinv : LInvG heap0 as c.fuel mm s fragIdx lay gv ngv) (hgl : GroupsLe c.fuel s.frags)
    (hcells : CellsOk mm allF s.out) (hzero : ZeroRest mm (fi :: rest)) (fiv fragv : Val) (j : List Val) :
    match stepField hash.length fi s with
    | .error e => ∃ m' v, exec c uBody mm (tEnv hash t t0 pv as tia addrs fragIdx ngv gv s.numValues s.numReq i fiv fragv j) = .ret m' [v] ∧
        absErrU heap0 v = some e
    | .ok s' => ∃ (mm' : Mem) (env' : Env) (fragIdx' : Nat) (lay' : List FA) (gv' : Val) (ngv' : Int) (fragv' : Val),
        (exec c uBody mm (tEnv hash t t0 pv as tia addrs fragIdx ngv gv s.numValues s.numReq i fiv fragv j) = .norm mm' env' ∨
         exec c uBody mm (tEnv hash t t0 pv as tia addrs fragIdx ngv gv s.numValues s.numReq i fiv fragv j) = .cont mm' env') ∧
        IsT env' hash t t0 pv as tia addrs fragIdx' ngv' gv' s'.numValues s'.numReq i (.ptr a) fragv' ∧
        LInvG heap0 as c.fuel mm' s' fragIdx' lay' gv' ngv' ∧ GroupsLe c.fuel s'.frags ∧ CellsOk mm' allF s'.out ∧ ZeroRest mm' rest :=
  step_general c c' hc hfuel hash t t0 pv as tia addrs heap0 st tt hpv nreq hti allF fi rest a i hi ha hok hmem hdist mm s fragIdx lay gv ngv
    hinv hgl hcells hzero fiv fragv j

/-- **The whole loop over `ti.Fields` = the model's `loopFields`, for ALL field lists** (no `group = false` hypothesis; distinct index
paths): started at field `i` in a state that represents `s` — a group may be open —, the loop returns the model's error, or ends normally
in a state that represents `loopFields`' result (possibly with a group still open: `LInvG … gv' ngv'`), the destination cells holding the
model's assignments. -/
theorem loop_eq_loopFields_general (c c' : Ctx) (hc : CallsU c c') (hfuel : c'.fuel = c.fuel)
    (hash : Bytes) (t t0 : RType) (pv : Val) (as : List Nat) (tia : Nat) (addrs : List Nat) (heap0 : TIIR.Heap)
    (st tt : RType) (hpv : TIIR.Val) (nreq : Int) (hti : heap0[tia]? = some (tiObj (.rtype st) tt hpv addrs nreq))
    (allF fields : List FieldInfo) (hreps : TIIR.Reps heap0 addrs fields)
    (hok : ∀ fi ∈ fields, FieldOk c t0 fi ∧ fi ∈ allF) (hnd : (fields.map (·.index)).Nodup)
    (n i : Nat) (mm : Mem) (s : LoopSt) (fragIdx : Nat) (lay : List FA) (gv : Val) (ngv : Int) (fiv fragv : Val) (j : List Val)
    (hi : i ≤ fields.length) (hn : fields.length - i < n) (hinv : LInvG heap0 as c.fuel mm s fragIdx lay gv ngv)
    (hgl : GroupsLe c.fuel s.frags) (hcells : CellsOk mm allF s.out) (hzero : ZeroRest mm (fields.drop i)) :
    match loopFields hash.length (fields.drop i) s with
    | .error e => ∃ m' v, loop (fun m env => eval c m env uLoop.forCond >>= asBool) (exec c uBody) (exec c uLoop.forPost) n mm
          (tEnv hash t t0 pv as tia addrs fragIdx ngv gv s.numValues s.numReq i fiv fragv j) = .ret m' [v] ∧ absErrU heap0 v = some e
    | .ok s' => ∃ (mm' : Mem) (env' : Env) (fragIdx' : Nat) (lay' : List FA) (gv' : Val) (ngv' : Int) (fiv' fragv' : Val),
        loop (fun m env => eval c m env uLoop.forCond >>= asBool) (exec c uBody) (exec c uLoop.forPost) n mm
          (tEnv hash t t0 pv as tia addrs fragIdx ngv gv s.numValues s.numReq i fiv fragv j) = .norm mm' env' ∧
        IsT env' hash t t0 pv as tia addrs fragIdx' ngv' gv' s'.numValues s'.numReq (fields.length : Nat) fiv' fragv' ∧
        LInvG heap0 as c.fuel mm' s' fragIdx' lay' gv' ngv' ∧ CellsOk mm' allF s'.out :=
  loop_general c c' hc hfuel hash t t0 pv as tia addrs heap0 st tt hpv nreq hti allF fields hreps hok hnd n i mm s fragIdx lay gv ngv fiv fragv j
    hi hn hinv hgl hcells hzero

/-- **The checks after the loop, any final state** = the model's `tailModel` (the end of `unmarshalTree`): an open group with members
left is the struct-level `excessive fragment` at the group's end offset, otherwise it is closed (`fragIdx++`); then a left-over
fragment is `excessive fragment`, else `nil`. -/
theorem after_loop_eq_model_general (c : Ctx) (hash : Bytes) (t t0 : RType) (pv : Val) (as : List Nat) (tia : Nat) (addrs : List Nat)
    (heap0 : TIIR.Heap) (mm : Mem) (s : LoopSt) (fragIdx : Nat) (lay : List FA) (gv : Val) (ngv : Int)
    (hinv : LInvG heap0 as c.fuel mm s fragIdx lay gv ngv) (nv nr i : Int) (fiv fragv : Val) (j : List Val) :
    match tailModel s with
    | .error e => ∃ v, exec c uTail mm (tEnv hash t t0 pv as tia addrs fragIdx ngv gv nv nr i fiv fragv j) = .ret mm [v] ∧
        absErrU heap0 v = some e
    | .ok out => exec c uTail mm (tEnv hash t t0 pv as tia addrs fragIdx ngv gv nv nr i fiv fragv j) = .ret mm [.nil] ∧ out = s.out :=
  uTailG_spec c hash t t0 pv as tia addrs heap0 mm s fragIdx lay gv ngv hinv nv nr i fiv fragv j

/-- **`hash.Unmarshal(hash, &v)` regenerated from source = the model `Codec.unmarshal ti hash`, for EVERY struct description** (grouped
params included).  Same statement and hypotheses as `unmarshal_eq_model_nogroup` below, without `fi.Opts.Group = false`. -/
theorem unmarshal_eq_model (w : World) (hidx : IndexAnyInvalidSpec w.indexAnyInvalid) (hit : IndirectTypeOk w.ext)
    (hut : UnmarshalTextSpec w.unmarshalText) (hfs : FieldStringOk w.ext) (d : Nat)
    (hash : Bytes) (t : RType) (sn : String) (hk : t.kind = .structRef sn) (hd : 0 < t.depth) (hdf : t.depth < w.fuel)
    (m : Mem) (ti : TypeInfo)
    (hparse : ParseOkAt w.ext w.fuel m hash)
    (hget : ∀ m1 : Mem, m1.heap = m.heap → GetTypeInfoOk w.ext m1 t ti)
    (hok : ∀ fi ∈ allFields ti, FieldOkW w { t with depth := 0 } fi)
    (hnd : ((allFields ti).map (·.index)).Nodup)
    (hzero : ZeroDest m ti)
    (hpinl : ∀ hp, ti.hashPrefix = some hp → (hp.opts.hasLength && hp.opts.inline) = false)
    (hlen : ti.fields.length < w.fuel) :
    match Codec.unmarshal ti hash with
    | .error e => ∃ m' v heap', callIn program w (d + 3) 5 m [.str hash, .dptr t] = .ok (m', [v]) ∧ absErrU heap' v = some e
    | .ok out => ∃ m', callIn program w (d + 3) 5 m [.str hash, .dptr t] = .ok (m', [.nil]) ∧ HoldsFinal m' ti out := by
  apply unmarshal_eq_model_of_loopTail w hidx hit hut hfs d hash t sn hk hd hdf m ti hparse hget hok hnd hzero hpinl
  intro pv as tia addrs heap0 hpv hti hreps
  have hndf : (ti.fields.map (·.index)).Nodup := by
    have : (ti.fields.map (·.index)).Sublist ((allFields ti).map (·.index)) :=
      (List.sublist_append_right _ _).map _
    exact List.Nodup.sublist this hnd
  exact loopTail_general (w.ctx (callIn program w (d + 2))) (w.ctx (callIn program w (d + 1))) (callsU_callIn w hidx hit hut hfs d) rfl
    hash t { t with depth := 0 } pv as tia addrs heap0 t { t with depth := 0 } hpv ti.numReqValues hti (allFields ti) ti.fields hreps
    (fun fi hfi => ⟨(hok fi (List.mem_append_right _ hfi)).toCtx _, List.mem_append_right _ hfi⟩) hndf hlen

/-- **`hash.Unmarshal(hash, &v)` regenerated from source = the model `Codec.unmarshal ti hash`, for struct descriptions WITHOUT grouped
params** (`fi.Opts.Group = false` for every field of `ti`; the hash may contain group fragments).  `v` is a non-nil pointer to a struct
whose listed fields are all zero; `getTypeInfo` returns a record for `ti`; `parse.Parse` behaves as the model's parser on this hash.
Then: if the model returns the assignments `out`, the regenerated `Unmarshal` returns `nil` and every listed field of the destination
holds the value `finalVals ti out` lists for it (pointer fields: allocated, pointing to that value); if the model returns an error,
`Unmarshal` returns an error value that abstracts (`absErrU`: node kind, offset, field name, message class — or the `*parse.SyntaxError`)
to exactly that error.  What was stored before an error is not compared.  The model has no `InvalidUnmarshalError`: the statement is
restricted to a non-nil pointer to a struct. -/
theorem unmarshal_eq_model_nogroup (w : World) (hidx : IndexAnyInvalidSpec w.indexAnyInvalid) (hit : IndirectTypeOk w.ext)
    (hut : UnmarshalTextSpec w.unmarshalText) (hfs : FieldStringOk w.ext) (d : Nat)
    (hash : Bytes) (t : RType) (sn : String) (hk : t.kind = .structRef sn) (hd : 0 < t.depth) (hdf : t.depth < w.fuel)
    (m : Mem) (ti : TypeInfo)
    (hparse : ParseOkAt w.ext w.fuel m hash)
    (hget : ∀ m1 : Mem, m1.heap = m.heap → GetTypeInfoOk w.ext m1 t ti)
    (hok : ∀ fi ∈ allFields ti, FieldOkW w { t with depth := 0 } fi)
    (hnd : ((allFields ti).map (·.index)).Nodup)
    (hzero : ZeroDest m ti)
    (hpinl : ∀ hp, ti.hashPrefix = some hp → (hp.opts.hasLength && hp.opts.inline) = false)
    (hng : ∀ fi ∈ ti.fields, fi.opts.group = false) (hlen : ti.fields.length < w.fuel) :
    match Codec.unmarshal ti hash with
    | .error e => ∃ m' v heap', callIn program w (d + 3) 5 m [.str hash, .dptr t] = .ok (m', [v]) ∧ absErrU heap' v = some e
    | .ok out => ∃ m', callIn program w (d + 3) 5 m [.str hash, .dptr t] = .ok (m', [.nil]) ∧ HoldsFinal m' ti out := by
  apply unmarshal_eq_model_of_loopTail w hidx hit hut hfs d hash t sn hk hd hdf m ti hparse hget hok hnd hzero hpinl
  intro pv as tia addrs heap0 hpv hti hreps
  have hndf : (ti.fields.map (·.index)).Nodup := by
    have : (ti.fields.map (·.index)).Sublist ((allFields ti).map (·.index)) :=
      (List.sublist_append_right _ _).map _
    exact List.Nodup.sublist this hnd
  exact loopTail_nogroup (w.ctx (callIn program w (d + 2))) (w.ctx (callIn program w (d + 1))) (callsU_callIn w hidx hit hut hfs d) rfl
    hash t { t with depth := 0 } pv as tia addrs heap0 t { t with depth := 0 } hpv ti.numReqValues hti (allFields ti) ti.fields hreps
    (fun fi hfi => ⟨(hok fi (List.mem_append_right _ hfi)).toCtx _, hng fi hfi, List.mem_append_right _ hfi⟩) hndf hlen

/-- **`unmarshalIndirect` on the destination value** (function 8 on `reflect.ValueOf(v)` for a chain of non-nil pointers): returns the
value at the end of the chain, stores nothing. -/
theorem unmarshalIndirect_root_eq (w : World) (d : Nat) (m : Mem) (t : RType) (hf : t.depth < w.fuel) :
    callIn program w (d + 1) 8 m [.root t] = .ok (m, [.root { t with depth := 0 }]) := by
  rw [callIn_succ program w d 8 m _ unmarshalIndirectIR (by rfl)]
  exact unmarshalIndirect_root _ m t hf

/-- **`Unmarshal` passes an error of `getTypeInfo` on** (an invalid struct tag, a parameter conflict): when `parse.Parse` succeeded —
it is called FIRST, so a syntax error in the hash wins over a bad struct description — the returned value abstracts to the model's
`UErr.tag e`. -/
theorem unmarshal_getTypeInfo_error (w : World) (hidx : IndexAnyInvalidSpec w.indexAnyInvalid) (hit : IndirectTypeOk w.ext)
    (hut : UnmarshalTextSpec w.unmarshalText) (hfs : FieldStringOk w.ext) (d : Nat)
    (hash : Bytes) (t : RType) (sn : String) (hk : t.kind = .structRef sn) (hd : 0 < t.depth) (hdf : t.depth < w.fuel)
    (m : Mem) (e : TagErr) (nodes' : List PNode) (tree : Val)
    (hp : w.ext "parse.Parse" m [.str hash] = .ok ({ m with nodes := nodes' }, [tree, .nil]))
    (hget : GetTypeInfoErr w.ext { m with nodes := nodes' } t e) :
    ∃ m' v, callIn program w (d + 3) 5 m [.str hash, .dptr t] = .ok (m', [v]) ∧ absErrU m'.heap v = some (.tag e) := by
  rw [callIn_succ program w (d + 2) 5 m _ unmarshalTopIR (by rfl)]
  exact unmarshal_top_tiErr (w.ctx (callIn program w (d + 2))) (w.ctx (callIn program w (d + 1))) (callsU_callIn w hidx hit hut hfs d) rfl
    hash t sn hk hd hdf m e nodes' tree hp hget

#print axioms unmarshal_getTypeInfo_error
#print axioms unmarshalIndirect_root_eq
#print axioms unmarshal_eq_model_of_loopTail
#print axioms unmarshal_eq_model_nogroup
#print axioms step_eq_stepField_general
#print axioms loop_eq_loopFields_general
#print axioms after_loop_eq_model_general
#print axioms unmarshal_eq_model

end GoCrypt.CodecIRU
