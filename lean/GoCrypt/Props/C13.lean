import GoCrypt.Props.C13IR
import GoCrypt.Props.C13Sound

/-!
# C13 — key derivation is pure: arguments untouched, result not aliased, deterministic

* `Props/C13IR.lean`: for each of the ten `Key` functions the kernel decides `argSafe` and
  `resultFresh` on the slice-effect IR regenerated from the current source.
* `Props/C13Sound.lean`: what those booleans MEAN — a concrete nondeterministic semantics of the IR
  (`Spec/SliceSem.lean`: arrays with an origin, a store log and a return log; every execution is some
  sequence of the program's statements) and the soundness theorems: `argSafe p` ⇒ no run ever stores
  into an argument's or a package variable's array; `resultFresh p` ⇒ every returned array was
  allocated by this call; results of two calls never share an array. Completeness theorems show the
  analysis rejects only programs that have an offending run (or need more passes).

The obligations of C13 are the union of both files.
-/

namespace GoCrypt.C13

#print axioms argSafe_argon2
#print axioms argSafe_bcrypt
#print axioms argSafe_des
#print axioms argSafe_desext
#print axioms argSafe_md5
#print axioms argSafe_nthash
#print axioms argSafe_sha1
#print axioms argSafe_sha256
#print axioms argSafe_sha512
#print axioms argSafe_sunmd5
#print axioms resultFresh_argon2
#print axioms resultFresh_bcrypt
#print axioms resultFresh_des
#print axioms resultFresh_desext
#print axioms resultFresh_md5
#print axioms resultFresh_nthash
#print axioms resultFresh_sha1
#print axioms resultFresh_sha256
#print axioms resultFresh_sha512
#print axioms resultFresh_sunmd5
#print axioms GoCrypt.C13Sound.pointsTo_sound
#print axioms GoCrypt.C13Sound.pointsTo_exact
#print axioms GoCrypt.C13Sound.argSafe_sound
#print axioms GoCrypt.C13Sound.resultFresh_sound
#print axioms GoCrypt.C13Sound.results_disjoint_across_calls
#print axioms GoCrypt.C13Sound.later_call_never_stores_into_earlier_result
#print axioms GoCrypt.C13Sound.argSafe_complete
#print axioms GoCrypt.C13Sound.resultFresh_complete
#print axioms GoCrypt.C13Sound.argon2_key_never_stores_into_arguments
#print axioms GoCrypt.C13Sound.bcrypt_key_never_stores_into_arguments
#print axioms GoCrypt.C13Sound.des_key_never_stores_into_arguments
#print axioms GoCrypt.C13Sound.desext_key_never_stores_into_arguments
#print axioms GoCrypt.C13Sound.md5_key_never_stores_into_arguments
#print axioms GoCrypt.C13Sound.nthash_key_never_stores_into_arguments
#print axioms GoCrypt.C13Sound.sha1_key_never_stores_into_arguments
#print axioms GoCrypt.C13Sound.sha256_key_never_stores_into_arguments
#print axioms GoCrypt.C13Sound.sha512_key_never_stores_into_arguments
#print axioms GoCrypt.C13Sound.sunmd5_key_never_stores_into_arguments
#print axioms GoCrypt.C13Sound.argon2_key_returns_only_fresh_memory
#print axioms GoCrypt.C13Sound.bcrypt_key_returns_only_fresh_memory
#print axioms GoCrypt.C13Sound.des_key_returns_only_fresh_memory
#print axioms GoCrypt.C13Sound.desext_key_returns_only_fresh_memory
#print axioms GoCrypt.C13Sound.md5_key_returns_only_fresh_memory
#print axioms GoCrypt.C13Sound.nthash_key_returns_only_fresh_memory
#print axioms GoCrypt.C13Sound.sha1_key_returns_only_fresh_memory
#print axioms GoCrypt.C13Sound.sha256_key_returns_only_fresh_memory
#print axioms GoCrypt.C13Sound.sha512_key_returns_only_fresh_memory
#print axioms GoCrypt.C13Sound.sunmd5_key_returns_only_fresh_memory
#print axioms GoCrypt.C13Sound.bcrypt_keys_of_two_calls_are_disjoint

end GoCrypt.C13
