import GoCrypt.Proofs.Base64DecodeCanon

/-!
# C16, decode direction — `Decode` against a declarative reference decoder, for every text

Property theorems only.  The reference is `Spec/Base64Ref.lean` (`refDecode`: drop `\r`/`\n`, read a
run of alphabet symbols, require the padding the last quantum calls for and nothing else, regroup the
6-bit values little-endian, check the unused bits in strict mode; on failure the offset `Decode` puts
in its `CorruptInputError`).  The model is `Model/Base64LE.lean` (`decodeString`/`decode`: the three
loops of `Decode` with the 8-symbol and 4-symbol fast paths, `decodeQuantum`, and a destination buffer
of `DecodedLen(len(text))` bytes).  Helper lemmas are in `Proofs/Base64Decode{Sig,Verdict,Loop,Canon}.lean`.

`decodeString e text : Bytes × Option Nat` is `DecodeString`'s pair `(dbuf[:n], err)`;
`decodeResult e text : Except Nat Bytes` is that pair read as a result: `.ok dbuf[:n]` when `err` is
nil, `.error off` when it is `CorruptInputError(off)` (the bytes `Decode` leaves next to an error are
not part of it).  `WellFormed e` is what `NewEncoding`/`WithPadding` enforce by panicking otherwise.

No disagreement between the model and the reference was found: the equivalence below holds for all
texts and all well-formed encodings.
-/

namespace GoCrypt.C16Decode
open GoCrypt.Base64LE GoCrypt.Spec.Base64Bits GoCrypt.Spec.Base64Ref

/-! ## The decoder is the reference decoder -/

/-- (a) For every well-formed encoding and EVERY text, `DecodeString` and the reference decoder agree:
same bytes when the text is accepted, same `CorruptInputError` offset when it is rejected. -/
theorem decode_eq_ref {e : Encoding} (wf : WellFormed e) (text : Bytes) :
    decodeResult e text = refDecode e text := by
  rw [decodeResult_eq]; exact (decode_ref wf text).2

/-- (a) On no text does `Decode` store outside its `DecodedLen`-sized buffer (Go would panic): the
model's `panic` flag, which `decodeString` does not look at, is never raised. -/
theorem decode_never_panics {e : Encoding} (wf : WellFormed e) (text : Bytes) :
    (decode e (decodedLen e text.length) text).panic = false :=
  (decode_ref wf text).1

/-- (a) Acceptance: `DecodeString` returns `b` without error exactly when the reference accepts the
text with bytes `b`. -/
theorem decode_ok_iff_ref {e : Encoding} (wf : WellFormed e) (text b : Bytes) :
    decodeString e text = (b, none) ↔ refDecode e text = .ok b := by
  rw [← decode_eq_ref wf text]
  unfold decodeResult
  rcases h : decodeString e text with ⟨b', err⟩
  cases err <;> simp

/-- (a) Rejection: `DecodeString` fails with `CorruptInputError(off)` exactly when the reference
rejects the text at offset `off`. -/
theorem decode_error_iff_ref {e : Encoding} (wf : WellFormed e) (text : Bytes) (off : Nat) :
    (decodeString e text).2 = some off ↔ refDecode e text = .error off := by
  rw [← decode_eq_ref wf text]
  unfold decodeResult
  rcases h : decodeString e text with ⟨b', err⟩
  cases err <;> simp

/-! ## What is accepted -/

/-- (b) An accepted text is the canonical encoding of the bytes it decodes to, newlines apart — exactly
so in strict mode; in lenient mode it may differ from it only in the unused bits of the last symbol of
a partial quantum.  Precisely: without its `\r`/`\n` the text is `digits.map e.sym ++ pads` for 6-bit
`digits` and padding characters `pads`, while `Encode(b)` is `(clearUnused digits).map e.sym ++ pads`,
where `clearUnused` reduces the last of 2 (resp. 3) digits of a final partial quantum mod 4 (resp. 16)
and changes nothing else; the two coincide whenever those bits are zero, which strict mode demands. -/
theorem accepted_is_canonical_or_tolerated {e : Encoding} (wf : WellFormed e) {text b : Bytes}
    (h : decodeString e text = (b, none)) :
    (e.strict = true → (text.filter fun c => !isNewline c) = encode e b) ∧
    ∃ digits pads, (∀ d ∈ digits, d < 64) ∧ (∀ p ∈ pads, e.pad = some p) ∧
      (text.filter fun c => !isNewline c) = digits.map e.sym ++ pads ∧
      encode e b = (clearUnused digits).map e.sym ++ pads ∧
      (unusedBits digits = 0 → (text.filter fun c => !isNewline c) = encode e b) := by
  obtain ⟨D, hlt, _, hstr, hb, hk, hstrict⟩ := ref_ok_shape wf ((decode_ok_iff_ref wf text b).1 h)
  have henc := encode_regroup e D hlt hk
  rw [← hb] at henc
  have hcanon : unusedBits D = 0 → (text.filter fun c => !isNewline c) = encode e b := by
    intro h0
    rw [henc, hstr, ← canonDigits_eq, canonDigits_of_unused_zero D hlt h0]
  exact ⟨fun hs => hcanon (hstrict hs), D, padsFor e D.length, hlt, fun p hp => mem_padsFor hp, hstr, henc,
    hcanon⟩

/-- (c) Never silent garbage: an accepted text consists of alphabet symbols, newlines and padding
characters only, and the bytes returned are the little-endian 6-bit regrouping (`regroup`, the inverse
of the `Base64Bits` encoding, see `regroup_inverts_spec`) of the values of ALL its symbols, in order —
`⌊6·symbols/8⌋` bytes. -/
theorem never_silent_garbage {e : Encoding} (wf : WellFormed e) {text b : Bytes}
    (h : decodeString e text = (b, none)) :
    (∀ c ∈ text, isSymbol e c = true ∨ isNewline c = true ∨ isPadding e c = true) ∧
    b = regroup ((text.filter (isSymbol e)).map (symbolValue e)) ∧
    b.length = (text.filter (isSymbol e)).length * 6 / 8 := by
  obtain ⟨D, hlt, hD, hstr, hb, _, _⟩ := ref_ok_shape wf ((decode_ok_iff_ref wf text b).1 h)
  refine ⟨fun c hc => ?_, by rw [hb, hD], by rw [hb, regroup_length, hD, List.length_map]⟩
  cases hn : isNewline c
  · have hmem : c ∈ text.filter fun c => !isNewline c := List.mem_filter.2 ⟨hc, by simp [hn]⟩
    rw [hstr] at hmem
    rcases List.mem_append.1 hmem with hm | hm
    · left
      obtain ⟨d, hd, rfl⟩ := List.mem_map.1 hm
      have hd64 : d < e.alphabet.length := by rw [wf.length]; exact hlt d hd
      unfold isSymbol Encoding.sym
      rw [List.contains_iff_mem, List.getD_eq_getElem?_getD, List.getElem?_eq_getElem hd64]
      exact List.getElem_mem _
    · right; right; exact (isPadding_iff e c).2 (mem_padsFor hm)
  · right; left; rfl

/-- (c) `regroup` is the bit-level encoding of `Spec/Base64Bits.lean` run backwards: regrouping the
symbol values of `specEncode`'s output gives the bytes back. -/
theorem regroup_inverts_spec {e : Encoding} (wf : WellFormed e) (b : Bytes) :
    regroup (((specEncode e.alphabet e.pad b).filter (isSymbol e)).map (symbolValue e)) = b := by
  have h := decodeString_encode wf b
  rw [encode_eq_specEncode] at h
  exact ((never_silent_garbage wf h).2.1).symm

/-! ## What is rejected -/

/-- (d) Malformed text is rejected, and the error points at or before the offending byte.
A byte that is neither an alphabet symbol, nor `\r`/`\n`, nor the padding character makes `DecodeString`
fail with `CorruptInputError(off)`, `off ≤` the index of that byte; when only symbols and newlines
precede it, `off` is exactly its index.  (An unpadded encoding has no padding character, so there
`=` is such a byte.) -/
theorem malformed_rejected {e : Encoding} (wf : WellFormed e) (text : Bytes) (i : Nat) (hi : i < text.length)
    (hsym : isSymbol e text[i] = false) (hnl : isNewline text[i] = false)
    (hpad : isPadding e text[i] = false) :
    (∃ off, (decodeString e text).2 = some off ∧ off ≤ i) ∧
    ((∀ j (hj : j < i), isSymbol e text[j] = true ∨ isNewline text[j] = true) →
      (decodeString e text).2 = some i) := by
  constructor
  · obtain ⟨off, hoff, hle⟩ := ref_foreign (e := e) text i hi hsym hnl hpad
    exact ⟨off, (decode_error_iff_ref wf text off).2 hoff, hle⟩
  · intro hbefore
    have hsplit : text = text.take i ++ text[i] :: text.drop (i + 1) := by
      rw [List.getElem_cons_drop, List.take_append_drop]
    have hP : ∀ x ∈ text.take i, isSymbol e x = true ∨ isNewline x = true := by
      intro x hx
      obtain ⟨j, hj, rfl⟩ := List.getElem_of_mem hx
      have hj' : j < i := by simp only [List.length_take] at hj; omega
      rw [List.getElem_take]
      exact hbefore j hj'
    have := ref_first_foreign (text.take i) (text.drop (i + 1)) text[i] hP hsym hnl hpad
    rw [← hsplit, List.length_take, Nat.min_eq_left (Nat.le_of_lt hi)] at this
    exact (decode_error_iff_ref wf text i).2 this

/-- (d) Nothing but newlines and padding may follow padding: if a byte that is not a symbol (for
instance the padding character) is followed, anywhere later, by a byte that is neither a newline nor
the padding character (for instance a symbol), the text is rejected with an offset at or before the
later byte. -/
theorem nothing_after_padding {e : Encoding} (wf : WellFormed e) (text : Bytes) (i j : Nat)
    (hij : i < j) (hj : j < text.length)
    (hsym : isSymbol e (text[i]'(by omega)) = false) (hnl : isNewline (text[i]'(by omega)) = false)
    (hnl' : isNewline text[j] = false) (hpad' : isPadding e text[j] = false) :
    ∃ off, (decodeString e text).2 = some off ∧ off ≤ j := by
  obtain ⟨off, hoff, hle⟩ := ref_after_nonsymbol (e := e) text i j hij hj hsym hnl hnl' hpad'
  exact ⟨off, (decode_error_iff_ref wf text off).2 hoff, hle⟩

/-- (d) Incomplete final quantum.  A text of symbols and newlines only whose number of symbols is
`1 mod 4` is rejected (one symbol cannot hold a byte); under a padded encoding so is any such text
whose number of symbols is not a multiple of 4 (the padding is missing).  The offset is the text
length minus the number of symbols in the incomplete quantum. -/
theorem incomplete_rejected {e : Encoding} (wf : WellFormed e) (text : Bytes)
    (hall : ∀ c ∈ text, isSymbol e c = true ∨ isNewline c = true)
    (hk : (text.filter (isSymbol e)).length % 4 = 1 ∨
      (e.pad.isSome = true ∧ (text.filter (isSymbol e)).length % 4 ≠ 0)) :
    (decodeString e text).2 = some (text.length - (text.filter (isSymbol e)).length % 4) := by
  exact (decode_error_iff_ref wf text _).2 (ref_incomplete wf text hall hk)

/-! ## Non-vacuity: concrete texts, decided on the reference and transported to the model

Alphabet `./0-9A-Za-z`: `.` = 46 is digit 0, `/` = 47 digit 1, `2` = 50 digit 4, `z` = 122 digit 63;
`=` = 61, `!` = 33, `\n` = 10, `\r` = 13. -/

def unpadded : Encoding := ⟨GoCrypt.Gen.hash.encoder, none, false⟩
def unpaddedStrict : Encoding := ⟨GoCrypt.Gen.hash.encoder, none, true⟩
def padded : Encoding := ⟨GoCrypt.Gen.hash.encoder, some 61, false⟩
def paddedStrict : Encoding := ⟨GoCrypt.Gen.hash.encoder, some 61, true⟩

theorem wf_unpadded : WellFormed unpadded := (wellFormed_hash false).1
theorem wf_unpaddedStrict : WellFormed unpaddedStrict := (wellFormed_hash true).1
theorem wf_padded : WellFormed padded := (wellFormed_hash false).2
theorem wf_paddedStrict : WellFormed paddedStrict := (wellFormed_hash true).2

/-- Accepted: 19 symbols (two quanta through the 8-symbol path, one through the 4-symbol path, a
3-symbol tail) decode to 14 bytes. -/
example : decodeString unpadded
    [122, 122, 122, 122, 46, 46, 46, 46, 47, 46, 46, 46, 46, 47, 46, 46, 122, 122, 47] =
    ([255, 255, 255, 0, 0, 0, 1, 0, 0, 64, 0, 0, 255, 31], none) :=
  (decode_ok_iff_ref wf_unpadded _ _).2 (by decide +kernel)

/-- Accepted: newlines anywhere, also inside a quantum and at the end: `.\n./\r\n.\n` is the quantum `../.`. -/
example : decodeString unpadded [46, 10, 46, 47, 13, 10, 46, 10] = ([0, 16, 0], none) :=
  (decode_ok_iff_ref wf_unpadded _ _).2 (by decide +kernel)

/-- Accepted, padded: `/.==`, also with newlines between and after the padding characters. -/
example : decodeString padded [47, 46, 61, 61] = ([1], none) ∧
    decodeString padded [47, 46, 61, 10, 61, 13, 10] = ([1], none) ∧
    decodeString paddedStrict [47, 46, 46, 61] = ([1, 0], none) :=
  ⟨(decode_ok_iff_ref wf_padded _ _).2 (by decide +kernel),
   (decode_ok_iff_ref wf_padded _ _).2 (by decide +kernel),
   (decode_ok_iff_ref wf_paddedStrict _ _).2 (by decide +kernel)⟩

/-- Rejected: a foreign byte `!` where the 8-symbol fast path is active (index 3 of 16), in the second
8-symbol group (index 9 of 16), where the 4-symbol path is active (index 9 of 12), and in the tail
(index 10 of 11) — each time located exactly. -/
example :
    (decodeString unpadded [46, 46, 46, 33, 46, 46, 46, 46, 46, 46, 46, 46, 46, 46, 46, 46]).2 = some 3 ∧
    (decodeString unpadded [46, 46, 46, 46, 46, 46, 46, 46, 46, 33, 46, 46, 46, 46, 46, 46]).2 = some 9 ∧
    (decodeString unpadded [46, 46, 46, 46, 46, 46, 46, 46, 46, 33, 46, 46]).2 = some 9 ∧
    (decodeString unpadded [46, 46, 46, 46, 46, 46, 46, 46, 46, 46, 33]).2 = some 10 :=
  ⟨(decode_error_iff_ref wf_unpadded _ _).2 (by decide +kernel),
   (decode_error_iff_ref wf_unpadded _ _).2 (by decide +kernel),
   (decode_error_iff_ref wf_unpadded _ _).2 (by decide +kernel),
   (decode_error_iff_ref wf_unpadded _ _).2 (by decide +kernel)⟩

/-- Rejected: stray padding.  `=` under an unpadded encoding (offset of the `=`); under a padded one
`=` in the first half of a quantum (`=...` at 0, `....=` at 4), a single `=` where two are
needed (`/.=` at the text length 3; `/.=!` one byte before the `!`, at 2), and anything after the padding
(`/.==.` at 4, `/..=/` at 4). -/
example :
    (decodeString unpadded [47, 46, 61]).2 = some 2 ∧
    (decodeString padded [61, 46, 46, 46]).2 = some 0 ∧
    (decodeString padded [46, 46, 46, 46, 61]).2 = some 4 ∧
    (decodeString padded [47, 46, 61]).2 = some 3 ∧
    (decodeString padded [47, 46, 61, 33]).2 = some 2 ∧
    (decodeString padded [47, 46, 61, 61, 46]).2 = some 4 ∧
    (decodeString padded [47, 46, 46, 61, 47]).2 = some 4 :=
  ⟨(decode_error_iff_ref wf_unpadded _ _).2 (by decide +kernel),
   (decode_error_iff_ref wf_padded _ _).2 (by decide +kernel),
   (decode_error_iff_ref wf_padded _ _).2 (by decide +kernel),
   (decode_error_iff_ref wf_padded _ _).2 (by decide +kernel),
   (decode_error_iff_ref wf_padded _ _).2 (by decide +kernel),
   (decode_error_iff_ref wf_padded _ _).2 (by decide +kernel),
   (decode_error_iff_ref wf_padded _ _).2 (by decide +kernel)⟩

/-- Rejected: a dangling symbol (`.....` at 4; with a trailing newline the offset is still the text
length minus one, 5, which is the newline), and missing padding under a padded encoding (`/.` at 0). -/
example :
    (decodeString unpadded [46, 46, 46, 46, 46]).2 = some 4 ∧
    (decodeString unpadded [46, 46, 46, 46, 46, 10]).2 = some 5 ∧
    (decodeString padded [47, 46]).2 = some 0 :=
  ⟨(decode_error_iff_ref wf_unpadded _ _).2 (by decide +kernel),
   (decode_error_iff_ref wf_unpadded _ _).2 (by decide +kernel),
   (decode_error_iff_ref wf_padded _ _).2 (by decide +kernel)⟩

/-- Strict mode: `/2` has digits 1, 4; the byte is `0x01` and the unused bits are `4/4 = 1`.  Lenient
decoding accepts it, strict decoding rejects it at 0 (`/2==` at 2); `/.z` (digits 1, 0, 63, unused bits
`63/16 = 3`) is accepted leniently and rejected strictly at 2; `/./` has zero unused bits and is accepted
strictly. -/
example :
    decodeString unpadded [47, 50] = ([1], none) ∧
    (decodeString unpaddedStrict [47, 50]).2 = some 0 ∧
    (decodeString paddedStrict [47, 50, 61, 61]).2 = some 2 ∧
    decodeString unpadded [47, 46, 122] = ([1, 240], none) ∧
    (decodeString unpaddedStrict [47, 46, 122]).2 = some 2 ∧
    decodeString unpaddedStrict [47, 46, 47] = ([1, 16], none) :=
  ⟨(decode_ok_iff_ref wf_unpadded _ _).2 (by decide +kernel),
   (decode_error_iff_ref wf_unpaddedStrict _ _).2 (by decide +kernel),
   (decode_error_iff_ref wf_paddedStrict _ _).2 (by decide +kernel),
   (decode_ok_iff_ref wf_unpadded _ _).2 (by decide +kernel),
   (decode_error_iff_ref wf_unpaddedStrict _ _).2 (by decide +kernel),
   (decode_ok_iff_ref wf_unpaddedStrict _ _).2 (by decide +kernel)⟩

/-- The lenient/strict difference of `accepted_is_canonical_or_tolerated` is real: `/2` is accepted
leniently although the canonical encoding of its result `[1]` is `/.`. -/
example : decodeString unpadded [47, 50] = ([1], none) ∧ encode unpadded [1] = [47, 46] ∧
    clearUnused [1, 4] = [1, 0] ∧ unusedBits [1, 4] = 1 :=
  ⟨(decode_ok_iff_ref wf_unpadded _ _).2 (by decide +kernel), by decide +kernel, by decide, by decide⟩

#print axioms decode_eq_ref
#print axioms decode_never_panics
#print axioms decode_ok_iff_ref
#print axioms decode_error_iff_ref
#print axioms accepted_is_canonical_or_tolerated
#print axioms never_silent_garbage
#print axioms regroup_inverts_spec
#print axioms malformed_rejected
#print axioms nothing_after_padding
#print axioms incomplete_rejected

end GoCrypt.C16Decode
