import GoCrypt.Proofs.Absorb2Check
import GoCrypt.Proofs.Absorb2DesExample
import GoCrypt.Proofs.Absorb2DesTwin

/-!
# C02 (continued) — absorption for DES-crypt, BSDi extended DES, bcrypt, NT hash and Argon2

"A wrong password never verifies: `Check` returns nil only if the password is equivalent to the
original under the scheme's documented truncation rules."  `Props/C02.lean` reduces `Check = nil` to
"`Key`'s result re-encodes to the stored digest"; `Props/KdfProps.lean` gives the absorption
reductions of the four hash-based schemes. This file closes the gap for the other five. For each:

1. the documented equivalence as a **decidable** relation (`Proofs/Absorb2Defs.lean`);
2. *equivalent ⇒ equal keys* — the truncation rule is exactly what the model implements;
3. *equal keys ⇒ equivalent ∨ collision*, where the second disjunct is a named `Prop` about the
   **primitive only** (FIPS DES, the BSDi folding step, EksBlowfish, MD4, BLAKE2b-512, the Argon2 core) —
   an explicit disjunct, never an axiom — in a *located* form (the colliding inputs are named) and the
   unlocated one;
4. the same in the property's words: two passwords that both `Check` against one hash are equivalent,
   or the primitive collides for that hash's parameters (`*_check_absorbs`, via `C02.check_ok_iff` and the
   injectivity of the digest encoders).

| scheme | equivalence | collision disjunct(s) |
|--------|-------------|-----------------------|
| DES-crypt | `desEquiv`: low 7 bits of the first 8 bytes, zero-padded | `DesCryptCollision salt`: two different 56-bit keys, same 25-fold salted encryption of 0 |
| BSDi | `desextEquiv`: same number of 8-byte blocks, 7-bit contents agree | `BsdiChainCollision` (folding step `k ↦ DES_k(k) ⊕ d`), `ParityTwins`, `DesCryptNCollision salt rounds` |
| bcrypt | `bcryptEquiv pfx`: the 72 key bytes the Blowfish schedule reads agree | `BcryptCollision salt cost`: two different 72-byte keys, same 23 bytes |
| NT hash | `utf16le pw = utf16le pw'` | `Collision md4` |
| Argon2 | equality (passwords `< 2^32` bytes) | `Collision blake2b512`, `Argon2CoreCollision t m' p T y v` |

**Findings** (each is a theorem below; none is specific to go-crypt — libxcrypt behaves the same — but
each shows that the *documented* rule is not the whole kernel of `Check`):

* **BSDi key folding collides trivially** (`desext_fold_collision`): the 16-character passwords
  `passwd30aapaaaaa` and `passwd51ou9lRYvq` are not equivalent under the documented rule, yet have the
  same folded key, hence the same hash for every salt and round count. The folding step XORs 56 freely
  chosen bits into the state; only the 8 parity positions of `DES_k(k)` constrain a collision.
* **Every BSDi password has an 8-byte twin** (`desext_short_twin`, `desext_twin_checks`): the folded key is
  used *as a DES key*, which ignores 8 of its 64 bits (`desWord_ignores_parity`), so the 8 bytes
  "upper seven bits of each byte of the folded key" verify wherever the password does — e.g. the bytes
  `56 24 0D 64 76 5C 3F 30` against any hash of `correct horse battery staple` (checked against go-crypt).
  For passwords of more than 8 bytes the twin is never equivalent under the documented rule.
* **go-crypt's `des.Key` rejects passwords longer than 8 bytes** (`des_check_rejects_long`) where crypt(3)
  truncates: of the documented DES rule only the 7-bit masking and the zero padding are observable.
* **bcrypt's equivalence is coarser than "first 72 bytes + NUL"** when the password contains a NUL byte
  (possible in a Go string) or the variant is `$2$`: the key schedule reads the key *cyclically*, so `a`
  and `a\0a` (`$2a$`/`$2b$`), `ab` and `abab` (`$2$`) share all hashes (`bcryptEquiv_coarser`). For
  NUL-free passwords under `$2a$`/`$2b$` the documented rule is exact (`bcryptEquiv_iff_take72`).
  For `$2a$` the 72-byte cut is made by Blowfish, not by `bcrypt.Key`.
* NT hash: `utf16le` is not injective on ill-formed UTF-8 (`utf16le_not_injective`); it is on
  well-formed input (`utf16le_injective_on_valid`).
-/

namespace GoCrypt.C02b
open GoCrypt GoCrypt.Scheme GoCrypt.Codec GoCrypt.Kdf GoCrypt.CryptSpec GoCrypt.CryptSpec2 GoCrypt.Absorb2

/-! ## DES-crypt -/

/-- (i)/(ii) `descrypt.Key` identifies exactly the documented classes: the low 7 bits of the first 8
bytes, zero-padded. -/
theorem desKey_eq_iff (pw pw' : Bytes) : Des.desKey pw = Des.desKey pw' ↔ desEquiv pw pw' := desKey_eq_iff' pw pw'

/-- `descrypt.Key` produces 56-bit keys: the eight parity positions are clear. -/
theorem desKey_parityFree (pw : Bytes) : ParityFree (Des.desKey pw) := Absorb2.desKey_parityFree pw

/-- What the model computes after the key step is the crypt(3) core over FIPS 46-3 DES. -/
theorem des_core_eq_fips (k : UInt64) (salt n : Nat) : Des.encrypt k 0 (UInt32.ofNat salt) n = desCryptN salt n k :=
  encrypt_eq_desCryptN k salt n

/-- (ii) Equivalent passwords have the same DES-crypt result, for every salt. -/
theorem des_of_equiv (pw pw' : Bytes) (salt : UInt32) (h : desEquiv pw pw') :
    Des.encrypt (Des.desKey pw) 0 salt 25 = Des.encrypt (Des.desKey pw') 0 salt 25 := by
  rw [(desKey_eq_iff pw pw').2 h]

/-- (iii) DES-crypt absorbs its password, located form: equal results come from equivalent passwords, or
the two (different, 56-bit) keys of the two passwords collide under 25-fold salted DES. -/
theorem des_absorbs_located (pw pw' : Bytes) (salt : Nat)
    (h : Des.encrypt (Des.desKey pw) 0 (UInt32.ofNat salt) 25 = Des.encrypt (Des.desKey pw') 0 (UInt32.ofNat salt) 25) :
    desEquiv pw pw' ∨
      (Des.desKey pw ≠ Des.desKey pw' ∧ desCrypt25 salt (Des.desKey pw) = desCrypt25 salt (Des.desKey pw')) :=
  des_absorbs' pw pw' salt h

/-- (iii) DES-crypt absorbs its password: a non-equivalent password gives the same result only through
a collision of the core — two different 56-bit DES keys encrypting the zero block 25 times, with this
salt, to the same block. -/
theorem des_absorbs (pw pw' : Bytes) (salt : Nat)
    (h : Des.encrypt (Des.desKey pw) 0 (UInt32.ofNat salt) 25 = Des.encrypt (Des.desKey pw') 0 (UInt32.ofNat salt) 25) :
    desEquiv pw pw' ∨ DesCryptCollision salt :=
  (des_absorbs_located pw pw' salt h).imp id fun ⟨hne, hc⟩ =>
    ⟨_, _, desKey_parityFree pw, desKey_parityFree pw', hne, hc⟩

/-- **C02 for DES-crypt.** Two passwords that verify against the same hash are equivalent, or DES-crypt's
core collides for the salt of that hash. -/
theorem des_check_absorbs (h pw pw' : Bytes) (rand rand' : Nat)
    (h1 : check des h pw rand = .nil) (h2 : check des h pw' rand' = .nil) :
    ∃ a, params des h = .ok a ∧ (desEquiv pw pw' ∨ DesCryptCollision (desDecodeInt a.salt)) := by
  obtain ⟨ti, vals, k, k', hp, hk, hk', he⟩ := check_both des h pw pw' rand rand' h1 h2
  refine ⟨_, hp, ?_⟩
  rw [checkArgs_des'] at hk hk'
  have e := beEncode_inj k k' he
  rw [des_key_ok _ k hk, des_key_ok _ k' hk'] at e
  exact des_absorbs pw pw' _ (be64_inj _ _ e)

/-- (ii) at `Check`: equivalent passwords **of at most 8 bytes** get the same verdict against every hash. -/
theorem des_check_of_equiv (h pw pw' : Bytes) (rand rand' : Nat) (hl : pw.length ≤ 8) (hl' : pw'.length ≤ 8)
    (he : desEquiv pw pw') : check des h pw rand = check des h pw' rand' :=
  check_congr des h pw pw' rand rand' fun ti vals => by
    rw [checkArgs_des', checkArgs_des']; exact des_key_congr pw pw' _ hl hl' he

/-- go-crypt's `des.Key` **rejects** a password of more than 8 bytes (`InvalidPasswordLengthError`) where
crypt(3) truncates it: the "first 8 bytes" half of the documented rule is never exercised by `Check`
(only the 7-bit masking and the zero padding are: `"S4k-b:"` ~ `"S4k-b:\x80"`). -/
theorem des_check_rejects_long (h pw : Bytes) (rand : Nat) (hl : 8 < pw.length) : check des h pw rand ≠ .nil := by
  intro hc
  obtain ⟨ti, out, k, -, -, hk, -⟩ := (C02.check_ok_iff des h pw rand).1 hc
  rw [checkArgs_des', des_key_long pw _ hl] at hk
  cases hk

/-! ## BSDi extended DES -/

/-- (i) The documented equivalence is "the same block keys": same number of 8-byte blocks, each with the
same 7-bit contents. -/
theorem desextEquiv_iff_blockKeys (pw pw' : Bytes) : desextEquiv pw pw' ↔ desextBlockKeys pw = desextBlockKeys pw' :=
  Absorb2.desextEquiv_iff_blockKeys pw pw'

/-- `desext.key` is the folding chain `s₀ = d₀`, `sᵢ₊₁ = DES_{sᵢ}(sᵢ) ⊕ dᵢ₊₁` over the block keys, with
FIPS DES. -/
theorem desextKey_eq_fold (pw : Bytes) : Des.desextKey pw = bsdiFold DesFips.desWord (desextBlockKeys pw) :=
  Absorb2.desextKey_eq_fold pw

theorem desextBlockKeys_parityFree (pw : Bytes) : ∀ d ∈ desextBlockKeys pw, ParityFree d :=
  Absorb2.desextBlockKeys_parityFree pw

/-- (ii) Equivalent passwords have the same folded key. -/
theorem desextKey_of_equiv (pw pw' : Bytes) (h : desextEquiv pw pw') : Des.desextKey pw = Des.desextKey pw' :=
  Absorb2.desextKey_of_equiv pw pw' h

/-- The folding chain, for any block cipher: two non-empty block-key sequences with the same fold are
equal or their chains collide (`BsdiChainCollision`: a step maps two different states to one, or the
first block key of one sequence is a folded inner state of the other). -/
theorem bsdiFold_absorbs (DES : UInt64 → Nat → UInt64 → UInt64) (ds ds' : List UInt64) (hne : ds ≠ []) (hne' : ds' ≠ [])
    (h : bsdiFold DES ds = bsdiFold DES ds') : ds = ds' ∨ BsdiChainCollision DES ds ds' :=
  Absorb2.bsdiFold_absorbs DES ds.length ds ds' (Nat.le_refl _) hne hne' h

/-- (iii) at the key: equal folded keys come from equivalent passwords or from a collision in the folding
chains of their block keys. -/
theorem desextKey_absorbs (pw pw' : Bytes) (h : Des.desextKey pw = Des.desextKey pw') :
    desextEquiv pw pw' ∨ BsdiChainCollision DesFips.desWord (desextBlockKeys pw) (desextBlockKeys pw') :=
  desextKey_absorbs' pw pw' h

/-- A located chain collision between block-key sequences is one of two events about DES alone: a step
collision `DES_s(s) ⊕ d = DES_s'(s') ⊕ d'` with `s ≠ s'`, or a state `s` with `DES_s(s)` clear in the
parity positions. -/
theorem bsdiChainCollision_unlocated {DES : UInt64 → Nat → UInt64 → UInt64} {ds ds' : List UInt64}
    (hp : ∀ d ∈ ds, ParityFree d) (hp' : ∀ d ∈ ds', ParityFree d) (h : BsdiChainCollision DES ds ds') :
    BsdiStepCollision DES ∨ BsdiStateIsBlockKey DES :=
  h.unlocated hp hp'

/-- DES ignores the parity positions of its key (FIPS 46-3: PC-1 does not select bits 8, 16, …, 64). -/
theorem desWord_ignores_parity (k k' : UInt64) (h : k ||| 0x0101010101010101 = k' ||| 0x0101010101010101)
    (salt : Nat) (b : UInt64) : DesFips.desWord k salt b = DesFips.desWord k' salt b :=
  desWord_parity k k' h salt b

/-- (iii) at the stored block: equal results come from equivalent passwords, or a collision in the
folding chains, or two folded keys that differ only in parity positions, or two different DES keys with
the same `rounds`-fold salted encryption of zero. -/
theorem desext_absorbs (pw pw' : Bytes) (salt rounds : Nat)
    (h : Des.encrypt (Des.desextKey pw) 0 (UInt32.ofNat salt) rounds =
         Des.encrypt (Des.desextKey pw') 0 (UInt32.ofNat salt) rounds) :
    desextEquiv pw pw' ∨ BsdiChainCollision DesFips.desWord (desextBlockKeys pw) (desextBlockKeys pw') ∨
      ParityTwins (Des.desextKey pw) (Des.desextKey pw') ∨ DesCryptNCollision salt rounds :=
  desext_absorbs'' pw pw' salt rounds h

/-- The `ParityTwins` disjunct cannot be dropped: such passwords do get the same result. -/
theorem desext_parity_twins_verify (pw pw' : Bytes) (salt rounds : Nat)
    (h : Des.desextKey pw ||| 0x0101010101010101 = Des.desextKey pw' ||| 0x0101010101010101) :
    Des.encrypt (Des.desextKey pw) 0 (UInt32.ofNat salt) rounds =
      Des.encrypt (Des.desextKey pw') 0 (UInt32.ofNat salt) rounds :=
  desext_parityTwins_same pw pw' salt rounds h

/-- **C02 for BSDi extended DES.** -/
theorem desext_check_absorbs (h pw pw' : Bytes) (rand rand' : Nat)
    (h1 : check desext h pw rand = .nil) (h2 : check desext h pw' rand' = .nil) :
    ∃ a, params desext h = .ok a ∧
      (desextEquiv pw pw' ∨ BsdiChainCollision DesFips.desWord (desextBlockKeys pw) (desextBlockKeys pw') ∨
        ParityTwins (Des.desextKey pw) (Des.desextKey pw') ∨ DesCryptNCollision (desDecodeInt a.salt) a.rounds) := by
  obtain ⟨ti, vals, k, k', hp, hk, hk', he⟩ := check_both desext h pw pw' rand rand' h1 h2
  refine ⟨_, hp, ?_⟩
  rw [checkArgs_desext'] at hk hk'
  have e := beEncode_inj k k' he
  rw [desext_key_ok _ k hk, desext_key_ok _ k' hk'] at e
  exact desext_absorbs pw pw' _ _ (be64_inj _ _ e)

/-- (ii) at `Check`: equivalent passwords get the same verdict against every hash. -/
theorem desext_check_of_equiv (h pw pw' : Bytes) (rand rand' : Nat) (he : desextEquiv pw pw') :
    check desext h pw rand = check desext h pw' rand' :=
  check_congr desext h pw pw' rand rand' fun ti vals => by
    rw [checkArgs_desext', checkArgs_desext']; exact desext_key_congr pw pw' _ _ he

/-- **Finding: the BSDi key folding collides.** `passwd30aapaaaaa` and `passwd51ou9lRYvq` are not
equivalent under the documented rule (different 7-bit contents in both blocks), yet `desext.key` maps
them to the same 64-bit key (kernel-evaluated), so each verifies against every hash of the other. -/
theorem desext_fold_collision :
    ¬ desextEquiv bsdiPwA bsdiPwB ∧ Des.desextKey bsdiPwA = Des.desextKey bsdiPwB ∧
      BsdiChainCollision DesFips.desWord (desextBlockKeys bsdiPwA) (desextBlockKeys bsdiPwB) := by
  refine ⟨bsdi_fold_collision_not_equiv, bsdi_fold_collision, ?_⟩
  exact (desextKey_absorbs _ _ bsdi_fold_collision).resolve_left bsdi_fold_collision_not_equiv

/-- … so for FIPS DES one of the two unlocated events *is* inhabited: the chain-collision disjunct of
`desext_absorbs` is not a cryptographic hardness assumption, it records a weakness of the folding. -/
theorem bsdi_fold_events_inhabited : BsdiStepCollision DesFips.desWord ∨ BsdiStateIsBlockKey DesFips.desWord :=
  bsdiChainCollision_unlocated (desextBlockKeys_parityFree _) (desextBlockKeys_parityFree _) desext_fold_collision.2.2

/-- **Finding: every BSDi password has a twin of 8 bytes.** The folded key is used as a DES key, so only
56 of its 64 bits matter: the 8-byte password made of the seven upper bits of each byte of the folded
key (`desextTwin`) gives the same result for every salt and round count, and is not equivalent to a
password of more than 8 bytes (different number of blocks). So for BSDi the reading "`Check` = nil only
for passwords equivalent under the documented folding" fails for **every** password longer than 8 bytes;
what holds is `desext_check_absorbs`. (The twin may contain NUL or control bytes.) -/
theorem desext_short_twin (pw : Bytes) :
    (desextTwin pw).length = 8 ∧
    (∀ salt rounds, Des.encrypt (Des.desextKey (desextTwin pw)) 0 (UInt32.ofNat salt) rounds =
      Des.encrypt (Des.desextKey pw) 0 (UInt32.ofNat salt) rounds) ∧
    (8 < pw.length → ¬ desextEquiv (desextTwin pw) pw) :=
  ⟨twin8_length _, fun salt rounds => desext_parity_twins_verify _ _ salt rounds (desextTwin_or pw),
    desextTwin_not_equiv pw⟩

/-- … in the property's words: the twin gets the same verdict as the password against every hash. -/
theorem desext_twin_checks (h pw : Bytes) (rand rand' : Nat) :
    check desext h (desextTwin pw) rand = check desext h pw rand' :=
  check_congr desext h _ _ rand rand' fun ti vals => by
    rw [checkArgs_desext', checkArgs_desext']; exact desext_key_congr_parity _ _ _ _ (desextTwin_or pw)

/-! ## bcrypt -/

/-- The Blowfish key schedules read the key through its 72-byte cyclic expansion only. -/
theorem blowfish_schedule_reads_72 (ks ks' : Bytes) (hk : ks ≠ []) (hk' : ks' ≠ []) (h : bfKeyStream ks = bfKeyStream ks')
    (salt : Bytes) (c : Prim.Blowfish) :
    Prim.Blowfish.expandKey ks c = Prim.Blowfish.expandKey ks' c ∧
      Prim.Blowfish.expandKeyWithSalt ks salt c = Prim.Blowfish.expandKeyWithSalt ks' salt c :=
  ⟨expandKey_stream ks ks' hk hk' h c, expandKeyWithSalt_stream ks ks' hk hk' h salt c⟩

/-- `bcrypt.Key` after its guards is bcrypt's core on the key bytes (`none`: empty key, `$2$` with the
empty password). -/
theorem bcryptDerive_eq_core (pfx pw decSalt : Bytes) (cost : Nat) :
    bcryptDerive pfx pw decSalt cost =
      if (bcryptKeyBytes pfx pw).isEmpty then none else some (bcryptCore (bcryptKeyBytes pfx pw) decSalt cost) :=
  Absorb2.bcryptDerive_eq_core pfx pw decSalt cost

/-- (ii) Equivalent passwords have the same bcrypt key, for every salt and cost. -/
theorem bcrypt_of_equiv (pfx pw pw' decSalt : Bytes) (cost : Nat) (h : bcryptEquiv pfx pw pw') :
    bcryptDerive pfx pw decSalt cost = bcryptDerive pfx pw' decSalt cost :=
  bcryptDerive_of_equiv pfx pw pw' decSalt cost h

/-- (i) `$2a$`/`$2b$`, NUL-free passwords (`$2a$`: shorter than 254 bytes): equivalent iff the first 72
bytes agree (a shorter password is told apart by the position of its terminating NUL). -/
theorem bcryptEquiv_iff_take72 (pfx pw pw' : Bytes) (hp : pfx ≠ prefix2)
    (hl : pfx = prefix2b ∨ (pw.length < 254 ∧ pw'.length < 254))
    (h0 : ∀ x ∈ pw, x ≠ 0) (h0' : ∀ x ∈ pw', x ≠ 0) :
    bcryptEquiv pfx pw pw' ↔ pw.take 72 = pw'.take 72 :=
  Absorb2.bcryptEquiv_iff_take72 pfx pw pw' hp hl h0 h0'

/-- (i) the pre-2b rule: under `$2$`/`$2a$` all passwords of 254 bytes or more are equivalent, and
equivalent to seventy-two `'0'` characters. -/
theorem bcryptEquiv_long (pfx pw pw' : Bytes) (hp : pfx ≠ prefix2b) (h : 254 ≤ pw.length) (h' : 254 ≤ pw'.length) :
    bcryptEquiv pfx pw pw' ∧ bcryptEquiv pfx pw (List.replicate 72 48) :=
  ⟨Absorb2.bcryptEquiv_long pfx pw pw' hp h h', bcryptEquiv_long_zeros pfx pw hp h⟩

/-- (i) equal rewritten passwords (`bcrypt.Key`'s own truncation / replacement) are equivalent. -/
theorem bcryptEquiv_of_password_eq (pfx pw pw' : Bytes) (h : bcryptPassword pfx pw = bcryptPassword pfx pw') :
    bcryptEquiv pfx pw pw' :=
  Absorb2.bcryptEquiv_of_password_eq pfx pw pw' h

/-- **Finding: the equivalence is strictly coarser than "equal rewritten passwords".** The key schedule
cycles through the key: `a` ~ `a\0a` under `$2b$` and `$2a$`; `ab` ~ `abab` under `$2$`; and under `$2a$`
the cut at 72 bytes is Blowfish's, not `bcrypt.Key`'s. -/
theorem bcryptEquiv_coarser :
    (bcryptEquiv prefix2b [97] [97, 0, 97] ∧ bcryptPassword prefix2b [97] ≠ bcryptPassword prefix2b [97, 0, 97]) ∧
    (bcryptEquiv prefix2a [97] [97, 0, 97] ∧ bcryptPassword prefix2a [97] ≠ bcryptPassword prefix2a [97, 0, 97]) ∧
    (bcryptEquiv prefix2 [97, 98] [97, 98, 97, 98] ∧ bcryptPassword prefix2 [97, 98] ≠ bcryptPassword prefix2 [97, 98, 97, 98]) ∧
    (bcryptEquiv prefix2a (List.replicate 72 120 ++ [65]) (List.replicate 72 120 ++ [66, 67, 68]) ∧
      bcryptPassword prefix2a (List.replicate 72 120 ++ [65]) ≠ bcryptPassword prefix2a (List.replicate 72 120 ++ [66, 67, 68])) := by
  decide

/-- (iii) located form: equal keys come from equivalent passwords, or the two (different) 72-byte key
streams of the two passwords collide in bcrypt's core. -/
theorem bcrypt_absorbs_located (pfx pw pw' decSalt : Bytes) (cost : Nat)
    (h : bcryptDerive pfx pw decSalt cost = bcryptDerive pfx pw' decSalt cost) :
    bcryptEquiv pfx pw pw' ∨
      (bfKeyStream (bcryptKeyBytes pfx pw) ≠ bfKeyStream (bcryptKeyBytes pfx pw') ∧
        bcryptCore (bfKeyStream (bcryptKeyBytes pfx pw)) decSalt cost =
          bcryptCore (bfKeyStream (bcryptKeyBytes pfx pw')) decSalt cost) :=
  bcrypt_absorbs' pfx pw pw' decSalt cost h

/-- (iii) bcrypt absorbs its password: a non-equivalent password gives the same key only through two
different 72-byte Blowfish keys with the same EksBlowfish + 64 × ECB output for this salt and cost. -/
theorem bcrypt_absorbs (pfx pw pw' decSalt : Bytes) (cost : Nat)
    (h : bcryptDerive pfx pw decSalt cost = bcryptDerive pfx pw' decSalt cost) :
    bcryptEquiv pfx pw pw' ∨ BcryptCollision decSalt cost :=
  bcrypt_absorbs'' pfx pw pw' decSalt cost h

/-- **C02 for bcrypt.** The equivalence is the one of the prefix written in the hash. -/
theorem bcrypt_check_absorbs (h pw pw' : Bytes) (rand rand' : Nat)
    (h1 : check bcrypt h pw rand = .nil) (h2 : check bcrypt h pw' rand' = .nil) :
    ∃ a, params bcrypt h = .ok a ∧
      (bcryptEquiv a.optPrefix pw pw' ∨ BcryptCollision (stdDecodeBuf bcryptAlphabet a.salt) a.rounds) := by
  obtain ⟨ti, vals, k, k', hp, hk, hk', he⟩ := check_both bcrypt h pw pw' rand rand' h1 h2
  refine ⟨_, hp, ?_⟩
  rw [checkArgs_bcrypt'] at hk hk'
  have e : k = k' := stdEncode_inj _ bcryptAlphabet_nodup.1 bcryptAlphabet_nodup.2 k k' he
  have d := bcrypt_key_ok _ k rfl hk
  have d' := bcrypt_key_ok _ k' rfl hk'
  rw [← e] at d'
  exact bcrypt_absorbs _ pw pw' _ _ (d.trans d'.symm)

/-- (ii) at `Check`: passwords equivalent under the prefix written in the hash get the same verdict. -/
theorem bcrypt_check_of_equiv (h pw pw' : Bytes) (rand rand' : Nat) (a : KeyArgs) (hp : params bcrypt h = .ok a)
    (he : bcryptEquiv a.optPrefix pw pw') : check bcrypt h pw rand = check bcrypt h pw' rand' := by
  unfold params at hp
  unfold check
  cases hti : tiOf bcrypt with
  | none => rfl
  | some ti =>
    rw [hti] at hp
    simp only [] at hp ⊢
    cases hu : unmarshal ti h with
    | error e => rfl
    | ok out =>
      rw [hu] at hp
      simp only [Except.ok.injEq] at hp
      subst hp
      simp only [checkArgs_bcrypt'] at he ⊢
      rw [bcrypt_key_congr pw pw' _ _ _ he]

/-- `$2$` (no terminator), passwords shorter than 254 bytes: the 72-byte cyclic repetitions agree. -/
theorem bcryptEquiv_v2_iff (pw pw' : Bytes) (hl : pw.length < 254) (hl' : pw'.length < 254) :
    bcryptEquiv prefix2 pw pw' ↔ (pw.isEmpty = pw'.isEmpty ∧ cycleTake pw 72 = cycleTake pw' 72) :=
  Absorb2.bcryptEquiv_v2_iff pw pw' hl hl'

/-- The collision statement is about Blowfish only: `bcryptCore` is the Provos–Mazières construction
(`EksBlowfishSetup`, 64 × ECB of `"OrpheanBeholderScryDoubt"`, 23 bytes) over `Prim/Blowfish.lean`. -/
theorem bcryptCore_eq_spec (key decSalt : Bytes) (cost : Nat) (hs : decSalt ≠ []) :
    bcryptCore key decSalt cost =
      (iterate (encryptECB C03bProofs.primBlowfish (eksBlowfishSetup C03bProofs.primBlowfish cost decSalt key)) 64
        orpheanBeholder).take 23 :=
  Absorb2.bcryptCore_eq_spec key decSalt cost hs

/-- … and a function of the 72-byte key stream alone. -/
theorem bcryptCore_stream (ks ks' : Bytes) (hk : ks ≠ []) (hk' : ks' ≠ []) (h : bfKeyStream ks = bfKeyStream ks')
    (salt : Bytes) (cost : Nat) : bcryptCore ks salt cost = bcryptCore ks' salt cost :=
  Absorb2.bcryptCore_stream ks ks' hk hk' h salt cost

/-! ## NT hash -/

/-- The transcoding is **not** injective on ill-formed UTF-8: every offending byte becomes U+FFFD, so
`80`, `FF` and the well-formed `EF BF BD` (U+FFFD itself) all transcode to `FD FF`. -/
theorem utf16le_not_injective :
    Kdf.utf16le [0x80] = Kdf.utf16le [0xFF] ∧ Kdf.utf16le [0x80] = Kdf.utf16le [0xEF, 0xBF, 0xBD] ∧
      Kdf.utf16le [0x80] = [0xFD, 0xFF] := by decide

/-- Well-formedness, decidably. -/
theorem wellFormedUtf8_iff (s : Bytes) : wellFormedUtf8 s = true ↔ WellFormedUtf8 s := Absorb2.wellFormedUtf8_iff s

/-- On well-formed UTF-8 the transcoding `nthash.encodePassword` is injective. -/
theorem utf16le_injective_on_valid (s s' : Bytes) (hs : WellFormedUtf8 s) (hs' : WellFormedUtf8 s')
    (h : Kdf.utf16le s = Kdf.utf16le s') : s = s' :=
  utf16le_inj_on_valid s s' hs hs' h

/-- (iii) NT hash absorbs the transcoded password: equal digests come from equal UTF-16LE strings or an
MD4 collision. ((ii) is trivial: the digest is `md4 (utf16le pw)`.) -/
theorem nthash_absorbs (pw pw' : Bytes) (h : Prim.md4 (Kdf.utf16le pw) = Prim.md4 (Kdf.utf16le pw')) :
    Kdf.utf16le pw = Kdf.utf16le pw' ∨ Collision Prim.md4 :=
  Kdf.hash_eq_cases Prim.md4 h

/-- … for well-formed passwords: equal passwords or an MD4 collision. -/
theorem nthash_absorbs_valid (pw pw' : Bytes) (hs : WellFormedUtf8 pw) (hs' : WellFormedUtf8 pw')
    (h : Prim.md4 (Kdf.utf16le pw) = Prim.md4 (Kdf.utf16le pw')) : pw = pw' ∨ Collision Prim.md4 :=
  (nthash_absorbs pw pw' h).imp (utf16le_injective_on_valid pw pw' hs hs') id

/-- **C02 for NT hash.** -/
theorem nthash_check_absorbs (h pw pw' : Bytes) (rand rand' : Nat)
    (h1 : check nthash h pw rand = .nil) (h2 : check nthash h pw' rand' = .nil) :
    Kdf.utf16le pw = Kdf.utf16le pw' ∨ Collision Prim.md4 := by
  obtain ⟨ti, vals, k, k', -, hk, hk', he⟩ := check_both nthash h pw pw' rand rand' h1 h2
  rw [checkArgs_nthash'] at hk hk'
  have e : k = k' := hexLower_inj k k' he
  rw [nthash_key_ok _ k hk, nthash_key_ok _ k' hk'] at e
  exact nthash_absorbs pw pw' e

/-- (ii) at `Check`: passwords with the same transcoding get the same verdict. -/
theorem nthash_check_of_equiv (h pw pw' : Bytes) (rand rand' : Nat) (he : Kdf.utf16le pw = Kdf.utf16le pw') :
    check nthash h pw rand = check nthash h pw' rand' :=
  check_congr nthash h pw pw' rand rand' fun ti vals => by
    rw [checkArgs_nthash', checkArgs_nthash', he]

/-! ## Argon2 -/

/-- `Key` = core ∘ BLAKE2b-512 ∘ (RFC 9106 `H₀` pre-image): password and salt enter through `H₀` only. -/
theorem argon2_key_eq_core (y v : Nat) (P S : Bytes) (t m p T : Nat) (hp : p ≤ 255) (hm : m < 2 ^ 32) :
    Argon2.key y v P S t m p T =
      argon2Core (blake2b512 (Argon2Eq.h0Preimage p T m t v y P S)) t (Argon2Eq.roundedMemory m p) p T y v :=
  Absorb2.argon2_key_eq_core y v P S t m p T hp hm

/-- (iii) located form, for the same `(salt, t, m, p, T, y, v)`, `p ≤ 255` lanes, `m < 2^32` KiB and
passwords shorter than `2^32` bytes (the pre-image stores the length in 32 bits): equal keys come from
equal passwords, or the two (different) pre-images collide under BLAKE2b-512, or the two (different)
`H₀` values collide in the fill / extract stage. -/
theorem argon2_absorbs_located (y v : Nat) (P P' S : Bytes) (t m p T : Nat) (hp : p ≤ 255) (hm : m < 2 ^ 32)
    (hP : P.length < 2 ^ 32) (hP' : P'.length < 2 ^ 32)
    (h : Argon2.key y v P S t m p T = Argon2.key y v P' S t m p T) :
    P = P' ∨
    (Argon2Eq.h0Preimage p T m t v y P S ≠ Argon2Eq.h0Preimage p T m t v y P' S ∧
      blake2b512 (Argon2Eq.h0Preimage p T m t v y P S) = blake2b512 (Argon2Eq.h0Preimage p T m t v y P' S)) ∨
    (blake2b512 (Argon2Eq.h0Preimage p T m t v y P S) ≠ blake2b512 (Argon2Eq.h0Preimage p T m t v y P' S) ∧
      argon2Core (blake2b512 (Argon2Eq.h0Preimage p T m t v y P S)) t (Argon2Eq.roundedMemory m p) p T y v =
        argon2Core (blake2b512 (Argon2Eq.h0Preimage p T m t v y P' S)) t (Argon2Eq.roundedMemory m p) p T y v) :=
  argon2_absorbs' y v P P' S t m p T hp hm hP hP' h

/-- (iii) Argon2 absorbs its password: a different password gives the same key only through a
BLAKE2b-512 collision or a collision of the Argon2 core on two different 64-byte `H₀` values. -/
theorem argon2_absorbs (y v : Nat) (P P' S : Bytes) (t m p T : Nat) (hp : p ≤ 255) (hm : m < 2 ^ 32)
    (hP : P.length < 2 ^ 32) (hP' : P'.length < 2 ^ 32)
    (h : Argon2.key y v P S t m p T = Argon2.key y v P' S t m p T) :
    P = P' ∨ Collision blake2b512 ∨ Argon2CoreCollision t (Argon2Eq.roundedMemory m p) p T y v :=
  argon2_absorbs'' y v P P' S t m p T hp hm hP hP' h

/-- **C02 for Argon2.** (`Threads` is a `uint8` and `Memory` a `uint32` of the unmarshalled struct, so the
lane / memory bounds hold for every hash that unmarshals; the password lengths are the caller's.) -/
theorem argon2_check_absorbs (h pw pw' : Bytes) (rand rand' : Nat) (hP : pw.length < 2 ^ 32) (hP' : pw'.length < 2 ^ 32)
    (h1 : check argon2 h pw rand = .nil) (h2 : check argon2 h pw' rand' = .nil) :
    ∃ a, params argon2 h = .ok a ∧
      (pw = pw' ∨ Collision blake2b512 ∨
        Argon2CoreCollision a.rounds (Argon2Eq.roundedMemory a.memory a.threads) a.threads Gen.argon2.keyLen
          (argon2Mode a.optPrefix) a.optVersion) := by
  obtain ⟨ti, vals, k, k', hp, hk, hk', he⟩ := check_both argon2 h pw pw' rand rand' h1 h2
  refine ⟨_, hp, ?_⟩
  obtain ⟨hth, hmem, -⟩ := argon2_params_bounds h _ hp
  have e : k = k' := stdEncode_inj _ stdAlphabet_nodup.1 stdAlphabet_nodup.2 k k' he
  rw [checkArgs_argon2'] at hk hk' hth hmem ⊢
  rw [argon2_key_ok _ k rfl hk, argon2_key_ok _ k' rfl hk'] at e
  exact argon2_absorbs _ _ pw pw' _ _ _ _ _ hth hmem hP hP' e

/-! ## Non-vacuity: concrete equivalent and non-equivalent pairs -/

section examples
open Bytes (ofString)

-- DES: "S4k-b:" vs "S4k-b:\x80" (a 0x80 byte counts as absent), and a ninth byte is not read
example : desEquiv [83, 52, 107, 45, 98, 58] [83, 52, 107, 45, 98, 58, 0x80] := by decide
example : Des.desKey [83, 52, 107, 45, 98, 58] = Des.desKey [83, 52, 107, 45, 98, 58, 0x80] :=
  (desKey_eq_iff _ _).2 (by decide)
example : desEquiv [97, 98, 99, 100, 101, 102, 103, 104] [97, 98, 99, 100, 101, 102, 103, 104, 105] := by decide
example : desEquiv [0xE1] [0x61] := by decide
example : ¬ desEquiv [83, 52, 107, 45, 98, 58] [83, 52, 107, 45, 98, 59] := by decide
example : Des.desKey [83, 52, 107, 45, 98, 58] ≠ Des.desKey [83, 52, 107, 45, 98, 59] :=
  fun h => absurd ((desKey_eq_iff _ _).1 h) (by decide)
#guard ofString "S4k-b:" == [83, 52, 107, 45, 98, 58]
-- … the two complete hashes (compiled evaluation): equal for the equivalent pair, different otherwise
#guard key des { password := ofString "S4k-b:", salt := ofString "ab" } ==
       key des { password := ofString "S4k-b:" ++ [0x80], salt := ofString "ab" }
#guard key des { password := ofString "S4k-b:", salt := ofString "ab" } !=
       key des { password := ofString "S4k-b;", salt := ofString "ab" }
#guard (match key des { password := ofString "S4k-b:", salt := ofString "ab" } with | .ok _ => true | _ => false)

-- BSDi: one block vs one block; "12345678" vs "12345678\0" have different block counts
example : desextEquiv [97, 98, 99] [0xE1, 98, 99] := by decide
example : ¬ desextEquiv [49, 50, 51, 52, 53, 54, 55, 56] [49, 50, 51, 52, 53, 54, 55, 56, 0] := by decide
example : desextEquiv (List.replicate 9 97) (List.replicate 8 97 ++ [0xE1]) := by decide
#guard bsdiPwA == ofString "passwd30aapaaaaa" && bsdiPwB == ofString "passwd51ou9lRYvq"
-- the finding, at the level of complete hashes (salt "rasm", 725 rounds)
#guard key desext { password := bsdiPwA, salt := ofString "rasm", rounds := 725 } ==
       key desext { password := bsdiPwB, salt := ofString "rasm", rounds := 725 }
#guard (match key desext { password := bsdiPwA, salt := ofString "rasm", rounds := 725 } with | .ok _ => true | _ => false)

-- bcrypt, `$2b$`: 73 bytes vs their first 72; different 72nd byte
example : bcryptEquiv prefix2b (List.replicate 73 97) (List.replicate 72 97) := by decide
example : ¬ bcryptEquiv prefix2b (List.replicate 71 97 ++ [98]) (List.replicate 71 97 ++ [99]) := by decide
example : ¬ bcryptEquiv prefix2b [97] [97, 97] := by decide
example : bcryptEquiv prefix2a (List.replicate 254 97) (List.replicate 300 98) :=
  (bcryptEquiv_long _ _ _ (by decide) (by rw [List.length_replicate]; decide) (by rw [List.length_replicate]; decide)).1
#guard bcryptDerive prefix2b (List.replicate 73 97) (List.replicate 16 7) 4 ==
       bcryptDerive prefix2b (List.replicate 72 97) (List.replicate 16 7) 4
#guard bcryptDerive prefix2b [97] (List.replicate 16 7) 4 == bcryptDerive prefix2b [97, 0, 97] (List.replicate 16 7) 4
#guard bcryptDerive prefix2b [97] (List.replicate 16 7) 4 != bcryptDerive prefix2b [97, 97] (List.replicate 16 7) 4
#guard (bcryptDerive prefix2b [97] (List.replicate 16 7) 4).isSome

-- NT hash
#guard hexLower (Prim.md4 (Kdf.utf16le [0x80])) == hexLower (Prim.md4 (Kdf.utf16le [0xFF]))
example : wellFormedUtf8 [0xC3, 0xA9, 0xE2, 0x82, 0xAC] = true ∧ wellFormedUtf8 [0x80] = false := by decide
example : WellFormedUtf8 [0xC3, 0xA9] := (wellFormedUtf8_iff _).1 (by decide)

-- Argon2: the hypotheses are satisfiable and both sides evaluate
#guard Argon2.key 2 0x13 [1, 2, 3] [1, 2, 3, 4, 5, 6, 7, 8] 1 8 1 32 ==
       argon2Core (blake2b512 (Argon2Eq.h0Preimage 1 32 8 1 0x13 2 [1, 2, 3] [1, 2, 3, 4, 5, 6, 7, 8])) 1
         (Argon2Eq.roundedMemory 8 1) 1 32 2 0x13
#guard Argon2.key 2 0x13 [1, 2, 3] [1, 2, 3, 4, 5, 6, 7, 8] 1 8 1 32 != Argon2.key 2 0x13 [1, 2, 4] [1, 2, 3, 4, 5, 6, 7, 8] 1 8 1 32

end examples

#print axioms desKey_eq_iff
#print axioms desKey_parityFree
#print axioms des_core_eq_fips
#print axioms des_of_equiv
#print axioms des_absorbs_located
#print axioms des_absorbs
#print axioms des_check_absorbs
#print axioms des_check_of_equiv
#print axioms des_check_rejects_long
#print axioms desextEquiv_iff_blockKeys
#print axioms desextKey_eq_fold
#print axioms desextBlockKeys_parityFree
#print axioms desextKey_of_equiv
#print axioms bsdiFold_absorbs
#print axioms desextKey_absorbs
#print axioms bsdiChainCollision_unlocated
#print axioms desWord_ignores_parity
#print axioms desext_absorbs
#print axioms desext_parity_twins_verify
#print axioms desext_check_absorbs
#print axioms desext_check_of_equiv
#print axioms desext_fold_collision
#print axioms bsdi_fold_events_inhabited
#print axioms desext_short_twin
#print axioms desext_twin_checks
#print axioms blowfish_schedule_reads_72
#print axioms bcryptDerive_eq_core
#print axioms bcrypt_of_equiv
#print axioms bcryptEquiv_iff_take72
#print axioms bcryptEquiv_long
#print axioms bcryptEquiv_of_password_eq
#print axioms bcryptEquiv_coarser
#print axioms bcrypt_absorbs_located
#print axioms bcrypt_absorbs
#print axioms bcrypt_check_absorbs
#print axioms bcrypt_check_of_equiv
#print axioms bcryptEquiv_v2_iff
#print axioms bcryptCore_eq_spec
#print axioms bcryptCore_stream
#print axioms utf16le_not_injective
#print axioms wellFormedUtf8_iff
#print axioms utf16le_injective_on_valid
#print axioms nthash_absorbs
#print axioms nthash_absorbs_valid
#print axioms nthash_check_absorbs
#print axioms nthash_check_of_equiv
#print axioms argon2_key_eq_core
#print axioms argon2_absorbs_located
#print axioms argon2_absorbs
#print axioms argon2_check_absorbs

end GoCrypt.C02b
