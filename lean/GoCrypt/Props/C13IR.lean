import GoCrypt.Base.SliceIR
import GoCrypt.Gen.SliceIR
import GoCrypt.Gen.Flow

/-!
# C13 — key derivation is pure: arguments untouched, result not aliased, deterministic

The slice-effect IR of every `Key` (module-internal callees inlined) is regenerated from the current
source on every run. `argSafe` / `resultFresh` are decided on it by the kernel:

* `argSafe`: no store (`x[i] = …`, `copy`, `PutUint…`, `Encode(dst, …)`, `append` into spare
  capacity, `h.Sum(b)`) targets an array that can be an argument's or a package variable's —
  under the flow-insensitive points-to approximation, which over-approximates every execution;
* `resultFresh`: every returned slice is rooted only in memory allocated during the call.

Determinism: the models of all ten `Key`s are Lean functions of their arguments (`Scheme.key`), and
agree with the Go code key for key (suite `purity`/`kdf`); the only entropy consumer is sha1's
documented random-rounds request.
-/

set_option maxRecDepth 100000

namespace GoCrypt.C13
open GoCrypt.SliceIR GoCrypt.Gen

theorem argSafe_argon2 : argSafe argon2.keySlices = true := by decide +kernel
theorem argSafe_bcrypt : argSafe bcrypt.keySlices = true := by decide +kernel
theorem argSafe_des : argSafe des.keySlices = true := by decide +kernel
theorem argSafe_desext : argSafe desext.keySlices = true := by decide +kernel
theorem argSafe_md5 : argSafe md5.keySlices = true := by decide +kernel
theorem argSafe_nthash : argSafe nthash.keySlices = true := by decide +kernel
theorem argSafe_sha1 : argSafe sha1.keySlices = true := by decide +kernel
theorem argSafe_sha256 : argSafe sha256.keySlices = true := by decide +kernel
theorem argSafe_sha512 : argSafe sha512.keySlices = true := by decide +kernel
theorem argSafe_sunmd5 : argSafe sunmd5.keySlices = true := by decide +kernel

theorem resultFresh_argon2 : resultFresh argon2.keySlices = true := by decide +kernel
theorem resultFresh_bcrypt : resultFresh bcrypt.keySlices = true := by decide +kernel
theorem resultFresh_des : resultFresh des.keySlices = true := by decide +kernel
theorem resultFresh_desext : resultFresh desext.keySlices = true := by decide +kernel
theorem resultFresh_md5 : resultFresh md5.keySlices = true := by decide +kernel
theorem resultFresh_nthash : resultFresh nthash.keySlices = true := by decide +kernel
theorem resultFresh_sha1 : resultFresh sha1.keySlices = true := by decide +kernel
theorem resultFresh_sha256 : resultFresh sha256.keySlices = true := by decide +kernel
theorem resultFresh_sha512 : resultFresh sha512.keySlices = true := by decide +kernel
theorem resultFresh_sunmd5 : resultFresh sunmd5.keySlices = true := by decide +kernel

/-- The defect repaired in bcrypt.setup, as an IR program: appending to a slice of the password
parameter is flagged, capping the capacity first is not. -/
example : argSafe [.fromParam 0 0, .alias 1 0, .appendTo 2 1] = false := by decide +kernel
example : argSafe [.fromParam 0 0, .alias 1 0, .alloc 2] = true := by decide +kernel
example : resultFresh [.fromParam 0 0, .alias 1 0, .ret 1] = false := by decide +kernel


end GoCrypt.C13
