import GoCrypt.Proofs.Argon2Sched
import GoCrypt.Gen.Facts
import GoCrypt.Props.C09Link

/-!
# C09 — Argon2 with parallelism > 1 is deterministic and equals the sequential evaluation

`processBlocks` (argon2/argon2crypto/argon2.go) starts, for every pass `n` and slice `s ∈ 0..3`,
one goroutine per lane and joins them with a `sync.WaitGroup` before the next slice.  The goroutine
of lane `l`, for `index` from (2 if `n = 0 ∧ s = 0` else 0) to `segments-1`, WRITES block
`offset = l*lanes + s*segments + index` and READS `offset`, `prev` and
`newOffset = indexAlpha(random, lanes, segments, threads, n, s, l, index)`.

* **(A) reference set** — about the GENERATED `GoCrypt.Gen.argon2crypto.indexAlpha`
  (`refset_in_memory`, `refset_cross_lane_completed`, `refset_same_lane_earlier`).
* **(B) phase theorem** — generic: tasks with disjoint write regions that read only their own
  region and a frozen area are schedule independent (`schedule_independent`,
  `complete_schedules_agree`, `complete_eq_sequential`).
* **(C) instantiation** — a phase of the fill is such a system, by (A) (`argon2_phase_local`,
  `argon2_accesses_in_memory`, `argon2_phase_schedule_independent`, `key_schedule_independent`).

Left outside the model (trusted runtime semantics, exercised by the `-race` suites): that
`go f(); …; wg.Wait()` implements the barrier, i.e. that the interleavings of a phase are exactly
the complete schedules of `Sys.exec` with one block operation as the atomic step.  The block
function `G` (`processBlock`/`processBlockXOR`) and the address source `rnd` are parameters of (C):
the statements are about WHICH cells a step touches; they hold for every `G` and `rnd`.
-/

namespace GoCrypt.C09
open GoCrypt.Gen.argon2crypto GoCrypt.Argon2Sched

/-! ## (A) the reference set of the generated `indexAlpha`

`lanes` is the LENGTH of a lane (`memory / threads`), `segments = lanes / 4`; `refLane = r / lanes`
is the lane the reference points into and `pos = r % lanes` the position inside it, so
`pos / segments` is its slice and `pos % segments` its index.  `rand < 2^64` and `n < 2^32` are the
Go types; the proofs do not need them. -/

/-- The referenced block lies inside the memory, in one of the `threads` lanes. -/
theorem refset_in_memory (rand lanes segments threads n slice lane index : Nat)
    (_hrand : rand < 2^64) (hseg : 2 ≤ segments) (hlanes : lanes = 4 * segments)
    (hthr : 1 ≤ threads) (hmem : threads * lanes < 2^32) (hslice : slice < 4)
    (hlane : lane < threads) (hidx : index < segments) (_hn : n < 2^32)
    (h0 : n = 0 ∧ slice = 0 → 2 ≤ index) :
    indexAlpha rand lanes segments threads n slice lane index < threads * lanes ∧
    indexAlpha rand lanes segments threads n slice lane index / lanes < threads := by
  have h := refset ⟨hseg, hlanes, hthr, hmem⟩ rand n slice lane index hslice hlane hidx h0
  exact ⟨h.1, h.2.1⟩

/-- A CROSS-LANE reference never points into the slice that is currently being written (by any
lane); in the first pass it points into a slice already computed in this pass. -/
theorem refset_cross_lane_completed (rand lanes segments threads n slice lane index : Nat)
    (_hrand : rand < 2^64) (hseg : 2 ≤ segments) (hlanes : lanes = 4 * segments)
    (hthr : 1 ≤ threads) (hmem : threads * lanes < 2^32) (hslice : slice < 4)
    (hlane : lane < threads) (hidx : index < segments) (_hn : n < 2^32)
    (h0 : n = 0 ∧ slice = 0 → 2 ≤ index)
    (hcross : indexAlpha rand lanes segments threads n slice lane index / lanes ≠ lane) :
    indexAlpha rand lanes segments threads n slice lane index % lanes / segments ≠ slice ∧
    (n = 0 →
      indexAlpha rand lanes segments threads n slice lane index % lanes / segments < slice) := by
  have h := refset ⟨hseg, hlanes, hthr, hmem⟩ rand n slice lane index hslice hlane hidx h0
  exact h.2.2.1 hcross

/-- A SAME-LANE reference is outside the current segment, or inside it strictly before the block
being written; it is never the block being written; in the first pass it is a block already
computed. -/
theorem refset_same_lane_earlier (rand lanes segments threads n slice lane index : Nat)
    (_hrand : rand < 2^64) (hseg : 2 ≤ segments) (hlanes : lanes = 4 * segments)
    (hthr : 1 ≤ threads) (hmem : threads * lanes < 2^32) (hslice : slice < 4)
    (hlane : lane < threads) (hidx : index < segments) (_hn : n < 2^32)
    (h0 : n = 0 ∧ slice = 0 → 2 ≤ index)
    (hsame : indexAlpha rand lanes segments threads n slice lane index / lanes = lane) :
    (indexAlpha rand lanes segments threads n slice lane index % lanes / segments ≠ slice ∨
      (indexAlpha rand lanes segments threads n slice lane index % lanes / segments = slice ∧
       indexAlpha rand lanes segments threads n slice lane index % lanes % segments < index)) ∧
    indexAlpha rand lanes segments threads n slice lane index
      ≠ lane * lanes + slice * segments + index ∧
    (n = 0 →
      indexAlpha rand lanes segments threads n slice lane index % lanes
        < slice * segments + index) := by
  have h := refset ⟨hseg, hlanes, hthr, hmem⟩ rand n slice lane index hslice hlane hidx h0
  exact h.2.2.2 hsame

/-! ## (B) the phase theorem -/

/-- Under EVERY schedule, the region of task `l` holds what task `l` alone would have produced
after as many steps as it has taken. -/
theorem schedule_independent {V : Type} {L} (S : Sys V L) (m0 : Mem V) (sched : List (Fin L))
    (l : Fin L) (i : Nat) (hi : S.R l i) :
    (S.exec ⟨fun _ => 0, m0⟩ sched).mem i
      = solo S l ((S.exec ⟨fun _ => 0, m0⟩ sched).pc l) m0 i :=
  Argon2Sched.schedule_independent S m0 sched l i hi

/-- Two COMPLETE schedules (every task has executed all its steps) produce the same memory. -/
theorem complete_schedules_agree {V : Type} {L} (S : Sys V L) (m0 : Mem V)
    (sched sched' : List (Fin L)) (hc : S.Complete sched) (hc' : S.Complete sched') (i : Nat) :
    (S.exec ⟨fun _ => 0, m0⟩ sched).mem i = (S.exec ⟨fun _ => 0, m0⟩ sched').mem i :=
  Argon2Sched.complete_schedules_agree S m0 sched sched' hc hc' i

/-- … namely the memory obtained by running the tasks one after the other. -/
theorem complete_eq_sequential {V : Type} {L} (S : Sys V L) (m0 : Mem V) (sched : List (Fin L))
    (hc : S.Complete sched) (i : Nat) :
    (S.exec ⟨fun _ => 0, m0⟩ sched).mem i = S.seqRun (List.finRange L) m0 i :=
  Argon2Sched.complete_eq_sequential S m0 sched hc i

/-! ## (C) a phase of the Argon2 fill -/

/-- Every step of lane `l`'s goroutine in phase `(n, slice)` writes inside segment `(l, slice)` and
reads only that segment and the frozen area (the other three slices of all lanes): `prev` and
`newOffset` are never in another lane's current segment. -/
theorem argon2_phase_local {V : Type} {lanes segments threads : Nat}
    (geo : Geom lanes segments threads) (G : V → V → V → V) (rnd : Nat → Nat → V → Nat)
    (n : Nat) (slice : Fin 4) (l : Fin threads) :
    ∀ st ∈ argon2Tasks lanes segments threads G rnd n slice.val l.val,
      Local (curSeg lanes segments slice.val l.val) (frozenArea lanes segments slice.val) st :=
  Argon2Sched.argon2_phase_local geo G rnd n slice l

/-- No lane reads a block that another lane may still be writing, spelled out on addresses:
a block read by lane `l` (`offset`, `prev`, `newOffset`) that lies in lane `l' ≠ l` is not in
slice `slice`, the only slice written during this phase. -/
theorem argon2_no_read_of_foreign_segment {lanes segments threads : Nat}
    (geo : Geom lanes segments threads) (rand n slice lane index : Nat)
    (hslice : slice < 4) (hlane : lane < threads) (hidx : index < segments)
    (h0 : n = 0 ∧ slice = 0 → 2 ≤ index) (a : Nat)
    (ha : a = offsetOf lanes segments slice lane index ∨ a = prevOf lanes segments slice lane index ∨
      a = indexAlpha rand lanes segments threads n slice lane index)
    (l' : Nat) (hl' : l' ≠ lane) : ¬ curSeg lanes segments slice l' a := by
  intro hcur
  rcases ha with rfl | rfl | rfl
  · exact hl' ((offsetOf_loc geo slice lane index hslice hidx).1 ▸ hcur.1).symm
  · exact hl' ((prevOf_lane geo slice lane index hslice hidx).1 ▸ hcur.1).symm
  · have h := refset geo rand n slice lane index hslice hlane hidx h0
    exact (h.2.2.1 (fun e => hl' (e ▸ hcur.1).symm)).1 hcur.2

/-- Every block access of a step is inside `B[0 .. threads*lanes)`. -/
theorem argon2_accesses_in_memory {lanes segments threads : Nat}
    (geo : Geom lanes segments threads) (rand n slice lane index : Nat)
    (hslice : slice < 4) (hlane : lane < threads) (hidx : index < segments)
    (h0 : n = 0 ∧ slice = 0 → 2 ≤ index) :
    offsetOf lanes segments slice lane index < threads * lanes ∧
    prevOf lanes segments slice lane index < threads * lanes ∧
    indexAlpha rand lanes segments threads n slice lane index < threads * lanes :=
  argon2_step_in_bounds geo rand n slice lane index hslice hlane hidx h0

/-- One phase: whatever the interleaving of the lane goroutines, once all have finished the
memory equals the sequential evaluation `lane = 0, 1, …`. -/
theorem argon2_phase_schedule_independent {V : Type} {lanes segments threads : Nat}
    (geo : Geom lanes segments threads) (G : V → V → V → V) (rnd : Nat → Nat → V → Nat)
    (n : Nat) (slice : Fin 4) (m0 : Mem V) (sched : List (Fin threads))
    (hc : (argon2Phase geo G rnd n slice).Complete sched) (i : Nat) :
    ((argon2Phase geo G rnd n slice).exec ⟨fun _ => 0, m0⟩ sched).mem i
      = (argon2Phase geo G rnd n slice).seqRun (List.finRange threads) m0 i :=
  Argon2Sched.argon2_phase_schedule_independent geo G rnd n slice m0 sched hc i

/-- The whole fill (hence the key, a function of the final memory): every choice of complete
schedules for the `4 * time` phases yields the memory of the sequential fill. -/
theorem key_schedule_independent {V : Type} {lanes segments threads : Nat}
    (geo : Geom lanes segments threads) (G : V → V → V → V)
    (rnd : Nat → Nat → Nat → Nat → V → Nat) (time : Nat) (scheds : List (List (Fin threads)))
    (hlen : scheds.length = (argon2Phases geo G rnd time).length)
    (hc : ∀ p ∈ (argon2Phases geo G rnd time).zip scheds, p.1.Complete p.2) (m0 : Mem V) :
    parFill ((argon2Phases geo G rnd time).zip scheds) m0
      = seqFill (argon2Phases geo G rnd time) m0 :=
  argon2_fill_schedule_independent geo G rnd time scheds hlen hc m0

/-! ## non-vacuity

Concrete evaluations of the generated `indexAlpha` on argument tuples that satisfy the hypotheses
(`lanes = 16`, `segments = 4`; arguments: rand lanes segments threads n slice lane index). -/

/-- the geometry hypotheses are satisfiable, also at the `uint32` edge -/
example : Geom 16 4 2 := ⟨by decide, by decide, by decide, by decide⟩
example : Geom 4294967292 1073741823 1 := ⟨by decide, by decide, by decide, by decide⟩

-- first pass, first slice (`refLane = lane` is forced): block (lane 1, pos 0), before index 2
example : indexAlpha 0x12345678 16 4 2 0 0 1 2 = 16 := by decide
-- first pass, slice 2, index 0, cross-lane (lane 1 → lane 0): slices 0 and 1 only
example : indexAlpha 0x00000000FFFFFFFF 16 4 2 0 2 1 0 = 0 := by decide
example : indexAlpha 0x0000000000000000 16 4 2 0 2 1 0 = 6 := by decide
-- first pass, slice 2, index 3, same lane, `p = 0`: pos 9 = (slice 2, index 1), 1 < 3
example : indexAlpha 0x0000000100000000 16 4 2 0 2 1 3 = 25 := by decide
-- pass 3, slice 1, index 0, cross-lane (lane 0 → lane 3): window = slices 2, 3, 0
example : indexAlpha 0x0000000300000000 16 4 4 3 1 0 0 = 50 := by decide
example : indexAlpha 0x00000003FFFFFFFF 16 4 4 3 1 0 0 = 56 := by decide
-- pass 3, slice 1, index 3, same lane: pos 5 = (slice 1, index 1), 1 < 3
example : indexAlpha 0x0000000000000000 16 4 4 3 1 0 3 = 5 := by decide
-- pass 3, slice 3, same lane, largest `p`: the window starts at (slice 0, index 0)
example : indexAlpha 0x00000000FFFFFFFF 16 4 4 3 3 0 3 = 0 := by decide
-- one lane filling the whole `uint32` range
example : indexAlpha 0xFFFFFFFFFFFFFFFF 4294967292 1073741823 1 7 3 0 1073741822 = 1 := by decide

/-- The hypothesis `2 ≤ segments` cannot be dropped: with `segments = 1` (`lanes = 4`, which `Key`
excludes by rounding `memory` up to `8 * threads`) the window size `m = slice*segments - 1` is `0`,
`s + m - (p+1)` wraps in `uint64`, and lane 1 in (pass 0, slice 1) is sent to block 3 =
(lane 0, slice 3), which has not been computed yet. -/
example : indexAlpha 0 4 1 2 0 1 1 0 = 3 := by decide

/-- Likewise `2 ≤ index` in the first segment: `index = 0` there makes `m - 1` wrap in `uint32`
and the reference lands in slice 3 of the first pass. -/
example : indexAlpha 0 16 4 2 0 0 0 0 = 14 := by decide

/-- Complete schedules exist for every phase (the lane-after-lane one, for instance), and every
goroutine really has `segments - start` steps: the hypotheses of the phase theorems are satisfiable
and the systems are not empty. -/
example {V : Type} {lanes segments threads : Nat} (geo : Geom lanes segments threads)
    (G : V → V → V → V) (rnd : Nat → Nat → V → Nat) (n : Nat) (slice : Fin 4) :
    (argon2Phase geo G rnd n slice).Complete
      ((argon2Phase geo G rnd n slice).seqSched (List.finRange threads)) :=
  seqSched_complete _

example {V : Type} (G : V → V → V → V) (rnd : Nat → Nat → V → Nat) (n slice lane : Nat) :
    (argon2Tasks 16 4 2 G rnd n slice lane).length = 4 - startIndex n slice := by
  simp [argon2Tasks]

/-- The goroutine structure of `processBlocks`, regenerated from the current source: the only `go`
statement of the package starts `processSegment` once per lane (`lane = 0 … threads-1`), inside the
slice loop inside the pass loop; `wg.Add(1)` immediately precedes it; `wg.Wait()` immediately follows
the lane loop; the WaitGroup is declared afresh in the slice loop's body; the worker's last statement
is `wg.Done()` and it has no early exit. This is the syntactic shape the phase model assumes (one
task per lane per phase, a barrier after every phase, every worker joined before `Key` goes on). -/
theorem workers_joined_facts :
    (GoCrypt.Gen.Facts.goStmts.filter fun f => f.site == "argon2/argon2crypto") =
      [{ site := "argon2/argon2crypto", fn := "processBlocks", starts := "processSegment",
         loops := ["n := uint32(0); n < time; n++", "slice := uint32(0); slice < syncPoints; slice++",
                   "lane := uint32(0); lane < threads; lane++"],
         addBefore := true, waitAfter := true, wgFresh := true, doneLast := true, noEarlyExit := true, goCount := 1 }] := by
  decide

#print axioms workers_joined_facts
#print axioms refset_in_memory
#print axioms refset_cross_lane_completed
#print axioms refset_same_lane_earlier
#print axioms schedule_independent
#print axioms complete_schedules_agree
#print axioms complete_eq_sequential
#print axioms argon2_phase_local
#print axioms argon2_no_read_of_foreign_segment
#print axioms argon2_accesses_in_memory
#print axioms argon2_phase_schedule_independent
#print axioms key_schedule_independent
-- the link to the concrete model (Props/C09Link.lean): the model's own fill loop is the sequential run of the instantiated
-- lane-task system, so EVERY family of complete schedules yields the model's key (= the RFC 9106 reference, C04.key_eq_rfc)
#print axioms GoCrypt.C09Link.processSegment_is_task
#print axioms GoCrypt.C09Link.model_fill_eq_seqFill
#print axioms GoCrypt.C09Link.fill_eq_any_complete_schedule
#print axioms GoCrypt.C09Link.key_eq_any_complete_schedule
#print axioms GoCrypt.C09Link.complete_schedules_same_key
#print axioms GoCrypt.C09Link.C09
#print axioms GoCrypt.C09Link.model_geom
#print axioms GoCrypt.C09Link.addrBlock_eq_rfc

end GoCrypt.C09
