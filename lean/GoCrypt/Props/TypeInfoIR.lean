import GoCrypt.Proofs.TIIRTag
import GoCrypt.Proofs.TIIRField
import GoCrypt.Proofs.TIIRNorm
import GoCrypt.Proofs.TIIRRaw
import GoCrypt.Proofs.TIIRTop
import GoCrypt.Proofs.TIIRExact
import GoCrypt.Proofs.TIIRExamples

/-!
# `hash/typeinfo.go` regenerated from source equals the hand-written model `Model/TagInfo.lean`

`gogen` (typeinfoir.go) translates `(*typeInfo).field`, `(*typeInfo).normalize`, `getRawTypeInfo`,
`indirectType` and `getTypeInfo` into the type-info IR (`Base/TIIR.lean`) on every run
(`Gen/TypeInfoIR.lean`).  The theorems below say that INTERPRETING those programs gives what the model
(`fieldOpts`, `resolveParam`, `normalizeLoop`, `rawFields`, `typeInfoOf`) computes; so a change of the Go
source that changes behaviour breaks a proof here, and everything proved elsewhere about the model
(`Props/C10General`, `TiWf`, `C18`, `C20`) is about the code that is in the repository now.

Vocabulary (definitions in `Proofs/TIIRDefs.lean`):
* `fiObj fi` — the heap record (`Index, Name, Type, Opts.*`) that represents the model's `FieldInfo`;
  `tiObj …` — a `typeInfo` record; `Reps h addrs fis` — the records at `addrs` represent `fis`, in order;
* `absErr h v` — the model's `TagErr` for an error VALUE of the program (a `*TagParamError` record ↦
  `paramConflict Field1 Field2`; `errors.New("invalid tag in field …")` ↦ `invalidTag name tag`);
* a run is `stuck` when the program leaves the fragment the interpreter understands.  The only way
  this happens below is the deliberate one: `sort.Slice` has no specified algorithm, so the run takes
  an ARBITRARY function `sort` as "what the library did" and is stuck unless that proposal is a
  permutation that is sorted with respect to the interpreted closure.  Every theorem that involves
  `field` therefore reads "stuck, or exactly the model's result" and holds for EVERY `sort`.
-/

namespace GoCrypt.TypeInfoIR
open GoCrypt.Codec GoCrypt.Gen.typeinfoIR GoCrypt.TIIR

/-- The translator understood every statement and expression of the five functions: there is no
`unknown` node in the regenerated program. -/
theorem no_unknown_nodes : program.procs.map (·.body.unknowns) = [0, 0, 0, 0, 0] := by decide

/-- `indirectType` removes every pointer star (for a loop bound above the number of stars). -/
theorem indirectType_eq (c : Ctx) (h : Heap) (t : RType) (ht : t.depth < c.fuel) :
    execProc c indirectTypeIR h [.rtype t] = .ok (h, [.rtype { t with depth := 0 }]) :=
  indirectType_proc c h t ht

/-- (a) The tag loop.  For EVERY field description `f` (every tag, every byte): the part of
`getRawTypeInfo`'s loop body that builds a `fieldInfo` — the literal, the `HashPrefix` test, the
`[n]byte` test and the loop `for tag != "" { … switch … }` — run with `sf` = the description of field
`i` and `tag` = its `hash` tag, allocates exactly the record of `fieldInfoOf f i`, whose options are the
model's `fieldOpts f`.  (`IndirectSpec c`: function 3 of the calling context is `indirectType`, which
holds inside the program: `indirectSpec_callIn`.) -/
theorem tagLoop_eq_fieldOpts (c : Ctx) (f : GoField) (i : Nat) (h : Heap) (env : Env)
    (hind : IndirectSpec c) (hd : f.ptrDepth < c.fuel) (hfuel : f.tag.length < c.fuel)
    (hlen : env.length = 21) (hsf : env[3]? = some (.sfield f i)) (htag : env[4]? = some (.str f.tag)) :
    ∃ env', exec c fieldPart h env = .norm (h ++ [fiObj (fieldInfoOf f i)]) env' ∧ env'.length = 21 ∧
      env'[0]? = env[0]? ∧ env'[1]? = env[1]? ∧ env'[2]? = env[2]? ∧ env'[7]? = some (.ptr h.length) :=
  Tag.fieldPart_spec c f i h env hind hd hfuel hlen hsf htag

/-- The options of that record are `fieldOpts f` (by definition of `fieldInfoOf`). -/
theorem fieldInfoOf_opts (f : GoField) (i : Nat) : (fieldInfoOf f i).opts = fieldOpts f := rfl

/-- (b) `(*typeInfo).field`.  For every field list, every param and EVERY behaviour `c.sort` of
`sort.Slice`: the run is rejected (`stuck`: the proposal was not a permutation sorted with respect to the
closure), or
* the model chose `fi`: the program returns a pointer to a record representing `fi`, and `nil`;
* the model found the conflict `f1`/`f2`: the program returns `nil` and a `*TagParamError` whose
  `Field1`, `Field2` are those two names;
* no field has that param (the model says `.ok none`): the Go code PANICS at `fields[0]`
  (`normalize` never calls it that way).
Hypotheses: the records at `addrs` represent `fields`; the index paths are valid `FieldByIndex` paths
(`TagsOk`, needed only for the tags inside the error value); loop bound above the sizes. -/
theorem field_eq_resolveParam (c : Ctx) (h : Heap) (t : Nat) (strct hp : Val) (root : RType) (n : Int)
    (addrs : List Nat) (fields : List FieldInfo) (param : Bytes)
    (hti : h[t]? = some (tiObj strct root hp addrs n)) (hreps : Reps h addrs fields)
    (htags : TagsOk c.structs root fields) (hfuel : fields.length < c.fuel)
    (hidx : ∀ fi ∈ fields, fi.index.length < c.fuel) :
    (execProc c fieldIR h [.ptr t, .str param]).isStuck ∨
      FieldPost h addrs fields param (execProc c fieldIR h [.ptr t, .str param]) :=
  Field.field_spec c h t strct hp root n addrs fields param hti hreps htags hfuel hidx

/-- (b, every sorted permutation) `Field.GoodSort sort`: the proposal is, for every slice, SOME permutation
sorted by `len(fi.Index)` — stable or not, any algorithm.  With such a behaviour `field` is never stuck, so
by (b) its result is exactly the model's: the "stuck" alternative is only the rejection of proposals
that are not sorted permutations. -/
theorem field_not_stuck_for_sorted_permutations (c : Ctx) (h : Heap) (t : Nat) (strct hp : Val) (root : RType) (n : Int)
    (addrs : List Nat) (fields : List FieldInfo) (param : Bytes)
    (hti : h[t]? = some (tiObj strct root hp addrs n)) (hreps : Reps h addrs fields)
    (htags : TagsOk c.structs root fields) (hfuel : fields.length < c.fuel)
    (hsort : Field.GoodSort c.sort) :
    ¬ (execProc c fieldIR h [.ptr t, .str param]).isStuck :=
  Field.field_not_stuck_of_good c h t strct hp root n addrs fields param hti hreps htags hfuel hsort

/-- Merge sort by `len(fi.Index)` is such a behaviour. -/
theorem merge_sort_is_good : Field.GoodSort Field.sortByLen := Field.goodSort_sortByLen

/-- (c) `(*typeInfo).normalize`, called inside the program (so that `ti.field` is the regenerated
`field`).  On a `typeInfo` record whose `Fields` represent `raw`, with `HashPrefix` nil and `NumReqValues`
0 (what `getRawTypeInfo` returns) and `Struct` set: the run is rejected by `sort.Slice`, or it ends with
the record representing `normalizeLoop raw raw {} []` (`HashPrefix`, `Fields`, `NumReqValues`) and returns
`nil`, or it returns the error the model returns. -/
theorem normalize_eq_normalizeLoop (w : World) (d : Nat) (h : Heap) (t : Nat) (st root : RType)
    (addrs : List Nat) (raw : List FieldInfo)
    (hti : h[t]? = some (tiObj (.rtype st) root .nil addrs 0)) (hreps : Reps h addrs raw)
    (htags : TagsOk w.structs root raw) (hfuel : raw.length < w.fuel)
    (hidx : ∀ fi ∈ raw, fi.index.length < w.fuel) :
    (callIn program w (d + 2) 1 h [.ptr t]).isStuck ∨
      NormPost h t (.rtype st) root raw (callIn program w (d + 2) 1 h [.ptr t]) := by
  rw [callIn_succ program w (d + 1) 1 h _ normalizeIR (by rfl)]
  exact Norm.norm_spec { structs := w.structs, fuel := w.fuel, sort := w.sort, call := callIn program w (d + 1) }
    h t st root addrs raw (Top.callsField_callIn Field.field_spec w d) hti hreps htags hfuel hidx

/-- (c, sorted permutations) With a `GoodSort` behaviour, `normalize` is never stuck: exactly the model. -/
theorem normalize_eq_normalizeLoop_exact (w : World) (hgood : Field.GoodSort w.sort) (d : Nat) (h : Heap) (t : Nat)
    (st root : RType) (addrs : List Nat) (raw : List FieldInfo)
    (hti : h[t]? = some (tiObj (.rtype st) root .nil addrs 0)) (hreps : Reps h addrs raw)
    (htags : TagsOk w.structs root raw) (hfuel : raw.length < w.fuel)
    (hidx : ∀ fi ∈ raw, fi.index.length < w.fuel) :
    NormPost h t (.rtype st) root raw (callIn program w (d + 2) 1 h [.ptr t]) :=
  (Exact.normCalls_false w hgood d h t st root addrs raw hti hreps htags hfuel hidx).elim (fun hs => hs.1.elim) id

/-- (d) `getRawTypeInfo` on the struct named `n` (described by `s`): a fresh `typeInfo` record whose
`Fields` are fresh, pairwise distinct records representing exactly `rawFields structs fuel s` — recursion
over embedded structs, skipping of unexported and `-` fields, index prefixing included.
Domain: embedding depth below the model's `fuel` and every embedded struct described (`fitsFuel`);
call depth and loop bound above the sizes involved. -/
theorem getRawTypeInfo_eq_rawFields : RawSpec := Raw.raw_spec Tag.fieldPart_spec

/-- The index paths `rawFields` produces are valid `FieldByIndex` paths that lead to the field with
the recorded tag — for struct descriptions in which an embedded struct is `T` or `*T` (as in Go). -/
theorem rawFields_paths_valid {structs : List GoStruct} (hemb : Top.EmbedPtrOk structs)
    (fuel : Nat) (t : RType) (n : String) (s : GoStruct) (hd : t.depth = 0) (hk : t.kind = .structRef n)
    (hl : Codec.lookupStruct structs n = some s) : TagsOk structs t (rawFields structs fuel s) :=
  Top.tagsOk_rawFields hemb fuel t n s hd hk hl

/-- (d) The cold-cache path of `getTypeInfo` = `typeInfoOf`.  For a type `*…*T` with `T` the struct
named `n`: the run is rejected by `sort.Slice`, or it returns a fresh copy of the normalized record
(`Struct` = the type asked for, `Type` = `T`, `HashPrefix`/`Fields`/`NumReqValues` representing
`typeInfoOf structs n`) and `nil`, or `nil` and the model's error.
Domain: embedding depth < 8 (the model's fuel) with every embedded struct described; embedded structs
are `T` or `*T`; call depth > 18; loop bound above the sizes involved. -/
theorem getTypeInfo_cold_eq_typeInfoOf (w : World) (depth : Nat) (h : Heap) (t : RType) (n : String) (s : GoStruct)
    (hk : t.kind = .structRef n) (hl : Codec.lookupStruct w.structs n = some s)
    (hfit : fitsFuel w.structs 8 s = true) (hemb : Top.EmbedPtrOk w.structs)
    (hdepth : 18 < depth) (ht : t.depth < w.fuel) (h8 : 8 < w.fuel)
    (hsz : ∀ s' ∈ w.structs, s'.fields.length < w.fuel ∧ ∀ f ∈ s'.fields, f.ptrDepth < w.fuel ∧ f.tag.length < w.fuel)
    (hlen : (rawFields w.structs 8 s).length < w.fuel) :
    (callIn program w depth 4 h [.rtype t]).isStuck ∨
      Top.ColdPost t (typeInfoOf w.structs n) (callIn program w depth 4 h [.rtype t]) :=
  Top.getTypeInfo_cold getRawTypeInfo_eq_rawFields Norm.norm_spec Field.field_spec w depth h t n s hk hl hfit hemb
    hdepth ht h8 hsz hlen

/-- (d, sorted permutations) With a `GoodSort` behaviour of `sort.Slice`, the cold-cache `getTypeInfo` is never
stuck: its result is exactly `typeInfoOf` (same domain as above). -/
theorem getTypeInfo_cold_eq_typeInfoOf_exact (w : World) (hgood : Field.GoodSort w.sort)
    (depth : Nat) (h : Heap) (t : RType) (n : String) (s : GoStruct)
    (hk : t.kind = .structRef n) (hl : Codec.lookupStruct w.structs n = some s)
    (hfit : fitsFuel w.structs 8 s = true) (hemb : Top.EmbedPtrOk w.structs)
    (hdepth : 18 < depth) (ht : t.depth < w.fuel) (h8 : 8 < w.fuel)
    (hsz : ∀ s' ∈ w.structs, s'.fields.length < w.fuel ∧ ∀ f ∈ s'.fields, f.ptrDepth < w.fuel ∧ f.tag.length < w.fuel)
    (hlen : (rawFields w.structs 8 s).length < w.fuel) :
    Top.ColdPost t (typeInfoOf w.structs n) (callIn program w depth 4 h [.rtype t]) :=
  Exact.getTypeInfo_cold_exact w hgood depth h t n s hk hl hfit hemb hdepth ht h8 hsz hlen

/-- The domain hypotheses are satisfiable: for the example description `Outer` (embedded `*Inner` shadowed
by an outer field, options, trailing comma; see `Proofs/TIIRExamples.lean`) all of them hold, so — as a
THEOREM, not only as the evaluation below — the regenerated `getTypeInfo(*Outer)` with merge sort returns
exactly `typeInfoOf`. -/
theorem example_outer_is_in_the_domain :
    Top.ColdPost ⟨1, .structRef "Outer", "", .none, .none⟩ (typeInfoOf Examples.structs "Outer")
      (Examples.run Field.sortByLen "Outer" 1) := Exact.example_outer_cold

/-! ## Examples: the regenerated `getTypeInfo` run on concrete struct descriptions

`Examples.agrees sort root stars` runs function 4 on `*…*root` from an empty heap with the given
`sort.Slice` behaviour and compares with `typeInfoOf` (fields, options, order, `HashPrefix`,
`NumReqValues`, or the error).  The real Go code was run on the same five types
(`hash.DescribeTypeInfo`, `-tags verif`): identical results. -/

open Examples in
-- an embedded `*Inner` whose param `a` is shadowed by the outer field; `length:`/`base:`/`enc:` options,
-- an empty part and a trailing comma in a tag; a `-` field; asked for as `*Outer`
#guard agrees sortByLen "Outer" 1
open Examples in
-- the same with another (unstable-looking) sorted permutation
#guard agrees sortByLenRev "Outer" 0
open Examples in
#guard agrees sortByLen "Inner" 0
open Examples in
-- param conflict: same error, same two field names
#guard agrees sortByLen "Conflict" 0
open Examples in
-- invalid tag (`group` without `param:`), asked for as `***Invalid`
#guard agrees sortByLen "Invalid" 3
open Examples in
-- conflict at depth 2 below a dominating depth-1 field
#guard agrees sortByLen "Deep" 0
open Examples in
-- a `sort.Slice` behaviour that does not sort is rejected
#guard isStuck (run noSort "Outer" 0)
open Examples in
-- what the shadowing example resolves to: `A` is the outer one (index `[1]`), `Z` comes from `Inner`
-- (index `[0, 1]`, length 3), `B` has length 2 (`length:2` beats `[4]byte` and `length:9`), base 36; three
-- required values (`A`, `Z`, `X`)
#guard (typeInfoOf structs "Outer").toOption.map (fun ti =>
    (ti.fields.map (fun f => (f.name, f.index, f.opts.param, f.opts.length, f.opts.base)), ti.numReqValues)) ==
  some ([("A", [1], [97], 0, 10), ("Z", [0, 1], [], 3, 10), ("R", [2], [114], 0, 16), ("X", [3], [], 0, 10),
         ("B", [5], [], 2, 36)], 3)

#print axioms no_unknown_nodes
#print axioms indirectType_eq
#print axioms tagLoop_eq_fieldOpts
#print axioms field_eq_resolveParam
#print axioms field_not_stuck_for_sorted_permutations
#print axioms merge_sort_is_good
#print axioms normalize_eq_normalizeLoop
#print axioms normalize_eq_normalizeLoop_exact
#print axioms getRawTypeInfo_eq_rawFields
#print axioms rawFields_paths_valid
#print axioms getTypeInfo_cold_eq_typeInfoOf
#print axioms getTypeInfo_cold_eq_typeInfoOf_exact
#print axioms example_outer_is_in_the_domain

end GoCrypt.TypeInfoIR
