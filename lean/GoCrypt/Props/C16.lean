import GoCrypt.Gen.Facts
import GoCrypt.Proofs.Base64
import GoCrypt.Props.C16Decode
import GoCrypt.Props.B64IR
import GoCrypt.Props.StreamIR

/-!
# C16 — the little-endian base64 of crypt(3)

Property theorems only; helper lemmas are in `Proofs/Base64.lean`, the bit-level specification the
encoder is compared with is `Spec/Base64Bits.lean`.

The shift/mask expressions (`Encode_val`, `Encode_sym*`, `decodeQuantum_*`, `assemble32/64`,
`EncodedLen`, `DecodedLen`) are the generated kernels of `Gen/Kernels.lean`; `encode`, `decode`,
`decodeString` are the hand model of `Model/Base64LE.lean`.
-/

namespace GoCrypt.C16
open GoCrypt.Gen.base64le GoCrypt.Base64LE GoCrypt.Spec.Base64Bits

/-- (a) For byte inputs every index used with `enc.encode[...]` is below 64: the four symbol indices
of a full group, the three of a 2-byte tail and the two of a 1-byte tail. -/
theorem sym_index_lt {b0 b1 b2 : Nat} (h0 : b0 < 256) (h1 : b1 < 256) (h2 : b2 < 256) :
    (Encode_sym0 (Encode_val b0 b1 b2) < 64 ∧ Encode_sym1 (Encode_val b0 b1 b2) < 64 ∧
     Encode_sym2 (Encode_val b0 b1 b2) < 64 ∧ Encode_sym3 (Encode_val b0 b1 b2) < 64) ∧
    (EncodeTail_sym0 (EncodeTail_val b0 ||| EncodeTail_or b1) < 64 ∧
     EncodeTail_sym1 (EncodeTail_val b0 ||| EncodeTail_or b1) < 64 ∧
     EncodeTail_sym2 (EncodeTail_val b0 ||| EncodeTail_or b1) < 64) ∧
    (EncodeTail_sym0 (EncodeTail_val b0) < 64 ∧ EncodeTail_sym1 (EncodeTail_val b0) < 64) := by
  have q := quantum_digits h0 h1 h2
  have t2 := tail2_digits h0 h1
  have t1 := tail1_digits h0
  rw [q.1, q.2.1, q.2.2.1, q.2.2.2, t2.1, t2.2.1, t2.2.2, t1.1, t1.2]
  simp only [digit_lt, and_self]

/-- (b) Full group: symbol index `k` is the `k`-th 6-bit group, least significant first, of the
little-endian value `b0 + 256*b1 + 65536*b2`. -/
theorem quantum_eq_spec {b0 b1 b2 : Nat} (h0 : b0 < 256) (h1 : b1 < 256) (h2 : b2 < 256) :
    Encode_sym0 (Encode_val b0 b1 b2) = ((b0 + 256 * b1 + 65536 * b2) / 64 ^ 0) % 64 ∧
    Encode_sym1 (Encode_val b0 b1 b2) = ((b0 + 256 * b1 + 65536 * b2) / 64 ^ 1) % 64 ∧
    Encode_sym2 (Encode_val b0 b1 b2) = ((b0 + 256 * b1 + 65536 * b2) / 64 ^ 2) % 64 ∧
    Encode_sym3 (Encode_val b0 b1 b2) = ((b0 + 256 * b1 + 65536 * b2) / 64 ^ 3) % 64 :=
  quantum_digits h0 h1 h2

/-- (b) 2-byte tail: three symbols, the low 6-bit groups of `b0 + 256*b1`. -/
theorem tail2_eq_spec {b0 b1 : Nat} (h0 : b0 < 256) (h1 : b1 < 256) :
    EncodeTail_sym0 (EncodeTail_val b0 ||| EncodeTail_or b1) = ((b0 + 256 * b1) / 64 ^ 0) % 64 ∧
    EncodeTail_sym1 (EncodeTail_val b0 ||| EncodeTail_or b1) = ((b0 + 256 * b1) / 64 ^ 1) % 64 ∧
    EncodeTail_sym2 (EncodeTail_val b0 ||| EncodeTail_or b1) = ((b0 + 256 * b1) / 64 ^ 2) % 64 :=
  tail2_digits h0 h1

/-- (b) 1-byte tail: two symbols, the low 6-bit groups of `b0`. -/
theorem tail1_eq_spec {b0 : Nat} (h0 : b0 < 256) :
    EncodeTail_sym0 (EncodeTail_val b0) = (b0 / 64 ^ 0) % 64 ∧
    EncodeTail_sym1 (EncodeTail_val b0) = (b0 / 64 ^ 1) % 64 :=
  tail1_digits h0

/-- (c) The encoder is the bit-level specification, for every alphabet, padding mode and input. -/
theorem encode_eq_spec (e : Encoding) (src : Bytes) :
    encode e src = specEncode e.alphabet e.pad src :=
  encode_eq_specEncode e src

/-- (d) The encoder writes exactly `EncodedLen(len(src))` bytes. -/
theorem encode_length (e : Encoding) (src : Bytes) :
    (encode e src).length = encodedLen e src.length :=
  encode_length_eq e src

/-- (d) `EncodedLen`: `ceil(8n/6)` symbols unpadded, 4 per started group padded. -/
theorem encodedLen_spec (e : Encoding) (n : Nat) :
    encodedLen e n = if e.pad.isSome then 4 * ((n + 2) / 3) else (8 * n + 5) / 6 := by
  unfold encodedLen; rw [EncodedLen_eq]
  cases e.pad <;> simp <;> omega

/-- (d) `DecodedLen`: `floor(6n/8)` bytes unpadded, 3 per complete quantum padded; in both modes
it is enough room for what `n` encoded bytes can hold, and exact for unpadded text. -/
theorem decodedLen_spec (e : Encoding) (n : Nat) :
    (decodedLen e n = if e.pad.isSome then 3 * (n / 4) else 6 * n / 8) ∧
    n ≤ decodedLen e (encodedLen e n) ∧
    (e.pad = none → decodedLen e (encodedLen e n) = n) := by
  unfold decodedLen encodedLen; rw [EncodedLen_eq, DecodedLen_eq, DecodedLen_eq]
  cases e.pad <;> simp <;> omega

/-- (e) Decoding a quantum inverts encoding it: from the four 6-bit groups of
`b0 + 256*b1 + 65536*b2` the decoder kernel recovers `b0`, `b1`, `b2`. -/
theorem quantum_roundtrip {b0 b1 b2 : Nat} (h0 : b0 < 256) (h1 : b1 < 256) (h2 : b2 < 256) :
    let w := b0 + 256 * b1 + 65536 * b2
    let v := decodeQuantum_val ((w / 64 ^ 0) % 64) ((w / 64 ^ 1) % 64) ((w / 64 ^ 2) % 64) ((w / 64 ^ 3) % 64)
    decodeQuantum_out0 v = b0 ∧ decodeQuantum_out1 v = b1 ∧ decodeQuantum_out2 v = b2 := by
  intro w v
  have l0 : (w / 64 ^ 0) % 64 < 64 := Nat.mod_lt _ (by decide)
  have l1 : (w / 64 ^ 1) % 64 < 64 := Nat.mod_lt _ (by decide)
  have l2 : (w / 64 ^ 2) % 64 < 64 := Nat.mod_lt _ (by decide)
  have l3 : (w / 64 ^ 3) % 64 < 64 := Nat.mod_lt _ (by decide)
  refine ⟨?_, ?_, ?_⟩
  · rw [out0_val l0 l1 l2 l3]; simp only [w, Nat.reducePow]; omega
  · rw [out1_val l0 l1 l2 l3]; simp only [w, Nat.reducePow]; omega
  · rw [out2_val l0 l1 l2 l3]; simp only [w, Nat.reducePow]; omega

/-- (f) `assemble32` on `decodeMap` outputs (each a 6-bit digit or the 0xFF marker): it reports
failure exactly when some digit is 0xFF, and otherwise returns the decoded quantum in the top 24
bits of the 32-bit word with a zero low byte. -/
theorem assemble32_spec {d0 d1 d2 d3 : Nat}
    (h0 : d0 < 64 ∨ d0 = 255) (h1 : d1 < 64 ∨ d1 = 255) (h2 : d2 < 64 ∨ d2 = 255) (h3 : d3 < 64 ∨ d3 = 255) :
    ((assemble32 d0 d1 d2 d3).2 = false ↔ (d0 = 255 ∨ d1 = 255 ∨ d2 = 255 ∨ d3 = 255)) ∧
    (d0 < 64 → d1 < 64 → d2 < 64 → d3 < 64 →
      (assemble32 d0 d1 d2 d3).1 = decodeQuantum_val d0 d1 d2 d3 * 256) :=
  ⟨assemble32_flag h0 h1 h2 h3, assemble32_val⟩

/-- (f) `assemble64`: failure exactly when some digit is 0xFF; otherwise the two decoded quanta in
the top 48 bits of the 64-bit word with the low 16 bits zero. -/
theorem assemble64_spec {d0 d1 d2 d3 d4 d5 d6 d7 : Nat}
    (h0 : d0 < 64 ∨ d0 = 255) (h1 : d1 < 64 ∨ d1 = 255) (h2 : d2 < 64 ∨ d2 = 255) (h3 : d3 < 64 ∨ d3 = 255)
    (h4 : d4 < 64 ∨ d4 = 255) (h5 : d5 < 64 ∨ d5 = 255) (h6 : d6 < 64 ∨ d6 = 255) (h7 : d7 < 64 ∨ d7 = 255) :
    ((assemble64 d0 d1 d2 d3 d4 d5 d6 d7).2 = false ↔
      (d0 = 255 ∨ d1 = 255 ∨ d2 = 255 ∨ d3 = 255 ∨ d4 = 255 ∨ d5 = 255 ∨ d6 = 255 ∨ d7 = 255)) ∧
    (d0 < 64 → d1 < 64 → d2 < 64 → d3 < 64 → d4 < 64 → d5 < 64 → d6 < 64 → d7 < 64 →
      (assemble64 d0 d1 d2 d3 d4 d5 d6 d7).1 =
        decodeQuantum_val d0 d1 d2 d3 * 2 ^ 40 + decodeQuantum_val d4 d5 d6 d7 * 2 ^ 16) :=
  ⟨assemble64_flag h0 h1 h2 h3 h4 h5 h6 h7, assemble64_val⟩

/-- (g) The exported crypt(3) alphabets: `./0-9A-Za-z` (generic) and `./A-Za-z0-9` (bcrypt);
64 distinct symbols each, none of them `=`, `\n` or `\r`. -/
theorem alphabets :
    (GoCrypt.Gen.hash.encoder = cryptAlphabet ∧ GoCrypt.Gen.bcrypt.encoder = bcryptAlphabet) ∧
    (GoCrypt.Gen.hash.encoder.length = 64 ∧ GoCrypt.Gen.hash.encoder.Nodup ∧
      61 ∉ GoCrypt.Gen.hash.encoder ∧ 10 ∉ GoCrypt.Gen.hash.encoder ∧ 13 ∉ GoCrypt.Gen.hash.encoder) ∧
    (GoCrypt.Gen.bcrypt.encoder.length = 64 ∧ GoCrypt.Gen.bcrypt.encoder.Nodup ∧
      61 ∉ GoCrypt.Gen.bcrypt.encoder ∧ 10 ∉ GoCrypt.Gen.bcrypt.encoder ∧ 13 ∉ GoCrypt.Gen.bcrypt.encoder) :=
  alphabets_ok

/-- (h) For an alphabet of 64 distinct symbols `decodeMap` inverts the alphabet and marks every
other byte with 0xFF. -/
theorem decodeMap_inverts (alphabet : Bytes) (hlen : alphabet.length = 64) (hnd : alphabet.Nodup) :
    (∀ i, i < 64 → decodeMapOf alphabet (alphabet.getD i 0) = i) ∧
    (∀ c, c ∉ alphabet → decodeMapOf alphabet c = 255) :=
  ⟨fun i hi => dmPrefix_nodup alphabet hnd i _ (by omega) (Nat.le_refl _),
   fun c hc => dmPrefix_not_mem alphabet c hc _ (Nat.le_refl _)⟩

/-- The exported crypt(3) encodings as `Encoding` values: `hash.Encoding`-style generic alphabet and
the bcrypt alphabet, both `WithPadding(NoPadding)`, non-strict. -/
def cryptEncoding : Encoding := ⟨GoCrypt.Gen.hash.encoder, none, false⟩
def bcryptEncoding : Encoding := ⟨GoCrypt.Gen.bcrypt.encoder, none, false⟩

set_option maxRecDepth 100000 in
/-- (g) Both exported encodings are well formed (`WellFormed e` is `WellFormedAlphabet e.alphabet e.pad`
of `Spec/Base64Bits.lean`: 64 distinct symbols, no `\n`/`\r`, padding character — if any — not a symbol
and not `\n`/`\r`), and stay so with standard `=` padding, strict or not. -/
theorem crypt_encodings_wellFormed :
    WellFormed cryptEncoding ∧ WellFormed bcryptEncoding ∧
    ∀ strict, WellFormed ⟨GoCrypt.Gen.hash.encoder, some 61, strict⟩ ∧
      WellFormed ⟨GoCrypt.Gen.bcrypt.encoder, some 61, strict⟩ := by
  have a := alphabets_ok
  refine ⟨⟨a.2.1.1, a.2.1.2.1, a.2.1.2.2.2.1, a.2.1.2.2.2.2, by simp [cryptEncoding]⟩,
    ⟨a.2.2.1, a.2.2.2.1, a.2.2.2.2.2.1, a.2.2.2.2.2.2, by simp [bcryptEncoding]⟩, fun strict =>
    ⟨⟨a.2.1.1, a.2.1.2.1, a.2.1.2.2.2.1, a.2.1.2.2.2.2, ?_⟩,
     ⟨a.2.2.1, a.2.2.2.1, a.2.2.2.2.2.1, a.2.2.2.2.2.2, ?_⟩⟩⟩
  · intro p hp; simp only [Option.some.injEq] at hp; subst hp
    exact ⟨a.2.1.2.2.1, by decide, by decide⟩
  · intro p hp; simp only [Option.some.injEq] at hp; subst hp
    exact ⟨a.2.2.2.2.1, by decide, by decide⟩

/-- (i) Decoding inverts encoding, for every byte string, every well-formed alphabet, every padding
mode and both strictness settings — on the faithful model of `Decode` with its 8-symbol, 4-symbol and
quantum-by-quantum loops and its `DecodedLen`-sized destination buffer: `DecodeString(Encode(src))`
returns `src` and no error. -/
theorem decode_encode (e : Encoding) (src : Bytes) (wf : WellFormed e) :
    decodeString e (encode e src) = (src, none) :=
  decodeString_encode wf src

/-- (i) In particular for the exported crypt(3) encodings. -/
theorem crypt_decode_encode (src : Bytes) :
    decodeString cryptEncoding (encode cryptEncoding src) = (src, none) ∧
    decodeString bcryptEncoding (encode bcryptEncoding src) = (src, none) :=
  ⟨decode_encode _ src crypt_encodings_wellFormed.1, decode_encode _ src crypt_encodings_wellFormed.2.1⟩

/-- (j) Malformed text: a byte that is neither a symbol, nor `\n`/`\r`, nor the padding character,
met where a quantum starts, makes `decodeQuantum` fail with `CorruptInputError(si)` at that byte's
offset and zero bytes produced; so does a lone trailing symbol (one digit cannot hold a byte). -/
theorem corrupt_rejected (e : Encoding) (dst src : Array UInt8) (n si : Nat) :
    (si < src.size → e.dec (src.getD si 0) = 255 → isNL (src.getD si 0) = false →
      e.pad ≠ some (src.getD si 0) →
      decodeQuantum e dst n src si = some ⟨si + 1, 0, some si, dst⟩) ∧
    (src.size = si + 1 → e.dec (src.getD si 0) ≠ 255 →
      decodeQuantum e dst n src si = some ⟨si + 1, 0, some si, dst⟩) :=
  ⟨dq_bad_char e dst src n si, fun h h0 => dq_short e dst src n si _ h rfl h0⟩

/-- (k) Strict mode: when a final quantum has 2 (resp. 3) digits, the bits of the last digit that do
not belong to a decoded byte are `d1 / 4` (resp. `d2 / 16`); `decodeQuantum` reports a corrupt-input
error exactly when the encoding is strict and those bits are non-zero, and otherwise yields 1
(resp. 2) bytes. -/
theorem strict_rejects_unused_bits (e : Encoding) (dst src : Array UInt8) (n si si' : Nat) (err : Option Nat) :
    (∀ d0 d1, collect e src si 0 [] = .inr (si', 2, [d1, d0], err) → d0 < 64 → d1 < 64 → n < dst.size →
      ∃ dst', decodeQuantum e dst n src si =
        some (if e.strict = true ∧ d1 / 4 ≠ 0 then ⟨si', 0, some (si' - 2), dst'⟩ else ⟨si', 1, err, dst'⟩)) ∧
    (∀ d0 d1 d2, collect e src si 0 [] = .inr (si', 3, [d2, d1, d0], err) → d0 < 64 → d1 < 64 → d2 < 64 →
      n + 1 < dst.size →
      ∃ dst', decodeQuantum e dst n src si =
        some (if e.strict = true ∧ d2 / 16 ≠ 0 then ⟨si', 0, some (si' - 1), dst'⟩ else ⟨si', 2, err, dst'⟩)) :=
  ⟨fun d0 d1 h l0 l1 hn => dq_strict2 e dst src n si si' d0 d1 err h l0 l1 hn,
   fun d0 d1 d2 h l0 l1 l2 hn => dq_strict3 e dst src n si si' d0 d1 d2 err h l0 l1 l2 hn⟩

/-! ## Non-vacuity -/

/-- "abc" = 61 62 63 encodes to `V7qM`, "ab" to `V74`, and "a" with `=` padding to `V/==`. -/
example : encode cryptEncoding [0x61, 0x62, 0x63] = [86, 55, 113, 77] ∧
    encode cryptEncoding [0x61, 0x62] = [86, 55, 52] ∧
    encode ⟨GoCrypt.Gen.hash.encoder, some 61, true⟩ [0x61] = [86, 47, 61, 61] ∧
    specEncode cryptAlphabet none [0x61, 0x62, 0x63] = [86, 55, 113, 77] := by decide +kernel

/-- The spec digits of "abc": `w = 0x636261`, 6-bit groups 33, 9, 54, 24. -/
example : digit (0x61 + 256 * 0x62 + 65536 * 0x63) 0 = 33 ∧ digit (0x61 + 256 * 0x62 + 65536 * 0x63) 1 = 9 ∧
    digit (0x61 + 256 * 0x62 + 65536 * 0x63) 2 = 54 ∧ digit (0x61 + 256 * 0x62 + 65536 * 0x63) 3 = 24 := by
  decide

/-- The hypotheses of `assemble32_spec` are met by `decodeMap` outputs, and its failure branch is
reachable. -/
example : (assemble32 1 2 3 255).2 = false ∧ (assemble32 1 2 3 4).2 = true ∧
    (assemble32 33 9 54 24).1 = 0x61626300 := by decide

/-- `/2` has digits 1, 4: byte `0x01` with unused bits `4/4 = 1 ≠ 0`. Strict decoding rejects it with
`CorruptInputError(0)`, non-strict decoding returns `[1]`; `/!` is rejected at offset 1. -/
example : decodeString ⟨GoCrypt.Gen.hash.encoder, none, true⟩ [47, 50] = ([], some 0) ∧
    decodeString ⟨GoCrypt.Gen.hash.encoder, none, false⟩ [47, 50] = ([1], none) ∧
    decodeString ⟨GoCrypt.Gen.hash.encoder, none, false⟩ [47, 33] = ([], some 1) := by
  have d47 : decodeMapOf GoCrypt.Gen.hash.encoder 47 = 1 := by decide +kernel
  have d50 : decodeMapOf GoCrypt.Gen.hash.encoder 50 = 4 := by decide +kernel
  have d33 : decodeMapOf GoCrypt.Gen.hash.encoder 33 = 255 := by decide +kernel
  have o0 : decodeQuantum_out0 (decodeQuantum_val 1 4 0 0) = 1 := by decide
  have o1 : decodeQuantum_out1 (decodeQuantum_val 1 4 0 0) = 1 := by decide
  have o2 : decodeQuantum_out2 (decodeQuantum_val 1 4 0 0) = 0 := by decide
  refine ⟨?_, ?_, ?_⟩
  · simp [decodeString, decode, decodedLen, DecodedLen_eq]
    rw [decodeLoop]
    simp [decodeStep, decodeQuantum]
    rw [collect]; simp [Encoding.dec, d47]
    rw [collect]; simp [Encoding.dec, d50]
    rw [collect]; simp [setChk, o0, o1, o2]
  · simp [decodeString, decode, decodedLen, DecodedLen_eq]
    rw [decodeLoop]
    simp [decodeStep, decodeQuantum]
    rw [collect]; simp [Encoding.dec, d47]
    rw [collect]; simp [Encoding.dec, d50]
    rw [collect]; simp [setChk, o0]
    rw [decodeLoop]; simp
  · simp [decodeString, decode, decodedLen, DecodedLen_eq]
    rw [decodeLoop]
    simp [decodeStep, decodeQuantum]
    rw [collect]; simp [Encoding.dec, d47]
    rw [collect]; simp [Encoding.dec, d33, isNL]

/-- The exported crypt(3) encodings, as constructed in the current source (regenerated facts):
`hash.LittleEndianEncoding` is the little-endian base64 of this package over `./0-9A-Za-z`,
`hash.BigEndianEncoding` and `bcrypt.Encoding` are standard (big-endian) base64 over `./0-9A-Za-z`
and `./A-Za-z0-9`; all three without padding. -/
theorem exported_encodings :
    GoCrypt.Gen.Facts.encodings =
      [("bcrypt", "Encoding", "encoding/base64", GoCrypt.Spec.Base64Bits.bcryptAlphabet, -1),
       ("hash", "LittleEndianEncoding", "github.com/sergeymakinen/go-crypt/hash/base64le", GoCrypt.Spec.Base64Bits.cryptAlphabet, -1),
       ("hash", "BigEndianEncoding", "encoding/base64", GoCrypt.Spec.Base64Bits.cryptAlphabet, -1)] := by
  decide

#print axioms sym_index_lt
#print axioms quantum_eq_spec
#print axioms tail2_eq_spec
#print axioms tail1_eq_spec
#print axioms encode_eq_spec
#print axioms encode_length
#print axioms encodedLen_spec
#print axioms decodedLen_spec
#print axioms quantum_roundtrip
#print axioms assemble32_spec
#print axioms assemble64_spec
#print axioms alphabets
#print axioms decodeMap_inverts
#print axioms crypt_encodings_wellFormed
#print axioms decode_encode
#print axioms crypt_decode_encode
#print axioms corrupt_rejected
#print axioms strict_rejects_unused_bits
#print axioms exported_encodings
-- the decode direction for ALL texts (Props/C16Decode.lean): the model's Decode equals an independent declarative reference
-- decoder (Spec/Base64Ref.lean), result bytes and error offsets; accepted texts are canonical up to the tolerated unused bits
#print axioms GoCrypt.C16Decode.decode_eq_ref
#print axioms GoCrypt.C16Decode.decode_never_panics
#print axioms GoCrypt.C16Decode.decode_ok_iff_ref
#print axioms GoCrypt.C16Decode.decode_error_iff_ref
#print axioms GoCrypt.C16Decode.accepted_is_canonical_or_tolerated
#print axioms GoCrypt.C16Decode.never_silent_garbage
#print axioms GoCrypt.C16Decode.regroup_inverts_spec
#print axioms GoCrypt.C16Decode.malformed_rejected
#print axioms GoCrypt.C16Decode.nothing_after_padding
#print axioms GoCrypt.C16Decode.incomplete_rejected

-- the tie of the loops (Props/B64IR.lean): Encode, EncodeToString, EncodedLen, DecodeString, Decode, decodeQuantum, assemble32/64 and
-- DecodedLen, bodies regenerated from hash/base64le/base64le.go on every run, interpreted over a heap of byte buffers, equal the hand model
#print axioms GoCrypt.B64IR.encodedLen_ir_eq_model
#print axioms GoCrypt.B64IR.decodedLen_ir_eq_model
#print axioms GoCrypt.B64IR.assemble32_ir_eq_model
#print axioms GoCrypt.B64IR.assemble64_ir_eq_model
#print axioms GoCrypt.B64IR.encode_ir_eq_model
#print axioms GoCrypt.B64IR.encodeToString_ir_eq_model
#print axioms GoCrypt.B64IR.decodeQuantum_ir_eq_model
#print axioms GoCrypt.B64IR.decode_ir_eq_decodeLoop
#print axioms GoCrypt.B64IR.decode_ir_eq_model
#print axioms GoCrypt.B64IR.decodeString_ir_eq_model
#print axioms GoCrypt.B64IR.decodeString_ir_bytes

-- the constructors (Props/B64IRCtor.lean): NewEncoding, WithPadding, Strict regenerated from the source build exactly the encoding value the theorems above are about
-- (decodeMap = the model's table, fresh object, receiver unchanged) and panic exactly on the alphabets/padding runes the Go code rejects
#print axioms GoCrypt.SIR.newEncoding_ir_eq_model
#print axioms GoCrypt.SIR.newEncoding_ir_encAt
#print axioms GoCrypt.SIR.newEncoding_ir_toB
#print axioms GoCrypt.SIR.newEncoding_ir_panics
#print axioms GoCrypt.SIR.withPadding_ir_eq_model
#print axioms GoCrypt.SIR.withPadding_ir_keeps_receiver
#print axioms GoCrypt.SIR.withPadding_ir_encAt
#print axioms GoCrypt.SIR.withPadding_ir_panics
#print axioms GoCrypt.SIR.strict_ir_eq_model
#print axioms GoCrypt.SIR.strict_ir_encAt
end GoCrypt.C16
