import GoCrypt.Proofs.SIREncNew
import GoCrypt.Proofs.SIREncInv

/-!
# The hand-written model of the streaming ENCODER is what the Go source computes (stream IR)

`gogen` (b64ir.go + streamir.go) re-translates the bodies of `(*encoder).Write`, `(*encoder).Close` and
`NewEncoder` of `hash/base64le/base64le.go` into the programs of `Gen/StreamIR.lean` on every run;
`Base/StreamIRBase.lean` interprets them over a world of byte buffers, struct objects and external
(scripted) writers. The theorems below state that interpreting the regenerated programs gives exactly
`encWrite` / `encClose` of `Model/Stream.lean` (the functions the C17 theorems speak about): the returned
`n`, the returned error, and a world that represents the model's new state — for every encoding with a
64-entry alphabet, every state, every `p`, every writer script. The interpreter's third outcome
`stuck` never equals either side. Property theorems only; the lemmas are in `Proofs/SIREnc*.lean`.

How the model state reaches the programs (`EncRep L e st H O X`, `Proofs/SIREncDefs.lean`): object `L.d` is the
Go struct `encoder{err, enc, w, buf, nbuf, out}` with `err = st.err`, `nbuf = len st.buf`, `enc` a pointer to
the `Encoding` object of `e` (`EncAt`), `w` the external writer number `L.k` whose log and script are
`st.writes` / `st.script`; the array `buf` is heap buffer `L.bb` and its first `nbuf` bytes are `st.buf`; the
array `out` is heap buffer `L.bo` (contents unspecified: scratch space). `p` is a whole buffer `bp`
different from both (the caller cannot reach the unexported arrays).
Calls of `e.enc.Encode` / `EncodedLen` go to the library `lib` = the regenerated buffer-IR program of
`Gen/B64IR.lean`; `libB64_encLibSpec` (`Proofs/SIRLibEncode.lean`, `Proofs/B64IREncodeW.lean`) proves what
is needed of it: `Encode` on an arbitrary source WINDOW (`p[:nn]`, `e.buf[:e.nbuf]`) writes `Model.encode`.

DOMAIN NOTES
* hypothesis `st.err = none → st.buf.length < 3`: the states `Write` itself produces (`encWrite_state_invariant`);
  with an error set the buffer may hold 3 bytes (the Go code leaves `nbuf = 3` when the flush of the
  leading fringe fails, and so does the model).
* `len(p) < 2^59` keeps Go's `int` arithmetic away from wrap-around (a Go slice cannot be longer).
* error identities are the model's Nat codes (`Val.err (some code)`); the writer's own error comes back
  unchanged.
-/

namespace GoCrypt.SIR
open GoCrypt.B64IR (Buf Heap Slice Res sliceBytes)
open GoCrypt.Base64LE GoCrypt.Stream GoCrypt.Gen.base64leStream

/-- One `w.Write(data)` of the external scripted writer of the IR is `EncSt.wWrite` of the model: what is
logged, what is left of the script, and the error handed back. -/
theorem extWriter_is_wWrite (st : EncSt) (herr : st.err = none) (H : Heap) (O : List Obj) (X : List Ext) (k : Nat)
    (s : Slice) (data : Bytes) (hk : X[k]? = some (writerOf st)) (hd : sliceBytes H s = some data) :
    extCall ⟨H, O, X⟩ k "Write" [.slice s] =
      .ok (⟨H, O, X.set k (writerOf (st.wWrite data))⟩, [.int (wWriteN st data), .err (st.wWrite data).err]) :=
  extWrite_eq_wWrite st herr H O X k s data hk hd

/-- What the streaming encoder needs from the one-shot functions holds for the regenerated buffer-IR
program: `Encode(dst, src)` with `src` ANY window of a buffer writes `Model.encode` of the window's
bytes to the start of `dst` and nothing else; `EncodedLen` is the model's. -/
theorem library_spec : EncLibSpec lib := libB64_encLibSpec

/-- `e.Write(p)` as regenerated from the Go source — the sticky-error check, the leading fringe (top up
`buf` to three bytes, encode, hand four symbols to the writer), the interior loop (at most 768 bytes per
`Encode` + `w.Write`), the trailing fringe kept in `buf` — is the model's `encWrite`: it returns
`n = (encWrite e st p).2.1` and the error `(encWrite e st p).2.2`, the writer has logged and consumed
exactly what the model says, and the world represents the model's new state. Only the `encoder` object,
its two arrays and the writer changed. -/
theorem encoderWrite_ir_eq_model (L : EncLayout) (e : Encoding) (st : EncSt) (H : Heap) (O : List Obj) (X : List Ext)
    (hrep : EncRep L e st H O X) (hlt : st.err = none → st.buf.length < 3) (p : Bytes) (bp : Nat)
    (hP : H[bp]? = some p.toArray) (hnb : L.bb ≠ bp) (hno : L.bo ≠ bp) (hsz : p.length < 2 ^ 59) :
    ∃ H' O', interp program lib "encoder.Write" ⟨H, O, X⟩ [.ptr L.d, .slice ⟨bp, 0, p.length, p.length⟩] =
        .ok (⟨H', O', X.set L.k (writerOf (encWrite e st p).1)⟩, [.int ((encWrite e st p).2.1 : Nat), .err (encWrite e st p).2.2]) ∧
      EncRep L e (encWrite e st p).1 H' O' (X.set L.k (writerOf (encWrite e st p).1)) ∧
      (∀ b, b ≠ L.bb → b ≠ L.bo → H'[b]? = H[b]?) ∧ (∀ a, a ≠ L.d → O'[a]? = O[a]?) ∧
      H'.length = H.length ∧ O'.length = O.length := by
  rw [interp_eq program lib _ _ _ _ lookup_write, program_length]
  have := write_proc 8 library_spec L e st H O X hrep hlt p.toArray bp hP hnb hno (by simp; omega)
  simp only [WriteOK, List.size_toArray, List.toList_toArray] at this
  exact this

/-- The domain hypothesis of `encoderWrite_ir_eq_model` is an invariant of the model: while no error is
recorded `Write` leaves fewer than three bytes buffered, so the theorem applies again to the state it
produced (and `NewEncoder` starts with nothing buffered). -/
theorem encWrite_state_invariant (e : Encoding) (st : EncSt) (p : Bytes) (hlt : st.err = none → st.buf.length < 3) :
    (encWrite e st p).1.err = none → (encWrite e st p).1.buf.length < 3 :=
  encWrite_keeps_short e st p hlt

/-- `e.Close()` as regenerated from the Go source is the model's `encClose`: when there is no error and
something is buffered, the last one or two bytes are encoded (with padding if the encoding pads) and
handed to the writer, `nbuf` becomes 0; the returned error is the state's error. -/
theorem encoderClose_ir_eq_model (L : EncLayout) (e : Encoding) (st : EncSt) (H : Heap) (O : List Obj) (X : List Ext)
    (hrep : EncRep L e st H O X) :
    ∃ H' O', interp program lib "encoder.Close" ⟨H, O, X⟩ [.ptr L.d] =
        .ok (⟨H', O', X.set L.k (writerOf (encClose e st).1)⟩, [.err (encClose e st).2]) ∧
      EncRep L e (encClose e st).1 H' O' (X.set L.k (writerOf (encClose e st).1)) ∧
      (∀ b, b ≠ L.bo → H'[b]? = H[b]?) ∧ (∀ a, a ≠ L.d → O'[a]? = O[a]?) ∧
      H'.length = H.length ∧ O'.length = O.length := by
  rw [interp_eq program lib _ _ _ _ lookup_close, program_length]
  obtain ⟨B, hB, hBs, hBt⟩ := hrep.buf
  have hle : st.buf.length ≤ 3 := by
    have := congrArg List.length hBt
    simp at this; omega
  exact close_proc 8 library_spec L e st H O X hrep hle

/-- `NewEncoder(enc, w)` as regenerated: a fresh `encoder` object with zeroed arrays in two fresh buffers,
nothing else touched … -/
theorem newEncoder_ir_eq_model (H : Heap) (O : List Obj) (X : List Ext) (ae k : Nat) :
    interp program lib "NewEncoder" ⟨H, O, X⟩ [.ptr ae, .ext k] =
      .ok (⟨H ++ [Array.replicate 3 0, Array.replicate 1024 0], O ++ [encoderObj ae k H.length (H.length + 1) none 0], X⟩,
        [.ptr O.length]) := by
  rw [interp_eq program lib _ _ _ _ lookup_newEncoder]
  exact newEncoder_proc _ H O X ae k

/-- … and that world represents the model's initial state (no error, nothing buffered, the writer's
log and script as they are). -/
theorem newEncoder_ir_rep (e : Encoding) (H : Heap) (O : List Obj) (X : List Ext) (ae b1 b2 k : Nat) (st : EncSt)
    (henc : EncAt H O ae b1 b2 e) (hwr : X[k]? = some (writerOf st)) (herr : st.err = none) (hbuf : st.buf = []) :
    EncRep ⟨O.length, ae, b1, b2, k, H.length, H.length + 1⟩ e st
      (H ++ [Array.replicate 3 0, Array.replicate 1024 0]) (O ++ [encoderObj ae k H.length (H.length + 1) none 0]) X :=
  newEncoder_rep e H O X ae b1 b2 k st henc hwr herr hbuf

/-! ## Non-vacuity: the regenerated programs run, on concrete inputs, to the model's values -/

private def alpha : Bytes := "./0123456789ABCDEFGHIJKLMNOPQRSTUVWXYZabcdefghijklmnopqrstuvwxyz".toUTF8.toList
private def ePad : Encoding := ⟨alpha, some 61, false⟩
private def str (s : String) : Bytes := s.toUTF8.toList
private def run (f : String) (W : World) (args : List Val) := interp program lib f W args

/-- `NewEncoder(NewEncoding(alpha), w)` with a writer that follows `script`; the encoder is object 1. -/
private def mkEncoder (script : List (Option (Nat × Nat))) : World :=
  match run "NewEncoding" ⟨[], [], [.writer [] script]⟩ [.str alpha] with
  | .ok (W, [v]) =>
    match run "NewEncoder" W [v, .ext 0] with
    | .ok (W', _) => W'
    | _ => default
  | _ => default

/-- `Write(p)` with `p` in a fresh buffer; returns the world and `(n, err)`. -/
private def writeP (W : World) (p : Bytes) : World × List Val :=
  match run "encoder.Write" ⟨W.heap ++ [p.toArray], W.objs, W.exts⟩ [.ptr 1, .slice ⟨W.heap.length, 0, p.length, p.length⟩] with
  | .ok r => r
  | _ => (default, [])

private def closeE (W : World) : World × List Val :=
  match run "encoder.Close" W [.ptr 1] with
  | .ok r => r
  | _ => (default, [])

-- the struct layout `encoderObj` assumes is the one of the current source
#guard encoderFields == [("err", "error"), ("enc", "*Encoding"), ("w", "Writer"), ("buf", "[3]byte"), ("nbuf", "int"), ("out", "[1024]byte")]
#guard (mkEncoder []).objs[1]? == some (encoderObj 0 0 2 3 none 0)
-- five bytes in one call: one quantum goes out, two bytes stay buffered; Close pads
#guard (writeP (mkEncoder []) [1, 2, 3, 4, 5]).2 == [.int 5, .err none]
#guard (writeP (mkEncoder []) [1, 2, 3, 4, 5]).1.exts == [.writer [str "/6k."] []]
#guard (encWrite ePad {} [1, 2, 3, 4, 5]).1.writes == [str "/6k."] && (encWrite ePad {} [1, 2, 3, 4, 5]).1.buf == [4, 5]
#guard (closeE (writeP (mkEncoder []) [1, 2, 3, 4, 5]).1).1.exts == [.writer [str "/6k.", str "2I.="] []]
#guard (closeE (writeP (mkEncoder []) [1, 2, 3, 4, 5]).1).2 == [.err none]
-- the same bytes in three calls (1 + 3 + 1): leading fringe, then trailing fringe — same output
#guard (closeE (writeP (writeP (writeP (mkEncoder []) [1]).1 [2, 3, 4]).1 [5]).1).1.exts == [.writer [str "/6k.", str "2I.="] []]
-- 2000 bytes: the interior loop hands 768-byte groups (1024 symbols) to the writer
#guard (match (writeP (mkEncoder []) (List.replicate 2000 7)).1.exts with
  | [.writer log _] => log.map List.length == [1024, 1024, 616]
  | _ => false)
#guard ((encWrite ePad {} (List.replicate 2000 7)).1.writes.map List.length) == [1024, 1024, 616]
-- the writer fails mid-way: second call of w.Write takes 2 bytes and fails with error 77
#guard (writeP (mkEncoder [none, some (77, 2)]) (List.replicate 2000 7)).2 == [.int 768, .err (some 77)]
#guard (encWrite ePad { script := [none, some (77, 2)] } (List.replicate 2000 7)).2 == (768, some 77)
#guard (match (writeP (mkEncoder [none, some (77, 2)]) (List.replicate 2000 7)).1.exts with
  | [.writer log script] => log.map List.length == [1024, 2] && script == []
  | _ => false)
-- … the error is sticky: the next Write returns it at once, Close too, nothing more reaches the writer
#guard (writeP (writeP (mkEncoder [none, some (77, 2)]) (List.replicate 2000 7)).1 [1, 2, 3]).2 == [.int 0, .err (some 77)]
#guard (closeE (writeP (mkEncoder [none, some (77, 2)]) (List.replicate 2000 7)).1).2 == [.err (some 77)]
-- the flush of the leading fringe fails: nbuf stays 3 (model: buf has three bytes)
#guard (writeP (writeP (mkEncoder [some (5, 0)]) [1]).1 [2, 3, 4]).2 == [.int 2, .err (some 5)]
#guard (writeP (writeP (mkEncoder [some (5, 0)]) [1]).1 [2, 3, 4]).1.objs[1]? == some (encoderObj 0 0 2 3 (some 5) 3)
#guard (encWrite ePad (encWrite ePad { script := [some (5, 0)] } [1]).1 [2, 3, 4]).1.buf == [1, 2, 3]

end GoCrypt.SIR

#print axioms GoCrypt.SIR.extWriter_is_wWrite
#print axioms GoCrypt.SIR.library_spec
#print axioms GoCrypt.SIR.encoderWrite_ir_eq_model
#print axioms GoCrypt.SIR.encWrite_state_invariant
#print axioms GoCrypt.SIR.encoderClose_ir_eq_model
#print axioms GoCrypt.SIR.newEncoder_ir_eq_model
#print axioms GoCrypt.SIR.newEncoder_ir_rep
