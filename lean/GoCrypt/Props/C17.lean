import GoCrypt.Proofs.StreamDecode
import GoCrypt.Gen.Consts
import GoCrypt.Props.StreamIR

/-!
# C17 — the streaming base64le encoder/decoder agree with the one-shot functions

Property theorems only; helper lemmas are in `Proofs/Stream.lean` and `Proofs/StreamDecode.lean`.

The model (`Model/Stream.lean`) consists of total functions (`encWrite`, `encClose`, `decRead` are
structurally recursive on explicit fuel and never index out of range), so "nothing panics" holds by
construction for the encoder: every `Write`/`Close` call returns a result for every state, chunk and
writer script.  The theorems below say what those results are.

`encRun e st chunks` (defined in `Proofs/Stream.lean`) performs `encWrite` on each chunk in turn and
returns the final state together with the list of `(n, err)` results of the `Write` calls.
-/

namespace GoCrypt.C17
open GoCrypt.Base64LE GoCrypt.Stream

/-- (a) Whatever the split of the data into `Write` calls, with an underlying writer that never
fails (`script := []`), the bytes handed to the writer by the `Write`s and the final `Close` are
exactly the one-shot encoding of the concatenated data; every `Write` reports its whole chunk and
no error, and `Close` returns no error. -/
theorem enc_chunks_eq_oneshot (e : Encoding) (chunks : List Bytes) :
    let r := encRun e {} chunks
    let c := encClose e r.1
    c.1.writes.flatten = encode e chunks.flatten ∧
      r.2 = chunks.map (fun chunk => (chunk.length, none)) ∧
      c.2 = none := by
  intro r c
  obtain ⟨ok, hr, hsc⟩ := encRun_nofail e {} [] chunks (ok_init e []) rfl
  rw [List.nil_append] at ok
  rcases encClose_ok e _ _ ok with ⟨h1, h2, _⟩ | ⟨_, _, _, hne⟩
  · exact ⟨h1, hr, h2⟩
  · -- a failing `Close` needs a non-empty script; `encRun_nofail` keeps it empty
    exact absurd hsc hne

/-- (b1) For an arbitrary writer script (any call may take only `k` bytes and fail): after any
sequence of `Write`s and the final `Close`, what the writer received is a prefix of the one-shot
encoding of the concatenated data. -/
theorem enc_fault_prefix (e : Encoding) (script : List (Option (Err × Nat))) (chunks : List Bytes) :
    (encClose e (encRun e { script := script } chunks).1).1.writes.flatten <+: encode e chunks.flatten := by
  rcases encRun_inv e { script := script } [] chunks (Or.inl (ok_init e script)) with ok | b
  · rw [List.nil_append] at ok
    rcases encClose_ok e _ _ ok with ⟨h1, _, _⟩ | ⟨h1, _, _, _⟩
    · rw [h1]; exact List.prefix_refl _
    · exact h1
  · rw [encClose_bad e _ b.err]
    simpa using b.pre []

/-- (b2) A failure of the underlying writer is returned by the very call during which it happens:
`Write` and `Close` return exactly the error they leave in the state (from any state). -/
theorem enc_failure_returned (e : Encoding) (st : EncSt) (p : Bytes) :
    (encWrite e st p).2.2 = (encWrite e st p).1.err ∧ (encClose e st).2 = (encClose e st).1.err :=
  ⟨encWrite_ret_err e st p, encClose_ret_err e st⟩

/-- (b3) The error is sticky (from any state): once the state holds `err`, `Write` writes nothing,
returns `(0, err)` and `Close` returns `err`; the state is unchanged. -/
theorem enc_err_sticky (e : Encoding) (st : EncSt) (err : Err) (p : Bytes) (h : st.err = some err) :
    encWrite e st p = (st, 0, some err) ∧ encClose e st = (st, some err) := by
  have hs : st.err.isSome = true := by simp [h]
  rw [encWrite_of_err e st p hs, encClose_bad e st hs, h]
  exact ⟨rfl, rfl⟩

/-- (b) The run-level statement: for an arbitrary writer script, what was written is a prefix of
the one-shot encoding, and once the `i`-th `Write` has returned `some err`, every later `Write`
returns `(0, some err)` and `Close` returns `some err`. -/
theorem enc_fault_prefix_sticky (e : Encoding) (script : List (Option (Err × Nat))) (chunks : List Bytes) :
    let r := encRun e { script := script } chunks
    let c := encClose e r.1
    c.1.writes.flatten <+: encode e chunks.flatten ∧
      r.2.length = chunks.length ∧
      ∀ i n err, r.2[i]? = some (n, some err) →
        (∀ j, i < j → j < chunks.length → r.2[j]? = some (0, some err)) ∧ c.2 = some err := by
  intro r c
  refine ⟨enc_fault_prefix e script chunks, encRun_length e _ chunks, fun i n err hi => ?_⟩
  obtain ⟨h1, h2⟩ := encRun_sticky e chunks { script := script } i n err hi
  exact ⟨h1, by rw [show c.2 = _ from congrArg Prod.snd (enc_err_sticky e r.1 err [] h2).2]⟩

/-! ## Decoder

Setting.  The underlying reader is the script `script : List ReadResp` followed for ever by
`([], some r)` (`sticky := some r`).  `Shape r script` says that only the last scripted response may
come with an error, and that error is `r` ("data returned together with EOF or an error").  The
fragments, with `\n`/`\r` stripped (`filt`), concatenate to the one-shot encoding of `data`;
fragment boundaries are arbitrary, fragments may be empty or consist of newlines only, newlines may
be embedded anywhere (padded or unpadded encoding), and the reader is further fragmented by the
short reads the decoder itself requests (`rawRead` splits a fragment that is larger than the
request).  `decRun e st sizes` calls `decRead` with each caller buffer size in turn.

Nothing is assumed beyond `WellFormed e` (what `NewEncoding`/`WithPadding` require: 64 distinct
symbols, none of them `\n`/`\r`, padding character not a symbol and not `\n`/`\r`).  The
`Decode`-level fact the streaming decoder needs — decoding `encode e y` into a zeroed buffer of any
length `L ≥ len y` gives `y` and no error — is `decode_encode_any_len` (`Proofs/StreamDecode.lean`),
a corollary of the C16 lemma `decodeLoop_encode`.

The fuel of the model's `filteredRead`/`refill` loops (`pending + 2`, `pending + 6`) is shown to be
always sufficient (`refill_spec`): after the refill loop the buffer holds at least 4 symbols or the
reader has reported its error, so `Read` never returns `(0, nil)` and never mistakes a partial
quantum for the final unpadded fragment. -/

/-- (c) Safety: for every sequence of caller buffer sizes `≥ 1`, either no `Read` has returned an
error yet and the bytes delivered so far are a prefix of `data`, or the results are: `Read`s without
error whose delivered bytes concatenate to exactly `data`, followed only by `(0, r)` — the first
error returned is the reader's error `r` (so `EOF` stays `EOF`, never `ErrUnexpectedEOF` or a
corrupt-input error), and it is returned only after all of `data`. -/
theorem dec_fragmentation_eq_oneshot (e : Encoding) (data : Bytes) (r : Err)
    (script : List ReadResp) (sizes : List Nat)
    (wf : WellFormed e)
    (hshape : Shape r script)
    (htext : filt (scriptData script) = encode e data)
    (hsz : ∀ k ∈ sizes, 1 ≤ k) :
    let rs := (decRun e { script := script, sticky := some r } sizes).2
    ((∀ p ∈ rs, p.2 = none) ∧ (rs.map (·.1)).flatten <+: data) ∨
    (∃ ok m, rs = ok ++ List.replicate (m + 1) ([], some r) ∧ (∀ p ∈ ok, p.2 = none) ∧
      (ok.map (·.1)).flatten = data) := by
  intro rs
  have inv : DInv e data r { script := script, sticky := some r } [] :=
    ⟨rfl, rfl, hshape, by simp, Or.inl rfl, data, by simp, by simpa using htext.symm⟩
  rcases decRun_spec e data r (decodeOK_of_wellFormed wf) sizes _ [] inv hsz with
    ⟨h1, h2, _⟩ | ⟨ok, m, h1, h2, h3⟩
  · left; exact ⟨h1, by simpa using h2.prefix⟩
  · right; exact ⟨ok, m, h1, h2, by simpa using h3⟩

/-- (c) Liveness: every error-free `Read` delivers at least one byte, so any sequence of more than
`len data` caller buffers (each `≥ 1`) drains the stream: the delivered bytes are exactly `data`,
then the first error is `r`, and every later `Read` returns `(0, r)` too. -/
theorem dec_fragmentation_drains (e : Encoding) (data : Bytes) (r : Err)
    (script : List ReadResp) (sizes : List Nat)
    (wf : WellFormed e)
    (hshape : Shape r script)
    (htext : filt (scriptData script) = encode e data)
    (hsz : ∀ k ∈ sizes, 1 ≤ k) (hlong : data.length < sizes.length) :
    ∃ ok m, (decRun e { script := script, sticky := some r } sizes).2 =
        ok ++ List.replicate (m + 1) ([], some r) ∧
      (∀ p ∈ ok, p.2 = none) ∧ (ok.map (·.1)).flatten = data := by
  have inv : DInv e data r { script := script, sticky := some r } [] :=
    ⟨rfl, rfl, hshape, by simp, Or.inl rfl, data, by simp, by simpa using htext.symm⟩
  rcases decRun_spec e data r (decodeOK_of_wellFormed wf) sizes _ [] inv hsz with
    ⟨_, h2, h3⟩ | ⟨ok, m, h1, h2, h3⟩
  · exfalso
    have hp := h2.prefix.length_le
    simp only [List.nil_append] at hp
    omega
  · exact ⟨ok, m, h1, h2, by simpa using h3⟩

/-- After the error has been returned, every further `Read` returns `(0, r)` (from any state with
no pending output). -/
theorem dec_err_sticky (e : Encoding) (st : DecSt) (r : Err) (plen : Nat) (he : st.err = some r)
    (ho : st.out = []) : decRead e st plen = (st, [], some r) :=
  decRead_done e st r plen he ho

/-! Non-vacuity: concrete runs. -/

/-- The `hash` alphabet with `=` padding. -/
def stdEnc : Encoding := ⟨GoCrypt.Gen.hash.encoder, some 61, false⟩

-- "hello world" written as "he" | "llo w" | "orld": three full-accepting Writes, then Close
example : (encRun stdEnc {} [[104, 101], [108, 108, 111, 32, 119], [111, 114, 108, 100]]).2 =
    [(2, none), (5, none), (4, none)] := by decide
example :
    (encClose stdEnc (encRun stdEnc {} [[104, 101], [108, 108, 111, 32, 119], [111, 114, 108, 100]]).1).1.writes.flatten =
      encode stdEnc [104, 101, 108, 108, 111, 32, 119, 111, 114, 108, 100] := by decide
-- the writer accepts the first call, then takes 2 bytes of the second and fails with error 7:
-- the second Write returns the failure, the third returns (0, 7), Close returns 7.
example :
    (encRun stdEnc { script := [none, some (7, 2)] } [[1, 2, 3, 4], [5, 6, 7], [8]]).2 =
      [(4, none), (2, some 7), (0, some 7)] ∧
    (encClose stdEnc (encRun stdEnc { script := [none, some (7, 2)] } [[1, 2, 3, 4], [5, 6, 7], [8]]).1).2 = some 7 := by
  decide

/-- The `hash` alphabet without padding. -/
def rawEnc : Encoding := ⟨GoCrypt.Gen.hash.encoder, none, false⟩

-- decoder hypotheses on concrete data: "hello" encoded (padded), cut into three fragments with an
-- embedded CR LF and the last fragment delivered together with EOF
example : Shape errEOF [⟨[99, 74, 52], none⟩, ⟨[13, 10, 80, 103], none⟩, ⟨[120, 10, 52, 61], some errEOF⟩] :=
  ⟨rfl, rfl, Or.inr rfl⟩
example : filt (scriptData [⟨[99, 74, 52], none⟩, ⟨[13, 10, 80, 103], none⟩, ⟨[120, 10, 52, 61], some errEOF⟩]) =
    encode stdEnc [104, 101, 108, 108, 111] := by decide
-- both encodings are well formed
example : WellFormed stdEnc := by
  have a := alphabets_ok
  refine ⟨a.2.1.1, a.2.1.2.1, a.2.1.2.2.2.1, a.2.1.2.2.2.2, ?_⟩
  intro p hp; simp only [stdEnc, Option.some.injEq] at hp; subst hp
  exact ⟨a.2.1.2.2.1, by decide, by decide⟩
example : WellFormed rawEnc := by
  have a := alphabets_ok
  exact ⟨a.2.1.1, a.2.1.2.1, a.2.1.2.2.2.1, a.2.1.2.2.2.2, by simp [rawEnc]⟩
-- unpadded, the last fragment delivered together with error 7
example : Shape 7 [⟨[99, 74, 52], none⟩, ⟨[80, 103, 120], none⟩, ⟨[52], some 7⟩] := ⟨rfl, rfl, Or.inr rfl⟩
example : filt (scriptData [⟨[99, 74, 52], none⟩, ⟨[80, 103, 120], none⟩, ⟨[52], some 7⟩]) =
    encode rawEnc [104, 101, 108, 108, 111] := by decide

/-! Evaluation checks (`#guard` runs the compiled model; these are not proofs — `decode` is defined
by well-founded recursion and does not reduce in the kernel). -/

-- the padded three-fragment script above, read with buffers of 2, 100, 1, 1 bytes
#guard (decRun stdEnc { script := [⟨[99, 74, 52], none⟩, ⟨[13, 10, 80, 103], none⟩, ⟨[120, 10, 52, 61], some errEOF⟩],
                        sticky := some errEOF } [2, 100, 1, 1, 1]).2 ==
  [([104, 101], none), ([108], none), ([108], none), ([111], none), ([], some errEOF)]
#guard (decRun stdEnc { script := [⟨[99, 74, 52], none⟩, ⟨[13, 10, 80, 103], none⟩, ⟨[120, 10, 52, 61], some errEOF⟩],
                        sticky := some errEOF } [100, 100, 100, 100]).2 ==
  [([104, 101, 108], none), ([108, 111], none), ([], some errEOF), ([], some errEOF)]
-- REGRESSION for the old fuel bug (unpadded encoding, newlines inside one fragment): data
-- [1,2,3,4,5], text "/4i.0G." delivered as ONE fragment "/4" ++ 37×"\n" ++ "i.0G.", caller buffers of
-- 3 bytes.  With the old fuel (`script.length + 2/6`) the model delivered [1,2] then [0,65,1]; with
-- the `pending`-based fuel it is correct, for 37 newlines and for 5000.
#guard encode rawEnc [1, 2, 3, 4, 5] == [47, 54, 107, 46, 50, 73, 46]
#guard (decRun rawEnc { script := [⟨[47, 54] ++ List.replicate 37 10 ++ [107, 46, 50, 73, 46], none⟩],
                        sticky := some errEOF } [3, 3, 3]).2 ==
  [([1, 2, 3], none), ([4, 5], none), ([], some errEOF)]
#guard (decRun rawEnc { script := [⟨[47, 54] ++ List.replicate 5000 10 ++ [107, 46, 50, 73, 46], none⟩],
                        sticky := some errEOF } [3, 3, 3]).2 ==
  [([1, 2, 3], none), ([4, 5], none), ([], some errEOF)]
-- padded encoding, 60 newlines: no `(0, nil)` read any more
#guard (decRun stdEnc { script := [⟨[47, 54] ++ List.replicate 60 10 ++ [107, 46, 50, 73, 46, 61], none⟩],
                        sticky := some errEOF } [3, 3, 3, 3]).2 ==
  [([1, 2, 3], none), ([4, 5], none), ([], some errEOF), ([], some errEOF)]

#print axioms enc_chunks_eq_oneshot
#print axioms enc_fault_prefix
#print axioms enc_failure_returned
#print axioms enc_err_sticky
#print axioms enc_fault_prefix_sticky
#print axioms dec_fragmentation_eq_oneshot
#print axioms dec_fragmentation_drains
#print axioms dec_err_sticky

-- the state machines ARE the current code (Props/SIREncoder.lean, SIRDecoder.lean): the bodies of (*encoder).Write/Close, NewEncoder, (*decoder).Read,
-- (*newlineFilteringReader).Read and NewDecoder regenerated from hash/base64le/base64le.go on every run (struct objects behind pointers, the scripted io.Writer/io.Reader as
-- external objects, Encode/Decode as calls into the regenerated buffer-IR programs) and interpreted = encWrite/encClose/decRead/filteredRead of Model/Stream.lean, for every state, chunk and script
-- (decoder: for every script that eventually reports an error — `Live`; a reader answering (0, nil) forever makes Go's refill loop spin, the IR is `stuck` there)
#print axioms GoCrypt.SIR.extWriter_is_wWrite
#print axioms GoCrypt.SIR.library_spec
#print axioms GoCrypt.SIR.encoderWrite_ir_eq_model
#print axioms GoCrypt.SIR.encWrite_state_invariant
#print axioms GoCrypt.SIR.encoderClose_ir_eq_model
#print axioms GoCrypt.SIR.newEncoder_ir_eq_model
#print axioms GoCrypt.SIR.newEncoder_ir_rep
#print axioms GoCrypt.SIR.extRead_eq_rawRead
#print axioms GoCrypt.SIR.ext_pending_eq_model
#print axioms GoCrypt.SIR.nfrRead_ir_eq_model
#print axioms GoCrypt.SIR.nfrRead_buffer
#print axioms GoCrypt.SIR.filteredRead_enough_fuel
#print axioms GoCrypt.SIR.newDecoder_ir_eq_model
#print axioms GoCrypt.SIR.newDecoder_represents
#print axioms GoCrypt.SIR.decoderRead_ir_eq_model
#print axioms GoCrypt.SIR.decoderRead_leftover
#print axioms GoCrypt.SIR.decoderRead_sticky
#print axioms GoCrypt.SIR.decRead_keeps_live
#print axioms GoCrypt.SIR.decode_independent_of_old_dst
#print axioms GoCrypt.SIR.decode_never_panics
end GoCrypt.C17
