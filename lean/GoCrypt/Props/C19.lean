import GoCrypt.Props.C19Sound

/-!
# C19 — digest comparison time does not depend on where the digests differ

The flow IR of every scheme's `Check` is regenerated from the current source on every run.
`secretSafe'` (Spec/FlowSem.lean) is the syntactic-dataflow discipline; it supersedes the first
version `secretSafe` (Spec/SecretSafe.lean), for which the soundness proof attempt produced three
machine-checked leaking witnesses (`gap_len_leaks`, `gap_field_leaks`, `gap_encoder_source_leaks` —
kept in Props/C19Sound.lean as documentation of why the discipline is what it is).

Obligations of this property (all in Props/C19Sound.lean):
* the ten regenerated programs satisfy the discipline (`decide`),
* the discipline is sound for a cost semantics in which every operation's cost may depend on
  everything it can see, except the trusted constant-time primitives (`secretSafe'_sound`),
* hence for every scheme the cost of a mismatching verification is independent of where the
  digests differ (`<pkg>_mismatch_cost`, `mismatch_cost_independent_of_position`).
-/

namespace GoCrypt.C19

#print axioms secretSafe'_argon2
#print axioms secretSafe'_bcrypt
#print axioms secretSafe'_des
#print axioms secretSafe'_desext
#print axioms secretSafe'_md5
#print axioms secretSafe'_nthash
#print axioms secretSafe'_sha1
#print axioms secretSafe'_sha256
#print axioms secretSafe'_sha512
#print axioms secretSafe'_sunmd5
#print axioms secretSafe'_sound
#print axioms mismatch_runs_agree
#print axioms mismatch_cost_independent_of_position
#print axioms mismatch_cost_independent_of_key
#print axioms scheme_mismatch_cost
#print axioms argon2_mismatch_cost
#print axioms bcrypt_mismatch_cost
#print axioms des_mismatch_cost
#print axioms desext_mismatch_cost
#print axioms md5_mismatch_cost
#print axioms nthash_mismatch_cost
#print axioms sha1_mismatch_cost
#print axioms sha256_mismatch_cost
#print axioms sha512_mismatch_cost
#print axioms sunmd5_mismatch_cost

end GoCrypt.C19
