import GoCrypt.Spec.SecretSafe
import GoCrypt.Gen.Flow

/-!
# C19 — digest comparison time does not depend on where the digests differ

The flow IR of every scheme's `Check` is regenerated from the current source on every run; the
theorems below decide the syntactic-dataflow discipline on it.
-/

namespace GoCrypt.C19
open GoCrypt.Flow GoCrypt.Gen

theorem secretSafe_argon2 : secretSafe argon2.flowCheck = true := by decide
theorem secretSafe_bcrypt : secretSafe bcrypt.flowCheck = true := by decide
theorem secretSafe_des : secretSafe des.flowCheck = true := by decide
theorem secretSafe_desext : secretSafe desext.flowCheck = true := by decide
theorem secretSafe_md5 : secretSafe md5.flowCheck = true := by decide
theorem secretSafe_nthash : secretSafe nthash.flowCheck = true := by decide
theorem secretSafe_sha1 : secretSafe sha1.flowCheck = true := by decide
theorem secretSafe_sha256 : secretSafe sha256.flowCheck = true := by decide
theorem secretSafe_sha512 : secretSafe sha512.flowCheck = true := by decide
theorem secretSafe_sunmd5 : secretSafe sunmd5.flowCheck = true := by decide

#print axioms secretSafe_argon2
#print axioms secretSafe_bcrypt
#print axioms secretSafe_des
#print axioms secretSafe_desext
#print axioms secretSafe_md5
#print axioms secretSafe_nthash
#print axioms secretSafe_sha1
#print axioms secretSafe_sha256
#print axioms secretSafe_sha512
#print axioms secretSafe_sunmd5

end GoCrypt.C19
