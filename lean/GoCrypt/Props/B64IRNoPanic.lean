import GoCrypt.Props.B64IR
import GoCrypt.Props.C16Decode

/-!
# The regenerated base64le programs never panic on the inputs the library feeds them

Corollaries of `Props/B64IR.lean` (regenerated bodies = hand model) and `Props/C16Decode.lean`
(the model never raises its `panic` flag): stated about the interpretation of the programs
`gogen` extracts from `hash/base64le/base64le.go` on every run, so a change to the Go loops that
stores past the `DecodedLen`-sized buffer, or indexes the alphabet out of range, breaks one of these.
-/

namespace GoCrypt.B64IR
open GoCrypt.Base64LE GoCrypt.Gen.base64leIR GoCrypt.Gen.base64le

/-- `enc.DecodeString(s)` as regenerated from the Go source panics on no text, for every well-formed
encoding: it always returns a slice and an error value. -/
theorem decodeString_ir_never_panics {e : Encoding} (wf : WellFormed e) (h : Heap) (text : Bytes)
    (hsz : text.length < 2 ^ 59) :
    ∃ out, interp program "Encoding.DecodeString" h [encVal e, .str text] = .ok out := by
  rw [decodeString_ir_eq_model e wf.1 h text hsz,
    GoCrypt.C16Decode.decode_never_panics wf text]
  exact ⟨_, rfl⟩

/-- `enc.EncodeToString(src)` as regenerated panics on no input and returns `Model.encode`. -/
theorem encodeToString_ir_never_panics (e : Encoding) (hal : e.alphabet.length = 64) (h : Heap) (s : Nat) (src : Buf)
    (hs : h[s]? = some src) (hsz : src.size < 2 ^ 59) :
    ∃ out, interp program "Encoding.EncodeToString" h [encVal e, .slice ⟨s, 0, src.size, src.size⟩] = .ok out :=
  ⟨_, encodeToString_ir_eq_model e hal h s src hs hsz⟩

end GoCrypt.B64IR

#print axioms GoCrypt.B64IR.decodeString_ir_never_panics
#print axioms GoCrypt.B64IR.encodeToString_ir_never_panics
