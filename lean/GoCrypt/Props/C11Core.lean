import GoCrypt.Proofs.Parse
import GoCrypt.Spec.RefParse
import GoCrypt.Proofs.ParseRef
import GoCrypt.Gen.Facts

/-!
# C11 — the hash parser terminates, loses no input and leaks no goroutine

Property theorems only; helper lemmas are in `Proofs/Parse.lean`.
The model (`Model/Parse.lean`) consists of total structurally recursive functions, so termination of
`tokens`/`parse` is checked by Lean's kernel when the definitions are accepted.
-/

namespace GoCrypt.C11
open Bytes GoCrypt.Parse

/-- The `$` identifier is unterminated: nothing after the leading `$` is a delimiter. -/
def Unterminated (s : Bytes) : Prop := ∃ rest, s = dollar :: rest ∧ ∀ c ∈ rest, c ≠ dollar ∧ c ≠ comma

/-- The `$` identifier is empty: the leading `$` is directly followed by a delimiter. -/
def EmptyIdent (s : Bytes) : Prop := ∃ d tl, s = dollar :: d :: tl ∧ (d = dollar ∨ d = comma)

/-- (a) Parsing fails only for a `$`-prefixed string whose identifier is empty or unterminated — and
then always; in every other case it returns a tree (never a nil-in-group state, never a read from a
closed channel). -/
theorem parse_error_iff (s : Bytes) :
    (∃ o m, parse s = .err o m) ↔ (Unterminated s ∨ EmptyIdent s) := by
  rcases parse_cases s with ⟨rest, hs, hi, hp⟩ | ⟨rest, hs, hi, hp⟩ | ⟨t, hp, _⟩
  · constructor
    · intro _; left; exact ⟨rest, hs, (indexDelim_none_iff rest).1 hi⟩
    · intro _; exact ⟨_, _, hp⟩
  · constructor
    · intro _; right
      obtain ⟨d, tl, hr, hd⟩ := (indexDelim_zero_iff rest).1 hi
      exact ⟨d, tl, by rw [hs, hr], hd⟩
    · intro _; exact ⟨_, _, hp⟩
  · constructor
    · rintro ⟨o, m, h⟩; rw [hp] at h; cases h
    · intro h
      exfalso
      -- a tree was returned, so the input is neither unterminated nor empty-identifier
      unfold parse tokens at hp
      rcases h with ⟨rest, hs, hr⟩ | ⟨d, tl, hs, hd⟩
      · subst hs
        have : indexDelim rest = none := (indexDelim_none_iff rest).2 hr
        simp [this, parseToks] at hp
      · subst hs
        have : indexDelim (d :: tl) = some 0 := (indexDelim_zero_iff _).2 ⟨d, tl, rfl, hd⟩
        simp [this, parseToks] at hp

/-- `parse` always returns either an error or a tree. -/
theorem parse_total (s : Bytes) : (∃ o m, parse s = .err o m) ∨ (∃ t, parse s = .ok t) := by
  rcases parse_cases s with ⟨_, _, _, hp⟩ | ⟨_, _, _, hp⟩ | ⟨t, hp, _⟩
  · exact Or.inl ⟨_, _, hp⟩
  · exact Or.inl ⟨_, _, hp⟩
  · exact Or.inr ⟨t, hp⟩

/-- (b) The lexer is lossless: when it reports no error, the token texts concatenate to the input. -/
theorem lexer_lossless (s : Bytes) (h : ∀ t ∈ tokens s, ∀ p m, t ≠ Tok.error p m) :
    ((tokens s).map Tok.text).flatten = s := by
  unfold tokens at h ⊢
  cases s with
  | nil => simp [lexFrag_text]
  | cons c rest =>
    by_cases hc : c = dollar
    · subst hc
      simp only [if_true] at h ⊢
      cases hi : indexDelim rest with
      | none => simp [hi] at h
      | some i =>
        cases i with
        | zero => simp [hi] at h
        | succ i => simp [lexFrag_text, Tok.text]
    · by_cases hu : c = underscore
      · subst hu
        have hne : underscore ≠ dollar := by decide
        simp [hne, lexFrag_text, Tok.text]
      · simp [hc, hu, lexFrag_text]

/-- (c) On success the tree accounts for the whole input: prefix text followed by the fragments
joined by `$`, group members joined by `,`, reconstructs the input up to one trailing delimiter. -/
theorem parse_lossless (s : Bytes) (t : Tree) (h : parse s = .ok t) :
    ∃ d, (d = [] ∨ d = [dollar] ∨ d = [comma]) ∧ t.render ++ d = s := by
  rcases parse_cases s with ⟨_, _, _, hp⟩ | ⟨_, _, _, hp⟩ | ⟨t', hp, hf⟩
  · rw [hp] at h; cases h
  · rw [hp] at h; cases h
  · rw [hp] at h; cases h; exact hf.lossless

/-- (d) Every value node's reported span `[pos, fin)` is exactly the substring holding its text. -/
theorem spans_exact (s : Bytes) (t : Tree) (h : parse s = .ok t) :
    ∀ n ∈ t.nodes, n.fin = n.pos + n.val.length ∧ n.fin ≤ s.length ∧ (s.drop n.pos).take (n.fin - n.pos) = n.val := by
  rcases parse_cases s with ⟨_, _, _, hp⟩ | ⟨_, _, _, hp⟩ | ⟨t', hp, hf⟩
  · rw [hp] at h; cases h
  · rw [hp] at h; cases h
  · rw [hp] at h; cases h
    intro n hn
    obtain ⟨h1, h2, h3⟩ := hf.spans n hn
    exact ⟨h1, h2, by rw [h1]; simpa using h3⟩

/-- Groups are never empty (so `GroupNode.Pos/End`, which index `Values[0]`, cannot panic). -/
theorem groups_nonempty (s : Bytes) (t : Tree) (h : parse s = .ok t) :
    ∀ vs, Frag.group vs ∈ t.frags → vs ≠ [] := by
  rcases parse_cases s with ⟨_, _, _, hp⟩ | ⟨_, _, _, hp⟩ | ⟨t', hp, hf⟩
  · rw [hp] at h; cases h
  · rw [hp] at h; cases h
  · rw [hp] at h; cases h
    intro vs hvs
    simpa [Parse.Frag.nodes] using hf.groupsNe _ hvs

/-- (f) The token `Parse` stops on is the last token the lexer sends: the lexer goroutine is never
left blocked in a send on its unbuffered channel. -/
theorem lexer_never_blocked (s : Bytes) : consumed (tokens s) = (tokens s).length := by
  unfold tokens
  cases s with
  | nil => exact lexFrag_consumed _ _ _
  | cons c rest =>
    by_cases hc : c = dollar
    · subst hc
      simp only [if_true]
      cases hi : indexDelim rest with
      | none => simp [consumed, Tok.isTerminal]
      | some i =>
        cases i with
        | zero => simp [consumed, Tok.isTerminal]
        | succ i => simp [consumed, Tok.isTerminal, lexFrag_consumed]; omega
    · by_cases hu : c = underscore
      · subst hu
        have hne : underscore ≠ dollar := by decide
        simp [hne, consumed, Tok.isTerminal, lexFrag_consumed]; omega
      · simp only [hc, hu, if_false]
        exact lexFrag_consumed _ _ _

/-- (e) The parser equals the independent split-based reference parser on every input — trees,
node positions and error offsets included. -/
theorem parse_eq_ref (s : Bytes) : parse s = GoCrypt.RefParse.refParse s := Parse.parse_eq_ref s

/-- No value text contains a delimiter: comma-joined values never hide inside a value node. -/
theorem values_no_delim (s : Bytes) (t : Tree) (h : parse s = .ok t) :
    ∀ n ∈ t.nodes, ∀ c ∈ n.val, c ≠ dollar ∧ c ≠ comma := Parse.values_no_delim s t h

/-- Comma-joined values always surface as exactly one group: fragments correspond one-to-one, in
order, to the `$`-separated pieces after the prefix (an empty last piece yields no fragment), and a
fragment is a group iff its piece contains a comma. -/
theorem groups_surface_once (s : Bytes) (t : Tree) (h : parse s = .ok t) :
    ∃ rest, GoCrypt.RefParse.refPrefix s = .ok (t.pfx, rest) ∧
      t.frags.map Frag.isGroup =
        (trimLast (GoCrypt.RefParse.splitOn dollar rest)).map (fun p => p.contains comma) :=
  Parse.frag_group_iff_comma s t h

/-! Non-vacuity: concrete inputs meeting the hypotheses. -/
-- "$x$a=1,b=2," : the group before the trailing comma is kept
example : parse [36, 120, 36, 97, 61, 49, 44, 98, 61, 50, 44] =
    .ok ⟨some [36, 120, 36], [.group [⟨[97, 61, 49], 3, 6⟩, ⟨[98, 61, 50], 7, 10⟩]]⟩ := by decide
-- "$abc" : unterminated identifier
example : ∃ o m, parse [36, 97, 98, 99] = .err o m := ⟨4, 2, by decide⟩
example : Unterminated [36, 97, 98, 99] := ⟨[97, 98, 99], rfl, by decide⟩
-- "$1$_abc" : one prefix only
example : parse [36, 49, 36, 95, 97, 98, 99] = .ok ⟨some [36, 49, 36], [.value ⟨[95, 97, 98, 99], 3, 7⟩]⟩ := by decide

/-- Regenerated from the current source: the parser package starts exactly one goroutine, the lexer's
`run`, once per `lex` call and outside any loop (the producer of the rendezvous the model assumes). -/
theorem lexer_goroutine_facts :
    ((GoCrypt.Gen.Facts.goStmts.filter fun f => f.site == "hash/parse").map fun f => (f.fn, f.starts, f.loops, f.goCount)) =
      [("lex", "l.run", [], 1)] := by
  decide


end GoCrypt.C11
