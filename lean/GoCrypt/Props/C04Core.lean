import GoCrypt.Proofs.Argon2Eq

/-!
# C04 — Argon2 keys equal the output of the RFC 9106 algorithm

"For Argon2d, Argon2i and Argon2id in versions 0x10 and 0x13, any password and salt, time cost ≥ 1,
1..255 lanes and memory ≥ 8 × lanes KiB, the derived key equals the output of the RFC 9106
algorithm."

The model `GoCrypt.Kdf.Argon2` (one Lean function per Go function) and the reference
`GoCrypt.Spec.Argon2Rfc` (written from RFC 9106 §3) agree on every executed parameter tuple (suite
`kdf`/`argon2`).  The theorems below turn the component-wise agreement into statements for ALL
inputs; proofs are in `GoCrypt/Proofs/Argon2Eq/*.lean`.

| RFC 9106            | model                  | reference          | theorem                          |
|---------------------|------------------------|--------------------|----------------------------------|
| 3.3  `H'`           | `blake2bHash`          | `H'`               | `blake2bHash_eq_H'`              |
| 3.2  `H_0` input    | `initHash`             | `h0Preimage`       | `initHash_eq`, `h0Preimage_injective` |
| 3.6  `GB`           | `gb`                   | `GB`               | `gb_eq_GB`                       |
| 3.6  `P`            | `blamka`               | `P` (`applyIdx`)   | `blamka_eq_P`, `P_eq_eight_GB`   |
| 3.5  `G`            | `processBlock`         | `G`                | `processBlock_eq_G`, `processBlock_xor_eq_G` |
| 3.2  `m'`           | `key`                  | `4·p·⌊m/4p⌋`       | `key_memory_rule`, `roundedMemory_eq_rfc` |
| 3.4.2 `W`, `zz`     | `Gen.…indexAlpha`      | `refSet`,`refIndex`| `refSet_closed_form`, `indexAlpha_eq_refIndex` |
| bytes ↔ words       | `blockOfBytes`, `bytesOfBlock` | same names  | `blockOfBytes_eq`, `bytesOfBlock_eq` |
| 3.2 steps 3, 4      | `initBlocks`           | `refInit`          | `initBlocks_eq`                  |
| 3.2 steps 5, 6      | `processSegment`, `processBlocks` | `refSegment`, `refFill` | `segment_eq`, `fill_eq` |
| 3.2 steps 7, 8      | `extractKey`           | `refFinal`         | `extractKey_eq`                  |
| 3.2 (all)           | `key`                  | `argon2`           | `key_eq_rfc`, `C04`              |

`refInit`/`refSegment`/`refFill`/`refFinal` are the four parts of the reference's `argon2` (same
text, `argon2_struct : argon2 … = refFinal … (refFill … (refInit …))` by `rfl`).
-/

namespace GoCrypt.C04
open GoCrypt GoCrypt.Kdf.Argon2 GoCrypt.Spec.Argon2Rfc GoCrypt.Argon2Eq

/-! ## (1) variable-length hash -/

/-- The Go loop of `blake2bHash` (32 bytes per step) computes the RFC's `H'^T(A)`: for EVERY output
length `T` (in particular every `T ≥ 1`) and every input.  `Prim.blake2b` is used as an opaque
function; no length fact about it is needed. -/
theorem blake2bHash_eq_H' (T : Nat) (A : Bytes) : blake2bHash T A = H' T A :=
  Argon2Eq.blake2bHash_eq_H' T A

/-! ## (2) pre-hash -/

/-- `initHash` = `H^64` of the RFC layout
`LE32(p) ‖ LE32(T) ‖ LE32(m) ‖ LE32(t) ‖ LE32(v) ‖ LE32(y) ‖ LE32(|P|) ‖ P ‖ LE32(|S|) ‖ S ‖ LE32(0) ‖ LE32(0)`
(followed by the 8 zero bytes of the 72-byte Go buffer), for all arguments. -/
theorem initHash_eq (P S : Bytes) (t m p T y v : Nat) :
    initHash P S t m p T y v = H 64 (h0Preimage p T m t v y P S) ++ List.replicate 8 0 :=
  Argon2Eq.initHash_eq P S t m p T y v

/-- the layout, spelled out -/
theorem h0Preimage_layout (p T m t v y : Nat) (P S : Bytes) :
    h0Preimage p T m t v y P S =
      LE32 p ++ LE32 T ++ LE32 m ++ LE32 t ++ LE32 v ++ LE32 y
        ++ LE32 P.length ++ P ++ LE32 S.length ++ S ++ LE32 0 ++ LE32 0 := rfl

/-- The pre-image encoding is injective in `(p, T, m, t, v, y, P, S)` when every number
(including the two lengths) is `< 2^32`. -/
theorem h0Preimage_injective {p T m t v y p' T' m' t' v' y' : Nat} {P S P' S' : Bytes}
    (hp : p < 2 ^ 32) (hT : T < 2 ^ 32) (hm : m < 2 ^ 32) (ht : t < 2 ^ 32) (hv : v < 2 ^ 32) (hy : y < 2 ^ 32)
    (hP : P.length < 2 ^ 32) (hS : S.length < 2 ^ 32)
    (hp' : p' < 2 ^ 32) (hT' : T' < 2 ^ 32) (hm' : m' < 2 ^ 32) (ht' : t' < 2 ^ 32) (hv' : v' < 2 ^ 32)
    (hy' : y' < 2 ^ 32) (hP' : P'.length < 2 ^ 32) (hS' : S'.length < 2 ^ 32)
    (h : h0Preimage p T m t v y P S = h0Preimage p' T' m' t' v' y' P' S') :
    p = p' ∧ T = T' ∧ m = m' ∧ t = t' ∧ v = v' ∧ y = y' ∧ P = P' ∧ S = S' :=
  Argon2Eq.h0Preimage_injective hp hT hm ht hv hy hP hS hp' hT' hm' ht' hv' hy' hP' hS' h

/-! ## (3) compression function -/

/-- the 12-line group of `blamkaGeneric` is `GB(a, b, c, d)` with `a + b + 2·trunc(a)·trunc(b)` -/
theorem gb_eq_GB (a b c d : UInt64) : gb a b c d = GB a b c d := Argon2Eq.gb_eq_GB a b c d

/-- the RFC's `P` on sixteen words is eight applications of `GB` (four columns, four diagonals) -/
theorem P_eq_eight_GB (v00 v01 v02 v03 v04 v05 v06 v07 v08 v09 v10 v11 v12 v13 v14 v15 : UInt64) :
    P #[v00, v01, v02, v03, v04, v05, v06, v07, v08, v09, v10, v11, v12, v13, v14, v15]
      = blamka16 v00 v01 v02 v03 v04 v05 v06 v07 v08 v09 v10 v11 v12 v13 v14 v15 :=
  Argon2Eq.P_lit ..

/-- `blamkaGeneric(&t[i00], …, &t[i15])` = gather the sixteen words, apply `P`, scatter them back
(for all sixteen indices; no distinctness needed because both sides read first and write in the same
order). -/
theorem blamka_eq_P (t : Array UInt64) (i00 i01 i02 i03 i04 i05 i06 i07 i08 i09 i10 i11 i12 i13 i14 i15 : Nat) :
    blamka t i00 i01 i02 i03 i04 i05 i06 i07 i08 i09 i10 i11 i12 i13 i14 i15
      = applyIdx t [i00, i01, i02, i03, i04, i05, i06, i07, i08, i09, i10, i11, i12, i13, i14, i15] :=
  Argon2Eq.blamka_eq_applyIdx ..

/-- `processBlockGeneric(out, in1, in2, xor = false)` = `G(in1, in2)` for ALL 128-word blocks. -/
theorem processBlock_eq_G (out in1 in2 : Array UInt64)
    (h : out.size = 128 ∧ in1.size = 128 ∧ in2.size = 128) :
    processBlock out in1 in2 false = G in1 in2 :=
  Argon2Eq.processBlock_eq_G out in1 in2 h.1

/-- `processBlockGeneric(out, in1, in2, xor = true)` = `G(in1, in2) xor out` for ALL 128-word blocks. -/
theorem processBlock_xor_eq_G (out in1 in2 : Array UInt64)
    (h : out.size = 128 ∧ in1.size = 128 ∧ in2.size = 128) :
    processBlock out in1 in2 true = blockXor (G in1 in2) out :=
  Argon2Eq.processBlock_xor_eq_G out in1 in2 h.1

/-! ## (4) memory-size rule -/

/-- `Key` works on `max (m / 4p · 4p) (8p)` blocks while `initHash` receives the requested `m`. -/
theorem key_memory_rule (mode version : Nat) (P S : Bytes) (t m p T : Nat) (hp : p ≤ 255) (hm : m < 2 ^ 32) :
    key mode version P S t m p T =
      extractKey (processBlocks (initBlocks (initHash P S t m p T mode version) (roundedMemory m p) p)
        t (roundedMemory m p) p mode version) (roundedMemory m p) p T :=
  Argon2Eq.key_unfold mode version P S t m p T hp hm

theorem roundedMemory_def (m p : Nat) : roundedMemory m p = max (m / (4 * p) * (4 * p)) (8 * p) := rfl

/-- for `m ≥ 8p` this is the RFC's `m' = 4·p·⌊m / 4p⌋` -/
theorem roundedMemory_eq_rfc (m p : Nat) (hp : 1 ≤ p) (h : 8 * p ≤ m) :
    roundedMemory m p = 4 * p * (m / (4 * p)) :=
  Argon2Eq.roundedMemory_eq_rfc m p hp h

/-! ## (5) reference index -/

/-- closed form of the reference's explicit reference set `W` (RFC 3.4.2): the `wLen` consecutive
columns (mod `q`) starting at `wStart` -/
theorem refSet_closed_form (L r sl i idx l : Nat) (hsl : sl < 4) (hidx : idx ≤ L) :
    refSet (4 * L) L r sl i idx l
      = (List.range (wLen L r sl i idx l)).map (fun k => (wStart L r sl + k) % (4 * L)) :=
  Argon2Eq.refSet_eq L r sl i idx l hsl hidx

/-- For all arguments in the domain of the fill loop, the GENERATED `indexAlpha` returns the flat
position `l·q + W[zz]` selected by the RFC (`l = J_2 mod p` except own lane in the first slice of the
first pass; `x = J_1²/2³²`; `y = |W|·x/2³²`; `zz = |W| − 1 − y`). -/
theorem indexAlpha_eq_refIndex (rand lanes segments threads n slice lane index : Nat)
    (hrand : rand < 2 ^ 64) (hseg : 2 ≤ segments) (hlanes : lanes = 4 * segments) (_hthreads : 1 ≤ threads)
    (hmem : threads * lanes < 2 ^ 32) (hslice : slice < 4) (hlane : lane < threads) (hidx : index < segments)
    (h0 : n = 0 → slice = 0 → 2 ≤ index) :
    Gen.argon2crypto.indexAlpha rand lanes segments threads n slice lane index =
      (refIndex threads lanes segments n slice lane index (rand % 2 ^ 32) (rand / 2 ^ 32)).1 * lanes
        + (refIndex threads lanes segments n slice lane index (rand % 2 ^ 32) (rand / 2 ^ 32)).2 := by
  subst hlanes
  exact Argon2Eq.indexAlpha_eq_refIndex rand segments threads n slice lane index hrand hseg hmem hslice hlane hidx h0


/-! ## (6) the whole derivation -/

/-- the BLAKE2b digest of size `k ≤ 64` has `k` bytes (the only fact about the primitive that the
composition needs: `initBlocks` patches a 72-byte buffer at offsets 64 and 68) -/
theorem blake2b_length (k : Nat) (msg : Bytes) (h : k ≤ 64) : (Prim.blake2b k msg).length = k :=
  Argon2Eq.blake2b_length k msg h

/-- `blockOfBytes`: Go's shift/or loop = the reference's Horner form, for every byte string -/
theorem blockOfBytes_eq (b : Bytes) : Kdf.Argon2.blockOfBytes b = Spec.Argon2Rfc.blockOfBytes b :=
  Argon2Eq.blockOfBytes_eq b

/-- `bytesOfBlock`: Go's shift loop = the reference's div/mod form, for every 128-word block -/
theorem bytesOfBlock_eq (b : Array UInt64) (h : b.size = 128) :
    Kdf.Argon2.bytesOfBlock b = Spec.Argon2Rfc.bytesOfBlock b :=
  Argon2Eq.bytesOfBlock_eq b h

/-- the reference is the composition of its four parts (definitional) -/
theorem argon2_struct (y v : Nat) (P S : Bytes) (p T m t : Nat) :
    argon2 y v P S p T m t =
      let H0 := H 64 (LE32 p ++ LE32 T ++ LE32 m ++ LE32 t ++ LE32 v ++ LE32 y
                  ++ LE32 P.length ++ P ++ LE32 S.length ++ S
                  ++ LE32 ([] : Bytes).length ++ [] ++ LE32 ([] : Bytes).length ++ [])
      let m' := 4 * p * (m / (4 * p))
      let q := m' / p
      let segLen := q / 4
      refFinal T p q (refFill y v p q segLen m' t (refInit H0 p q m')) :=
  Argon2Eq.argon2_struct y v P S p T m t

/-- steps 3, 4: `initBlocks` on `H_0 ‖ 0⁸` = the reference's first two columns -/
theorem initBlocks_eq (H0 : Bytes) (hH : H0.length = 64) (p q m' : Nat) (hp : 1 ≤ p) (hq : 2 ≤ q) (hm : m' = p * q)
    (hm32 : m' < 2 ^ 32) :
    initBlocks (H0 ++ List.replicate 8 0) m' p = refInit H0 p q m' :=
  Argon2Eq.initBlocks_eq H0 hH p q m' hp hq hm hm32

/-- steps 5, 6 for ONE segment: the model's `processSegment` (lazy address block, `uint32` offsets,
fuel loop, always-XOR for version ≠ 0x10) = the reference's segment loop, on every memory whose
blocks have 128 words (`BOk`) and — in pass 0 — whose blocks of this segment are still zero
(`ZeroFrom`).  Sizes are preserved and nothing outside the segment is written. -/
theorem segment_eq {m' p q L slice lane : Nat} (D : SegDom m' p q L slice lane) (t y v n : Nat)
    (B : Array (Array UInt64)) (hB : BOk m' B) (hZ : ZeroFrom q L n slice lane (i0 n slice) B) :
    processSegment B t m' p y v q L n slice lane = refSegment y v p q L m' t n slice lane B ∧
    BOk m' (refSegment y v p q L m' t n slice lane B) ∧
    ∀ pos, (∀ idx, idx < L → pos ≠ lane * q + (slice * L + idx)) →
      (refSegment y v p q L m' t n slice lane B)[pos]! = B[pos]! :=
  Argon2Eq.segment_eq D t y v n B hB hZ

/-- steps 5, 6: all passes, slices and lanes -/
theorem fill_eq {m' p q L : Nat} (hL : 2 ≤ L) (hq : q = 4 * L) (hm : m' = p * q) (hm32 : m' < 2 ^ 32) (hp : 1 ≤ p)
    (t y v : Nat) (B : Array (Array UInt64)) (h : GInv m' p q L 0 0 B) :
    processBlocks B t m' p y v = refFill y v p q L m' t B ∧ BOk m' (refFill y v p q L m' t B) :=
  Argon2Eq.fill_eq hL hq hm hm32 hp t y v B h

/-- steps 7, 8: `extractKey` = XOR of the last column, then `H'` -/
theorem extractKey_eq (T p q m' : Nat) (B : Array (Array UInt64)) (hp : 1 ≤ p) (hq : 1 ≤ q) (hm : m' = p * q)
    (hm32 : m' < 2 ^ 32) (hB : BOk m' B) :
    extractKey B m' p T = refFinal T p q B :=
  Argon2Eq.extractKey_eq T p q m' B hp hq hm hm32 hB

/-- **model = reference for the whole derivation**, for EVERY type word `y`, version word `v`,
password, salt, tag length `T` and time cost `t`, `1 ≤ p ≤ 255` lanes and `8p ≤ m < 2^32` KiB.
(No hypothesis about BLAKE2b is left: `blake2b_length` is proved.) -/
theorem key_eq_rfc (y v : Nat) (P S : Bytes) (p T m t : Nat)
    (hp1 : 1 ≤ p) (hp : p ≤ 255) (hm8 : 8 * p ≤ m) (hm32 : m < 2 ^ 32) :
    key y v P S t m p T = argon2 y v P S p T m t :=
  Argon2Eq.key_eq_rfc y v P S p T m t hp1 hp hm8 hm32

/-- **C04**, in the words of the property: Argon2d / Argon2i / Argon2id, versions 0x10 and 0x13, any
password and salt, time cost `≥ 1`, `1..255` lanes, memory `≥ 8 × lanes` KiB (a `uint32`), any key
length: the derived key is the output of the RFC 9106 algorithm. -/
theorem C04 (mode version : Nat) (password salt : Bytes) (time memory threads keyLen : Nat)
    (_hmode : mode = argon2d ∨ mode = argon2i ∨ mode = argon2id)
    (_hversion : version = version10 ∨ version = version13)
    (_htime : 1 ≤ time) (hthreads : 1 ≤ threads ∧ threads ≤ 255)
    (hmemory : 8 * threads ≤ memory) (hmem32 : memory < 2 ^ 32) :
    key mode version password salt time memory threads keyLen
      = argon2 mode version password salt threads keyLen memory time :=
  key_eq_rfc mode version password salt threads keyLen memory time hthreads.1 hthreads.2 hmemory hmem32

/-! ## non-vacuity (both sides evaluated on concrete inputs) -/

-- kernel evaluation
example : h0Preimage 1 32 8 1 0x13 2 [1, 2] [3] ≠ h0Preimage 1 32 8 1 0x13 2 [1] [2, 3] := by decide
example : roundedMemory 37 2 = 32 ∧ roundedMemory 5 2 = 16 ∧ 4 * 2 * (37 / (4 * 2)) = 32 := by decide
example : refSet 16 4 1 2 0 1 0 = [12, 13, 14, 15, 0, 1, 2, 3, 4, 5, 6, 7] := by decide
example : refSet 16 4 0 2 0 0 1 = [0, 1, 2, 3, 4, 5, 6] := by decide

-- compiled evaluation (`#guard`)
#guard blake2bHash 1 [1, 2, 3] == H' 1 [1, 2, 3]
#guard blake2bHash 64 [1, 2, 3] == H' 64 [1, 2, 3]
#guard blake2bHash 65 [1, 2, 3] == H' 65 [1, 2, 3] && (H' 65 [1, 2, 3]).length == 65
#guard blake2bHash 1024 [7] == H' 1024 [7] && (H' 1024 [7]).length == 1024
#guard
  let a : Array UInt64 := (Array.range 128).map fun i => UInt64.ofNat (i * 0x9E3779B97F4A7C15 + 1)
  let b : Array UInt64 := (Array.range 128).map fun i => UInt64.ofNat (i * i * 0xC2B2AE3D27D4EB4F + 7)
  processBlock zeroBlock a b false == G a b && processBlock a a b true == blockXor (G a b) a
    && G a b != a
#guard
  (List.range 4).all fun slice => (List.range 4).all fun index => [0, 1].all fun n => [0, 1, 2].all fun lane =>
    [0x123456789abcdef0, 0xffffffffffffffff, 0, 0x00000001fffffff0].all fun rand =>
      (n == 0 && slice == 0 && index < 2) ||
      let r := refIndex 3 16 4 n slice lane index (rand % 2 ^ 32) (rand / 2 ^ 32)
      Gen.argon2crypto.indexAlpha rand 16 4 3 n slice lane index == r.1 * 16 + r.2
#guard key 2 0x13 [1, 2, 3] [1, 2, 3, 4, 5, 6, 7, 8] 2 19 2 33 == argon2 2 0x13 [1, 2, 3] [1, 2, 3, 4, 5, 6, 7, 8] 2 33 19 2
#guard key 0 0x10 [1, 2, 3] [1, 2, 3, 4, 5, 6, 7, 8] 2 8 1 32 == argon2 0 0x10 [1, 2, 3] [1, 2, 3, 4, 5, 6, 7, 8] 1 32 8 2
#guard key 1 0x13 [] [9, 9, 9, 9, 9, 9, 9, 9] 1 27 3 70 == argon2 1 0x13 [] [9, 9, 9, 9, 9, 9, 9, 9] 3 70 27 1
#guard (key 2 0x13 [1, 2, 3] [1, 2, 3, 4, 5, 6, 7, 8] 2 19 2 33).length == 33
#guard Kdf.Argon2.blockOfBytes ((List.range 1024).map UInt8.ofNat) == Spec.Argon2Rfc.blockOfBytes ((List.range 1024).map UInt8.ofNat)
#guard
  let a : Array UInt64 := (Array.range 128).map fun i => UInt64.ofNat (i * 0x9E3779B97F4A7C15 + 1)
  Kdf.Argon2.bytesOfBlock a == Spec.Argon2Rfc.bytesOfBlock a && (Spec.Argon2Rfc.bytesOfBlock a).length == 1024
-- the domain hypotheses of `C04` are satisfiable, and outside them (m < 8p) the two sides differ
example : (2 : Nat) = argon2id ∧ (0x13 : Nat) = version13 ∧ 8 * 2 ≤ 19 ∧ 19 < 2 ^ 32 := by decide
#guard key 2 0x13 [1] [1, 2, 3, 4, 5, 6, 7, 8] 1 7 1 32 != argon2 2 0x13 [1] [1, 2, 3, 4, 5, 6, 7, 8] 1 32 7 1

#print axioms blake2bHash_eq_H'
#print axioms initHash_eq
#print axioms h0Preimage_layout
#print axioms h0Preimage_injective
#print axioms gb_eq_GB
#print axioms P_eq_eight_GB
#print axioms blamka_eq_P
#print axioms processBlock_eq_G
#print axioms processBlock_xor_eq_G
#print axioms key_memory_rule
#print axioms roundedMemory_def
#print axioms roundedMemory_eq_rfc
#print axioms refSet_closed_form
#print axioms indexAlpha_eq_refIndex
#print axioms blake2b_length
#print axioms blockOfBytes_eq
#print axioms bytesOfBlock_eq
#print axioms argon2_struct
#print axioms initBlocks_eq
#print axioms segment_eq
#print axioms fill_eq
#print axioms extractKey_eq
#print axioms key_eq_rfc
#print axioms C04

end GoCrypt.C04
