import GoCrypt.Proofs.CodecIRUStore
import GoCrypt.Proofs.CodecIRUExamples
import GoCrypt.Proofs.CodecIRProgram

/-!
# `hash/unmarshal.go` regenerated from source, compared with `Model/Codec.lean` (PARTIAL: step 2a, part)

`gogen` (codecir.go) translates `Unmarshal`, `unmarshal`, `newUnmarshalError`, `unmarshalIndirect` into the codec IR
(`Gen/CodecIR.lean`, functions 5–8; no `unknown` node: `Props/CodecIR.lean: no_unknown_nodes`).

What is PROVED here (for every input):
* `unmarshalIndirect` on a zero field allocates every pointer and returns the value at the end;
* `newUnmarshalError` builds the `UnmarshalTypeError` whose abstraction is the model's `UErr.ute`;
* the first half of `unmarshal` — `strings.TrimPrefix`, the `length:` / `inline` rule with its deferred trimming of the
  node, the alphabet check — is the model's `fieldText` (`fieldText_eq_lenRule` + the three phase lemmas);
* `unmarshal` as a whole for a `string` field without a text unmarshaler (`unmarshal_string`).

What is only TESTED here (`#guard`s: the whole regenerated `Unmarshal` run on the shipped scheme structs and compared
with `Codec.unmarshal` + `finalVals`, or with the model's error through `absErrU`): the other kinds of `storeValue`
(`[]byte`/`[n]byte` loop, `ParseInt`/`ParseUint`, TextUnmarshaler classes), the loop over `info.Fields`
(`stepField`/`loopFields`) and the top level.  See CODEC_IR_NOTES.md.

What is compared: on success the destination CELLS (one per index path `ti` lists; `Mem.dest`) — values stored before an
error is detected are not part of the model's result and are not compared; on error `absErrU` of the returned value
(`Value` kind, `Offset`, `Field`, message class; not `Type`/`Struct`).
-/

namespace GoCrypt.CodecIRU
open GoCrypt.Codec GoCrypt.Gen.codecIR GoCrypt.CIR
open GoCrypt.TIIR (RType Res fiType fiObj tiObj)

/-- `unmarshalIndirect` on a zero field of type `*…*T` (`t.depth` stars): `reflect.New` at every level, the `T` at the end
returned; only that cell of the destination changes. -/
theorem unmarshalIndirect_allocates (c : Ctx) (m : Mem) (t : RType) (idx : List Nat) (hf : t.depth < c.fuel)
    (hroot : cellRoot m idx = some (zeroG t)) :
    ∃ m', execProc c unmarshalIndirectIR m [.cell t idx 0 false] = .ok (m', [.cell { t with depth := 0 } idx t.depth false]) ∧
      SameBut m m' idx ∧ cellRoot m' idx = some (ptrChain t.depth (zeroG { t with depth := 0 })) :=
  unmarshalIndirect_zero c m t idx hf hroot

/-- `newUnmarshalError(node, ti, fi, msg)` for a value node: the record whose abstraction is `UErr.ute "value" node.End fi.Name class`. -/
theorem newUnmarshalError_eq (c : Ctx) (m : Mem) (na tia a : Nat) (s0 : Bytes) (pos fin : Nat) (fi : FieldInfo) (st t0 : RType)
    (hp : TIIR.Val) (addrs : List Nat) (n : Int) (b : Bytes) (cls : MsgClass)
    (hn : m.nodes[na]? = some (.value s0 pos fin)) (ha : m.heap[a]? = some (fiObj fi))
    (hti : m.heap[tia]? = some (tiObj (.rtype st) t0 hp addrs n)) (hcls : msgClassU (.str b) = some cls) :
    ∃ v, execProc c newUnmarshalErrorIR m [.node na, .ptr tia, .ptr a, .str b] = .ok (m, [v]) ∧
      absErrU m.heap v = some (.ute "value" fin fi.name cls) :=
  ⟨_, newUnmarshalError_str c m na tia a s0 pos fin fi st t0 hp addrs n hn ha hti b, absErrU_errRec _ _ _ _ _ _ hcls⟩

/-- Inside the program, function 7 is `newUnmarshalError`. -/
theorem newErrSpec_callIn (w : World) (d : Nat) : NewErrSpec (w.ctx (callIn program w (d + 1))) := by
  intro m na tia a s0 pos fin fi st t0 hp addrs n hn ha hti
  constructor
  · intro b
    simp only [World.ctx]
    rw [callIn_succ program w d 7 m _ newUnmarshalErrorIR (by rfl)]
    exact newUnmarshalError_str _ m na tia a s0 pos fin fi st t0 hp addrs n hn ha hti b
  · intro ps
    simp only [World.ctx]
    rw [callIn_succ program w d 7 m _ newUnmarshalErrorIR (by rfl)]
    exact newUnmarshalError_msg _ m na tia a s0 pos fin fi st t0 hp addrs n hn ha hti ps

/-- The model's `fieldText` in the form the phase lemmas use: the length rule (`lenRule`), then the alphabet check. -/
theorem fieldText_eq_lenRule (fi : FieldInfo) (kind : String) (fin : Nat) (s0 : Bytes) :
    fieldText fi kind fin s0 =
      (match lenRule fi s0 with
       | none => .error (.ute kind fin fi.name .lengthMismatch)
       | some (s, inl) =>
         match firstInvalid fi.opts.enc s with
         | some ch => .error (.ute kind fin fi.name (.invalidChar ch))
         | none => .ok (s, if inl then s0.drop fi.opts.length else [])) := fieldText_eq fi kind fin s0

/-- **`unmarshal` for a `string` field** (no text unmarshaler) on a value node holding `s0`, called inside the program:
`length mismatch` / `invalid character` exactly when the model's `fieldText` says so (same `UErr`), otherwise `nil` is returned,
the cell holds the text `fieldText` yields (= `storeValue`), and an inline field has shortened its node by `length`. -/
theorem unmarshal_string (w : World) (hidx : IndexAnyInvalidSpec w.indexAnyInvalid) (hit : IndirectTypeOk w.ext) (d : Nat)
    (m : Mem) (na tia a : Nat) (s0 : Bytes) (pos fin : Nat) (fi : FieldInfo) (st tt : RType)
    (hp : TIIR.Val) (addrs : List Nat) (n : Int) (t0 : RType) (idx : List Nat) (k : Nat) (r cur : GVal)
    (hn : m.nodes[na]? = some (.value s0 pos fin)) (ha : m.heap[a]? = some (fiObj fi))
    (hti : m.heap[tia]? = some (tiObj (.rtype st) tt hp addrs n))
    (hd : t0.depth = 0) (hk0 : t0.kind = fi.kind) (hu0 : t0.ut = fi.unmarshalText)
    (hr : cellRoot m idx = some r) (hg : getDeep k r = some cur)
    (hut : fi.unmarshalText = .none) (hk : fi.kind = .string) :
    match fieldText fi "value" fin s0 with
    | .error e => ∃ m' v, callIn program w (d + 2) 6 m [.node na, .ptr tia, .ptr a, .cell t0 idx k false] = .ok (m', [v]) ∧
        absErrU m.heap v = some e
    | .ok (s, rest) => storeValue fi "value" fin s = .ok (.str s) ∧
        ∃ m', callIn program w (d + 2) 6 m [.node na, .ptr tia, .ptr a, .cell t0 idx k false] = .ok (m', [.nil]) ∧
          cellGet m' idx k = .ok (.str s) ∧ m'.heap = m.heap ∧ (∀ j, j ≠ idx → cellRoot m' j = cellRoot m j) ∧
          m'.nodes = (if fi.opts.hasLength && fi.opts.inline then m.nodes.set na (.value rest pos fin) else m.nodes) := by
  rw [callIn_succ program w (d + 1) 6 m _ unmarshalIR (by rfl), fieldText_eq]
  have h := unmarshal_string_spec (w.ctx (callIn program w (d + 1))) hidx (newErrSpec_callIn w d) hit m na tia a s0 pos fin fi st tt
    hp addrs n t0 idx k r cur hn ha hti hd hk0 hu0 hr hg hut hk
  cases hl : lenRule fi s0 with
  | none => rw [hl] at h; exact h
  | some p =>
    obtain ⟨s, inl⟩ := p
    rw [hl] at h
    simp only at h ⊢
    cases hf : firstInvalid fi.opts.enc s with
    | some ch => rw [hf] at h; exact h
    | none =>
      rw [hf] at h
      obtain ⟨m', hx, ⟨hheap, hother⟩, hcell, hnodes⟩ := h
      refine ⟨storeValue_string fi _ _ s hut hk, m', hx, hcell, hheap, hother, ?_⟩
      rw [hnodes]
      -- `inl` is `hasLength && inline`, and then the remainder is `s0.drop length`
      unfold lenRule at hl
      cases hhl : fi.opts.hasLength <;> cases hinl : fi.opts.inline <;> simp only [hhl, hinl] at hl <;>
        (repeat' split at hl) <;> simp_all

theorem unmarshalText_witness : UnmarshalTextSpec unmarshalTextRef := unmarshalTextRef_spec

/-! ## Examples: the whole regenerated `Unmarshal` against `Codec.unmarshal` + `finalVals`

`Examples.agreesU structs root hash` runs function 5 on `hash` and a pointer to a zero destination (with the model's
parser as `parse.Parse`, `typeInfoOf` as `getTypeInfo`, the reference primitives) and compares every cell with
`finalVals ti out`, or the returned error with the model's through `absErrU`. -/

open Examples in
#guard storedU GoCrypt.Gen.des.structs "scheme" (b "abJnggxhB/yJU") ==
  some [([0], .str []), ([1], .bytes (b "ab")), ([2], .bytes (b "JnggxhB/yJU"))]
open Examples in
#guard agreesU GoCrypt.Gen.sha256.structs "scheme" (b "$5$rounds=5000$salt$0123456789012345678901234567890123456789012")
open Examples in
#guard agreesU GoCrypt.Gen.sha256.structs "scheme" (b "$5$salt$0123456789012345678901234567890123456789012")
open Examples in
-- length mismatch on the sum, number syntax / range, excessive fragment, unsupported prefix, missing fields, syntax error
#guard agreesU GoCrypt.Gen.sha256.structs "scheme" (b "$5$salt$012345678901234567890123456789012345678901")
open Examples in
#guard agreesU GoCrypt.Gen.sha256.structs "scheme" (b "$5$rounds=x$salt$0123456789012345678901234567890123456789012")
open Examples in
#guard agreesU GoCrypt.Gen.sha256.structs "scheme" (b "$5$rounds=99999999999$salt$0123456789012345678901234567890123456789012")
open Examples in
#guard agreesU GoCrypt.Gen.sha256.structs "scheme" (b "$5$salt$0123456789012345678901234567890123456789012$extra")
open Examples in
#guard agreesU GoCrypt.Gen.sha256.structs "scheme" (b "$7$salt$0123456789012345678901234567890123456789012")
open Examples in
#guard agreesU GoCrypt.Gen.sha256.structs "scheme" (b "$5$")
open Examples in
#guard agreesU GoCrypt.Gen.sha256.structs "scheme" (b "$5")
open Examples in
-- argon2: optional version, a group of three params (complete, one missing, one too many)
#guard agreesU GoCrypt.Gen.argon2.structs "scheme" (b "$argon2id$v=19$m=65536,t=3,p=4$c2FsdA$c3Vt")
open Examples in
#guard agreesU GoCrypt.Gen.argon2.structs "scheme" (b "$argon2id$m=65536,t=3,p=4$c2FsdA$c3Vt")
open Examples in
#guard agreesU GoCrypt.Gen.argon2.structs "scheme" (b "$argon2id$m=65536,p=4$c2FsdA$c3Vt")
open Examples in
#guard agreesU GoCrypt.Gen.argon2.structs "scheme" (b "$argon2id$m=65536,t=3,p=4,x=1$c2FsdA$c3Vt")
open Examples in
-- bcrypt (two inline fields, a byte array), DES (inline salt), extended DES (desInt unmarshaler), Sun MD5
#guard agreesU GoCrypt.Gen.bcrypt.structs "scheme" (b "$2b$10$abcdefghijklmnopqrstuuABCDEFGHIJKLMNOPQRSTUVWXYZ01234")
open Examples in
#guard agreesU GoCrypt.Gen.bcrypt.structs "scheme" (b "$2b$1x$abcdefghijklmnopqrstuuABCDEFGHIJKLMNOPQRSTUVWXYZ01234")
open Examples in
#guard agreesU GoCrypt.Gen.des.structs "scheme" (b "abJnggxhB/yJU")
open Examples in
#guard agreesU GoCrypt.Gen.desext.structs "scheme" (b "_J9..CCCCXBrJUJV154M")
open Examples in
#guard agreesU GoCrypt.Gen.sunmd5.structs "scheme" (b "$md5,rounds=5000$salt$$0123456789012345678901")

#print axioms unmarshalIndirect_allocates
#print axioms newUnmarshalError_eq
#print axioms newErrSpec_callIn
#print axioms fieldText_eq_lenRule
#print axioms unmarshal_string
#print axioms unmarshalText_witness

end GoCrypt.CodecIRU
