import GoCrypt.Proofs.CodecL2Round
import GoCrypt.Proofs.CodecL2Respell
import GoCrypt.Proofs.CodecL4Respell
import GoCrypt.Proofs.CodecL6Respell
import GoCrypt.Proofs.CodecL7Respell
import GoCrypt.Proofs.CodecL8Respell
import GoCrypt.Proofs.CodecShapes

/-!
# C10, general form — `Unmarshal (Marshal v) = v` for EVERY struct shape, layer by layer

Property theorems only; the proofs are in `Proofs/CodecL2*.lean`.

Every rung has the form

  `Lk.shapeOk ti → Lk.valuesOk ti vals → marshal ti vals = .ok s →
     ∃ out, unmarshal ti s = .ok out ∧ finalVals ti out = canonVals ti vals`

for an ARBITRARY `TypeInfo` (any number of fields, any mix of the tag options of the layer), where

* `Lk.shapeOk ti  = tiWf ti && CodecDomain.unambiguous ti && (every field is in layer k)`
  (for `k = 6`: `&& groupsSeparated ti.fields` instead of a per-field restriction);
* `Lk.valuesOk ti vals = typed ti vals && CodecDomain.representable ti vals && lastTextOk vals ti.fields`
  (for `k = 6`: `&& noSteal vals ti.fields`).

So the hypotheses ARE the calibrated predicates `unambiguous` / `representable` (not private ones), plus
`tiWf` (what `getTypeInfo` guarantees for every struct type, and the field kinds / text codecs the model
gives a meaning to), `typed` (the value is a value of the struct type) and three explicit exclusions:

* `lastTextOk` — known finding 12 (empty text in the last written position, trailing-`$` tolerance).
  `representable` does NOT exclude it (the harness classifies it separately); example `needs_lastTextOk`.
* `groupsSeparated` — NEW finding A: two parameter groups separated by optional fields only are written
  as one group when those fields are empty; Unmarshal rejects it. Inside `unambiguous ∧ representable`;
  example `needs_groupsSeparated` (confirmed on the Go code: `struct{A param:a,group; X param:x,omitempty;
  B param:b,group}{1,0,2}` → `"a=1,b=2"` → "excessive fragment").
* `noSteal` — NEW finding B: an omitted optional parameter `p` followed by a text beginning with `p=`
  (possible under `enc:none`) is given that text. Inside `unambiguous ∧ representable`; example
  `needs_noSteal` (confirmed on the Go code: `{P:0 X:"a=5" Q:7}` → `"a=5$q=7"` → `{P:5 X:"q=7" Q:0}`, no error).
* `tiWf` includes `numReqValues = number of required stand-alone fields of ti.fields`. `getTypeInfo`
  violates this for a `param` field shadowed by an embedded struct's field of the same name (NEW finding
  C, in `typeinfo.go normalize`: the counter is incremented before the duplicate check); example
  `numReq_shadowed_param_counted_once` (repaired).

The known defects are excluded by the calibrated predicates themselves: a field tagged both `param` and
`inline` by `unambiguous` (`inlineOk`; lemma `param_inline_excluded`); `omitempty` on a non-empty byte
array is not an obstacle to the round trip of the model (such a field is always written and read back).

Ladder (each rung is an instance of the next one):
`L2` L1 + required `param:name` fields; `L3` + inline fields; `L4` + text codecs, `enc:none`;
`L5` + parameter groups; `L6` + `omitempty` everywhere (count rule) = the full `unambiguous ∧ representable`.

Second part — C20, the converse, in general form (`accepted_respell*`): every string `Unmarshal` accepts
is a tolerated respelling (`Spec/Respell.respell`) of what `Marshal` writes for the value read, for an
ARBITRARY struct type of
* layers L1–L2 (`accepted_respell`), L3–L4 (`accepted_respell4`: inline fields, text codecs),
* every layout WITHOUT parameter groups (`accepted_respell6`: optional parameters, optional positional
  fields, no assumption on `numReqValues`),
* every layout WITH parameter groups that ends with a required stand-alone field (`accepted_respell7`),
* EVERY layout (`accepted_respell_all`: a group fragment may be the last one, with its tolerated trailing `,`),
each with its version on the ladder (`accepted_respell_L1 … _L6`). All ten shipped layouts are instances
of `accepted_respell_all`. The acceptance direction needs conditions the round trip does not (there they
follow from `marshal … = .ok s`): consistent `length:` options (`needs_intNoLength`, `needs_arrayLength`,
`needs_desIntLength`), no `omitempty` on a non-empty byte array (`needs_optOk`, known finding 13), no
optional whitelist-typed field (`respell` has no explicit-zero spelling for it — a hole of the SPEC).
It needs neither `groupsSeparated`, nor `noSteal`, nor any assumption on `numReqValues`.
-/

namespace GoCrypt.C10General
open Bytes GoCrypt.Parse GoCrypt.Codec GoCrypt.Codec.Layers GoCrypt.CodecDomain

/-! ## The ladder -/

/-- L2: an optional string prefix, required positional fields and required `param:name` fields. -/
theorem roundtrip_L2 (ti : TypeInfo) (vals : Vals) (s : Bytes)
    (hs : L2.shapeOk ti = true) (hv : L2.valuesOk ti vals = true) (hm : marshal ti vals = .ok s) :
    ∃ out, unmarshal ti s = .ok out ∧ finalVals ti out = canonVals ti vals :=
  L2.roundtrip ti vals s hs hv hm

/-- L3: L2 + inline fields (fixed `length:n`, glued to the next required positional field). -/
theorem roundtrip_L3 (ti : TypeInfo) (vals : Vals) (s : Bytes)
    (hs : L3.shapeOk ti = true) (hv : L3.valuesOk ti vals = true) (hm : marshal ti vals = .ok s) :
    ∃ out, unmarshal ti s = .ok out ∧ finalVals ti out = canonVals ti vals :=
  L3.roundtrip ti vals s hs hv hm

/-- L4: L3 + the text codecs (crypt(3) 24-bit integer, two-digit cost, whitelists), `enc:none`, `base:n`. -/
theorem roundtrip_L4 (ti : TypeInfo) (vals : Vals) (s : Bytes)
    (hs : L4.shapeOk ti = true) (hv : L4.valuesOk ti vals = true) (hm : marshal ti vals = .ok s) :
    ∃ out, unmarshal ti s = .ok out ∧ finalVals ti out = canonVals ti vals :=
  L4.roundtrip ti vals s hs hv hm

/-- L5: L4 + parameter groups (runs of `param:x,group` fields, written `a=1,b=2`). -/
theorem roundtrip_L5 (ti : TypeInfo) (vals : Vals) (s : Bytes)
    (hs : L5.shapeOk ti = true) (hv : L5.valuesOk ti vals = true) (hm : marshal ti vals = .ok s) :
    ∃ out, unmarshal ti s = .ok out ∧ finalVals ti out = canonVals ti vals :=
  L5.roundtrip ti vals s hs hv hm

/-- L6: every tag option — `omitempty` on parameters, on group members and on trailing positional fields
(count rule). The full `unambiguous ∧ representable`, with the three explicit exclusions. -/
theorem roundtrip_L6 (ti : TypeInfo) (vals : Vals) (s : Bytes)
    (hs : L6.shapeOk ti = true) (hv : L6.valuesOk ti vals = true) (hm : marshal ti vals = .ok s) :
    ∃ out, unmarshal ti s = .ok out ∧ finalVals ti out = canonVals ti vals :=
  L6.roundtrip ti vals s hs hv hm

/-- The same, with the hypotheses spelled out. -/
theorem roundtrip_general (ti : TypeInfo) (vals : Vals) (s : Bytes)
    (hwf : tiWf ti = true) (hu : unambiguous ti = true) (hgs : groupsSeparated ti.fields = true)
    (ht : Layers.typed ti vals = true) (hr : representable ti vals = true)
    (hl : lastTextOk vals ti.fields = true) (hns : noSteal vals ti.fields = true)
    (hm : marshal ti vals = .ok s) :
    ∃ out, unmarshal ti s = .ok out ∧ finalVals ti out = canonVals ti vals :=
  L6.roundtrip ti vals s (by simp [L6.shapeOk, hwf, hu, hgs]) (by simp [L6.valuesOk, ht, hr, hl, hns]) hm

/-- The hypotheses of the lower rungs are those of `L6` restricted to the layer: without optional
fields `groupsSeparated` and `noSteal` hold by themselves. -/
theorem L5_hypotheses (ti : TypeInfo) (vals : Vals) (hs : L5.shapeOk ti = true) (hv : L5.valuesOk ti vals = true) :
    L6.shapeOk ti = true ∧ L6.valuesOk ti vals = true := L5.to_L6 ti vals hs hv

theorem L4_hypotheses (ti : TypeInfo) (hs : L4.shapeOk ti = true) : L5.shapeOk ti = true := L4.to_L5 ti hs
theorem L3_hypotheses (ti : TypeInfo) (hs : L3.shapeOk ti = true) : L4.shapeOk ti = true := L3.to_L4 ti hs
theorem L2_hypotheses (ti : TypeInfo) (hs : L2.shapeOk ti = true) : L3.shapeOk ti = true := L2.to_L3 ti hs

/-- A field tagged both `param` and `inline` (known defect 10) is excluded by `unambiguous`. -/
theorem param_inline_excluded (ti : TypeInfo) (hu : unambiguous ti = true) :
    ∀ f ∈ ti.fields, f.opts.inline = true → f.opts.param = [] :=
  inlineOk_noParam ti.fields (unambiguous_facts ti hu).inl

/-! ## Non-vacuity: a concrete struct per rung -/

private def fld (i : Nat) (name : String) (kind : GoKind) (opts : FieldOpts) : FieldInfo :=
  { index := [i], name := name, kind := kind, ptrDepth := 0, typeName := "", tag := [],
    marshalText := .none, unmarshalText := .none, opts := opts }

private def pfx : FieldInfo :=
  { index := [0], name := "HashPrefix", kind := .string, ptrDepth := 0, typeName := "", tag := [],
    marshalText := .none, unmarshalText := .none, opts := { isPrefix := true, enc := .none } }

/-- `$x$r=5000$ab$cd`: prefix, a required param, two positional fields. -/
private def ex2 : TypeInfo :=
  { hashPrefix := some pfx,
    fields := [fld 1 "Rounds" (.uint 32) { param := [114] }, fld 2 "Salt" .string {}, fld 3 "Sum" .bytes {}],
    numReqValues := 3 }
private def ex2v : Vals := [([0], .str [36, 120, 36]), ([1], .uint 5000), ([2], .str [97, 98]), ([3], .bytes [99, 100])]

example : L2.shapeOk ex2 = true ∧ L2.valuesOk ex2 ex2v = true := by decide
example : marshal ex2 ex2v = .ok [36, 120, 36, 114, 61, 53, 48, 48, 48, 36, 97, 98, 36, 99, 100] := by decide
example : ∃ out, unmarshal ex2 [36, 120, 36, 114, 61, 53, 48, 48, 48, 36, 97, 98, 36, 99, 100] = .ok out ∧
    finalVals ex2 out = canonVals ex2 ex2v :=
  roundtrip_L2 ex2 ex2v _ (by decide) (by decide) (by decide)

/-- `c=5$abSUM$tl`: a param, an inline pair (`[2]byte` glued to the next field) and two positional fields. -/
private def ex3 : TypeInfo :=
  { fields := [fld 1 "Cost" (.uint 8) { param := [99] },
               fld 2 "Salt" (.byteArray 2) { inline := true, length := 2, hasLength := true },
               fld 3 "Sum" .string {}, fld 4 "Tail" .string {}],
    numReqValues := 3 }
private def ex3v : Vals := [([1], .uint 5), ([2], .bytes [97, 98]), ([3], .str [83, 85, 77]), ([4], .str [116, 108])]

example : L3.shapeOk ex3 = true ∧ L3.valuesOk ex3 ex3v = true := by decide
example : marshal ex3 ex3v = .ok [99, 61, 53, 36, 97, 98, 83, 85, 77, 36, 116, 108] := by decide
example : ∃ out, unmarshal ex3 [99, 61, 53, 36, 97, 98, 83, 85, 77, 36, 116, 108] = .ok out ∧
    finalVals ex3 out = canonVals ex3 ex3v :=
  roundtrip_L3 ex3 ex3v _ (by decide) (by decide) (by decide)

/-- `05$J9..ab$n=ff$x=y`: the two-digit cost, the crypt(3) 24-bit integer inline in front of the salt,
a hexadecimal param, a free-text (`enc:none`) field holding `=`. -/
private def ex4 : TypeInfo :=
  { fields := [{ fld 1 "Cost" (.uint 8) {} with marshalText := .twoDigit },
               { fld 2 "Rounds" (.uint 32) { inline := true, length := 4, hasLength := true } with
                   marshalText := .desInt, unmarshalText := .desInt },
               fld 3 "Salt" .string {},
               fld 4 "N" (.uint 16) { param := [110], base := 16 },
               fld 5 "Free" .string { enc := .none }],
    numReqValues := 4 }
private def ex4v : Vals :=
  [([1], .uint 5), ([2], .uint 725), ([3], .str [97, 98]), ([4], .uint 255), ([5], .str [120, 61, 121])]

example : L4.shapeOk ex4 = true ∧ L4.valuesOk ex4 ex4v = true := by decide
example : marshal ex4 ex4v =
    .ok [48, 53, 36, 74, 57, 46, 46, 97, 98, 36, 110, 61, 102, 102, 36, 120, 61, 121] := by decide
example : ∃ out, unmarshal ex4 [48, 53, 36, 74, 57, 46, 46, 97, 98, 36, 110, 61, 102, 102, 36, 120, 61, 121] = .ok out ∧
    finalVals ex4 out = canonVals ex4 ex4v :=
  roundtrip_L4 ex4 ex4v _ (by decide) (by decide) (by decide)

/-- `v=19$m=64,t=2,p=1$ab$k=7$cd`: a param, a group of three, a positional field, a lone grouped param
(written as a plain value), a positional field. -/
private def ex5 : TypeInfo :=
  { fields := [fld 1 "V" (.uint 8) { param := [118] },
               fld 2 "M" (.uint 32) { param := [109], group := true },
               fld 3 "T" (.uint 32) { param := [116], group := true },
               fld 4 "P" (.uint 8) { param := [112], group := true },
               fld 5 "Salt" .string {},
               fld 6 "K" (.uint 8) { param := [107], group := true },
               fld 7 "Sum" .string {}],
    numReqValues := 3 }
private def ex5v : Vals :=
  [([1], .uint 19), ([2], .uint 64), ([3], .uint 2), ([4], .uint 1), ([5], .str [97, 98]), ([6], .uint 7),
   ([7], .str [99, 100])]

example : L5.shapeOk ex5 = true ∧ L5.valuesOk ex5 ex5v = true := by decide
example : marshal ex5 ex5v =
    .ok [118, 61, 49, 57, 36, 109, 61, 54, 52, 44, 116, 61, 50, 44, 112, 61, 49, 36, 97, 98, 36, 107, 61, 55,
      36, 99, 100] := by decide
example : ∃ out, unmarshal ex5 [118, 61, 49, 57, 36, 109, 61, 54, 52, 44, 116, 61, 50, 44, 112, 61, 49, 36, 97,
      98, 36, 107, 61, 55, 36, 99, 100] = .ok out ∧ finalVals ex5 out = canonVals ex5 ex5v :=
  roundtrip_L5 ex5 ex5v _ (by decide) (by decide) (by decide)

/-- L6: an optional param, a group with an optional member, positional fields — `v` absent, `t` absent:
`m=64,p=1$ab$cd`; `v` present, `t` present: `v=19$m=64,t=2,p=1$ab$cd`. -/
private def ex6 : TypeInfo :=
  { fields := [fld 1 "V" (.uint 8) { param := [118], omitEmpty := true },
               fld 2 "M" (.uint 32) { param := [109], group := true },
               fld 3 "T" (.uint 32) { param := [116], group := true, omitEmpty := true },
               fld 4 "P" (.uint 8) { param := [112], group := true },
               fld 5 "Salt" .string {}, fld 6 "Sum" .string {}],
    numReqValues := 2 }
private def ex6v (v t : Nat) : Vals :=
  [([1], .uint v), ([2], .uint 64), ([3], .uint t), ([4], .uint 1), ([5], .str [97, 98]), ([6], .str [99, 100])]

example : L6.shapeOk ex6 = true ∧ L6.valuesOk ex6 (ex6v 0 0) = true ∧ L6.valuesOk ex6 (ex6v 19 2) = true := by
  decide
example : marshal ex6 (ex6v 0 0) = .ok [109, 61, 54, 52, 44, 112, 61, 49, 36, 97, 98, 36, 99, 100] := by decide
example : ∃ out, unmarshal ex6 [109, 61, 54, 52, 44, 112, 61, 49, 36, 97, 98, 36, 99, 100] = .ok out ∧
    finalVals ex6 out = canonVals ex6 (ex6v 0 0) :=
  roundtrip_L6 ex6 (ex6v 0 0) _ (by decide) (by decide) (by decide)

/-- L6, the count rule: trailing optional positional fields, present ones first: `ab$cd` and `ab$cd$ef`. -/
private def ex6p : TypeInfo :=
  { fields := [fld 1 "R" (.uint 8) { param := [114] }, fld 2 "Salt" .string {},
               fld 3 "O1" .string { omitEmpty := true }, fld 4 "O2" .string { omitEmpty := true }],
    numReqValues := 2 }
private def ex6pv (o1 o2 : Bytes) : Vals := [([1], .uint 5), ([2], .str [97, 98]), ([3], .str o1), ([4], .str o2)]

example : L6.shapeOk ex6p = true ∧ L6.valuesOk ex6p (ex6pv [99] []) = true ∧
    L6.valuesOk ex6p (ex6pv [99] [100]) = true ∧ L6.valuesOk ex6p (ex6pv [] []) = true := by decide
/-- Not greedy (second optional field present, first absent): outside `representable`. -/
example : representable ex6p (ex6pv [] [100]) = false := by decide

/-- The ten shipped layouts are instances of `L6` (argon2 and sunmd5 need all of it). -/
example : L6.shapeOk Shapes.md5TI = true ∧ L6.shapeOk Shapes.sha1TI = true ∧ L6.shapeOk Shapes.nthashTI = true ∧
    L6.shapeOk Shapes.sha256TI = true ∧ L6.shapeOk Shapes.sha512TI = true ∧ L6.shapeOk Shapes.desTI = true ∧
    L6.shapeOk Shapes.desextTI = true ∧ L6.shapeOk Shapes.bcryptTI = true ∧ L6.shapeOk Shapes.sunmd5TI = true ∧
    L6.shapeOk Shapes.argon2TI = true := by decide
example : L6.valuesOk Shapes.argon2TI
    (Shapes.argon2Vals [36, 97, 114, 103, 111, 110, 50, 105, 100, 36] 19 65536 2 1 [97, 98] [99, 100]) = true := by
  decide
example : L6.valuesOk Shapes.sunmd5TI
    (Shapes.sunmd5Vals [36, 109, 100, 53, 36] 5 [97, 98] .nilPtr (List.replicate 22 46)) = true := by decide

/-! ## The explicit exclusions are needed: inside `unambiguous ∧ representable`, round trip fails -/

/-- Known finding 12: `struct{A, B string}{"a", ""}` → `"a$"` → "unexpected EOF". -/
private def cexLast : TypeInfo := { fields := [fld 1 "A" .string {}, fld 2 "B" .string {}], numReqValues := 2 }
theorem needs_lastTextOk :
    tiWf cexLast = true ∧ unambiguous cexLast = true ∧ groupsSeparated cexLast.fields = true ∧
    Layers.typed cexLast [([1], .str [97]), ([2], .str [])] = true ∧
    representable cexLast [([1], .str [97]), ([2], .str [])] = true ∧
    lastTextOk [([1], .str [97]), ([2], .str [])] cexLast.fields = false ∧
    marshal cexLast [([1], .str [97]), ([2], .str [])] = .ok [97, 36] ∧
    (unmarshal cexLast [97, 36]).toOption = none := by decide

/-- NEW finding A: `struct{A param:a,group; X param:x,omitempty; B param:b,group}{1, 0, 2}` →
`"a=1,b=2"` → "excessive fragment". -/
private def cexGroups : TypeInfo :=
  { fields := [fld 1 "A" (.uint 8) { param := [97], group := true },
               fld 2 "X" (.uint 8) { param := [120], omitEmpty := true },
               fld 3 "B" (.uint 8) { param := [98], group := true }],
    numReqValues := 0 }
theorem needs_groupsSeparated :
    tiWf cexGroups = true ∧ unambiguous cexGroups = true ∧ groupsSeparated cexGroups.fields = false ∧
    Layers.typed cexGroups [([1], .uint 1), ([2], .uint 0), ([3], .uint 2)] = true ∧
    representable cexGroups [([1], .uint 1), ([2], .uint 0), ([3], .uint 2)] = true ∧
    lastTextOk [([1], .uint 1), ([2], .uint 0), ([3], .uint 2)] cexGroups.fields = true ∧
    noSteal [([1], .uint 1), ([2], .uint 0), ([3], .uint 2)] cexGroups.fields = true ∧
    marshal cexGroups [([1], .uint 1), ([2], .uint 0), ([3], .uint 2)] = .ok [97, 61, 49, 44, 98, 61, 50] ∧
    (unmarshal cexGroups [97, 61, 49, 44, 98, 61, 50]).toOption = none := by decide

/-- NEW finding B: `struct{P param:a,omitempty; X string enc:none; Q param:q,omitempty}{0, "a=5", 7}` →
`"a=5$q=7"` → `{P:5, X:"q=7", Q:0}` without any error. -/
private def cexSteal : TypeInfo :=
  { fields := [fld 1 "P" (.uint 8) { param := [97], omitEmpty := true },
               fld 2 "X" .string { enc := .none },
               fld 3 "Q" (.uint 8) { param := [113], omitEmpty := true }],
    numReqValues := 1 }
theorem needs_noSteal :
    tiWf cexSteal = true ∧ unambiguous cexSteal = true ∧ groupsSeparated cexSteal.fields = true ∧
    Layers.typed cexSteal [([1], .uint 0), ([2], .str [97, 61, 53]), ([3], .uint 7)] = true ∧
    representable cexSteal [([1], .uint 0), ([2], .str [97, 61, 53]), ([3], .uint 7)] = true ∧
    lastTextOk [([1], .uint 0), ([2], .str [97, 61, 53]), ([3], .uint 7)] cexSteal.fields = true ∧
    noSteal [([1], .uint 0), ([2], .str [97, 61, 53]), ([3], .uint 7)] cexSteal.fields = false ∧
    marshal cexSteal [([1], .uint 0), ([2], .str [97, 61, 53]), ([3], .uint 7)] = .ok [97, 61, 53, 36, 113, 61, 55] ∧
    (unmarshal cexSteal [97, 61, 53, 36, 113, 61, 55]).map (finalVals cexSteal) =
      .ok [([1], .uint 5), ([2], .str [113, 61, 55]), ([3], .uint 0)] := by decide

/-- NEW finding C (`typeinfo.go`, `normalize`): for
`struct{ Inner{A param:a}; A param:a; R param:r,omitempty; X string }` the shadowed `Inner.A` is WAS counted in
`NumReqValues` (3 for 2 required fields), so a PRESENT optional `R` was skipped by the count rule:
`{A:1, R:5, X:"x"}` → `"a=1$r=5$x"` → rejected. Found by this proof (the hypothesis `tiWf` was forced),
reproduced on the Go code and repaired there (`fix: hash: count a shadowed param once`); the model
mirrors the repaired code, and the theorem below records the repaired behaviour on that very type. -/
private def cexInner : GoStruct :=
  { name := "Inner", fields := [
      { name := "A", exported := true, anonymous := false, ptrDepth := 0, kind := .uint 8, typeName := "",
        tag := [112, 97, 114, 97, 109, 58, 97], marshalText := .none, unmarshalText := .none }] }
private def cexOuter : GoStruct :=
  { name := "Outer", fields := [
      { name := "Inner", exported := true, anonymous := true, ptrDepth := 0, kind := .structRef "Inner",
        typeName := "Inner", tag := [], marshalText := .none, unmarshalText := .none },
      { name := "A", exported := true, anonymous := false, ptrDepth := 0, kind := .uint 8, typeName := "",
        tag := [112, 97, 114, 97, 109, 58, 97], marshalText := .none, unmarshalText := .none },
      { name := "R", exported := true, anonymous := false, ptrDepth := 0, kind := .uint 8, typeName := "",
        tag := [112, 97, 114, 97, 109, 58, 114, 44, 111, 109, 105, 116, 101, 109, 112, 116, 121],
        marshalText := .none, unmarshalText := .none },
      { name := "X", exported := true, anonymous := false, ptrDepth := 0, kind := .string, typeName := "",
        tag := [], marshalText := .none, unmarshalText := .none }] }
theorem numReq_shadowed_param_counted_once :
    ∃ ti, typeInfoOf [cexInner, cexOuter] "Outer" = .ok ti ∧
      ti.fields.map (·.name) = ["A", "R", "X"] ∧ ti.numReqValues = 2 ∧ reqCount ti.fields = 2 ∧
      tiWf ti = true ∧ unambiguous ti = true ∧
      marshal ti [([1], .uint 1), ([2], .uint 5), ([3], .str [120])] = .ok [97, 61, 49, 36, 114, 61, 53, 36, 120] ∧
      (unmarshal ti [97, 61, 49, 36, 114, 61, 53, 36, 120]).toOption ≠ none := by
  refine ⟨_, rfl, ?_⟩
  decide

/-! ## C20, general form: an accepted string is a tolerated respelling (all layers)

`respell ti vals h` (`Spec/Respell.lean`) decides whether `h` is, up to one trailing delimiter,
alternative digit spellings, member order in a group and explicit zeros, the string Marshal writes for
`vals`. For an ARBITRARY struct type of layer L2 (optional string prefix, required positional and
`param:name` fields) every string Unmarshal accepts is a respelling of what Marshal writes for the value
read — provided the `length:` options are consistent (`Accepts.lengthsOk`): no `length:` on integer
fields or on the prefix, `[n]byte` fields of length `n`. Without that the statement is false
(`needs_intNoLength`, `needs_arrayLength`; both confirmed on the Go code: `Unmarshal("007")` into
`uint8 length:3` gives 7, which `Marshal` refuses to write). -/

open GoCrypt.Respell in
/-- The converse for layer L2 (hence L1), minimal hypotheses: required stand-alone fields without text
codec, a plain string prefix, consistent `length:` options, distinct index paths. -/
theorem accepted_respell (ti : TypeInfo) (h : Bytes) (out : Vals) (hs : Accepts.acceptOk ti = true)
    (hu : unmarshal ti h = .ok out) : respell ti (finalVals ti out) h = true :=
  Accepts.accepted_respell ti h out hs hu

open GoCrypt.Respell in
/-- On the ladder: `L2.shapeOk` (the hypothesis of `roundtrip_L2`) and consistent `length:` options. -/
theorem accepted_respell_L2 (ti : TypeInfo) (h : Bytes) (out : Vals) (hs : L2.shapeOk ti = true)
    (hl : Accepts.lengthsOk ti = true) (hu : unmarshal ti h = .ok out) :
    respell ti (finalVals ti out) h = true :=
  Accepts.accepted_respell_L2 ti h out hs hl hu

open GoCrypt.Respell in
/-- On the ladder: `L1.shapeOk` (the hypothesis of `C10.roundtrip_L1`), no field marked as prefix among
`ti.fields`, consistent `length:` options. -/
theorem accepted_respell_L1 (ti : TypeInfo) (h : Bytes) (out : Vals) (hs : L1.shapeOk ti = true)
    (hnp : ti.fields.all (fun f => !f.opts.isPrefix) = true) (hl : Accepts.lengthsOk ti = true)
    (hu : unmarshal ti h = .ok out) : respell ti (finalVals ti out) h = true :=
  Accepts.accepted_respell_L1 ti h out hs hnp hl hu

open GoCrypt.Respell in
/-- The converse for layer L4 (hence L3): required stand-alone fields, named or not, inline or not, with
any supported text codec. `Accepts4.acceptOk` = the layer restriction, a plain string prefix without
`length:`, distinct index paths, and consistent `length:` options (`Accepts4.lenOk`: as in L2 for fields
without codec; `length:4` and `enc:hash` for the crypt(3) 24-bit integer; no `length:` or `length:2` for
the two-digit cost). -/
theorem accepted_respell4 (ti : TypeInfo) (h : Bytes) (out : Vals) (hs : Accepts4.acceptOk ti = true)
    (hu : unmarshal ti h = .ok out) : respell ti (finalVals ti out) h = true :=
  Accepts4.accepted_respell ti h out hs hu

open GoCrypt.Respell in
/-- On the ladder: `L4.shapeOk` (the hypothesis of `roundtrip_L4`) and consistent `length:` options. -/
theorem accepted_respell_L4 (ti : TypeInfo) (h : Bytes) (out : Vals) (hs : L4.shapeOk ti = true)
    (hl : Accepts4.lengthsOk ti = true) (hu : unmarshal ti h = .ok out) :
    respell ti (finalVals ti out) h = true :=
  Accepts4.accepted_respell_L4 ti h out hs hl hu

open GoCrypt.Respell in
theorem accepted_respell_L3 (ti : TypeInfo) (h : Bytes) (out : Vals) (hs : L3.shapeOk ti = true)
    (hl : Accepts4.lengthsOk ti = true) (hu : unmarshal ti h = .ok out) :
    respell ti (finalVals ti out) h = true :=
  Accepts4.accepted_respell_L3 ti h out hs hl hu

/-- Non-vacuity: the six shipped layouts without optional fields are instances (so the general theorem
subsumes their `accepts_only_respellings_<scheme>`), and so is the inline pair of `ex3`. -/
example : Accepts4.acceptOk Shapes.md5TI = true ∧ Accepts4.acceptOk Shapes.sha1TI = true ∧
    Accepts4.acceptOk Shapes.nthashTI = true ∧ Accepts4.acceptOk Shapes.desTI = true ∧
    Accepts4.acceptOk Shapes.desextTI = true ∧ Accepts4.acceptOk Shapes.bcryptTI = true ∧
    Accepts4.acceptOk ex3 = true := by decide
/-- `c=005$abSUM$tl$` (leading zeros, trailing `$`) is accepted by `ex3` and is a respelling of
`c=5$abSUM$tl`. -/
example : GoCrypt.Respell.respell ex3 (finalVals ex3 ex3v)
    [99, 61, 48, 48, 53, 36, 97, 98, 83, 85, 77, 36, 116, 108, 36] = true := by
  have hu : unmarshal ex3 [99, 61, 48, 48, 53, 36, 97, 98, 83, 85, 77, 36, 116, 108, 36] = .ok ex3v := by decide
  exact accepted_respell4 ex3 _ ex3v (by decide) hu

/-- A crypt(3) integer field without `length:4`: only the first four symbols are read, `"zzzz0"` is
accepted as `zzzz` and is no respelling of it. -/
private def cexDesLen : TypeInfo :=
  { fields := [{ fld 1 "R" (.uint 32) {} with marshalText := .desInt, unmarshalText := .desInt }],
    numReqValues := 1 }
theorem needs_desIntLength :
    L4.shapeOk cexDesLen = true ∧ Accepts4.lengthsOk cexDesLen = false ∧
    (unmarshal cexDesLen [122, 122, 122, 122, 48]).map (finalVals cexDesLen) = .ok [([1], .uint 16777215)] ∧
    marshal cexDesLen [([1], .uint 16777215)] = .ok [122, 122, 122, 122] ∧
    GoCrypt.Respell.respell cexDesLen [([1], .uint 16777215)] [122, 122, 122, 122, 48] = false := by decide

open GoCrypt.Respell in
/-- The converse for every struct type WITHOUT parameter groups: required and optional stand-alone
fields (optional `param:` fields, trailing optional positional fields under the count rule), named or
not, inline or not, any supported text codec. `Accepts6.acceptOk` = no grouped field, the per-field
conditions of `accepted_respell4`, `inlineOk`, and for optional fields: not inline, not a non-empty byte
array (known finding 13), no whitelist codec. No assumption on `numReqValues`. -/
theorem accepted_respell6 (ti : TypeInfo) (h : Bytes) (out : Vals) (hs : Accepts6.acceptOk ti = true)
    (hu : unmarshal ti h = .ok out) : respell ti (finalVals ti out) h = true :=
  Accepts6.accepted_respell ti h out hs hu

open GoCrypt.Respell in
/-- On the ladder: `L6.shapeOk` (the hypothesis of `roundtrip_L6`), no grouped field, consistent `length:`
options, optional fields that have an explicit-zero spelling (`Accepts6.extraOk`). -/
theorem accepted_respell_L6_nogroups (ti : TypeInfo) (h : Bytes) (out : Vals) (hs : L6.shapeOk ti = true)
    (hx : Accepts6.extraOk ti = true) (hu : unmarshal ti h = .ok out) :
    respell ti (finalVals ti out) h = true :=
  Accepts6.accepted_respell_L6 ti h out hs hx hu

/-- Non-vacuity: nine of the ten shipped layouts (all but argon2, which has a parameter group) are
instances, so the general theorem subsumes their `accepts_only_respellings_<scheme>`; so is `ex6p`. -/
example : Accepts6.acceptOk Shapes.md5TI = true ∧ Accepts6.acceptOk Shapes.sha1TI = true ∧
    Accepts6.acceptOk Shapes.nthashTI = true ∧ Accepts6.acceptOk Shapes.sha256TI = true ∧
    Accepts6.acceptOk Shapes.sha512TI = true ∧ Accepts6.acceptOk Shapes.desTI = true ∧
    Accepts6.acceptOk Shapes.desextTI = true ∧ Accepts6.acceptOk Shapes.bcryptTI = true ∧
    Accepts6.acceptOk Shapes.sunmd5TI = true ∧ Accepts6.acceptOk ex6p = true := by decide
/-- `r=05$ab$$` — an explicitly empty first optional field and a trailing `$` — is accepted by `ex6p`
(as `O1 = ""`, `O2` untouched) and is a respelling of `r=5$ab`. -/
example : GoCrypt.Respell.respell ex6p (finalVals ex6p [([1], .uint 5), ([2], .str [97, 98]), ([3], .str [])])
    [114, 61, 48, 53, 36, 97, 98, 36, 36] = true := by
  have hu : unmarshal ex6p [114, 61, 48, 53, 36, 97, 98, 36, 36] =
      .ok [([1], .uint 5), ([2], .str [97, 98]), ([3], .str [])] := by decide
  exact accepted_respell6 ex6p _ _ (by decide) hu

/-- Known finding 13 in the acceptance direction: `struct{A [1]byte `omitempty,enc:none`; B string}` accepts
`"x"` (A skipped by the count rule, left zero), but Marshal never omits a `[1]byte`: it writes `"\0$x"`. -/
private def cexOptArr : TypeInfo :=
  { fields := [fld 1 "A" (.byteArray 1) { omitEmpty := true, enc := .none, length := 1, hasLength := true },
               fld 2 "B" .string {}],
    numReqValues := 1 }
theorem needs_optOk :
    L6.shapeOk cexOptArr = true ∧ Accepts6.extraOk cexOptArr = false ∧
    (unmarshal cexOptArr [120]).map (finalVals cexOptArr) = .ok [([1], .bytes [0]), ([2], .str [120])] ∧
    marshal cexOptArr [([1], .bytes [0]), ([2], .str [120])] = .ok [0, 36, 120] ∧
    GoCrypt.Respell.respell cexOptArr [([1], .bytes [0]), ([2], .str [120])] [120] = false := by decide

open GoCrypt.Respell in
/-- The converse for struct types WITH parameter groups (runs of `param:x,group` fields, required or
optional members, read in any order) next to every kind of stand-alone field, provided the struct ends with
a required stand-alone field — so that a group fragment is never the last fragment of the input.
`Accepts7.acceptOk` = the per-field conditions of `accepted_respell6`, grouped parameters with plain
(alphanumeric), distinct names and not inline, `inlineOk`, a required stand-alone last field.
Subsumed by `accepted_respell_all` below. -/
theorem accepted_respell7 (ti : TypeInfo) (h : Bytes) (out : Vals) (hs : Accepts7.acceptOk ti = true)
    (hu : unmarshal ti h = .ok out) : respell ti (finalVals ti out) h = true :=
  Accepts7.accepted_respell ti h out hs hu

open GoCrypt.Respell in
/-- THE GENERAL CONVERSE: for every struct type — stand-alone fields and parameter groups, required or
optional, in any position — every accepted string is a tolerated respelling of what Marshal writes for
the value read. `Accepts8.acceptOk` = per field: not a prefix, base 2..36, a supported kind / text codec
with consistent `length:` (`Accepts4.lenOk`); an inline field has a length and no name; an optional field
is not inline, not a non-empty byte array, not whitelist-typed; a grouped parameter has a plain
(alphanumeric) name and is not inline; per struct: `inlineOk`, distinct names of grouped parameters, a plain
string prefix without `length:`, distinct index paths. -/
theorem accepted_respell_all (ti : TypeInfo) (h : Bytes) (out : Vals) (hs : Accepts8.acceptOk ti = true)
    (hu : unmarshal ti h = .ok out) : respell ti (finalVals ti out) h = true :=
  Accepts8.accepted_respell ti h out hs hu

open GoCrypt.Respell in
/-- On the ladder, the full layer: `L6.shapeOk` (the hypothesis of `roundtrip_L6`) and `Accepts8.extraOk`
(consistent `length:` options, optional fields with an explicit-zero spelling). -/
theorem accepted_respell_L6 (ti : TypeInfo) (h : Bytes) (out : Vals) (hs : L6.shapeOk ti = true)
    (hx : Accepts8.extraOk ti = true) (hu : unmarshal ti h = .ok out) :
    respell ti (finalVals ti out) h = true :=
  Accepts8.accepted_respell_L6 ti h out hs hx hu

/-- A layout that ENDS with a group (`struct{S string; A param:a,group; B param:b,group}`): the string
`x$b=2,a=1,` — members swapped, one trailing `,` — is accepted and is a respelling of `x$a=1,b=2`. -/
private def ex8 : TypeInfo :=
  { fields := [fld 1 "S" .string {}, fld 2 "A" (.uint 8) { param := [97], group := true },
               fld 3 "B" (.uint 8) { param := [98], group := true }],
    numReqValues := 1 }
example : Accepts8.acceptOk ex8 = true ∧ Accepts7.acceptOk ex8 = false ∧ L6.shapeOk ex8 = true ∧
    Accepts8.extraOk ex8 = true := by decide
example : GoCrypt.Respell.respell ex8 (finalVals ex8 [([1], .str [120]), ([2], .uint 1), ([3], .uint 2)])
    [120, 36, 98, 61, 50, 44, 97, 61, 49, 44] = true := by
  have hu : unmarshal ex8 [120, 36, 98, 61, 50, 44, 97, 61, 49, 44] =
      .ok [([1], .str [120]), ([2], .uint 1), ([3], .uint 2)] := by decide
  exact accepted_respell_all ex8 _ _ (by decide) hu

/-- Non-vacuity: ALL ten shipped layouts are instances (argon2 included), so `accepted_respell7` subsumes
every `accepts_only_respellings_<scheme>`; so are `ex5` and `ex6`. -/
example : Accepts7.acceptOk Shapes.md5TI = true ∧ Accepts7.acceptOk Shapes.sha1TI = true ∧
    Accepts7.acceptOk Shapes.nthashTI = true ∧ Accepts7.acceptOk Shapes.sha256TI = true ∧
    Accepts7.acceptOk Shapes.sha512TI = true ∧ Accepts7.acceptOk Shapes.desTI = true ∧
    Accepts7.acceptOk Shapes.desextTI = true ∧ Accepts7.acceptOk Shapes.bcryptTI = true ∧
    Accepts7.acceptOk Shapes.sunmd5TI = true ∧ Accepts7.acceptOk Shapes.argon2TI = true ∧
    Accepts7.acceptOk ex5 = true ∧ Accepts7.acceptOk ex6 = true := by decide
example : L6.shapeOk Shapes.argon2TI = true ∧ Accepts8.extraOk Shapes.argon2TI = true ∧
    Accepts8.acceptOk Shapes.argon2TI = true ∧ Accepts8.acceptOk Shapes.sunmd5TI = true := by decide
/-- `v=019$p=1,t=0,m=064$ab$cd$` — members in another order, an explicit zero for the optional `t`,
leading zeros, a trailing `$` — is accepted by `ex6` and is a respelling of `v=19$m=64,p=1$ab$cd`. -/
example : GoCrypt.Respell.respell ex6 (finalVals ex6 [([1], .uint 19), ([2], .uint 64), ([3], .uint 0), ([4], .uint 1),
      ([5], .str [97, 98]), ([6], .str [99, 100])])
    [118, 61, 48, 49, 57, 36, 112, 61, 49, 44, 116, 61, 48, 44, 109, 61, 48, 54, 52, 36, 97, 98, 36, 99, 100, 36] = true := by
  have hu : unmarshal ex6 [118, 61, 48, 49, 57, 36, 112, 61, 49, 44, 116, 61, 48, 44, 109, 61, 48, 54, 52, 36, 97, 98,
      36, 99, 100, 36] =
      .ok [([1], .uint 19), ([2], .uint 64), ([3], .uint 0), ([4], .uint 1), ([5], .str [97, 98]), ([6], .str [99, 100])] := by
    decide
  exact accepted_respell7 ex6 _ _ (by decide) hu

/-- Non-vacuity: `$x$r=05000$ab$cd$` (leading zero, trailing `$`) is accepted by `ex2` and is a
respelling of `$x$r=5000$ab$cd`. -/
example : Accepts.acceptOk ex2 = true ∧ Accepts.lengthsOk ex2 = true := by decide
example : (unmarshal ex2 [36, 120, 36, 114, 61, 48, 53, 48, 48, 48, 36, 97, 98, 36, 99, 100, 36]).map (finalVals ex2) =
    .ok ex2v := by decide
example : ∃ out, unmarshal ex2 [36, 120, 36, 114, 61, 48, 53, 48, 48, 48, 36, 97, 98, 36, 99, 100, 36] = .ok out ∧
    GoCrypt.Respell.respell ex2 (finalVals ex2 out) [36, 120, 36, 114, 61, 48, 53, 48, 48, 48, 36, 97, 98, 36, 99, 100, 36] = true := by
  have hu : unmarshal ex2 [36, 120, 36, 114, 61, 48, 53, 48, 48, 48, 36, 97, 98, 36, 99, 100, 36] = .ok ex2v := by
    decide
  exact ⟨ex2v, hu, accepted_respell_L2 ex2 _ ex2v (by decide) (by decide) hu⟩

/-- `length:` on an integer field: `"007"` is accepted into `struct{N uint8 `length:3`}` (an `L1` shape)
as 7, for which Marshal writes nothing ("length mismatch"), so it is no respelling. -/
private def cexIntLen : TypeInfo :=
  { fields := [fld 1 "N" (.uint 8) { length := 3, hasLength := true }], numReqValues := 1 }
theorem needs_intNoLength :
    L1.shapeOk cexIntLen = true ∧ L2.shapeOk cexIntLen = true ∧ Accepts.lengthsOk cexIntLen = false ∧
    (unmarshal cexIntLen [48, 48, 55]).map (finalVals cexIntLen) = .ok [([1], .uint 7)] ∧
    (marshal cexIntLen [([1], .uint 7)]).toOption = none ∧
    GoCrypt.Respell.respell cexIntLen [([1], .uint 7)] [48, 48, 55] = false := by decide

/-- A `[4]byte` field tagged `length:2`: `"ab"` is accepted as `ab\0\0`, which Marshal refuses to write. -/
private def cexArrLen : TypeInfo :=
  { fields := [fld 1 "A" (.byteArray 4) { length := 2, hasLength := true }], numReqValues := 1 }
theorem needs_arrayLength :
    L1.shapeOk cexArrLen = true ∧ L2.shapeOk cexArrLen = true ∧ Accepts.lengthsOk cexArrLen = false ∧
    (unmarshal cexArrLen [97, 98]).map (finalVals cexArrLen) = .ok [([1], .bytes [97, 98, 0, 0])] ∧
    (marshal cexArrLen [([1], .bytes [97, 98, 0, 0])]).toOption = none ∧
    GoCrypt.Respell.respell cexArrLen [([1], .bytes [97, 98, 0, 0])] [97, 98] = false := by decide

#print axioms roundtrip_L2
#print axioms roundtrip_L3
#print axioms roundtrip_L4
#print axioms roundtrip_L5
#print axioms roundtrip_L6
#print axioms roundtrip_general
#print axioms L5_hypotheses
#print axioms L4_hypotheses
#print axioms L3_hypotheses
#print axioms L2_hypotheses
#print axioms param_inline_excluded
#print axioms needs_lastTextOk
#print axioms needs_groupsSeparated
#print axioms needs_noSteal
#print axioms numReq_shadowed_param_counted_once
#print axioms accepted_respell
#print axioms accepted_respell_L2
#print axioms accepted_respell_L1
#print axioms accepted_respell4
#print axioms accepted_respell_L4
#print axioms accepted_respell_L3
#print axioms accepted_respell6
#print axioms accepted_respell_L6_nogroups
#print axioms accepted_respell7
#print axioms accepted_respell_all
#print axioms accepted_respell_L6
#print axioms needs_optOk
#print axioms needs_desIntLength
#print axioms needs_intNoLength
#print axioms needs_arrayLength

end GoCrypt.C10General
