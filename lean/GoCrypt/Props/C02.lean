import GoCrypt.Props.C02Core
import GoCrypt.Props.C02b
import GoCrypt.Props.FlowModel
import GoCrypt.Props.KdfIR2
import GoCrypt.Props.DesIR

/-!
# C02 — a wrong password or a tampered hash never verifies

* `Props/C02Core.lean` (namespace `GoCrypt.C02`): `check_ok_iff` — Check returns nil exactly when Key's result
  re-encodes to the stored digest; error-return and tamper theorems; absorption reductions for md5-crypt, SHA-crypt,
  Sun MD5 and sha1-crypt (`Props/KdfProps.lean`).
* `Props/C02b.lean`: the documented password equivalence as a decidable predicate, "equivalent ⇒ same verdict", and
  "both verify ⇒ equivalent ∨ a named collision of the primitive" for DES-crypt, BSDi, bcrypt, NT hash and Argon2 — and
  the two places where the ALGORITHM identifies more passwords than the property's wording (known findings F16, F17).

The obligations of C02 are the union of both files.
-/

namespace GoCrypt.C02

#print axioms check_ok_iff
#print axioms unmarshal_error_returned
#print axioms key_error_returned
#print axioms tampered_digest_never_ok
#print axioms accept_rederives_own_params
#print axioms GoCrypt.KdfProps.md5crypt_absorbs
#print axioms GoCrypt.KdfProps.md5crypt_absorbs_located
#print axioms GoCrypt.KdfProps.sha2crypt_absorbs
#print axioms GoCrypt.KdfProps.sha2crypt_absorbs_located
#print axioms GoCrypt.KdfProps.sunmd5_absorbs
#print axioms GoCrypt.KdfProps.sha1_absorbs_keyed
#print axioms GoCrypt.KdfProps.sha1_absorbs_partial
#print axioms GoCrypt.KdfProps.sha1_key_equiv
#print axioms GoCrypt.KdfProps.permute_injective
#print axioms GoCrypt.KdfProps.md5_perm_permutation
#print axioms GoCrypt.KdfProps.sha256_perm_permutation
#print axioms GoCrypt.KdfProps.sha512_perm_permutation
#print axioms GoCrypt.KdfProps.sunmd5_perm_permutation
#print axioms GoCrypt.C19.secretSafe'_md5
#print axioms GoCrypt.C02b.desKey_eq_iff
#print axioms GoCrypt.C02b.des_of_equiv
#print axioms GoCrypt.C02b.des_absorbs
#print axioms GoCrypt.C02b.des_check_absorbs
#print axioms GoCrypt.C02b.des_check_of_equiv
#print axioms GoCrypt.C02b.desextKey_of_equiv
#print axioms GoCrypt.C02b.desextKey_absorbs
#print axioms GoCrypt.C02b.desext_absorbs
#print axioms GoCrypt.C02b.desext_check_absorbs
#print axioms GoCrypt.C02b.desext_check_of_equiv
#print axioms GoCrypt.C02b.desext_fold_collision
#print axioms GoCrypt.C02b.desext_short_twin
#print axioms GoCrypt.C02b.desext_twin_checks
#print axioms GoCrypt.C02b.desWord_ignores_parity
#print axioms GoCrypt.C02b.blowfish_schedule_reads_72
#print axioms GoCrypt.C02b.bcrypt_of_equiv
#print axioms GoCrypt.C02b.bcryptEquiv_iff_take72
#print axioms GoCrypt.C02b.bcryptEquiv_long
#print axioms GoCrypt.C02b.bcryptEquiv_coarser
#print axioms GoCrypt.C02b.bcrypt_absorbs
#print axioms GoCrypt.C02b.bcrypt_check_absorbs
#print axioms GoCrypt.C02b.bcrypt_check_of_equiv
#print axioms GoCrypt.C02b.utf16le_not_injective
#print axioms GoCrypt.C02b.utf16le_injective_on_valid
#print axioms GoCrypt.C02b.nthash_absorbs
#print axioms GoCrypt.C02b.nthash_check_absorbs
#print axioms GoCrypt.C02b.nthash_check_of_equiv
#print axioms GoCrypt.C02b.argon2_key_eq_core
#print axioms GoCrypt.C02b.argon2_absorbs
#print axioms GoCrypt.C02b.argon2_check_absorbs

-- the pipeline model IS the regenerated code (Props/FlowModel.lean): a value semantics of the flow IR, instantiated with the model's own
-- unmarshal / key / encoders, evaluates the IR regenerated from the current source to exactly Scheme.check, for all inputs
#print axioms GoCrypt.FlowModel.flowCheck_eq_model_md5
#print axioms GoCrypt.FlowModel.flowCheck_eq_model_sha256
#print axioms GoCrypt.FlowModel.flowCheck_eq_model_sha512
#print axioms GoCrypt.FlowModel.flowCheck_eq_model_sha1
#print axioms GoCrypt.FlowModel.flowCheck_eq_model_sunmd5
#print axioms GoCrypt.FlowModel.flowCheck_eq_model_des
#print axioms GoCrypt.FlowModel.flowCheck_eq_model_desext
#print axioms GoCrypt.FlowModel.flowCheck_eq_model_bcrypt
#print axioms GoCrypt.FlowModel.flowCheck_eq_model_nthash
#print axioms GoCrypt.FlowModel.flowCheck_eq_model_argon2

-- the Key the theorems above re-derive IS the current code: every scheme's Key after its guards, regenerated from the source, computes Scheme.<s>.derive (Props/KdfIR2.lean), with DES itself regenerated (Props/DesIR.lean)
#print axioms GoCrypt.KdfIR2.desext_key_tail_ir_eq_derive
#print axioms GoCrypt.KdfIR2.des_key_tail_ir_eq_derive
#print axioms GoCrypt.KdfIR2.nthash_key_tail_ir_eq_derive
#print axioms GoCrypt.KdfIR2.md5_key_tail_ir_eq_derive
#print axioms GoCrypt.KdfIR2.sha256_key_tail_ir_eq_derive
#print axioms GoCrypt.KdfIR2.sha512_key_tail_ir_eq_derive
#print axioms GoCrypt.KdfIR2.sha1_key_tail_ir_eq_derive
#print axioms GoCrypt.KdfIR2.sunmd5_key_tail_ir_eq_derive
#print axioms GoCrypt.KdfIR2.bcrypt_key_tail_ir_eq_derive
#print axioms GoCrypt.DesIRProps.encrypt_ir_eq_model
#print axioms GoCrypt.DesIRProps.desext_key_tail_ir_eq_derive_full
#print axioms GoCrypt.DesIRProps.des_key_tail_ir_eq_derive_full
end GoCrypt.C02
