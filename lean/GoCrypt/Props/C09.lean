import GoCrypt.Props.C09Core
import GoCrypt.Props.Argon2IR

/-!
# C09 — Argon2 with parallelism > 1 is deterministic and equals the sequential evaluation

* `Props/C09Core.lean` (namespace `GoCrypt.C09`): the theorems about the hand-written model.
* `Props/Argon2IR.lean`: the regenerated `processBlocks` — three loops and the `go processSegment(...)`/`wg.Wait()` pattern as a task/join node with the sequential schedule — equals the model's `processBlocks`, whose schedule independence the core theorems prove; `processSegment_ir_eq_model` is proved in the in-range situation `argon2_accesses_in_memory` provides.

The obligations of C09 are the union.
-/

#print axioms GoCrypt.C09.workers_joined_facts
#print axioms GoCrypt.C09.refset_in_memory
#print axioms GoCrypt.C09.refset_cross_lane_completed
#print axioms GoCrypt.C09.refset_same_lane_earlier
#print axioms GoCrypt.C09.schedule_independent
#print axioms GoCrypt.C09.complete_schedules_agree
#print axioms GoCrypt.C09.complete_eq_sequential
#print axioms GoCrypt.C09.argon2_phase_local
#print axioms GoCrypt.C09.argon2_no_read_of_foreign_segment
#print axioms GoCrypt.C09.argon2_accesses_in_memory
#print axioms GoCrypt.C09.argon2_phase_schedule_independent
#print axioms GoCrypt.C09.key_schedule_independent
#print axioms GoCrypt.C09Link.processSegment_is_task
#print axioms GoCrypt.C09Link.model_fill_eq_seqFill
#print axioms GoCrypt.C09Link.fill_eq_any_complete_schedule
#print axioms GoCrypt.C09Link.key_eq_any_complete_schedule
#print axioms GoCrypt.C09Link.complete_schedules_same_key
#print axioms GoCrypt.C09Link.C09
#print axioms GoCrypt.C09Link.model_geom
#print axioms GoCrypt.C09Link.addrBlock_eq_rfc
#print axioms GoCrypt.Argon2IR.phi_ir_eq_kernel
#print axioms GoCrypt.Argon2IR.indexAlpha_ir_eq_kernel
#print axioms GoCrypt.Argon2IR.processSegment_ir_eq_model
#print axioms GoCrypt.Argon2IR.processBlocks_ir_eq_model
#print axioms GoCrypt.Argon2IR.key_ir_eq_model
#print axioms GoCrypt.Argon2IR.key_ir_eq_rfc
