import GoCrypt.Model.Dispatch
import GoCrypt.Gen.Facts
import GoCrypt.Driver.State

namespace GoCrypt.Driver
open Bytes GoCrypt.Dispatch

/-- Registry as populated by the scheme packages' `init` functions (from the regenerated facts). -/
def builtinRegistry : List (Bytes × String) :=
  GoCrypt.Gen.Facts.registrations.foldl (fun r (pkg, _, p, h, inInit) =>
    match p, inInit with
    | some p, true => register r p (pkg ++ "." ++ h)
    | _, _ => r) []

def handleDispatch : Handler
  | st, ["reg", p, id] => (ofHex p).map fun p => ({ st with registry := register st.registry p id }, "ok")
  | st, ["dispatch", h, pw] => do
    let h ← ofHex h
    let pw ← ofHex pw
    match check st.registry h pw with
    | .errHash => pure (st, "errhash")
    | .call f h' pw' => pure (st, s!"call {f} {toHex h'} {toHex pw'}")
  | st, ["dispatch-builtin", h] => do
    let h ← ofHex h
    match check builtinRegistry h [] with
    | .errHash => pure (st, "errhash")
    | .call f _ _ => pure (st, s!"registered {f}")
  | _, _ => none

end GoCrypt.Driver
