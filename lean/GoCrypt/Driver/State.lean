import GoCrypt.Base.Bytes
import GoCrypt.Model.TagInfo

/-! Mutable state of the line-protocol driver (registry history for the dispatcher suite, …). -/

namespace GoCrypt.Driver

structure DState where
  registry : List (Bytes × String) := []
  shapes : List (String × Except GoCrypt.Codec.TagErr GoCrypt.Codec.TypeInfo) := []

abbrev Handler := DState → List String → Option (DState × String)

/-- Lift a stateless handler. -/
def pureHandler (f : List String → Option String) : Handler :=
  fun st ws => (f ws).map fun r => (st, r)

end GoCrypt.Driver
