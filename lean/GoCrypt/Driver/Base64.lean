import GoCrypt.Model.Stream
import GoCrypt.Driver.State

namespace GoCrypt.Driver
open Bytes GoCrypt.Base64LE GoCrypt.Stream

def parseEnc (alpha pad strict : String) : Option Encoding := do
  let a ← ofHex alpha
  let p ← if pad == "-" then some none else (ofHex pad).bind fun b => b.head?.map some
  pure ⟨a, p, strict == "1"⟩

def showErr : Option Nat → String
  | none => "nil"
  | some k => s!"e{k}"

def showDRes (r : DRes) : String :=
  if r.panic then "panic" else
  let e := match r.err with | none => "nil" | some k => s!"corrupt:{k}"
  s!"{r.n} {e} {toHex r.dst.toList}"

/-- `w:<k>:<err>` = take k bytes then fail; `ok` = accept. -/
def parseWScript (s : String) : List (Option (Nat × Nat)) :=
  if s == "-" then [] else
  (s.splitOn ",").map fun t =>
    match t.splitOn ":" with
    | ["w", k, e] => some (e.toNat!, k.toNat!)
    | _ => none

/-- `<hex>:<err or ->` entries separated by commas. -/
def parseRScript (s : String) : List ReadResp :=
  if s == "-" then [] else
  (s.splitOn ",").filterMap fun t =>
    match t.splitOn ":" with
    | [h, e] => (ofHex h).map fun d => ⟨d, if e == "-" then none else some e.toNat!⟩
    | _ => none

def runEnc (e : Encoding) (st : EncSt) (chunks : List Bytes) (acc : List String) : EncSt × List String :=
  match chunks with
  | [] =>
    let (st, err) := encClose e st
    (st, acc ++ [s!"c:{showErr err}"])
  | c :: cs =>
    let (st, n, err) := encWrite e st c
    runEnc e st cs (acc ++ [s!"{n}:{showErr err}"])

def runDec (e : Encoding) (st : DecSt) (sizes : List Nat) (acc : List String) : List String :=
  match sizes with
  | [] => acc
  | k :: ks =>
    let (st, data, err) := decRead e st k
    runDec e st ks (acc ++ [s!"{toHex data}:{showErr err}"])

def handleBase64 : List String → Option String
  | ["b64enc", a, p, s, src] => do
    let e ← parseEnc a p s
    let src ← ofHex src
    pure (toHex (encode e src))
  | ["b64len", p, n] => do
    let e : Encoding := ⟨[], if p == "-" then none else some 61, false⟩
    let n ← n.toNat?
    pure s!"{encodedLen e n} {decodedLen e n}"
  | ["b64dec", a, p, s, dl, src] => do
    let e ← parseEnc a p s
    let src ← ofHex src
    let dl ← dl.toNat?
    pure (showDRes (decode e dl src))
  | ["b64decs", a, p, s, src] => do
    let e ← parseEnc a p s
    let src ← ofHex src
    let r := decode e (decodedLen e src.length) src
    if r.panic then pure "panic" else
    pure s!"{toHex (r.dst.toList.take r.n)} {match r.err with | none => "nil" | some k => s!"corrupt:{k}"}"
  | "stream-enc" :: a :: p :: s :: script :: chunks => do
    let e ← parseEnc a p s
    let chunks ← chunks.mapM ofHex
    let (st, res) := runEnc e { script := (parseWScript script).map (·.map fun (x, y) => (x, y)) } chunks []
    pure (" ".intercalate res ++ " | " ++ " ".intercalate (st.writes.map toHex))
  | ["stream-dec", a, p, s, script, sticky, sizes] => do
    let e ← parseEnc a p s
    let sizes := (sizes.splitOn ",").map String.toNat!
    let st : DecSt := { script := parseRScript script, sticky := if sticky == "-" then none else some sticky.toNat! }
    pure (" ".intercalate (runDec e st sizes []))
  | _ => none

end GoCrypt.Driver
