import GoCrypt.Model.Kdf.Argon2
import GoCrypt.Spec.Argon2Rfc
import GoCrypt.Gen.Kernels
import GoCrypt.Driver.State

namespace GoCrypt.Driver
open Bytes GoCrypt

def blockOfBytes (b : Bytes) : Array UInt64 := Id.run do
  let a := b.toArray
  let mut out : Array UInt64 := Array.mkEmpty 128
  for i in [0:128] do
    let mut w : UInt64 := 0
    for k in [0:8] do
      w := w ||| ((a.getD (i * 8 + k) 0).toUInt64 <<< (UInt64.ofNat (8 * k)))
    out := out.push w
  return out

def bytesOfBlock (blk : Array UInt64) : Bytes :=
  blk.toList.flatMap fun w => (List.range 8).map fun k => (w >>> (UInt64.ofNat (8 * k))).toUInt8

def handleArgon2 : List String → Option String
  | ["argon2key", mode, ver, pw, salt, t, m, p, kl] => do
    let pw ← ofHex pw
    let salt ← ofHex salt
    pure (toHex (Kdf.Argon2.key mode.toNat! ver.toNat! pw salt t.toNat! m.toNat! p.toNat! kl.toNat!))
  | ["argon2rfc", mode, ver, pw, salt, t, m, p, kl] => do
    let pw ← ofHex pw
    let salt ← ofHex salt
    pure (toHex (Spec.Argon2Rfc.argon2 mode.toNat! ver.toNat! pw salt p.toNat! kl.toNat! m.toNat! t.toNat!))
  | ["hprime", n, inp] => do
    let inp ← ofHex inp
    pure (toHex (Kdf.Argon2.blake2bHash n.toNat! inp))
  | ["block", xor, out, in1, in2] => do
    let out ← ofHex out
    let in1 ← ofHex in1
    let in2 ← ofHex in2
    pure (toHex (bytesOfBlock (Kdf.Argon2.processBlock (blockOfBytes out) (blockOfBytes in1) (blockOfBytes in2) (xor == "1"))))
  | ["ialpha", r, lanes, segs, thr, n, sl, lane, idx] =>
    some (toString (Gen.argon2crypto.indexAlpha r.toNat! lanes.toNat! segs.toNat! thr.toNat! n.toNat! sl.toNat! lane.toNat! idx.toNat!))
  | _ => none

end GoCrypt.Driver
