import GoCrypt.Model.Scheme
import GoCrypt.Driver.State

namespace GoCrypt.Driver
open Bytes GoCrypt GoCrypt.Scheme

def showKeyRes : KeyRes → String
  | .ok k => "ok " ++ toHex k
  | .err e => s!"err {e.type} {e.num} {toHex e.str}"
  | .internal w => "internal " ++ w
  | .panic => "panic"

def parseKeyArgs : List String → Option KeyArgs
  | [pw, salt, rounds, memory, threads, optsNil, optPrefix, optVersion, optFlag, rand] => do
    let pw ← ofHex pw
    let salt ← ofHex salt
    let optPrefix ← ofHex optPrefix
    pure { password := pw, salt := salt, rounds := rounds.toNat!, memory := memory.toNat!, threads := threads.toNat!,
           optsNil := optsNil == "1", optPrefix := optPrefix, optVersion := optVersion.toNat!, optFlag := optFlag == "1",
           rand := rand.toNat! }
  | _ => none

def handleScheme : List String → Option String
  | "key" :: scheme :: args => do
    let S ← byName scheme
    let a ← parseKeyArgs args
    pure (showKeyRes (key S a))
  | "guards" :: scheme :: args => do
    let S ← byName scheme
    let a ← parseKeyArgs args
    match S.guards a with
    | .error e => pure s!"err {e.type} {e.num} {toHex e.str}"
    | .ok _ => pure "accept"
  | _ => none

end GoCrypt.Driver
