import GoCrypt.Model.Scheme
import GoCrypt.Driver.State
import GoCrypt.Driver.Codec
import GoCrypt.Spec.SecretSafe
import GoCrypt.Spec.FlowSem
import GoCrypt.Gen.Flow

namespace GoCrypt.Driver
open Bytes GoCrypt GoCrypt.Scheme

def showKeyRes : KeyRes → String
  | .ok k => "ok " ++ toHex k
  | .err e => s!"err {e.type} {e.num} {toHex e.str}"
  | .internal w => "internal " ++ w
  | .panic => "panic"

def parseKeyArgs : List String → Option KeyArgs
  | [pw, salt, rounds, memory, threads, optsNil, optPrefix, optVersion, optFlag, rand] => do
    let pw ← ofHex pw
    let salt ← ofHex salt
    let optPrefix ← ofHex optPrefix
    pure { password := pw, salt := salt, rounds := rounds.toNat!, memory := memory.toNat!, threads := threads.toNat!,
           optsNil := optsNil == "1", optPrefix := optPrefix, optVersion := optVersion.toNat!, optFlag := optFlag == "1",
           rand := rand.toNat! }
  | _ => none

def handleScheme : List String → Option String
  | "key" :: scheme :: args => do
    let S ← byName scheme
    let a ← parseKeyArgs args
    pure (showKeyRes (key S a))
  | "guards" :: scheme :: args => do
    let S ← byName scheme
    let a ← parseKeyArgs args
    match S.guards a with
    | .error e => pure s!"err {e.type} {e.num} {toHex e.str}"
    | .ok _ => pure "accept"
  | ["check", scheme, h, pw, rand] => do
    let S ← byName scheme
    let h ← ofHex h
    let pw ← ofHex pw
    pure (match check S h pw rand.toNat! with
      | .nil => "nil"
      | .mismatch => "mismatch"
      | .uerr e => showUErr e
      | .kerr e => s!"kerr {e.type} {e.num} {toHex e.str}"
      | .internal w => "internal " ++ w
      | .tagerr => "tagerr"
      | .panic => "panic")
  | ["params", scheme, h] => do
    let S ← byName scheme
    let h ← ofHex h
    pure (match params S h with
      | .error e => showUErr e
      | .ok a => s!"ok {toHex a.salt} {a.rounds} {a.memory} {a.threads} {toHex a.optPrefix} {a.optVersion} {if a.optFlag then 1 else 0}")
  | ["newhash", scheme, pw, rounds, memory, entropy] => do
    let S ← byName scheme
    let pw ← ofHex pw
    let entropy ← ofHex entropy
    pure (match newHash S { password := pw, rounds := rounds.toNat!, memory := memory.toNat!, entropy := entropy } with
      | .ok h used => s!"ok {toHex h} {used}"
      | .kerr e => s!"kerr {e.type} {e.num} {toHex e.str}"
      | .internal w => "internal " ++ w
      | .panic => "panic")
  | ["secretsafe", pkg] => do
    let prog ← match pkg with
      | "argon2" => some Gen.argon2.flowCheck | "bcrypt" => some Gen.bcrypt.flowCheck | "des" => some Gen.des.flowCheck
      | "desext" => some Gen.desext.flowCheck | "md5" => some Gen.md5.flowCheck | "nthash" => some Gen.nthash.flowCheck
      | "sha1" => some Gen.sha1.flowCheck | "sha256" => some Gen.sha256.flowCheck | "sha512" => some Gen.sha512.flowCheck
      | "sunmd5" => some Gen.sunmd5.flowCheck | _ => none
    if GoCrypt.Flow.secretSafe' prog then pure "safe" else
      -- name the first statement that breaks the discipline (the offending call site)
      let rec find (t : GoCrypt.Flow.Taint) (k : Nat) : List GoCrypt.Flow.FStmt → String
        | [] => "the mismatch sentinel is not guarded by exactly one constant-time comparison"
        | st :: rest => match GoCrypt.Flow.stepSafe' t st with
          | some t' => find t' (k + 1) rest
          | none => s!"statement {k}: {(toString (repr st)).replace "\n" " "}"
      pure ("unsafe " ++ ((find [] 0 prog).replace "  " " "))
  | "observed" :: _ => some "ok"     -- an implementation-only observation (the property's direct check); nothing to model
  | ["cache-facts", alias, ptrKeys] =>
    -- the protocol theorems of C08/C18 assume: getTypeInfo returns a private copy, entries are keyed by the dereferenced type
    some (if alias == "false" && ptrKeys == "false" then "protocol-ok" else "protocol-violated")
  | _ => none

end GoCrypt.Driver
